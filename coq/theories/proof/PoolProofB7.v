(* PoolModel (pool.OnDemandBlockTaskPool), proofs for C12 / liveness side of C10 - B7: the target statements follow from the invariant RECORDS at one configuration *)
From Ekit Require Import Common Conc PoolModel PoolProof PoolProof2 PoolProof4 PoolProof5 PoolProof6 PoolProof7 PoolProofB
  PoolProofB0 PoolProofBA PoolProofB1 PoolProofB2d PoolProofB2bd PoolProofB3d PoolProofB4d PoolProofB5d PoolProofB5bs PoolProofB6 PoolProofBR.
From Coq Require Import ZifyBool Arith PeanoNat.

(* agent-pool's sums and mine are the same function *)
Lemma tsum_bridge f l : PoolProof.tsum f l = PoolProofB0.tsum f l.
Proof. induction l as [|[t x] r IH]; cbn; [reflexivity|rewrite IH; reflexivity]. Qed.

Lemma tsum_all_zero f (l : list (tid * thr)) :
  (forall t x, lookup t l = Some x -> f x = 0) -> NoDup (tids l) -> PoolProofB0.tsum f l = 0.
Proof.
  induction l as [|[t x] r IH]; cbn [PoolProofB0.tsum tids map fst]; [reflexivity|]. intros H Hd.
  inversion Hd as [|a b Hni Hnd]; subst.
  rewrite (H t x) by (cbn; rewrite Nat.eqb_refl; reflexivity).
  rewrite IH; [reflexivity| |exact Hnd].
  intros t' x' Hl. apply (H t' x'). cbn. destruct (Nat.eqb t' t) eqn:E; [|exact Hl].
  apply Nat.eqb_eq in E. subst t'. exfalso. apply Hni.
  clear -Hl. induction r as [|[u y] r IH]; cbn in *; [discriminate|]. destruct (Nat.eqb t u) eqn:E.
  - apply Nat.eqb_eq in E. auto.
  - right. apply IH, Hl.
Qed.

Lemma bz_true b : 1 <= bz b -> b = true. Proof. destruct b; cbn; [reflexivity|lia]. Qed.
Lemma qempty_nil q : qempty q = true -> q = []. Proof. destruct q; [reflexivity|discriminate]. Qed.
Lemma pstate_eqb_refl_true a b : pstate_eqb a b = true -> a = b.
Proof. destruct a, b; cbn; intros H; try discriminate H; reflexivity. Qed.

Section AtOneConfiguration.
  Variables (P : params) (evs : list pev) (c : pcfg).
  Hypothesis He : exec pstep_cfg (pinit P) evs = Some c.
  Hypothesis Hpar : c_par c = P.
  Hypothesis Hinit : 1 <= i_init P.
  Hypothesis HA : invA c.
  Hypothesis HB : invB c.
  Hypothesis HP : invP c.
  Hypothesis HQ : invQ c.
  Hypothesis HG : invG c.
  Hypothesis HK : invK c.
  Hypothesis HR : invR c.
  Hypothesis H4 : Inv4 c.

  (* ---------- done_not_early ---------- *)
  Lemma grace_no_counted_worker : g_grace (c_gh c) = true ->
    forall t x, lookup t (c_thr c) = Some x -> g_cnt (pc x) = 0.
  Proof.
    intros Hg t x Hl. pose proof (k_grace2 c HK) as Z. rewrite Hg in Z.
    pose proof (tsum_zero_lookup _ _ _ _ (cnt_bad_nn true) Z Hl) as Z1. exact Z1.
  Qed.

  Lemma grace_queue_empty : g_grace (c_gh c) = true -> s_q (c_sh c) = [].
  Proof.
    intros Hg. pose proof (k_grace1 c HK) as Z. rewrite Hg in Z. cbn [bz] in Z.
    apply qempty_nil, bz_true. exact Z.
  Qed.

  Lemma held_zero_of_uncounted i x : g_cnt (pc x) = 0 -> held i x = 0.
  Proof. unfold held. destruct (pc x); cbn; intros H; try reflexivity; discriminate H. Qed.

  Lemma drain_zero_of_no_sn i x : g_sn (pc x) = 0 -> drain i x = 0.
  Proof. unfold drain. destruct (pc x); cbn; intros H; try reflexivity; discriminate H. Qed.

  Lemma no_sn_thread : g_now (c_gh c) = false -> forall t x, lookup t (c_thr c) = Some x -> g_sn (pc x) = 0.
  Proof.
    intros Hn t x Hl. pose proof (p_sn2 c HP) as Z. rewrite Hn in Z. cbn [bz] in Z.
    pose proof (tsum_ge_lookup (pcf g_sn) _ _ _ (pcf_nonneg _ g_sn_nn) Hl) as N. cbn [pcf] in N.
    pose proof (g_sn_nn (pc x)). lia.
  Qed.

  Theorem done_not_early_at : g_grace (c_gh c) = true ->
    s_q (c_sh c) = [] /\
    (forall t x, lookup t (c_thr c) = Some x -> g_cnt (pc x) = 0) /\
    (forall i, PoolProof.tsum (held i) (c_thr c) = 0) /\
    (forall i, In i (g_acc (c_gh c)) -> In i (g_done (c_gh c))).
  Proof.
    intros Hg.
    pose proof (grace_queue_empty Hg) as Hq. pose proof (grace_no_counted_worker Hg) as Hc.
    assert (Hnow : g_now (c_gh c) = false).
    { pose proof (p_grace3 c HP) as G3. pose proof (p_excl c HP) as Ex. rewrite Hg in G3. cbn [bz] in G3.
      pose proof (bz_true _ G3) as Hs. rewrite Hs in Ex. destruct (g_now (c_gh c)); cbn in Ex; [lia|reflexivity]. }
    assert (Hheld : forall i, PoolProof.tsum (held i) (c_thr c) = 0).
    { intros i. rewrite tsum_bridge. apply tsum_all_zero; [|apply (a_nodup c HA)].
      intros t x Hl. apply held_zero_of_uncounted, (Hc t x Hl). }
    split; [exact Hq|]. split; [exact Hc|]. split; [exact Hheld|].
    intros i Hi. pose proof (accepted_in_ledger_lemma P evs c He i Hi) as L.
    rewrite Hq, (Hheld i) in L. cbn [ids map cnt] in L.
    assert (Hd : PoolProof.tsum (drain i) (c_thr c) = 0).
    { rewrite tsum_bridge. apply tsum_all_zero; [|apply (a_nodup c HA)].
      intros t x Hl. apply drain_zero_of_no_sn, (no_sn_thread Hnow t x Hl). }
    rewrite Hd, (r_ret c HR Hnow) in L. cbn [cnt] in L. apply cnt_in. lia.
  Qed.

  (* ---------- stuck configurations ---------- *)
  Hypothesis Hst : stuck c.

  Lemma stuck_sum_zero g : g WParked = 0 -> PoolProofB0.tsum (pcf g) (c_thr c) = 0.
  Proof.
    intros Hg. apply tsum_all_zero; [|apply (a_nodup c HA)]. intros t x Hl.
    destruct (stuck_all_parked c HA HB HP HG H4 Hst t x Hl) as [Hp _]. cbn [pcf]. rewrite Hp. exact Hg.
  Qed.

  Lemma stuck_shut_no_threads : g_shut (c_gh c) = true -> c_thr c = [].
  Proof.
    intros Hs. apply (stuck_no_threads_if c HA HB HP HQ HG H4 Hst). left.
    pose proof (p_shut_closed c HP) as Z. rewrite Hs, (stuck_sum_zero g_shclose eq_refl) in Z. cbn [bz] in Z.
    apply bz_true. lia.
  Qed.

  Theorem shutdown_completes_at : g_shut (c_gh c) = true ->
    s_state (c_sh c) = SStopped /\ s_ictx (c_sh c) = true /\
    (forall i, In i (g_acc (c_gh c)) -> In i (g_done (c_gh c))).
  Proof.
    intros Hs. pose proof (stuck_shut_no_threads Hs) as Hn.
    assert (Ht : s_total (c_sh c) = 0) by (rewrite (d_total c HG), Hn; reflexivity).
    assert (Hstop : s_state (c_sh c) = SStopped).
    { pose proof (p_shut c HP) as D. rewrite Hs in D. cbn [bz] in D. apply bz_true in D.
      pose proof (k_J c HK) as J. rewrite Ht, Hn in J. cbn [PoolProofB0.tsum Z.eqb bz] in J. unfold eqst in J.
      destruct (s_state (c_sh c)); cbn in D, J; try discriminate D; [lia|reflexivity]. }
    assert (Hgr : g_grace (c_gh c) = true).
    { pose proof (p_graceful c HP) as G. rewrite Hstop, Hs, Hn in G. cbn [eqst pstate_eqb bz PoolProofB0.tsum] in G.
      apply bz_true. lia. }
    split; [exact Hstop|]. split.
    - pose proof (p_grace2 c HP) as G2. rewrite Hgr in G2. cbn [bz] in G2. apply bz_true, G2.
    - apply (done_not_early_at Hgr).
  Qed.

  Theorem stuck_running_queue_empty_at : s_state (c_sh c) = SRunning -> s_q (c_sh c) = [].
  Proof.
    intros Hr. destruct (s_q (c_sh c)) as [|k q] eqn:Eq; [reflexivity|exfalso].
    assert (Hn : c_thr c = []).
    { apply (stuck_no_threads_if c HA HB HP HQ HG H4 Hst). right. right. rewrite Eq. discriminate. }
    pose proof (k_main c HK) as K. rewrite Hn, Hr, Hpar in K. cbn [PoolProofB0.tsum eqst pstate_eqb bz] in K.
    pose proof (p_nbegan1 c HP) as Nb. rewrite Hr in Nb. cbn [eqst pstate_eqb bz] in Nb.
    pose proof (p_closed c HP) as Cl. rewrite Hr in Cl. cbn [downb bz] in Cl.
    pose proof (bz_range (g_began (c_gh c))). pose proof (bz_range (s_closed (c_sh c))).
    destruct K as [K|[[K _]|K]]; [lia| |lia]. rewrite K in Cl. cbn [bz] in Cl. lia.
  Qed.

  Theorem at_quiescence_none_lost_at :
    g_shut (c_gh c) = true \/ g_now (c_gh c) = true ->
    forall i, In i (g_acc (c_gh c)) -> In i (g_done (c_gh c)) \/ In i (g_returned (c_gh c)).
  Proof.
    intros [Hs|Hn] i Hi.
    - left. apply (shutdown_completes_at Hs), Hi.
    - assert (Hth : c_thr c = []).
      { apply (stuck_no_threads_if c HA HB HP HQ HG H4 Hst). left.
        pose proof (p_now_closed c HP) as Z. rewrite Hn, (stuck_sum_zero g_snclose eq_refl) in Z. cbn [bz] in Z.
        apply bz_true. lia. }
      assert (Hq : s_q (c_sh c) = []).
      { pose proof (p_now_q c HP) as Z. rewrite Hn, Hth in Z. cbn [bz PoolProofB0.tsum] in Z. apply qempty_nil, bz_true. lia. }
      pose proof (accepted_in_ledger_lemma P evs c He i Hi) as L.
      rewrite Hq, Hth in L. cbn [ids map cnt PoolProof.tsum] in L.
      pose proof (cnt_nonneg i (g_done (c_gh c))). pose proof (cnt_nonneg i (g_returned (c_gh c))).
      destruct (Z_lt_le_dec (cnt i (g_done (c_gh c))) 1); [right|left]; apply cnt_in; lia.
  Qed.
End AtOneConfiguration.
