(* Pointer-level red-black tree (RBPtrModel.v): proof infrastructure.
   heap lemmas, id-decorated ghost trees [itree] with the representation predicates [irep] (subtree) and
   [ictx] (path to the root), frame lemmas, the symbolic-execution tactics, and the two rotations. *)
From Ekit Require Import Common RBModel RBPtrModel.
From Coq Require Import FMapPositive.

(* ---------- heap ---------- *)
Lemma hgss h i n : hget (hset h i n) i = Some n.
Proof. unfold hget, hset. apply PositiveMap.gss. Qed.
Lemma hgso h i j n : i <> j -> hget (hset h i n) j = hget h j.
Proof. intro Hne. unfold hget, hset. apply PositiveMap.gso. congruence. Qed.
Lemma hgempty i : hget hempty i = None.
Proof. unfold hget, hempty. apply PositiveMap.gempty. Qed.
Global Opaque hget hset.
Arguments hget : simpl never.
Arguments hset : simpl never.

Lemma ptr_eqb_refl p : ptr_eqb p p = true.
Proof. destruct p as [i|]; cbn; [apply Pos.eqb_refl|reflexivity]. Qed.
Lemma ptr_eqb_some_neq i j : i <> j -> ptr_eqb (Some i) (Some j) = false.
Proof. intro Hne. cbn. apply Pos.eqb_neq. exact Hne. Qed.
Lemma ptr_eqb_some_none i : ptr_eqb (Some i) None = false.
Proof. reflexivity. Qed.
Lemma ptr_eqb_none_some i : ptr_eqb None (Some i) = false.
Proof. reflexivity. Qed.
Lemma ptr_eqb_eq p q : ptr_eqb p q = true -> p = q.
Proof. destruct p as [i|], q as [j|]; cbn; intro H; try discriminate; [apply Pos.eqb_eq in H; congruence|reflexivity]. Qed.

(* ---------- id lists ---------- *)
Definition disj (l1 l2 : list id) : Prop := forall x, In x l1 -> ~ In x l2.
Definition same (l1 l2 : list id) : Prop := forall x, In x l1 <-> In x l2.

Lemma NoDup_cons_inv (x : id) l : NoDup (x :: l) -> ~ In x l /\ NoDup l.
Proof. intro H. inversion H; subst. split; assumption. Qed.
Lemma NoDup_app_inv (l1 l2 : list id) : NoDup (l1 ++ l2) -> NoDup l1 /\ NoDup l2 /\ disj l1 l2.
Proof.
  induction l1 as [|a l1 IH]; cbn; intro H.
  - split; [constructor|]. split; [assumption|]. intros x Hx; destruct Hx.
  - inversion H as [|a' l' Hni Hnd]; subst. destruct (IH Hnd) as (H1 & H2 & H3).
    split; [constructor; [intro Hin; apply Hni; apply in_or_app; left; exact Hin|exact H1]|].
    split; [exact H2|]. intros x [Hx|Hx] Hx2; [subst; apply Hni; apply in_or_app; right; exact Hx2|exact (H3 x Hx Hx2)].
Qed.
Lemma NoDup_app_intro (l1 l2 : list id) : NoDup l1 -> NoDup l2 -> disj l1 l2 -> NoDup (l1 ++ l2).
Proof.
  induction l1 as [|a l1 IH]; cbn; intros H1 H2 H3; [exact H2|].
  inversion H1 as [|a' l' Hni Hnd]; subst. constructor.
  - intro Hin. apply in_app_or in Hin. destruct Hin as [Hin|Hin]; [exact (Hni Hin)|exact (H3 a (or_introl eq_refl) Hin)].
  - apply IH; [exact Hnd|exact H2|]. intros x Hx. apply H3. right. exact Hx.
Qed.
Lemma disj_sym l1 l2 : disj l1 l2 -> disj l2 l1.
Proof. intros H x Hx Hx2. exact (H x Hx2 Hx). Qed.
Lemma disj_cons_l x l1 l2 : disj (x :: l1) l2 -> ~ In x l2 /\ disj l1 l2.
Proof. intro H. split; [apply H; left; reflexivity|intros y Hy; apply H; right; exact Hy]. Qed.
Lemma disj_cons_l_intro x l1 l2 : ~ In x l2 -> disj l1 l2 -> disj (x :: l1) l2.
Proof. intros H1 H2 y [Hy|Hy]; [subst; exact H1|exact (H2 y Hy)]. Qed.
Lemma disj_app_l a b l2 : disj (a ++ b) l2 -> disj a l2 /\ disj b l2.
Proof. intro H. split; intros y Hy; apply H; apply in_or_app; [left|right]; exact Hy. Qed.
Lemma disj_app_l_intro a b l2 : disj a l2 -> disj b l2 -> disj (a ++ b) l2.
Proof. intros H1 H2 y Hy. apply in_app_or in Hy. destruct Hy as [Hy|Hy]; [exact (H1 y Hy)|exact (H2 y Hy)]. Qed.
Lemma disj_cons_r x l1 l2 : disj l1 (x :: l2) -> ~ In x l1 /\ disj l1 l2.
Proof. intro H. apply disj_sym in H. apply disj_cons_l in H. destruct H as [H1 H2]. split; [exact H1|apply disj_sym; exact H2]. Qed.
Lemma disj_cons_r_intro x l1 l2 : ~ In x l1 -> disj l1 l2 -> disj l1 (x :: l2).
Proof. intros H1 H2. apply disj_sym. apply disj_cons_l_intro; [exact H1|apply disj_sym; exact H2]. Qed.
Lemma disj_app_r a b l1 : disj l1 (a ++ b) -> disj l1 a /\ disj l1 b.
Proof. intro H. apply disj_sym in H. apply disj_app_l in H. destruct H as [H1 H2]. split; apply disj_sym; assumption. Qed.
Lemma disj_app_r_intro a b l1 : disj l1 a -> disj l1 b -> disj l1 (a ++ b).
Proof. intros H1 H2. apply disj_sym. apply disj_app_l_intro; apply disj_sym; assumption. Qed.
Lemma disj_nil_l l : disj [] l.
Proof. intros x Hx; destruct Hx. Qed.
Lemma disj_nil_r l : disj l [].
Proof. intros x _ Hx; destruct Hx. Qed.
Lemma notin_cons (x y : id) l : ~ In x (y :: l) -> x <> y /\ ~ In x l.
Proof. intro H. split; [intro Heq; apply H; left; congruence|intro Hin; apply H; right; exact Hin]. Qed.
Lemma notin_cons_intro (x y : id) l : x <> y -> ~ In x l -> ~ In x (y :: l).
Proof. intros H1 H2 [H|H]; [apply H1; congruence|exact (H2 H)]. Qed.
Lemma notin_app (x : id) a b : ~ In x (a ++ b) -> ~ In x a /\ ~ In x b.
Proof. intro H. split; intro Hin; apply H; apply in_or_app; [left|right]; exact Hin. Qed.
Lemma notin_app_intro (x : id) a b : ~ In x a -> ~ In x b -> ~ In x (a ++ b).
Proof. intros H1 H2 Hin. apply in_app_or in Hin. destruct Hin as [Hin|Hin]; [exact (H1 Hin)|exact (H2 Hin)]. Qed.
Lemma notin_nil (x : id) : ~ In x [].
Proof. intro H; exact H. Qed.

(* saturate the context with the atomic consequences of the NoDup / disj / ~In hypotheses *)
Ltac nd_sat :=
  repeat match goal with
  | H : NoDup (_ :: _) |- _ => apply NoDup_cons_inv in H; destruct H as [? H]
  | H : NoDup (_ ++ _) |- _ => apply NoDup_app_inv in H; destruct H as (? & ? & ?)
  | H : NoDup [] |- _ => clear H
  | H : disj (_ :: _) _ |- _ => apply disj_cons_l in H; destruct H as [? H]
  | H : disj (_ ++ _) _ |- _ => apply disj_app_l in H; destruct H as [? ?]
  | H : disj [] _ |- _ => clear H
  | H : disj _ (_ :: _) |- _ => apply disj_cons_r in H; destruct H as [? H]
  | H : disj _ (_ ++ _) |- _ => apply disj_app_r in H; destruct H as [? ?]
  | H : disj _ [] |- _ => clear H
  | H : ~ In _ (_ :: _) |- _ => apply notin_cons in H; destruct H as [? H]
  | H : ~ In _ (_ ++ _) |- _ => apply notin_app in H; destruct H as [? ?]
  | H : ~ In _ [] |- _ => clear H
  end.
Ltac neq := first [assumption | apply not_eq_sym; assumption].
Ltac nd_atom :=
  match goal with
  | |- _ <> _ => first [assumption | apply not_eq_sym; assumption]
  | |- disj _ _ => first [assumption | apply disj_sym; assumption]
  | |- _ => assumption
  end.
Ltac nd_goal :=
  repeat match goal with
  | |- NoDup [] => apply NoDup_nil
  | |- NoDup (_ :: _) => apply NoDup_cons
  | |- NoDup (_ ++ _) => apply NoDup_app_intro
  | |- disj [] _ => apply disj_nil_l
  | |- disj _ [] => apply disj_nil_r
  | |- disj (_ :: _) _ => apply disj_cons_l_intro
  | |- disj (_ ++ _) _ => apply disj_app_l_intro
  | |- disj _ (_ :: _) => apply disj_cons_r_intro
  | |- disj _ (_ ++ _) => apply disj_app_r_intro
  | |- ~ In _ [] => apply notin_nil
  | |- ~ In _ (_ :: _) => apply notin_cons_intro
  | |- ~ In _ (_ ++ _) => apply notin_app_intro
  end; try nd_atom.

(* ---------- ghost trees: the algebraic tree decorated with the ids of its nodes ---------- *)
(* IP: the "phantom" of deleteNode — a childless black node still linked while fixAfterDelete runs on it;
   the recursive model sees an empty subtree there *)
Inductive itree := IE | IP (i : id) (k v : Z) | IT (i : id) (c : color) (l : itree) (k v : Z) (r : itree).

Definition rid (t : itree) : ptr :=
  match t with IE => None | IP i _ _ => Some i | IT i _ _ _ _ _ => Some i end.
Definition icol (t : itree) : color :=
  match t with IE => Black | IP _ _ _ => Black | IT _ c _ _ _ _ => c end.
Fixpoint erase (t : itree) : tree :=
  match t with IE => E | IP _ _ _ => E | IT _ c l k v r => T c (erase l) k v (erase r) end.
Fixpoint ids (t : itree) : list id :=
  match t with IE => [] | IP i _ _ => [i] | IT i _ l _ _ r => i :: ids l ++ ids r end.
Fixpoint phs (t : itree) : list id :=
  match t with IE => [] | IP i _ _ => [i] | IT _ _ l _ _ r => phs l ++ phs r end.
(* the heap holds t at rid t, and the parent field of its root is p *)
Fixpoint irep (h : heap) (t : itree) (p : ptr) : Prop :=
  match t with
  | IE => True
  | IP i k v => hget h i = Some (mkn Black k v None None p)
  | IT i c l k v r =>
      hget h i = Some (mkn c k v (rid l) (rid r) p) /\ irep h l (Some i) /\ irep h r (Some i)
  end.

Lemma col_erase t : col (erase t) = icol t.
Proof. destruct t; reflexivity. Qed.

(* contexts: the path from a hole up to the root, nearest frame first *)
Inductive iframe :=
| IFL (i : id) (c : color) (k v : Z) (r : itree)      (* the hole is the LEFT child of node i *)
| IFR (i : id) (c : color) (l : itree) (k v : Z).     (* the hole is the RIGHT child of node i *)
Definition fid f := match f with IFL i _ _ _ _ => i | IFR i _ _ _ _ => i end.
Definition fcol f := match f with IFL _ c _ _ _ => c | IFR _ c _ _ _ => c end.
Definition fsib f := match f with IFL _ _ _ _ r => r | IFR _ _ l _ _ => l end.
Definition ictxt := list iframe.
Definition cpar (ctx : ictxt) : ptr := match ctx with [] => None | f :: _ => Some (fid f) end.
Definition fids f := fid f :: ids (fsib f).
Fixpoint cids (ctx : ictxt) : list id :=
  match ctx with [] => [] | f :: rest => fid f :: ids (fsib f) ++ cids rest end.
Fixpoint cphs (ctx : ictxt) : list id :=
  match ctx with [] => [] | f :: rest => phs (fsib f) ++ cphs rest end.
Fixpoint ictx (h : heap) (rt : ptr) (ctx : ictxt) (hole : ptr) : Prop :=
  match ctx with
  | [] => rt = hole
  | IFL i c k v r :: rest =>
      hget h i = Some (mkn c k v hole (rid r) (cpar rest)) /\ irep h r (Some i) /\ ictx h rt rest (Some i)
  | IFR i c l k v :: rest =>
      hget h i = Some (mkn c k v (rid l) hole (cpar rest)) /\ irep h l (Some i) /\ ictx h rt rest (Some i)
  end.
Fixpoint iplug (ctx : ictxt) (t : itree) : itree :=
  match ctx with
  | [] => t
  | IFL i c k v r :: rest => iplug rest (IT i c t k v r)
  | IFR i c l k v :: rest => iplug rest (IT i c l k v t)
  end.

(* a configuration: the whole tree of the heap = ctx[t] *)
Definition cfg (h : heap) (rt : ptr) (ctx : ictxt) (t : itree) : Prop :=
  ictx h rt ctx (rid t) /\ irep h t (cpar ctx) /\ NoDup (ids t ++ cids ctx).

(* ---------- frame lemmas ---------- *)
Lemma irep_hset_other h i n t p : ~ In i (ids t) -> irep h t p -> irep (hset h i n) t p.
Proof.
  revert p. induction t as [|j k v|j c l IHl k v r IHr]; intros p Hni H; cbn in *.
  - exact I.
  - rewrite hgso; [exact H|]. intro Heq; apply Hni; left; exact (eq_sym Heq).
  - apply notin_cons in Hni. destruct Hni as [Hne Hni]. apply notin_app in Hni. destruct Hni as [Hl Hr].
    destruct H as (Hn & H1 & H2). split; [rewrite hgso; [exact Hn|exact Hne]|].
    split; [apply IHl; assumption|apply IHr; assumption].
Qed.
Lemma ictx_hset_other h rt i n ctx hole : ~ In i (cids ctx) -> ictx h rt ctx hole -> ictx (hset h i n) rt ctx hole.
Proof.
  revert hole. induction ctx as [|f rest IH]; intros hole Hni H; cbn in *; [exact H|].
  apply notin_cons in Hni. destruct Hni as [Hne Hni]. apply notin_app in Hni. destruct Hni as [Hs Hr].
  destruct f as [j c k v r|j c l k v]; cbn in *; destruct H as (Hn & H1 & H2);
    (split; [rewrite hgso; [exact Hn|exact Hne]|]);
    (split; [apply irep_hset_other; assumption|apply IH; assumption]).
Qed.
(* the parent field of the root of t can be redirected *)
Lemma irep_reparent h t p p' i n :
  irep h t p -> rid t = Some i -> hget h i = Some n -> NoDup (ids t) ->
  irep (hset h i (with_par p' n)) t p'.
Proof.
  intros H Hr Hn Hnd. destruct t as [|j k v|j c l k v r]; cbn in *; try discriminate.
  - injection Hr as ->. rewrite H in Hn. injection Hn as <-. rewrite hgss. reflexivity.
  - injection Hr as ->. destruct H as (Hi & H1 & H2). rewrite Hi in Hn. injection Hn as <-.
    nd_sat. rewrite hgss. split; [reflexivity|]. split; apply irep_hset_other; assumption.
Qed.
Lemma irep_root h t p i : irep h t p -> rid t = Some i -> exists n, hget h i = Some n /\ npar n = p.
Proof.
  intros H Hr. destruct t as [|j k v|j c l k v r]; cbn in *; try discriminate; injection Hr as ->.
  - eexists; split; [exact H|reflexivity].
  - destruct H as (Hi & _). eexists; split; [exact Hi|reflexivity].
Qed.
Lemma rid_in t i : rid t = Some i -> In i (ids t).
Proof. destruct t; cbn; intro H; try discriminate; injection H as ->; left; reflexivity. Qed.
Lemma rid_neq t i : ~ In i (ids t) -> ptr_eqb (rid t) (Some i) = false.
Proof.
  intro Hni. destruct (rid t) as [j|] eqn:Hr; [|reflexivity].
  apply ptr_eqb_some_neq. intro Heq. subst. apply Hni. apply rid_in. exact Hr.
Qed.
Lemma rid_neq' t i : ~ In i (ids t) -> ptr_eqb (Some i) (rid t) = false.
Proof.
  intro Hni. destruct (rid t) as [j|] eqn:Hr; [|reflexivity].
  apply ptr_eqb_some_neq. intro Heq. subst. apply Hni. apply rid_in. exact Hr.
Qed.

(* the root pointer is the id of the outermost frame *)
Lemma ictx_root h rt ctx hole : ictx h rt ctx hole -> ctx <> [] -> exists i, rt = Some i /\ In i (cids ctx).
Proof.
  revert hole. induction ctx as [|f rest IH]; intros hole H Hne; [congruence|].
  destruct rest as [|g rest'].
  - exists (fid f). destruct f; cbn in *; destruct H as (_ & _ & H); split; [exact H|left; reflexivity| exact H|left; reflexivity].
  - assert (Hx : exists i, rt = Some i /\ In i (cids (g :: rest'))).
    { destruct f; cbn [ictx] in H; destruct H as (_ & _ & H); apply (IH _ H); discriminate. }
    destruct Hx as (i & Hi & Hin). exists i. split; [exact Hi|].
    cbn [cids]. right. apply in_or_app. right. exact Hin.
Qed.

(* ---------- symbolic execution ---------- *)
Lemma bind_ok {A B} (m : M A) (k : A -> M B) s a s' : m s = ROk a s' -> bind m k s = k a s'.
Proof. intro H. unfold bind. rewrite H. reflexivity. Qed.

Ltac hsimp :=
  repeat match goal with
  | |- context[hget (hset ?h ?i ?n) ?j] =>
      first [ constr_eq i j; rewrite (hgss h i n)
            | rewrite (hgso h i j n) by neq ]
  | H : hget ?h ?i = Some _ |- context[hget ?h ?i] => rewrite H
  | |- context[ptr_eqb ?p ?p] => rewrite (ptr_eqb_refl p)
  | |- context[ptr_eqb (Some ?i) None] => rewrite (ptr_eqb_some_none i)
  | |- context[ptr_eqb None (Some ?i)] => rewrite (ptr_eqb_none_some i)
  | |- context[Pos.eqb ?p ?p] => rewrite (Pos.eqb_refl p)
  | |- context[ptr_eqb (Some ?i) (Some ?j)] => rewrite (ptr_eqb_some_neq i j) by neq
  | |- context[Pos.eqb ?i ?j] => rewrite (proj2 (Pos.eqb_neq i j)) by neq
  | |- context[ptr_eqb (rid ?t) (Some ?i)] => rewrite (rid_neq t i) by assumption
  | |- context[ptr_eqb (Some ?i) (rid ?t)] => rewrite (rid_neq' t i) by assumption
  end.
Ltac munfold :=
  unfold fixUncleRed, getUncle, getGrandParent, getBrother, getColor, setColor, getParent, getLeft, getRight, setNode,
         set_col, set_key, set_val, set_left, set_right, set_par, fld, load, store, get_root, set_root, get_size, set_size,
         bind, ret.
Ltac mstep :=
  cbn [pheap proot psize pnext pcalls isnil negb andb
       ncol nkey nval nleft nright npar with_col with_key with_val with_left with_right with_par];
  hsimp.
Ltac mrun := repeat (progress mstep).
Ltac irep_frame := solve [repeat first [assumption | apply irep_hset_other; [assumption|]]].
Ltac ictx_frame := solve [repeat first [assumption | apply ictx_hset_other; [assumption|]]].
Ltac fin := try reflexivity; try assumption; first [ irep_frame | ictx_frame | solve [nd_goal] | idtac ].
Ltac dands := repeat match goal with H : _ /\ _ |- _ => destruct H end.

Section Rot.
  Variable cmp : Z -> Z -> Z.

  Lemma rotateLeft_spec h rt sz nx cl ctx n c a k v r c' b k' v' d :
    cfg h rt ctx (IT n c a k v (IT r c' b k' v' d)) ->
    exists h' rt', rotateLeft (Some n) (mkst h rt sz nx cl) = ROk tt (mkst h' rt' sz nx cl) /\
      cfg h' rt' ctx (IT r c' (IT n c a k v b) k' v' d).
  Proof.
    intros (Hc & Hr & Hnd). cbn [rid] in Hc.
    destruct ctx as [|[p pc pk pv ps|p pc pl pk pv] rest]; cbn [ictx irep cpar fid cids ids fsib] in *; dands; nd_sat;
    destruct b as [|bi bk bv|bi bc bl bk bv br]; cbn [irep rid ids] in *; dands; nd_sat.
    all: eexists; eexists; (split; [unfold rotateLeft; munfold; mrun; reflexivity|]).
    all: unfold cfg; cbn [ictx irep cpar fid cids ids fsib rid].
    all: repeat split; hsimp; fin.
  Qed.

  Lemma rotateRight_spec h rt sz nx cl ctx n c l c' a k' v' b k v d :
    cfg h rt ctx (IT n c (IT l c' a k' v' b) k v d) ->
    exists h' rt', rotateRight (Some n) (mkst h rt sz nx cl) = ROk tt (mkst h' rt' sz nx cl) /\
      cfg h' rt' ctx (IT l c' a k' v' (IT n c b k v d)).
  Proof.
    intros (Hc & Hr & Hnd). cbn [rid] in Hc.
    destruct ctx as [|[p pc pk pv ps|p pc pl pk pv] rest]; cbn [ictx irep cpar fid cids ids fsib] in *; dands; nd_sat;
    destruct b as [|bi bk bv|bi bc bl bk bv br]; cbn [irep rid ids] in *; dands; nd_sat.
    all: eexists; eexists; (split; [unfold rotateRight; munfold; mrun; reflexivity|]).
    all: unfold cfg; cbn [ictx irep cpar fid cids ids fsib rid].
    all: repeat split; hsimp; fin.
  Qed.
End Rot.

(* ---------- plugging a subtree back into its context ---------- *)
Definition iplug1 (f : iframe) (t : itree) : itree :=
  match f with IFL i c k v r => IT i c t k v r | IFR i c l k v => IT i c l k v t end.
Lemma iplug_cons f rest t : iplug (f :: rest) t = iplug rest (iplug1 f t).
Proof. destruct f; reflexivity. Qed.

Lemma cfg_up h rt f rest t : cfg h rt (f :: rest) t -> cfg h rt rest (iplug1 f t).
Proof.
  intros (Hc & Hr & Hnd). destruct f as [i c k v r|i c l k v]; cbn [ictx irep cpar fid cids ids fsib iplug1 rid] in *;
    dands; nd_sat; unfold cfg; cbn [irep ids rid]; repeat split; fin.
Qed.
Lemma cfg_plug h rt ctx t : cfg h rt ctx t -> cfg h rt [] (iplug ctx t).
Proof.
  revert t. induction ctx as [|f rest IH]; intros t H; [exact H|].
  rewrite iplug_cons. apply IH. apply cfg_up. exact H.
Qed.

(* the pure contexts of the recursive model's trees *)
Inductive frame := FL (c : color) (k v : Z) (r : tree) | FR (c : color) (l : tree) (k v : Z).
Definition plug1 (f : frame) (t : tree) : tree :=
  match f with FL c k v r => T c t k v r | FR c l k v => T c l k v t end.
Fixpoint plug (ctx : list frame) (t : tree) : tree :=
  match ctx with [] => t | f :: rest => plug rest (plug1 f t) end.
Definition eframe (f : iframe) : frame :=
  match f with IFL _ c k v r => FL c k v (erase r) | IFR _ c l k v => FR c (erase l) k v end.
Definition ectx (ctx : ictxt) : list frame := map eframe ctx.

Lemma erase_iplug1 f t : erase (iplug1 f t) = plug1 (eframe f) (erase t).
Proof. destruct f; reflexivity. Qed.
Lemma erase_iplug ctx t : erase (iplug ctx t) = plug (ectx ctx) (erase t).
Proof.
  revert t. induction ctx as [|f rest IH]; intro t; [reflexivity|].
  rewrite iplug_cons, IH, erase_iplug1. reflexivity.
Qed.

Lemma same_refl l : same l l.
Proof. intro x; tauto. Qed.
Lemma same_sym l1 l2 : same l1 l2 -> same l2 l1.
Proof. intros H x; specialize (H x); tauto. Qed.
Lemma same_trans l1 l2 l3 : same l1 l2 -> same l2 l3 -> same l1 l3.
Proof. intros H1 H2 x; specialize (H1 x); specialize (H2 x); tauto. Qed.
(* proves [same] between explicit list expressions *)
Ltac in_solve :=
  match goal with
  | H : ?P |- ?P => exact H
  | |- _ \/ _ => first [left; in_solve | right; in_solve]
  end.
Ltac same_tac :=
  let Hs := fresh "Hs" in
  intro; cbn [In ids phs cids cphs fsib fid app iplug1]; repeat first [rewrite in_app_iff | progress cbn [In]];
  split; intro Hs; repeat (destruct Hs as [Hs|Hs]); try contradiction; in_solve.

(* [same] goals that follow from one [same] hypothesis H about sub-lists *)
Ltac same_via H :=
  let j := fresh "j" in let H1 := fresh "H1" in let H2 := fresh "H2" in let Hs := fresh "Hs" in let K := fresh "K" in
  intro j; specialize (H j);
  cbn [In ids phs cids cphs fsib fid app iplug1] in H |- *;
  repeat first [rewrite in_app_iff in H | progress cbn [In] in H];
  repeat first [rewrite in_app_iff | progress cbn [In]];
  destruct H as [H1 H2]; split; intro Hs; repeat (destruct Hs as [Hs|Hs]); try contradiction;
  first [ in_solve
        | assert (K := H1 ltac:(in_solve)); repeat (destruct K as [K|K]); try contradiction; in_solve
        | assert (K := H2 ltac:(in_solve)); repeat (destruct K as [K|K]); try contradiction; in_solve ].

Lemma ids_iplug ctx t : same (ids (iplug ctx t)) (ids t ++ cids ctx).
Proof.
  revert t. induction ctx as [|f rest IH]; intro t.
  - cbn [iplug cids]. rewrite app_nil_r. apply same_refl.
  - eapply same_trans; [rewrite iplug_cons; apply IH|]. destruct f; same_tac.
Qed.
Lemma phs_iplug ctx t : same (phs (iplug ctx t)) (phs t ++ cphs ctx).
Proof.
  revert t. induction ctx as [|f rest IH]; intro t.
  - cbn [iplug cphs]. rewrite app_nil_r. apply same_refl.
  - eapply same_trans; [rewrite iplug_cons; apply IH|]. destruct f; same_tac.
Qed.
