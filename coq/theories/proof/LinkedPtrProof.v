(* Proofs about model/LinkedPtrModel.v, the pointer-level transcription of /repo/list/linked_list.go (C04):
   the representation invariant ll_rep / ll_wf is established by NewLinkedList(Of) and preserved by every
   operation; every call returns what ListModel's LinkedList (hence the abstract sequence) returns on the
   values of the forward chain; failed calls return the very same state; AsSlice allocates; Delete unlinks
   exactly one node; findNode follows at most len/2+1 links. *)
From Coq Require Import ZifyBool FMapPositive.
From Ekit Require Import Common ListModel ListProof ListProof2 LinkedPtrModel.

(* ====================================================================== *)
(* A. the heap                                                             *)
(* ====================================================================== *)
Lemma hfind_hset_same : forall h i n, hfind (hset h i n) i = Some n.
Proof. intros h i n. unfold hfind, hset. apply PositiveMap.gss. Qed.

Lemma hfind_hset_other : forall h i j n, j <> i -> hfind (hset h i n) j = hfind h j.
Proof. intros h i j n Hne. unfold hfind, hset. apply PositiveMap.gso. exact Hne. Qed.

Lemma afind_aset_same : forall h i n, afind (aset h i n) i = Some n.
Proof. intros h i n. unfold afind, aset. apply PositiveMap.gss. Qed.

Lemma afind_aset_other : forall h i j n, j <> i -> afind (aset h i n) j = afind h j.
Proof. intros h i j n Hne. unfold afind, aset. apply PositiveMap.gso. exact Hne. Qed.

(* p.f = x as a heap transformer *)
Definition hupd (h : nheap) (i : nid) (g : lnode -> lnode) : nheap :=
  match hfind h i with Some n => hset h i (g n) | None => h end.

Lemma fget_hset_same : forall A (f : lnode -> A) h i n, fget f (hset h i n) i = Some (f n).
Proof. intros A f h i n. unfold fget. rewrite hfind_hset_same. reflexivity. Qed.

Lemma fget_hset_other : forall A (f : lnode -> A) h i j n, j <> i -> fget f (hset h i n) j = fget f h j.
Proof. intros A f h i j n Hne. unfold fget. rewrite hfind_hset_other by exact Hne. reflexivity. Qed.

Lemma fget_hupd_other : forall A (f : lnode -> A) h i j g, j <> i -> fget f (hupd h i g) j = fget f h j.
Proof.
  intros A f h i j g Hne. unfold hupd. destruct (hfind h i) as [n|] eqn:E; [|reflexivity].
  apply fget_hset_other. exact Hne.
Qed.

Lemma fget_hupd_frame : forall A (f : lnode -> A) h i j g,
  (forall n, f (g n) = f n) -> fget f (hupd h i g) j = fget f h j.
Proof.
  intros A f h i j g Hfg. unfold hupd. destruct (hfind h i) as [n|] eqn:E; [|reflexivity].
  destruct (Pos.eq_dec j i) as [->|Hne].
  - rewrite fget_hset_same. unfold fget. rewrite E. cbn [option_map]. now rewrite Hfg.
  - apply fget_hset_other. exact Hne.
Qed.

Lemma fget_hupd_same : forall A (f : lnode -> A) h i g v,
  (forall n, f (g n) = v) -> hfind h i <> None -> fget f (hupd h i g) i = Some v.
Proof.
  intros A f h i g v Hfg Hal. unfold hupd. destruct (hfind h i) as [n|] eqn:E; [|congruence].
  rewrite fget_hset_same. now rewrite Hfg.
Qed.

Lemma fget_alloc : forall A (f : lnode -> A) h i v, fget f h i = Some v -> hfind h i <> None.
Proof. intros A f h i v H. unfold fget in H. destruct (hfind h i); [discriminate | discriminate]. Qed.

Lemma alloc_fget : forall A (f : lnode -> A) h i, hfind h i <> None -> exists v, fget f h i = Some v.
Proof. intros A f h i H. unfold fget. destruct (hfind h i) as [n|]; [now exists (f n) | congruence]. Qed.

Lemma hfind_hupd_alloc : forall h i g j, hfind (hupd h i g) j <> None <-> hfind h j <> None.
Proof.
  intros h i g j. unfold hupd. destruct (hfind h i) as [n|] eqn:E; [|tauto].
  destruct (Pos.eq_dec j i) as [->|Hne].
  - rewrite hfind_hset_same, E. split; discriminate.
  - rewrite hfind_hset_other by exact Hne. tauto.
Qed.

Lemma hfind_hset_alloc : forall h i n j, hfind (hset h i n) j <> None <-> (j = i \/ hfind h j <> None).
Proof.
  intros h i n j. destruct (Pos.eq_dec j i) as [->|Hne].
  - rewrite hfind_hset_same. split; [now left | discriminate].
  - rewrite hfind_hset_other by exact Hne. split; [now right | intros [H|H]; [contradiction | exact H]].
Qed.

(* ====================================================================== *)
(* B. evaluating the monad                                                 *)
(* ====================================================================== *)
Lemma bind_eval : forall A B (m : M A) (f : A -> M B) s a s1,
  m s = ROk a s1 -> bind m f s = f a s1.
Proof. intros A B m f s a s1 H. unfold bind. rewrite H. reflexivity. Qed.

Lemma fld_ok : forall A (f : lnode -> A) i s v,
  fget f (lp_heap s) i = Some v -> fld f (Some i) s = ROk v s.
Proof.
  intros A f i s v H. unfold fld, bind, load, fget in *.
  destruct (hfind (lp_heap s) i) as [n|]; [|discriminate].
  cbn [option_map] in H. injection H as <-. reflexivity.
Qed.

Lemma store_ok : forall i g s,
  hfind (lp_heap s) i <> None -> store (Some i) g s = ROk tt (set_heap (hupd (lp_heap s) i g) s).
Proof.
  intros i g s H. unfold store, hupd. destruct (hfind (lp_heap s) i) as [n|]; [reflexivity | congruence].
Qed.

Ltac proj := cbn [lp_heap lp_head lp_tail lp_len lp_next lp_arrs lp_anext lp_ticks set_heap add_ticks set_arrs].
Ltac mrun := cbn [bind ret get_head get_tail get_len set_head set_tail set_len tick pLen pCap
                  set_next set_prev set_val]; proj.
Ltac mstep tac := erewrite bind_eval; [ | tac ]; cbv beta; mrun.
Ltac mfld H := mstep ltac:(apply fld_ok; proj; exact H).
Ltac mstore H := mstep ltac:(apply store_ok; proj; exact H).

(* ====================================================================== *)
(* C. doubly linked segments                                               *)
(* ====================================================================== *)
Lemma dl_app_iff : forall gn gp P a R,
  dlinks gn gp (P ++ a :: R) <-> dlinks gn gp (P ++ [a]) /\ dlinks gn gp (a :: R).
Proof.
  intros gn gp. induction P as [|p P IH]; intros a R.
  - cbn [app dlinks]. tauto.
  - destruct P as [|q P].
    + cbn [app]. cbn [app] in IH. change (dlinks gn gp (p :: a :: R)) with
        (gn p = Some (Some a) /\ gp a = Some (Some p) /\ dlinks gn gp (a :: R)).
      cbn [dlinks]. tauto.
    + specialize (IH a R).
      change (dlinks gn gp ((p :: q :: P) ++ a :: R)) with
        (gn p = Some (Some q) /\ gp q = Some (Some p) /\ dlinks gn gp ((q :: P) ++ a :: R)).
      change (dlinks gn gp ((p :: q :: P) ++ [a])) with
        (gn p = Some (Some q) /\ gp q = Some (Some p) /\ dlinks gn gp ((q :: P) ++ [a])).
      tauto.
Qed.

Lemma in_removelast : forall (A : Type) (L : list A) i, In i (removelast L) -> In i L.
Proof.
  intros A. induction L as [|a L IH]; intros i H; [exact H|].
  destruct L as [|b L]; [contradiction|].
  change (removelast (a :: b :: L)) with (a :: removelast (b :: L)) in H.
  destruct H as [H|H]; [now left | right; apply IH; exact H].
Qed.

Lemma dl_frame : forall gn gp gn' gp' L,
  dlinks gn gp L ->
  (forall i, In i (removelast L) -> gn' i = gn i) ->
  (forall i, In i (tl L) -> gp' i = gp i) ->
  dlinks gn' gp' L.
Proof.
  intros gn gp gn' gp'. induction L as [|a L IH]; intros H Hn Hp; [exact I|].
  destruct L as [|b L]; [exact I|].
  change (removelast (a :: b :: L)) with (a :: removelast (b :: L)) in Hn.
  cbn [tl] in Hp.
  destruct H as (H1 & H2 & H3).
  change (gn' a = Some (Some b) /\ gp' b = Some (Some a) /\ dlinks gn' gp' (b :: L)).
  split; [rewrite Hn by (now left); exact H1|].
  split; [rewrite Hp by (now left); exact H2|].
  apply IH; [exact H3 | intros i Hi; apply Hn; now right |].
  intros i Hi. apply Hp. right. destruct L; [contradiction | exact Hi].
Qed.

Lemma dl_pair : forall gn gp P a b Q,
  dlinks gn gp (P ++ a :: b :: Q) -> gn a = Some (Some b) /\ gp b = Some (Some a).
Proof.
  intros gn gp P a b Q H. apply dl_app_iff in H. destruct H as (_ & H1 & H2 & _). tauto.
Qed.

Lemma NoDup_app_disj : forall (A : Type) (X Y : list A) u v,
  NoDup (X ++ Y) -> In u X -> In v Y -> u <> v.
Proof.
  intros A. induction X as [|x X IH]; intros Y u v H Hu Hv; [contradiction|].
  cbn [app] in H. inversion H as [|x0 l0 Hnin Hnd]; subst.
  destruct Hu as [<-|Hu].
  - intros ->. apply Hnin. apply in_or_app. now right.
  - eapply IH; eassumption.
Qed.

Lemma NoDup_mid_notin : forall (A : Type) (X Y : list A) a, NoDup (X ++ a :: Y) -> ~ In a X /\ ~ In a Y.
Proof.
  intros A X Y a H. apply NoDup_remove_2 in H. split; intros Hin; apply H; apply in_or_app; tauto.
Qed.

Lemma dl_insert : forall gn gp gn' gp' P a x Q n,
  NoDup (P ++ a :: x :: Q) -> ~ In n (P ++ a :: x :: Q) ->
  dlinks gn gp (P ++ a :: x :: Q) ->
  gn' a = Some (Some n) -> gn' n = Some (Some x) -> gp' x = Some (Some n) -> gp' n = Some (Some a) ->
  (forall i, i <> a -> i <> n -> gn' i = gn i) ->
  (forall i, i <> x -> i <> n -> gp' i = gp i) ->
  dlinks gn' gp' (P ++ a :: n :: x :: Q).
Proof.
  intros gn gp gn' gp' P a x Q n Hnd Hn H Ha Hn1 Hx Hn2 Hfn Hfp.
  apply dl_app_iff in H. destruct H as (HP & _ & _ & HQ).
  apply dl_app_iff. split.
  - eapply dl_frame; [exact HP | |].
    + intros i Hi. rewrite removelast_last in Hi. apply Hfn.
      * intros ->. apply NoDup_mid_notin in Hnd. tauto.
      * intros ->. apply Hn. apply in_or_app. now left.
    + intros i Hi. assert (Hi' : In i (P ++ [a])) by (destruct P; [destruct Hi | right; exact Hi]).
      apply Hfp.
      * intros ->. replace (P ++ a :: x :: Q) with ((P ++ [a]) ++ x :: Q) in Hnd
          by (rewrite <- app_assoc; reflexivity).
        apply NoDup_mid_notin in Hnd. tauto.
      * intros ->. apply Hn. apply in_app_or in Hi'. apply in_or_app.
        destruct Hi' as [Hi'|[<-|[]]]; [now left | right; now left].
  - change (gn' a = Some (Some n) /\ gp' n = Some (Some a) /\
            gn' n = Some (Some x) /\ gp' x = Some (Some n) /\ dlinks gn' gp' (x :: Q)).
    repeat (split; [assumption|]).
    assert (Hnd2 : NoDup ((P ++ [a]) ++ x :: Q)) by (rewrite <- app_assoc; exact Hnd).
    eapply dl_frame; [exact HQ | |].
    + intros i Hi. apply in_removelast in Hi. apply Hfn.
      * intros ->. apply (NoDup_app_disj _ _ _ a a Hnd2); [apply in_or_app; right; now left | exact Hi | reflexivity].
      * intros ->. apply Hn. apply in_or_app. right. right. exact Hi.
    + intros i Hi. cbn [tl] in Hi. apply Hfp.
      * intros ->. apply NoDup_mid_notin in Hnd2. tauto.
      * intros ->. apply Hn. apply in_or_app. right. right. right. exact Hi.
Qed.

Lemma dl_delete : forall gn gp gn' gp' P a x b Q,
  NoDup (P ++ a :: x :: b :: Q) ->
  dlinks gn gp (P ++ a :: x :: b :: Q) ->
  gn' a = Some (Some b) -> gp' b = Some (Some a) ->
  (forall i, i <> a -> i <> x -> gn' i = gn i) ->
  (forall i, i <> b -> i <> x -> gp' i = gp i) ->
  dlinks gn' gp' (P ++ a :: b :: Q).
Proof.
  intros gn gp gn' gp' P a x b Q Hnd H Ha Hb Hfn Hfp.
  apply dl_app_iff in H. destruct H as (HP & _ & _ & _ & _ & HQ).
  assert (Hnd2 : NoDup ((P ++ [a]) ++ x :: b :: Q)) by (rewrite <- app_assoc; exact Hnd).
  assert (Hnd3 : NoDup ((P ++ [a; x]) ++ b :: Q)) by (rewrite <- app_assoc; exact Hnd).
  apply dl_app_iff. split.
  - eapply dl_frame; [exact HP | |].
    + intros i Hi. rewrite removelast_last in Hi. apply Hfn.
      * intros ->. apply NoDup_mid_notin in Hnd. tauto.
      * intros ->. apply NoDup_mid_notin in Hnd2. destruct Hnd2 as [Hnd2 _]. apply Hnd2.
        apply in_or_app. now left.
    + intros i Hi. assert (Hi' : In i (P ++ [a])) by (destruct P; [destruct Hi | right; exact Hi]).
      apply Hfp.
      * intros ->. apply (NoDup_app_disj _ _ _ b b Hnd2); [exact Hi' | right; now left | reflexivity].
      * intros ->. apply NoDup_mid_notin in Hnd2. tauto.
  - change (gn' a = Some (Some b) /\ gp' b = Some (Some a) /\ dlinks gn' gp' (b :: Q)).
    repeat (split; [assumption|]).
    eapply dl_frame; [exact HQ | |].
    + intros i Hi. apply in_removelast in Hi. apply Hfn.
      * intros ->. apply (NoDup_app_disj _ _ _ a a Hnd3); [apply in_or_app; right; now left | exact Hi | reflexivity].
      * intros ->. apply (NoDup_app_disj _ _ _ x x Hnd3); [apply in_or_app; right; right; now left | exact Hi | reflexivity].
    + intros i Hi. cbn [tl] in Hi. apply Hfp.
      * intros ->. apply NoDup_mid_notin in Hnd3. tauto.
      * intros ->. apply (NoDup_app_disj _ _ _ x x Hnd3); [apply in_or_app; right; right; now left | now right | reflexivity].
Qed.

Lemma NoDup_insert : forall (A : Type) (X Y : list A) n,
  NoDup (X ++ Y) -> ~ In n (X ++ Y) -> NoDup (X ++ n :: Y).
Proof.
  intros A. induction X as [|x X IH]; intros Y n Hnd Hn; cbn [app] in *.
  - constructor; assumption.
  - inversion Hnd as [|x0 l0 Hx Hnd']; subst. constructor.
    + intros Hin. apply in_app_or in Hin. destruct Hin as [Hin|[Hin|Hin]].
      * apply Hx. apply in_or_app. now left.
      * apply Hn. now left.
      * apply Hx. apply in_or_app. now right.
    + apply IH; [exact Hnd' | intros Hin; apply Hn; now right].
Qed.

Lemma split_mid_g : forall (A : Type) (l : list A) (i : Z),
  0 <= i < zlen l -> exists a x b, l = a ++ x :: b /\ zlen a = i.
Proof.
  intros A l i Hi. unfold zlen in *.
  assert (Hn : (Z.to_nat i < length l)%nat) by lia.
  exists (firstn (Z.to_nat i) l).
  destruct (skipn (Z.to_nat i) l) as [|x b] eqn:E.
  - pose proof (skipn_length (Z.to_nat i) l) as Hs. rewrite E in Hs. cbn [length] in Hs. lia.
  - exists x, b. split.
    + rewrite <- E. symmetry. apply firstn_skipn.
    + rewrite firstn_length_le by lia. lia.
Qed.

Lemma zlen_map : forall (A B : Type) (f : A -> B) l, zlen (map f l) = zlen l.
Proof. intros A B f l. unfold zlen. now rewrite map_length. Qed.

Lemma zlen_app_g : forall (A : Type) (a b : list A), zlen (a ++ b) = zlen a + zlen b.
Proof. intros A a b. unfold zlen. rewrite app_length. lia. Qed.

Lemma zlen_cons_g : forall (A : Type) (x : A) (a : list A), zlen (x :: a) = zlen a + 1.
Proof. intros A x a. unfold zlen. cbn [length]. lia. Qed.

(* ====================================================================== *)
(* D. the two walks of findNode                                            *)
(* ====================================================================== *)
Lemma add_ticks_add : forall j k s, add_ticks j (add_ticks k s) = add_ticks (j + k) s.
Proof. intros j k s. unfold add_ticks. proj. f_equal. lia. Qed.

Lemma walk_next_S : forall k cur, walk_next (S k) cur = (tick ;;; c <- fld nnext cur ;; walk_next k c).
Proof. reflexivity. Qed.
Lemma walk_prev_S : forall k cur, walk_prev (S k) cur = (tick ;;; c <- fld nprev cur ;; walk_prev k c).
Proof. reflexivity. Qed.

Lemma walk_next_spec : forall mid a b rest s,
  dlinks (fget nnext (lp_heap s)) (fget nprev (lp_heap s)) (a :: mid ++ b :: rest) ->
  walk_next (S (length mid)) (Some a) s = ROk (Some b) (add_ticks (S (length mid)) s).
Proof.
  induction mid as [|m mid IH]; intros a b rest s H.
  - cbn [app] in H. destruct H as (H1 & _).
    cbn [length]. rewrite walk_next_S. mrun. mfld H1. reflexivity.
  - cbn [app] in H. destruct H as (H1 & _ & H3).
    cbn [length]. rewrite walk_next_S. mrun. mfld H1.
    rewrite (IH m b rest (add_ticks 1 s)) by (proj; exact H3).
    rewrite add_ticks_add. do 2 f_equal. lia.
Qed.

Lemma walk_prev_spec : forall mid P a b S0 s,
  dlinks (fget nnext (lp_heap s)) (fget nprev (lp_heap s)) (P ++ b :: mid ++ a :: S0) ->
  walk_prev (S (length mid)) (Some a) s = ROk (Some b) (add_ticks (S (length mid)) s).
Proof.
  induction mid as [|m mid IH] using rev_ind; intros P a b S0 s H.
  - cbn [app] in H. apply dl_pair in H. destruct H as (_ & H2).
    cbn [length]. rewrite walk_prev_S. mrun. mfld H2. reflexivity.
  - rewrite <- app_assoc in H. cbn [app] in H.
    assert (H2 : fget nprev (lp_heap s) a = Some (Some m)).
    { replace (P ++ b :: mid ++ m :: a :: S0) with ((P ++ b :: mid) ++ m :: a :: S0) in H
        by (rewrite <- app_assoc; reflexivity).
      apply dl_pair in H. tauto. }
    rewrite app_length. cbn [length]. replace (length mid + 1)%nat with (S (length mid)) by lia.
    rewrite walk_prev_S. mrun. mfld H2.
    rewrite (IH P m b (a :: S0) (add_ticks 1 s)) by (proj; exact H).
    rewrite add_ticks_add. do 2 f_equal. lia.
Qed.

(* ====================================================================== *)
(* E. facts from the representation invariant                              *)
(* ====================================================================== *)
Lemma dl_sources_alloc : forall gn gp L i, dlinks gn gp L -> In i (removelast L) -> gn i <> None.
Proof.
  intros gn gp. induction L as [|a L IH]; intros i H Hi; [contradiction|].
  destruct L as [|b L]; [contradiction|].
  change (removelast (a :: b :: L)) with (a :: removelast (b :: L)) in Hi.
  destruct H as (H1 & _ & H3). destruct Hi as [<-|Hi]; [congruence | apply IH; assumption].
Qed.

Lemma rep_alloc : forall s hd tl cells i,
  ll_rep s hd tl cells -> In i (hd :: map fst cells ++ [tl]) -> hfind (lp_heap s) i <> None.
Proof.
  intros s hd tl cells i (Hh & Ht & Hnd & Hdl & Hcn & Hcp & Hv & Hl & Hb & Hab) Hi.
  rewrite app_comm_cons in Hi. apply in_app_or in Hi. destruct Hi as [Hi|[<-|[]]].
  - assert (Hne : fget nnext (lp_heap s) i <> None).
    { eapply dl_sources_alloc; [exact Hdl|]. rewrite app_comm_cons, removelast_last. exact Hi. }
    unfold fget in Hne. destruct (hfind (lp_heap s) i); [discriminate | now elim Hne].
  - eapply fget_alloc. exact Hcn.
Qed.

Lemma rep_fresh : forall s hd tl cells,
  ll_rep s hd tl cells -> ~ In (lp_next s) (hd :: map fst cells ++ [tl]).
Proof.
  intros s hd tl cells Hrep Hin. pose proof (rep_alloc _ _ _ _ _ Hrep Hin) as Hal.
  destruct Hrep as (_ & _ & _ & _ & _ & _ & _ & _ & Hb & _). apply Hb in Hal. lia.
Qed.

Lemma rep_ticks : forall s hd tl cells k, ll_rep s hd tl cells -> ll_rep (add_ticks k s) hd tl cells.
Proof. intros s hd tl cells k H. exact H. Qed.

Lemma rep_set_arrs : forall s hd tl cells ar,
  ll_rep s hd tl cells ->
  (forall j, afind ar j <> None -> (j < lp_anext s)%positive) ->
  ll_rep (set_arrs ar s) hd tl cells.
Proof.
  intros s hd tl cells ar (Hh & Ht & Hnd & Hdl & Hcn & Hcp & Hv & Hl & Hb & Hab) Har.
  unfold ll_rep. proj. repeat (split; [assumption|]). exact Har.
Qed.

(* the ring around a cell *)
Lemma ring_split : forall hd tl (pre post : list (nid * Z)),
  exists P a x Q, hd :: map fst pre = P ++ [a] /\ map fst post ++ [tl] = x :: Q /\
    hd :: map fst (pre ++ post) ++ [tl] = P ++ a :: x :: Q /\
    (forall c, hd :: map fst (pre ++ c :: post) ++ [tl] = P ++ a :: fst c :: x :: Q).
Proof.
  intros hd tl pre post.
  destruct (exists_last (l := hd :: map fst pre)) as (P & a & Hpa); [discriminate|].
  assert (Hxq : exists x Q, map fst post ++ [tl] = x :: Q).
  { destruct (map fst post) as [|y l]; cbn [app]; eauto. }
  destruct Hxq as (x & Q & Hxq).
  exists P, a, x, Q. split; [exact Hpa|]. split; [exact Hxq|]. split.
  - rewrite map_app, <- app_assoc, app_comm_cons, Hpa, Hxq, <- app_assoc. reflexivity.
  - intros c. rewrite map_app. cbn [map]. rewrite <- app_assoc. cbn [app].
    rewrite app_comm_cons, Hpa. change (fst c :: map fst post ++ [tl]) with ([fst c] ++ (map fst post ++ [tl])).
    rewrite Hxq, <- app_assoc. reflexivity.
Qed.

(* ====================================================================== *)
(* F. findNode                                                             *)
(* ====================================================================== *)
Lemma findNode_spec : forall s hd tl pre x vx post index,
  ll_rep s hd tl (pre ++ (x, vx) :: post) -> index = zlen pre ->
  exists k, findNode index s = ROk (Some x) (add_ticks k s) /\
            Z.of_nat k <= Z.quot (lp_len s) 2 + 1 /\
            Z.of_nat k = (if index <=? Z.quot (lp_len s) 2 then index + 1 else lp_len s - index).
Proof.
  intros s hd tl pre x vx post index Hrep Hidx.
  destruct Hrep as (Hh & Ht & Hnd & Hdl & Hcn & Hcp & Hv & Hl & Hb & Hab).
  rewrite map_app in Hdl. cbn [map fst] in Hdl.
  rewrite zlen_app_g, zlen_cons_g in Hl.
  pose proof (zlen_nonneg _ pre) as Hp0. pose proof (zlen_nonneg _ post) as Hq0.
  unfold findNode. mrun.
  destruct (index <=? Z.quot (lp_len s) 2) eqn:E.
  - mrun. rewrite Hh.
    replace (Z.to_nat (index + 1)) with (S (length (map fst pre)))
      by (rewrite map_length; unfold zlen in Hidx; lia).
    rewrite <- app_assoc in Hdl. cbn [app] in Hdl.
    rewrite (walk_next_spec _ _ _ _ _ Hdl).
    eexists. split; [reflexivity|]. rewrite map_length. unfold zlen in Hidx. split; lia.
  - mrun. rewrite Ht.
    replace (Z.to_nat (lp_len s - index)) with (S (length (map fst post)))
      by (rewrite map_length; unfold zlen in *; lia).
    rewrite <- app_assoc in Hdl. cbn [app] in Hdl. rewrite app_comm_cons in Hdl.
    rewrite (walk_prev_spec _ _ _ _ [] _ Hdl).
    eexists. split; [reflexivity|]. rewrite map_length.
    assert (Hq : lp_len s - lp_len s ÷ 2 <= lp_len s ÷ 2 + 1).
    { pose proof (Z.quot_rem' (lp_len s) 2) as Hqr.
      pose proof (Z.rem_bound_pos (lp_len s) 2 ltac:(lia) ltac:(lia)) as Hrb. lia. }
    unfold zlen in *. split; lia.
Qed.

(* ====================================================================== *)
(* G. the splice of Add / Append                                           *)
(* ====================================================================== *)
Definition ins_heap (h : nheap) (n a x : nid) (t : Z) : nheap :=
  hupd (hupd (hset h n (mkln t (Some a) (Some x))) a (with_next (Some n))) x (with_prev (Some n)).

Definition ins_state (s : lpstate) (a x : nid) (t : Z) : lpstate :=
  mklp (ins_heap (lp_heap s) (lp_next s) a x t) (lp_head s) (lp_tail s) (lp_len s)
       (Pos.succ (lp_next s)) (lp_arrs s) (lp_anext s) (lp_ticks s).

Lemma splice_eval : forall B (f : Z -> M B) s a x t,
  hfind (lp_heap s) a <> None -> hfind (lp_heap s) x <> None ->
  (nd <- alloc (mkln t (Some a) (Some x)) ;;
   a' <- fld nprev nd ;; b <- fld nnext nd ;;
   set_next a' nd ;;; set_prev b nd ;;;
   len <- get_len ;; f len) s
  = f (lp_len s) (ins_state s a x t).
Proof.
  intros B f s a x t Ha Hx.
  mstep ltac:(unfold alloc; reflexivity).
  mstep ltac:(apply fld_ok; proj; apply fget_hset_same). cbn [nprev].
  mstep ltac:(apply fld_ok; proj; apply fget_hset_same). cbn [nnext].
  mstep ltac:(apply store_ok; proj; apply hfind_hset_alloc; right; exact Ha).
  mstep ltac:(apply store_ok; proj; apply hfind_hupd_alloc; apply hfind_hset_alloc; right; exact Hx).
  reflexivity.
Qed.

Lemma rep_insert : forall s hd tl pre post P a x Q t,
  ll_rep s hd tl (pre ++ post) ->
  hd :: map fst pre = P ++ [a] ->
  map fst post ++ [tl] = x :: Q ->
  ll_rep (mklp (ins_heap (lp_heap s) (lp_next s) a x t) (lp_head s) (lp_tail s) (lp_len s + 1)
               (Pos.succ (lp_next s)) (lp_arrs s) (lp_anext s) (lp_ticks s))
         hd tl (pre ++ (lp_next s, t) :: post).
Proof.
  intros s hd tl pre post P a x Q t Hrep Hpa Hxq.
  pose proof (rep_fresh _ _ _ _ Hrep) as Hfresh.
  pose proof (fun i => rep_alloc _ _ _ _ i Hrep) as Halloc.
  destruct Hrep as (Hh & Ht & Hnd & Hdl & Hcn & Hcp & Hv & Hl & Hb & Hab).
  set (n := lp_next s) in *. set (h := lp_heap s) in *.
  assert (Hring : hd :: map fst (pre ++ post) ++ [tl] = P ++ a :: x :: Q).
  { rewrite map_app, <- app_assoc, app_comm_cons, Hpa, Hxq, <- app_assoc. reflexivity. }
  assert (Hring' : hd :: map fst (pre ++ (n, t) :: post) ++ [tl] = P ++ a :: n :: x :: Q).
  { rewrite map_app. cbn [map fst]. rewrite <- app_assoc. cbn [app].
    rewrite app_comm_cons, Hpa.
    change (n :: map fst post ++ [tl]) with ([n] ++ (map fst post ++ [tl])).
    rewrite Hxq, <- app_assoc. reflexivity. }
  rewrite Hring in Hnd, Hdl, Hfresh.
  assert (Hnd2 : NoDup ((P ++ [a]) ++ x :: Q)) by (rewrite <- app_assoc; exact Hnd).
  assert (Hina : In a (hd :: map fst (pre ++ post) ++ [tl]))
    by (rewrite Hring; apply in_or_app; right; now left).
  assert (Hinx : In x (hd :: map fst (pre ++ post) ++ [tl]))
    by (rewrite Hring; apply in_or_app; right; right; now left).
  assert (Hala : hfind h a <> None) by (apply Halloc; exact Hina).
  assert (Halx : hfind h x <> None) by (apply Halloc; exact Hinx).
  assert (Han : a <> n) by (intros ->; apply Hfresh; apply in_or_app; right; now left).
  assert (Hxn : x <> n) by (intros ->; apply Hfresh; apply in_or_app; right; right; now left).
  assert (Hax : a <> x).
  { intros ->. apply NoDup_mid_notin in Hnd2. destruct Hnd2 as [Hc _]. apply Hc. apply in_or_app. right. now left. }
  (* the fields of the new heap *)
  assert (Gn_a : fget nnext (ins_heap h n a x t) a = Some (Some n)).
  { unfold ins_heap. rewrite fget_hupd_frame by reflexivity.
    apply fget_hupd_same; [reflexivity | apply hfind_hset_alloc; now right]. }
  assert (Gn_n : fget nnext (ins_heap h n a x t) n = Some (Some x)).
  { unfold ins_heap. rewrite fget_hupd_frame by reflexivity.
    rewrite fget_hupd_other by congruence. apply fget_hset_same. }
  assert (Gn_o : forall i, i <> a -> i <> n -> fget nnext (ins_heap h n a x t) i = fget nnext h i).
  { intros i H1 H2. unfold ins_heap. rewrite fget_hupd_frame by reflexivity.
    rewrite fget_hupd_other by exact H1. apply fget_hset_other. exact H2. }
  assert (Gp_x : fget nprev (ins_heap h n a x t) x = Some (Some n)).
  { unfold ins_heap. apply fget_hupd_same; [reflexivity|].
    apply hfind_hupd_alloc. apply hfind_hset_alloc. now right. }
  assert (Gp_n : fget nprev (ins_heap h n a x t) n = Some (Some a)).
  { unfold ins_heap. rewrite fget_hupd_other by congruence.
    rewrite fget_hupd_frame by reflexivity. apply fget_hset_same. }
  assert (Gp_o : forall i, i <> x -> i <> n -> fget nprev (ins_heap h n a x t) i = fget nprev h i).
  { intros i H1 H2. unfold ins_heap. rewrite fget_hupd_other by exact H1.
    rewrite fget_hupd_frame by reflexivity. apply fget_hset_other. exact H2. }
  assert (Gv_n : fget nval (ins_heap h n a x t) n = Some t).
  { unfold ins_heap. rewrite !fget_hupd_frame by reflexivity. apply fget_hset_same. }
  assert (Gv_o : forall i, i <> n -> fget nval (ins_heap h n a x t) i = fget nval h i).
  { intros i H2. unfold ins_heap. rewrite !fget_hupd_frame by reflexivity. apply fget_hset_other. exact H2. }
  assert (Gal : forall i, hfind (ins_heap h n a x t) i <> None -> i = n \/ hfind h i <> None).
  { intros i Hi. unfold ins_heap in Hi. apply hfind_hupd_alloc in Hi. apply hfind_hupd_alloc in Hi.
    apply hfind_hset_alloc in Hi. exact Hi. }
  unfold ll_rep. proj. rewrite Hring'.
  split; [exact Hh|]. split; [exact Ht|].
  split; [replace (P ++ a :: n :: x :: Q) with ((P ++ [a]) ++ n :: x :: Q) by (rewrite <- app_assoc; reflexivity);
          apply NoDup_insert; [exact Hnd2 | rewrite <- app_assoc; exact Hfresh] |].
  split; [eapply dl_insert; eassumption|].
  assert (Htlx : In tl (x :: Q)) by (rewrite <- Hxq; apply in_or_app; right; now left).
  assert (Hhdp : In hd (P ++ [a])) by (rewrite <- Hpa; now left).
  split.
  { rewrite Gn_o; [exact Hcn | |].
    - intros ->. apply (NoDup_app_disj _ _ _ a a Hnd2); [apply in_or_app; right; now left | exact Htlx | reflexivity].
    - intros ->. apply Hfresh. apply in_or_app. right. right. exact Htlx. }
  split.
  { rewrite Gp_o; [exact Hcp | |].
    - intros ->. apply NoDup_mid_notin in Hnd2. tauto.
    - intros ->. apply Hfresh. apply in_app_or in Hhdp. apply in_or_app.
      destruct Hhdp as [Hc|[<-|[]]]; [now left | right; now left]. }
  split.
  { apply Forall_app in Hv. destruct Hv as [Hv1 Hv2].
    assert (Hfr : forall l, Forall (fun c => fget nval h (fst c) = Some (snd c)) l ->
                            Forall (fun c => fget nval (ins_heap h n a x t) (fst c) = Some (snd c)) l).
    { intros l Hf. eapply Forall_impl; [|exact Hf]. intros c Hc. cbv beta in *.
      rewrite Gv_o; [exact Hc|]. intros Heq. apply fget_alloc in Hc. apply Hb in Hc. subst n. rewrite Heq in Hc. lia. }
    apply Forall_app. split; [apply Hfr; exact Hv1|].
    constructor; [exact Gv_n | apply Hfr; exact Hv2]. }
  split.
  { rewrite Hl, !zlen_app_g, zlen_cons_g. lia. }
  split; [|exact Hab].
  intros i Hi. apply Gal in Hi. destruct Hi as [->|Hi]; [lia | apply Hb in Hi; lia].
Qed.

(* ====================================================================== *)
(* H. Append, Add                                                          *)
(* ====================================================================== *)
Definition same_arrs (s s' : lpstate) : Prop :=
  lp_arrs s' = lp_arrs s /\ lp_anext s' = lp_anext s.

Lemma push_back_spec : forall s hd tl cells t,
  ll_rep s hd tl cells ->
  exists s', push_back t s = ROk tt s' /\ ll_rep s' hd tl (cells ++ [(lp_next s, t)]) /\
             same_arrs s s' /\ lp_ticks s' = lp_ticks s.
Proof.
  intros s hd tl cells t Hrep.
  destruct (ring_split hd tl cells []) as (P & a & x & Q & Hpa & Hxq & Hring & _).
  cbn [map app] in Hxq. injection Hxq as <- <-. rewrite app_nil_r in Hring.
  pose proof (fun i => rep_alloc _ _ _ _ i Hrep) as Halloc.
  pose proof Hrep as (Hh & Ht & Hnd & Hdl & Hcn & Hcp & Hv & Hl & Hb & Hab).
  rewrite Hring in Hdl. pose proof (dl_pair _ _ _ _ _ _ Hdl) as (_ & Hpt).
  assert (Hala : hfind (lp_heap s) a <> None)
    by (apply Halloc; rewrite Hring; apply in_or_app; right; now left).
  assert (Halt : hfind (lp_heap s) tl <> None)
    by (apply Halloc; rewrite Hring; apply in_or_app; right; right; now left).
  unfold push_back. mrun. rewrite Ht. mfld Hpt. rewrite Ht.
  rewrite splice_eval by assumption.
  unfold ins_state. mrun.
  eexists. split; [reflexivity|]. split.
  - apply (rep_insert s hd tl cells [] P a tl [] t); [rewrite app_nil_r; exact Hrep | exact Hpa | reflexivity].
  - split; [split; reflexivity | reflexivity].
Qed.

Lemma append_loop_spec : forall ts s hd tl cells,
  ll_rep s hd tl cells ->
  exists s' cells', append_loop ts s = ROk tt s' /\ ll_rep s' hd tl cells' /\
    map snd cells' = map snd cells ++ ts /\ same_arrs s s' /\ lp_ticks s' = lp_ticks s /\
    (ts = [] -> s' = s).
Proof.
  induction ts as [|t ts IH]; intros s hd tl cells Hrep.
  - exists s, cells. cbn [append_loop]. rewrite app_nil_r.
    split; [reflexivity|]. split; [exact Hrep|]. split; [reflexivity|].
    split; [split; reflexivity|]. split; reflexivity.
  - destruct (push_back_spec s hd tl cells t Hrep) as (s1 & He1 & Hrep1 & (Ha1 & Ha2) & Hk1).
    destruct (IH s1 hd tl _ Hrep1) as (s2 & cells2 & He2 & Hrep2 & Hc2 & (Hb1 & Hb2) & Hk2 & _).
    exists s2, cells2. cbn [append_loop]. rewrite (bind_eval _ _ _ _ _ tt s1 He1).
    split; [exact He2|]. split; [exact Hrep2|].
    split; [rewrite Hc2, map_app; cbn [map snd]; rewrite <- app_assoc; reflexivity|].
    split; [split; congruence|]. split; [congruence | discriminate].
Qed.

Lemma checkIndex_spec : forall index s, checkIndex index s = ROk (in_idx index (lp_len s)) s.
Proof. intros index s. unfold checkIndex, in_idx. destruct (0 <=? index); reflexivity. Qed.

Lemma pAdd_spec : forall s hd tl cells index t,
  ll_rep s hd tl cells ->
  if (0 <=? index) && (index <=? zlen cells)
  then exists s' n, pAdd index t s = ROk (Ok OUnit) s' /\
         ll_rep s' hd tl (insert_at cells (Z.to_nat index) (n, t)) /\ same_arrs s s'
  else pAdd index t s = ROk (Err EIndex) s.
Proof.
  intros s hd tl cells index t Hrep.
  pose proof Hrep as (Hh & Ht & Hnd & Hdl & Hcn & Hcp & Hv & Hl & Hb & Hab).
  pose proof (zlen_nonneg _ cells) as Hc0.
  unfold pAdd. mrun. rewrite Hl.
  destruct ((0 <=? index) && (index <=? zlen cells)) eqn:E.
  2:{ replace ((index <? 0) || (index >? zlen cells)) with true by lia. reflexivity. }
  replace ((index <? 0) || (index >? zlen cells)) with false by lia. mrun. rewrite Hl.
  destruct (index =? zlen cells) eqn:E2.
  - unfold pAppend. cbn [append_loop].
    destruct (push_back_spec s hd tl cells t Hrep) as (s1 & He1 & Hrep1 & Ha1 & _).
    erewrite bind_eval; [| erewrite bind_eval; [| exact He1]; reflexivity]. mrun.
    exists s1, (lp_next s). split; [reflexivity|]. split; [|exact Ha1].
    replace (Z.to_nat index) with (length cells) by (unfold zlen in *; lia).
    replace (insert_at cells (length cells) (lp_next s, t)) with (cells ++ [(lp_next s, t)]); [exact Hrep1|].
    clear. induction cells as [|c cells IH]; cbn [app length insert_at]; [reflexivity | now rewrite <- IH].
  - destruct (split_mid_g _ cells index ltac:(lia)) as (pre & [x vx] & post & -> & Hpre).
    destruct (findNode_spec s hd tl pre x vx post index Hrep (eq_sym Hpre)) as (k & Hfind & _).
    mstep ltac:(exact Hfind).
    destruct (ring_split hd tl pre ((x, vx) :: post)) as (P & a & x' & Q & Hpa & Hxq & Hring & _).
    cbn [map fst app] in Hxq. injection Hxq as <- HQ.
    pose proof (fun i => rep_alloc _ _ _ _ i Hrep) as Halloc.
    rewrite Hring in Hdl. pose proof (dl_pair _ _ _ _ _ _ Hdl) as (_ & Hpx).
    assert (Hala : hfind (lp_heap s) a <> None)
      by (apply Halloc; rewrite Hring; apply in_or_app; right; now left).
    assert (Halx : hfind (lp_heap s) x <> None)
      by (apply Halloc; rewrite Hring; apply in_or_app; right; right; now left).
    mfld Hpx.
    rewrite splice_eval by (proj; assumption).
    unfold ins_state. mrun.
    exists (mklp (ins_heap (lp_heap s) (lp_next s) a x t) (lp_head s) (lp_tail s) (lp_len s + 1)
                 (Pos.succ (lp_next s)) (lp_arrs s) (lp_anext s) (k + lp_ticks s)), (lp_next s).
    split; [reflexivity|]. split; [|split; reflexivity].
    replace (Z.to_nat index) with (length pre) by (unfold zlen in *; lia).
    replace (insert_at (pre ++ (x, vx) :: post) (length pre) (lp_next s, t))
      with (pre ++ (lp_next s, t) :: (x, vx) :: post).
    + apply (rep_insert (add_ticks k s) hd tl pre ((x, vx) :: post) P a x Q t);
        [apply rep_ticks; exact Hrep | exact Hpa | cbn [map fst app]; now rewrite HQ].
    + clear. induction pre as [|c pre IH]; cbn [app length insert_at]; [reflexivity | now rewrite <- IH].
Qed.

(* ====================================================================== *)
(* I. Get, Set                                                             *)
(* ====================================================================== *)
Lemma rep_val_at : forall s hd tl pre x vx post,
  ll_rep s hd tl (pre ++ (x, vx) :: post) -> fget nval (lp_heap s) x = Some vx.
Proof.
  intros s hd tl pre x vx post (_ & _ & _ & _ & _ & _ & Hv & _).
  apply Forall_app in Hv. destruct Hv as [_ Hv]. inversion Hv as [|c l Hc _]; subst. exact Hc.
Qed.

Lemma pGet_spec : forall s hd tl cells index,
  ll_rep s hd tl cells ->
  if in_idx index (zlen cells)
  then exists k, pGet index s = ROk (Ok (OVal (nth_d (Z.to_nat index) (map snd cells) 0))) (add_ticks k s)
  else pGet index s = ROk (Err EIndex) s.
Proof.
  intros s hd tl cells index Hrep.
  pose proof Hrep as (Hh & Ht & Hnd & Hdl & Hcn & Hcp & Hv & Hl & Hb & Hab).
  unfold pGet. rewrite (bind_eval _ _ _ _ _ _ _ (checkIndex_spec index s)). rewrite Hl.
  destruct (in_idx index (zlen cells)) eqn:E; cbn [negb]; [|reflexivity].
  unfold in_idx in E.
  destruct (split_mid_g _ cells index ltac:(lia)) as (pre & [x vx] & post & -> & Hpre).
  destruct (findNode_spec s hd tl pre x vx post index Hrep (eq_sym Hpre)) as (k & Hfind & _).
  mstep ltac:(exact Hfind).
  pose proof (rep_val_at _ _ _ _ _ _ _ Hrep) as Hvx.
  mfld Hvx. exists k.
  rewrite map_app. cbn [map snd].
  replace (Z.to_nat index) with (length (map snd pre)) by (rewrite map_length; unfold zlen in *; lia).
  rewrite nth_d_mid. reflexivity.
Qed.

Lemma rep_set : forall s hd tl pre x vx post t,
  ll_rep s hd tl (pre ++ (x, vx) :: post) ->
  ll_rep (set_heap (hupd (lp_heap s) x (with_val t)) s) hd tl (pre ++ (x, t) :: post).
Proof.
  intros s hd tl pre x vx post t Hrep.
  destruct Hrep as (Hh & Ht & Hnd & Hdl & Hcn & Hcp & Hv & Hl & Hb & Hab).
  assert (Hids : map fst (pre ++ (x, t) :: post) = map fst (pre ++ (x, vx) :: post))
    by (rewrite !map_app; reflexivity).
  unfold ll_rep. proj. rewrite Hids.
  split; [exact Hh|]. split; [exact Ht|]. split; [exact Hnd|].
  split; [eapply dl_frame; [exact Hdl | |]; intros i _; apply fget_hupd_frame; reflexivity|].
  split; [rewrite fget_hupd_frame by reflexivity; exact Hcn|].
  split; [rewrite fget_hupd_frame by reflexivity; exact Hcp|].
  split.
  { inversion Hnd as [|x0 l0 _ Hnd1]; subst. apply NoDup_remove_1 with (l' := []) in Hnd1 as Hnd2.
    rewrite app_nil_r, map_app in Hnd2. cbn [map fst] in Hnd2.
    apply NoDup_mid_notin in Hnd2. destruct Hnd2 as [Hn1 Hn2].
    apply Forall_app in Hv. destruct Hv as [Hv1 Hv2]. inversion Hv2 as [|c l Hc Hv3]; subst.
    assert (Hfr : forall l, (forall c, In c l -> fst c <> x) ->
                   Forall (fun c => fget nval (lp_heap s) (fst c) = Some (snd c)) l ->
                   Forall (fun c => fget nval (hupd (lp_heap s) x (with_val t)) (fst c) = Some (snd c)) l).
    { intros l Hne Hf. apply Forall_forall. intros c Hin. rewrite Forall_forall in Hf.
      rewrite fget_hupd_other by (apply Hne; exact Hin). apply Hf. exact Hin. }
    apply Forall_app. split.
    - apply Hfr; [|exact Hv1]. intros c Hin Heq. apply Hn1. rewrite <- Heq. apply in_map. exact Hin.
    - constructor.
      + cbn [fst snd]. apply fget_hupd_same; [reflexivity | eapply fget_alloc; exact Hc].
      + apply Hfr; [|exact Hv3]. intros c Hin Heq. apply Hn2. rewrite <- Heq. apply in_map. exact Hin. }
  split; [rewrite Hl, !zlen_app_g, !zlen_cons_g; reflexivity|].
  split; [|exact Hab].
  intros i Hi. apply hfind_hupd_alloc in Hi. apply Hb. exact Hi.
Qed.

Lemma pSet_spec : forall s hd tl cells index t,
  ll_rep s hd tl cells ->
  if in_idx index (zlen cells)
  then exists s' x, pSet index t s = ROk (Ok OUnit) s' /\
         ll_rep s' hd tl (set_nth cells (Z.to_nat index) (x, t)) /\ same_arrs s s'
  else pSet index t s = ROk (Err EIndex) s.
Proof.
  intros s hd tl cells index t Hrep.
  pose proof Hrep as (Hh & Ht & Hnd & Hdl & Hcn & Hcp & Hv & Hl & Hb & Hab).
  unfold pSet. rewrite (bind_eval _ _ _ _ _ _ _ (checkIndex_spec index s)). rewrite Hl.
  destruct (in_idx index (zlen cells)) eqn:E; cbn [negb]; [|reflexivity].
  unfold in_idx in E.
  destruct (split_mid_g _ cells index ltac:(lia)) as (pre & [x vx] & post & -> & Hpre).
  destruct (findNode_spec s hd tl pre x vx post index Hrep (eq_sym Hpre)) as (k & Hfind & _).
  mstep ltac:(exact Hfind).
  pose proof (rep_val_at _ _ _ _ _ _ _ Hrep) as Hvx.
  mstep ltac:(apply store_ok; proj; eapply fget_alloc; exact Hvx).
  eexists. exists x. split; [reflexivity|]. split; [|split; reflexivity].
  replace (Z.to_nat index) with (length pre) by (unfold zlen in *; lia).
  replace (set_nth (pre ++ (x, vx) :: post) (length pre) (x, t)) with (pre ++ (x, t) :: post).
  - apply (rep_set (add_ticks k s) hd tl pre x vx post t). apply rep_ticks. exact Hrep.
  - clear. induction pre as [|c pre IH]; cbn [app length set_nth]; [reflexivity | now rewrite <- IH].
Qed.

(* ====================================================================== *)
(* J. Delete                                                               *)
(* ====================================================================== *)
Definition del_heap (h : nheap) (a x b : nid) : nheap :=
  hupd (hupd (hupd (hupd h a (with_next (Some b))) b (with_prev (Some a))) x (with_prev None))
       x (with_next None).

Lemma rep_delete : forall s hd tl pre x vx post P a b Q,
  ll_rep s hd tl (pre ++ (x, vx) :: post) ->
  hd :: map fst pre = P ++ [a] ->
  map fst post ++ [tl] = b :: Q ->
  let h' := del_heap (lp_heap s) a x b in
  ll_rep (mklp h' (lp_head s) (lp_tail s) (lp_len s - 1) (lp_next s) (lp_arrs s) (lp_anext s) (lp_ticks s))
         hd tl (pre ++ post) /\
  fget nnext h' x = Some None /\ fget nprev h' x = Some None /\ fget nval h' x = Some vx /\
  ~ In x (hd :: map fst (pre ++ post) ++ [tl]).
Proof.
  intros s hd tl pre x vx post P a b Q Hrep Hpa Hbq h'.
  pose proof (fun i => rep_alloc _ _ _ _ i Hrep) as Halloc.
  pose proof (rep_val_at _ _ _ _ _ _ _ Hrep) as Hvx.
  destruct Hrep as (Hh & Ht & Hnd & Hdl & Hcn & Hcp & Hv & Hl & Hb & Hab).
  set (h := lp_heap s) in *.
  assert (Hring : hd :: map fst (pre ++ (x, vx) :: post) ++ [tl] = P ++ a :: x :: b :: Q).
  { rewrite map_app. cbn [map fst]. rewrite <- app_assoc. cbn [app].
    rewrite app_comm_cons, Hpa. change (x :: map fst post ++ [tl]) with ([x] ++ (map fst post ++ [tl])).
    rewrite Hbq, <- app_assoc. reflexivity. }
  assert (Hring' : hd :: map fst (pre ++ post) ++ [tl] = P ++ a :: b :: Q).
  { rewrite map_app, <- app_assoc, app_comm_cons, Hpa, Hbq, <- app_assoc. reflexivity. }
  rewrite Hring in Hnd, Hdl, Halloc.
  assert (Hnd2 : NoDup ((P ++ [a]) ++ x :: b :: Q)) by (rewrite <- app_assoc; exact Hnd).
  assert (Hnd3 : NoDup ((P ++ [a; x]) ++ b :: Q)) by (rewrite <- app_assoc; exact Hnd).
  assert (Hala : hfind h a <> None) by (apply Halloc; apply in_or_app; right; now left).
  assert (Halx : hfind h x <> None) by (apply Halloc; apply in_or_app; right; right; now left).
  assert (Halb : hfind h b <> None) by (apply Halloc; apply in_or_app; right; right; right; now left).
  assert (Hax : a <> x).
  { intros ->. apply NoDup_mid_notin in Hnd2. destruct Hnd2 as [Hc _]. apply Hc. apply in_or_app. right. now left. }
  assert (Hbx : b <> x).
  { intros ->. apply NoDup_mid_notin in Hnd2. destruct Hnd2 as [_ Hc]. apply Hc. now left. }
  assert (Gn_x : fget nnext h' x = Some None).
  { unfold h', del_heap. apply fget_hupd_same; [reflexivity|]. do 3 apply hfind_hupd_alloc. exact Halx. }
  assert (Gn_a : fget nnext h' a = Some (Some b)).
  { unfold h', del_heap. rewrite fget_hupd_other by exact Hax. rewrite !fget_hupd_frame by reflexivity.
    apply fget_hupd_same; [reflexivity | exact Hala]. }
  assert (Gn_o : forall i, i <> a -> i <> x -> fget nnext h' i = fget nnext h i).
  { intros i H1 H2. unfold h', del_heap. rewrite fget_hupd_other by exact H2.
    rewrite !fget_hupd_frame by reflexivity. apply fget_hupd_other. exact H1. }
  assert (Gp_x : fget nprev h' x = Some None).
  { unfold h', del_heap. rewrite fget_hupd_frame by reflexivity.
    apply fget_hupd_same; [reflexivity|]. do 2 apply hfind_hupd_alloc. exact Halx. }
  assert (Gp_b : fget nprev h' b = Some (Some a)).
  { unfold h', del_heap. rewrite fget_hupd_frame by reflexivity. rewrite fget_hupd_other by exact Hbx.
    apply fget_hupd_same; [reflexivity | apply hfind_hupd_alloc; exact Halb]. }
  assert (Gp_o : forall i, i <> b -> i <> x -> fget nprev h' i = fget nprev h i).
  { intros i H1 H2. unfold h', del_heap. rewrite fget_hupd_frame by reflexivity.
    rewrite fget_hupd_other by exact H2. rewrite fget_hupd_other by exact H1.
    apply fget_hupd_frame. reflexivity. }
  assert (Gv : forall i, fget nval h' i = fget nval h i).
  { intros i. unfold h', del_heap. rewrite !fget_hupd_frame by reflexivity. reflexivity. }
  assert (Hxnot : ~ In x (P ++ a :: b :: Q)).
  { intros Hin. apply in_app_or in Hin. destruct Hin as [Hin|[Hin|Hin]].
    - apply NoDup_mid_notin in Hnd2. destruct Hnd2 as [Hc _]. apply Hc. apply in_or_app. now left.
    - exact (Hax Hin).
    - apply NoDup_mid_notin in Hnd2. destruct Hnd2 as [_ Hc]. apply Hc. exact Hin. }
  split; [|rewrite Gv, Hring'; tauto].
  assert (Htlb : In tl (b :: Q)) by (rewrite <- Hbq; apply in_or_app; right; now left).
  assert (Hhdp : In hd (P ++ [a])) by (rewrite <- Hpa; now left).
  unfold ll_rep. proj. rewrite Hring'.
  split; [exact Hh|]. split; [exact Ht|].
  split.
  { replace (P ++ a :: b :: Q) with ((P ++ [a]) ++ b :: Q) by (rewrite <- app_assoc; reflexivity).
    eapply NoDup_remove_1. exact Hnd2. }
  split; [eapply dl_delete; eassumption|].
  split.
  { rewrite Gn_o; [exact Hcn | |].
    - intros ->. apply (NoDup_app_disj _ _ _ a a Hnd3); [apply in_or_app; right; now left | exact Htlb | reflexivity].
    - intros ->. apply (NoDup_app_disj _ _ _ x x Hnd3); [apply in_or_app; right; right; now left | exact Htlb | reflexivity]. }
  split.
  { rewrite Gp_o; [exact Hcp | |].
    - intros ->. apply (NoDup_app_disj _ _ _ b b Hnd2); [exact Hhdp | right; now left | reflexivity].
    - intros ->. apply NoDup_mid_notin in Hnd2. tauto. }
  split.
  { apply Forall_app in Hv. destruct Hv as [Hv1 Hv2]. inversion Hv2 as [|c l Hc Hv3]; subst.
    apply Forall_app. split; (eapply Forall_impl; [|eassumption]); intros c0 Hc0; cbv beta in *; rewrite Gv; exact Hc0. }
  split; [rewrite Hl, !zlen_app_g, zlen_cons_g; lia|].
  split; [|exact Hab].
  intros i Hi. unfold h', del_heap in Hi. do 4 apply hfind_hupd_alloc in Hi. apply Hb. exact Hi.
Qed.

Lemma pDelete_spec : forall s hd tl cells index,
  ll_rep s hd tl cells ->
  if in_idx index (zlen cells)
  then exists s' pre x vx post,
         cells = pre ++ (x, vx) :: post /\ zlen pre = index /\
         pDelete index s = ROk (Ok (OVal vx)) s' /\
         ll_rep s' hd tl (pre ++ post) /\ same_arrs s s' /\
         fget nnext (lp_heap s') x = Some None /\ fget nprev (lp_heap s') x = Some None /\
         ~ In x (hd :: map fst (pre ++ post) ++ [tl])
  else pDelete index s = ROk (Err EIndex) s.
Proof.
  intros s hd tl cells index Hrep.
  pose proof Hrep as (Hh & Ht & Hnd & Hdl & Hcn & Hcp & Hv & Hl & Hb & Hab).
  unfold pDelete. rewrite (bind_eval _ _ _ _ _ _ _ (checkIndex_spec index s)). rewrite Hl.
  destruct (in_idx index (zlen cells)) eqn:E; cbn [negb]; [|reflexivity].
  unfold in_idx in E.
  destruct (split_mid_g _ cells index ltac:(lia)) as (pre & [x vx] & post & -> & Hpre).
  destruct (findNode_spec s hd tl pre x vx post index Hrep (eq_sym Hpre)) as (k & Hfind & _).
  mstep ltac:(exact Hfind).
  destruct (ring_split hd tl pre post) as (P & a & b & Q & Hpa & Hbq & _ & Hring).
  specialize (Hring (x, vx)). cbn [fst] in Hring.
  pose proof (fun i => rep_alloc _ _ _ _ i Hrep) as Halloc.
  rewrite Hring in Hdl, Hnd, Halloc.
  pose proof (dl_pair _ _ _ _ _ _ Hdl) as (_ & Hpx).
  assert (Hdl2 : dlinks (fget nnext (lp_heap s)) (fget nprev (lp_heap s)) ((P ++ [a]) ++ x :: b :: Q))
    by (rewrite <- app_assoc; exact Hdl).
  pose proof (dl_pair _ _ _ _ _ _ Hdl2) as (Hnx & _).
  assert (Hnd2 : NoDup ((P ++ [a]) ++ x :: b :: Q)) by (rewrite <- app_assoc; exact Hnd).
  assert (Hala : hfind (lp_heap s) a <> None) by (apply Halloc; apply in_or_app; right; now left).
  assert (Halx : hfind (lp_heap s) x <> None) by (apply Halloc; apply in_or_app; right; right; now left).
  assert (Halb : hfind (lp_heap s) b <> None) by (apply Halloc; apply in_or_app; right; right; right; now left).
  assert (Hax : x <> a).
  { intros ->. apply NoDup_mid_notin in Hnd2. destruct Hnd2 as [Hc _]. apply Hc. apply in_or_app. right. now left. }
  mfld Hpx. mfld Hnx. mstore Hala.
  mstep ltac:(apply fld_ok; proj; rewrite fget_hupd_other by exact Hax; exact Hnx).
  mstep ltac:(apply fld_ok; proj; rewrite fget_hupd_frame by reflexivity; exact Hpx).
  mstep ltac:(apply store_ok; proj; apply hfind_hupd_alloc; exact Halb).
  mstep ltac:(apply store_ok; proj; do 2 apply hfind_hupd_alloc; exact Halx).
  mstep ltac:(apply store_ok; proj; do 3 apply hfind_hupd_alloc; exact Halx).
  destruct (rep_delete (add_ticks k s) hd tl pre x vx post P a b Q (rep_ticks _ _ _ _ k Hrep) Hpa Hbq)
    as (Hrep' & Gn & Gp & Gv & Hxnot).
  proj. fold (del_heap (lp_heap s) a x b).
  mstep ltac:(apply fld_ok; proj; exact Gv).
  eexists. exists pre, x, vx, post.
  split; [reflexivity|]. split; [exact Hpre|]. split; [reflexivity|].
  split; [exact Hrep'|]. split; [split; reflexivity|]. proj. repeat (split; [assumption|]). exact Hxnot.
Qed.

(* ====================================================================== *)
(* K. Range, AsSlice                                                       *)
(* ====================================================================== *)
Lemma range_walk_S : forall k cur i stop,
  range_walk (S k) cur i stop =
  (v <- fld nval cur ;;
   if i =? stop then ret ([(i, v)], true)
   else c <- fld nnext cur ;; r <- range_walk k c (i + 1) stop ;; ret ((i, v) :: fst r, snd r)).
Proof. reflexivity. Qed.

Lemma range_walk_spec : forall stop s e cs cur R i,
  cur :: R = map fst cs ++ [e] ->
  dlinks (fget nnext (lp_heap s)) (fget nprev (lp_heap s)) (cur :: R) ->
  Forall (fun c => fget nval (lp_heap s) (fst c) = Some (snd c)) cs ->
  range_walk (length cs) (Some cur) i stop s = ROk (range_loop (map snd cs) i stop) s.
Proof.
  intros stop s e. induction cs as [|c cs IH]; intros cur R i Heq Hdl Hv.
  - reflexivity.
  - cbn [map app] in Heq. injection Heq as -> ->.
    inversion Hv as [|c0 l0 Hc Hv']; subst.
    cbn [length]. rewrite range_walk_S. mfld Hc. cbn [map snd range_loop].
    destruct (i =? stop); [reflexivity|].
    destruct (map fst cs ++ [e]) as [|r R'] eqn:ER; [destruct (map fst cs); discriminate|].
    destruct Hdl as (Hn & _ & Hdl').
    mfld Hn. mstep ltac:(exact (IH r R' (i + 1) eq_refl Hdl' Hv')). reflexivity.
Qed.

Lemma pRange_spec : forall s hd tl cells stop,
  ll_rep s hd tl cells -> pRange stop s = ROk (Ok (seq_range (map snd cells) stop)) s.
Proof.
  intros s hd tl cells stop (Hh & Ht & Hnd & Hdl & Hcn & Hcp & Hv & Hl & Hb & Hab).
  unfold pRange. mrun. rewrite Hh.
  destruct (map fst cells ++ [tl]) as [|c R] eqn:ER; [destruct (map fst cells); discriminate|].
  destruct Hdl as (Hn & _ & Hdl').
  mfld Hn. rewrite Hl. replace (Z.to_nat (zlen cells)) with (length cells) by (unfold zlen; lia).
  mstep ltac:(exact (range_walk_spec stop s tl cells c R 0 (eq_sym ER) Hdl' Hv)).
  rewrite <- range_loop_seq. reflexivity.
Qed.

Lemma fill_walk_S : forall k cur i a,
  fill_walk (S k) cur i a =
  (v <- fld nval cur ;; arr_store a i v ;;; c <- fld nnext cur ;; fill_walk k c (i + 1) a).
Proof. reflexivity. Qed.

Lemma arr_store_ok : forall s a done y rest v,
  afind (lp_arrs s) a = Some (done ++ y :: rest) ->
  arr_store a (zlen done) v s = ROk tt (set_arrs (aset (lp_arrs s) a (done ++ v :: rest)) s).
Proof.
  intros s a done y rest v H. unfold arr_store. rewrite H.
  pose proof (zlen_nonneg _ done) as H0. pose proof (zlen_nonneg _ rest) as H1.
  rewrite in_idx_true by (rewrite zlen_app, zlen_cons; lia).
  replace (Z.to_nat (zlen done)) with (length done) by (unfold zlen; lia).
  rewrite set_nth_mid. reflexivity.
Qed.

Lemma set_arrs_twice : forall a b s, set_arrs a (set_arrs b s) = set_arrs a s.
Proof. reflexivity. Qed.

Lemma fill_walk_spec : forall a e cs cur R done s,
  cur :: R = map fst cs ++ [e] ->
  dlinks (fget nnext (lp_heap s)) (fget nprev (lp_heap s)) (cur :: R) ->
  Forall (fun c => fget nval (lp_heap s) (fst c) = Some (snd c)) cs ->
  afind (lp_arrs s) a = Some (done ++ zeros (length cs)) ->
  exists ar', fill_walk (length cs) (Some cur) (zlen done) a s = ROk tt (set_arrs ar' s) /\
              afind ar' a = Some (done ++ map snd cs) /\
              (forall j, j <> a -> afind ar' j = afind (lp_arrs s) j).
Proof.
  intros a e. induction cs as [|c cs IH]; intros cur R done s Heq Hdl Hv Ha.
  - exists (lp_arrs s). split; [destruct s; reflexivity|]. split; [exact Ha | reflexivity].
  - cbn [map app] in Heq. injection Heq as -> ->.
    inversion Hv as [|c0 l0 Hc Hv']; subst.
    cbn [length]. rewrite fill_walk_S. mfld Hc. cbn [length zeros] in Ha.
    mstep ltac:(eapply arr_store_ok; exact Ha).
    destruct (map fst cs ++ [e]) as [|r R'] eqn:ER; [destruct (map fst cs); discriminate|].
    destruct Hdl as (Hn & _ & Hdl').
    mfld Hn.
    destruct (IH r R' (done ++ [snd c]) (set_arrs (aset (lp_arrs s) a (done ++ snd c :: zeros (length cs))) s)
                eq_refl Hdl' Hv') as (ar' & He & Hfa & Hfo).
    { proj. rewrite afind_aset_same, <- app_assoc. reflexivity. }
    rewrite zlen_app, zlen_cons, zlen_nil in He. replace (zlen done + (0 + 1)) with (zlen done + 1) in He by lia.
    exists ar'. split; [rewrite He, set_arrs_twice; reflexivity|].
    split; [rewrite Hfa, <- app_assoc; reflexivity|].
    intros j Hj. rewrite Hfo by exact Hj. proj. apply afind_aset_other. exact Hj.
Qed.

Lemma pAsSlice_spec : forall s hd tl cells,
  ll_rep s hd tl cells ->
  exists ar',
    pAsSlice s = ROk (lp_anext s)
      (mklp (lp_heap s) (lp_head s) (lp_tail s) (lp_len s) (lp_next s) ar' (Pos.succ (lp_anext s)) (lp_ticks s)) /\
    afind (lp_arrs s) (lp_anext s) = None /\
    afind ar' (lp_anext s) = Some (map snd cells) /\
    (forall j, j <> lp_anext s -> afind ar' j = afind (lp_arrs s) j).
Proof.
  intros s hd tl cells (Hh & Ht & Hnd & Hdl & Hcn & Hcp & Hv & Hl & Hb & Hab).
  pose proof (zlen_nonneg _ cells) as Hc0.
  assert (Hfresh : afind (lp_arrs s) (lp_anext s) = None).
  { destruct (afind (lp_arrs s) (lp_anext s)) eqn:E; [|reflexivity].
    assert (Hne : afind (lp_arrs s) (lp_anext s) <> None) by congruence. apply Hab in Hne. lia. }
  destruct s as [h hdp tlp len nx ar an tk]. cbn [lp_heap lp_head lp_tail lp_len lp_next lp_arrs lp_anext lp_ticks] in *.
  subst hdp tlp len.
  destruct (map fst cells ++ [tl]) as [|c R] eqn:ER; [destruct (map fst cells); discriminate|].
  destruct Hdl as (Hn & _ & Hdl').
  set (s1 := mklp h (Some hd) (Some tl) (zlen cells) nx (aset ar an (zeros (length cells))) (Pos.succ an) tk).
  destruct (fill_walk_spec an tl cells c R [] s1 (eq_sym ER) Hdl' Hv) as (ar' & He & Hfa & Hfo).
  { unfold s1. proj. rewrite afind_aset_same. reflexivity. }
  rewrite zlen_nil in He.
  exists ar'.
  split; [|split; [exact Hfresh|]; split; [exact Hfa|]].
  - unfold pAsSlice. mrun.
    mstep ltac:(unfold make_arr; proj; replace (zlen cells <? 0) with false by lia; reflexivity).
    mfld Hn. replace (Z.to_nat (zlen cells)) with (length cells) by (unfold zlen; lia).
    fold s1. mstep ltac:(exact He). reflexivity.
  - intros j Hj. rewrite Hfo by exact Hj. unfold s1. proj. apply afind_aset_other. exact Hj.
Qed.

(* ====================================================================== *)
(* L. NewLinkedList                                                        *)
(* ====================================================================== *)
Definition new_heap : nheap :=
  hupd (hupd (hset (hset (PositiveMap.empty lnode) 1%positive (mkln 0 None None))
                   2%positive (mkln 0 (Some 1%positive) (Some 1%positive)))
             1%positive (with_next (Some 2%positive)))
       1%positive (with_prev (Some 2%positive)).
Definition new_state : lpstate :=
  mklp new_heap (Some 1%positive) (Some 2%positive) 0 3%positive (PositiveMap.empty (list Z)) 1%positive O.

Lemma pNew_eval : pNew lp_empty = ROk tt new_state.
Proof. vm_compute. reflexivity. Qed.

Lemma rep_new : ll_rep new_state 1%positive 2%positive [].
Proof.
  unfold ll_rep, new_state. proj. cbn [map app].
  split; [reflexivity|]. split; [reflexivity|].
  split; [repeat constructor; cbn [In]; intuition discriminate|].
  split; [vm_compute; repeat split; reflexivity|].
  split; [vm_compute; reflexivity|]. split; [vm_compute; reflexivity|].
  split; [constructor|]. split; [reflexivity|].
  split.
  - intros i Hi. unfold new_heap in Hi. do 2 apply hfind_hupd_alloc in Hi.
    apply hfind_hset_alloc in Hi. destruct Hi as [->|Hi]; [lia|].
    apply hfind_hset_alloc in Hi. destruct Hi as [->|Hi]; [lia|].
    unfold hfind in Hi. rewrite PositiveMap.gempty in Hi. now elim Hi.
  - intros j Hj. unfold afind in Hj. rewrite PositiveMap.gempty in Hj. now elim Hj.
Qed.

(* ====================================================================== *)
(* M. one call against the abstract sequence and against ListModel         *)
(* ====================================================================== *)
Lemma map_insert_at : forall (cells : list (nid * Z)) k c,
  map snd (insert_at cells k c) = insert_at (map snd cells) k (snd c).
Proof.
  induction cells as [|d cells IH]; intros k c; destruct k as [|k]; cbn [insert_at map]; try reflexivity.
  now rewrite IH.
Qed.

Lemma map_set_nth : forall (cells : list (nid * Z)) k c,
  map snd (set_nth cells k c) = set_nth (map snd cells) k (snd c).
Proof.
  induction cells as [|d cells IH]; intros k c; destruct k as [|k]; cbn [set_nth map]; try reflexivity.
  now rewrite IH.
Qed.

Definition arrs_kept (s s' : lpstate) : Prop :=
  (forall j, (j < lp_anext s)%positive -> afind (lp_arrs s') j = afind (lp_arrs s) j) /\
  (lp_anext s <= lp_anext s')%positive.

Lemma same_arrs_kept : forall s s', same_arrs s s' -> arrs_kept s s'.
Proof. intros s s' (H1 & H2). split; [intros j _; now rewrite H1 | rewrite H2; lia]. Qed.

Definition spec_out (vals : list Z) (o : op) : outcome out :=
  match o with OpCap => Ok (OCap (zlen vals)) | _ => snd (seq_step vals o) end.

(* what changes: nothing but the ghost counter for a read; for AsSlice also the array heap *)
Definition store_eq (s s' : lpstate) : Prop :=
  lp_heap s' = lp_heap s /\ lp_head s' = lp_head s /\ lp_tail s' = lp_tail s /\
  lp_len s' = lp_len s /\ lp_next s' = lp_next s.

Definition is_read (o : op) : bool :=
  match o with OpGet _ | OpLen | OpCap | OpRange _ | OpAsSlice => true | _ => false end.

Lemma pstep_spec : forall s hd tl cells o,
  ll_rep s hd tl cells ->
  exists r s' cells', pstep o s = ROk r s' /\ ll_rep s' hd tl cells' /\
    map snd cells' = fst (seq_step (map snd cells) o) /\
    r = spec_out (map snd cells) o /\
    (forall e, r = Err e -> s' = s) /\
    arrs_kept s s' /\
    (is_read o = true -> store_eq s s' /\ cells' = cells).
Proof.
  intros s hd tl cells o Hrep.
  pose proof Hrep as (Hh & Ht & Hnd & Hdl & Hcn & Hcp & Hv & Hl & Hb & Hab).
  pose proof (zlen_map _ _ snd cells) as Hzm.
  assert (Hself : arrs_kept s s) by (split; [reflexivity | lia]).
  assert (Hse : store_eq s s) by (repeat split).
  destruct o as [i|xs|i x|i x|i| | |stop| ]; cbn [pstep seq_step spec_out is_read]; rewrite ?Hzm.
  - (* Get *)
    pose proof (pGet_spec s hd tl cells i Hrep) as H.
    destruct (in_idx i (zlen cells)).
    + destruct H as (k & H). exists (Ok (OVal (nth_d (Z.to_nat i) (map snd cells) 0))), (add_ticks k s), cells.
      split; [exact H|]. split; [apply rep_ticks; exact Hrep|]. split; [reflexivity|]. split; [reflexivity|].
      split; [discriminate|]. split; [exact Hself|]. intros _. split; [exact Hse | reflexivity].
    + exists (Err EIndex), s, cells.
      split; [exact H|]. split; [exact Hrep|]. split; [reflexivity|]. split; [reflexivity|].
      split; [reflexivity|]. split; [exact Hself|]. intros _. split; [exact Hse | reflexivity].
  - (* Append *)
    destruct (append_loop_spec xs s hd tl cells Hrep) as (s' & cells' & He & Hrep' & Hc' & Hsa & _).
    exists (Ok OUnit), s', cells'. unfold pAppend.
    split; [rewrite (bind_eval _ _ _ _ _ tt s' He); reflexivity|].
    split; [exact Hrep'|]. split; [exact Hc'|]. split; [reflexivity|].
    split; [discriminate|]. split; [apply same_arrs_kept; exact Hsa | discriminate].
  - (* Add *)
    pose proof (pAdd_spec s hd tl cells i x Hrep) as H.
    destruct ((0 <=? i) && (i <=? zlen cells)).
    + destruct H as (s' & n & He & Hrep' & Hsa).
      exists (Ok OUnit), s', (insert_at cells (Z.to_nat i) (n, x)).
      split; [exact He|]. split; [exact Hrep'|]. split; [apply map_insert_at|]. split; [reflexivity|].
      split; [discriminate|]. split; [apply same_arrs_kept; exact Hsa | discriminate].
    + exists (Err EIndex), s, cells.
      split; [exact H|]. split; [exact Hrep|]. split; [reflexivity|]. split; [reflexivity|].
      split; [reflexivity|]. split; [exact Hself | discriminate].
  - (* Set *)
    pose proof (pSet_spec s hd tl cells i x Hrep) as H.
    destruct (in_idx i (zlen cells)).
    + destruct H as (s' & n & He & Hrep' & Hsa).
      exists (Ok OUnit), s', (set_nth cells (Z.to_nat i) (n, x)).
      split; [exact He|]. split; [exact Hrep'|]. split; [apply map_set_nth|]. split; [reflexivity|].
      split; [discriminate|]. split; [apply same_arrs_kept; exact Hsa | discriminate].
    + exists (Err EIndex), s, cells.
      split; [exact H|]. split; [exact Hrep|]. split; [reflexivity|]. split; [reflexivity|].
      split; [reflexivity|]. split; [exact Hself | discriminate].
  - (* Delete *)
    pose proof (pDelete_spec s hd tl cells i Hrep) as H.
    destruct (in_idx i (zlen cells)).
    + destruct H as (s' & pre & n & vx & post & -> & Hpre & He & Hrep' & Hsa & _).
      exists (Ok (OVal vx)), s', (pre ++ post).
      assert (Hi : Z.to_nat i = length (map snd pre)) by (rewrite map_length; unfold zlen in Hpre; lia).
      split; [exact He|]. split; [exact Hrep'|].
      rewrite !map_app. cbn [map snd]. rewrite Hi.
      split; [rewrite remove_at_mid; reflexivity|]. split; [rewrite nth_d_mid; reflexivity|].
      split; [discriminate|]. split; [apply same_arrs_kept; exact Hsa | discriminate].
    + exists (Err EIndex), s, cells.
      split; [exact H|]. split; [exact Hrep|]. split; [reflexivity|]. split; [reflexivity|].
      split; [reflexivity|]. split; [exact Hself | discriminate].
  - (* Len *)
    exists (Ok (OLen (zlen cells))), s, cells. mrun. rewrite Hl.
    split; [reflexivity|]. split; [exact Hrep|]. split; [reflexivity|]. split; [reflexivity|].
    split; [discriminate|]. split; [exact Hself|]. intros _. split; [exact Hse | reflexivity].
  - (* Cap *)
    exists (Ok (OCap (zlen cells))), s, cells. mrun. rewrite Hl.
    split; [reflexivity|]. split; [exact Hrep|]. split; [reflexivity|]. split; [reflexivity|].
    split; [discriminate|]. split; [exact Hself|]. intros _. split; [exact Hse | reflexivity].
  - (* Range *)
    exists (Ok (seq_range (map snd cells) stop)), s, cells.
    split; [apply (pRange_spec s hd tl); exact Hrep|]. split; [exact Hrep|]. split; [reflexivity|].
    split; [reflexivity|]. split; [discriminate|]. split; [exact Hself|]. intros _. split; [exact Hse | reflexivity].
  - (* AsSlice *)
    destruct (pAsSlice_spec s hd tl cells Hrep) as (ar' & He & Hfresh & Hfa & Hfo).
    eexists (Ok (OSlice false (map snd cells))), _, cells.
    split.
    { mstep ltac:(exact He).
      mstep ltac:(unfold arr_read; proj; rewrite Hfa; reflexivity). reflexivity. }
    split.
    { unfold ll_rep. proj. repeat (split; [assumption|]).
      intros j Hj. destruct (Pos.eq_dec j (lp_anext s)) as [->|Hne]; [lia|].
      rewrite Hfo in Hj by exact Hne. apply Hab in Hj. lia. }
    split; [reflexivity|]. split; [reflexivity|]. split; [discriminate|].
    split.
    { split; proj; [|lia]. intros j Hj. apply Hfo. lia. }
    intros _. split; [repeat split | reflexivity].
Qed.

Definition mkll (vals : list Z) : llist := {| lnodes := vals; llen := zlen vals |}.

Lemma canon_not_cap : forall (r q : outcome out),
  (forall c, q <> Ok (OCap c)) -> canon r = q -> r = q.
Proof.
  intros r q Hq H. destruct r as [[]| |]; cbn [canon] in H; try exact H.
  exfalso. apply (Hq 0). now rewrite <- H.
Qed.

Lemma seq_step_not_cap : forall l o c, o <> OpCap -> snd (seq_step l o) <> Ok (OCap c).
Proof.
  intros l o c Ho. destruct o as [i|xs|i x|i x|i| | |stop| ]; cbn [seq_step];
    try (destruct (in_idx _ _)); try (destruct (_ && _)); cbn [snd]; try discriminate.
  - now elim Ho.
  - unfold seq_range. destruct (in_idx stop (zlen l)); discriminate.
Qed.

Lemma op_eq_cap : forall o : op, {o = OpCap} + {o <> OpCap}.
Proof. intros o. destruct o; try (right; discriminate). now left. Qed.

Lemma spec_out_ll : forall vals o,
  spec_out vals o = snd (ll_step (mkll vals) o) /\ fst (ll_step (mkll vals) o) = mkll (fst (seq_step vals o)).
Proof.
  intros vals o.
  pose proof (ll_step_refines (mkll vals) o eq_refl) as (H1 & H2 & H3). cbn [mkll lnodes] in H1, H2.
  split.
  - destruct (op_eq_cap o) as [->|Ho].
    + reflexivity.
    + assert (Hs : spec_out vals o = snd (seq_step vals o)) by (destruct o; try reflexivity; now elim Ho).
      rewrite Hs. symmetry. apply canon_not_cap; [intros c; apply seq_step_not_cap; exact Ho | exact H2].
  - destruct (fst (ll_step (mkll vals) o)) as [ln le]. cbn [lnodes llen] in *. unfold mkll. now subst.
Qed.

(* ====================================================================== *)
(* N. histories                                                            *)
(* ====================================================================== *)
Lemma arrs_kept_trans : forall s1 s2 s3, arrs_kept s1 s2 -> arrs_kept s2 s3 -> arrs_kept s1 s3.
Proof.
  intros s1 s2 s3 (H1 & H2) (H3 & H4). split; [|lia].
  intros j Hj. rewrite H3 by lia. apply H1. exact Hj.
Qed.

Lemma prun_spec : forall h s hd tl cells,
  ll_rep s hd tl cells ->
  exists outs s' cells', prun h s = ROk outs s' /\ ll_rep s' hd tl cells' /\
    outs = lrun (SLinked (mkll (map snd cells))) h /\
    map snd cells' = seq_final (map snd cells) h /\
    arrs_kept s s'.
Proof.
  induction h as [|[o c] t IH]; intros s hd tl cells Hrep.
  - exists [], s, cells. split; [reflexivity|]. split; [exact Hrep|]. split; [reflexivity|].
    split; [reflexivity|]. split; [reflexivity | lia].
  - destruct (pstep_spec s hd tl cells o Hrep) as (r & s1 & cells1 & He & Hrep1 & Hc1 & Hr & _ & Hk1 & _).
    destruct (IH s1 hd tl cells1 Hrep1) as (outs & s2 & cells2 & He2 & Hrep2 & Ho2 & Hc2 & Hk2).
    exists (r :: outs), s2, cells2. cbn [prun].
    split; [rewrite (bind_eval _ _ _ _ _ r s1 He), (bind_eval _ _ _ _ _ outs s2 He2); reflexivity|].
    split; [exact Hrep2|].
    destruct (spec_out_ll (map snd cells) o) as (Hs1 & Hs2).
    cbn [lrun lstep seq_final]. destruct (ll_step (mkll (map snd cells)) o) as [l' r'] eqn:El.
    cbn [fst snd] in Hs1, Hs2. subst l'.
    split; [rewrite Hr, Hs1, Ho2, Hc1; reflexivity|].
    split; [rewrite Hc2, Hc1; reflexivity|].
    eapply arrs_kept_trans; eassumption.
Qed.

Lemma pNewOf_spec : forall ts,
  exists s cells, pNewOf ts lp_empty = ROk tt s /\ ll_rep s 1%positive 2%positive cells /\ map snd cells = ts.
Proof.
  intros ts.
  destruct (append_loop_spec ts new_state _ _ _ rep_new) as (s & cells & He & Hrep & Hc & _).
  exists s, cells. unfold pNewOf, pAppend.
  rewrite (bind_eval _ _ _ _ _ tt new_state pNew_eval).
  erewrite bind_eval; [| erewrite bind_eval; [| exact He]; reflexivity].
  split; [reflexivity|]. split; [exact Hrep | exact Hc].
Qed.

(* ====================================================================== *)
(* O. the two chains read back from the store                              *)
(* ====================================================================== *)
Lemma follow_next_dl : forall h gp L a,
  dlinks (fget nnext h) gp (a :: L) -> follow nnext h (S (length L)) (Some a) = a :: L.
Proof.
  intros h gp. induction L as [|b L IH]; intros a H.
  - cbn [length follow]. destruct (hfind h a); reflexivity.
  - destruct H as (H1 & _ & H3). cbn [length]. change (follow nnext h (S (S (length L))) (Some a))
      with (a :: match hfind h a with Some n => follow nnext h (S (length L)) (nnext n) | None => [] end).
    unfold fget in H1. destruct (hfind h a) as [n|]; [|discriminate]. cbn [option_map] in H1.
    injection H1 as ->. rewrite (IH b H3). reflexivity.
Qed.

Lemma follow_prev_dl : forall h gn L a,
  dlinks gn (fget nprev h) (L ++ [a]) -> follow nprev h (S (length L)) (Some a) = a :: rev L.
Proof.
  intros h gn. induction L as [|b L IH] using rev_ind; intros a H.
  - cbn [length follow rev]. destruct (hfind h a); reflexivity.
  - rewrite <- app_assoc in H. cbn [app] in H.
    pose proof (dl_pair _ _ _ _ _ _ H) as (_ & H2).
    apply dl_app_iff in H. destruct H as (H3 & _).
    rewrite app_length. cbn [length]. replace (length L + 1)%nat with (S (length L)) by lia.
    change (follow nprev h (S (S (length L))) (Some a))
      with (a :: match hfind h a with Some n => follow nprev h (S (length L)) (nprev n) | None => [] end).
    unfold fget in H2. destruct (hfind h a) as [n|]; [|discriminate]. cbn [option_map] in H2.
    injection H2 as ->. rewrite (IH b H3), rev_app_distr. reflexivity.
Qed.

Lemma val_of_fget : forall h i v, fget nval h i = Some v -> val_of h i = v.
Proof.
  intros h i v H. unfold fget, val_of in *. destruct (hfind h i); [|discriminate].
  cbn [option_map] in H. now injection H.
Qed.

Lemma rep_chains : forall s hd tl cells,
  ll_rep s hd tl cells ->
  fwd_ring s = hd :: map fst cells ++ [tl; hd] /\
  bwd_ring s = tl :: rev (map fst cells) ++ [hd; tl] /\
  fwd_vals s = map snd cells /\
  bwd_vals s = rev (map snd cells).
Proof.
  intros s hd tl cells (Hh & Ht & Hnd & Hdl & Hcn & Hcp & Hv & Hl & Hb & Hab).
  set (ids := map fst cells) in *.
  assert (Hlen : Z.to_nat (lp_len s) = length ids)
    by (rewrite Hl; unfold ids, zlen; rewrite map_length; lia).
  assert (Hf : fwd_ring s = hd :: ids ++ [tl; hd]).
  { unfold fwd_ring. rewrite Hh, Hlen.
    replace (length ids + 3)%nat with (S (length (ids ++ [tl; hd]))) by (rewrite app_length; cbn [length]; lia).
    apply (follow_next_dl _ (fget nprev (lp_heap s))).
    change (hd :: ids ++ [tl; hd]) with ((hd :: ids) ++ tl :: [hd]).
    apply dl_app_iff. split; [exact Hdl|]. cbn [dlinks]. tauto. }
  assert (Hbw : bwd_ring s = tl :: rev ids ++ [hd; tl]).
  { unfold bwd_ring. rewrite Ht, Hlen.
    replace (length ids + 3)%nat with (S (length (tl :: hd :: ids))) by (cbn [length]; lia).
    rewrite (follow_prev_dl _ (fget nnext (lp_heap s)) (tl :: hd :: ids) tl).
    - cbn [rev]. rewrite <- !app_assoc. reflexivity.
    - change ((tl :: hd :: ids) ++ [tl]) with (tl :: (hd :: ids ++ [tl])).
      change (dlinks (fget nnext (lp_heap s)) (fget nprev (lp_heap s)) (tl :: hd :: ids ++ [tl]))
        with (fget nnext (lp_heap s) tl = Some (Some hd) /\ fget nprev (lp_heap s) hd = Some (Some tl) /\
              dlinks (fget nnext (lp_heap s)) (fget nprev (lp_heap s)) (hd :: ids ++ [tl])).
      tauto. }
  assert (Hvals : map (val_of (lp_heap s)) ids = map snd cells).
  { unfold ids. rewrite map_map. apply map_ext_in. intros c Hc.
    rewrite Forall_forall in Hv. apply val_of_fget. apply Hv. exact Hc. }
  split; [exact Hf|]. split; [exact Hbw|].
  unfold fwd_vals, bwd_vals. rewrite Hf, Hbw, Hlen. cbn [List.tl].
  split.
  - rewrite firstn_app, firstn_all, Nat.sub_diag. cbn [firstn]. rewrite app_nil_r. exact Hvals.
  - rewrite <- (rev_length ids). rewrite firstn_app, firstn_all, Nat.sub_diag. cbn [firstn].
    rewrite app_nil_r, map_rev, Hvals. reflexivity.
Qed.

(* next and prev are inverse on the ring, and never leave it *)
Lemma ring_next : forall s hd tl cells x,
  ll_rep s hd tl cells -> In x (hd :: map fst cells ++ [tl]) ->
  exists y, In y (hd :: map fst cells ++ [tl]) /\
    fget nnext (lp_heap s) x = Some (Some y) /\ fget nprev (lp_heap s) y = Some (Some x).
Proof.
  intros s hd tl cells x (Hh & Ht & Hnd & Hdl & Hcn & Hcp & _) Hx.
  destruct (in_split _ _ Hx) as (X & Z & Heq).
  destruct Z as [|y Z].
  - rewrite app_comm_cons in Heq. apply app_inj_tail in Heq. destruct Heq as [_ <-].
    exists hd. split; [now left | tauto].
  - exists y. rewrite Heq in Hdl. split; [rewrite Heq; apply in_or_app; right; right; now left|].
    apply (dl_pair _ _ _ _ _ _ Hdl).
Qed.

Lemma ring_prev : forall s hd tl cells x,
  ll_rep s hd tl cells -> In x (hd :: map fst cells ++ [tl]) ->
  exists w, In w (hd :: map fst cells ++ [tl]) /\
    fget nprev (lp_heap s) x = Some (Some w) /\ fget nnext (lp_heap s) w = Some (Some x).
Proof.
  intros s hd tl cells x (Hh & Ht & Hnd & Hdl & Hcn & Hcp & _) Hx.
  destruct (in_split _ _ Hx) as (X & Z & Heq).
  destruct X as [|x0 X] using rev_ind.
  - cbn [app] in Heq. injection Heq as <- _.
    exists tl. split; [right; apply in_or_app; right; now left | tauto].
  - clear IHX. rewrite <- app_assoc in Heq. cbn [app] in Heq.
    exists x0. rewrite Heq in Hdl. split; [rewrite Heq; apply in_or_app; right; now left|].
    pose proof (dl_pair _ _ _ _ _ _ Hdl). tauto.
Qed.

Lemma follow_stays : forall s hd tl cells,
  ll_rep s hd tl cells ->
  forall k i j, In i (hd :: map fst cells ++ [tl]) ->
    (In j (follow nnext (lp_heap s) k (Some i)) -> In j (hd :: map fst cells ++ [tl])) /\
    (In j (follow nprev (lp_heap s) k (Some i)) -> In j (hd :: map fst cells ++ [tl])).
Proof.
  intros s hd tl cells Hrep. induction k as [|k IH]; intros i j Hi; [split; intros []|].
  cbn [follow].
  destruct (ring_next _ _ _ _ _ Hrep Hi) as (y & Hy & Hn & _).
  destruct (ring_prev _ _ _ _ _ Hrep Hi) as (w & Hw & Hp & _).
  unfold fget in Hn, Hp. destruct (hfind (lp_heap s) i) as [n|]; [|discriminate].
  cbn [option_map] in Hn, Hp. injection Hn as Hn. injection Hp as Hp. rewrite Hn, Hp.
  split; intros [<-|Hj]; try exact Hi.
  - apply (proj1 (IH y j Hy)). exact Hj.
  - apply (proj2 (IH w j Hw)). exact Hj.
Qed.

Lemma not_reachable : forall s hd tl cells x,
  ll_rep s hd tl cells -> ~ In x (hd :: map fst cells ++ [tl]) -> ~ reach_next s x /\ ~ reach_prev s x.
Proof.
  intros s hd tl cells x Hrep Hx.
  pose proof Hrep as (Hh & Ht & _).
  assert (Hhd : In hd (hd :: map fst cells ++ [tl])) by now left.
  assert (Htl : In tl (hd :: map fst cells ++ [tl])) by (right; apply in_or_app; right; now left).
  split; intros (k & [H|H]); rewrite ?Hh, ?Ht in H; apply Hx.
  - apply (proj1 (follow_stays _ _ _ _ Hrep k hd x Hhd)). exact H.
  - apply (proj1 (follow_stays _ _ _ _ Hrep k tl x Htl)). exact H.
  - apply (proj2 (follow_stays _ _ _ _ Hrep k hd x Hhd)). exact H.
  - apply (proj2 (follow_stays _ _ _ _ Hrep k tl x Htl)). exact H.
Qed.

(* ====================================================================== *)
(* P. the statements of props/C04_llptr.v                                  *)
(* ====================================================================== *)
Lemma wf_vals : forall s hd tl cells, ll_rep s hd tl cells -> fwd_vals s = map snd cells.
Proof. intros s hd tl cells H. apply (rep_chains _ _ _ _ H). Qed.

Lemma constructors_wf_lemma : forall ts,
  exists s, pNewOf ts lp_empty = ROk tt s /\ ll_wf s /\ fwd_vals s = ts /\ bwd_vals s = rev ts /\
            lp_len s = zlen ts.
Proof.
  intros ts. destruct (pNewOf_spec ts) as (s & cells & He & Hrep & Hc).
  exists s. split; [exact He|]. split; [now exists 1%positive, 2%positive, cells|].
  destruct (rep_chains _ _ _ _ Hrep) as (_ & _ & Hf & Hb). rewrite Hf, Hb, Hc.
  split; [reflexivity|]. split; [reflexivity|].
  destruct Hrep as (_ & _ & _ & _ & _ & _ & _ & Hl & _). rewrite Hl, <- Hc. symmetry. apply zlen_map.
Qed.

Lemma new_wf_lemma :
  exists s, pNew lp_empty = ROk tt s /\ ll_wf s /\ fwd_vals s = [] /\ lp_len s = 0.
Proof.
  exists new_state. split; [exact pNew_eval|]. split; [exists 1%positive, 2%positive, []; exact rep_new|].
  split; [exact (wf_vals _ _ _ _ rep_new) | reflexivity].
Qed.

Lemma step_refines_lemma : forall s o,
  ll_wf s ->
  exists r s', pstep o s = ROk r s' /\ ll_wf s' /\
    lp_head s' = lp_head s /\ lp_tail s' = lp_tail s /\
    r = snd (ll_step (mkll (fwd_vals s)) o) /\
    mkll (fwd_vals s') = fst (ll_step (mkll (fwd_vals s)) o) /\
    canon r = snd (seq_step (fwd_vals s) o) /\
    fwd_vals s' = fst (seq_step (fwd_vals s) o) /\
    bwd_vals s' = rev (fwd_vals s') /\
    lp_len s' = zlen (fwd_vals s').
Proof.
  intros s o (hd & tl & cells & Hrep).
  destruct (pstep_spec s hd tl cells o Hrep) as (r & s' & cells' & He & Hrep' & Hc & Hr & _).
  exists r, s'. rewrite (wf_vals _ _ _ _ Hrep).
  destruct (rep_chains _ _ _ _ Hrep') as (_ & _ & Hf & Hb). rewrite Hf, Hb.
  destruct (spec_out_ll (map snd cells) o) as (Hs1 & Hs2).
  pose proof (ll_step_refines (mkll (map snd cells)) o eq_refl) as (_ & H2 & _). cbn [mkll lnodes] in H2.
  split; [exact He|]. split; [now exists hd, tl, cells'|].
  destruct Hrep as (Hh & Ht & _). destruct Hrep' as (Hh' & Ht' & _ & _ & _ & _ & _ & Hl' & _).
  split; [congruence|]. split; [congruence|].
  split; [rewrite Hr; exact Hs1|]. split; [rewrite Hs2, Hc; reflexivity|].
  split; [rewrite Hr, Hs1; exact H2|]. split; [exact Hc|]. split; [reflexivity|].
  rewrite Hl'. symmetry. apply zlen_map.
Qed.

Lemma run_refines_lemma : forall s h,
  ll_wf s ->
  exists outs s', prun h s = ROk outs s' /\ ll_wf s' /\
    outs = lrun (SLinked (mkll (fwd_vals s))) h /\
    map canon outs = seq_run (fwd_vals s) h /\
    fwd_vals s' = seq_final (fwd_vals s) h /\
    bwd_vals s' = rev (seq_final (fwd_vals s) h) /\
    lp_head s' = lp_head s /\ lp_tail s' = lp_tail s.
Proof.
  intros s h (hd & tl & cells & Hrep).
  destruct (prun_spec h s hd tl cells Hrep) as (outs & s' & cells' & He & Hrep' & Ho & Hc & _).
  exists outs, s'. rewrite (wf_vals _ _ _ _ Hrep).
  destruct (rep_chains _ _ _ _ Hrep') as (_ & _ & Hf & Hb). rewrite Hf, Hb, Hc.
  split; [exact He|]. split; [now exists hd, tl, cells'|]. split; [exact Ho|].
  split; [rewrite Ho; exact (lrun_refines h (SLinked (mkll (map snd cells))) eq_refl)|].
  split; [reflexivity|]. split; [reflexivity|].
  destruct Hrep as (Hh & Ht & _). destruct Hrep' as (Hh' & Ht' & _). split; congruence.
Qed.

Lemma new_refines_lemma : forall ts h,
  exists s0 outs sf, pNewOf ts lp_empty = ROk tt s0 /\ prun h s0 = ROk outs sf /\
    outs = lrun (SLinked (mkll ts)) h /\ map canon outs = seq_run ts h /\
    Forall (fun r => r <> Panic) outs /\
    ll_wf sf /\ fwd_vals sf = seq_final ts h /\ bwd_vals sf = rev (seq_final ts h).
Proof.
  intros ts h. destruct (constructors_wf_lemma ts) as (s0 & He0 & Hwf & Hv & _).
  destruct (run_refines_lemma s0 h Hwf) as (outs & sf & He & Hwf' & Ho & Hc & Hf & Hb & _).
  rewrite Hv in *. exists s0, outs, sf.
  repeat (split; [assumption|]).
  split; [rewrite Ho; apply (lrun_no_panic h (SLinked (mkll ts))); reflexivity|].
  repeat (split; [assumption|]). exact Hb.
Qed.

Lemma wf_chains_lemma : forall s,
  ll_wf s ->
  exists hd tl ids,
    lp_head s = Some hd /\ lp_tail s = Some tl /\ lp_len s = zlen ids /\
    fwd_ring s = hd :: ids ++ [tl; hd] /\
    bwd_ring s = tl :: rev ids ++ [hd; tl] /\
    NoDup (hd :: ids ++ [tl]) /\
    bwd_vals s = rev (fwd_vals s) /\ zlen (fwd_vals s) = lp_len s /\
    (forall x, In x (hd :: ids ++ [tl]) ->
       exists y w, In y (hd :: ids ++ [tl]) /\ In w (hd :: ids ++ [tl]) /\
         fget nnext (lp_heap s) x = Some (Some y) /\ fget nprev (lp_heap s) y = Some (Some x) /\
         fget nprev (lp_heap s) x = Some (Some w) /\ fget nnext (lp_heap s) w = Some (Some x)).
Proof.
  intros s (hd & tl & cells & Hrep). exists hd, tl, (map fst cells).
  destruct (rep_chains _ _ _ _ Hrep) as (Hf & Hb & Hfv & Hbv).
  pose proof Hrep as (Hh & Ht & Hnd & _ & _ & _ & _ & Hl & _).
  split; [exact Hh|]. split; [exact Ht|]. split; [rewrite Hl; symmetry; apply zlen_map|].
  split; [exact Hf|]. split; [exact Hb|]. split; [exact Hnd|].
  split; [rewrite Hbv, Hfv; reflexivity|]. split; [rewrite Hfv, Hl; apply zlen_map|].
  intros x Hx. destruct (ring_next _ _ _ _ _ Hrep Hx) as (y & Hy & H1 & H2).
  destruct (ring_prev _ _ _ _ _ Hrep Hx) as (w & Hw & H3 & H4).
  exists y, w. tauto.
Qed.

Lemma failed_call_lemma : forall s o e s',
  ll_wf s -> pstep o s = ROk (Err e) s' -> s' = s.
Proof.
  intros s o e s' (hd & tl & cells & Hrep) He.
  destruct (pstep_spec s hd tl cells o Hrep) as (r & s1 & cells' & He1 & _ & _ & _ & Herr & _).
  rewrite He1 in He. injection He as -> ->. apply (Herr e). reflexivity.
Qed.

Lemma read_call_lemma : forall s o r s',
  ll_wf s -> is_read o = true -> pstep o s = ROk r s' -> store_eq s s' /\ fwd_vals s' = fwd_vals s.
Proof.
  intros s o r s' (hd & tl & cells & Hrep) Hro He.
  destruct (pstep_spec s hd tl cells o Hrep) as (r1 & s1 & cells' & He1 & Hrep' & _ & _ & _ & _ & Hrd).
  rewrite He1 in He. injection He as -> ->. destruct (Hrd Hro) as (Hse & ->).
  split; [exact Hse|]. rewrite (wf_vals _ _ _ _ Hrep), (wf_vals _ _ _ _ Hrep'). reflexivity.
Qed.

(* a client's write into an array changes no part of the list *)
Lemma rep_arr_write : forall s hd tl cells a i v,
  ll_rep s hd tl cells -> ll_rep (arr_write a i v s) hd tl cells /\ store_eq s (arr_write a i v s).
Proof.
  intros s hd tl cells a i v Hrep. unfold arr_write, arr_store.
  destruct (afind (lp_arrs s) a) as [l|] eqn:E; [|split; [exact Hrep | repeat split]].
  destruct (in_idx i (zlen l)); [|split; [exact Hrep | repeat split]].
  split; [|repeat split].
  apply rep_set_arrs; [exact Hrep|].
  destruct Hrep as (_ & _ & _ & _ & _ & _ & _ & _ & _ & Hab).
  intros j Hj. destruct (Pos.eq_dec j a) as [->|Hne].
  - apply Hab. congruence.
  - rewrite afind_aset_other in Hj by exact Hne. apply Hab. exact Hj.
Qed.

Lemma asslice_fresh_lemma : forall s,
  ll_wf s ->
  exists a s1, pAsSlice s = ROk a s1 /\
    afind (lp_arrs s) a = None /\ afind (lp_arrs s1) a = Some (fwd_vals s) /\
    (forall j, j <> a -> afind (lp_arrs s1) j = afind (lp_arrs s) j) /\
    store_eq s s1 /\ ll_wf s1 /\ fwd_vals s1 = fwd_vals s /\
    (forall h outs s2, prun h s1 = ROk outs s2 -> afind (lp_arrs s2) a = Some (fwd_vals s)) /\
    (forall i v, store_eq s1 (arr_write a i v s1) /\ ll_wf (arr_write a i v s1) /\
                 fwd_vals (arr_write a i v s1) = fwd_vals s /\
                 forall h, exists outs s2 s2', prun h s1 = ROk outs s2 /\
                                            prun h (arr_write a i v s1) = ROk outs s2').
Proof.
  intros s (hd & tl & cells & Hrep).
  destruct (pAsSlice_spec s hd tl cells Hrep) as (ar' & He & Hfresh & Hfa & Hfo).
  pose proof Hrep as (Hh & Ht & Hnd & Hdl & Hcn & Hcp & Hv & Hl & Hb & Hab).
  set (s1 := mklp (lp_heap s) (lp_head s) (lp_tail s) (lp_len s) (lp_next s) ar' (Pos.succ (lp_anext s)) (lp_ticks s)) in *.
  assert (Hrep1 : ll_rep s1 hd tl cells).
  { unfold ll_rep, s1. proj. repeat (split; [assumption|]).
    intros j Hj. destruct (Pos.eq_dec j (lp_anext s)) as [->|Hne]; [lia|].
    rewrite Hfo in Hj by exact Hne. apply Hab in Hj. lia. }
  exists (lp_anext s), s1. rewrite (wf_vals _ _ _ _ Hrep).
  split; [exact He|]. split; [exact Hfresh|]. split; [exact Hfa|]. split; [exact Hfo|].
  split; [repeat split|]. split; [now exists hd, tl, cells|]. split; [exact (wf_vals _ _ _ _ Hrep1)|].
  split.
  - intros h outs s2 Hrun.
    destruct (prun_spec h s1 hd tl cells Hrep1) as (outs' & s2' & cells2 & He2 & _ & _ & _ & (Hk & _)).
    rewrite He2 in Hrun. injection Hrun as _ <-. rewrite Hk by (unfold s1; proj; lia). exact Hfa.
  - intros i v. destruct (rep_arr_write s1 hd tl cells (lp_anext s) i v Hrep1) as (Hrepw & Hsew).
    split; [exact Hsew|]. split; [now exists hd, tl, cells|]. split; [exact (wf_vals _ _ _ _ Hrepw)|].
    intros h.
    destruct (prun_spec h s1 hd tl cells Hrep1) as (outs1 & s2 & c2 & He2 & _ & Ho2 & _).
    destruct (prun_spec h _ hd tl cells Hrepw) as (outs2 & s2' & c2' & He2' & _ & Ho2' & _).
    exists outs1, s2, s2'. split; [exact He2|]. rewrite He2', Ho2', Ho2. reflexivity.
Qed.

Lemma delete_unlinks_lemma : forall s index,
  ll_wf s -> 0 <= index < lp_len s ->
  exists v s' x A B,
    pDelete index s = ROk (Ok (OVal v)) s' /\ ll_wf s' /\
    fwd_ring s = A ++ x :: B /\ length A = S (Z.to_nat index) /\
    fwd_ring s' = A ++ B /\
    ~ In x (fwd_ring s') /\
    lp_len s' = lp_len s - 1 /\
    fget nnext (lp_heap s') x = Some None /\ fget nprev (lp_heap s') x = Some None /\
    ~ reach_next s' x /\ ~ reach_prev s' x.
Proof.
  intros s index (hd & tl & cells & Hrep) Hidx.
  pose proof Hrep as (_ & _ & _ & _ & _ & _ & _ & Hl & _).
  pose proof (pDelete_spec s hd tl cells index Hrep) as H.
  rewrite in_idx_true in H by lia.
  destruct H as (s' & pre & x & vx & post & -> & Hpre & He & Hrep' & _ & Hn & Hp & Hnot).
  destruct (rep_chains _ _ _ _ Hrep) as (Hf & _). destruct (rep_chains _ _ _ _ Hrep') as (Hf' & _).
  destruct (not_reachable _ _ _ _ _ Hrep' Hnot) as (Hrn & Hrp).
  exists vx, s', x, (hd :: map fst pre), (map fst post ++ [tl; hd]).
  split; [exact He|]. split; [now exists hd, tl, (pre ++ post)|].
  split; [rewrite Hf, map_app; cbn [map fst]; rewrite <- app_assoc; reflexivity|].
  split; [cbn [length]; rewrite map_length; unfold zlen in Hpre; lia|].
  split; [rewrite Hf', map_app, <- app_assoc; reflexivity|].
  split.
  { rewrite Hf'. intros Hin. apply Hnot.
    change (hd :: map fst (pre ++ post) ++ [tl; hd]) with ((hd :: map fst (pre ++ post)) ++ [tl] ++ [hd]) in Hin.
    rewrite app_assoc in Hin. apply in_app_or in Hin. destruct Hin as [Hin|[<-|[]]]; [exact Hin | now left]. }
  destruct Hrep' as (_ & _ & _ & _ & _ & _ & _ & Hl' & _).
  split; [rewrite Hl', Hl, !zlen_app_g, zlen_cons_g; lia|].
  tauto.
Qed.

Lemma findNode_links_lemma : forall s index,
  ll_wf s -> 0 <= index < lp_len s ->
  exists p s', findNode index s = ROk (Some p) s' /\
    nth_error (fwd_ring s) (S (Z.to_nat index)) = Some p /\
    Z.of_nat (lp_ticks s' - lp_ticks s) <= Z.quot (lp_len s) 2 + 1 /\
    Z.of_nat (lp_ticks s' - lp_ticks s) =
      (if index <=? Z.quot (lp_len s) 2 then index + 1 else lp_len s - index) /\
    store_eq s s' /\ lp_arrs s' = lp_arrs s.
Proof.
  intros s index (hd & tl & cells & Hrep) Hidx.
  pose proof Hrep as (_ & _ & _ & _ & _ & _ & _ & Hl & _).
  destruct (split_mid_g _ cells index ltac:(lia)) as (pre & [x vx] & post & -> & Hpre).
  destruct (findNode_spec s hd tl pre x vx post index Hrep (eq_sym Hpre)) as (k & Hfind & Hk1 & Hk2).
  destruct (rep_chains _ _ _ _ Hrep) as (Hf & _).
  exists x, (add_ticks k s). split; [exact Hfind|].
  split.
  { rewrite Hf, map_app. cbn [map fst nth_error]. rewrite <- app_assoc.
    replace (Z.to_nat index) with (length (map fst pre)) by (rewrite map_length; unfold zlen in Hpre; lia).
    rewrite nth_error_app2 by lia. rewrite Nat.sub_diag. reflexivity. }
  proj. replace (k + lp_ticks s - lp_ticks s)%nat with k by lia.
  split; [exact Hk1|]. split; [exact Hk2|]. split; [repeat split | reflexivity].
Qed.
