(* C05, skip-list half, layer B, part 2: the splice loop of Insert and the unlink loop of
   DeleteElement preserve the representation relation (loop invariants LInv / DInv over the cut
   nodes = A ++ B at the position of v; frame: an assignment to Forward[i] of update[i] leaves the
   other levels and the other cells alone; key lemma 12.4 of the heights side gives
   "update[i].Forward[i] leaves A" = fwd i A q = None), the level-trim loop, one operation
   (p_step_sim), whole histories (p_run_sim), the representation relation in observable form
   (ptr_rep) and its equivalence with the position-wise one, and the closed lemmas behind
   props/C05_skipptr.v. *)
From Ekit Require Import Common SkipModel SkipProof SkipPtrProof.
From Coq Require Import Sorting.Sorted Sorting.Permutation ZifyBool Arith PeanoNat.
Local Open Scope nat_scope.

Section Surgery.
  Variable T : Type.
  Notation node := (node T).
  Notation pnode := (pnode T).
  Notation on_level := (on_level T).
  Notation fwd := (fwd T).
  Notation hget := (hget T).
  Notation hset := (hset T).
  Notation set_fwd := (set_fwd T).
  Notation pforward := (pforward T).
  Notation heapT := (list (nat * pnode)).
  Notation idx_id := (idx_id T).
  Notation pid := (pid T).
  Notation pht := (pht T).
  Notation pvl := (pvl T).
  Notation node_at := (node_at T).
  Notation Rnode := (Rnode T).
  Notation Rlev := (Rlev T).
  Notation hdptr := (hdptr T).
  Notation Lleft := (Lleft T).
  Notation Lright := (Lright T).
  Notation NLeft := (NLeft T).
  Notation NRight := (NRight T).
  Notation ids_ok := (ids_ok T).


  Lemma pht_on : forall (A : list node) k i, i < pht A (S k) ->
    exists n, nth_error A k = Some n /\ on_level i n = true.
  Proof.
    intros A k i Hi. cbn [SkipPtrProof.pht] in Hi. destruct (nth_error A k) as [n|]; [|lia].
    exists n. split; [reflexivity|]. unfold SkipModel.on_level. apply Nat.ltb_lt. exact Hi.
  Qed.

  (* the predecessor q of the cut on level i is the only position of that level in front of the
     cut whose Forward[i] leaves A *)
  Lemma left_other_some : forall i (A : list node) q p,
    fwd i A q = None -> i < pht A q -> i < pht A p -> p <> q -> exists r, fwd i A p = Some r.
  Proof.
    intros i A q p Hq Hiq Hip Hne. pose proof (fwd_spec T i A q) as Hsq. rewrite Hq in Hsq.
    destruct (Nat.lt_trichotomy p q) as [Hlt|[He|Hgt]]; [|contradiction|].
    - destruct q as [|k]; [lia|]. destruct (pht_on A k i Hiq) as [n [Hn Hon]].
      pose proof (fwd_spec T i A p) as Hsp. destruct (fwd i A p) as [r|]; [exists r; reflexivity|].
      rewrite (Hsp k n) in Hon; [discriminate|lia|exact Hn].
    - destruct p as [|k]; [lia|]. destruct (pht_on A k i Hip) as [n [Hn Hon]].
      rewrite (Hsq k n) in Hon; [discriminate|lia|exact Hn].
  Qed.

  Lemma gapfree_fwdA : forall (A B : list node) i q, gapfree T (A ++ B) (length A) i q -> fwd i A q = None.
  Proof.
    intros A B i q [Hq Hgap]. pose proof (fwd_spec T i A q) as Hsp.
    destruct (fwd i A q) as [r|] eqn:Hf; [|reflexivity].
    destruct Hsp as [Hqr [n [Hn [Hon _]]]]. apply fwd_range in Hf.
    rewrite (Hgap r n) in Hon; [discriminate| |lia|lia].
    rewrite nth_error_app1 by lia. exact Hn.
  Qed.

  Lemma fwd_none_low : forall (A : list node) j p, (forall n, In n A -> nht n <= j) -> fwd j A p = None.
  Proof.
    intros A j p Hlow. pose proof (fwd_spec T j A p) as Hsp.
    destruct (fwd j A p) as [r|]; [|reflexivity].
    destruct Hsp as [_ [n [Hn [Hon _]]]]. apply nth_error_In in Hn. specialize (Hlow n Hn).
    unfold SkipModel.on_level in Hon. apply Nat.ltb_lt in Hon. lia.
  Qed.

  Lemma Lleft_frame : forall (h h' : heapT) A e i,
    (forall p, p <= length A -> pforward h' (pid A p) i = pforward h (pid A p) i) ->
    Lleft h A e i -> Lleft h' A e i.
  Proof. intros h h' A e i Hfr HL p Hp Hi. rewrite Hfr by exact Hp. apply HL; auto. Qed.

  Lemma Lright_frame : forall (h h' : heapT) X i,
    (forall k, k < length X -> pforward h' (pid X (S k)) i = pforward h (pid X (S k)) i) ->
    Lright h X i -> Lright h' X i.
  Proof. intros h h' X i Hfr HL k Hk Hi. rewrite Hfr by exact Hk. apply HL; auto. Qed.

  (* redirecting Forward[i] of the predecessor q: the entry pointer of the part behind the cut changes *)
  Lemma Lleft_redirect : forall (h h' : heapT) A e e' i q,
    Lleft h A e i -> fwd i A q = None -> i < pht A q ->
    (forall p, p <= length A -> p <> q -> pforward h' (pid A p) i = pforward h (pid A p) i) ->
    pforward h' (pid A q) i = POk e' ->
    Lleft h' A e' i.
  Proof.
    intros h h' A e e' i q HL Hq Hiq Hfr Hnew p Hp Hi.
    destruct (Nat.eq_dec p q) as [->|Hne].
    - rewrite Hq. exact Hnew.
    - rewrite (Hfr p Hp Hne). rewrite (HL p Hp Hi).
      destruct (left_other_some i A q p Hq Hiq Hi Hne) as [r Hr]. rewrite Hr. reflexivity.
  Qed.

  Lemma NRight_cons : forall (h : heapT) (n : node) B,
    NRight h (n :: B) <-> node_at h (nid n) (Some (nval n)) (nht n) /\ NRight h B.
  Proof.
    intros h n B. split.
    - intros HN. split; [exact (HN 0 (Nat.lt_0_succ _))|].
      intros k Hk. apply (HN (S k)). cbn [length]. lia.
    - intros [H0 HB] [|k] Hk; [exact H0|]. apply HB. cbn [length] in Hk. lia.
  Qed.

  Lemma pupd_some : forall (u : list (option nat)) i x, nth_error u i = Some (Some x) -> pupd u i = POk x.
  Proof. intros u i x H. unfold SkipModel.pupd. rewrite H. reflexivity. Qed.

  (* ================= Insert: the splice loop ================= *)
  Section Link.
    Variables (A B : list node) (n : node) (update : list (option nat)).
    Hypothesis Hok : ids_ok (A ++ n :: B).
    Hypothesis Hupd : forall j, j < nht n -> exists q,
      nth_error update j = Some (Some (pid A q)) /\ q <= length A /\ fwd j A q = None /\ j < pht A q.

    Definition LInv (h : heapT) (i : nat) : Prop :=
      NLeft h A /\ NRight h (n :: B) /\
      (forall j, j < i -> Lleft h A (hdptr j (n :: B)) j /\ Lright h (n :: B) j) /\
      (forall j, i <= j -> Lleft h A (hdptr j B) j /\ Lright h B j).

    Lemma ids_ok_AB : ids_ok (A ++ B).
    Proof. eapply ids_ok_remove; eauto. Qed.

    Lemma p_link_sim : forall m i h, i + m = nht n -> LInv h i ->
      exists h', p_link T h update (nid n) (seq i m) = POk h' /\ LInv h' (nht n).
    Proof.
      induction m as [|m IH]; intros i h Him HI.
      - exists h. cbn [seq p_link]. replace (nht n) with i by lia. auto.
      - cbn [seq p_link]. assert (Hi : i < nht n) by lia.
        destruct (Hupd i Hi) as [q [Hu [Hq [Hfq Hiq]]]].
        destruct HI as (HNL & HNR & Hdone & Htodo).
        destruct (Htodo i (le_n _)) as [HLi HRi].
        rewrite (pupd_some _ _ _ Hu). cbn [pbind].
        rewrite (HLi q Hq Hiq), Hfq. cbn [pbind].
        pose proof (proj1 (NRight_cons h n B) HNR) as [Hnn HNB].
        destruct (set_fwd_node_at T h (nid n) i (hdptr i B) _ _ Hnn Hi) as [h1 Hs1].
        rewrite Hs1. cbn [pbind].
        assert (Hnq1 : node_at h1 (pid A q) (pvl A q) (pht A q)).
        { eapply node_at_set_fwd; [exact Hs1|]. apply HNL. exact Hq. }
        destruct (set_fwd_node_at T h1 (pid A q) i (Some (nid n)) _ _ Hnq1 Hiq) as [h2 Hs2].
        rewrite Hs2. cbn [pbind].
        assert (Hfresh_q : pid A q <> nid n) by (eapply ids_ok_mid_fresh_l; eauto).
        (* what the two assignments changed *)
        assert (Hpf : forall x j, pforward h2 x j =
                  if Nat.eqb (pid A q) x && Nat.eqb j i then POk (Some (nid n))
                  else if Nat.eqb (nid n) x && Nat.eqb j i then POk (hdptr i B) else pforward h x j).
        { intros x j. rewrite (pforward_set_fwd T _ _ _ _ _ Hs2), (pforward_set_fwd T _ _ _ _ _ Hs1). reflexivity. }
        assert (Hother : forall x j, j <> i -> pforward h2 x j = pforward h x j).
        { intros x j Hji. rewrite Hpf. destruct (Nat.eqb_spec j i) as [|_]; [contradiction|].
          rewrite !andb_false_r. reflexivity. }
        assert (HpA : forall p, p <= length A -> p <> q -> pforward h2 (pid A p) i = pforward h (pid A p) i).
        { intros p Hp Hne. rewrite Hpf.
          destruct (Nat.eqb_spec (pid A q) (pid A p)) as [He|_].
          - exfalso. apply Hne. symmetry. eapply pid_inj; [|exact Hq|exact Hp|exact He].
            eapply ids_ok_app_l. exact Hok.
          - destruct (Nat.eqb_spec (nid n) (pid A p)) as [He|_]; [|reflexivity].
            exfalso. eapply ids_ok_mid_fresh_l; eauto. }
        assert (HpB : forall k, k < length B -> pforward h2 (pid B (S k)) i = pforward h (pid B (S k)) i).
        { intros k Hk. rewrite Hpf.
          destruct (Nat.eqb_spec (pid A q) (pid B (S k))) as [He|_].
          - exfalso. eapply (ids_ok_app_disj T A B); [apply ids_ok_AB|exact Hq|exact Hk|exact He].
          - destruct (Nat.eqb_spec (nid n) (pid B (S k))) as [He|_]; [|reflexivity].
            exfalso. eapply ids_ok_mid_fresh_r; eauto. }
        apply (IH (S i) h2); [lia|].
        split; [intros p Hp; eapply node_at_set_fwd; [exact Hs2|]; eapply node_at_set_fwd; [exact Hs1|]; apply HNL; exact Hp|].
        split; [intros k Hk; eapply node_at_set_fwd; [exact Hs2|]; eapply node_at_set_fwd; [exact Hs1|]; apply HNR; exact Hk|].
        split.
        + intros j Hj. destruct (Nat.eq_dec j i) as [->|Hne].
          * assert (Hon : on_level i n = true) by (unfold SkipModel.on_level; apply Nat.ltb_lt; exact Hi).
            split.
            -- rewrite hdptr_cons, Hon.
               eapply Lleft_redirect; [exact HLi|exact Hfq|exact Hiq|exact HpA|].
               rewrite Hpf. rewrite !Nat.eqb_refl. reflexivity.
            -- apply Lright_cons. split.
               ++ intros _. rewrite Hpf.
                  destruct (Nat.eqb_spec (pid A q) (nid n)) as [He|_]; [contradiction|].
                  rewrite !Nat.eqb_refl. reflexivity.
               ++ eapply Lright_frame; [exact HpB|exact HRi].
          * destruct (Hdone j) as [H1 H2]; [lia|]. split.
            -- eapply Lleft_frame; [|exact H1]. intros p _. apply Hother. exact Hne.
            -- eapply Lright_frame; [|exact H2]. intros k _. apply Hother. exact Hne.
        + intros j Hj. destruct (Htodo j) as [H1 H2]; [lia|]. split.
          * eapply Lleft_frame; [|exact H1]. intros p _. apply Hother. lia.
          * eapply Lright_frame; [|exact H2]. intros k _. apply Hother. lia.
    Qed.

    Lemma LInv_done : forall h, LInv h (nht n) -> Rnode h (A ++ n :: B) /\ forall i, Rlev h (A ++ n :: B) i.
    Proof.
      clear Hok Hupd.
      intros h (HNL & HNR & Hdone & Htodo). split; [apply Rnode_app; auto|].
      intros i. apply Rlev_app. destruct (Nat.lt_ge_cases i (nht n)) as [Hlt|Hge]; [apply Hdone; exact Hlt|].
      destruct (Htodo i Hge) as [H1 H2].
      assert (Hoff : on_level i n = false) by (unfold SkipModel.on_level; apply Nat.ltb_ge; exact Hge).
      split; [rewrite hdptr_cons, Hoff; exact H1|].
      apply Lright_cons. split; [intros Hi; lia|exact H2].
    Qed.

    (* the state before the loop: the old structure plus the fresh cell *)
    Lemma LInv_init : forall h v, Rnode h (A ++ B) -> (forall i, Rlev h (A ++ B) i) -> nval n = v ->
      LInv (hset h (nid n) {| pval := Some v; pfwd := repeat None (nht n) |}) 0.
    Proof.
      clear Hupd.
      intros h v HN HL Hv. apply Rnode_app in HN. destruct HN as [HNL HNB].
      set (h0 := hset h (nid n) {| pval := Some v; pfwd := repeat None (nht n) |}).
      assert (HfA : forall p, p <= length A -> nid n <> pid A p).
      { intros p Hp He. symmetry in He. revert He. eapply ids_ok_mid_fresh_l; eauto. }
      assert (HfB : forall k, k < length B -> nid n <> pid B (S k)).
      { intros k Hk He. symmetry in He. revert He. eapply ids_ok_mid_fresh_r; eauto. }
      split; [intros p Hp; apply node_at_hset_other; [apply HfA; exact Hp|apply HNL; exact Hp]|].
      split.
      - apply NRight_cons. split.
        + exists (repeat None (nht n)). unfold h0. rewrite hget_hset, Nat.eqb_refl, Hv.
          split; [reflexivity|apply repeat_length].
        + intros k Hk. apply node_at_hset_other; [apply HfB; exact Hk|apply HNB; exact Hk].
      - split; [intros j Hj; lia|]. intros j _. specialize (HL j). apply Rlev_app in HL. destruct HL as [H1 H2]. split.
        + eapply Lleft_frame; [|exact H1]. intros p Hp. apply pforward_hset_other. apply HfA. exact Hp.
        + eapply Lright_frame; [|exact H2]. intros k Hk. apply pforward_hset_other. apply HfB. exact Hk.
    Qed.
  End Link.

  (* ---------- update[i] = header for the new levels ---------- *)
  Lemma set_range_seq : forall m a (u : list (option nat)) x, a + m <= length u ->
    exists u', set_range u (seq a m) x = POk u' /\ length u' = length u /\
      (forall j, a <= j < a + m -> nth_error u' j = Some x) /\
      (forall j, ~ (a <= j < a + m) -> nth_error u' j = nth_error u j).
  Proof.
    induction m as [|m IH]; intros a u x Hlen; cbn [seq set_range].
    - exists u. repeat split; auto. intros j Hj. lia.
    - destruct (Nat.ltb_spec a (length u)) as [Hlt|Hge]; [|lia].
      destruct (IH (S a) (set_nth u a x) x) as [u' [Hs [Hl [Hin Hout]]]]; [rewrite set_nth_length; lia|].
      exists u'. split; [exact Hs|]. split; [rewrite Hl; apply set_nth_length|]. split.
      + intros j Hj. destruct (Nat.eq_dec j a) as [->|Hne].
        * rewrite Hout by lia. apply set_nth_same. exact Hlt.
        * apply Hin. lia.
      + intros j Hj. rewrite Hout by lia. apply set_nth_other. lia.
  Qed.
End Surgery.

Section Surgery2.
  Variable T : Type.
  Notation node := (node T).
  Notation pnode := (pnode T).
  Notation on_level := (on_level T).
  Notation fwd := (fwd T).
  Notation set_fwd := (set_fwd T).
  Notation pforward := (pforward T).
  Notation heapT := (list (nat * pnode)).
  Notation idx_id := (idx_id T).
  Notation pid := (pid T).
  Notation pht := (pht T).
  Notation pvl := (pvl T).
  Notation node_at := (node_at T).
  Notation Rnode := (Rnode T).
  Notation Rlev := (Rlev T).
  Notation hdptr := (hdptr T).
  Notation Lleft := (Lleft T).
  Notation Lright := (Lright T).
  Notation NLeft := (NLeft T).
  Notation NRight := (NRight T).
  Notation ids_ok := (ids_ok T).

  (* ================= DeleteElement: the unlink loop ================= *)
  Section Unlink.
    Variables (A B : list node) (nd : node) (update : list (option nat)) (lv : nat).
    Hypothesis Hok : ids_ok (A ++ nd :: B).
    Hypothesis Hlv : nht nd <= lv.
    Hypothesis Hupd : forall j, j < lv -> exists q,
      nth_error update j = Some (Some (pid A q)) /\ q <= length A /\ fwd j A q = None /\ j < pht A q.

    Definition DInv (h : heapT) (i : nat) : Prop :=
      NLeft h A /\ NRight h (nd :: B) /\
      (forall j, j < i -> Lleft h A (hdptr j B) j) /\
      (forall j, i <= j -> Lleft h A (hdptr j (nd :: B)) j) /\
      (forall j, Lright h (nd :: B) j).

    Lemma hdptr_not_nd : forall i k, hdptr i B = Some k -> k <> nid nd.
    Proof.
      intros i k Hh. unfold SkipPtrProof.hdptr in Hh. destruct (fwd i B 0) as [r|] eqn:Hf; [|discriminate].
      cbn [option_map] in Hh. injection Hh as <-. apply fwd_range in Hf.
      change (idx_id B r) with (pid B (S r)). eapply ids_ok_mid_fresh_r; [exact Hok|lia].
    Qed.

    Lemma p_unlink_sim : forall m i h, i + m = lv -> i <= nht nd -> DInv h i ->
      exists h', p_unlink T m h update (nid nd) i = POk h' /\ DInv h' (nht nd).
    Proof.
      induction m as [|m IH]; intros i h Him Hile HI.
      - exists h. cbn [p_unlink]. replace (nht nd) with i by lia. auto.
      - cbn [p_unlink]. assert (Hi : i < lv) by lia.
        destruct (Hupd i Hi) as [q [Hu [Hq [Hfq Hiq]]]].
        destruct HI as (HNL & HNR & Hdone & Htodo & HRt).
        pose proof (Htodo i (le_n _)) as HLi.
        rewrite (pupd_some _ _ _ Hu). cbn [pbind].
        rewrite (HLi q Hq Hiq), Hfq. cbn [pbind]. rewrite hdptr_cons.
        destruct (Nat.lt_ge_cases i (nht nd)) as [Hlt|Hge].
        + assert (Hon : on_level i nd = true) by (unfold SkipModel.on_level; apply Nat.ltb_lt; exact Hlt).
          rewrite Hon, Nat.eqb_refl.
          pose proof (proj1 (Lright_cons T h nd B i) (HRt i)) as [Hnf _].
          rewrite (Hnf Hlt). cbn [pbind].
          destruct (set_fwd_node_at T h (pid A q) i (hdptr i B) _ _ (HNL q Hq) Hiq) as [h1 Hs1].
          rewrite Hs1. cbn [pbind].
          assert (Hpf : forall x j, pforward h1 x j =
                    if Nat.eqb (pid A q) x && Nat.eqb j i then POk (hdptr i B) else pforward h x j).
          { intros x j. apply (pforward_set_fwd T _ _ _ _ _ Hs1). }
          assert (Hother : forall x j, j <> i -> pforward h1 x j = pforward h x j).
          { intros x j Hji. rewrite Hpf. destruct (Nat.eqb_spec j i) as [|_]; [contradiction|].
            rewrite andb_false_r. reflexivity. }
          assert (HpA : forall p, p <= length A -> p <> q -> pforward h1 (pid A p) i = pforward h (pid A p) i).
          { intros p Hp Hne. rewrite Hpf.
            destruct (Nat.eqb_spec (pid A q) (pid A p)) as [He|_]; [|reflexivity].
            exfalso. apply Hne. symmetry. eapply pid_inj; [|exact Hq|exact Hp|exact He].
            eapply ids_ok_app_l. exact Hok. }
          assert (HpR : forall k, k < length (nd :: B) -> pforward h1 (pid (nd :: B) (S k)) i = pforward h (pid (nd :: B) (S k)) i).
          { intros k Hk. rewrite Hpf.
            destruct (Nat.eqb_spec (pid A q) (pid (nd :: B) (S k))) as [He|_]; [|reflexivity].
            exfalso. eapply (ids_ok_app_disj T A (nd :: B)); [exact Hok|exact Hq|exact Hk|exact He]. }
          apply (IH (S i) h1); [lia|lia|].
          split; [intros p Hp; eapply node_at_set_fwd; [exact Hs1|]; apply HNL; exact Hp|].
          split; [intros k Hk; eapply node_at_set_fwd; [exact Hs1|]; apply HNR; exact Hk|].
          split; [|split].
          * intros j Hj. destruct (Nat.eq_dec j i) as [->|Hne].
            -- eapply Lleft_redirect; [exact HLi|exact Hfq|exact Hiq|exact HpA|].
               rewrite Hpf, !Nat.eqb_refl. reflexivity.
            -- eapply Lleft_frame; [|apply Hdone; lia]. intros p _. apply Hother. exact Hne.
          * intros j Hj. eapply Lleft_frame; [|apply Htodo; lia]. intros p _. apply Hother. lia.
          * intros j. destruct (Nat.eq_dec j i) as [->|Hne].
            -- eapply Lright_frame; [exact HpR|apply HRt].
            -- eapply Lright_frame; [|apply HRt]. intros k _. apply Hother. exact Hne.
        + assert (Hoff : on_level i nd = false) by (unfold SkipModel.on_level; apply Nat.ltb_ge; exact Hge).
          rewrite Hoff. assert (Hie : i = nht nd) by lia.
          assert (HI : DInv h (nht nd)).
          { rewrite <- Hie. split; [exact HNL|]. split; [exact HNR|]. split; [exact Hdone|]. split; [exact Htodo|exact HRt]. }
          destruct (hdptr i B) as [k|] eqn:Hh.
          * pose proof (hdptr_not_nd i k Hh) as Hk.
            destruct (Nat.eqb_spec k (nid nd)) as [He|_]; [contradiction|]. exists h. auto.
          * exists h. auto.
    Qed.

    Lemma DInv_init : forall h, Rnode h (A ++ nd :: B) -> (forall i, Rlev h (A ++ nd :: B) i) -> DInv h 0.
    Proof.
      clear Hok Hlv Hupd.
      intros h HN HL. apply Rnode_app in HN. destruct HN as [HNL HNR].
      split; [exact HNL|]. split; [exact HNR|]. split; [intros j Hj; lia|].
      split; intros j; [intros _|]; specialize (HL j); apply Rlev_app in HL; apply HL.
    Qed.

    Lemma DInv_done : forall h, DInv h (nht nd) -> Rnode h (A ++ B) /\ forall i, Rlev h (A ++ B) i.
    Proof.
      clear Hok Hlv Hupd.
      intros h (HNL & HNR & Hdone & Htodo & HRt). apply NRight_cons in HNR. destruct HNR as [_ HNB].
      split; [apply Rnode_app; auto|].
      intros i. apply Rlev_app. pose proof (proj1 (Lright_cons T h nd B i) (HRt i)) as [_ HRB].
      split; [|exact HRB].
      destruct (Nat.lt_ge_cases i (nht nd)) as [Hlt|Hge]; [apply Hdone; exact Hlt|].
      assert (Hoff : on_level i nd = false) by (unfold SkipModel.on_level; apply Nat.ltb_ge; exact Hge).
      pose proof (Htodo i Hge) as H1. rewrite hdptr_cons, Hoff in H1. exact H1.
    Qed.
  End Unlink.

  (* the level-trim loop *)
  Lemma p_trim_sim : forall (h : heapT) (sq : list node), (forall i, Rlev h sq i) ->
    forall lv, lv <= MaxLevel -> p_trim T h lv = POk (trim T sq lv).
  Proof.
    intros h sq HL lv. induction lv as [|j IH]; intros Hlv; cbn [p_trim trim]; [reflexivity|].
    destruct (Nat.ltb 1 (S j)); [|reflexivity].
    change 0 with (pid sq 0) at 1. rewrite (HL j 0 (Nat.le_0_l _)) by (cbn [SkipPtrProof.pht]; lia).
    destruct (fwd j sq 0) as [r|]; cbn [option_map pbind]; [reflexivity|]. apply IH. lia.
  Qed.
End Surgery2.

Section Ops.
  Variable T : Type.
  Variable cmp : T -> T -> Z.
  Hypothesis cmp_antisym : forall a b, Z.sgn (cmp b a) = (- Z.sgn (cmp a b))%Z.
  Hypothesis cmp_trans : forall a b c, (cmp a b <= 0)%Z -> (cmp b c <= 0)%Z -> (cmp a c <= 0)%Z.

  Notation node := (node T).
  Notation sl := (sl T).
  Notation psl := (psl T).
  Notation on_level := (on_level T).
  Notation fwd := (fwd T).
  Notation traverse := (traverse T cmp).
  Notation pforward := (pforward T).
  Notation pvalue := (pvalue T).
  Notation idx_id := (idx_id T).
  Notation pid := (pid T).
  Notation pht := (pht T).
  Notation pvl := (pvl T).
  Notation Rnode := (Rnode T).
  Notation Rlev := (Rlev T).
  Notation skip_inv := (skip_inv T cmp).
  Notation heap := (heap T).
  Notation plevel := (plevel T).
  Notation psize := (psize T).
  Notation pnext := (pnext T).
  Notation SR := (SR T).
  Notation lt_count := (lt_count T cmp).

  (* traverse, seen from the cut at the position of v: nodes = A ++ B, A = the nodes smaller than v *)
  Lemma trav_cut : forall sp s v, skip_inv s -> SR sp s ->
    exists A B upd1,
      nodes s = A ++ B /\ length A = lt_count v (nodes s) /\
      p_traverse T cmp sp v = POk (pid A (length A), upd1) /\ length upd1 = MaxLevel /\
      (forall j, j < level s -> exists q,
         nth_error upd1 j = Some (Some (pid A q)) /\ q <= length A /\ fwd j A q = None /\ j < pht A q) /\
      (forall j, level s <= j -> j < MaxLevel -> nth_error upd1 j = Some None).
  Proof.
    intros sp s v Hinv HSR. pose proof (inv_h1 T cmp s Hinv) as Hh1.
    pose proof (inv_level_le T cmp s Hinv) as [Hl1 _].
    assert (Hs : StronglySorted (fun a b : node => (cmp (nval a) (nval b) <= 0)%Z) (nodes s)) by apply Hinv.
    destruct (traverse_spec T cmp cmp_antisym cmp_trans (nodes s) v (level s) Hs Hh1) as (Hlen & Hgap & Hu0).
    destruct (p_traverse_sim T cmp sp s Hinv HSR v) as [upd1 [Hp [Hl [Hlow [Hhigh Hpos]]]]].
    set (c := lt_count v (nodes s)) in *.
    assert (Hc : c <= length (nodes s)) by apply lt_count_le.
    exists (firstn c (nodes s)), (skipn c (nodes s)), upd1.
    assert (Hsq : nodes s = firstn c (nodes s) ++ skipn c (nodes s)) by (symmetry; apply firstn_skipn).
    assert (HlA : length (firstn c (nodes s)) = c) by (apply firstn_length_le; exact Hc).
    set (A := firstn c (nodes s)) in *. set (B := skipn c (nodes s)) in *.
    split; [exact Hsq|]. split; [exact HlA|]. split.
    - rewrite Hp. rewrite (Hu0 Hl1). rewrite HlA. rewrite Hsq at 1. rewrite pid_app_l by lia. reflexivity.
    - split; [exact Hl|]. split; [|exact Hhigh].
      intros j Hj. exists (upd (traverse (nodes s) v (level s)) j).
      pose proof (Hgap j Hj) as Hg. destruct (Hpos j Hj) as [_ Hon].
      set (q := upd (traverse (nodes s) v (level s)) j) in *.
      assert (Hq : q <= length A) by (rewrite HlA; apply Hg).
      split; [rewrite (Hlow j Hj); rewrite Hsq at 1; rewrite pid_app_l by exact Hq; reflexivity|].
      split; [exact Hq|]. split.
      + apply (gapfree_fwdA T A B). rewrite <- Hsq, HlA. exact Hg.
      + rewrite Hsq in Hon. rewrite pht_app_l in Hon by exact Hq. exact Hon.
  Qed.

  Lemma p_insert_sim : forall sp s v lvl, skip_inv s -> SR sp s -> 1 <= lvl <= MaxLevel ->
    exists sp', p_insert T cmp v lvl sp = POk sp' /\ SR sp' (insert T cmp v lvl s).
  Proof.
    intros sp s v lvl Hinv HSR Hlvl.
    pose proof (insert_inv T cmp cmp_antisym cmp_trans v lvl s Hinv Hlvl) as Hinv'.
    pose proof (inv_ids_ok T cmp _ Hinv') as Hok. pose proof (insert_nodes T cmp cmp_antisym cmp_trans v lvl s Hinv) as Hnodes.
    rewrite Hnodes in Hok.
    destruct (trav_cut sp s v Hinv HSR) as (A & B & upd1 & Hsq & HlA & Hp & Hl & Hlow & Hhigh).
    rewrite <- HlA in Hok, Hnodes. rewrite Hsq in Hok, Hnodes.
    rewrite firstn_app, Nat.sub_diag, firstn_all, skipn_app, Nat.sub_diag, skipn_all in Hok, Hnodes.
    cbn [firstn skipn app] in Hok, Hnodes. rewrite app_nil_r in Hok, Hnodes.
    set (n := {| nid := nextid s; nval := v; nht := lvl |}) in *.
    destruct HSR as (Hlv & Hsz & Hnx & HN & HL).
    pose proof (inv_level_le T cmp s Hinv) as [Hl1 Hl32].
    assert (HlowA : forall x, In x A -> nht x <= level s).
    { intros x Hx. destruct Hinv as (_ & _ & _ & _ & _ & _ & (_ & Hle & _) & _).
      rewrite Forall_forall in Hle. apply Hle. rewrite Hsq. apply in_or_app. left. exact Hx. }
    (* the update array after "update[i] = header" for the new levels *)
    assert (Hupd2 : exists upd2,
      (if Nat.ltb (plevel sp) lvl then set_range upd1 (seq (plevel sp) (lvl - plevel sp)) (Some 0) else POk upd1) = POk upd2 /\
      forall j, j < nht n -> exists q,
        nth_error upd2 j = Some (Some (pid A q)) /\ q <= length A /\ fwd j A q = None /\ j < pht A q).
    { rewrite Hlv. destruct (Nat.ltb_spec (level s) lvl) as [Hlt|Hge].
      - destruct (set_range_seq (lvl - level s) (level s) upd1 (Some 0)) as [upd2 [Hs2 [Hl2 [Hin Hout]]]]; [lia|].
        exists upd2. split; [exact Hs2|]. intros j Hj. cbn [nht n] in Hj.
        destruct (Nat.lt_ge_cases j (level s)) as [Hjl|Hjl].
        + destruct (Hlow j Hjl) as [q Hq]. exists q. rewrite Hout by lia. exact Hq.
        + exists 0. rewrite Hin by lia. split; [reflexivity|]. split; [lia|].
          split; [apply fwd_none_low; intros x Hx; specialize (HlowA x Hx); lia|cbn [SkipPtrProof.pht]; lia].
      - exists upd1. split; [reflexivity|]. intros j Hj. cbn [nht n] in Hj. apply Hlow. lia. }
    destruct Hupd2 as [upd2 [Hs2 Hupd]].
    rewrite Hsq in HN, HL.
    pose proof (LInv_init T A B n Hok (heap sp) v HN HL eq_refl) as HI0.
    destruct (p_link_sim T A B n upd2 Hok Hupd (nht n) 0 _ eq_refl HI0) as [h1 [Hlink HI1]].
    destruct (LInv_done T A B n h1 HI1) as [HN1 HL1].
    unfold p_insert. rewrite Hp. cbn [pbind snd]. rewrite Hs2. cbn [pbind].
    rewrite Hnx. change (nextid s) with (nid n). change lvl with (nht n) at 1 2.
    rewrite Hlink. cbn [pbind].
    eexists. split; [reflexivity|].
    unfold SkipPtrProof.SR. cbn [SkipModel.heap SkipModel.plevel SkipModel.psize SkipModel.pnext].
    rewrite Hnodes. cbn [level size nextid insert n nid nht].
    rewrite Hlv, Hsz. auto.
  Qed.

  Lemma p_delete_sim : forall sp s v, skip_inv s -> SR sp s ->
    exists sp', p_delete T cmp v sp = POk (sp', snd (delete_element T cmp v s)) /\
                SR sp' (fst (delete_element T cmp v s)).
  Proof.
    intros sp s v Hinv HSR.
    rewrite (delete_simpl T cmp cmp_antisym cmp_trans v s Hinv).
    destruct (trav_cut sp s v Hinv HSR) as (A & B & upd1 & Hsq & HlA & Hp & Hl & Hlow & Hhigh).
    pose proof (inv_ids_ok T cmp _ Hinv) as Hok. pose proof (inv_h1 T cmp s Hinv) as Hh1.
    pose proof (inv_level_le T cmp s Hinv) as [Hl1 Hl32].
    pose proof (SR_node T sp s HSR) as HN. pose proof (SR_lev T sp s HSR) as HL.
    assert (Hc : length A <= length (nodes s)) by (rewrite Hsq, app_length; lia).
    unfold p_delete. rewrite Hp. cbn [pbind fst snd].
    replace (pid A (length A)) with (pid (nodes s) (length A)) by (rewrite Hsq at 1; apply pid_app_l; lia).
    rewrite (HL 0 (length A) Hc (inv_pht0 T cmp s _ Hinv Hc)).
    rewrite (fwd0 T (nodes s) (length A) Hh1). rewrite <- HlA.
    destruct B as [|nd B].
    - rewrite app_nil_r in Hsq. rewrite <- Hsq. rewrite Nat.ltb_irrefl. cbn [option_map pbind].
      assert (Hnone : nth_error (nodes s) (length (nodes s)) = None) by (apply nth_error_None; lia).
      rewrite Hnone. cbn [fst snd]. eauto.
    - assert (Hnd : nth_error (nodes s) (length A) = Some nd) by (rewrite Hsq; apply nth_error_mid).
      rewrite Hnd. destruct (Nat.ltb_spec (length A) (length (nodes s))) as [Hlt|Hge];
        [|rewrite Hsq, app_length in Hge; cbn [length] in Hge; lia].
      cbn [option_map pbind].
      rewrite (pvalue_idx T (heap sp) (nodes s) HN _ _ Hnd). cbn [pbind].
      destruct (cmp (nval nd) v =? 0)%Z; cbn [negb fst snd]; [|eauto].
      assert (Hid : idx_id (nodes s) (length A) = nid nd) by (unfold SkipPtrProof.idx_id; rewrite Hnd; reflexivity).
      rewrite Hid. destruct HSR as (Hlv & Hsz & Hnx & _ & _). rewrite Hlv.
      assert (Hhl : nht nd <= level s).
      { destruct Hinv as (_ & _ & _ & _ & _ & _ & (_ & Hle & _) & _).
        rewrite Forall_forall in Hle. apply Hle. eapply nth_error_In; eauto. }
      rewrite Hsq in Hok, HN, HL.
      pose proof (DInv_init T A B nd (heap sp) HN HL) as HI0.
      destruct (p_unlink_sim T A B nd upd1 (level s) Hok Hhl Hlow (level s) 0 (heap sp) eq_refl (Nat.le_0_l _) HI0)
        as [h1 [Hun HI1]].
      destruct (DInv_done T A B nd h1 HI1) as [HN1 HL1].
      rewrite Hun. cbn [pbind].
      rewrite (p_trim_sim T h1 (A ++ B) HL1 (level s) Hl32). cbn [pbind].
      eexists. split; [reflexivity|].
      unfold SkipPtrProof.SR. cbn [SkipModel.heap SkipModel.plevel SkipModel.psize SkipModel.pnext level size nextid nodes].
      rewrite Hsq, remove_at_mid. rewrite Hsz, Hnx. auto.
  Qed.

  (* ---------- one operation, whole histories ---------- *)
  Lemma p_step_sim : forall sp s o, skip_inv s -> SR sp s ->
    exists sp', p_step T cmp sp o = POk (sp', snd (step T cmp s o)) /\ SR sp' (fst (step T cmp s o)).
  Proof.
    intros sp s o Hinv HSR. destruct o as [v r|v|v|i| | |]; cbn [p_step step].
    - destruct (p_insert_sim sp s v (random_level r) Hinv HSR (random_level_range r)) as [sp' [Hp HS]].
      rewrite Hp. cbn [pbind fst snd]. eauto.
    - destruct (p_delete_sim sp s v Hinv HSR) as [sp' [Hp HS]]. rewrite Hp. cbn [pbind fst snd].
      destruct (delete_element T cmp v s) as [s' b]. cbn [fst snd] in *. eauto.
    - rewrite (p_search_sim T cmp sp s Hinv HSR v). cbn [pbind fst snd]. eauto.
    - rewrite (p_get_sim T cmp sp s Hinv HSR i). cbn [pbind fst snd]. eauto.
    - rewrite (p_peek_sim T sp s HSR). cbn [pbind fst snd]. eauto.
    - cbn [fst snd]. destruct HSR as (Hlv & Hsz & Hrest). rewrite Hsz. exists sp. split; [reflexivity|].
      split; [exact Hlv|]. split; [exact Hsz|exact Hrest].
    - rewrite (p_as_slice_sim T cmp sp s Hinv HSR). cbn [pbind fst snd]. eauto.
  Qed.

  (* the pointer model run over a history *)
  Fixpoint p_run_from (sp : psl) (ops : list (op T)) : pres (psl * list (out T)) :=
    match ops with
    | [] => POk (sp, [])
    | o :: t => pbind (p_step T cmp sp o) (fun sr =>
                pbind (p_run_from (fst sr) t) (fun sr2 => POk (fst sr2, snd sr :: snd sr2)))
    end.
  Definition p_run (ops : list (op T)) : pres (psl * list (out T)) := p_run_from (p_empty T) ops.

  (* NewSkipListFromSlice on the pointer level: NewSkipList + Insert of every element *)
  Fixpoint p_from_slice_from (sp : psl) (l : list (T * nat)) : pres psl :=
    match l with
    | [] => POk sp
    | vr :: t => pbind (p_insert T cmp (fst vr) (random_level (snd vr)) sp) (fun sp' => p_from_slice_from sp' t)
    end.
  Definition p_from_slice (l : list (T * nat)) : pres psl := p_from_slice_from (p_empty T) l.

  Lemma p_run_from_sim : forall ops sp s, skip_inv s -> SR sp s ->
    exists sp', p_run_from sp ops = POk (sp', snd (run_from T cmp s ops)) /\
                SR sp' (fst (run_from T cmp s ops)) /\ skip_inv (fst (run_from T cmp s ops)).
  Proof.
    induction ops as [|o ops IH]; intros sp s Hinv HSR; cbn [p_run_from run_from].
    - exists sp. cbn [fst snd]. auto.
    - destruct (p_step_sim sp s o Hinv HSR) as [sp1 [Hp HS1]].
      pose proof (step_refines T cmp cmp_antisym cmp_trans s o Hinv) as [Hinv1 _].
      rewrite Hp. cbn [pbind fst snd].
      destruct (step T cmp s o) as [s1 r1]. cbn [fst snd] in *.
      destruct (IH sp1 s1 Hinv1 HS1) as [sp2 [Hp2 [HS2 Hinv2]]]. rewrite Hp2. cbn [pbind fst snd].
      destruct (run_from T cmp s1 ops) as [s2 rs]. cbn [fst snd] in *. eauto.
  Qed.

  Lemma p_run_from_app : forall a b sp,
    p_run_from sp (a ++ b) =
    pbind (p_run_from sp a) (fun sr => pbind (p_run_from (fst sr) b) (fun sr2 => POk (fst sr2, snd sr ++ snd sr2))).
  Proof.
    induction a as [|o a IH]; intros b sp; cbn [app p_run_from pbind fst snd].
    - destruct (p_run_from sp b) as [[sp2 rs]| |]; reflexivity.
    - destruct (p_step T cmp sp o) as [[sp1 r1]| |]; cbn [pbind fst snd]; try reflexivity.
      rewrite IH. destruct (p_run_from sp1 a) as [[sp2 rs]| |]; cbn [pbind fst snd]; try reflexivity.
      destruct (p_run_from sp2 b) as [[sp3 rs3]| |]; reflexivity.
  Qed.

  Lemma SR_empty : SR (p_empty T) empty.
  Proof.
    unfold SkipPtrProof.SR, p_empty. cbn [SkipModel.heap SkipModel.plevel SkipModel.psize SkipModel.pnext level size nextid nodes empty].
    split; [reflexivity|]. split; [reflexivity|]. split; [reflexivity|]. split.
    - intros p Hp. cbn [length] in Hp. assert (p = 0) by lia. subst p.
      exists (repeat None MaxLevel). split; [reflexivity|apply repeat_length].
    - intros i p Hp Hi. cbn [length] in Hp. assert (p = 0) by lia. subst p.
      cbn [SkipPtrProof.pht] in Hi. rewrite fwd_nil. unfold SkipModel.pforward. cbn [SkipPtrProof.pid SkipModel.hget Nat.eqb pfwd].
      rewrite nth_error_repeat by exact Hi. reflexivity.
  Qed.

  Lemma p_run_sim : forall ops,
    exists sp, p_run ops = POk (sp, outs T cmp ops) /\ SR sp (final T cmp ops) /\ skip_inv (final T cmp ops).
  Proof.
    intros ops. unfold p_run, outs, final, run.
    apply p_run_from_sim; [apply empty_inv|apply SR_empty].
  Qed.

  Lemma p_from_slice_from_run : forall l sp,
    p_from_slice_from sp l =
    pbind (p_run_from sp (map (fun vr => OInsert (fst vr) (snd vr)) l)) (fun sr => POk (fst sr)).
  Proof.
    induction l as [|[v r] l IH]; intros sp; cbn [p_from_slice_from map p_run_from p_step pbind fst snd]; [reflexivity|].
    destruct (p_insert T cmp v (random_level r) sp) as [sp1| |]; cbn [pbind fst snd]; try reflexivity.
    rewrite IH. destruct (p_run_from sp1 (map (fun vr => OInsert (fst vr) (snd vr)) l)) as [[sp2 rs]| |]; reflexivity.
  Qed.
End Ops.

Lemma pmapM_map {A B} (f : A -> pres B) (g : A -> B) : forall l,
  (forall x, In x l -> f x = POk (g x)) -> pmapM f l = POk (map g l).
Proof.
  induction l as [|a l IH]; intros H; cbn [pmapM map]; [reflexivity|].
  rewrite (H a (or_introl eq_refl)). cbn [pbind]. rewrite IH by (intros x Hx; apply H; right; exact Hx).
  reflexivity.
Qed.

Section Rep.
  Variable T : Type.
  Variable cmp : T -> T -> Z.
  Hypothesis cmp_antisym : forall a b, Z.sgn (cmp b a) = (- Z.sgn (cmp a b))%Z.
  Hypothesis cmp_trans : forall a b c, (cmp a b <= 0)%Z -> (cmp b c <= 0)%Z -> (cmp a c <= 0)%Z.

  Notation node := (node T).
  Notation sl := (sl T).
  Notation psl := (psl T).
  Notation skip_inv := (skip_inv T cmp).
  Notation SR := (SR T).

  (* THE REPRESENTATION RELATION of the simulation theorem, in terms of the pointer model's own
     observation functions: the fields agree; on every level i < 32 following Forward[i] from the
     header (p_chain, with the model's fuel) yields exactly the identities of the heights model's
     chain i, in order; the header cell has 32 pointers and no value; every node of the heights
     model has a cell with its value and a Forward list as long as its tower; and no pointer stored
     in the header or in a listed node leaves the set of listed nodes. *)
  Definition ptr_rep (sp : psl) (sh : sl) : Prop :=
    plevel T sp = level sh /\ psize T sp = size sh /\ pnext T sp = nextid sh /\
    (forall i, i < MaxLevel -> p_chain T sp i = POk (map nid (chain T i sh))) /\
    (exists hf, hget T (heap T sp) 0 = Some {| pval := None; pfwd := hf |} /\ length hf = MaxLevel) /\
    (forall n, In n (nodes sh) ->
       exists f, hget T (heap T sp) (nid n) = Some {| pval := Some (nval n); pfwd := f |} /\ length f = nht n) /\
    (forall id cell i x, id = 0 \/ In id (map nid (nodes sh)) ->
       hget T (heap T sp) id = Some cell -> nth_error (pfwd T cell) i = Some (Some x) ->
       In x (map nid (nodes sh))).

  Lemma SR_ptr_rep : forall sp s, skip_inv s -> SR sp s -> ptr_rep sp s.
  Proof.
    intros sp s Hinv HSR. pose proof HSR as (Hlv & Hsz & Hnx & HN & HL).
    split; [exact Hlv|]. split; [exact Hsz|]. split; [exact Hnx|].
    split; [intros i Hi; apply (p_chain_sim T cmp sp s Hinv HSR i Hi)|].
    split; [exact (HN 0 (Nat.le_0_l _))|]. split.
    - intros n Hin. destruct (In_nth_error _ _ Hin) as [k Hk].
      assert (Hk' : S k <= length (nodes s)) by (apply Nat.le_succ_l; apply nth_error_Some; congruence).
      pose proof (HN (S k) Hk') as Hna. cbn [SkipPtrProof.pid SkipPtrProof.pvl SkipPtrProof.pht] in Hna. unfold SkipPtrProof.idx_id in Hna.
      rewrite Hk in Hna. exact Hna.
    - intros id cell i x Hid Hg Hx.
      assert (Hpos : exists p, p <= length (nodes s) /\ id = pid T (nodes s) p).
      { destruct Hid as [->|Hin]; [exists 0; split; [lia|reflexivity]|].
        apply in_map_iff in Hin. destruct Hin as [n [<- Hin]]. destruct (In_nth_error _ _ Hin) as [k Hk].
        exists (S k). split; [apply Nat.le_succ_l; apply nth_error_Some; congruence|].
        cbn [SkipPtrProof.pid]. unfold SkipPtrProof.idx_id. rewrite Hk. reflexivity. }
      destruct Hpos as [p [Hp ->]]. destruct (HN p Hp) as [f [Hgf Hlf]]. rewrite Hg in Hgf. injection Hgf as ->.
      cbn [pfwd] in Hx. assert (Hi : i < pht T (nodes s) p).
      { rewrite <- Hlf. apply nth_error_Some. congruence. }
      pose proof (HL i p Hp Hi) as Hpf. unfold SkipModel.pforward in Hpf. rewrite Hg in Hpf. cbn [pfwd] in Hpf.
      rewrite Hx in Hpf. injection Hpf as Hpf.
      destruct (fwd T i (nodes s) p) as [r|] eqn:Hf; [|discriminate]. cbn [option_map] in Hpf. injection Hpf as ->.
      apply fwd_range in Hf. apply (pid_in T (nodes s) (S r)). lia.
  Qed.

  (* the two dumps the correspondence check compares with the implementation *)
  Lemma p_towers_sim : forall sp s, skip_inv s -> SR sp s -> p_towers T sp = POk (towers T s).
  Proof.
    intros sp s Hinv HSR. unfold p_towers, towers. apply pmapM_map.
    intros i Hi. apply in_seq in Hi. apply (p_chain_sim T cmp sp s Hinv HSR). lia.
  Qed.

  Lemma p_heights_sim : forall sp s, skip_inv s -> SR sp s -> p_heights T sp = POk (heights T s).
  Proof.
    intros sp s Hinv HSR. unfold p_heights, heights.
    rewrite (p_chain_sim T cmp sp s Hinv HSR 0 MaxLevel_pos). cbn [pbind].
    unfold chain. rewrite (chain0_all T _ (inv_h1 T cmp s Hinv)).
    destruct (SR_ptr_rep sp s Hinv HSR) as (_ & _ & _ & _ & _ & Hcells & _).
    induction (nodes s) as [|a l IH]; cbn [map pmapM]; [reflexivity|].
    destruct (Hcells a (or_introl eq_refl)) as [f [Hg Hl]]. rewrite Hg. cbn [pbind pfwd]. rewrite Hl.
    rewrite IH by (intros n Hn; apply Hcells; right; exact Hn). reflexivity.
  Qed.

  (* ---------- the simulation theorem and its consequences ---------- *)
  Notation p_run := (p_run T cmp).
  Notation p_run_from := (p_run_from T cmp).

  Lemma ptr_simulates_lemma : forall ops,
    exists sp, p_run ops = POk (sp, outs T cmp ops) /\ ptr_rep sp (final T cmp ops) /\
               p_towers T sp = POk (towers T (final T cmp ops)) /\
               p_heights T sp = POk (heights T (final T cmp ops)).
  Proof.
    intros ops. destruct (p_run_sim T cmp cmp_antisym cmp_trans ops) as [sp [Hp [HS Hinv]]].
    exists sp. split; [exact Hp|]. split; [apply SR_ptr_rep; assumption|].
    split; [apply p_towers_sim; assumption|apply p_heights_sim; assumption].
  Qed.

  Lemma ptr_step_simulates_lemma : forall ops o,
    exists sp sp', p_run ops = POk (sp, outs T cmp ops) /\
      p_step T cmp sp o = POk (sp', snd (step T cmp (final T cmp ops) o)) /\
      ptr_rep sp (final T cmp ops) /\ ptr_rep sp' (fst (step T cmp (final T cmp ops) o)).
  Proof.
    intros ops o. destruct (p_run_sim T cmp cmp_antisym cmp_trans ops) as [sp [Hp [HS Hinv]]].
    destruct (p_step_sim T cmp cmp_antisym cmp_trans sp _ o Hinv HS) as [sp' [Hst HS']].
    pose proof (step_refines T cmp cmp_antisym cmp_trans _ o Hinv) as [Hinv' _].
    exists sp, sp'. split; [exact Hp|]. split; [exact Hst|]. split; apply SR_ptr_rep; assumption.
  Qed.

  Lemma ptr_never_panics_lemma : forall ops,
    exists sp rs, p_run ops = POk (sp, rs) /\ ~ In (RVal Panic) rs.
  Proof.
    intros ops. destruct (p_run_sim T cmp cmp_antisym cmp_trans ops) as [sp [Hp _]].
    exists sp, (outs T cmp ops). split; [exact Hp|].
    apply (skip_never_panics_lemma T cmp cmp_antisym cmp_trans).
  Qed.

  Lemma ptr_outputs_eq_spec_lemma : forall ops,
    exists sp, p_run ops = POk (sp, snd (ms_run T cmp ops)) /\ p_as_slice T sp = POk (fst (ms_run T cmp ops)).
  Proof.
    intros ops. destruct (p_run_sim T cmp cmp_antisym cmp_trans ops) as [sp [Hp [HS Hinv]]].
    destruct (skip_outputs_eq_spec_lemma T cmp cmp_antisym cmp_trans ops) as [Ho Hsl].
    exists sp. rewrite <- Ho, <- Hsl. split; [exact Hp|]. apply (p_as_slice_sim T cmp sp _ Hinv HS).
  Qed.

  Lemma ptr_asslice_lemma : forall ops,
    exists sp l, p_run ops = POk (sp, outs T cmp ops) /\ p_as_slice T sp = POk l /\
                 sortedT T cmp l /\ contents_rel T cmp ops l.
  Proof.
    intros ops. destruct (p_run_sim T cmp cmp_antisym cmp_trans ops) as [sp [Hp [HS Hinv]]].
    exists sp, (as_slice T (final T cmp ops)). split; [exact Hp|].
    split; [apply (p_as_slice_sim T cmp sp _ Hinv HS)|].
    split; [apply (skip_sorted_reachable_lemma T cmp cmp_antisym cmp_trans)|
            apply (skip_contents_lemma T cmp cmp_antisym cmp_trans)].
  Qed.

  Lemma ptr_step_multiset_lemma : forall ops o,
    exists sp sp' r l l', p_run ops = POk (sp, outs T cmp ops) /\ p_step T cmp sp o = POk (sp', r) /\
      p_as_slice T sp = POk l /\ p_as_slice T sp' = POk l' /\
      sortedT T cmp l /\ sortedT T cmp l' /\ sorted_multiset_step T cmp l o l' r.
  Proof.
    intros ops o. destruct (p_run_sim T cmp cmp_antisym cmp_trans ops) as [sp [Hp [HS Hinv]]].
    destruct (p_step_sim T cmp cmp_antisym cmp_trans sp _ o Hinv HS) as [sp' [Hst HS']].
    pose proof (step_refines T cmp cmp_antisym cmp_trans _ o Hinv) as [Hinv' _].
    pose proof (skip_step_lemma T cmp cmp_antisym cmp_trans ops o) as H. cbv zeta in H. destruct H as (H1 & H2 & H3).
    exists sp, sp', (snd (step T cmp (final T cmp ops) o)), (as_slice T (final T cmp ops)),
      (as_slice T (fst (step T cmp (final T cmp ops) o))).
    split; [exact Hp|]. split; [exact Hst|].
    split; [apply (p_as_slice_sim T cmp sp _ Hinv HS)|]. split; [apply (p_as_slice_sim T cmp sp' _ Hinv' HS')|].
    auto.
  Qed.

  Lemma ptr_from_slice_lemma : forall l,
    exists sp l', p_from_slice T cmp l = POk sp /\ ptr_rep sp (from_slice T cmp l) /\
      p_as_slice T sp = POk l' /\ sortedT T cmp l' /\ Permutation l' (map fst l).
  Proof.
    intros l. unfold p_from_slice. rewrite p_from_slice_from_run.
    set (ops := map (fun vr : T * nat => OInsert (fst vr) (snd vr)) l).
    destruct (p_run_sim T cmp cmp_antisym cmp_trans ops) as [sp [Hp [HS Hinv]]].
    fold (p_run ops). rewrite Hp. cbn [pbind fst].
    assert (Hcl : cmp_total_preorder T cmp) by (split; assumption).
    destruct (skip_from_slice_tp T cmp Hcl l) as (Hfs & _ & Hsorted & Hperm). fold ops in Hfs.
    exists sp, (as_slice T (final T cmp ops)). split; [reflexivity|].
    rewrite Hfs in *. split; [apply SR_ptr_rep; assumption|].
    split; [apply (p_as_slice_sim T cmp sp _ Hinv HS)|]. auto.
  Qed.
End Rep.

(* ---------- closed forms: the comparator laws as one premise ---------- *)
Section ClosedPtr.
  Variable T : Type.
  Variable cmp : T -> T -> Z.
  Hypothesis Hcmp : cmp_total_preorder T cmp.

  Lemma ptr_simulates_tp : forall ops,
    exists sp, p_run T cmp ops = POk (sp, outs T cmp ops) /\ ptr_rep T sp (final T cmp ops) /\
               p_towers T sp = POk (towers T (final T cmp ops)) /\
               p_heights T sp = POk (heights T (final T cmp ops)).
  Proof. destruct Hcmp as [Ha Ht]. intros ops. eapply ptr_simulates_lemma; eassumption. Qed.

  Lemma ptr_step_simulates_tp : forall ops o,
    exists sp sp', p_run T cmp ops = POk (sp, outs T cmp ops) /\
      p_step T cmp sp o = POk (sp', snd (step T cmp (final T cmp ops) o)) /\
      ptr_rep T sp (final T cmp ops) /\ ptr_rep T sp' (fst (step T cmp (final T cmp ops) o)).
  Proof. destruct Hcmp as [Ha Ht]. intros ops o. eapply ptr_step_simulates_lemma; eassumption. Qed.

  Lemma ptr_never_panics_tp : forall ops,
    exists sp rs, p_run T cmp ops = POk (sp, rs) /\ ~ In (RVal Panic) rs.
  Proof. destruct Hcmp as [Ha Ht]. intros ops. eapply ptr_never_panics_lemma; eassumption. Qed.

  Lemma ptr_outputs_eq_spec_tp : forall ops,
    exists sp, p_run T cmp ops = POk (sp, snd (ms_run T cmp ops)) /\ p_as_slice T sp = POk (fst (ms_run T cmp ops)).
  Proof. destruct Hcmp as [Ha Ht]. intros ops. eapply ptr_outputs_eq_spec_lemma; eassumption. Qed.

  Lemma ptr_asslice_tp : forall ops,
    exists sp l, p_run T cmp ops = POk (sp, outs T cmp ops) /\ p_as_slice T sp = POk l /\
                 sortedT T cmp l /\ contents_rel T cmp ops l.
  Proof. destruct Hcmp as [Ha Ht]. intros ops. eapply ptr_asslice_lemma; eassumption. Qed.

  Lemma ptr_step_multiset_tp : forall ops o,
    exists sp sp' r l l', p_run T cmp ops = POk (sp, outs T cmp ops) /\ p_step T cmp sp o = POk (sp', r) /\
      p_as_slice T sp = POk l /\ p_as_slice T sp' = POk l' /\
      sortedT T cmp l /\ sortedT T cmp l' /\ sorted_multiset_step T cmp l o l' r.
  Proof. destruct Hcmp as [Ha Ht]. intros ops o. eapply ptr_step_multiset_lemma; eassumption. Qed.

  Lemma ptr_from_slice_tp : forall l,
    exists sp l', p_from_slice T cmp l = POk sp /\ ptr_rep T sp (from_slice T cmp l) /\
      p_as_slice T sp = POk l' /\ sortedT T cmp l' /\ Permutation l' (map fst l).
  Proof. destruct Hcmp as [Ha Ht]. intros l. eapply ptr_from_slice_lemma; eassumption. Qed.
End ClosedPtr.

(* ---------- the observable representation relation is itself inductive ---------- *)
Section RepInductive.
  Variable T : Type.
  Variable cmp : T -> T -> Z.
  Hypothesis cmp_antisym : forall a b, Z.sgn (cmp b a) = (- Z.sgn (cmp a b))%Z.
  Hypothesis cmp_trans : forall a b c, (cmp a b <= 0)%Z -> (cmp b c <= 0)%Z -> (cmp a c <= 0)%Z.

  Notation node := (node T).
  Notation sl := (sl T).
  Notation psl := (psl T).
  Notation on_level := (on_level T).
  Notation fwd := (fwd T).
  Notation pforward := (pforward T).
  Notation idx_id := (idx_id T).
  Notation pid := (pid T).
  Notation pht := (pht T).
  Notation skip_inv := (skip_inv T cmp).
  Notation SR := (SR T).
  Notation ptr_rep := (ptr_rep T).

  Lemma p_chain_from_inv : forall fuel h i a l, p_chain_from T fuel h i a = POk l ->
    match l with
    | [] => pforward h a i = POk None
    | b :: rest => pforward h a i = POk (Some b) /\ exists f', p_chain_from T f' h i b = POk rest
    end.
  Proof.
    intros fuel h i a l H. destruct fuel as [|f]; cbn [p_chain_from] in H; [discriminate|].
    destruct (pforward h a i) as [[k|]| |]; cbn [pbind] in H; try discriminate.
    - destruct (p_chain_from T f h i k) as [l'| |] eqn:Hc; cbn [pbind] in H; try discriminate.
      injection H as <-. split; [reflexivity|]. exists f. exact Hc.
    - injection H as <-. reflexivity.
  Qed.

  (* if following Forward[i] from position p enumerates the rest of chain i, every position of
     level i from p on has the Forward[i] of the heights model *)
  Lemma chain_to_lev : forall h (sq : list node) i m p fuel,
    length sq - p <= m -> p <= length sq -> i < pht sq p ->
    p_chain_from T fuel h i (pid sq p) = POk (map nid (filter (on_level i) (skipn p sq))) ->
    forall p', p <= p' -> p' <= length sq -> i < pht sq p' ->
      pforward h (pid sq p') i = POk (option_map (idx_id sq) (fwd i sq p')).
  Proof.
    intros h sq i m. induction m as [|m IH]; intros p fuel Hm Hp Hi Hch p' Hpp Hp' Hi'.
    - assert (p' = p) by lia. subst p'. assert (Hpl : p = length sq) by lia.
      rewrite Hpl in Hch. rewrite skipn_all in Hch. cbn [filter map] in Hch.
      apply p_chain_from_inv in Hch. rewrite Hpl. rewrite Hch. unfold SkipModel.fwd. rewrite skipn_all. reflexivity.
    - pose proof (filter_fwd T i sq p) as Hff. pose proof (fwd_spec T i sq p) as Hsp.
      apply p_chain_from_inv in Hch.
      destruct (fwd i sq p) as [r|] eqn:Hf.
      + destruct Hff as [n [Hn Hfl]]. rewrite Hfl in Hch. cbn [map] in Hch. destruct Hch as [Hpf [f' Hch']].
        destruct Hsp as [Hpr [n' [Hn' [Hon Hbefore]]]]. rewrite Hn in Hn'. injection Hn' as <-.
        assert (Hr : r < length sq) by (apply nth_error_Some; congruence).
        assert (Hidr : idx_id sq r = nid n) by (unfold SkipPtrProof.idx_id; rewrite Hn; reflexivity).
        destruct (Nat.eq_dec p' p) as [->|Hne].
        * rewrite Hf, Hpf. cbn [option_map]. rewrite Hidr. reflexivity.
        * destruct p' as [|k]; [lia|]. destruct (pht_on T sq k i Hi') as [nk [Hnk Honk]].
          assert (Hkr : r <= k).
          { destruct (Nat.le_gt_cases r k) as [|Hlt]; [assumption|].
            rewrite (Hbefore k nk) in Honk; [discriminate|lia|exact Hlt|exact Hnk]. }
          apply (IH (S r) f'); [lia|lia| | |lia|lia|exact Hi'].
          -- cbn [SkipPtrProof.pht]. rewrite Hn. unfold SkipModel.on_level in Hon. apply Nat.ltb_lt in Hon. exact Hon.
          -- cbn [SkipPtrProof.pid]. rewrite Hidr. exact Hch'.
      + rewrite Hff in Hch. cbn [map] in Hch.
        destruct (Nat.eq_dec p' p) as [->|Hne]; [rewrite Hf, Hch; reflexivity|].
        destruct p' as [|k]; [lia|]. destruct (pht_on T sq k i Hi') as [nk [Hnk Honk]].
        rewrite (Hsp k nk) in Honk; [discriminate|lia|exact Hnk].
  Qed.

  Lemma ptr_rep_SR : forall sp s, skip_inv s -> ptr_rep sp s -> SR sp s.
  Proof.
    intros sp s Hinv (Hlv & Hsz & Hnx & Hch & Hhd & Hcells & _).
    split; [exact Hlv|]. split; [exact Hsz|]. split; [exact Hnx|]. split.
    - intros [|k] Hp; [exact Hhd|]. cbn [SkipPtrProof.pid SkipPtrProof.pvl SkipPtrProof.pht]. unfold SkipPtrProof.idx_id.
      destruct (nth_error (nodes s) k) as [n|] eqn:Hn; [|apply nth_error_None in Hn; lia].
      apply Hcells. eapply nth_error_In; eauto.
    - intros i p Hp Hi.
      assert (Hi32 : i < MaxLevel).
      { destruct p as [|k]; [exact Hi|]. destruct (pht_on T _ k i Hi) as [n [Hn Hon]].
        destruct Hinv as (_ & _ & _ & _ & _ & Hh & _). rewrite Forall_forall in Hh.
        apply nth_error_In in Hn. specialize (Hh n Hn).
        unfold SkipModel.on_level in Hon. apply Nat.ltb_lt in Hon. lia. }
      pose proof (Hch i Hi32) as Hc. unfold p_chain in Hc.
      apply (chain_to_lev (heap T sp) (nodes s) i (length (nodes s)) 0 (p_fuel T sp));
        [lia|lia|cbn [SkipPtrProof.pht]; exact Hi32|exact Hc|lia|exact Hp|exact Hi].
  Qed.

  Lemma ptr_rep_iff_SR : forall sp s, skip_inv s -> (ptr_rep sp s <-> SR sp s).
  Proof.
    intros sp s Hinv. split; [apply ptr_rep_SR; exact Hinv|apply (SR_ptr_rep T cmp); exact Hinv].
  Qed.

  Lemma ptr_rep_empty_lemma : ptr_rep (p_empty T) empty.
  Proof. apply (SR_ptr_rep T cmp); [apply empty_inv|apply SR_empty]. Qed.

  (* the simulation diagram for ONE operation from ANY related pair of states *)
  Lemma ptr_rep_step_lemma : forall sp s o, skip_inv s -> ptr_rep sp s ->
    exists sp', p_step T cmp sp o = POk (sp', snd (step T cmp s o)) /\
                ptr_rep sp' (fst (step T cmp s o)) /\ skip_inv (fst (step T cmp s o)).
  Proof.
    intros sp s o Hinv Hrep. pose proof (ptr_rep_SR sp s Hinv Hrep) as HS.
    destruct (p_step_sim T cmp cmp_antisym cmp_trans sp s o Hinv HS) as [sp' [Hst HS']].
    pose proof (step_refines T cmp cmp_antisym cmp_trans s o Hinv) as [Hinv' _].
    exists sp'. split; [exact Hst|]. split; [apply (SR_ptr_rep T cmp); assumption|exact Hinv'].
  Qed.
End RepInductive.

Section ClosedPtr2.
  Variable T : Type.
  Variable cmp : T -> T -> Z.
  Hypothesis Hcmp : cmp_total_preorder T cmp.

  Lemma ptr_rep_step_tp : forall sp s o, skip_inv T cmp s -> ptr_rep T sp s ->
    exists sp', p_step T cmp sp o = POk (sp', snd (step T cmp s o)) /\
                ptr_rep T sp' (fst (step T cmp s o)) /\ skip_inv T cmp (fst (step T cmp s o)).
  Proof. destruct Hcmp as [Ha Ht]. intros sp s o. eapply ptr_rep_step_lemma; eassumption. Qed.

  Lemma ptr_rep_pointwise_tp : forall sp s, skip_inv T cmp s -> (ptr_rep T sp s <-> SR T sp s).
  Proof. destruct Hcmp as [Ha Ht]. intros sp s. eapply ptr_rep_iff_SR; eassumption. Qed.
End ClosedPtr2.

Lemma ptr_rep_empty : forall T : Type, ptr_rep T (p_empty T) empty.
Proof. intros T. exact (ptr_rep_empty_lemma T (fun _ _ => 0%Z)). Qed.
