(* PoolModel (pool.OnDemandBlockTaskPool), proofs for C12 / liveness side of C10 - B5h: helper lemmas for the Q field *)
From Ekit Require Import Common Conc PoolModel
  PoolProofB0 PoolProofB1 PoolProofB2d PoolProofB2bd PoolProofB3d PoolProofB4d PoolProofB5d.
From Coq Require Import ZifyBool Arith PeanoNat.

Lemma wk_le_out_sum idc l : idc < 1 -> tsum (pcf g_wk) l <= tsum (own_gt idc) l + tsum (own_lt 1) l.
Proof.
  intros H. induction l as [|[t x] r IH]; cbn [tsum]; [lia|]. pose proof (wk_le_out idc x H). lia.
Qed.

(* creations in progress are never negative once Start's locals are what the code computes *)
Lemma pend_nonneg_pt P x : 1 <= i_init P -> start_bad P x = 0 -> 0 <= pend x.
Proof.
  intros Hi. cbn [start_bad pend]. destruct (pc x); cbn; intros H; try lia;
    repeat match type of H with context [if ?b then _ else _] => destruct b eqn:? end; try discriminate H; lia.
Qed.
Lemma pend_nonneg_sum P l : 1 <= i_init P -> tsum (start_bad P) l = 0 -> 0 <= tsum pend l.
Proof.
  intros Hi. induction l as [|[t x] r IH]; cbn [tsum]; [lia|]. intros H.
  pose proof (start_bad_nn P x). pose proof (tsum_nonneg _ r (start_bad_nn P)).
  pose proof (pend_nonneg_pt P x Hi). lia.
Qed.
