(* Proofs about SliceMemModel3 (C16): mapx.KeysValues at header level. *)
From Ekit Require Import Common SliceModel SliceProof SliceProof2 SliceProof3 SliceMemModel SliceMemProof
  SliceMemModel2 SliceMemProof2 SliceMemModel3.
From Coq Require Import ZifyBool.

Lemma nth_set_nth_other {A} (l : list A) d X : forall a b, a <> b -> nth b (set_nth l a X) d = nth b l d.
Proof.
  induction l as [|x t IH]; intros a b Hne; [destruct a; reflexivity|].
  destruct a as [|a], b as [|b]; cbn [set_nth nth]; try reflexivity; [exfalso; apply Hne; reflexivity|].
  apply IH. intros Hc. apply Hne. f_equal. exact Hc.
Qed.

Section WithExtra4.
  Variable extra : nat -> nat.

  (* appending to x leaves every header that lives in another array as it was *)
  Lemma append_other st x v y : wf st y -> h_arr y <> h_arr x ->
    wf (fst (append extra st (Some x) v)) y /\ contents (fst (append extra st (Some x) v)) y = contents st y.
  Proof.
    intros [Ha [Hl Hc]] Hne. unfold append. cbn [hdr_of].
    destruct (h_len x <? h_cap x)%nat; cbn [fst].
    - assert (He : arr_of (set_nth st (h_arr x) (set_nth (arr_of st (h_arr x)) (h_off x + h_len x) v)) (h_arr y) = arr_of st (h_arr y)).
      { unfold arr_of. apply nth_set_nth_other. intros Hc'. apply Hne. symmetry. exact Hc'. }
      unfold wf, contents. rewrite He, set_nth_length. split; [split; [exact Ha|split; assumption]|reflexivity].
    - assert (He : forall X, arr_of (st ++ X) (h_arr y) = arr_of st (h_arr y)).
      { intros X. unfold arr_of. apply app_nth1. exact Ha. }
      unfold wf, contents. rewrite He, app_length. split; [split; [lia|split; assumption]|reflexivity].
  Qed.

  Lemma append_arr st x v : wf st x ->
    h_arr (snd (append extra st (Some x) v)) = h_arr x \/ h_arr (snd (append extra st (Some x) v)) = length st.
  Proof. intros _. unfold append. cbn [hdr_of]. destruct (h_len x <? h_cap x)%nat; cbn [snd h_arr]; [left|right]; reflexivity. Qed.
  Lemma append_length st x v : (length st <= length (fst (append extra st (Some x) v)))%nat.
  Proof.
    unfold append. cbn [hdr_of]. destruct (h_len x <? h_cap x)%nat; cbn [fst]; [rewrite set_nth_length; lia|rewrite app_length; lia].
  Qed.

  Definition fresh2 (st0 st : store) (ks vs : hdr) (wk wv : list Z) : Prop :=
    fresh st0 st ks wk /\ fresh st0 st vs wv /\ h_arr ks <> h_arr vs.

  Lemma append_fresh2_l st0 st ks vs wk wv v : fresh2 st0 st ks vs wk wv ->
    fresh2 st0 (fst (append extra st (Some ks) v)) (snd (append extra st (Some ks) v)) vs (wk ++ [v]) wv.
  Proof.
    intros [Hk [Hv Hne]]. pose proof (append_fresh extra st0 st ks wk v Hk) as Hk'.
    destruct Hv as [_ [Hgev [Hwv Hcv]]]. destruct Hk as [_ [_ [Hwk _]]].
    destruct (append_other st ks v vs Hwv (fun H => Hne (eq_sym H))) as [Hwv' Hcv'].
    split; [exact Hk'|]. split.
    - split; [destruct Hk' as [Hkeep _]; exact Hkeep|]. split; [exact Hgev|]. split; [exact Hwv'|]. rewrite Hcv'. exact Hcv.
    - destruct (append_arr st ks v Hwk) as [He|He]; rewrite He; [exact Hne|]. destruct Hwv as [Ha _]. lia.
  Qed.
  Lemma append_fresh2_r st0 st ks vs wk wv v : fresh2 st0 st ks vs wk wv ->
    fresh2 st0 (fst (append extra st (Some vs) v)) ks (snd (append extra st (Some vs) v)) wk (wv ++ [v]).
  Proof.
    intros [Hk [Hv Hne]].
    destruct (append_fresh2_l st0 st vs ks wv wk v (conj Hv (conj Hk (fun H => Hne (eq_sym H))))) as [H1 [H2 H3]].
    split; [exact H2|]. split; [exact H1|]. intros H. apply H3. symmetry. exact H.
  Qed.

  Lemma kv_loop_spec st0 m l : forall st ks vs wk wv, fresh2 st0 st ks vs wk wv ->
    fresh2 st0 (fst (fst (kv_loop extra st ks vs m l))) (snd (fst (kv_loop extra st ks vs m l))) (snd (kv_loop extra st ks vs m l))
           (wk ++ map fst l) (wv ++ map (fun kv => map_lookup0 m (fst kv)) l).
  Proof.
    induction l as [|kv t IH]; intros st ks vs wk wv Hf; cbn [kv_loop map].
    - rewrite !app_nil_r. exact Hf.
    - replace (wk ++ fst kv :: map fst t) with ((wk ++ [fst kv]) ++ map fst t) by (rewrite <- app_assoc; reflexivity).
      replace (wv ++ map_lookup0 m (fst kv) :: map (fun kv0 => map_lookup0 m (fst kv0)) t)
        with ((wv ++ [map_lookup0 m (fst kv)]) ++ map (fun kv0 => map_lookup0 m (fst kv0)) t)
        by (rewrite <- app_assoc; reflexivity).
      apply IH. apply append_fresh2_r. apply append_fresh2_l. exact Hf.
  Qed.

  (* KeysValues: two non-nil results in two DIFFERENT fresh arrays, old store untouched,
     contents = SliceModel.map_keys_values *)
  Lemma keys_values_m_lemma st m :
    exists st' ks vs, keys_values_m extra st m = (st', Some ks, Some vs) /\
                      fresh2 st st' ks vs (fst (map_keys_values m)) (snd (map_keys_values m)).
  Proof.
    unfold keys_values_m. eexists. eexists. eexists. split; [reflexivity|].
    assert (H0 : fresh2 st (fst (make (fst (make st 0 (length m))) 0 (length m))) (snd (make st 0 (length m)))
                        (snd (make (fst (make st 0 (length m))) 0 (length m))) [] []).
    { pose proof (make_fresh st st (length m) (keeps_refl st)) as H1.
      pose proof (make_fresh st (fst (make st 0 (length m))) (length m) (proj1 H1)) as H2.
      split; [|split; [exact H2|]].
      - destruct H1 as [Hk1 [Hg1 [Hw1 Hc1]]]. destruct H2 as [Hk2 _].
        split; [exact Hk2|]. split; [exact Hg1|].
        unfold make in *. cbn [fst snd] in *. split; [|reflexivity].
        unfold wf in *. cbn [h_arr h_off h_len h_cap] in *. rewrite !app_length. cbn [length].
        split; [lia|]. split; [lia|].
        unfold arr_of. rewrite app_nth1 by (rewrite app_length; cbn [length]; lia).
        rewrite nth_mid_gen, repeat_length. lia.
      - unfold make. cbn [fst snd h_arr]. rewrite app_length. cbn [length]. lia. }
    pose proof (kv_loop_spec st m m _ _ _ [] [] H0) as H. cbn [app] in H.
    unfold map_keys_values, map_values, map_keys. cbn [fst snd]. rewrite map_map. exact H.
  Qed.
End WithExtra4.
