(* HeapCapProof — the memory-level priority queue (HeapCapModel) simulates HeapModel step by
   step (so every C05 theorem transfers), its capacity follows the Shrink rule exactly, all
   writes of an operation land in the array p.data finally points to (or precede the copy made
   by the re-allocation), and no access is outside [0, len). *)
From Ekit Require Import Common HeapModel HeapProof HeapCapModel.
From Ekit Require ListModel.
From Coq Require Import Arith ZifyNat ZifyBool.
Ltac Zify.zify_post_hook ::= Z.to_euclidean_division_equations.

(* ---------- generic list facts ---------- *)

Lemma hc_set_nth_length {A} (l : list A) : forall i a, length (set_nth l i a) = length l.
Proof.
  induction l as [|x t IH]; intros i a; cbn; [reflexivity|].
  destruct i as [|i]; cbn; [reflexivity|]. rewrite IH. reflexivity.
Qed.

Lemma hc_nth_set_nth {A} (l : list A) : forall i a k d,
  (i < length l)%nat -> nth k (set_nth l i a) d = if (k =? i)%nat then a else nth k l d.
Proof.
  induction l as [|x t IH]; intros i a k d Hi; cbn in Hi; [lia|].
  destruct i as [|i]; destruct k as [|k]; cbn; try reflexivity.
  apply IH. lia.
Qed.

Lemma hc_firstn_set_nth {A} (l : list A) : forall n i a,
  (i < n)%nat -> firstn n (set_nth l i a) = set_nth (firstn n l) i a.
Proof.
  induction l as [|x t IH]; intros n i a Hi.
  - cbn. rewrite !firstn_nil. reflexivity.
  - destruct n as [|n]; [lia|]. destruct i as [|i]; cbn; [reflexivity|].
    f_equal. apply IH. lia.
Qed.

Lemma hc_nth_opt_firstn {A} (l : list A) : forall n i, (i < n)%nat -> nth_opt (firstn n l) i = nth_opt l i.
Proof.
  induction l as [|x t IH]; intros n i Hi.
  - rewrite firstn_nil. reflexivity.
  - destruct n as [|n]; [lia|]. destruct i as [|i]; cbn; [reflexivity|]. apply IH. lia.
Qed.

Lemma hc_set_nth_snoc {A} (l : list A) : forall n a, (n < length l)%nat ->
  firstn (S n) (set_nth l n a) = firstn n l ++ [a].
Proof.
  induction l as [|x t IH]; intros n a Hn; cbn in Hn; [lia|].
  destruct n as [|n]; cbn; [reflexivity|]. f_equal. apply IH. lia.
Qed.

Lemma nth_opt_none_get (d : list Z) i : (length d <= i)%nat -> get d i = HPanic.
Proof. intros H. unfold get. rewrite nth_opt_none by exact H. reflexivity. Qed.

(* ---------- headers and the store ---------- *)

Definition frame (st st' : store) (a : nat) : Prop :=
  length st' = length st /\ forall b, b <> a -> arr_of st' b = arr_of st b.

Lemma frame_refl st a : frame st st a.
Proof. split; [reflexivity|intros; reflexivity]. Qed.

Lemma frame_trans st1 st2 st3 a : frame st1 st2 a -> frame st2 st3 a -> frame st1 st3 a.
Proof.
  intros [L1 F1] [L2 F2]. split; [lia|]. intros b Hb. rewrite F2, F1 by exact Hb. reflexivity.
Qed.

Lemma live_length st h : hwf st h -> length (live st h) = h_len h.
Proof. intros (Ha & Hl & Hc). unfold live. rewrite firstn_length. lia. Qed.

Lemma ld_live st h i : hwf st h -> ld st h i = get (live st h) i.
Proof.
  intros Hw. unfold ld, get, live.
  destruct (i <? h_len h)%nat eqn:E.
  - rewrite hc_nth_opt_firstn by lia. reflexivity.
  - rewrite nth_opt_none; [reflexivity|]. fold (live st h). rewrite live_length by exact Hw. lia.
Qed.

Lemma st_at_ok st h i v : hwf st h -> (i < h_len h)%nat ->
  exists st', st_at st h i v = HOk st' /\ hwf st' h /\ live st' h = set_nth (live st h) i v /\
              frame st st' (h_arr h) /\ arr_of st' (h_arr h) = set_nth (arr_of st (h_arr h)) i v.
Proof.
  intros (Ha & Hl & Hc) Hi. unfold st_at.
  replace (i <? h_len h)%nat with true by lia.
  replace (i <? length (arr_of st (h_arr h)))%nat with true by lia.
  eexists. split; [reflexivity|].
  assert (Harr : arr_of (set_nth st (h_arr h) (set_nth (arr_of st (h_arr h)) i v)) (h_arr h)
                 = set_nth (arr_of st (h_arr h)) i v).
  { unfold arr_of at 1. rewrite hc_nth_set_nth by exact Ha. rewrite Nat.eqb_refl. reflexivity. }
  split; [|split; [|split]].
  - split; [rewrite hc_set_nth_length; exact Ha|]. split; [|exact Hc].
    rewrite Harr, hc_set_nth_length. exact Hl.
  - unfold live. rewrite Harr. apply hc_firstn_set_nth. exact Hi.
  - split; [apply hc_set_nth_length|]. intros b Hb. unfold arr_of at 1.
    rewrite hc_nth_set_nth by exact Ha. replace (b =? h_arr h)%nat with false by lia. reflexivity.
  - exact Harr.
Qed.

Lemma st_at_panic st h i v : (h_len h <= i)%nat -> st_at st h i v = HPanic.
Proof. intros Hi. unfold st_at. replace (i <? h_len h)%nat with false by lia. reflexivity. Qed.

(* ---------- simulation of the loops ---------- *)

Definition sim (st : store) (h : hd) (r : hres (list Z)) (cr : hres store) : Prop :=
  match r, cr with
  | HOk d, HOk st' => hwf st' h /\ live st' h = d /\ frame st st' (h_arr h)
  | HErr e, HErr e' => e = e'
  | HPanic, HPanic => True
  | HOutOfFuel, HOutOfFuel => True
  | _, _ => False
  end.

Lemma sim_bind st h r cr (f : list Z -> hres (list Z)) (g : store -> hres store) :
  sim st h r cr ->
  (forall st', hwf st' h -> frame st st' (h_arr h) -> sim st h (f (live st' h)) (g st')) ->
  sim st h (hbind r f) (hbind cr g).
Proof.
  intros Hs Hk. destruct r as [d|e| |]; destruct cr as [st'|e'| |]; cbn in *; try contradiction; try exact Hs; try exact I.
  destruct Hs as (Hw & Hl & Hf). subst d. apply Hk; assumption.
Qed.

Lemma sim_frame st st' h r cr : frame st st' (h_arr h) -> sim st' h r cr -> sim st h r cr.
Proof.
  intros Hf Hs. destruct r as [d|e| |]; destruct cr as [st2|e'| |]; cbn in *; try contradiction; try exact Hs.
  destruct Hs as (Hw & Hl & Hf2). split; [exact Hw|]. split; [exact Hl|]. eapply frame_trans; eassumption.
Qed.

Section Sim.
  Variable cmp : Z -> Z -> Z.

  Lemma cswap_sim st h i j : hwf st h -> sim st h (swap (live st h) i j) (cswap st h i j).
  Proof.
    intros Hw. unfold swap, cswap. rewrite !ld_live by exact Hw.
    pose proof (live_length st h Hw) as HL.
    destruct (lt_dec i (h_len h)) as [Hi|Hi]; [|rewrite (nth_opt_none_get (live st h) i) by lia; exact I].
    destruct (lt_dec j (h_len h)) as [Hj|Hj];
      [|rewrite (get_ok (live st h) i) by lia; cbn [hbind];
        rewrite (nth_opt_none_get (live st h) j) by lia; exact I].
    rewrite !get_ok by lia. cbn [hbind].
    destruct (st_at_ok st h i (nth j (live st h) 0) Hw Hi) as (st1 & E1 & Hw1 & L1 & F1 & _).
    rewrite E1. cbn [hbind].
    destruct (st_at_ok st1 h j (nth i (live st h) 0) Hw1 Hj) as (st2 & E2 & Hw2 & L2 & F2 & _).
    rewrite E2. cbn [sim]. split; [exact Hw2|]. split; [rewrite L2, L1; reflexivity|].
    eapply frame_trans; eassumption.
  Qed.

  Lemma csift_up_sim h : forall fuel st node parent, hwf st h ->
    sim st h (sift_up cmp fuel (live st h) node parent) (csift_up cmp fuel st h node parent).
  Proof.
    induction fuel as [|f IH]; intros st node parent Hw; cbn [sift_up csift_up]; [exact I|].
    destruct (0 <? parent)%nat; [|cbn; split; [exact Hw|split; [reflexivity|apply frame_refl]]].
    rewrite !ld_live by exact Hw.
    destruct (get (live st h) node) as [x|e| |]; cbn [hbind]; try exact I; [|reflexivity].
    destruct (get (live st h) parent) as [y|e| |]; cbn [hbind]; try exact I; [|reflexivity].
    destruct (cmp x y <? 0); [|cbn; split; [exact Hw|split; [reflexivity|apply frame_refl]]].
    apply sim_bind; [apply cswap_sim; exact Hw|].
    intros st' Hw' Hf. eapply sim_frame; [exact Hf|]. apply IH. exact Hw'.
  Qed.

  Lemma cpick_eq st h n c m : hwf st h -> cpick cmp st h n c m = pick cmp (live st h) n c m.
  Proof. intros Hw. unfold cpick, pick. rewrite !ld_live by exact Hw. reflexivity. Qed.

  Lemma cheapify_sim h n : forall fuel st i m, hwf st h ->
    sim st h (heapify cmp fuel (live st h) n i m) (cheapify cmp fuel st h n i m).
  Proof.
    induction fuel as [|f IH]; intros st i m Hw; cbn [heapify cheapify]; [exact I|].
    rewrite !cpick_eq by exact Hw.
    destruct (pick cmp (live st h) n (i * 2) m) as [m1|e| |]; cbn [hbind]; try exact I; [|reflexivity].
    rewrite !cpick_eq by exact Hw.
    destruct (pick cmp (live st h) n (i * 2 + 1) m1) as [m2|e| |]; cbn [hbind]; try exact I; [|reflexivity].
    destruct (m2 =? i)%nat; [cbn; split; [exact Hw|split; [reflexivity|apply frame_refl]]|].
    apply sim_bind; [apply cswap_sim; exact Hw|].
    intros st' Hw' Hf. eapply sim_frame; [exact Hf|]. apply IH. exact Hw'.
  Qed.
End Sim.

(* ---------- append, Shrink ---------- *)

Lemma arr_of_app_old (st : store) X b : (b < length st)%nat -> arr_of (st ++ X) b = arr_of st b.
Proof. intros Hb. unfold arr_of. apply app_nth1. exact Hb. Qed.

Lemma arr_of_app_new (st : store) x : arr_of (st ++ [x]) (length st) = x.
Proof. unfold arr_of. rewrite app_nth2 by lia. rewrite Nat.sub_diag. reflexivity. Qed.

Lemma firstn_app_exact {A} (w rest : list A) n : length w = n -> firstn n (w ++ rest) = w.
Proof.
  intros Hl. rewrite firstn_app. rewrite Hl, Nat.sub_diag. cbn [firstn]. rewrite app_nil_r.
  apply firstn_all2. lia.
Qed.

(* what the new store keeps of the old one: every old array except possibly `a` *)
Definition ext (st st' : store) (a : nat) : Prop :=
  (length st <= length st')%nat /\ forall b, (b < length st)%nat -> b <> a -> arr_of st' b = arr_of st b.

Lemma app_spec st h v oracle : hwf st h ->
  let r := app st h v oracle in
  hwf (fst r) (snd r) /\ live (fst r) (snd r) = live st h ++ [v] /\
  h_len (snd r) = S (h_len h) /\
  h_cap (snd r) = (if (h_len h <? h_cap h)%nat then h_cap h else Nat.max (S (h_len h)) oracle) /\
  ext st (fst r) (h_arr (snd r)) /\
  ((h_arr (snd r) = h_arr h /\ (h_len h < h_cap h)%nat) \/
   ((length st <= h_arr (snd r))%nat /\ (h_cap h <= h_len h)%nat)).
Proof.
  intros (Ha & Hl & Hc). unfold app. destruct (h_len h <? h_cap h)%nat eqn:E; cbn [fst snd h_arr h_len h_cap].
  - assert (Harr : arr_of (set_nth st (h_arr h) (set_nth (arr_of st (h_arr h)) (h_len h) v)) (h_arr h)
                   = set_nth (arr_of st (h_arr h)) (h_len h) v).
    { unfold arr_of at 1. rewrite hc_nth_set_nth by exact Ha. rewrite Nat.eqb_refl. reflexivity. }
    split; [|split; [|split; [reflexivity|split; [reflexivity|split]]]].
    + split; [rewrite hc_set_nth_length; exact Ha|]. cbn [h_arr h_len h_cap].
      split; [rewrite Harr, hc_set_nth_length; exact Hl|lia].
    + unfold live. cbn [h_arr h_len]. rewrite Harr. apply hc_set_nth_snoc. lia.
    + split; [rewrite hc_set_nth_length; lia|]. intros b Hb Hne. unfold arr_of at 1.
      rewrite hc_nth_set_nth by exact Ha. replace (b =? h_arr h)%nat with false by lia. reflexivity.
    + left. split; [reflexivity|lia].
  - set (w := firstn (h_len h) (arr_of st (h_arr h))).
    assert (Hw : length w = h_len h) by (subst w; rewrite firstn_length; lia).
    split; [|split; [|split; [reflexivity|split; [reflexivity|split]]]].
    + split; [rewrite app_length; cbn; lia|]. cbn [h_arr h_len h_cap]. rewrite arr_of_app_new.
      split; [|lia]. rewrite app_length. cbn [length]. rewrite repeat_length. lia.
    + unfold live. cbn [h_arr h_len]. rewrite arr_of_app_new.
      change (w ++ v :: repeat 0 (Nat.max (S (h_len h)) oracle - S (h_len h)))
        with (w ++ [v] ++ repeat 0 (Nat.max (S (h_len h)) oracle - S (h_len h))).
      fold w. rewrite app_assoc. apply firstn_app_exact. rewrite app_length, Hw. cbn [length]. lia.
    + split; [rewrite app_length; cbn; lia|]. intros b Hb _. apply arr_of_app_old. exact Hb.
    + right. split; lia.
Qed.

Lemma cal_capacity_room c l n : 0 <= l -> ListModel.cal_capacity c l = (n, true) -> l <= n /\ n < c.
Proof.
  intros Hl. unfold ListModel.cal_capacity.
  destruct (c <=? 64) eqn:E1; [intros H; inversion H|].
  destruct ((c >? 2048) && (c >=? 2 * l)) eqn:E2.
  - intros H. inversion H; subst. lia.
  - destruct ((c <=? 2048) && (c >=? 4 * l)) eqn:E3; intros H; inversion H; subst. lia.
Qed.

Definition shrunk_cap (cap len : nat) : nat :=
  let (n, changed) := ListModel.cal_capacity (Z.of_nat cap) (Z.of_nat len) in
  if changed then Z.to_nat n else cap.

Lemma cshrink_spec st h : hwf st h ->
  let r := cshrink st h in
  hwf (fst r) (snd r) /\ live (fst r) (snd r) = live st h /\ h_len (snd r) = h_len h /\
  h_cap (snd r) = shrunk_cap (h_cap h) (h_len h) /\
  (length st <= length (fst r))%nat /\ (forall b, (b < length st)%nat -> arr_of (fst r) b = arr_of st b) /\
  (snd r = h /\ fst r = st \/ (length st <= h_arr (snd r))%nat).
Proof.
  intros (Ha & Hl & Hc). unfold cshrink, shrunk_cap.
  destruct (ListModel.cal_capacity (Z.of_nat (h_cap h)) (Z.of_nat (h_len h))) as [n changed] eqn:E.
  destruct changed; cbn [negb].
  - destruct (cal_capacity_room _ _ _ (Nat2Z.is_nonneg _) E) as [Hn1 Hn2].
    unfold mk, app_all. cbn [h_len h_cap h_arr].
    replace (h_len h <=? Z.to_nat n)%nat with true by lia. cbn [fst snd h_arr h_len h_cap].
    rewrite arr_of_app_old by exact Ha.
    set (w := firstn (h_len h) (arr_of st (h_arr h))).
    assert (Hw : length w = h_len h) by (subst w; rewrite firstn_length; lia).
    assert (Harr : arr_of (set_nth (st ++ [repeat 0 (Z.to_nat n)]) (length st) (w ++ repeat 0 (Z.to_nat n - h_len h))) (length st)
                   = w ++ repeat 0 (Z.to_nat n - h_len h)).
    { unfold arr_of at 1. rewrite hc_nth_set_nth by (rewrite app_length; cbn; lia).
      rewrite Nat.eqb_refl. reflexivity. }
    split; [|split; [|split; [reflexivity|split; [reflexivity|split; [|split]]]]].
    + split; [rewrite hc_set_nth_length, app_length; cbn; lia|]. cbn [h_arr h_len h_cap]. rewrite Harr.
      split; [|lia]. rewrite app_length, repeat_length. lia.
    + unfold live at 1. cbn [h_arr h_len]. rewrite Harr. apply firstn_app_exact. exact Hw.
    + rewrite hc_set_nth_length, app_length. cbn. lia.
    + intros b Hb. unfold arr_of at 1. rewrite hc_nth_set_nth by (rewrite app_length; cbn; lia).
      replace (b =? length st)%nat with false by lia. apply app_nth1. exact Hb.
    + right. lia.
  - cbn [fst snd]. split; [split; [exact Ha|split; [exact Hl|exact Hc]]|].
    split; [reflexivity|]. split; [reflexivity|]. split; [reflexivity|]. split; [lia|].
    split; [intros; reflexivity|]. left. split; reflexivity.
Qed.

(* ---------- the operations ---------- *)

Section Ops.
  Variable cmp : Z -> Z -> Z.

  Lemma rep_len cp p : represents cp p -> h_len (c_hdr cp) = length (data p).
  Proof. intros (_ & Hw & Hl). rewrite <- Hl. symmetry. apply live_length. exact Hw. Qed.

  (* old arrays other than the final live one are untouched, except that a Dequeue writes
     slot 1 of the array that was live when it started (before any re-allocation copies it) *)
  Definition writes_ok (cp cp' : cpq) (o : cop) : Prop :=
    (length (c_store cp) <= length (c_store cp'))%nat /\
    forall b, (b < length (c_store cp))%nat -> b <> h_arr (c_hdr cp') ->
      length (arr_of (c_store cp') b) = length (arr_of (c_store cp) b) /\
      forall k, (b = h_arr (c_hdr cp) /\ o = CDequeue -> k <> 1%nat) ->
        nth k (arr_of (c_store cp') b) 0 = nth k (arr_of (c_store cp) b) 0.

  Lemma writes_ok_refl cp o : writes_ok cp cp o.
  Proof. split; [lia|]. intros b Hb Hne. split; [reflexivity|intros; reflexivity]. Qed.

  Definition step_spec (cp : cpq) (p : pq) (o : cop) : Prop :=
    let cp' := fst (cstep cmp cp o) in
    let cr := snd (cstep cmp cp o) in
    let p' := fst (step cmp p (erase o)) in
    cr = snd (step cmp p (erase o)) /\ represents cp' p' /\
    ((exists x, cr = HOk x) -> h_cap (c_hdr cp') = cap_after cp o) /\
    ((forall x, cr <> HOk x) -> cp' = cp) /\
    writes_ok cp cp' o.

  Lemma cenqueue_spec cp p v oracle : represents cp p -> step_spec cp p (CEnqueue v oracle).
  Proof.
    intros Hrep. pose proof (rep_len cp p Hrep) as Hlen. destruct Hrep as (Hcap & Hw & Hlive).
    unfold step_spec. cbn [cstep step erase]. unfold cenqueue, enqueue.
    assert (Hfull : c_is_full cp = is_full p) by (unfold c_is_full, is_full; rewrite Hcap, Hlen; reflexivity).
    rewrite Hfull. destruct (is_full p) eqn:Ef; cbn [fst snd].
    - split; [reflexivity|]. split; [split; [exact Hcap|split; assumption]|].
      split; [intros [x Hx]; discriminate|]. split; [reflexivity|apply writes_ok_refl].
    - pose proof (app_spec (c_store cp) (c_hdr cp) v oracle Hw) as Happ.
      destruct (app (c_store cp) (c_hdr cp) v oracle) as [st1 h1]. cbn [fst snd] in Happ.
      destruct Happ as (Hw1 & Hl1 & Hn1 & Hc1 & Hext & _).
      unfold clive in Hlive. rewrite Hlive in Hl1.
      assert (Hlen1 : h_len h1 = length (data p ++ [v])) by (rewrite app_length; cbn; lia).
      pose proof (csift_up_sim cmp h1 (h_len h1) st1 (h_len h1 - 1) ((h_len h1 - 1) / 2) Hw1) as Hsim.
      rewrite Hl1, Hlen1 in Hsim. rewrite Hlen1.
      destruct (sift_up cmp (length (data p ++ [v])) (data p ++ [v]) (length (data p ++ [v]) - 1)
                  ((length (data p ++ [v]) - 1) / 2)) as [d'|e| |];
        destruct (csift_up cmp (length (data p ++ [v])) st1 h1 (length (data p ++ [v]) - 1)
                    ((length (data p ++ [v]) - 1) / 2)) as [st2|e'| |];
        cbn [sim] in Hsim; try contradiction; cbn [fst snd].
      + destruct Hsim as (Hw2 & Hl2 & Hf).
        split; [reflexivity|]. split; [split; [exact Hcap|split; [exact Hw2|exact Hl2]]|].
        split; [intros _; cbn [c_hdr cap_after]; exact Hc1|]. split; [intros H; exfalso; eapply H; reflexivity|].
        split; cbn [c_store c_hdr]; [destruct Hext as [He _]; destruct Hf as [Hf1 _]; lia|].
        intros b Hb Hne. destruct Hext as [_ He]. destruct Hf as [_ Hf2].
        rewrite Hf2 by exact Hne. rewrite He by assumption. split; [reflexivity|intros; reflexivity].
      + subst e'. split; [reflexivity|]. split; [split; [exact Hcap|split; assumption]|].
        split; [intros [x Hx]; discriminate|]. split; [reflexivity|apply writes_ok_refl].
      + split; [reflexivity|]. split; [split; [exact Hcap|split; assumption]|].
        split; [intros [x Hx]; discriminate|]. split; [reflexivity|apply writes_ok_refl].
      + split; [reflexivity|]. split; [split; [exact Hcap|split; assumption]|].
        split; [intros [x Hx]; discriminate|]. split; [reflexivity|apply writes_ok_refl].
  Qed.

  Lemma shrink_if_spec cp p st h : c_capacity cp = capacity p -> hwf st h ->
    let r := cshrink_if_necessary cp st h in
    hwf (fst r) (snd r) /\ live (fst r) (snd r) = live st h /\ h_len (snd r) = h_len h /\
    h_cap (snd r) = (if c_is_boundless cp then shrunk_cap (h_cap h) (h_len h) else h_cap h) /\
    (length st <= length (fst r))%nat /\ (forall b, (b < length st)%nat -> arr_of (fst r) b = arr_of st b) /\
    (snd r = h /\ fst r = st \/ (length st <= h_arr (snd r))%nat).
  Proof.
    intros Hcap Hw. unfold cshrink_if_necessary. destruct (c_is_boundless cp).
    - apply cshrink_spec. exact Hw.
    - cbn [fst snd]. split; [exact Hw|]. split; [reflexivity|]. split; [reflexivity|]. split; [reflexivity|].
      split; [lia|]. split; [intros; reflexivity|]. left. split; reflexivity.
  Qed.

  Lemma cdequeue_spec cp p : represents cp p -> step_spec cp p CDequeue.
  Proof.
    intros Hrep. pose proof (rep_len cp p Hrep) as Hlen. destruct Hrep as (Hcap & Hw & Hlive).
    unfold step_spec. cbn [cstep step erase]. unfold cdequeue, dequeue.
    assert (Hemp : c_is_empty cp = is_empty p) by (unfold c_is_empty, is_empty; rewrite Hlen; reflexivity).
    rewrite Hemp. destruct (is_empty p) eqn:Ee; cbn [fst snd].
    - split; [reflexivity|]. split; [split; [exact Hcap|split; assumption]|].
      split; [intros [x Hx]; discriminate|]. split; [reflexivity|apply writes_ok_refl].
    - unfold is_empty in Ee. unfold clive in Hlive.
      set (d := data p) in *. set (st := c_store cp) in *. set (h := c_hdr cp) in *.
      assert (HL : (2 <= length d)%nat) by lia.
      rewrite !ld_live by exact Hw. rewrite Hlive, Hlen.
      rewrite !get_ok by lia. cbn [hbind].
      replace (1 <? length d)%nat with true by lia. cbn [hbind].
      set (lastv := nth (length d - 1) d 0).
      destruct (st_at_ok st h 1 lastv Hw ltac:(lia)) as (st1 & E1 & Hw1 & L1 & F1 & A1).
      rewrite E1. cbn [hbind]. rewrite Hlive in L1.
      replace (1 <=? length d)%nat with true by lia.
      rewrite (HeapProof.set_nth_length d 1 lastv).
      replace (1 <=? length d)%nat with true by lia. cbn [hbind].
      unfold reslice. destruct Hw as (Ha & Hal & Hc).
      replace (length d - 1 <=? h_cap h)%nat with true by lia. cbn [hbind].
      set (h2 := mkhd (h_arr h) (length d - 1) (h_cap h)).
      set (d2 := firstn (length d - 1) (set_nth d 1 lastv)).
      assert (Hw2 : hwf st1 h2).
      { destruct Hw1 as (Ha1 & Hal1 & Hc1). split; [exact Ha1|]. split; [exact Hal1|]. cbn. lia. }
      assert (L2 : live st1 h2 = d2).
      { unfold live, h2, d2. cbn [h_arr h_len]. rewrite <- L1. unfold live.
        rewrite firstn_firstn. f_equal. lia. }
      pose proof (shrink_if_spec cp p st1 h2 Hcap Hw2) as Hsh.
      destruct (cshrink_if_necessary cp st1 h2) as [st3 h3]. cbn [fst snd] in Hsh.
      destruct Hsh as (Hw3 & L3 & Hn3 & Hc3 & Hle3 & Hold3 & Hre3).
      assert (Hsd : shrink_if_necessary p d2 = d2)
        by (unfold shrink_if_necessary, shrink; destruct (is_boundless p); reflexivity).
      rewrite Hsd. rewrite L2 in L3. cbn [h_len h2] in Hn3.
      assert (Hld2 : length d2 = (length d - 1)%nat).
      { unfold d2. rewrite firstn_length, HeapProof.set_nth_length. lia. }
      pose proof (cheapify_sim cmp h3 (h_len h3 - 1) (h_len h3) st3 1 1 Hw3) as Hsim.
      rewrite L3, Hn3, <- Hld2 in Hsim. rewrite Hn3, <- Hld2.
      destruct (heapify cmp (length d2) d2 (length d2 - 1) 1 1) as [d4|e| |];
        destruct (cheapify cmp (length d2) st3 h3 (length d2 - 1) 1 1) as [st4|e'| |];
        cbn [sim] in Hsim; try contradiction; cbn [hbind fst snd].
      + destruct Hsim as (Hw4 & L4 & F4).
        split; [reflexivity|]. split; [split; [exact Hcap|split; [exact Hw4|exact L4]]|].
        split; [|split; [intros H; exfalso; eapply H; reflexivity|]].
        * intros _. cbn [c_hdr]. rewrite Hc3. unfold cap_after. fold h.
          destruct (c_is_boundless cp); [|reflexivity].
          unfold shrunk_cap. cbn [h_cap h_len h2]. rewrite Hlen.
          replace (Z.of_nat (length d - 1)) with (Z.of_nat (length d) - 1) by lia. reflexivity.
        * destruct F1 as [F1l F1o]. destruct F4 as [F4l F4o].
          split; cbn [c_store c_hdr]; [fold st; lia|].
          fold st. fold h. intros b Hb Hne.
          rewrite F4o by exact Hne. rewrite Hold3 by lia.
          destruct (Nat.eq_dec b (h_arr h)) as [->|Hbh].
          -- rewrite A1. split; [apply HeapProof.set_nth_length|].
             intros k Hk. rewrite HeapProof.nth_set_nth by lia.
             destruct (k =? 1)%nat eqn:Ek; [|reflexivity]. exfalso. apply (Hk (conj eq_refl eq_refl)). lia.
          -- rewrite F1o by exact Hbh. split; [reflexivity|intros; reflexivity].
      + subst e'. split; [reflexivity|]. split; [split; [exact Hcap|split; [exact (conj Ha (conj Hal Hc))|exact Hlive]]|].
        split; [intros [x Hx]; discriminate|]. split; [reflexivity|apply writes_ok_refl].
      + split; [reflexivity|]. split; [split; [exact Hcap|split; [exact (conj Ha (conj Hal Hc))|exact Hlive]]|].
        split; [intros [x Hx]; discriminate|]. split; [reflexivity|apply writes_ok_refl].
      + split; [reflexivity|]. split; [split; [exact Hcap|split; [exact (conj Ha (conj Hal Hc))|exact Hlive]]|].
        split; [intros [x Hx]; discriminate|]. split; [reflexivity|apply writes_ok_refl].
  Qed.
End Ops.

(* ---------- all operations, histories, reachable states ---------- *)

Section Top.
  Variable cmp : Z -> Z -> Z.

  Lemma cstep_refines_lemma cp p o : represents cp p -> step_spec cmp cp p o.
  Proof.
    intros Hrep. destruct o as [v oracle| | |].
    - apply cenqueue_spec. exact Hrep.
    - apply cdequeue_spec. exact Hrep.
    - pose proof (rep_len cp p Hrep) as Hlen. destruct Hrep as (Hcap & Hw & Hlive).
      unfold step_spec. cbn [cstep step erase fst snd]. unfold cpeek, peek.
      assert (Hemp : c_is_empty cp = is_empty p) by (unfold c_is_empty, is_empty; rewrite Hlen; reflexivity).
      rewrite Hemp. rewrite ld_live by exact Hw. unfold clive in Hlive. rewrite Hlive.
      split; [reflexivity|]. split; [split; [exact Hcap|split; assumption]|].
      split; [intros _; reflexivity|]. split; [reflexivity|apply writes_ok_refl].
    - pose proof (rep_len cp p Hrep) as Hlen. destruct Hrep as (Hcap & Hw & Hlive).
      unfold step_spec. cbn [cstep step erase fst snd]. unfold clen, pq_len. rewrite Hlen.
      split; [reflexivity|]. split; [split; [exact Hcap|split; assumption]|].
      split; [intros _; reflexivity|]. split; [reflexivity|apply writes_ok_refl].
  Qed.

  Lemma cnew_represents c : represents (cnew c) (new_pq c).
  Proof.
    unfold cnew, new_pq, represents, clive, live, hwf. cbn [c_capacity c_hdr c_store capacity data h_arr h_len h_cap arr_of nth length].
    split; [reflexivity|].
    assert (Hsc : (1 <= (if (c <? 1)%Z then 64 else Z.to_nat (c + 1)%Z))%nat) by (destruct (c <? 1) eqn:E; lia).
    destruct (if c <? 1 then 64%nat else Z.to_nat (c + 1)) as [|n] eqn:En; [lia|].
    split; [split; [lia|split; [apply repeat_length|lia]]|reflexivity].
  Qed.

  Lemma crun_refines_lemma : forall ops cp p, represents cp p ->
    snd (crun cmp cp ops) = snd (run cmp p (map erase ops)) /\
    represents (fst (crun cmp cp ops)) (fst (run cmp p (map erase ops))).
  Proof.
    induction ops as [|o t IH]; intros cp p Hrep; cbn [crun run map].
    - cbn [fst snd]. split; [reflexivity|exact Hrep].
    - destruct (cstep_refines_lemma cp p o Hrep) as (Hr & Hrep' & _).
      destruct (cstep cmp cp o) as [cp1 cr]. destruct (step cmp p (erase o)) as [p1 r]. cbn [fst snd] in *.
      destruct (IH cp1 p1 Hrep') as (Hrs & Hrep2).
      destruct (crun cmp cp1 t) as [cp2 crs]. destruct (run cmp p1 (map erase t)) as [p2 rs]. cbn [fst snd] in *.
      split; [rewrite Hr, Hrs; reflexivity|exact Hrep2].
  Qed.

  Lemma creachable_represents c cp : creachable cmp c cp -> exists p, reachable cmp c p /\ represents cp p.
  Proof.
    intros H. induction H as [|cp o H (p & Hr & Hrep)].
    - exists (new_pq c). split; [apply reach_new|apply cnew_represents].
    - exists (fst (step cmp p (erase o))). split; [apply reach_step; exact Hr|].
      destruct (cstep_refines_lemma cp p o Hrep) as (_ & Hrep' & _). exact Hrep'.
  Qed.

  (* in every reachable state p.data denotes an existing array of exactly cap slots, len <= cap *)
  Lemma creachable_invariant_lemma c cp : creachable cmp c cp -> hwf (c_store cp) (c_hdr cp).
  Proof. intros H. destruct (creachable_represents c cp H) as (p & _ & (_ & Hw & _)). exact Hw. Qed.

  Lemma cap_rule_lemma c cp o : creachable cmp c cp ->
    ((exists x, snd (cstep cmp cp o) = HOk x) -> h_cap (c_hdr (fst (cstep cmp cp o))) = cap_after cp o) /\
    ((forall x, snd (cstep cmp cp o) <> HOk x) -> fst (cstep cmp cp o) = cp).
  Proof.
    intros H. destruct (creachable_represents c cp H) as (p & _ & Hrep).
    destruct (cstep_refines_lemma cp p o Hrep) as (_ & _ & Hc & Hs & _). split; assumption.
  Qed.

  Lemma writes_lemma c cp o : creachable cmp c cp -> writes_ok cp (fst (cstep cmp cp o)) o.
  Proof.
    intros H. destruct (creachable_represents c cp H) as (p & _ & Hrep).
    destruct (cstep_refines_lemma cp p o Hrep) as (_ & _ & _ & _ & Hwr). exact Hwr.
  Qed.

  Lemma crun_new_lemma c ops :
    snd (crun cmp (cnew c) ops) = snd (run cmp (new_pq c) (map erase ops)) /\
    clive (fst (crun cmp (cnew c) ops)) = data (fst (run cmp (new_pq c) (map erase ops))).
  Proof.
    destruct (crun_refines_lemma ops (cnew c) (new_pq c) (cnew_represents c)) as (H1 & (_ & _ & H2)).
    split; assumption.
  Qed.

End Top.

(* the explicit thresholds of the capacity rule after a successful Dequeue of an unbounded queue;
   l = the new length of p.data (slot 0 included) *)
Lemma dequeue_thresholds_lemma cp : c_is_boundless cp = true -> (1 <= h_len (c_hdr cp))%nat ->
  let c := h_cap (c_hdr cp) in let l := (h_len (c_hdr cp) - 1)%nat in
  cap_after cp CDequeue =
    if (c <=? 64)%nat then c
    else if (2048 <? c)%nat && (2 * l <=? c)%nat then (c * 5 / 8)%nat
    else if (c <=? 2048)%nat && (4 * l <=? c)%nat then (c / 2)%nat
    else c.
Proof.
  intros Hb Hl. cbn zeta. unfold cap_after. rewrite Hb. unfold ListModel.cal_capacity.
  set (c := h_cap (c_hdr cp)). set (n := h_len (c_hdr cp)) in *.
  destruct (Z.of_nat c <=? 64) eqn:E1.
  - replace (c <=? 64)%nat with true by lia. reflexivity.
  - replace (c <=? 64)%nat with false by lia.
    destruct ((Z.of_nat c >? 2048) && (Z.of_nat c >=? 2 * (Z.of_nat n - 1))) eqn:E2.
    + replace ((2048 <? c)%nat && (2 * (n - 1) <=? c)%nat) with true by lia. lia.
    + replace ((2048 <? c)%nat && (2 * (n - 1) <=? c)%nat) with false by lia.
      destruct ((Z.of_nat c <=? 2048) && (Z.of_nat c >=? 4 * (Z.of_nat n - 1))) eqn:E3.
      * replace ((c <=? 2048)%nat && (4 * (n - 1) <=? c)%nat) with true by lia. lia.
      * replace ((c <=? 2048)%nat && (4 * (n - 1) <=? c)%nat) with false by lia. reflexivity.
Qed.


(* ---------- transfer of the C05 theorems ---------- *)
From Ekit Require Import HeapProof2.

Section Laws.
  Variable cmp : Z -> Z -> Z.
  Hypothesis cmp_total : forall x y, 0 <= cmp x y -> cmp y x <= 0.
  Hypothesis cmp_trans : forall x y z, cmp x y <= 0 -> cmp y z <= 0 -> cmp x z <= 0.

  (* no access outside [0, len) (ld / st_at / reslice answer HPanic there) and no loop runs out of fuel *)
  Lemma cap_never_crashes_lemma c cp o : creachable cmp c cp ->
    snd (cstep cmp cp o) <> HPanic /\ snd (cstep cmp cp o) <> HOutOfFuel.
  Proof.
    intros H. destruct (creachable_represents cmp c cp H) as (p & Hr & Hrep).
    destruct (cstep_refines_lemma cmp cp p o Hrep) as (Hans & _). rewrite Hans.
    eapply abs_step_no_crash. apply (pq_step_refines_lemma cmp cmp_total cmp_trans c p (erase o) Hr).
  Qed.

  Lemma cap_refines_multiset_lemma c ops :
    abs_run cmp c [] (map erase ops) (snd (crun cmp (cnew c) ops)) (tl (clive (fst (crun cmp (cnew c) ops)))).
  Proof.
    destruct (crun_new_lemma cmp c ops) as (H1 & H2). rewrite H1, H2.
    apply (pq_refines_lemma cmp cmp_total cmp_trans).
  Qed.

  Lemma cap_heap_inv_lemma c cp : creachable cmp c cp -> heap_inv cmp (clive cp) /\ (1 <= h_len (c_hdr cp))%nat.
  Proof.
    intros H. destruct (creachable_represents cmp c cp H) as (p & Hr & Hrep).
    pose proof (rep_len cp p Hrep) as Hlen. destruct Hrep as (_ & _ & Hl). rewrite Hl, Hlen.
    apply (reachable_heap_inv_lemma cmp cmp_total cmp_trans c p Hr).
  Qed.
End Laws.

(* ---------- link with the C04 model of slice.Shrink ---------- *)

Lemma zeros_repeat n : ListModel.zeros n = repeat 0 n.
Proof. induction n as [|n IH]; cbn; [reflexivity|rewrite IH; reflexivity]. Qed.

(* on contents and capacity, cshrink is exactly ListModel.shrink (whose oracle is never consulted) *)
Lemma cshrink_is_list_shrink st h oracle : hwf st h ->
  ListModel.shrink {| ListModel.sv := live st h; ListModel.sc := Z.of_nat (h_cap h) |} oracle =
  Ok {| ListModel.sv := live (fst (cshrink st h)) (snd (cshrink st h));
        ListModel.sc := Z.of_nat (h_cap (snd (cshrink st h))) |}.
Proof.
  intros Hw. destruct (cshrink_spec st h Hw) as (_ & Hl & _ & Hc & _). rewrite Hl, Hc.
  unfold ListModel.shrink, shrunk_cap. cbn [ListModel.sv ListModel.sc].
  unfold ListModel.zlen. rewrite (live_length st h Hw).
  destruct (ListModel.cal_capacity (Z.of_nat (h_cap h)) (Z.of_nat (h_len h))) as [n changed] eqn:E.
  destruct changed; cbn [negb]; [|reflexivity].
  destruct (cal_capacity_room _ _ _ (Nat2Z.is_nonneg _) E) as [Hn1 Hn2].
  unfold ListModel.go_make. replace ((0 <=? 0) && (0 <=? n)) with true by lia. cbn [obind].
  unfold ListModel.go_append. cbn [ListModel.sv ListModel.sc ListModel.zeros app Z.to_nat].
  unfold ListModel.zlen. cbn [length]. rewrite (live_length st h Hw).
  replace (Z.of_nat 0 + Z.of_nat (h_len h) <=? n) with true by lia.
  rewrite Z2Nat.id by lia. reflexivity.
Qed.
