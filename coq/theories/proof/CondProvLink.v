(* C13, provenance of wake-ups, second part: the link between the observer of CondProv.v and the program counters of
   CondModel (a thread at a token-holding program counter holds a token in the observer table), so that the log of
   consumptions has exactly one entry per nil return of Wait, for every execution. *)
From Ekit Require Import Common Conc CondModel CondProof CondProofNodes CondProof2 CondProof3 CondProv.
From Coq Require Import ZifyBool Arith PeanoNat.

(* ---------- the observer's tables and the model's program counters ---------- *)
Definition holds_tok (p : cpc) : bool :=
  match p with
  | NO_Next | NA_Next | WT_Forward _ | NN_Front _ | FT_Ret _ | NN_Ch _ _ | NN_Remove _ _ | NN_Send _ _ => true
  | RM_1 (RMNext _) _ | RM_2 (RMNext _) _ | RM_3 (RMNext _) _ | RM_4 (RMNext _) _ | RM_5 (RMNext _) _ => true
  | WT_CaseTok _ | WT_IfLen _ | LEN (LenWait _) | WT_CaseCh _ | WT_RetNil _ | FR_Put _ true => true
  | _ => false
  end.
Definition notif (p : cpc) : bool := negb (in_wait p).

Definition has_hold (pr : prov) (t : tid) : Prop := exists tk, lookup t (p_hold pr) = Some tk.
Definition has_call (pr : prov) (t : tid) : Prop := exists k op, lookup t (p_call pr) = Some (k, op) /\ is_notify op = true.

Record KI (c : ccfg) (pr : prov) : Prop := {
  k_call : forall t, lookup t (pm notif (c_thr c)) = Some true -> has_call pr t;
  k_hold : forall t, lookup t (pm holds_tok (c_thr c)) = Some true -> has_hold pr t;
  k_chan : forall n, In n (c_tok c) -> exists tk, lookup n (p_chan pr) = Some tk;
  k_cons : Z.of_nat (length (p_cons pr)) = g_nil c
}.

Lemma KI_init copied : KI (cond_init copied) p0.
Proof. constructor; try (intros t H; discriminate H); try (intros n []). destruct copied; reflexivity. Qed.

(* ---- effect of the primitives on the tables ---- *)
Lemma pcall_bump p : p_call (bump p) = p_call p. Proof. reflexivity. Qed.
Lemma pcall_mint t p : p_call (mint t p) = p_call p.
Proof. unfold mint. destruct (lookup t (p_call p)) as [[k op]|]; [destruct (is_notify op)|]; reflexivity. Qed.
Lemma pcall_h2c t f p : p_call (hold_to_chan t f p) = p_call p.
Proof. unfold hold_to_chan. destruct (lookup t (p_hold p)); reflexivity. Qed.
Lemma pcall_h2h t u p : p_call (hold_to_hold t u p) = p_call p.
Proof. unfold hold_to_hold. destruct (lookup t (p_hold p)); reflexivity. Qed.
Lemma pcall_c2h n t p : p_call (chan_to_hold n t p) = p_call p.
Proof. unfold chan_to_hold. destruct (lookup n (p_chan p)); reflexivity. Qed.
Lemma pcall_drop t p : p_call (drop_hold t p) = p_call p. Proof. reflexivity. Qed.
Lemma pcall_consume t p : p_call (consume t p) = p_call p.
Proof. unfold consume. destruct (lookup t (p_hold p)); reflexivity. Qed.

Lemma pcons_mint t p : p_cons (mint t p) = p_cons p.
Proof. unfold mint. destruct (lookup t (p_call p)) as [[k op]|]; [destruct (is_notify op)|]; reflexivity. Qed.
Lemma pcons_h2c t f p : p_cons (hold_to_chan t f p) = p_cons p.
Proof. unfold hold_to_chan. destruct (lookup t (p_hold p)); reflexivity. Qed.
Lemma pcons_h2h t u p : p_cons (hold_to_hold t u p) = p_cons p.
Proof. unfold hold_to_hold. destruct (lookup t (p_hold p)); reflexivity. Qed.
Lemma pcons_c2h n t p : p_cons (chan_to_hold n t p) = p_cons p.
Proof. unfold chan_to_hold. destruct (lookup n (p_chan p)); reflexivity. Qed.
Lemma pcons_drop t p : p_cons (drop_hold t p) = p_cons p. Proof. reflexivity. Qed.

Lemma pchan_mint t p : p_chan (mint t p) = p_chan p.
Proof. unfold mint. destruct (lookup t (p_call p)) as [[k op]|]; [destruct (is_notify op)|]; reflexivity. Qed.
Lemma pchan_h2h t u p : p_chan (hold_to_hold t u p) = p_chan p.
Proof. unfold hold_to_hold. destruct (lookup t (p_hold p)); reflexivity. Qed.
Lemma pchan_drop t p : p_chan (drop_hold t p) = p_chan p. Proof. reflexivity. Qed.
Lemma pchan_consume t p : p_chan (consume t p) = p_chan p.
Proof. unfold consume. destruct (lookup t (p_hold p)); reflexivity. Qed.

Ltac pcbn := cbn [p_hold p_chan p_cons p_call p_idx bump set_hold set_chan set_cons set_pcall].

(* other threads keep what they hold *)
Lemma keep_mint t t0 p : t0 <> t -> has_hold p t0 -> has_hold (bump (mint t p)) t0.
Proof.
  intros Hne (tk & H). unfold has_hold, mint. destruct (lookup t (p_call p)) as [[k op]|]; [destruct (is_notify op)|]; pcbn;
    rewrite ?lookup_aset_other by exact Hne; eauto.
Qed.
Lemma keep_h2c t f t0 p : t0 <> t -> has_hold p t0 -> has_hold (bump (hold_to_chan t f p)) t0.
Proof.
  intros Hne (tk & H). unfold has_hold, hold_to_chan. destruct (lookup t (p_hold p)); pcbn;
    rewrite ?lookup_remove_other by exact Hne; eauto.
Qed.
Lemma keep_h2h t u t0 p : t0 <> t -> has_hold p t0 -> has_hold (bump (hold_to_hold t u p)) t0.
Proof.
  intros Hne (tk & H). unfold has_hold, hold_to_hold. destruct (lookup t (p_hold p)) as [tk0|]; pcbn; [|eauto].
  destruct (Nat.eq_dec t0 u) as [->|Hn2]; [rewrite lookup_aset_same; eauto|].
  rewrite lookup_aset_other, lookup_remove_other by assumption. eauto.
Qed.
Lemma keep_c2h n t t0 p : t0 <> t -> has_hold p t0 -> has_hold (bump (chan_to_hold n t p)) t0.
Proof.
  intros Hne (tk & H). unfold has_hold, chan_to_hold. destruct (lookup n (p_chan p)); pcbn;
    rewrite ?lookup_aset_other by exact Hne; eauto.
Qed.
Lemma keep_drop t t0 p : t0 <> t -> has_hold p t0 -> has_hold (bump (drop_hold t p)) t0.
Proof. intros Hne (tk & H). unfold has_hold, drop_hold. pcbn. rewrite lookup_remove_other by exact Hne. eauto. Qed.
Lemma keep_consume t t0 p : t0 <> t -> has_hold p t0 -> has_hold (bump (consume t p)) t0.
Proof.
  intros Hne (tk & H). unfold has_hold, consume. destruct (lookup t (p_hold p)); pcbn;
    rewrite ?lookup_remove_other by exact Hne; eauto.
Qed.
Lemma keep_bump t0 p : has_hold p t0 -> has_hold (bump p) t0.
Proof. exact (fun H => H). Qed.

(* what the acting thread (or the woken one) holds afterwards *)
Lemma new_mint t p : has_call p t -> has_hold (bump (mint t p)) t.
Proof.
  intros (k & op & H & Hn). unfold has_hold, mint. rewrite H, Hn. pcbn. rewrite lookup_aset_same. eauto.
Qed.
Lemma new_c2h n t p : (exists tk, lookup n (p_chan p) = Some tk) -> has_hold (bump (chan_to_hold n t p)) t.
Proof. intros (tk & H). unfold has_hold, chan_to_hold. rewrite H. pcbn. rewrite lookup_aset_same. eauto. Qed.
Lemma new_h2h t u p : has_hold p t -> has_hold (bump (hold_to_hold t u p)) u.
Proof. intros (tk & H). unfold has_hold, hold_to_hold. rewrite H. pcbn. rewrite lookup_aset_same. eauto. Qed.

(* the channel table *)
Lemma chan_h2c_new t f p : has_hold p t -> exists tk, lookup f (p_chan (bump (hold_to_chan t f p))) = Some tk.
Proof. intros (tk & H). unfold hold_to_chan. rewrite H. pcbn. rewrite lookup_aset_same. eauto. Qed.
Lemma chan_h2c_other t f x p : x <> f -> lookup x (p_chan (bump (hold_to_chan t f p))) = lookup x (p_chan p).
Proof. intros Hne. unfold hold_to_chan. destruct (lookup t (p_hold p)); pcbn; rewrite ?lookup_aset_other by exact Hne; reflexivity. Qed.
Lemma chan_c2h_other n t x p : x <> n -> lookup x (p_chan (bump (chan_to_hold n t p))) = lookup x (p_chan p).
Proof. intros Hne. unfold chan_to_hold. destruct (lookup n (p_chan p)); pcbn; rewrite ?lookup_remove_other by exact Hne; reflexivity. Qed.

Lemma cons_consume t p : has_hold p t -> length (p_cons (bump (consume t p))) = S (length (p_cons p)).
Proof. intros (tk & H). unfold consume. rewrite H. reflexivity. Qed.

Lemma flag_update2 (f : cpc -> bool) (P P' : tid -> Prop) t p p' u q0 q thr :
  lookup t thr = Some p -> lookup u thr = Some q0 -> u <> t ->
  (forall t0, lookup t0 (pm f thr) = Some true -> P t0) ->
  (forall t0, t0 <> t -> t0 <> u -> P t0 -> P' t0) ->
  (f p' = true -> P' t) -> (f q = true -> P' u) ->
  forall t0, lookup t0 (pm f (update u q (update t p' thr))) = Some true -> P' t0.
Proof.
  intros Hl Hu Hne Hold Hfr Hn1 Hn2 t0 X. rewrite !pm_update in X.
  pose proof (lookup_pm_some f _ _ _ Hl) as Hlm. pose proof (lookup_pm_some f _ _ _ Hu) as Hum.
  destruct (Nat.eq_dec t0 u) as [->|Hn0].
  - rewrite (lookup_update_same _ u (f q) _ (f q0)) in X by (rewrite lookup_update_other by exact Hne; exact Hum).
    injection X as X. apply Hn2, X.
  - rewrite lookup_update_other in X by exact Hn0. destruct (Nat.eq_dec t0 t) as [->|Hn1'].
    + rewrite (lookup_update_same _ _ _ _ _ Hlm) in X. injection X as X. apply Hn1, X.
    + rewrite lookup_update_other in X by exact Hn1'. apply Hfr; try assumption. apply Hold, X.
Qed.

Lemma flag_rm_update (f : cpc -> bool) (P P' : tid -> Prop) t u q0 q thr :
  NoDup (tids thr) -> lookup u thr = Some q0 -> u <> t ->
  (forall t0, lookup t0 (pm f thr) = Some true -> P t0) ->
  (forall t0, t0 <> t -> t0 <> u -> P t0 -> P' t0) ->
  (f q = true -> P' u) ->
  forall t0, lookup t0 (pm f (update u q (remove t thr))) = Some true -> P' t0.
Proof.
  intros Hnd Hu Hne Hold Hfr Hn2 t0 X. rewrite pm_update, pm_remove in X.
  pose proof (lookup_pm_some f _ _ _ Hu) as Hum.
  destruct (Nat.eq_dec t0 u) as [->|Hn0].
  - rewrite (lookup_update_same _ u (f q) _ (f q0)) in X by (rewrite lookup_remove_other by exact Hne; exact Hum).
    injection X as X. apply Hn2, X.
  - rewrite lookup_update_other in X by exact Hn0. destruct (Nat.eq_dec t0 t) as [->|Hn1'].
    + rewrite lookup_remove_same in X by (rewrite tids_pm; exact Hnd). discriminate.
    + rewrite lookup_remove_other in X by exact Hn1'. apply Hfr; try assumption. apply Hold, X.
Qed.

Ltac rw_pcall := rewrite ?pcall_bump, ?pcall_mint, ?pcall_h2c, ?pcall_h2h, ?pcall_c2h, ?pcall_drop, ?pcall_consume.

Lemma KI_step c pr e c' obs : Full c -> KI c pr -> cond_exec1 c e = Some (c', obs) -> KI c' (observe_p pr c e).
Proof.
  intros F [K1 K2 K3 K4] H. pose proof (i_nodup c (f_inv c F)) as Hnd.
  destruct e as [t op|t o|t].
  - (* a call starts *)
    unfold cond_exec1 in H. destruct (lookup t (c_thr c)) eqn:Hl; [discriminate|].
    assert (Hcall_fr : forall t0 v, t0 <> t -> has_call pr t0 ->
                       has_call (bump (set_pcall (aset t v (p_call pr)) pr)) t0).
    { intros t0 v Hne (k & op' & X & Y). exists k, op'. pcbn. rewrite lookup_aset_other by exact Hne. auto. }
    destruct op; try (destruct (c_L c) as [hh|]; try discriminate; try (destruct (Nat.eqb hh t) eqn:Eh; try discriminate));
      injection H as <- <-; unfold observe_p; constructor; scfg; try exact K3; try exact K4.
    all: try (eapply flag_spawn; [exact Hl|exact K2|auto|cbn; intros XX; discriminate XX]).
    all: try (eapply flag_spawn; [exact Hl|exact K1|intros t0 Hne X; apply Hcall_fr; assumption|
              cbn; intros XX; first [discriminate XX | eexists _, _; pcbn; rewrite lookup_aset_same; split; reflexivity]]).
    all: try exact K2.
    intros t0 X. apply Hcall_fr; [|apply K1, X]. intros ->. rewrite lookup_pm, Hl in X. discriminate.
  - (* a statement *)
    pose proof H as H'. apply exec1_step_inv in H. destruct H as (p & so & Hl & Hs & -> & _).
    pose proof (lookup_pm_some holds_tok _ _ _ Hl) as Hlh. pose proof (lookup_pm_some notif _ _ _ Hl) as Hln.
    pose proof (n_tok_nd _ _ _ _ _ _ _ (f_nodes c F)) as Hndt.
    unfold observe_p. rewrite Hl.
    destruct p; inv_step Hs; dctx; cbv beta iota; cbn [holds_tok notif in_wait negb] in Hlh, Hln.
    all: try match goal with Hf : find_parked ?n _ = Some ?u |- _ =>
           pose proof (find_parked_lookup _ _ _ Hnd Hf) as Hu;
           assert (Hut : u <> t) by (intros ->; rewrite Hl in Hu; discriminate) end.
    all: constructor; scfg.
    (* the call table *)
    all: try (match goal with |- forall _, _ -> has_call _ _ => idtac end;
              unfold has_call; rw_pcall; try wake_same notif Hl Hnd;
              first [ rewrite (pm_update_same notif _ _ _ _ Hl) by reflexivity; exact K1
                    | eapply flag_remove; [exact Hnd|exact K1|auto] ]).
    (* the log of consumptions *)
    all: try (match goal with |- Z.of_nat _ = _ => idtac end;
              cbn [p_cons bump]; rewrite ?pcons_mint, ?pcons_h2c, ?pcons_h2h, ?pcons_c2h, ?pcons_drop;
              first [ exact K4
                    | rewrite cons_consume by (apply K2; exact Hlh); lia ]).
    (* the channel table *)
    all: try (match goal with |- forall _, In _ _ -> exists _, _ => idtac end;
              first [ exact K3
                    | cbn [p_chan bump]; rewrite ?pchan_mint, ?pchan_h2h, ?pchan_drop, ?pchan_consume; exact K3
                    | let x := fresh "x" in let Hx := fresh "Hx" in
                      intros x [<-|Hx];
                      [ apply chan_h2c_new, K2; exact Hlh
                      | rewrite chan_h2c_other;
                        [apply K3, Hx
                        |intros ->; match goal with E : mem_nat _ _ = false |- _ => apply mem_nat_notin in E; exact (E Hx) end] ]
                    | let x := fresh "x" in let Hx := fresh "Hx" in
                      intros x Hx; rewrite chan_c2h_other;
                      [apply K3; eapply in_remove_node, Hx
                      |intros ->; exact (notin_remove_node _ _ Hndt Hx)] ]).
    (* what threads hold *)
    all: try (match goal with |- forall _, _ -> has_hold (bump ?q) _ => is_var q end;
              first [ rewrite (pm_update_same holds_tok _ _ _ _ Hl) by reflexivity; exact K2
                    | eapply flag_update; [exact Hl|exact K2|auto|cbn; intros XX; discriminate XX]
                    | eapply flag_remove; [exact Hnd|exact K2|auto] ]).
    all: try match goal with E : mem_nat _ _ = true |- _ => apply mem_nat_in in E end.
    all: try match goal with E : andb _ _ = true |- _ => apply andb_prop in E; destruct E as [E _]; apply mem_nat_in in E end.
    all: lazymatch goal with
         | |- forall _, _ -> has_hold (bump (mint _ _)) _ =>
           eapply flag_update; [exact Hl|exact K2|intros tt Hne; apply keep_mint; exact Hne|intros _; apply new_mint, K1; exact Hln]
         | |- forall _, _ -> has_hold (bump (drop_hold _ _)) _ =>
           eapply flag_update; [exact Hl|exact K2|intros tt Hne; apply keep_drop; exact Hne|cbn; intros XX; discriminate XX]
         | |- forall _, _ -> has_hold (bump (chan_to_hold _ _ _)) _ =>
           eapply flag_update; [exact Hl|exact K2|intros tt Hne; apply keep_c2h; exact Hne|intros _; apply new_c2h, K3; assumption]
         | |- forall _, lookup _ (pm _ (remove _ _)) = _ -> has_hold (bump (consume _ _)) _ =>
           eapply flag_remove; [exact Hnd|exact K2|intros tt Hne; apply keep_consume; exact Hne]
         | |- forall _, lookup _ (pm _ (remove _ _)) = _ -> has_hold (bump (hold_to_chan _ _ _)) _ =>
           eapply flag_remove; [exact Hnd|exact K2|intros tt Hne; apply keep_h2c; exact Hne]
         | |- forall _, lookup _ (pm _ (update _ _ (remove _ _))) = _ -> has_hold (bump (hold_to_hold _ _ _)) _ =>
           eapply flag_rm_update; [exact Hnd|exact Hu|exact Hut|exact K2|intros tt Hne _; apply keep_h2h; exact Hne
                                  |intros _; apply new_h2h, K2; exact Hlh]
         | |- forall _, lookup _ (pm _ (update _ _ (update _ _ _))) = _ -> has_hold (bump (hold_to_hold _ _ _)) _ =>
           eapply flag_update2; [exact Hl|exact Hu|exact Hut|exact K2|intros tt Hne _; apply keep_h2h; exact Hne
                                |cbn; intros XX; discriminate XX|intros _; apply new_h2h, K2; exact Hlh]
         | |- forall _, _ -> has_hold (bump (hold_to_chan _ _ _)) _ =>
           eapply flag_update; [exact Hl|exact K2|intros tt Hne; apply keep_h2c; exact Hne|cbn; intros XX; discriminate XX]
         | _ => idtac
         end.
    all: rewrite cons_consume by (apply K2; exact Hlh); lia.
  - (* a cancellation *)
    apply exec1_cancel_inv in H. destruct H as (p & Hl & _ & _ & [(n & -> & ->)|[_ ->]]); unfold observe_p; constructor; scfg;
      try exact K3; try exact K4; try exact K1; try exact K2.
    + rewrite (pm_update_same notif _ _ _ _ Hl) by reflexivity. exact K1.
    + rewrite (pm_update_same holds_tok _ _ _ _ Hl) by reflexivity. exact K2.
Qed.

(* ---------- the log has exactly one entry per nil return ---------- *)
Definition is_nilret_obs (obs : list (tid * cobs)) : bool :=
  existsb (fun x => match snd x with ORet RNil => true | _ => false end) obs.

(* indices (from i on) of the steps of the execution at which a Wait returns nil *)
Fixpoint nilrets (c : ccfg) (i : nat) (evs : list cev) : list nat :=
  match evs with
  | [] => []
  | e :: r => match cond_exec1 c e with
              | Some (c', obs) => (if is_nilret_obs obs then [i] else []) ++ nilrets c' (S i) r
              | None => []
              end
  end.

Lemma pidx_observe pr c e : p_idx (observe_p pr c e) = S (p_idx pr).
Proof.
  unfold observe_p. destruct e as [t op|t o|t]; try reflexivity.
  destruct (lookup t (c_thr c)) as [p|]; [|reflexivity].
  destruct p; try reflexivity; cbn [p_idx bump];
    repeat match goal with |- context [match ?x with _ => _ end] => destruct x end;
    unfold mint, hold_to_chan, hold_to_hold, chan_to_hold, drop_hold, consume;
    repeat match goal with |- context [match ?x with _ => _ end] => destruct x end; reflexivity.
Qed.

Lemma log_step c pr e c' obs :
  KI c pr -> cond_exec1 c e = Some (c', obs) ->
  map fst (p_cons (observe_p pr c e)) = (if is_nilret_obs obs then [p_idx pr] else []) ++ map fst (p_cons pr).
Proof.
  intros [K1 K2 K3 K4] H. destruct e as [t op|t o|t].
  - unfold cond_exec1 in H. destruct (lookup t (c_thr c)); [discriminate|].
    destruct op; try (destruct (c_L c) as [hh|]; try discriminate; try (destruct (Nat.eqb hh t); try discriminate));
      injection H as <- <-; reflexivity.
  - apply exec1_step_inv in H. destruct H as (p & so & Hl & Hs & -> & ->).
    pose proof (lookup_pm_some holds_tok _ _ _ Hl) as Hlh.
    unfold observe_p. rewrite Hl.
    destruct p; inv_step Hs; dctx; cbv beta iota; cbn [p_cons bump];
      rewrite ?pcons_mint, ?pcons_h2c, ?pcons_h2h, ?pcons_c2h, ?pcons_drop; try reflexivity.
    destruct (K2 t Hlh) as (tk & Htk). unfold consume. rewrite Htk. reflexivity.
  - unfold cond_exec1 in H. destruct (lookup t (c_thr c)) as [p|]; [|discriminate].
    destruct (in_wait p && negb (mem_nat t (c_canc c))); [|discriminate].
    destruct p; injection H as <- <-; reflexivity.
Qed.

Lemma runp_link copied evs : forall evs0 c0 pr c pr',
  cond_run copied evs0 = Some c0 -> KI c0 pr -> runp c0 pr evs = Some (c, pr') ->
  KI c pr' /\ map fst (p_cons pr') = rev (nilrets c0 (p_idx pr) evs) ++ map fst (p_cons pr).
Proof.
  induction evs as [|e r IH]; intros evs0 c0 pr c pr' Hr Hk H; cbn in H.
  - injection H as <- <-. split; [exact Hk|reflexivity].
  - cbn [nilrets]. destruct (cond_exec1 c0 e) as [[c1 obs]|] eqn:E; [|discriminate].
    assert (Hs : cond_step c0 e = Some c1) by (unfold cond_step; rewrite E; reflexivity).
    assert (Hr1 : cond_run copied (evs0 ++ [e]) = Some c1).
    { unfold cond_run in *. rewrite exec_app, Hr. cbn. rewrite Hs. reflexivity. }
    pose proof (KI_step _ _ _ _ _ (full_reachable _ _ _ Hr) Hk E) as Hk1.
    destruct (IH _ _ _ _ _ Hr1 Hk1 H) as [A B]. split; [exact A|].
    rewrite B, pidx_observe, (log_step _ _ _ _ _ Hk E), rev_app_distr, <- app_assoc.
    f_equal. destruct (is_nilret_obs obs); reflexivity.
Qed.

(* the full statement *)
Lemma provenance_full_lemma copied evs c pr :
  runp (cond_init copied) p0 evs = Some (c, pr) ->
  map fst (p_cons pr) = rev (nilrets (cond_init copied) 0 evs) /\
  Z.of_nat (length (p_cons pr)) = g_nil c /\
  NoDup (map (fun x => tm (snd x)) (p_cons pr)) /\
  forall r m k op, In (r, (m, k, op)) (p_cons pr) ->
    (k < m)%nat /\ (m < r)%nat /\ is_notify op = true /\
    exists t' o t o', nth_error evs k = Some (ECall t' op) /\ nth_error evs m = Some (EStep t' o) /\
                      nth_error evs r = Some (EStep t o').
Proof.
  intros H. destruct (runp_link copied evs [] _ _ _ _ eq_refl (KI_init copied) H) as [K L].
  destruct (provenance_lemma _ _ _ _ H) as [A B].
  split; [cbn in L; rewrite app_nil_r in L; exact L|]. split; [apply (k_cons _ _ K)|]. split; assumption.
Qed.

(* a thread at a token-holding program counter holds a token in the observer's table; tokens in channels are in
   the observer's channel table *)
Lemma link_lemma copied evs c pr :
  runp (cond_init copied) p0 evs = Some (c, pr) ->
  (forall t p, lookup t (c_thr c) = Some p -> holds_tok p = true -> exists tk, lookup t (p_hold pr) = Some tk) /\
  (forall n, In n (c_tok c) -> exists tk, lookup n (p_chan pr) = Some tk).
Proof.
  intros H. destruct (runp_link copied evs [] _ _ _ _ eq_refl (KI_init copied) H) as [K _]. split.
  - intros t p Hl Hp. apply (k_hold _ _ K). rewrite lookup_pm, Hl. cbn. rewrite Hp. reflexivity.
  - apply (k_chan _ _ K).
Qed.
