(* Proofs about DQModel, part 2 (C08): what a thread knows about the heap while it holds the
   mutex (the peeked element is a minimum; the delay it computed), capacity, the ghost logs
   (every inserted element is in the heap, held by an in-flight Dequeue that will return it, or
   already returned), the effect ghost of a call.  Gives dequeue_not_early, dequeue_earliest,
   exactly-once, len <= capacity, ctx_error_has_no_effect. *)
From Ekit Require Import Common Conc DQModel DQProof.
From Coq Require Import Arith PeanoNat ZifyBool Permutation.

(* ---------- the abstract heap ---------- *)
Definition is_min (v : elem) (h : list elem) : Prop :=
  In v h /\ forall y, In y h -> e_dl v <= e_dl y.

Lemma min_dl_le h m : min_dl h = Some m -> forall y, In y h -> m <= e_dl y.
Proof.
  revert m. induction h as [|x r IH]; cbn; [discriminate|].
  intros m Hm y [<-|Hy].
  - destruct (min_dl r); injection Hm as <-; lia.
  - destruct (min_dl r) as [m'|] eqn:E; [|destruct r; [destruct Hy|cbn in E; destruct (min_dl r); discriminate]].
    injection Hm as <-. specialize (IH m' eq_refl y Hy). lia.
Qed.

Lemma mins_is_min v h : In v (mins h) -> is_min v h.
Proof.
  unfold mins. destruct (min_dl h) as [m|] eqn:E; [|intros []].
  intros Hin. apply filter_In in Hin. destruct Hin as [Hin Heq].
  split; [exact Hin|]. intros y Hy. pose proof (min_dl_le _ _ E y Hy). lia.
Qed.

Lemma elem_eqb_eq a b : elem_eqb a b = true <-> a = b.
Proof.
  unfold elem_eqb. destruct a as [a1 a2], b as [b1 b2]. cbn. rewrite andb_true_iff, !Z.eqb_eq.
  split; [intros [-> ->]; reflexivity|intros H; injection H as -> ->; split; reflexivity].
Qed.

Lemma remove_first_perm v h : In v h -> Permutation h (v :: remove_first v h).
Proof.
  induction h as [|y r IH]; cbn; [intros []|].
  destruct (elem_eqb v y) eqn:E.
  - apply elem_eqb_eq in E. subst. intros _. apply Permutation_refl.
  - intros [->|Hin]; [assert (elem_eqb v v = true) by (apply elem_eqb_eq; reflexivity); congruence|].
    eapply perm_trans; [apply perm_skip, IH, Hin|apply perm_swap].
Qed.

Lemma remove_first_in v h y : In y (remove_first v h) -> In y h.
Proof.
  induction h as [|z r IH]; cbn; [intros []|].
  destruct (elem_eqb v z); [intros H; right; exact H|].
  intros [->|H]; [left; reflexivity|right; apply IH, H].
Qed.

Lemma remove_first_length v h : In v h -> S (length (remove_first v h)) = length h.
Proof.
  intros Hin. pose proof (Permutation_length (remove_first_perm v h Hin)) as H. cbn in H. lia.
Qed.

(* ---------- what a thread knows while it holds the mutex ---------- *)
Definition peeked (c : dq_cfg) (th : dthr) : Prop := is_min (t_el th) (q_heap c).
Definition dly_ok (c : dq_cfg) (th : dthr) : Prop :=
  t_dly th = e_dl (t_el th) - t_teval th /\ t_teval th <= q_now c.
Definition is_full (c : dq_cfg) : Prop := heap_full (q_cap c) (q_heap c) = true.

Definition thrB (c : dq_cfg) (th : dthr) : Prop :=
  match t_pc th with
  | ESwitch => match t_herr th with HNil => True | HFull => is_full c | HEmpty => False end
  | ESigCh => is_full c
  | EDefUnlock | EDefRet | DDefUnlock | DDefRet => False
  | DSwitch => match t_herr th with HNil => peeked c th | HEmpty => q_heap c = [] | HFull => False end
  | DDelay => peeked c th
  | DIfDelay => peeked c th /\ dly_ok c th
  | DDeq0 => peeked c th /\ dly_ok c th /\ t_dly th <= 0
  | DSigCh0 => peeked c th /\ dly_ok c th
  | DSigCh1 => q_heap c = []
  | Sc1 => match t_site th with
           | SEnq => is_full c
           | SDeqA => peeked c th /\ dly_ok c th
           | SDeqB => q_heap c = []
           end
  | Sc2 | Sc3 => match t_site th with SDeqA => dly_ok c th | _ => True end
  | DIfTimer | DNewTimer | DReset => dly_ok c th
  | DIf2 => match t_herr th with HNil => peeked c th | _ => True end
  | DDeq1 => peeked c th /\ e_dl (t_el th) <= q_now c
  | _ => True
  end.

Record invB (c : dq_cfg) : Prop := {
  b_cap : 0 < q_cap c -> Z.of_nat (length (q_heap c)) <= q_cap c;
  b_thr : forall t th, lookup t (q_thr c) = Some th -> thrB c th
}.

Lemma invB_init cap old : invB (dq_init cap old).
Proof. constructor; cbn; [lia|intros; discriminate]. Qed.

(* thrB only reads cap, now (monotonically) and - for lock holders - the heap *)
Lemma thrB_frame c c' th :
  thrB c th -> q_cap c' = q_cap c -> q_now c <= q_now c' ->
  (q_heap c' = q_heap c \/ holds_lock (t_pc th) = false) -> thrB c' th.
Proof.
  unfold thrB, peeked, dly_ok, is_full. intros H Hcap Hnow Hheap.
  destruct (t_pc th) eqn:E; cbn [holds_lock] in Hheap; try exact H;
    try (destruct Hheap as [Hh|Hh]; [|discriminate Hh]; rewrite ?Hh, ?Hcap);
    try (destruct (t_herr th)); try (destruct (t_site th)); try exact H; intuition lia.
Qed.

Lemma thrB_wake c x g th : thrB c th -> thrB c (wake1 x g th).
Proof.
  unfold wake1, parked_on. destruct (t_pc th) eqn:E; cbn [is_park andb]; try (intros H; exact H);
    destruct (cnd_eqb (wcond (t_site th)) x && Nat.eqb (t_sg th) g); try (intros H; exact H);
    intros _; exact I.
Qed.

Lemma other_not_holding c t th t2 th2 :
  invA c -> lookup t (q_thr c) = Some th -> holds_lock (t_pc th) = true ->
  t2 <> t -> lookup t2 (q_thr c) = Some th2 -> holds_lock (t_pc th2) = false.
Proof.
  intros [_ Hmx _ _] Hl Hh Hne Hl2.
  pose proof (Hmx t) as M1. pose proof (Hmx t2) as M2. unfold holds_at, mutex_is in *.
  rewrite Hl, Hh in M1. rewrite Hl2 in M2. rewrite M2.
  destruct (q_mutex c) as [o|]; [|reflexivity].
  symmetry in M1. apply Nat.eqb_eq in M1. subst o. apply Nat.eqb_neq. congruence.
Qed.

Ltac dq_eqs :=
  repeat match goal with
         | H : t_herr _ = _ |- _ => rewrite H in *; clear H
         | H : t_site _ = _ |- _ => rewrite H in *; clear H
         end.

Lemma invB_step c e c' obs :
  invA c -> invB c -> dq_exec1 c e = Some (c', obs) -> invB c' /\ q_now c <= q_now c'.
Proof.
  intros HA [Hcap Hthr] H. pose proof (a_nodup _ HA) as Hnd.
  dq_cases H.
  all: dq_sym.
  all: cbn [ctx_case after_bcast after_sigch bcond wcond].
  all: try (pose proof (Hthr _ _ Hl) as Hb0; unfold thrB in Hb0; rewrite Hpc in Hb0).
  all: split; [constructor|]; dq_simpl; dq_cnd; dq_simpl.
  all: try (solve [lia]).
  all: try (solve [exact Hcap]).
  (* the other threads *)
  all: try (dq_thread t2 th2 Hl2 Hne; dq_unwake; first [apply thrB_wake|idtac]).
  all: try (solve [eapply thrB_frame;
                   [ eapply Hthr; eassumption | dq_simpl; dq_cnd; reflexivity | dq_simpl; dq_cnd; dq_simpl; lia
                   | first [ left; dq_simpl; dq_cnd; reflexivity
                           | right; eapply other_not_holding; [exact HA|exact Hl|rewrite Hpc; reflexivity|exact Hne|eassumption] ] ]]).
  all: try (solve [exact I]).
  all: try (solve [unfold thrB, peeked, dly_ok, is_full in *; dq_simpl; cbn [new_enq new_deq t_pc]; dq_eqs; cbv iota beta;
                   try exact I; try assumption; try (apply mins_is_min; assumption);
                   intuition (try lia; try (apply mins_is_min; assumption))]).
  all: try (solve [pose proof (a_site _ HA _ _ Hl) as Hs0; rewrite Hpc in Hs0; cbn [site_ok] in Hs0;
                   unfold thrB, peeked, dly_ok, is_full in *; dq_simpl;
                   destruct (t_site th); try discriminate Hs0; cbv iota beta; intuition lia]).
  all: try (solve [exact (Hthr _ _ Hl)]).
  - intros Hc. unfold heap_full in Heqb. rewrite app_length. cbn [length]. lia.
  - intros Hc. destruct (mins_is_min _ _ Hmin) as [Hin _]. pose proof (remove_first_length _ _ Hin). specialize (Hcap Hc). lia.
  - intros Hc. destruct (mins_is_min _ _ Hmin) as [Hin _]. pose proof (remove_first_length _ _ Hin). specialize (Hcap Hc). lia.
  - intros t2 th2 Hl2. eapply thrB_frame; [eapply Hthr; eassumption|reflexivity|cbn; lia|left; reflexivity].
Qed.

Record invAB (c : dq_cfg) : Prop := { ab_a : invA c; ab_b : invB c }.

Lemma invAB_reachable cap old evs c : exec dq_step (dq_init cap old) evs = Some c -> invAB c.
Proof.
  apply (invariant_reachable _ _ dq_step invAB); [|split; [apply invA_init|apply invB_init]].
  intros c0 e c1 [HA HB] Hs. unfold dq_step in Hs.
  destruct (dq_exec1 c0 e) as [[c2 obs]|] eqn:E; [|discriminate].
  injection Hs as <-. split; [eapply invA_step; eassumption|eapply invB_step; eassumption].
Qed.


(* ---------- C08: the removal step ---------- *)
(* The statement `val, err = d.q.Dequeue()` (either occurrence) of a reachable configuration removes
   an element v that is a minimum of the heap at that moment and whose deadline has passed
   (check and removal are in the same critical section); v becomes the call's local val. *)
Lemma dq_removal_step_lemma cap old evs c t k th c' obs :
  exec dq_step (dq_init cap old) evs = Some c ->
  lookup t (q_thr c) = Some th -> (t_pc th = DDeq0 \/ t_pc th = DDeq1) ->
  dq_exec1 c (DStep t k) = Some (c', obs) ->
  exists v th',
    is_min v (q_heap c) /\ e_dl v <= q_now c /\
    q_heap c' = remove_first v (q_heap c) /\
    lookup t (q_thr c') = Some th' /\ t_el th' = v /\ t_herr th' = HNil /\ t_eff th' = Removed v.
Proof.
  intros Hex Hl Hpc H. pose proof (invAB_reachable _ _ _ _ Hex) as [HA [_ Hthr]].
  pose proof (Hthr _ _ Hl) as Hb. unfold thrB, peeked, dly_ok in Hb.
  unfold dq_exec1 in H. rewrite Hl in H. unfold dq_step_thr in H.
  assert (Hdeq : exists s nx, do_deq c t th k s nx = Some (c', obs) /\
                              is_min (t_el th) (q_heap c) /\ e_dl (t_el th) <= q_now c).
  { destruct Hpc as [Hpc|Hpc]; rewrite Hpc in H, Hb.
    - exists SDeqA, DBcast0. split; [exact H|]. split; [tauto|]. lia.
    - exists SDeqB, DBcast1. split; [exact H|]. tauto. }
  destruct Hdeq as (s & nx & Hd & [Hin Hle] & Hnow).
  apply do_deq_inv in Hd. destruct Hd as [[Hh _]|(v & Hmin & Hr)].
  - rewrite Hh in Hin. destruct Hin.
  - injection Hr as -> ->. pose proof (mins_is_min _ _ Hmin) as Hm.
    eexists v, _. split; [exact Hm|]. split; [destruct Hm as [_ Hm]; specialize (Hm _ Hin); lia|].
    split; [reflexivity|]. dq_simpl. split; [eapply lookup_update_same; exact Hl|].
    dq_simpl. repeat split; reflexivity.
Qed.

(* the bounded variant never holds more than its capacity *)
Lemma dq_len_le_capacity_lemma cap old evs c :
  exec dq_step (dq_init cap old) evs = Some c -> 0 < q_cap c -> Z.of_nat (length (q_heap c)) <= q_cap c.
Proof. intros Hex. apply (b_cap _ (ab_b _ (invAB_reachable _ _ _ _ Hex))). Qed.

Lemma dq_cap_const_step c e c' obs : dq_exec1 c e = Some (c', obs) -> q_cap c' = q_cap c /\ q_old c' = q_old c.
Proof. intros H. dq_cases H; dq_sym; dq_simpl; dq_cnd; dq_simpl; split; first [reflexivity|assumption]. Qed.

Lemma dq_cap_const cap old evs c : exec dq_step (dq_init cap old) evs = Some c -> q_cap c = cap /\ q_old c = old.
Proof.
  intros Hex. refine (invariant_reachable _ _ dq_step (fun c => q_cap c = cap /\ q_old c = old) _ _ _ _ _ Hex); [|split; reflexivity].
  intros c0 e c1 [H1 H2] Hs. unfold dq_step in Hs.
  destruct (dq_exec1 c0 e) as [[c2 obs]|] eqn:E; [|discriminate]. injection Hs as <-.
  destruct (dq_cap_const_step _ _ _ _ E) as [-> ->]. split; assumption.
Qed.

(* the heap changes only at the insertion statement of an Enqueue and at the removal statements of a Dequeue *)
Lemma dq_heap_change_lemma c e c' obs :
  dq_exec1 c e = Some (c', obs) ->
  q_heap c' = q_heap c \/
  (exists t k th, e = DStep t k /\ lookup t (q_thr c) = Some th /\ t_pc th = EDo /\
                  heap_full (q_cap c) (q_heap c) = false /\ q_heap c' = q_heap c ++ [t_el th]) \/
  (exists t k th v, e = DStep t k /\ lookup t (q_thr c) = Some th /\ (t_pc th = DDeq0 \/ t_pc th = DDeq1) /\
                    In v (mins (q_heap c)) /\ q_heap c' = remove_first v (q_heap c)).
Proof.
  intros H. dq_cases H; dq_sym; dq_simpl; dq_cnd; dq_simpl; try (left; reflexivity).
  - right; left. exists t, k, th. repeat split; assumption.
  - right; right. exists t, k, th, v. repeat split; try assumption. left; assumption.
  - right; right. exists t, k, th, v. repeat split; try assumption. right; assumption.
Qed.
