(* Proofs about LBQModel (C07, C09), part 4: the history.  The marked steps
   (`c.linkedlist.Append(t)`, `c.linkedlist.Delete(0)`, the reads of Len/AsSlice), replayed
   through the bounded blocking FIFO specification, are always enabled there, carry the
   specification's results and produce the list the queue holds; every call consists of
   Call . Lin . Ret with the marked result, or Call . Ret(context error) with no marked step.
   Then: the combined invariant, reachability, and the theorems of C07 and C09. *)
From Ekit Require Import Common Conc LBQModel LBQProof LBQProof2 LBQProof3.
From Coq Require Import ZifyBool Arith PeanoNat.

Lemma op_eqb_refl o : op_eqb o o = true.
Proof. destruct o; cbn; try reflexivity. apply Z.eqb_refl. Qed.

Lemma zlist_eqb_refl l : zlist_eqb l l = true.
Proof. induction l as [|x r IH]; cbn; [reflexivity|]. rewrite Z.eqb_refl, IH. reflexivity. Qed.

Lemma zlist_eqb_eq a : forall b, zlist_eqb a b = true -> a = b.
Proof.
  induction a as [|x r IH]; intros [|y s]; cbn; try discriminate; [reflexivity|].
  intros H. apply andb_true_iff in H. destruct H as [H1 H2].
  apply Z.eqb_eq in H1. rewrite (IH _ H2), H1. reflexivity.
Qed.

Lemma res_eqb_refl r : res_eqb r r = true.
Proof. destruct r; cbn; try reflexivity; try apply Z.eqb_refl. apply zlist_eqb_refl. Qed.

Lemma res_eqb_eq a b : res_eqb a b = true -> a = b.
Proof.
  destruct a, b; cbn; try discriminate; try reflexivity; intros H.
  - apply Z.eqb_eq in H. congruence.
  - apply Z.eqb_eq in H. congruence.
  - apply zlist_eqb_eq in H. congruence.
Qed.

Record invI (c : lbq_cfg) : Prop := {
  h_lin : lin_run (q_max c) (q_hist c) = Some (q_items c);
  h_phase : forall t, phase t (q_hist c) = Some (cur_phase c t)
}.

Lemma invI_init m : invI (lbq_init m).
Proof. constructor; reflexivity. Qed.

Lemma phase_of_wake1 k g l : phase_of (wake1 k g l) = phase_of l.
Proof.
  unfold phase_of. rewrite wake1_op, wake1_res.
  destruct (wake1_pc k g l) as [[_ [Hp ->]]|[_ ->]]; [rewrite Hp|]; reflexivity.
Qed.

Lemma invI_step c e c' obs :
  inv1 c -> invD c -> invF c -> invI c -> lbq_exec1 c e = Some (c', obs) -> invI c'.
Proof.
  intros I D F [H1 H2] H. pose proof (i_nodup c I) as Hnd.
  step_cases H.
  all: try solve [match goal with Hs : lookup ?t _ = Some ?l, Hp : l_pc ?l = BClose,
                                  Hm : mem _ _ = true |- _ =>
         exfalso; destruct (f_pend c F _ _ Hs) as [_ Hm']; [rewrite Hp; reflexivity|congruence] end].
  all: try rewrite (unlock_owned c t) by (eapply (i_cs c I); [exact Hl | rewrite Hpc; reflexivity]).
  all: try match goal with |- context [runlock] =>
         unfold runlock; destruct (q_readers c) eqn:Er end.
  all: try match goal with |- context [set_cur _ (bcond ?o)] => destruct (bcond o) eqn:Ek end.
  all: try match goal with |- context [add_closed _ (bcond ?o)] => destruct (bcond o) eqn:Ek end.
  all: constructor.
  all: cbn [q_hist q_max q_items q_thr set_thr set_items set_wlock set_readers set_bad add_hist set_cur add_closed].
  all: try solve [cbn [lin_run]; rewrite H1; reflexivity].
  all: try solve [exact H1].
  all: try (intros t2; unfold cur_phase;
            cbn [q_hist q_max q_items q_thr set_thr set_items set_wlock set_readers set_bad add_hist set_cur add_closed];
            destruct (Nat.eq_dec t2 t) as [->|Hne];
            [ rewrite ?lookup_wake_all, ?(lookup_update_same _ _ _ _ _ Hl), ?(lookup_remove_same _ _ Hnd);
              cbn [phase hev_tid]; rewrite ?Nat.eqb_refl, (H2 t); unfold cur_phase; rewrite ?Hl;
              rewrite ?phase_of_wake1; unfold phase_of;
              cbn [l_op l_pc l_res l_old l_sig l_cancel set_pc set_sig set_old set_res set_cancel];
              rewrite ?Hpc; cbn [after_lin advance]; rewrite ?op_eqb_refl, ?res_eqb_refl, ?Hq;
              try reflexivity
            | rewrite ?lookup_wake_all, ?(lookup_update_other _ _ _ _ _ Hne), ?(lookup_remove_other _ _ _ Hne), ?lookup_spawn;
              cbn [phase hev_tid];
              replace (Nat.eqb t t2) with false by (symmetry; apply Nat.eqb_neq; congruence);
              replace (Nat.eqb t2 t) with false by (symmetry; apply Nat.eqb_neq; congruence);
              rewrite (H2 t2); unfold cur_phase; destruct (lookup t2 (q_thr c));
              rewrite ?phase_of_wake1; reflexivity ]).
  all: try solve [match goal with E : l_op ?l = _ |- _ => rewrite E; cbn; rewrite ?Z.eqb_refl, ?res_eqb_refl; reflexivity end].
  all: try (apply pc_eqb_eq in E0; rewrite E0; reflexivity).
  - rewrite lookup_spawn, Hl, Nat.eqb_refl. unfold phase_of. cbn. destruct o; reflexivity.
  - (* Append: enabled in the specification because the loop condition was false *)
    cbn [lin_run]. rewrite H1. cbn [lbq_spec].
    pose proof (d_act c D _ _ Hl Hpc) as Hf. rewrite E in Hf. unfold must_wait, qlen in Hf.
    pose proof (d_cap c D) as Hc. unfold qlen in Hc.
    destruct ((0 <? q_max c) && (q_max c <=? Z.of_nat (length (q_items c)))) eqn:Eb; [exfalso; lia|].
    reflexivity.
  - (* Delete(0) on the empty list: excluded *)
    exfalso. pose proof (d_act c D _ _ Hl Hpc) as Hf. rewrite E in Hf.
    unfold must_wait, qlen in Hf. rewrite E0 in Hf. discriminate.
  - cbn [lin_run]. rewrite H1. cbn. rewrite Z.eqb_refl. reflexivity.
  - cbn [lin_run]. rewrite H1. cbn. rewrite zlist_eqb_refl. reflexivity.
  - cbn [lin_run]. rewrite H1. cbn. unfold qlen. rewrite Z.eqb_refl. reflexivity.
  - cbn [lin_run]. rewrite H1. cbn. unfold qlen. rewrite Z.eqb_refl. reflexivity.
  - apply andb_true_iff in E. destruct E as [E Ec]. apply andb_true_iff in E. destruct E as [Eq Ep].
    apply pc_eqb_eq in Ep. rewrite Ep. reflexivity.
Qed.

(* ---------- the combined invariant of every reachable configuration ---------- *)
Record lbq_inv (c : lbq_cfg) : Prop := {
  v1 : inv1 c; vD : invD c; vF : invF c; vG : invG c; vI : invI c
}.

Lemma lbq_inv_init m : lbq_inv (lbq_init m).
Proof.
  constructor; [apply inv1_init|apply invD_init|apply invF_init|apply invG_init|apply invI_init].
Qed.

Lemma lbq_inv_step c e c' obs : lbq_inv c -> lbq_exec1 c e = Some (c', obs) -> lbq_inv c'.
Proof.
  intros [A B C D E] H. constructor.
  - eapply inv1_step; eassumption.
  - eapply invD_step; eassumption.
  - eapply invF_step; eassumption.
  - eapply invG_step; eassumption.
  - eapply invI_step; eassumption.
Qed.

Lemma q_max_step c e c' obs : lbq_exec1 c e = Some (c', obs) -> q_max c' = q_max c.
Proof.
  intros H. step_cases H.
  all: try match goal with |- context [unlock ?c] => unfold unlock; destruct (q_wlock c) end.
  all: try match goal with |- context [runlock ?c] => unfold runlock; destruct (q_readers c) end.
  all: cbn; rewrite ?q_max_set_cur, ?q_max_add_closed; reflexivity.
Qed.

Lemma lbq_reachable m evs c :
  exec lbq_step (lbq_init m) evs = Some c -> lbq_inv c /\ q_max c = m.
Proof.
  apply (invariant_reachable _ _ lbq_step (fun c => lbq_inv c /\ q_max c = m));
    [|split; [apply lbq_inv_init|reflexivity]].
  intros c0 e c1 [I M] H. unfold lbq_step in H.
  destruct (lbq_exec1 c0 e) as [[c2 obs]|] eqn:E; [|discriminate].
  injection H as <-. split; [eapply lbq_inv_step; eassumption|].
  rewrite (q_max_step _ _ _ _ E). exact M.
Qed.

(* ================= C07 ================= *)

(* 1. capacity *)
Theorem lbq_capacity_lemma m evs c :
  exec lbq_step (lbq_init m) evs = Some c ->
  0 <= qlen c /\ (0 < m -> qlen c <= m).
Proof.
  intros H. destruct (lbq_reachable _ _ _ H) as [I M]. split; [unfold qlen; lia|].
  intros Hm. rewrite <- M in *. apply (d_cap c (vD c I) Hm).
Qed.

(* 2. mutual exclusion *)
Theorem lbq_mutual_exclusion_lemma m evs c :
  exec lbq_step (lbq_init m) evs = Some c ->
  (forall t l, lookup t (q_thr c) = Some l -> in_cs (l_pc l) = true -> q_wlock c = Some t) /\
  (forall t1 l1 t2 l2, lookup t1 (q_thr c) = Some l1 -> lookup t2 (q_thr c) = Some l2 ->
      in_cs (l_pc l1) = true -> in_cs (l_pc l2) = true -> t1 = t2) /\
  (forall t l, lookup t (q_thr c) = Some l -> in_rcs (l_pc l) = true ->
      q_wlock c = None /\ (0 < q_readers c)%nat) /\
  (forall t, q_wlock c = Some t -> q_readers c = O /\
      exists l, lookup t (q_thr c) = Some l /\ in_cs (l_pc l) = true) /\
  q_bad c = false.
Proof.
  intros H. destruct (lbq_reachable _ _ _ H) as [I M]. pose proof (v1 c I) as I1.
  split; [apply (i_cs c I1)|]. split; [intros; eapply (cs_unique c); eassumption|].
  split; [|split; [|apply (f_bad c (vF c I))]].
  - intros t l Hl Hr.
    pose proof (count_pos_lookup rd t l _ Hl Hr) as Hpos. pose proof (i_readers c I1) as Hrd.
    assert (Hr0 : (0 < q_readers c)%nat) by lia. split; [|exact Hr0].
    destruct (q_wlock c) as [w|] eqn:Ew; [|reflexivity].
    assert (Hx : q_readers c = O) by (apply (i_excl c I1); congruence). lia.
  - intros t Hw. split; [apply (i_excl c I1); congruence|apply (i_owner c I1), Hw].
Qed.

(* the list is only changed by the thread that owns the mutex, at its marked step, and the
   change is the specification's *)
Theorem lbq_items_change_lemma m evs c e c' obs :
  exec lbq_step (lbq_init m) evs = Some c -> lbq_exec1 c e = Some (c', obs) ->
  (q_items c' = q_items c /\
   forall t o r, q_hist c' = HLin t o r :: q_hist c -> is_qop o = false) \/
  (exists t l r, e = QStep t /\ lookup t (q_thr c) = Some l /\ l_pc l = PAct /\ q_wlock c = Some t /\
                 q_hist c' = HLin t (l_op l) r :: q_hist c /\
                 lbq_spec m (l_op l) (q_items c) = Some (q_items c', r)).
Proof.
  intros Hr H. destruct (lbq_reachable _ _ _ Hr) as [I M].
  pose proof (v1 c I) as I1. pose proof (vD c I) as D.
  step_cases H.
  all: try rewrite (unlock_owned c t) by (eapply (i_cs c I1); [exact Hl | rewrite Hpc; reflexivity]).
  all: try match goal with |- context [runlock ?c] => unfold runlock; destruct (q_readers c) eqn:Er end.
  all: cbn [q_items q_hist set_thr set_items set_wlock set_readers set_bad add_hist];
       rewrite ?q_items_set_cur, ?q_items_add_closed, ?q_hist_set_cur, ?q_hist_add_closed.
  all: try solve [left; split; [reflexivity|];
                  intros t0 o0 r0 Hx;
                  first [discriminate Hx | (apply (f_equal (@length _)) in Hx; cbn in Hx; lia)]].
  - (* Append *)
    right. exists t, l, RNil. rewrite E. repeat split; try assumption.
    + apply (i_cs c I1 _ _ Hl). rewrite Hpc. reflexivity.
    + cbn [lbq_spec]. pose proof (d_act c D _ _ Hl Hpc) as Hf. rewrite E in Hf.
      unfold must_wait, qlen in Hf. pose proof (d_cap c D) as Hc. unfold qlen in Hc. rewrite M in *.
      destruct ((0 <? m) && (m <=? Z.of_nat (length (q_items c)))) eqn:Eb; [exfalso; lia|reflexivity].
  - exfalso. pose proof (d_act c D _ _ Hl Hpc) as Hf. rewrite E in Hf.
    unfold must_wait, qlen in Hf. rewrite E0 in Hf. discriminate.
  - right. exists t, l, (RVal z). rewrite E. repeat split; try assumption.
    apply (i_cs c I1 _ _ Hl). rewrite Hpc. reflexivity.
  - left. split; [reflexivity|]. intros t0 o0 r0 Hx. injection Hx as _ <- _. reflexivity.
Qed.

(* 3. linearizability, linearisation-point form *)
Theorem lbq_linearizable_lemma m evs c :
  exec lbq_step (lbq_init m) evs = Some c ->
  lin_run m (q_hist c) = Some (q_items c) /\
  forall t, phase t (q_hist c) = Some (cur_phase c t).
Proof.
  intros H. destruct (lbq_reachable _ _ _ H) as [I M]. destruct (vI c I) as [H1 H2].
  rewrite M in H1. auto.
Qed.

Lemma woken_obs_no_ret k g thr t r : ~ In (t, ORet r) (woken_obs k g thr).
Proof.
  induction thr as [|[t' l'] rest IH]; cbn; [tauto|].
  rewrite in_app_iff. intros [H|H]; [|tauto].
  destruct (woken k g l'); cbn in H; [destruct H as [H|[]]; discriminate|tauto].
Qed.

(* 4. a call that returns the context error: no marked step since its Call, the list, the lock,
   the readers, both conds untouched by the returning step, and the mutex is not held by it *)
Theorem lbq_ctx_error_has_no_effect_lemma m evs c e c' obs tr :
  exec lbq_step (lbq_init m) evs = Some c -> lbq_exec1 c e = Some (c', obs) ->
  In (tr, ORet RCtx) obs ->
  e = QStep tr /\
  (exists o, is_qop o = true /\ phase tr (q_hist c) = Some (PhCalled o)) /\
  q_hist c' = HRet tr RCtx :: q_hist c /\
  q_items c' = q_items c /\ q_wlock c' = q_wlock c /\ q_wlock c <> Some tr /\
  q_readers c' = q_readers c /\
  (forall k, cur c' k = cur c k) /\ (forall k, closed c' k = closed c k) /\
  lookup tr (q_thr c') = None.
Proof.
  intros Hr H Hin. destruct (lbq_reachable _ _ _ Hr) as [I M].
  pose proof (v1 c I) as I1. pose proof (vD c I) as D. pose proof (i_nodup c I1) as Hnd.
  destruct (vI c I) as [_ H2].
  step_cases H.
  all: try solve [exfalso; cbn in Hin; destruct Hin as [Hin|Hin];
                  [ discriminate Hin | first [contradiction | eapply woken_obs_no_ret; eassumption] ]].
  all: try solve [exfalso; cbn in Hin; contradiction].
  all: cbn in Hin; destruct Hin as [Hin|[]]; inversion Hin; subst.
  all: try solve [exfalso;
                  pose proof (d_res c D _ _ Hl) as Hres; rewrite Hpc in Hres;
                  first [ specialize (Hres eq_refl) | rewrite E in Hres; specialize (Hres eq_refl) ];
                  destruct (l_op l); destruct Hres; congruence].
  all: try solve [
    split; [reflexivity|]; split;
    [ exists (l_op l); split; [exact Hq|]; rewrite (H2 tr); unfold cur_phase; rewrite Hl; unfold phase_of;
      rewrite Hpc; reflexivity |];
    split; [reflexivity|]; split; [reflexivity|]; split; [reflexivity|]; split;
    [ intros Hw; destruct (i_owner c I1 _ Hw) as [l2 [H2' C2]]; rewrite Hl in H2'; injection H2' as <-;
      rewrite Hpc in C2; discriminate |];
    split; [reflexivity|]; split; [reflexivity|]; split; [reflexivity|];
    cbn; apply lookup_remove_same; exact Hnd ].
  exfalso. pose proof (d_res c D _ _ Hl) as Hres. rewrite Hpc in Hres. specialize (Hres eq_refl).
  destruct (l_op l); try discriminate Hq; [congruence|destruct Hres as [x Hx]; congruence].
Qed.

(* 5. exactly-once and FIFO: the values of the marked Enqueues, in order, are the values of the
   marked Dequeues, in order, followed by what is still in the queue *)
Lemma lin_run_enqs_deqs max h : forall q, lin_run max h = Some q -> lin_enqs h = lin_deqs h ++ q.
Proof.
  induction h as [|e h IH]; cbn [lin_run lin_enqs lin_deqs]; intros q Hq.
  - injection Hq as <-. reflexivity.
  - destruct (lin_run max h) as [q0|]; [|discriminate]. specialize (IH q0 eq_refl).
    destruct e as [t o|t o r|t r]; try (injection Hq as <-; exact IH).
    destruct (lbq_spec max o q0) as [[q' r']|] eqn:Es; [|discriminate].
    destruct (res_eqb r r') eqn:Er; [|discriminate]. injection Hq as <-.
    apply res_eqb_eq in Er. subst r'.
    destruct o as [v| | |]; cbn in Es.
    + destruct ((0 <? max) && (max <=? Z.of_nat (length q0))); [discriminate|].
      injection Es as <- <-. rewrite IH, app_assoc. reflexivity.
    + destruct q0 as [|x q1]; [discriminate|]. injection Es as <- <-.
      rewrite IH, <- app_assoc. reflexivity.
    + injection Es as <- <-. exact IH.
    + injection Es as <- <-. exact IH.
Qed.

Theorem lbq_exactly_once_fifo_lemma m evs c :
  exec lbq_step (lbq_init m) evs = Some c ->
  lin_enqs (q_hist c) = lin_deqs (q_hist c) ++ q_items c.
Proof.
  intros H. apply (lin_run_enqs_deqs m). apply (lbq_linearizable_lemma m evs c H).
Qed.

(* 6. Delete(0) is only reached with a non-empty list, its error path is dead; no call panics *)
Theorem lbq_delete0_never_fails_lemma m evs c :
  exec lbq_step (lbq_init m) evs = Some c ->
  (forall t l, lookup t (q_thr c) = Some l -> l_op l = ODeq -> l_pc l = PAct -> q_items c <> []) /\
  (forall e c' obs t, lbq_exec1 c e = Some (c', obs) ->
     ~ In (t, ORet RDelErr) obs /\ ~ In (t, ORet RPanic) obs).
Proof.
  intros Hr. destruct (lbq_reachable _ _ _ Hr) as [I M].
  pose proof (v1 c I) as I1. pose proof (vD c I) as D. pose proof (vF c I) as F. split.
  - intros t l Hl Eo Hpc Hn. pose proof (d_act c D _ _ Hl Hpc) as Hf. rewrite Eo in Hf.
    unfold must_wait, qlen in Hf. rewrite Hn in Hf. discriminate.
  - intros e c' obs tr H. step_cases H.
    all: try solve [split; intros Hin; cbn in Hin; destruct Hin as [Hin|Hin];
                    first [ discriminate Hin | contradiction | (eapply woken_obs_no_ret; eassumption) ]].
    all: try solve [split; intros Hin; cbn in Hin; contradiction].
    + (* close of a closed channel: excluded *)
      exfalso. destruct (f_pend c F _ _ Hl) as [_ Hm]; [rewrite Hpc; reflexivity|congruence].
    + (* return val, err *)
      pose proof (d_res c D _ _ Hl) as Hres. rewrite Hpc in Hres. specialize (Hres eq_refl).
      split; intros Hin; cbn in Hin; destruct Hin as [Hin|[]]; injection Hin as _ Hx;
        destruct (l_op l); try discriminate Hq; try congruence; destruct Hres as [x Hy]; congruence.
    + (* return res (AsSlice) *)
      pose proof (d_res c D _ _ Hl) as Hres. rewrite Hpc, E in Hres. specialize (Hres eq_refl).
      destruct Hres as [s Hs].
      split; intros Hin; cbn in Hin; destruct Hin as [Hin|[]]; injection Hin as _ Hx; congruence.
Qed.

(* 7. the unbounded variant (maxSize <= 0): an Enqueue never enters the wait loop, so it never
   parks and never returns a context error from the select *)
Theorem lbq_unbounded_never_waits_lemma m evs c :
  m <= 0 -> exec lbq_step (lbq_init m) evs = Some c ->
  forall t l v, lookup t (q_thr c) = Some l -> l_op l = OEnq v -> wait_region (l_pc l) = false.
Proof.
  intros Hm Hr t l v Hl Eo. destruct (lbq_reachable _ _ _ Hr) as [I M].
  destruct (wait_region (l_pc l)) eqn:E; [|reflexivity].
  pose proof (d_bounded c (vD c I) _ _ Hl E) as Hb. rewrite Eo in Hb. lia.
Qed.

(* ================= C09 ================= *)

(* 8. no lost wake-up: the channel a call holds between its fetch and its wake-up is the cond's
   current one, or closed, or about to be closed by a broadcaster that has already unlocked;
   a parked call's channel is open and its context live (it is really blocked) *)
Theorem lbq_no_lost_wakeup_lemma m evs c :
  exec lbq_step (lbq_init m) evs = Some c ->
  forall t l, lookup t (q_thr c) = Some l -> fetched (l_pc l) = true ->
  (l_sig l <= cur c (wcond (l_op l)))%nat /\
  (l_sig l = cur c (wcond (l_op l)) \/
   mem (l_sig l) (closed c (wcond (l_op l))) = true \/
   closing c (wcond (l_op l)) (l_sig l)) /\
  (l_pc l = PParked ->
   l_cancel l = false /\ mem (l_sig l) (closed c (wcond (l_op l))) = false /\
   (l_sig l = cur c (wcond (l_op l)) \/ closing c (wcond (l_op l)) (l_sig l))).
Proof.
  intros Hr t l Hl Hf. destruct (lbq_reachable _ _ _ Hr) as [I M]. destruct (vG c I) as [G1 G2 G3 G4].
  split; [eauto|]. split; [apply (G2 _ _ Hl Hf)|].
  intros Hp. destruct (G3 _ _ Hl Hp) as [Hc Hm]. split; [exact Hc|]. split; [exact Hm|].
  destruct (G2 _ _ Hl Hf) as [H|[H|H]]; [auto|congruence|auto].
Qed.

(* the current channel of a cond is open; channels about to be closed are former, open,
   pairwise different ones *)
Theorem lbq_channels_lemma m evs c :
  exec lbq_step (lbq_init m) evs = Some c ->
  (forall k, mem (cur c k) (closed c k) = false) /\
  (forall t l, lookup t (q_thr c) = Some l -> pending (l_pc l) = true ->
     (l_old l < cur c (bcond (l_op l)))%nat /\ mem (l_old l) (closed c (bcond (l_op l))) = false) /\
  (forall t1 l1 t2 l2, t1 <> t2 -> lookup t1 (q_thr c) = Some l1 -> lookup t2 (q_thr c) = Some l2 ->
     pending (l_pc l1) = true -> pending (l_pc l2) = true -> bcond (l_op l1) = bcond (l_op l2) ->
     l_old l1 <> l_old l2).
Proof.
  intros Hr. destruct (lbq_reachable _ _ _ Hr) as [I M]. destruct (vF c I) as [F1 F2 F3 F4].
  split; [|split; assumption].
  intros k. destruct (mem (cur c k) (closed c k)) eqn:E; [|reflexivity].
  apply mem_in, F1 in E. lia.
Qed.

(* ---------- which threads can take a step ---------- *)
Lemma not_enabled_blocked c t l :
  lookup t (q_thr c) = Some l -> pc_ok (l_op l) (l_pc l) = true ->
  step_enabled c t = false -> blocked c l.
Proof.
  intros Hl Hok H. unfold step_enabled, lbq_exec1 in H. rewrite Hl in H. unfold blocked.
  destruct (is_qop (l_op l)) eqn:Hq.
  - unfold step_q, mv, fin in H.
    destruct (l_pc l) eqn:Hpc; cbn in Hok; rewrite ?Hq in Hok; try discriminate Hok; try discriminate H; auto.
    + right; left. split; [auto|]. destruct (q_wlock c); [left; discriminate|].
      destruct (q_readers c); [discriminate H|right; discriminate].
    + destruct (mem (l_sig l) (closed c (wcond (l_op l)))); [discriminate H|].
      destruct (l_cancel l); discriminate H.
    + right; left. split; [auto|]. destruct (q_wlock c); [left; discriminate|].
      destruct (q_readers c); [discriminate H|right; discriminate].
    + destruct (l_op l); try discriminate H; destruct (q_items c); discriminate H.
    + destruct (mem (l_old l) (closed c (bcond (l_op l)))); discriminate H.
    + destruct (l_op l); try discriminate Hok; discriminate Hq.
  - unfold step_r, mv, fin in H.
    destruct (l_pc l) eqn:Hpc; cbn in Hok; rewrite ?Hq in Hok; try discriminate Hok; try discriminate H.
    + right; right. split; [reflexivity|]. destruct (q_wlock c); [discriminate|discriminate H].
    + destruct (l_op l); try discriminate Hok; discriminate H.
    + destruct (l_op l); discriminate H.
Qed.

Lemma count_pos_exists (f : lbq_loc -> bool) thr :
  NoDup (tids thr) -> 0 < count f thr -> exists t l, lookup t thr = Some l /\ f l = true.
Proof.
  induction thr as [|[t0 l0] r IH]; cbn [count]; [lia|].
  intros Hnd Hc. unfold tids in Hnd. cbn in Hnd. inversion Hnd as [|x xs Hn Hr]; subst.
  destruct (f l0) eqn:E.
  - exists t0, l0. cbn. rewrite Nat.eqb_refl. auto.
  - destruct (IH Hr) as [t [l [Hl Hf]]]; [lia|]. exists t, l. split; [|exact Hf].
    cbn. destruct (Nat.eqb t t0) eqn:E2; [|exact Hl].
    apply Nat.eqb_eq in E2. subst t0. exfalso. apply Hn.
    assert (Hx : lookup t r <> None) by congruence.
    destruct (in_dec Nat.eq_dec t (map fst r)) as [Hi|Hi]; [exact Hi|].
    exfalso. apply Hx. apply lookup_none_not_in. exact Hi.
Qed.

(* 9. a configuration in which no STEP is enabled: nobody holds the mutex, every call in flight
   is parked in its select on the CURRENT channel of its cond, and its waiting condition holds:
   every parked Dequeue sees an empty list, every parked Enqueue a full one *)
Theorem lbq_stuck_implies_cannot_proceed_lemma m evs c :
  exec lbq_step (lbq_init m) evs = Some c ->
  (forall t, step_enabled c t = false) ->
  q_wlock c = None /\ q_readers c = O /\
  forall t l, lookup t (q_thr c) = Some l ->
    l_pc l = PParked /\ l_sig l = cur c (wcond (l_op l)) /\ must_wait c (l_op l) = true /\
    match l_op l with
    | ODeq => q_items c = []
    | _ => 0 < m /\ qlen c = m
    end.
Proof.
  intros Hr Hst. destruct (lbq_reachable _ _ _ Hr) as [I M].
  pose proof (v1 c I) as I1. destruct (vG c I) as [G1 G2 G3 G4].
  assert (Hen : forall t l, lookup t (q_thr c) = Some l -> blocked c l).
  { intros t l Hl. apply (not_enabled_blocked c t l Hl); [apply (i_pcok c I1 _ _ Hl)|apply Hst]. }
  assert (Hw : q_wlock c = None).
  { destruct (q_wlock c) as [w|] eqn:Ew; [|reflexivity].
    destruct (i_owner c I1 _ Ew) as [l [Hl Hcs]].
    destruct (Hen _ _ Hl) as [Hb|[[[Hb|Hb] _]|[Hb _]]]; rewrite Hb in Hcs; discriminate. }
  assert (Hrd : q_readers c = O).
  { destruct (q_readers c) as [|n] eqn:En; [reflexivity|].
    pose proof (i_readers c I1) as Hc. rewrite En in Hc.
    destruct (count_pos_exists rd (q_thr c) (i_nodup c I1)) as [t [l [Hl Hf]]]; [lia|].
    unfold rd in Hf.
    destruct (Hen _ _ Hl) as [Hb|[[[Hb|Hb] _]|[Hb _]]]; rewrite Hb in Hf; discriminate. }
  split; [exact Hw|]. split; [exact Hrd|].
  assert (Hpk : forall t l, lookup t (q_thr c) = Some l -> l_pc l = PParked).
  { intros t l Hl. destruct (Hen _ _ Hl) as [Hb|[[_ [Hb|Hb]]|[_ Hb]]]; [exact Hb|congruence..]. }
  intros t l Hl. pose proof (Hpk _ _ Hl) as Hp.
  assert (Hf : fetched (l_pc l) = true) by (rewrite Hp; reflexivity).
  destruct (G3 _ _ Hl Hp) as [_ Hm].
  assert (Hs : l_sig l = cur c (wcond (l_op l))).
  { destruct (G2 _ _ Hl Hf) as [H|[H|[b [lb [Hb [Pb _]]]]]]; [exact H|congruence|].
    rewrite (Hpk _ _ Hb) in Pb. discriminate. }
  assert (Hmw : must_wait c (l_op l) = true).
  { destruct (G4 _ _ Hl Hf Hs) as [H|[b [lb [Hb [Pb _]]]]]; [exact H|].
    rewrite (Hpk _ _ Hb) in Pb. discriminate. }
  split; [exact Hp|]. split; [exact Hs|]. split; [exact Hmw|].
  pose proof (fetched_in_q c _ _ I1 Hl Hf) as Hq.
  unfold must_wait, qlen in *. rewrite M in *.
  destruct (l_op l); try discriminate Hq.
  - apply andb_true_iff in Hmw. lia.
  - destruct (q_items c); [reflexivity|cbn in Hmw; lia].
Qed.

(* 10. cancellation is prompt and clean.  (a) CANCEL of a parked call wakes it into
   `case <-ctx.Done():`; two steps of its own later it has returned ctx.Err(), and nothing of
   the shared state (list, mutex, readers, channels) was touched *)
Theorem lbq_cancel_enables_lemma m evs c t l :
  exec lbq_step (lbq_init m) evs = Some c ->
  lookup t (q_thr c) = Some l -> l_pc l = PParked ->
  exists c1 c2 c3,
    lbq_exec1 c (QCancel t) = Some (c1, [(t, OAt (l_op l) PCaseCtx)]) /\
    lbq_exec1 c1 (QStep t) = Some (c2, [(t, OAt (l_op l) PRetErr1)]) /\
    lbq_exec1 c2 (QStep t) = Some (c3, [(t, ORet RCtx)]) /\
    q_items c3 = q_items c /\ q_wlock c3 = q_wlock c /\ q_readers c3 = q_readers c /\
    (forall k, cur c3 k = cur c k) /\ (forall k, closed c3 k = closed c k) /\
    lookup t (q_thr c3) = None /\
    (forall t2, t2 <> t -> lookup t2 (q_thr c3) = lookup t2 (q_thr c)).
Proof.
  intros Hr Hl Hp. destruct (lbq_reachable _ _ _ Hr) as [I M].
  pose proof (v1 c I) as I1. pose proof (i_nodup c I1) as Hnd.
  destruct (g_parked c (vG c I) _ _ Hl Hp) as [Hc _].
  assert (Hq : is_qop (l_op l) = true).
  { apply (fetched_in_q c t l I1 Hl). rewrite Hp. reflexivity. }
  set (l1 := set_pc (set_cancel l) PCaseCtx).
  set (c1 := set_thr c (update t l1 (q_thr c))).
  assert (Hl1 : lookup t (q_thr c1) = Some l1) by (apply (lookup_update_same _ _ _ _ _ Hl)).
  set (l2 := set_pc l1 PRetErr1).
  set (c2 := set_thr c1 (update t l2 (q_thr c1))).
  assert (Hl2 : lookup t (q_thr c2) = Some l2) by (apply (lookup_update_same _ _ _ _ _ Hl1)).
  set (c3 := add_hist (set_thr c2 (remove t (q_thr c2))) (HRet t RCtx)).
  exists c1, c2, c3.
  assert (Hnd1 : NoDup (tids (q_thr c1))) by (cbn; rewrite tids_update; exact Hnd).
  assert (Hnd2 : NoDup (tids (q_thr c2))) by (cbn; rewrite tids_update; exact Hnd1).
  split; [|split; [|split]].
  - unfold lbq_exec1. rewrite Hl, Hc, Hp. reflexivity.
  - unfold lbq_exec1. rewrite Hl1. cbn [l1 l_op set_pc set_cancel]. rewrite Hq. reflexivity.
  - unfold lbq_exec1. rewrite Hl2. cbn [l2 l1 l_op set_pc set_cancel]. rewrite Hq. reflexivity.
  - repeat (split; [reflexivity|]). split.
    + cbn. apply lookup_remove_same. exact Hnd2.
    + intros t2 Hne. cbn.
      rewrite (lookup_remove_other _ _ _ Hne), !(lookup_update_other _ _ _ _ _ Hne). reflexivity.
Qed.

(* (b) the same, robust against interleaving: once a call stands in the ctx.Done() case each of
   its two remaining statements is enabled in EVERY configuration, touches nothing shared, and
   nobody else can move it *)
Theorem lbq_ctx_case_enabled_lemma c t l :
  lookup t (q_thr c) = Some l -> is_qop (l_op l) = true ->
  (l_pc l = PCaseCtx ->
     lbq_exec1 c (QStep t) = Some (set_thr c (update t (set_pc l PRetErr1) (q_thr c)), [(t, OAt (l_op l) PRetErr1)])) /\
  (l_pc l = PRetErr1 ->
     lbq_exec1 c (QStep t) = Some (add_hist (set_thr c (remove t (q_thr c))) (HRet t RCtx), [(t, ORet RCtx)])).
Proof.
  intros Hl Hq. split; intros Hp; unfold lbq_exec1; rewrite Hl, Hq; unfold step_q; rewrite Hp; reflexivity.
Qed.

Theorem lbq_others_do_not_move_lemma c e c' obs t0 l0 :
  lbq_exec1 c e = Some (c', obs) -> ev_tid e <> t0 ->
  lookup t0 (q_thr c) = Some l0 -> l_pc l0 <> PParked -> lookup t0 (q_thr c') = Some l0.
Proof.
  intros H Hne Hl0 Hp. step_cases H; cbn in Hne.
  all: cbn [q_thr set_thr add_hist].
  all: rewrite ?lookup_wake_all, ?(lookup_update_other _ _ _ _ _ (not_eq_sym Hne)),
         ?(lookup_remove_other _ _ _ (not_eq_sym Hne)), ?lookup_spawn, ?Hl0.
  all: try reflexivity.
  all: try solve [unfold unlock; destruct (q_wlock c); cbn;
                  rewrite (lookup_update_other _ _ _ _ _ (not_eq_sym Hne)); exact Hl0].
  all: try solve [rewrite q_thr_set_cur, (lookup_update_other _ _ _ _ _ (not_eq_sym Hne)); exact Hl0].
  all: try solve [rewrite (wake1_not_parked _ _ _ Hp); reflexivity].
  all: try solve [unfold runlock; destruct (q_readers c); cbn;
                  rewrite (lookup_remove_other _ _ _ (not_eq_sym Hne)); exact Hl0].
  all: try solve [unfold unlock; destruct (q_wlock c); exact Hl0].
  all: try solve [rewrite q_thr_set_cur; exact Hl0].
  all: try solve [unfold runlock; destruct (q_readers c); exact Hl0].
Qed.

(* a broadcaster between its swap and its close(old) is never blocked: the wake-up it owes is
   at most two of its own, always enabled, steps away; likewise a call that has changed the
   list and not yet swapped the channel *)
Theorem lbq_closer_enabled_lemma m evs c b lb :
  exec lbq_step (lbq_init m) evs = Some c ->
  lookup b (q_thr c) = Some lb -> pending (l_pc lb) = true \/ post_act (l_pc lb) = true ->
  step_enabled c b = true.
Proof.
  intros Hr Hb Hp. destruct (lbq_reachable _ _ _ Hr) as [I M].
  destruct (step_enabled c b) eqn:E; [reflexivity|].
  destruct (not_enabled_blocked c b lb Hb (i_pcok c (v1 c I) _ _ Hb) E) as [H|[[[H|H] _]|[H _]]];
    rewrite H in Hp; destruct Hp; discriminate.
Qed.
