(* ABQProof (part 2): every event preserves the invariant [abq_inv], and the abstraction function
   [abq_abs] commutes with the sequential specification at the marked steps and is unchanged by
   every other event (linearisation-point form). *)
From Ekit Require Import Common Conc ABQModel ABQProof.
From Coq Require Import ZifyBool Arith PeanoNat.

Arguments ring : simpl never.
Arguments dget : simpl never.
Arguments dset : simpl never.
Arguments cap_of : simpl never.
Arguments Z.mul : simpl never.
Arguments Z.add : simpl never.
Arguments Z.sub : simpl never.

(* what one step of thread t (in state th) does to the abstract queue *)
Definition step_abs (cap : Z) (c : abq_cfg) (t : tid) (th : abq_thr) (c' : abq_cfg) : Prop :=
  match t_pc th with
  | EWrite =>
    spec_enq cap (abq_abs c) (t_val th) = Some (abq_abs c') /\
    exists th', lookup t (q_thr c') = Some th' /\ t_lin th' = [t_val th] /\ g_in c' = g_in c ++ [t_val th] /\ g_out c' = g_out c
  | DRead =>
    exists x, spec_deq (abq_abs c) = Some (abq_abs c', x) /\
    exists th', lookup t (q_thr c') = Some th' /\ t_val th' = x /\ t_lin th' = [x] /\ g_out c' = g_out c ++ [x] /\ g_in c' = g_in c
  | _ => abq_abs c' = abq_abs c /\ g_in c' = g_in c /\ g_out c' = g_out c
  end.

Ltac inv_facts I c :=
  pose proof I as [Icap Ind Iw Ir Iwr Ienq Ideq Iew Idw Ile Ild Igeo Ih Ihz It Itz Ithr Ilog];
  pose proof Ienq as [Esz Ecur Efull End]; pose proof Ideq as [Dsz Dcur Dfull Dnd];
  pose proof (count_nonneg _ held_e (q_thr c)) as Nhe; pose proof (count_nonneg _ held_d (q_thr c)) as Nhd;
  pose proof (count_nonneg _ owes_e (q_thr c)) as Noe; pose proof (count_nonneg _ owes_d (q_thr c)) as Nod;
  pose proof (count_nonneg _ in_wcs (q_thr c)) as Nw; pose proof (count_nonneg _ in_rcs (q_thr c)) as Nr;
  pose proof (count_nonneg _ tail_hi (q_thr c)) as Nth; pose proof (count_nonneg _ head_hi (q_thr c)) as Nhh;
  pose proof (abs_len_bounds _ _ I) as Nlen.

(* the stepping thread holds the write lock: every writer-only counter is determined by it *)
Ltac writer Hl c :=
  match goal with Iw : count in_wcs (q_thr c) = _ |- _ =>
    assert (W : q_w c = true)
      by (destruct (q_w c); [reflexivity|exfalso; pose proof (count_pos_lookup in_wcs _ _ _ Hl eq_refl); lia]);
    rewrite W in Iw;
    pose proof (count_sub_single adj_e in_wcs _ _ _ sub_adj_e Hl eq_refl Iw) as Cae;
    pose proof (count_sub_single adj_d in_wcs _ _ _ sub_adj_d Hl eq_refl Iw) as Cad;
    pose proof (count_sub_single adj_h in_wcs _ _ _ sub_adj_h Hl eq_refl Iw) as Cah;
    pose proof (count_sub_single owes_e in_wcs _ _ _ sub_owes_e Hl eq_refl Iw) as Coe;
    pose proof (count_sub_single owes_d in_wcs _ _ _ sub_owes_d Hl eq_refl Iw) as Cod;
    pose proof (count_sub_single tail_hi in_wcs _ _ _ sub_tail_hi Hl eq_refl Iw) as Cth;
    pose proof (count_sub_single head_hi in_wcs _ _ _ sub_head_hi Hl eq_refl Iw) as Chh;
    pose proof (count_sub_single (pc_is ETailInc) in_wcs _ _ _ sub_is_tailinc Hl eq_refl Iw) as Cti;
    pose proof (count_sub_single (pc_is ETailZero) in_wcs _ _ _ sub_is_tailzero Hl eq_refl Iw) as Ctz;
    pose proof (count_sub_single (pc_is DHeadZero) in_wcs _ _ _ sub_is_headzero Hl eq_refl Iw) as Chz;
    cbn in Cae, Cad, Cah, Coe, Cod, Cth, Chh, Cti, Ctz, Chz;
    assert (R0 : q_r c = 0) by (match goal with Iwr : q_w c = true -> q_r c = 0 |- _ => exact (Iwr W) end)
  end.

(* no writer is inside (the stepping thread holds a read lock, or the lock is free) *)
Ltac no_writer c :=
  match goal with Iw : count in_wcs (q_thr c) = _, W : q_w c = false |- _ =>
    try rewrite W in Iw;
    destruct (no_writer_view _ Iw) as [Cae [Cad [Cah [Coe [Cod [Cth [Chh [Cti [Ctz Chz]]]]]]]]]
  end.

Ltac proj_simpl :=
  cbn [q_data q_head q_tail q_count q_enq q_deq q_w q_r q_thr g_in g_out
       set_thr set_ring set_mu set_enq set_deq set_log s_size s_cur s_wait].

Ltac simp_goal Hl :=
  unfold abq_abs, abs_len, abs_head, s_free in *; proj_simpl;
  repeat rewrite (count_update _ _ _ _ _ _ Hl);
  repeat rewrite (count_remove _ _ _ _ _ Hl);
  repeat rewrite count_spawn;
  cbn.

Ltac geo :=
  match goal with Igeo : (?m | ?e) |- (?m | ?e') =>
    first [ replace e' with e by lia; exact Igeo
          | replace e' with (e - m) by lia; apply Z.divide_sub_r; [exact Igeo|apply Z.divide_refl]
          | replace e' with (e + m) by lia; apply Z.divide_add_r; [exact Igeo|apply Z.divide_refl] ]
  end.

Ltac same_abs :=
  match goal with
  | |- ring ?d _ _ = ring ?d _ _ => f_equal; lia
  | Ilog : ?gi = ?go ++ ring ?d _ _ |- ?gi = ?go ++ ring ?d _ _ =>
    etransitivity; [exact Ilog|]; f_equal; f_equal; lia
  end.

(* fields of the invariant after a step that only moves thread t (old state th, Hl) to a new
   non-parked state; shared arithmetic is left to lia *)
Ltac field Hl :=
  first
    [ assumption
    | lia
    | rewrite tids_update; assumption
    | apply nodup_remove; assumption
    | rewrite cap_of_dset; assumption
    | geo
    | same_abs
    | (intros; congruence)
    | (eapply waiters_ok_update_irrel; [exact Hl|cbn; discriminate|cbn; discriminate|assumption])
    | (eapply waiters_ok_remove_irrel; [assumption|exact Hl|cbn; discriminate|assumption]) ].

(* the three places where the ring content changes *)
Lemma ring_write d h n tl v cap :
  cap_of d = cap -> 1 <= cap -> 0 <= n < cap -> 0 <= tl < cap -> (cap | tl - h - n) ->
  ring (dset d tl v) h (n + 1) = ring d h n ++ [v].
Proof.
  intros Hc Hcap Hn Ht Hd.
  assert (E : (h + n) mod cap = tl).
  { apply mod_of_divide; [lia| |exact Ht]. replace (tl - (h + n)) with (tl - h - n) by lia. exact Hd. }
  rewrite ring_snoc by lia. rewrite cap_of_dset, Hc, E.
  rewrite dget_dset_same by lia. f_equal.
  apply ring_dset_outside; [lia|lia|].
  intros i Hi. rewrite Hc, <- E. apply mod_eq_small; lia.
Qed.

Lemma ring_read d h n cap :
  cap_of d = cap -> 0 <= h < cap -> 1 <= n -> ring d h n = dget d h :: ring d (h + 1) (n - 1).
Proof.
  intros Hc Hh Hn. rewrite ring_uncons by exact Hn. rewrite Hc, Z.mod_small by lia. reflexivity.
Qed.

Lemma ring_zero d h n v cap :
  cap_of d = cap -> 1 <= cap -> 0 <= h < cap -> n < cap ->
  ring (dset d h v) (h + 1) n = ring d (h + 1) n.
Proof.
  intros Hc Hcap Hh Hn. apply ring_dset_outside; [lia|lia|].
  intros i Hi. rewrite Hc. intros E.
  apply (mod_eq_small cap h 0 (1 + i)); try lia.
  rewrite Z.add_0_r, (Z.mod_small h cap) by lia. rewrite <- E. f_equal. lia.
Qed.

Lemma ring_head_wrap d n cap : cap_of d = cap -> 1 <= cap -> ring d cap n = ring d 0 n.
Proof.
  intros Hc Hcap. replace cap with (0 + cap_of d) at 1 by lia. apply ring_add_cap. lia.
Qed.

(* bring one ring read-out in the goal to the given data / head / length *)
Ltac ring_to d' h' n' :=
  match goal with |- context [ring d' ?h ?n] =>
    replace (ring d' h n) with (ring d' h' n') by (f_equal; lia)
  end.

Ltac thr_tac :=
  first
    [ apply threads_ok_update;
      [ first [assumption | eapply threads_ok_shared; [eassumption|lia]]
      | unfold thr_ok; cbn; first [tauto | auto] ]
    | apply threads_ok_remove;
      [ assumption | first [assumption | eapply threads_ok_shared; [eassumption|lia]] ] ].

(* a step that moves only thread t and possibly changes shared scalars; abstract queue unchanged *)
Ltac plain Hl :=
  unfold goto, finish in *;
  match goal with Hs : Some _ = Some _ |- _ => injection Hs as <- <- end;
  split;
  [ constructor; simp_goal Hl; try field Hl; try thr_tac
  | simp_goal Hl; repeat split; try same_abs ].

Lemma abq_step_enq cap c t th c' o :
  1 <= cap -> abq_inv cap c -> lookup t (q_thr c) = Some th ->
  match t_pc th with
  | EIfErr | ERetErr | ELock | EDefer | EIfCtx | ERetCtx | EWrite | ETailInc | ECountInc | EIfTail | ETailZero | ERetNil => True
  | _ => False
  end ->
  abq_step c t th = Some (c', o) ->
  abq_inv cap c' /\ step_abs cap c t th c'.
Proof.
  intros Hcap I Hl Hpc Hs. inv_facts I c.
  pose proof (Ithr t th Hl) as Hth.
  destruct th as [pc v err can res cnt capv idx lin].
  unfold abq_step, step_abs in *; cbn [t_pc t_val t_err t_can] in *; unfold thr_ok in Hth; cbn [t_pc] in Hth.
  destruct pc; try contradiction; clear Hpc.
  - (* EIfErr *) destruct err; plain Hl.
  - (* ERetErr *) plain Hl.
  - (* ELock *)
    destruct (q_w c) eqn:W; [discriminate|]. destruct (q_r c =? 0) eqn:R; [|discriminate]. cbn in Hs.
    no_writer c. plain Hl.
  - (* EDefer *) writer Hl c. plain Hl.
  - (* EIfCtx *) writer Hl c. destruct can; plain Hl.
  - (* ERetCtx *) writer Hl c. plain Hl.
  - (* EWrite *)
    writer Hl c. cbn [t_lin] in Hth. subst lin.
    pose proof (count_pos_lookup held_e _ _ _ Hl eq_refl) as Hh1.
    assert (Hidx : idx_ok (q_data c) (q_tail c) = true) by (apply idx_ok_iff; lia).
    rewrite Hidx in Hs. unfold goto in Hs. injection Hs as <- <-.
    assert (Hn : 0 <= q_count c < cap) by (unfold abs_len, s_free in *; lia).
    assert (A : ring (dset (q_data c) (q_tail c) v) (q_head c) (q_count c + 1) = ring (q_data c) (q_head c) (q_count c) ++ [v]).
    { apply (ring_write _ _ _ _ _ cap); try lia; try assumption.
      unfold abs_head, abs_len in Igeo. rewrite Cti, Cah, Cae, Cad in Igeo.
      replace (q_tail c - q_head c - q_count c) with (q_tail c + 0 - (q_head c + 0) - (q_count c + 0 - 0)) by lia.
      exact Igeo. }
    split.
    + constructor; simp_goal Hl; try field Hl; try thr_tac.
      rewrite Cah, Cae, Cad in *.
      ring_to (dset (q_data c) (q_tail c) v) (q_head c) (q_count c + 1).
      rewrite A, Ilog, app_assoc. do 3 f_equal; lia.
    + simp_goal Hl. rewrite Cah, Cae, Cad in *. split.
      * unfold spec_enq. rewrite ring_length.
        replace (Z.of_nat (Z.to_nat (q_count c + 0 - 0)) <? cap) with true by lia.
        ring_to (dset (q_data c) (q_tail c) v) (q_head c) (q_count c + 1).
        rewrite A. do 3 f_equal; lia.
      * eexists. split; [apply (lookup_update_same _ _ _ _ _ Hl)|]. cbn. auto.
  - (* ETailInc *) writer Hl c. plain Hl.
  - (* ECountInc *) writer Hl c. plain Hl.
  - (* EIfTail *) writer Hl c. destruct (q_tail c =? cap_of (q_data c)) eqn:E; plain Hl.
  - (* ETailZero *) writer Hl c. plain Hl.
  - (* ERetNil *) writer Hl c. plain Hl.
Qed.

Lemma abq_step_deq cap c t th c' o :
  1 <= cap -> abq_inv cap c -> lookup t (q_thr c) = Some th ->
  match t_pc th with
  | DIfErr | DRetErr | DLock | DDefer | DIfCtx | DRetCtx | DRead | DZero | DHeadInc | DCountDec | DIfHead | DHeadZero | DRetOk => True
  | _ => False
  end ->
  abq_step c t th = Some (c', o) ->
  abq_inv cap c' /\ step_abs cap c t th c'.
Proof.
  intros Hcap I Hl Hpc Hs. inv_facts I c.
  pose proof (Ithr t th Hl) as Hth.
  destruct th as [pc v err can res cnt capv idx lin].
  unfold abq_step, step_abs in *; cbn [t_pc t_val t_err t_can] in *; unfold thr_ok in Hth; cbn [t_pc] in Hth.
  destruct pc; try contradiction; clear Hpc.
  - (* DIfErr *) destruct err; plain Hl.
  - (* DRetErr *) plain Hl.
  - (* DLock *)
    destruct (q_w c) eqn:W; [discriminate|]. destruct (q_r c =? 0) eqn:R; [|discriminate]. cbn in Hs.
    no_writer c. plain Hl.
  - (* DDefer *) writer Hl c. plain Hl.
  - (* DIfCtx *) writer Hl c. destruct can; plain Hl.
  - (* DRetCtx *) writer Hl c. plain Hl.
  - (* DRead *)
    writer Hl c. cbn [t_lin] in Hth. subst lin.
    pose proof (count_pos_lookup held_d _ _ _ Hl eq_refl) as Hh1.
    assert (Hidx : idx_ok (q_data c) (q_head c) = true) by (apply idx_ok_iff; lia).
    rewrite Hidx in Hs. unfold goto in Hs. injection Hs as <- <-.
    assert (Hn : 1 <= q_count c <= cap) by (unfold abs_len, s_free in *; lia).
    assert (A : ring (q_data c) (q_head c) (q_count c) =
                dget (q_data c) (q_head c) :: ring (q_data c) (q_head c + 1) (q_count c - 1)).
    { apply (ring_read _ _ _ cap); try lia; assumption. }
    split.
    + constructor; simp_goal Hl; try field Hl; try thr_tac.
      rewrite Cah, Cae, Cad in *.
      ring_to (q_data c) (q_head c + 1) (q_count c - 1).
      rewrite Ilog. ring_to (q_data c) (q_head c) (q_count c). rewrite A, <- app_assoc. reflexivity.
    + simp_goal Hl. rewrite Cah, Cae, Cad in *. exists (dget (q_data c) (q_head c)). split.
      * ring_to (q_data c) (q_head c) (q_count c). rewrite A. unfold spec_deq.
        f_equal. f_equal. f_equal; lia.
      * eexists. split; [apply (lookup_update_same _ _ _ _ _ Hl)|]. cbn. auto.
  - (* DZero *)
    writer Hl c.
    assert (Hidx : idx_ok (q_data c) (q_head c) = true) by (apply idx_ok_iff; lia).
    rewrite Hidx in Hs. unfold goto in Hs. injection Hs as <- <-.
    assert (Hn : 1 <= q_count c <= cap) by (unfold abs_len, s_free in *; lia).
    assert (A : ring (dset (q_data c) (q_head c) 0) (q_head c + 1) (q_count c - 1) =
                ring (q_data c) (q_head c + 1) (q_count c - 1)).
    { apply (ring_zero _ _ _ _ cap); try lia; assumption. }
    split.
    + constructor; simp_goal Hl; try field Hl; try thr_tac.
      rewrite Cah, Cae, Cad in *.
      ring_to (dset (q_data c) (q_head c) 0) (q_head c + 1) (q_count c - 1).
      rewrite A, Ilog. f_equal. f_equal; lia.
    + simp_goal Hl. rewrite Cah, Cae, Cad in *. repeat split.
      ring_to (dset (q_data c) (q_head c) 0) (q_head c + 1) (q_count c - 1).
      rewrite A. f_equal; lia.
  - (* DHeadInc *) writer Hl c. plain Hl.
  - (* DCountDec *) writer Hl c. plain Hl.
  - (* DIfHead *) writer Hl c. destruct (q_head c =? cap_of (q_data c)) eqn:E; plain Hl.
  - (* DHeadZero *)
    writer Hl c. unfold goto in Hs. injection Hs as <- <-.
    assert (Hh : q_head c = cap) by lia.
    assert (A : ring (q_data c) cap (q_count c) = ring (q_data c) 0 (q_count c)).
    { apply ring_head_wrap; [assumption|lia]. }
    split.
    + constructor; simp_goal Hl; try field Hl; try thr_tac.
      rewrite Cah, Cae, Cad in *.
      ring_to (q_data c) 0 (q_count c). rewrite <- A, Ilog. f_equal. f_equal; lia.
    + simp_goal Hl. rewrite Cah, Cae, Cad in *. repeat split.
      ring_to (q_data c) 0 (q_count c). rewrite <- A. f_equal; lia.
  - (* DRetOk *) writer Hl c. plain Hl.
Qed.

(* the stepping thread holds a read lock: no writer is inside *)
Ltac reader Hl c :=
  match goal with Iwr : q_w c = true -> q_r c = 0 |- _ =>
    assert (W : q_w c = false)
      by (destruct (q_w c) eqn:W0; [specialize (Iwr eq_refl); pose proof (count_pos_lookup in_rcs _ _ _ Hl eq_refl); lia|reflexivity]);
    no_writer c
  end.

Lemma abq_step_read cap c t th c' o :
  1 <= cap -> abq_inv cap c -> lookup t (q_thr c) = Some th ->
  match t_pc th with
  | LRLock | LDefer | LRet | SRLock | SDefer | SMake | SCnt | SCap | SFor | SIndex | SAppend | SCntInc | SRet => True
  | _ => False
  end ->
  abq_step c t th = Some (c', o) ->
  abq_inv cap c' /\ step_abs cap c t th c'.
Proof.
  intros Hcap I Hl Hpc Hs. inv_facts I c.
  pose proof (Ithr t th Hl) as Hth.
  destruct th as [pc v err can res cnt capv idx lin].
  unfold abq_step, step_abs in *; cbn [t_pc t_val t_err t_can t_cnt t_capv t_idx t_res] in *; unfold thr_ok in Hth; cbn [t_pc t_lin t_res t_cnt t_capv t_idx] in Hth.
  destruct pc; try contradiction; clear Hpc.
  - (* LRLock *) destruct (q_w c) eqn:W; [discriminate|]. no_writer c. plain Hl.
  - (* LDefer *) reader Hl c. plain Hl.
  - (* LRet *) reader Hl c. plain Hl.
  - (* SRLock *) destruct (q_w c) eqn:W; [discriminate|]. no_writer c. plain Hl.
  - (* SDefer *) reader Hl c. plain Hl.
  - (* SMake *) reader Hl c.
    assert (Hn : (q_count c <? 0) = false) by (unfold abs_len in Nlen; lia). rewrite Hn in Hs. plain Hl.
  - (* SCnt *) reader Hl c. plain Hl.
  - (* SCap *) reader Hl c. plain Hl.
  - (* SFor *) reader Hl c. destruct Hth as [H1 [H2 [H3 H4]]]. subst.
    destruct (0 <? q_count c) eqn:E; plain Hl.
    + repeat split; auto; try lia.
    + split; [reflexivity|]. symmetry. apply ring_nonpos. lia.
  - (* SIndex *) reader Hl c. destruct Hth as [H1 [H2 [H3 H4]]]. subst.
    assert (Hz : (cap_of (q_data c) =? 0) = false) by lia. rewrite Hz in Hs. plain Hl.
    repeat split; auto; try lia. apply Z.rem_mod_nonneg; lia.
  - (* SAppend *) reader Hl c. destruct Hth as [H1 [H2 [H3 [H4 H5]]]]. subst.
    assert (Hidx : idx_ok (q_data c) ((q_head c + cnt) mod cap_of (q_data c)) = true).
    { apply idx_ok_iff. apply Z.mod_pos_bound. lia. }
    rewrite Hidx in Hs. plain Hl.
    repeat split; auto; try lia. rewrite ring_snoc by lia. reflexivity.
  - (* SCntInc *) reader Hl c. destruct Hth as [H1 [H2 [H3 H4]]]. subst.
    destruct (cnt + 1 <? q_count c) eqn:E; plain Hl.
    + repeat split; auto; try lia.
    + split; [reflexivity|]. f_equal. lia.
  - (* SRet *) reader Hl c. plain Hl.
Qed.

Lemma wake_nil p (l : thrs) : wake p [] l = l.
Proof. reflexivity. Qed.

Lemma wake_one p w thw (l : thrs) : lookup w l = Some thw -> wake p [w] l = update w (woken thw p) l.
Proof. intros H. cbn. rewrite H. reflexivity. Qed.

Ltac sem_tac := constructor; cbn [s_size s_cur s_wait]; first [lia | congruence | constructor | assumption | (intros; lia)].

Lemma waiters2_irrel p ws (l : thrs) t th th' w thw thw' :
  lookup t l = Some th -> lookup w l = Some thw -> t <> w ->
  t_pc th <> p -> t_pc th' <> p -> t_pc thw <> p -> t_pc thw' <> p ->
  waiters_ok p ws l -> waiters_ok p ws (update t th' (update w thw' l)).
Proof.
  intros Hl Hw Hne P1 P2 P3 P4 H.
  eapply waiters_ok_update_irrel; [rewrite lookup_update_other; [exact Hl|exact Hne]|exact P1|exact P2|].
  eapply waiters_ok_update_irrel; [exact Hw|exact P3|exact P4|exact H].
Qed.

Lemma waiters2_pop p r (l : thrs) t th th' w thw thw' :
  NoDup (w :: r) -> lookup t l = Some th -> lookup w l = Some thw -> t <> w ->
  t_pc th <> p -> t_pc th' <> p -> t_pc thw' <> p ->
  waiters_ok p (w :: r) l -> waiters_ok p r (update t th' (update w thw' l)).
Proof.
  intros Hnd Hl Hw Hne P1 P2 P4 H.
  eapply waiters_ok_update_irrel; [rewrite lookup_update_other; [exact Hl|exact Hne]|exact P1|exact P2|].
  replace r with (remove_tid w (w :: r)) by (cbn; rewrite Nat.eqb_refl; reflexivity).
  eapply waiters_ok_remove_tid; [exact Hnd|exact Hw|exact P4|exact H].
Qed.

Lemma threads2_ok (l : thrs) d h n t th' w thw' :
  threads_ok l d h n -> thr_ok d h n th' -> thr_ok d h n thw' ->
  threads_ok (update t th' (update w thw' l)) d h n.
Proof. intros H H1 H2. apply threads_ok_update; [apply threads_ok_update; assumption|assumption]. Qed.

(* the tail of a Release / Cancel case in which waiter w (state thw, Hw) is moved as well *)
Ltac wake_fields Hl Hl2 Hw Hne :=
  simp_goal Hl2; repeat rewrite (count_update _ _ _ _ _ _ Hw); cbn;
  try field Hl;
  try (rewrite !tids_update; assumption);
  try (eapply waiters2_irrel; [exact Hl|exact Hw|exact Hne|cbn; discriminate|cbn; discriminate|cbn; discriminate|cbn; discriminate|assumption]);
  try (eapply waiters2_pop; [assumption|exact Hl|exact Hw|exact Hne|cbn; discriminate|cbn; discriminate|cbn; discriminate|assumption]);
  try (apply threads2_ok; [first [assumption | eapply threads_ok_shared; [eassumption|lia]]|unfold thr_ok; cbn; first [tauto|auto]|unfold thr_ok; cbn; first [tauto|auto]]).

Ltac nodup_tail :=
  match goal with H : NoDup (_ :: ?r) |- NoDup ?r => inversion H; assumption end.

Lemma abq_step_release cap c t th c' o :
  1 <= cap -> abq_inv cap c -> lookup t (q_thr c) = Some th ->
  match t_pc th with
  | ERelE | ERelD | DRelD | DRelE => True
  | _ => False
  end ->
  abq_step c t th = Some (c', o) ->
  abq_inv cap c' /\ step_abs cap c t th c'.
Proof.
  intros Hcap I Hl Hpc Hs. inv_facts I c.
  pose proof (Ithr t th Hl) as Hth.
  destruct th as [pc v err can res cnt capv idx lin].
  unfold abq_step, step_abs in *; cbn [t_pc t_val t_err t_can] in *; unfold thr_ok in Hth; cbn [t_pc] in Hth.
  destruct pc; try contradiction; clear Hpc.
  - (* ERelE *)
    writer Hl c.
    pose proof (count_pos_lookup held_e _ _ _ Hl eq_refl) as Hh1.
    assert (H1 : 1 <= s_cur (q_enq c)) by (unfold abs_len, s_free in *; lia).
    destruct (sem_release_cases _ _ Hcap Ienq H1) as [[Wn R]|[w [r [Ww R]]]]; rewrite R in Hs.
    + rewrite wake_nil in Hs. cbn [obs_at map add_obs goto] in Hs. rewrite Wn in *.
      plain Hl; try sem_tac.
    + rewrite Ww in *.
      destruct (proj1 (Iew w) (or_introl eq_refl)) as [thw [Hw Hpw]].
      assert (Hne : t <> w) by (intros ->; rewrite Hl in Hw; injection Hw as <-; discriminate).
      rewrite (wake_one _ _ _ _ Hw) in Hs.
      pose proof (Ithr w thw Hw) as Hthw.
      destruct thw as [pcw vw errw canw resw cntw capvw idxw linw]. cbn [t_pc] in Hpw. subst pcw.
      unfold thr_ok in Hthw; cbn [t_pc t_lin] in Hthw.
      match type of Hs with context [update w ?x _] => set (thw' := x) in * end.
      assert (Hl2 : lookup t (update w thw' (q_thr c)) = Some _) by (rewrite lookup_update_other; [exact Hl|exact Hne]).
      cbn [obs_at map add_obs goto] in Hs. unfold goto in Hs. cbn [add_obs] in Hs. injection Hs as <- <-.
      split.
      * constructor; wake_fields Hl Hl2 Hw Hne.
        constructor; cbn [s_size s_cur s_wait]; first [lia | nodup_tail | (intros _; apply (so_full _ _ Ienq); rewrite Ww; discriminate)].
      * wake_fields Hl Hl2 Hw Hne; repeat split; try same_abs.
  - (* ERelD *)
    writer Hl c.
    pose proof (count_pos_lookup owes_d _ _ _ Hl eq_refl) as Hh1.
    assert (H1 : 1 <= s_cur (q_deq c)) by (unfold abs_len, s_free in *; lia).
    destruct (sem_release_cases _ _ Hcap Ideq H1) as [[Wn R]|[w [r [Ww R]]]]; rewrite R in Hs.
    + rewrite wake_nil in Hs. cbn [obs_at map add_obs goto] in Hs. rewrite Wn in *.
      plain Hl; try sem_tac.
    + rewrite Ww in *.
      destruct (proj1 (Idw w) (or_introl eq_refl)) as [thw [Hw Hpw]].
      assert (Hne : t <> w) by (intros ->; rewrite Hl in Hw; injection Hw as <-; discriminate).
      rewrite (wake_one _ _ _ _ Hw) in Hs.
      pose proof (Ithr w thw Hw) as Hthw.
      destruct thw as [pcw vw errw canw resw cntw capvw idxw linw]. cbn [t_pc] in Hpw. subst pcw.
      unfold thr_ok in Hthw; cbn [t_pc t_lin] in Hthw.
      match type of Hs with context [update w ?x _] => set (thw' := x) in * end.
      assert (Hl2 : lookup t (update w thw' (q_thr c)) = Some _) by (rewrite lookup_update_other; [exact Hl|exact Hne]).
      cbn [obs_at map add_obs goto] in Hs. unfold goto in Hs. cbn [add_obs] in Hs. injection Hs as <- <-.
      split.
      * constructor; wake_fields Hl Hl2 Hw Hne.
        constructor; cbn [s_size s_cur s_wait]; first [lia | nodup_tail | (intros _; apply (so_full _ _ Ideq); rewrite Ww; discriminate)].
      * wake_fields Hl Hl2 Hw Hne; repeat split; try same_abs.
  - (* DRelD *)
    writer Hl c.
    pose proof (count_pos_lookup held_d _ _ _ Hl eq_refl) as Hh1.
    assert (H1 : 1 <= s_cur (q_deq c)) by (unfold abs_len, s_free in *; lia).
    destruct (sem_release_cases _ _ Hcap Ideq H1) as [[Wn R]|[w [r [Ww R]]]]; rewrite R in Hs.
    + rewrite wake_nil in Hs. cbn [obs_at map add_obs goto] in Hs. rewrite Wn in *.
      plain Hl; try sem_tac.
    + rewrite Ww in *.
      destruct (proj1 (Idw w) (or_introl eq_refl)) as [thw [Hw Hpw]].
      assert (Hne : t <> w) by (intros ->; rewrite Hl in Hw; injection Hw as <-; discriminate).
      rewrite (wake_one _ _ _ _ Hw) in Hs.
      pose proof (Ithr w thw Hw) as Hthw.
      destruct thw as [pcw vw errw canw resw cntw capvw idxw linw]. cbn [t_pc] in Hpw. subst pcw.
      unfold thr_ok in Hthw; cbn [t_pc t_lin] in Hthw.
      match type of Hs with context [update w ?x _] => set (thw' := x) in * end.
      assert (Hl2 : lookup t (update w thw' (q_thr c)) = Some _) by (rewrite lookup_update_other; [exact Hl|exact Hne]).
      cbn [obs_at map add_obs goto] in Hs. unfold goto in Hs. cbn [add_obs] in Hs. injection Hs as <- <-.
      split.
      * constructor; wake_fields Hl Hl2 Hw Hne.
        constructor; cbn [s_size s_cur s_wait]; first [lia | nodup_tail | (intros _; apply (so_full _ _ Ideq); rewrite Ww; discriminate)].
      * wake_fields Hl Hl2 Hw Hne; repeat split; try same_abs.
  - (* DRelE *)
    writer Hl c.
    pose proof (count_pos_lookup owes_e _ _ _ Hl eq_refl) as Hh1.
    assert (H1 : 1 <= s_cur (q_enq c)) by (unfold abs_len, s_free in *; lia).
    destruct (sem_release_cases _ _ Hcap Ienq H1) as [[Wn R]|[w [r [Ww R]]]]; rewrite R in Hs.
    + rewrite wake_nil in Hs. cbn [obs_at map add_obs goto] in Hs. rewrite Wn in *.
      plain Hl; try sem_tac.
    + rewrite Ww in *.
      destruct (proj1 (Iew w) (or_introl eq_refl)) as [thw [Hw Hpw]].
      assert (Hne : t <> w) by (intros ->; rewrite Hl in Hw; injection Hw as <-; discriminate).
      rewrite (wake_one _ _ _ _ Hw) in Hs.
      pose proof (Ithr w thw Hw) as Hthw.
      destruct thw as [pcw vw errw canw resw cntw capvw idxw linw]. cbn [t_pc] in Hpw. subst pcw.
      unfold thr_ok in Hthw; cbn [t_pc t_lin] in Hthw.
      match type of Hs with context [update w ?x _] => set (thw' := x) in * end.
      assert (Hl2 : lookup t (update w thw' (q_thr c)) = Some _) by (rewrite lookup_update_other; [exact Hl|exact Hne]).
      cbn [obs_at map add_obs goto] in Hs. unfold goto in Hs. cbn [add_obs] in Hs. injection Hs as <- <-.
      split.
      * constructor; wake_fields Hl Hl2 Hw Hne.
        constructor; cbn [s_size s_cur s_wait]; first [lia | nodup_tail | (intros _; apply (so_full _ _ Ienq); rewrite Ww; discriminate)].
      * wake_fields Hl Hl2 Hw Hne; repeat split; try same_abs.
Qed.
Lemma abq_step_acquire cap c t th c' o :
  1 <= cap -> abq_inv cap c -> lookup t (q_thr c) = Some th ->
  match t_pc th with
  | EAcq | DAcq => True
  | _ => False
  end ->
  abq_step c t th = Some (c', o) ->
  abq_inv cap c' /\ step_abs cap c t th c'.
Proof.
  intros Hcap I Hl Hpc Hs. inv_facts I c.
  pose proof (Ithr t th Hl) as Hth.
  destruct th as [pc v err can res cnt capv idx lin].
  unfold abq_step, step_abs in *; cbn [t_pc t_val t_err t_can] in *; unfold thr_ok in Hth; cbn [t_pc] in Hth.
  destruct pc; try contradiction; clear Hpc.
  - (* EAcq *)
    assert (Hnin : ~ In t (s_wait (q_enq c))) by (eapply waiters_ok_not_in; [exact Hl| |exact Iew]; cbn; discriminate).
    destruct (sem_acquire_cases _ _ t can Hcap Ienq Hnin) as [[Hf [Wn R]]|[Hs0 [Hc R]]]; rewrite R in Hs.
    + (* fast path *)
      rewrite Wn in *. cbn [wake obs_at map] in Hs. unfold goto, add_obs in Hs. cbn [app] in Hs.
      destruct (q_w c) eqn:W; plain Hl; try sem_tac.
    + destruct can.
      * (* the context is already cancelled: Acquire fails and leaves the semaphore unchanged *)
        cbn [wake obs_at map] in Hs. unfold goto, add_obs in Hs. cbn [app] in Hs.
        destruct (q_w c) eqn:W; plain Hl; try sem_tac.
      * (* parks as the last waiter *)
        cbn [wake obs_at map] in Hs. unfold add_obs in Hs. cbn [app] in Hs. injection Hs as <- <-.
        split.
        -- constructor; simp_goal Hl; try field Hl; try thr_tac.
           ++ constructor; cbn [s_size s_cur s_wait]; first [lia | (intros _; exact Hc) | (apply nodup_snoc; assumption)].
           ++ eapply waiters_ok_push; [exact Hl|reflexivity|assumption].
        -- simp_goal Hl; repeat split; try same_abs.
  - (* DAcq *)
    assert (Hnin : ~ In t (s_wait (q_deq c))) by (eapply waiters_ok_not_in; [exact Hl| |exact Idw]; cbn; discriminate).
    destruct (sem_acquire_cases _ _ t can Hcap Ideq Hnin) as [[Hf [Wn R]]|[Hs0 [Hc R]]]; rewrite R in Hs.
    + (* fast path *)
      rewrite Wn in *. cbn [wake obs_at map] in Hs. unfold goto, add_obs in Hs. cbn [app] in Hs.
      destruct (q_w c) eqn:W; plain Hl; try sem_tac.
    + destruct can.
      * (* the context is already cancelled: Acquire fails and leaves the semaphore unchanged *)
        cbn [wake obs_at map] in Hs. unfold goto, add_obs in Hs. cbn [app] in Hs.
        destruct (q_w c) eqn:W; plain Hl; try sem_tac.
      * (* parks as the last waiter *)
        cbn [wake obs_at map] in Hs. unfold add_obs in Hs. cbn [app] in Hs. injection Hs as <- <-.
        split.
        -- constructor; simp_goal Hl; try field Hl; try thr_tac.
           ++ constructor; cbn [s_size s_cur s_wait]; first [lia | (intros _; exact Hc) | (apply nodup_snoc; assumption)].
           ++ eapply waiters_ok_push; [exact Hl|reflexivity|assumption].
        -- simp_goal Hl; repeat split; try same_abs.
Qed.
Definition same_abs_log (c c' : abq_cfg) : Prop :=
  abq_abs c' = abq_abs c /\ g_in c' = g_in c /\ g_out c' = g_out c.

Lemma abq_call_inv cap c t op c' o :
  1 <= cap -> abq_inv cap c -> abq_exec1 c (ACall t op) = Some (c', o) ->
  abq_inv cap c' /\ same_abs_log c c'.
Proof.
  intros Hcap I Hs. inv_facts I c. cbn [abq_exec1] in Hs.
  destruct (lookup t (q_thr c)) as [x|] eqn:Hl; [discriminate|]. injection Hs as <- <-.
  unfold same_abs_log.
  split.
  - constructor; unfold abq_abs, abs_len, abs_head, s_free in *; proj_simpl; repeat rewrite count_spawn;
      destruct op; cbn; try assumption; try lia; try geo; try same_abs.
    all: try (apply nodup_spawn; assumption).
    all: try (apply waiters_ok_spawn_irrel; [assumption|cbn; discriminate|assumption]).
    all: try (apply threads_ok_spawn; [assumption|unfold thr_ok; cbn; auto]).
  - unfold abq_abs, abs_len, abs_head; proj_simpl; repeat rewrite count_spawn; destruct op; cbn; repeat split; try same_abs.
Qed.
Lemma abq_cancel_inv cap c t c' o :
  1 <= cap -> abq_inv cap c -> abq_exec1 c (ACancel t) = Some (c', o) ->
  abq_inv cap c' /\ same_abs_log c c'.
Proof.
  intros Hcap I Hs. inv_facts I c. cbn [abq_exec1] in Hs.
  destruct (lookup t (q_thr c)) as [th|] eqn:Hl; [|discriminate].
  pose proof (Ithr t th Hl) as Hth.
  destruct th as [pc v err can res cnt capv idx lin].
  cbn [t_pc t_can] in Hs. destruct can; [discriminate|].
  unfold same_abs_log. unfold thr_ok in Hth; cbn [t_pc t_lin t_err t_can t_res t_cnt t_capv t_idx] in Hth.
  destruct pc.
  2: {
    unfold cancel_parked in Hs.
    rewrite (sem_cancel_ok _ _ t Ienq) in Hs. rewrite wake_nil in Hs. cbn [obs_at map] in Hs.
    injection Hs as <- <-.
    assert (Hin : In t (s_wait (q_enq c))) by (eapply waiters_ok_in; [exact Hl|reflexivity|exact Iew]).
    split.
    + constructor; simp_goal Hl; try field Hl; try thr_tac.
      * constructor; cbn [s_size s_cur s_wait]; first [lia | (apply nodup_remove_tid; assumption) | idtac].
        intros _. match goal with H : s_wait _ <> [] -> _ |- _ => apply H end. intros E. rewrite E in Hin. contradiction.
      * eapply waiters_ok_remove_tid; [assumption|exact Hl|cbn; discriminate|assumption].
    + simp_goal Hl; repeat split; try same_abs.
  }
  17: {
    unfold cancel_parked in Hs.
    rewrite (sem_cancel_ok _ _ t Ideq) in Hs. rewrite wake_nil in Hs. cbn [obs_at map] in Hs.
    injection Hs as <- <-.
    assert (Hin : In t (s_wait (q_deq c))) by (eapply waiters_ok_in; [exact Hl|reflexivity|exact Idw]).
    split.
    + constructor; simp_goal Hl; try field Hl; try thr_tac.
      * constructor; cbn [s_size s_cur s_wait]; first [lia | (apply nodup_remove_tid; assumption) | idtac].
        intros _. match goal with H : s_wait _ <> [] -> _ |- _ => apply H end. intros E. rewrite E in Hin. contradiction.
      * eapply waiters_ok_remove_tid; [assumption|exact Hl|cbn; discriminate|assumption].
    + simp_goal Hl; repeat split; try same_abs.
  }
  all: injection Hs as <- <-.
  all: split; [constructor; simp_goal Hl; try field Hl; try thr_tac | simp_goal Hl; repeat split; try same_abs].
  all: try tauto.
Qed.
(* what an event does to the abstract queue and to the history *)
Definition ev_abs (cap : Z) (c : abq_cfg) (e : abq_ev) (c' : abq_cfg) : Prop :=
  match e with
  | AStep t =>
    match lookup t (q_thr c) with
    | Some th => step_abs cap c t th c'
    | None => True
    end
  | _ => same_abs_log c c'
  end.

Lemma abq_inv_exec1 cap c e c' o :
  1 <= cap -> abq_inv cap c -> abq_exec1 c e = Some (c', o) ->
  abq_inv cap c' /\ ev_abs cap c e c'.
Proof.
  intros Hcap I Hs. destruct e as [t op|t|t]; unfold ev_abs.
  - eapply abq_call_inv; eassumption.
  - cbn [abq_exec1] in Hs. destruct (lookup t (q_thr c)) as [th|] eqn:Hl; [|discriminate].
    destruct (t_pc th) eqn:P.
    all: try (apply (abq_step_enq cap c t th c' o Hcap I Hl); [rewrite P; exact Logic.I|exact Hs]).
    all: try (apply (abq_step_deq cap c t th c' o Hcap I Hl); [rewrite P; exact Logic.I|exact Hs]).
    all: try (apply (abq_step_read cap c t th c' o Hcap I Hl); [rewrite P; exact Logic.I|exact Hs]).
    all: try (apply (abq_step_release cap c t th c' o Hcap I Hl); [rewrite P; exact Logic.I|exact Hs]).
    all: try (apply (abq_step_acquire cap c t th c' o Hcap I Hl); [rewrite P; exact Logic.I|exact Hs]).
    all: unfold abq_step in Hs; rewrite P in Hs; discriminate.
  - eapply abq_cancel_inv; eassumption.
Qed.

Lemma abq_inv_next cap c e c' :
  1 <= cap -> abq_inv cap c -> abq_next c e = Some c' -> abq_inv cap c'.
Proof.
  intros Hcap I H. unfold abq_next in H.
  destruct (abq_exec1 c e) as [[c1 o]|] eqn:E; [|discriminate]. injection H as <-.
  exact (proj1 (abq_inv_exec1 cap c e c1 o Hcap I E)).
Qed.

(* the invariant holds in every configuration reachable by any event sequence *)
Theorem abq_inv_reachable_lemma cap :
  1 <= cap -> forall evs c, exec abq_next (abq_init cap) evs = Some c -> abq_inv cap c.
Proof.
  intros Hcap evs c H.
  apply (invariant_reachable abq_cfg abq_ev abq_next (abq_inv cap)) with (evs := evs) (c := abq_init cap).
  - intros c0 e c1 I0 Hn. exact (abq_inv_next cap c0 e c1 Hcap I0 Hn).
  - apply abq_inv_init, Hcap.
  - exact H.
Qed.
