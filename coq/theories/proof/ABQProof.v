(* ABQProof (part 1): library lemmas for the ConcurrentArrayBlockingQueue model — lists used as
   arrays, the ring read-out, the Weighted semaphore under its well-formedness invariant, thread
   tables — and the definition of the inductive invariant [abq_inv] with its initial case. *)
From Ekit Require Import Common Conc ABQModel.
From Coq Require Import ZifyBool Arith PeanoNat.

(* ------------------------------------------------------------------------------------ *)
(* arrays                                                                                *)
(* ------------------------------------------------------------------------------------ *)
Lemma abq_set_nth_length (l : list Z) i a : length (set_nth l i a) = length l.
Proof. revert i; induction l as [|x r IH]; intros [|i]; cbn; auto. Qed.

Lemma abq_nth_set_nth_same (l : list Z) i a : (i < length l)%nat -> nth i (set_nth l i a) 0 = a.
Proof.
  revert i; induction l as [|x r IH]; intros [|i] H; cbn in *; try lia; auto.
  apply IH; lia.
Qed.

Lemma abq_nth_set_nth_other (l : list Z) i j a : i <> j -> nth j (set_nth l i a) 0 = nth j l 0.
Proof.
  revert i j; induction l as [|x r IH]; intros [|i] [|j] H; cbn; auto; try congruence.
Qed.

Lemma cap_of_dset d i v : cap_of (dset d i v) = cap_of d.
Proof. unfold cap_of, dset. rewrite abq_set_nth_length. reflexivity. Qed.

Lemma dget_dset_same d i v : 0 <= i < cap_of d -> dget (dset d i v) i = v.
Proof. unfold cap_of, dget, dset. intros H. apply abq_nth_set_nth_same. lia. Qed.

Lemma dget_dset_other d i j v : 0 <= i -> 0 <= j -> i <> j -> dget (dset d i v) j = dget d j.
Proof. unfold dget, dset. intros Hi Hj H. apply abq_nth_set_nth_other. lia. Qed.

Lemma cap_of_repeat n : 0 <= n -> cap_of (repeat 0 (Z.to_nat n)) = n.
Proof. intros H. unfold cap_of. rewrite repeat_length. lia. Qed.

Lemma idx_ok_iff d i : idx_ok d i = true <-> 0 <= i < cap_of d.
Proof. unfold idx_ok. lia. Qed.

(* ------------------------------------------------------------------------------------ *)
(* modular arithmetic facts used for the ring cursors                                     *)
(* ------------------------------------------------------------------------------------ *)
Lemma mod_of_divide m a b : 0 < m -> (m | b - a) -> 0 <= b < m -> a mod m = b.
Proof.
  intros Hm [k Hk] Hb. symmetry. apply (Z.mod_unique a m (- k) b); [left; exact Hb|]. lia.
Qed.

Lemma mod_eq_small m a i j : 0 < m -> 0 <= i < j -> j - i < m -> (a + i) mod m <> (a + j) mod m.
Proof.
  intros Hm Hi Hj E.
  assert (D : (m | (a + j) - (a + i))).
  { apply Z.mod_divide; [lia|]. rewrite Zminus_mod, E, Z.sub_diag. apply Z.mod_0_l. lia. }
  destruct D as [k Hk]. assert (k = 0 \/ 1 <= k \/ k <= -1) as [K|[K|K]] by lia; nia.
Qed.

Lemma mod_add_cap m a : 0 < m -> (a + m) mod m = a mod m.
Proof. intros Hm. replace (a + m) with (a + 1 * m) by lia. apply Z_mod_plus_full. Qed.

(* ------------------------------------------------------------------------------------ *)
(* the ring read-out                                                                     *)
(* ------------------------------------------------------------------------------------ *)
Lemma ring_length d h n : length (ring d h n) = Z.to_nat n.
Proof. unfold ring. rewrite map_length, seq_length. reflexivity. Qed.

Lemma ring_nonpos d h n : n <= 0 -> ring d h n = [].
Proof. intros H. unfold ring. replace (Z.to_nat n) with O by lia. reflexivity. Qed.

Lemma ring_snoc d h n : 0 <= n -> ring d h (n + 1) = ring d h n ++ [dget d ((h + n) mod cap_of d)].
Proof.
  intros H. unfold ring. replace (Z.to_nat (n + 1)) with (S (Z.to_nat n)) by lia.
  rewrite seq_S, map_app. cbn. repeat f_equal. lia.
Qed.

Lemma ring_uncons d h n : 1 <= n -> ring d h n = dget d (h mod cap_of d) :: ring d (h + 1) (n - 1).
Proof.
  intros H. unfold ring. replace (Z.to_nat n) with (S (Z.to_nat (n - 1))) by lia.
  cbn [seq map]. f_equal; [f_equal; f_equal; lia|].
  rewrite <- seq_shift, map_map. apply map_ext. intros i. f_equal. f_equal. lia.
Qed.

Lemma ring_ext d d' h n :
  cap_of d' = cap_of d ->
  (forall i, 0 <= i < n -> dget d' ((h + i) mod cap_of d) = dget d ((h + i) mod cap_of d)) ->
  ring d' h n = ring d h n.
Proof.
  intros Hc H. unfold ring. rewrite Hc. apply map_ext_in. intros i Hi. apply in_seq in Hi.
  apply H. lia.
Qed.

Lemma ring_add_cap d h n : 0 < cap_of d -> ring d (h + cap_of d) n = ring d h n.
Proof.
  intros Hc. unfold ring. apply map_ext. intros i. f_equal.
  replace (h + cap_of d + Z.of_nat i) with (h + Z.of_nat i + cap_of d) by lia.
  apply mod_add_cap, Hc.
Qed.

(* writing outside the window does not change the read-out *)
Lemma ring_dset_outside d j v h n :
  0 < cap_of d -> 0 <= j ->
  (forall i, 0 <= i < n -> (h + i) mod cap_of d <> j) ->
  ring (dset d j v) h n = ring d h n.
Proof.
  intros Hc Hj H. apply ring_ext; [apply cap_of_dset|].
  intros i Hi. apply dget_dset_other; [exact Hj| |].
  - apply Z.mod_pos_bound, Hc.
  - intros E. apply (H i Hi). symmetry; exact E.
Qed.

(* ------------------------------------------------------------------------------------ *)
(* tid lists                                                                             *)
(* ------------------------------------------------------------------------------------ *)
Lemma in_remove_tid t x l : NoDup l -> (In x (remove_tid t l) <-> In x l /\ x <> t).
Proof.
  induction l as [|y r IH]; cbn; [tauto|].
  intros Hnd. inversion Hnd as [|y' r' Hy Hr]; subst.
  destruct (Nat.eqb y t) eqn:E.
  - apply Nat.eqb_eq in E. subst y. split.
    + intros H. split; [right; exact H|]. intros ->. contradiction.
    + intros [[H|H] Hne]; [congruence|exact H].
  - apply Nat.eqb_neq in E. cbn. rewrite (IH Hr). split.
    + intros [H|[H Hne]]; [subst; split; [left; reflexivity|exact E]|split; [right; exact H|exact Hne]].
    + intros [[H|H] Hne]; [left; exact H|right; split; assumption].
Qed.

Lemma nodup_remove_tid t l : NoDup l -> NoDup (remove_tid t l).
Proof.
  induction l as [|y r IH]; cbn; [auto|].
  intros Hnd. inversion Hnd as [|y' r' Hy Hr]; subst.
  destruct (Nat.eqb y t); [exact Hr|]. constructor; [|apply IH, Hr].
  intros H. apply (in_remove_tid t y r Hr) in H. tauto.
Qed.

Lemma nodup_snoc (t : tid) l : NoDup l -> ~ In t l -> NoDup (l ++ [t]).
Proof.
  intros Hnd Hnin. induction l as [|y r IH]; cbn.
  - constructor; [tauto|constructor].
  - inversion Hnd; subst. constructor.
    + rewrite in_app_iff. cbn. intros [H|[H|[]]]; [tauto|]. subst. apply Hnin. left; reflexivity.
    + apply IH; [assumption|]. intros H. apply Hnin. right; exact H.
Qed.

Lemma remove_tid_app_last t l : ~ In t l -> remove_tid t (l ++ [t]) = l.
Proof.
  induction l as [|y r IH]; cbn.
  - rewrite Nat.eqb_refl. reflexivity.
  - intros H. destruct (Nat.eqb y t) eqn:E.
    + apply Nat.eqb_eq in E. subst. exfalso. apply H. left; reflexivity.
    + f_equal. apply IH. tauto.
Qed.

Lemma remove_tid_not_in t l : ~ In t l -> remove_tid t l = l.
Proof.
  induction l as [|y r IH]; cbn; [reflexivity|].
  intros H. destruct (Nat.eqb y t) eqn:E.
  - apply Nat.eqb_eq in E. subst. exfalso. apply H. left; reflexivity.
  - f_equal. apply IH. tauto.
Qed.

Lemma remove_tid_nil_iff t l : NoDup l -> In t l -> (remove_tid t l = [] <-> l = [t]).
Proof.
  intros Hnd Hin. destruct l as [|y r]; [contradiction|]. cbn.
  destruct (Nat.eqb y t) eqn:E.
  - apply Nat.eqb_eq in E. subst. split; [intros ->; reflexivity|intros H; injection H as ->; reflexivity].
  - split; [discriminate|]. intros H. injection H as -> ->. rewrite Nat.eqb_refl in E. discriminate.
Qed.

(* ------------------------------------------------------------------------------------ *)
(* the Weighted semaphore with weights 1                                                 *)
(* ------------------------------------------------------------------------------------ *)
Record sem_ok (cap : Z) (s : sem) : Prop := {
  so_size : s_size s = cap;
  so_cur : 0 <= s_cur s <= cap;
  (* every Release notifies to a fixpoint: waiters remain only when no token is left *)
  so_full : s_wait s <> [] -> s_cur s = cap;
  so_nodup : NoDup (s_wait s)
}.

Lemma sem_release_cases cap s :
  1 <= cap -> sem_ok cap s -> 1 <= s_cur s ->
  (s_wait s = [] /\
   sem_release s = Some ({| s_size := cap; s_cur := s_cur s - 1; s_wait := [] |}, [])) \/
  (exists w r, s_wait s = w :: r /\
   sem_release s = Some ({| s_size := cap; s_cur := s_cur s; s_wait := r |}, [w])).
Proof.
  intros Hcap [Hsz Hcur Hfull Hnd] H1. unfold sem_release.
  destruct (s_cur s - 1 <? 0) eqn:E; [lia|].
  destruct (s_wait s) as [|w r] eqn:W.
  - left. split; [reflexivity|]. cbn. rewrite Hsz. reflexivity.
  - right. exists w, r. split; [reflexivity|].
    assert (Hc : s_cur s = cap) by (apply Hfull; discriminate).
    cbn [sem_notify]. rewrite Hsz, Hc.
    replace (cap - (cap - 1) <? 1) with false by lia.
    replace (cap - 1 + 1) with cap by lia.
    destruct r as [|w2 r2]; cbn [sem_notify].
    + reflexivity.
    + replace (cap - cap <? 1) with true by lia. reflexivity.
Qed.

Lemma sem_release_none s : sem_release s = None -> s_cur s <= 0.
Proof.
  unfold sem_release. destruct (s_cur s - 1 <? 0) eqn:E; [lia|].
  destruct (sem_notify (s_size s) (s_cur s - 1) (s_wait s)) as [[a b] d]. discriminate.
Qed.

Lemma sem_cancel_ok cap s t :
  sem_ok cap s ->
  sem_cancel t s = ({| s_size := cap; s_cur := s_cur s; s_wait := remove_tid t (s_wait s) |}, []).
Proof.
  intros [Hsz Hcur Hfull Hnd]. unfold sem_cancel.
  destruct (s_wait s) as [|w r] eqn:W.
  - destruct s as [sz cu wa]; cbn in *. subst. reflexivity.
  - assert (Hc : s_cur s = cap) by (apply Hfull; discriminate).
    cbn [remove_tid]. destruct (Nat.eqb w t) eqn:E.
    + replace (s_cur s <? s_size s) with false by lia. rewrite Hsz. reflexivity.
    + rewrite Hsz. reflexivity.
Qed.

Lemma sem_acquire_cases cap s t can :
  1 <= cap -> sem_ok cap s -> ~ In t (s_wait s) ->
  (1 <= s_free s /\ s_wait s = [] /\
   sem_acquire t can s = ({| s_size := cap; s_cur := s_cur s + 1; s_wait := [] |}, AcqOk, [])) \/
  ((s_free s = 0 \/ s_wait s <> []) /\ s_cur s = cap /\
   sem_acquire t can s =
     if can then ({| s_size := cap; s_cur := s_cur s; s_wait := s_wait s |}, AcqErr, [])
     else ({| s_size := cap; s_cur := s_cur s; s_wait := s_wait s ++ [t] |}, AcqPark, [])).
Proof.
  intros Hcap Hok Hnin. pose proof Hok as [Hsz Hcur Hfull Hnd]. unfold sem_acquire, s_free.
  destruct ((1 <=? s_size s - s_cur s) && match s_wait s with [] => true | _ :: _ => false end) eqn:F.
  - left. apply andb_prop in F. destruct F as [F1 F2].
    destruct (s_wait s) eqn:W; [|discriminate]. rewrite Hsz. split; [lia|]. split; reflexivity.
  - right.
    assert (Hc : s_cur s = cap).
    { destruct (s_wait s) as [|w r] eqn:W.
      - rewrite andb_true_r in F. lia.
      - apply Hfull. discriminate. }
    split; [destruct (s_wait s); [left; lia|right; discriminate]|]. split; [exact Hc|].
    replace (s_size s <? 1) with false by lia.
    destruct can; [|rewrite Hsz; reflexivity].
    assert (Hok1 : sem_ok cap {| s_size := s_size s; s_cur := s_cur s; s_wait := s_wait s ++ [t] |}).
    { constructor; cbn; auto.
      apply nodup_snoc; assumption. }
    rewrite (sem_cancel_ok cap _ t Hok1). cbn [s_cur s_wait].
    rewrite (remove_tid_app_last t (s_wait s) Hnin). reflexivity.
Qed.

(* ------------------------------------------------------------------------------------ *)
(* thread tables                                                                         *)
(* ------------------------------------------------------------------------------------ *)
Notation thrs := (list (tid * abq_thr)).

Lemma abq_lookup_in_tids (t : tid) (l : thrs) th : lookup t l = Some th -> In t (tids l).
Proof.
  intros H. destruct (in_dec Nat.eq_dec t (tids l)) as [I|N]; [exact I|].
  apply lookup_none_not_in in N. congruence.
Qed.

Lemma abq_lookup_remove_same (t : tid) (l : thrs) : NoDup (tids l) -> lookup t (remove t l) = None.
Proof.
  induction l as [|[t' p'] r IH]; cbn; [reflexivity|].
  intros Hnd. inversion Hnd as [|x xs Hx Hr]; subst.
  destruct (Nat.eqb t t') eqn:E.
  - apply Nat.eqb_eq in E. subst. apply lookup_none_not_in. exact Hx.
  - cbn. rewrite E. apply IH, Hr.
Qed.

Lemma abq_lookup_remove_other (t t2 : tid) (l : thrs) : t2 <> t -> lookup t2 (remove t l) = lookup t2 l.
Proof.
  intros Hne. induction l as [|[t' p'] r IH]; cbn; [reflexivity|].
  destruct (Nat.eqb t t') eqn:E.
  - apply Nat.eqb_eq in E. subst. destruct (Nat.eqb t2 t') eqn:E2; [apply Nat.eqb_eq in E2; congruence|reflexivity].
  - cbn. rewrite IH. reflexivity.
Qed.

Lemma abq_lookup_spawn (t t2 : tid) (p : abq_thr) (l : thrs) :
  lookup t2 (spawn t p l) =
  match lookup t2 l with Some x => Some x | None => if Nat.eqb t2 t then Some p else None end.
Proof.
  unfold spawn. induction l as [|[t' p'] r IH]; cbn; [reflexivity|].
  destruct (Nat.eqb t2 t'); [reflexivity|exact IH].
Qed.

Lemma count_pos_lookup (f : abq_thr -> bool) t th (l : thrs) :
  lookup t l = Some th -> f th = true -> 1 <= count f l.
Proof.
  intros Hl Hf. pose proof (count_remove _ f t th l Hl) as Hc. rewrite Hf in Hc.
  pose proof (count_nonneg _ f (remove t l)). lia.
Qed.

Lemma count_sub (f g : abq_thr -> bool) (l : thrs) :
  (forall x, f x = true -> g x = true) -> count f l <= count g l.
Proof.
  intros H. induction l as [|[t p] r IH]; cbn; [lia|].
  destruct (f p) eqn:F; [rewrite (H p F); lia|destruct (g p); lia].
Qed.

(* when the table has exactly one g-thread and it is th, every sub-predicate of g counts th only *)
Lemma count_sub_single (f g : abq_thr -> bool) t th (l : thrs) :
  (forall x, f x = true -> g x = true) ->
  lookup t l = Some th -> g th = true -> count g l = 1 ->
  count f l = if f th then 1 else 0.
Proof.
  intros H Hl Hg H1.
  pose proof (count_remove _ f t th l Hl) as Hf.
  pose proof (count_remove _ g t th l Hl) as Hgc. rewrite Hg in Hgc.
  pose proof (count_sub f g (remove t l) H).
  pose proof (count_nonneg _ f (remove t l)). lia.
Qed.

Lemma count_sub_zero (f g : abq_thr -> bool) (l : thrs) :
  (forall x, f x = true -> g x = true) -> count g l = 0 -> count f l = 0.
Proof.
  intros H H0. pose proof (count_sub f g l H). pose proof (count_nonneg _ f l). lia.
Qed.

(* ---------- waiters <-> parked threads ---------- *)
Definition parked_at (p : abq_pc) (l : thrs) (x : tid) : Prop :=
  exists th, lookup x l = Some th /\ t_pc th = p.

Definition waiters_ok (p : abq_pc) (ws : list tid) (l : thrs) : Prop :=
  forall x, In x ws <-> parked_at p l x.

Lemma waiters_ok_update_irrel p ws (l : thrs) t th th' :
  lookup t l = Some th -> t_pc th <> p -> t_pc th' <> p ->
  waiters_ok p ws l -> waiters_ok p ws (update t th' l).
Proof.
  intros Hl Hp Hp' H x. rewrite (H x). unfold parked_at.
  destruct (Nat.eq_dec x t) as [->|Hne].
  - rewrite (lookup_update_same _ t th' l th Hl). rewrite Hl.
    split; intros [y [E1 E2]]; injection E1 as <-; contradiction.
  - rewrite (lookup_update_other _ t x th' l Hne). tauto.
Qed.

Lemma waiters_ok_remove_irrel p ws (l : thrs) t th :
  NoDup (tids l) -> lookup t l = Some th -> t_pc th <> p ->
  waiters_ok p ws l -> waiters_ok p ws (remove t l).
Proof.
  intros Hnd Hl Hp H x. rewrite (H x). unfold parked_at.
  destruct (Nat.eq_dec x t) as [->|Hne].
  - rewrite (abq_lookup_remove_same t l Hnd), Hl.
    split; intros [y [E1 E2]]; [injection E1 as <-; contradiction|discriminate].
  - rewrite (abq_lookup_remove_other t x l Hne). tauto.
Qed.

Lemma waiters_ok_spawn_irrel p ws (l : thrs) t th' :
  lookup t l = None -> t_pc th' <> p ->
  waiters_ok p ws l -> waiters_ok p ws (spawn t th' l).
Proof.
  intros Hl Hp H x. rewrite (H x). unfold parked_at. rewrite abq_lookup_spawn.
  destruct (lookup x l) as [y|] eqn:E; [tauto|].
  destruct (Nat.eqb x t) eqn:E2.
  - split; intros [y [E1 E2']]; [discriminate|injection E1 as <-; contradiction].
  - tauto.
Qed.

Lemma waiters_ok_push p ws (l : thrs) t th th' :
  lookup t l = Some th -> t_pc th' = p ->
  waiters_ok p ws l -> waiters_ok p (ws ++ [t]) (update t th' l).
Proof.
  intros Hl Hp' H x. rewrite in_app_iff, (H x). unfold parked_at. cbn.
  destruct (Nat.eq_dec x t) as [->|Hne].
  - rewrite (lookup_update_same _ t th' l th Hl). split; [|auto].
    intros _. exists th'. auto.
  - rewrite (lookup_update_other _ t x th' l Hne). split; [intros [A|[B|[]]]; [exact A|congruence]|auto].
Qed.

Lemma waiters_ok_remove_tid p ws (l : thrs) t th th' :
  NoDup ws -> lookup t l = Some th -> t_pc th' <> p ->
  waiters_ok p ws l -> waiters_ok p (remove_tid t ws) (update t th' l).
Proof.
  intros Hnd Hl Hp' H x. rewrite (in_remove_tid t x ws Hnd), (H x). unfold parked_at.
  destruct (Nat.eq_dec x t) as [->|Hne].
  - rewrite (lookup_update_same _ t th' l th Hl). split; [tauto|].
    intros [y [E1 E2]]. injection E1 as <-. contradiction.
  - rewrite (lookup_update_other _ t x th' l Hne). tauto.
Qed.

Lemma waiters_ok_not_in p ws (l : thrs) t th :
  lookup t l = Some th -> t_pc th <> p -> waiters_ok p ws l -> ~ In t ws.
Proof.
  intros Hl Hp H Hin. apply (H t) in Hin. destruct Hin as [y [E1 E2]]. congruence.
Qed.

Lemma waiters_ok_in p ws (l : thrs) t th :
  lookup t l = Some th -> t_pc th = p -> waiters_ok p ws l -> In t ws.
Proof. intros Hl Hp H. apply (H t). exists th. auto. Qed.

Lemma waiters_ok_nil p ws : waiters_ok p ws [] -> ws = [].
Proof.
  intros H. destruct ws as [|w r]; [reflexivity|].
  destruct (proj1 (H w) (or_introl eq_refl)) as [y [E _]]. discriminate.
Qed.

(* ------------------------------------------------------------------------------------ *)
(* per-thread local invariant                                                            *)
(* ------------------------------------------------------------------------------------ *)
(* d h n = the shared data / head / count; only the AsSlice clauses depend on them *)
Definition thr_ok (d : list Z) (h n : Z) (th : abq_thr) : Prop :=
  match t_pc th with
  | EPark | DPark => t_lin th = [] /\ t_can th = false      (* a cancelled waiter does not stay parked *)
  | ERetErr | DRetErr => t_err th = true /\ t_lin th = []
  | ERelE | ERetCtx | DRelD | DRetCtx => t_can th = true /\ t_lin th = []
  | ETailInc | ECountInc | EIfTail | ETailZero | ERelD | ERetNil
  | DZero | DHeadInc | DCountDec | DIfHead | DHeadZero | DRelE | DRetOk => t_lin th = [t_val th]
  | SCnt => t_lin th = [] /\ t_res th = []
  | SCap => t_lin th = [] /\ t_res th = [] /\ t_cnt th = 0
  | SFor => t_lin th = [] /\ t_res th = [] /\ t_cnt th = 0 /\ t_capv th = cap_of d
  | SIndex => t_lin th = [] /\ t_capv th = cap_of d /\ 0 <= t_cnt th < n /\ t_res th = ring d h (t_cnt th)
  | SAppend => t_lin th = [] /\ t_capv th = cap_of d /\ 0 <= t_cnt th < n /\ t_res th = ring d h (t_cnt th)
               /\ t_idx th = (h + t_cnt th) mod cap_of d
  | SCntInc => t_lin th = [] /\ t_capv th = cap_of d /\ 0 <= t_cnt th < n /\ t_res th = ring d h (t_cnt th + 1)
  | SRet => t_lin th = [] /\ t_res th = ring d h n
  | _ => t_lin th = []
  end.

Definition threads_ok (l : thrs) (d : list Z) (h n : Z) : Prop :=
  forall t th, lookup t l = Some th -> thr_ok d h n th.

Lemma thr_ok_frame d h n d' h' n' th : in_rcs th = false -> thr_ok d h n th -> thr_ok d' h' n' th.
Proof. unfold in_rcs, thr_ok. destruct (t_pc th); intros F H; try discriminate; exact H. Qed.

Lemma threads_ok_update (l : thrs) d h n t th' :
  threads_ok l d h n -> thr_ok d h n th' -> threads_ok (update t th' l) d h n.
Proof.
  intros H H' x y Hl. destruct (Nat.eq_dec x t) as [->|Hne].
  - destruct (lookup t l) as [th|] eqn:E.
    + rewrite (lookup_update_same _ t th' l th E) in Hl. injection Hl as <-. exact H'.
    + assert (N : lookup t (update t th' l) = None).
      { apply lookup_none_not_in. rewrite tids_update. apply lookup_none_not_in. exact E. }
      congruence.
  - rewrite (lookup_update_other _ t x th' l Hne) in Hl. exact (H x y Hl).
Qed.

Lemma threads_ok_remove (l : thrs) d h n t :
  NoDup (tids l) -> threads_ok l d h n -> threads_ok (remove t l) d h n.
Proof.
  intros Hnd H x y Hl. destruct (Nat.eq_dec x t) as [->|Hne].
  - rewrite (abq_lookup_remove_same t l Hnd) in Hl. discriminate.
  - rewrite (abq_lookup_remove_other t x l Hne) in Hl. exact (H x y Hl).
Qed.

Lemma threads_ok_spawn (l : thrs) d h n t th' :
  threads_ok l d h n -> thr_ok d h n th' -> threads_ok (spawn t th' l) d h n.
Proof.
  intros H H' x y Hl. rewrite abq_lookup_spawn in Hl.
  destruct (lookup x l) as [z|] eqn:E.
  - injection Hl as <-. exact (H x z E).
  - destruct (Nat.eqb x t); [injection Hl as <-; exact H'|discriminate].
Qed.

(* a writer step changes data / head / count: no reader is inside its critical section *)
Lemma threads_ok_shared (l : thrs) d h n d' h' n' :
  threads_ok l d h n -> count in_rcs l = 0 -> threads_ok l d' h' n'.
Proof.
  intros H H0 x y Hl. apply (thr_ok_frame d h n); [|exact (H x y Hl)].
  destruct (in_rcs y) eqn:E; [|reflexivity].
  pose proof (count_pos_lookup in_rcs x y l Hl E). lia.
Qed.

(* ------------------------------------------------------------------------------------ *)
(* the inductive invariant                                                               *)
(* ------------------------------------------------------------------------------------ *)
(* the writer has incremented tail / head and not yet compared it with cap(c.data) *)
Definition tail_hi (th : abq_thr) : bool :=
  match t_pc th with ECountInc | EIfTail | ETailZero => true | _ => false end.
Definition head_hi (th : abq_thr) : bool :=
  match t_pc th with DCountDec | DIfHead | DHeadZero => true | _ => false end.

Record abq_inv (cap : Z) (c : abq_cfg) : Prop := {
  i_cap : cap_of (q_data c) = cap;
  i_nodup : NoDup (tids (q_thr c));
  (* RWMutex: the flag / counter are exactly the threads inside the critical sections *)
  i_w : count in_wcs (q_thr c) = (if q_w c then 1 else 0);
  i_r : count in_rcs (q_thr c) = q_r c;
  i_wr : q_w c = true -> q_r c = 0;
  (* semaphores *)
  i_enq : sem_ok cap (q_enq c);
  i_deq : sem_ok cap (q_deq c);
  i_enq_w : waiters_ok EPark (s_wait (q_enq c)) (q_thr c);
  i_deq_w : waiters_ok DPark (s_wait (q_deq c)) (q_thr c);
  (* the permit ledger *)
  i_le : s_free (q_enq c) + count held_e (q_thr c) + abs_len c + count owes_e (q_thr c) = cap;
  i_ld : s_free (q_deq c) + count held_d (q_thr c) + count owes_d (q_thr c) = abs_len c;
  (* ring geometry: tail = head + count modulo cap, in the writer's current view *)
  i_geo : (cap | q_tail c + count (pc_is ETailInc) (q_thr c) - abs_head c - abs_len c);
  i_head : 0 <= q_head c < cap + count head_hi (q_thr c);
  i_headz : 1 <= count (pc_is DHeadZero) (q_thr c) -> cap <= q_head c;
  i_tail : 0 <= q_tail c < cap + count tail_hi (q_thr c);
  i_tailz : 1 <= count (pc_is ETailZero) (q_thr c) -> cap <= q_tail c;
  (* locals *)
  i_thr : threads_ok (q_thr c) (q_data c) (q_head c) (q_count c);
  (* history: everything written = everything read, then the contents, in order *)
  i_log : g_in c = g_out c ++ abq_abs c
}.

Lemma abq_inv_init cap : 1 <= cap -> abq_inv cap (abq_init cap).
Proof.
  intros Hcap. unfold abq_init.
  constructor; unfold abs_len, abs_head, abq_abs, s_free; cbn; try lia.
  - apply cap_of_repeat. lia.
  - constructor.
  - constructor; cbn; try lia; try congruence; try constructor.
  - constructor; cbn; try lia; try congruence; try constructor.
  - intros x. unfold parked_at. cbn. split; [tauto|intros [y [E _]]; discriminate].
  - intros x. unfold parked_at. cbn. split; [tauto|intros [y [E _]]; discriminate].
  - exists 0. lia.
  - intros t th H. discriminate.
  - reflexivity.
Qed.

(* sub-predicates of "holds the write lock" *)
Lemma sub_adj_e x : adj_e x = true -> in_wcs x = true.
Proof. unfold adj_e, in_wcs. destruct (t_pc x); congruence. Qed.
Lemma sub_adj_d x : adj_d x = true -> in_wcs x = true.
Proof. unfold adj_d, in_wcs. destruct (t_pc x); congruence. Qed.
Lemma sub_adj_h x : adj_h x = true -> in_wcs x = true.
Proof. unfold adj_h, in_wcs. destruct (t_pc x); congruence. Qed.
Lemma sub_owes_e x : owes_e x = true -> in_wcs x = true.
Proof. unfold owes_e, in_wcs. destruct (t_pc x); congruence. Qed.
Lemma sub_owes_d x : owes_d x = true -> in_wcs x = true.
Proof. unfold owes_d, in_wcs. destruct (t_pc x); congruence. Qed.
Lemma sub_tail_hi x : tail_hi x = true -> in_wcs x = true.
Proof. unfold tail_hi, in_wcs. destruct (t_pc x); congruence. Qed.
Lemma sub_head_hi x : head_hi x = true -> in_wcs x = true.
Proof. unfold head_hi, in_wcs. destruct (t_pc x); congruence. Qed.
Lemma sub_is_tailinc x : pc_is ETailInc x = true -> in_wcs x = true.
Proof. unfold pc_is, in_wcs. destruct (t_pc x); cbn; congruence. Qed.
Lemma sub_is_tailzero x : pc_is ETailZero x = true -> in_wcs x = true.
Proof. unfold pc_is, in_wcs. destruct (t_pc x); cbn; congruence. Qed.
Lemma sub_is_headzero x : pc_is DHeadZero x = true -> in_wcs x = true.
Proof. unfold pc_is, in_wcs. destruct (t_pc x); cbn; congruence. Qed.

(* with no writer inside, the abstract view is the plain one *)
Lemma no_writer_view (l : thrs) :
  count in_wcs l = 0 ->
  count adj_e l = 0 /\ count adj_d l = 0 /\ count adj_h l = 0 /\ count owes_e l = 0 /\ count owes_d l = 0 /\
  count tail_hi l = 0 /\ count head_hi l = 0 /\ count (pc_is ETailInc) l = 0 /\
  count (pc_is ETailZero) l = 0 /\ count (pc_is DHeadZero) l = 0.
Proof.
  intros H. repeat split;
    first [ exact (count_sub_zero _ _ l sub_adj_e H) | exact (count_sub_zero _ _ l sub_adj_d H)
          | exact (count_sub_zero _ _ l sub_adj_h H) | exact (count_sub_zero _ _ l sub_owes_e H)
          | exact (count_sub_zero _ _ l sub_owes_d H) | exact (count_sub_zero _ _ l sub_tail_hi H)
          | exact (count_sub_zero _ _ l sub_head_hi H) | exact (count_sub_zero _ _ l sub_is_tailinc H)
          | exact (count_sub_zero _ _ l sub_is_tailzero H) | exact (count_sub_zero _ _ l sub_is_headzero H) ].
Qed.

Lemma abs_len_bounds cap c : abq_inv cap c -> 0 <= abs_len c <= cap.
Proof.
  intros I. pose proof (i_le _ _ I). pose proof (i_ld _ _ I).
  pose proof (so_cur _ _ (i_enq _ _ I)). pose proof (so_size _ _ (i_enq _ _ I)).
  pose proof (so_cur _ _ (i_deq _ _ I)). pose proof (so_size _ _ (i_deq _ _ I)).
  pose proof (count_nonneg _ held_e (q_thr c)). pose proof (count_nonneg _ owes_e (q_thr c)).
  pose proof (count_nonneg _ held_d (q_thr c)). pose proof (count_nonneg _ owes_d (q_thr c)).
  unfold s_free in *. lia.
Qed.
