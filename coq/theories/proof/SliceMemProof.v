(* Proofs about SliceMemModel (C16): where the slice functions write, which arrays their
   results live in, and that the contents they compute are those of SliceModel. *)
From Ekit Require Import Common SliceModel SliceProof SliceProof2 SliceProof3 SliceMemModel.
From Coq Require Import ZifyBool.

(* ---------- generic list facts ---------- *)
Lemma set_nth_mid_gen {A} (pre : list A) x post v : set_nth (pre ++ x :: post) (length pre) v = pre ++ v :: post.
Proof. induction pre as [|a t IH]; cbn [app length set_nth]; [reflexivity|]. rewrite IH. reflexivity. Qed.

Lemma set_nth_length {A} (l : list A) : forall i v, length (set_nth l i v) = length l.
Proof. induction l as [|a t IH]; intros [|i] v; cbn [set_nth length]; try reflexivity. rewrite IH. reflexivity. Qed.

Lemma nth_mid_gen {A} (pre : list A) x post d : nth (length pre) (pre ++ x :: post) d = x.
Proof. induction pre as [|a t IH]; cbn [app length nth]; [reflexivity|exact IH]. Qed.

Lemma split_nth_gen {A} (l : list A) d : forall a, (a < length l)%nat ->
  l = firstn a l ++ nth a l d :: skipn (S a) l.
Proof.
  induction l as [|x t IH]; intros a Ha; [cbn [length] in Ha; lia|].
  destruct a as [|a]; [reflexivity|]. cbn [firstn nth skipn app]. f_equal. apply IH. cbn [length] in Ha. lia.
Qed.

Lemma skipn_nth_cons (l : list Z) : forall i v, nth_opt l i = Some v -> skipn i l = v :: skipn (S i) l.
Proof.
  induction l as [|a t IH]; intros [|i] v Hv; cbn [nth_opt] in Hv; try discriminate.
  - injection Hv as Hv. subst v. reflexivity.
  - cbn [skipn]. apply IH. exact Hv.
Qed.

Lemma set_chk_Ok w i v w' : set_chk w i v = Ok w' -> w' = set_nth w i v /\ length w' = length w.
Proof.
  unfold set_chk. destruct (i <? length w)%nat; [|discriminate]. intros H. injection H as H. subst w'.
  split; [reflexivity|apply set_nth_length].
Qed.

(* ---------- a store seen around one window:  S1 ++ (pre ++ w ++ post) :: S2 ---------- *)
Definition mk_st (S1 : store) (pre w post : list Z) (S2 : store) : store := S1 ++ (pre ++ w ++ post) :: S2.
Definition hmatch (h : hdr) (S1 : store) (pre w : list Z) : Prop :=
  h_arr h = length S1 /\ h_off h = length pre /\ h_len h = length w.

Lemma arr_of_mk S1 pre w post S2 : arr_of (mk_st S1 pre w post S2) (length S1) = pre ++ w ++ post.
Proof. unfold arr_of, mk_st. apply nth_mid_gen. Qed.

Lemma load_mk h S1 pre w post S2 i : hmatch h S1 pre w -> load (mk_st S1 pre w post S2) h i = get_chk w i.
Proof.
  intros [Ha [Ho Hl]]. unfold load, get_chk. rewrite Ha, Ho, Hl, arr_of_mk, !nth_opt_nth_error.
  destruct (Nat.ltb_spec i (length w)) as [Hlt|Hge].
  - rewrite nth_error_app2 by lia. replace (length pre + i - length pre)%nat with i by lia.
    rewrite nth_error_app1 by lia. reflexivity.
  - rewrite (proj2 (nth_error_None w i)) by lia. reflexivity.
Qed.

Lemma set_nth_window (pre w post : list Z) i v : (i < length w)%nat ->
  set_nth (pre ++ w ++ post) (length pre + i) v = pre ++ set_nth w i v ++ post.
Proof.
  intros Hi. induction pre as [|a t IH]; cbn [app length Nat.add set_nth]; [|rewrite IH; reflexivity].
  revert i Hi. induction w as [|x u IHw]; intros i Hi; [cbn [length] in Hi; lia|].
  destruct i as [|i]; cbn [app set_nth]; [reflexivity|]. rewrite IHw; [reflexivity|]. cbn [length] in Hi. lia.
Qed.

Lemma store_mk h S1 pre w post S2 i v : hmatch h S1 pre w ->
  store_at (mk_st S1 pre w post S2) h i v = obind (set_chk w i v) (fun w' => Ok (mk_st S1 pre w' post S2)).
Proof.
  intros [Ha [Ho Hl]]. unfold store_at, set_chk. rewrite Ha, Ho, Hl, arr_of_mk.
  destruct (Nat.ltb_spec i (length w)) as [Hlt|Hge]; [|reflexivity].
  assert (Hin : (length pre + i <? length (pre ++ w ++ post))%nat = true).
  { apply Nat.ltb_lt. rewrite !app_length. lia. }
  rewrite Hin. cbn [obind]. unfold mk_st. rewrite set_nth_mid_gen, set_nth_window by exact Hlt. reflexivity.
Qed.

Lemma hmatch_len h S1 pre w w' : hmatch h S1 pre w -> length w' = length w -> hmatch h S1 pre w'.
Proof. intros [Ha [Ho Hl]] He. repeat split; try assumption. rewrite He. exact Hl. Qed.

(* ---------- the in-place loops are the list-level loops of SliceModel run on the window ---------- *)
Definition lift (S1 : store) (pre post : list Z) (S2 : store) (o : outcome (list Z)) : outcome store :=
  obind o (fun w' => Ok (mk_st S1 pre w' post S2)).

Lemma reverse_self_loop_lift h S1 pre post S2 : forall fuel w i j, hmatch h S1 pre w ->
  reverse_self_loop_m fuel (mk_st S1 pre w post S2) h i j = lift S1 pre post S2 (reverse_self_loop fuel w i j).
Proof.
  induction fuel as [|f IH]; intros w i j Hm; cbn [reverse_self_loop_m reverse_self_loop];
    (destruct (i <? j); [|reflexivity]); [reflexivity|].
  rewrite !(load_mk h S1 pre w post S2 _ Hm).
  destruct (get_chk w (Z.to_nat i)) as [vi| |]; cbn [obind lift]; try reflexivity.
  destruct (get_chk w (Z.to_nat j)) as [vj| |]; cbn [obind lift]; try reflexivity.
  rewrite (store_mk h S1 pre w post S2 _ _ Hm).
  destruct (set_chk w (Z.to_nat i) vj) as [w1| |] eqn:H1; cbn [obind lift]; try reflexivity.
  apply set_chk_Ok in H1. destruct H1 as [_ Hl1].
  pose proof (hmatch_len h S1 pre w w1 Hm Hl1) as Hm1.
  rewrite (store_mk h S1 pre w1 post S2 _ _ Hm1).
  destruct (set_chk w1 (Z.to_nat j) vi) as [w2| |] eqn:H2; cbn [obind lift]; try reflexivity.
  apply set_chk_Ok in H2. destruct H2 as [_ Hl2].
  apply IH. apply (hmatch_len h S1 pre w1 w2 Hm1 Hl2).
Qed.

Lemma shift_left_lift h S1 pre post S2 : forall n w i, hmatch h S1 pre w ->
  shift_left_m (mk_st S1 pre w post S2) h i n = lift S1 pre post S2 (shift_left w i n).
Proof.
  induction n as [|n IH]; intros w i Hm; cbn [shift_left_m shift_left]; [reflexivity|].
  rewrite (load_mk h S1 pre w post S2 _ Hm).
  destruct (get_chk w (i + 1)) as [v| |]; cbn [obind lift]; try reflexivity.
  rewrite (store_mk h S1 pre w post S2 _ _ Hm).
  destruct (set_chk w i v) as [w1| |] eqn:H1; cbn [obind lift]; try reflexivity.
  apply set_chk_Ok in H1. destruct H1 as [_ Hl1]. apply IH. apply (hmatch_len h S1 pre w w1 Hm Hl1).
Qed.

Lemma shift_right_lift h S1 pre post S2 index : forall n w, hmatch h S1 pre w ->
  shift_right_m (mk_st S1 pre w post S2) h index n = lift S1 pre post S2 (shift_right w index n).
Proof.
  induction n as [|n IH]; intros w Hm; cbn [shift_right_m shift_right]; [reflexivity|].
  rewrite (load_mk h S1 pre w post S2 _ Hm).
  destruct (get_chk w (index + S n - 1)) as [v| |]; cbn [obind lift]; try reflexivity.
  rewrite (store_mk h S1 pre w post S2 _ _ Hm).
  destruct (set_chk w (index + S n) v) as [w1| |] eqn:H1; cbn [obind lift]; try reflexivity.
  apply set_chk_Ok in H1. destruct H1 as [_ Hl1]. apply IH. apply (hmatch_len h S1 pre w w1 Hm Hl1).
Qed.

Lemma filter_delete_loop_lift mp h S1 pre post S2 : forall n w empty idx, hmatch h S1 pre w ->
  filter_delete_loop_m mp (mk_st S1 pre w post S2) h empty idx n =
  obind (filter_delete_loop mp w empty idx n) (fun r => Ok (mk_st S1 pre (fst r) post S2, snd r)).
Proof.
  induction n as [|n IH]; intros w empty idx Hm; cbn [filter_delete_loop_m filter_delete_loop]; [reflexivity|].
  rewrite (load_mk h S1 pre w post S2 _ Hm).
  destruct (get_chk w idx) as [v| |]; cbn [obind]; try reflexivity.
  destruct (mp (Z.of_nat idx) v); [apply IH; exact Hm|].
  rewrite (store_mk h S1 pre w post S2 _ _ Hm).
  destruct (set_chk w empty v) as [w1| |] eqn:H1; cbn [obind]; try reflexivity.
  apply set_chk_Ok in H1. destruct H1 as [_ Hl1]. apply IH. apply (hmatch_len h S1 pre w w1 Hm Hl1).
Qed.

(* ---------- ReverseSelf ---------- *)
Lemma reverse_self_m_lemma h S1 pre w post S2 : hmatch h S1 pre w ->
  reverse_self_m (mk_st S1 pre w post S2) (Some h) = Ok (mk_st S1 pre (rev w) post S2).
Proof.
  intros Hm. unfold reverse_self_m, mlen. cbn [hdr_of]. rewrite (reverse_self_loop_lift h S1 pre post S2 _ w _ _ Hm).
  destruct Hm as [_ [_ Hl]]. rewrite Hl.
  change (reverse_self_loop (length w) w 0 (Z.of_nat (length w) - 1)) with (reverse_self w).
  rewrite reverse_self_lemma. reflexivity.
Qed.
Lemma reverse_self_m_nil st : reverse_self_m st None = Ok st.
Proof. reflexivity. Qed.

(* ---------- Delete ---------- *)
Lemma delete_m_lemma h S1 pre w post S2 index : hmatch h S1 pre w -> (h_len h <= h_cap h)%nat ->
  delete_m (mk_st S1 pre w post S2) (Some h) index =
  match delete w index with
  | Ok (r, after) =>
      Ok (mk_st S1 pre after post S2, Some (mkhdr (h_arr h) (h_off h) (h_len h - 1) (h_cap h)))
  | Err e => Err e
  | Panic => Panic
  end.
Proof.
  intros Hm Hcap. unfold delete_m, delete_internal_m, delete, delete_internal, mlen. cbn [hdr_of].
  pose proof Hm as [_ [_ Hl]]. rewrite Hl.
  destruct ((index <? 0) || (index >=? Z.of_nat (length w))); [reflexivity|].
  rewrite (load_mk h S1 pre w post S2 _ Hm).
  destruct (get_chk w (Z.to_nat index)) as [res| |]; cbn [obind]; try reflexivity.
  rewrite (shift_left_lift h S1 pre post S2 _ w _ Hm).
  destruct (shift_left w (Z.to_nat index) (length w - 1 - Z.to_nat index)) as [a| |]; cbn [obind lift]; try reflexivity.
  unfold reslice.
  assert (Hr : ((0 <=? length w - 1)%nat && (length w - 1 <=? h_cap h)%nat)%bool = true).
  { apply andb_true_intro. split; [apply Nat.leb_le; lia|apply Nat.leb_le; lia]. }
  rewrite Hr. cbn [obind fst snd]. rewrite Nat.add_0_r, !Nat.sub_0_r. reflexivity.
Qed.
Lemma delete_m_nil st index : delete_m st None index = Err EIndex.
Proof.
  unfold delete_m, delete_internal_m, mlen. cbn [hdr_of nil_hdr h_len].
  assert (Hb : (index <? 0) || (index >=? Z.of_nat 0) = true) by lia. rewrite Hb. reflexivity.
Qed.

(* ---------- FilterDelete ---------- *)
Lemma filter_delete_loop_bound mp : forall n w empty idx r,
  filter_delete_loop mp w empty idx n = Ok r -> (empty <= idx)%nat ->
  (snd r <= idx + n)%nat /\ length (fst r) = length w.
Proof.
  induction n as [|n IH]; intros w empty idx r H Hle; cbn [filter_delete_loop] in H.
  - injection H as H. subst r. cbn [fst snd]. split; [lia|reflexivity].
  - destruct (get_chk w idx) as [v| |]; cbn [obind] in H; try discriminate.
    destruct (mp (Z.of_nat idx) v).
    + apply IH in H; [|lia]. destruct H as [H1 H2]. split; [lia|exact H2].
    + destruct (set_chk w empty v) as [w1| |] eqn:Hs; cbn [obind] in H; try discriminate.
      apply set_chk_Ok in Hs. destruct Hs as [_ Hl1].
      apply IH in H; [|lia]. destruct H as [H1 H2]. split; [lia|]. rewrite H2. exact Hl1.
Qed.

Lemma filter_delete_m_lemma mp h S1 pre w post S2 : hmatch h S1 pre w -> (h_len h <= h_cap h)%nat ->
  filter_delete_m mp (mk_st S1 pre w post S2) (Some h) =
  match filter_delete mp w with
  | Ok (r, after) =>
      Ok (mk_st S1 pre after post S2, Some (mkhdr (h_arr h) (h_off h) (length r) (h_cap h)))
  | Err e => Err e
  | Panic => Panic
  end.
Proof.
  intros Hm Hcap. unfold filter_delete_m, mlen. cbn [hdr_of].
  rewrite (filter_delete_loop_lift mp h S1 pre post S2 _ w _ _ Hm).
  pose proof Hm as [_ [_ Hl]]. rewrite Hl.
  pose proof (filter_delete_lemma mp w) as Hfd. unfold filter_delete in *.
  destruct (filter_delete_loop mp w 0 0 (length w)) as [[a e]| |] eqn:Hloop; cbn [obind fst snd] in *; try discriminate.
  injection Hfd as Hf1 Hf2.
  pose proof (filter_delete_loop_bound mp _ _ _ _ _ Hloop (le_n 0)) as [Hb Hla]. cbn [fst snd] in Hb, Hla.
  unfold reslice.
  assert (Hr : ((0 <=? e)%nat && (e <=? h_cap h)%nat)%bool = true).
  { apply andb_true_intro. split; apply Nat.leb_le; lia. }
  rewrite Hr. cbn [obind fst snd]. rewrite Nat.add_0_r, !Nat.sub_0_r.
  rewrite firstn_length_le by lia. reflexivity.
Qed.
Lemma filter_delete_m_nil mp st : filter_delete_m mp st None = Ok (st, None).
Proof. reflexivity. Qed.

(* ---------- append ---------- *)
Section WithExtra.
  Variable extra : nat -> nat.

  (* spare capacity: the slot right behind the window is overwritten, nothing else *)
  Lemma append_in_place h S1 pre w z post S2 v : hmatch h S1 pre w -> (h_len h < h_cap h)%nat ->
    append extra (mk_st S1 pre w (z :: post) S2) (Some h) v =
    (mk_st S1 pre (w ++ [v]) post S2, mkhdr (h_arr h) (h_off h) (S (h_len h)) (h_cap h)).
  Proof.
    intros [Ha [Ho Hl]] Hc. unfold append. cbn [hdr_of].
    rewrite (proj2 (Nat.ltb_lt _ _) Hc). rewrite Ha, arr_of_mk. unfold mk_st. rewrite set_nth_mid_gen.
    f_equal. f_equal. f_equal.
    assert (He : pre ++ w ++ z :: post = (pre ++ w) ++ z :: post) by (rewrite app_assoc; reflexivity).
    rewrite He. replace (h_off h + h_len h)%nat with (length (pre ++ w)) by (rewrite app_length; lia).
    rewrite set_nth_mid_gen. rewrite <- !app_assoc. reflexivity.
  Qed.

  (* no spare capacity (or nil): a fresh array; the old store is a prefix of the new one *)
  Lemma append_fresh_array st s v : (h_cap (hdr_of s) <= mlen s)%nat ->
    append extra st s v =
    (st ++ [firstn (mlen s) (skipn (h_off (hdr_of s)) (arr_of st (h_arr (hdr_of s)))) ++ v :: repeat 0 (extra (mlen s))],
     mkhdr (length st) 0 (S (mlen s)) (S (mlen s) + extra (mlen s))).
  Proof.
    intros Hc. unfold append, mlen in *.
    rewrite (proj2 (Nat.ltb_ge _ _) Hc). reflexivity.
  Qed.

  (* ---------- Add ---------- *)
  Lemma add_m_in_place h S1 pre w z post S2 e index : hmatch h S1 pre w -> (h_len h < h_cap h)%nat ->
    add_m extra (mk_st S1 pre w (z :: post) S2) (Some h) e index =
    match add w e index with
    | Ok r => Ok (mk_st S1 pre r post S2, Some (mkhdr (h_arr h) (h_off h) (S (h_len h)) (h_cap h)))
    | Err er => Err er
    | Panic => Panic
    end.
  Proof.
    intros Hm Hc. unfold add_m, add, mlen. cbn [hdr_of].
    pose proof Hm as [Ha [Ho Hl]]. rewrite Hl.
    destruct ((index <? 0) || (index >? Z.of_nat (length w))); [reflexivity|].
    rewrite (append_in_place h S1 pre w z post S2 0 Hm Hc). cbn [fst snd h_len].
    assert (Hm1 : hmatch (mkhdr (h_arr h) (h_off h) (S (h_len h)) (h_cap h)) S1 pre (w ++ [0])).
    { repeat split; cbn [h_arr h_off h_len]; try assumption. rewrite app_length. cbn [length]. lia. }
    assert (Hn : (S (h_len h) - 1 - Z.to_nat index)%nat = (length (w ++ [0%Z]) - 1 - Z.to_nat index)%nat).
    { rewrite app_length. cbn [length]. lia. }
    rewrite Hn.
    rewrite (shift_right_lift _ S1 pre post S2 _ _ _ Hm1).
    destruct (shift_right (w ++ [0]) (Z.to_nat index) (length (w ++ [0]) - 1 - Z.to_nat index)) as [a| |] eqn:Hs;
      cbn [obind lift]; try reflexivity.
    assert (Hla : length a = length (w ++ [0])).
    { clear -Hs. revert a Hs. generalize (w ++ [0]) as u. generalize (Z.to_nat index) as ix.
      intros ix u. generalize (length u - 1 - ix)%nat as n. intros n. revert u.
      induction n as [|n IH]; intros u a Hs; cbn [shift_right] in Hs.
      - injection Hs as Hs. subst a. reflexivity.
      - destruct (get_chk u (ix + S n - 1)) as [v| |]; cbn [obind] in Hs; try discriminate.
        destruct (set_chk u (ix + S n) v) as [u1| |] eqn:H1; cbn [obind] in Hs; try discriminate.
        apply set_chk_Ok in H1. destruct H1 as [_ Hl1]. rewrite <- Hl1. apply IH. exact Hs. }
    rewrite (store_mk _ S1 pre a post S2 _ _ (hmatch_len _ S1 pre _ a Hm1 Hla)).
    destruct (set_chk a (Z.to_nat index) e) as [r| |]; cbn [obind]; rewrite ?Hl; reflexivity.
  Qed.

  Lemma add_m_fresh st s w e index :
    firstn (mlen s) (skipn (h_off (hdr_of s)) (arr_of st (h_arr (hdr_of s)))) = w -> mlen s = length w ->
    (h_cap (hdr_of s) <= mlen s)%nat ->
    add_m extra st s e index =
    match add w e index with
    | Ok r => Ok (st ++ [r ++ repeat 0 (extra (length w))],
                  Some (mkhdr (length st) 0 (S (length w)) (S (length w) + extra (length w))))
    | Err er => Err er
    | Panic => Panic
    end.
  Proof.
    intros Hw Hl Hc. unfold add_m, add. rewrite (append_fresh_array st s 0 Hc), Hw, Hl.
    destruct ((index <? 0) || (index >? Z.of_nat (length w))); [reflexivity|].
    cbn [fst snd h_len].
    set (h1 := mkhdr (length st) 0 (S (length w)) (S (length w) + extra (length w))).
    assert (Hst : st ++ [w ++ 0 :: repeat 0 (extra (length w))] = mk_st st [] (w ++ [0]) (repeat 0 (extra (length w))) []).
    { unfold mk_st. cbn [app]. rewrite <- app_assoc. reflexivity. }
    rewrite Hst.
    assert (Hm1 : hmatch h1 st [] (w ++ [0])).
    { repeat split; cbn [h1 h_arr h_off h_len length]; try reflexivity. rewrite app_length. cbn [length]. lia. }
    assert (Hn : (S (length w) - 1 - Z.to_nat index)%nat = (length (w ++ [0%Z]) - 1 - Z.to_nat index)%nat).
    { rewrite app_length. cbn [length]. lia. }
    rewrite Hn.
    rewrite (shift_right_lift _ st [] _ [] _ _ _ Hm1).
    destruct (shift_right (w ++ [0]) (Z.to_nat index) (length (w ++ [0]) - 1 - Z.to_nat index)) as [a| |] eqn:Hs;
      cbn [obind lift]; try reflexivity.
    assert (Hla : length a = length (w ++ [0])).
    { clear -Hs. revert a Hs. generalize (w ++ [0]) as u. generalize (Z.to_nat index) as ix.
      intros ix u. generalize (length u - 1 - ix)%nat as n. intros n. revert u.
      induction n as [|n IH]; intros u a Hs; cbn [shift_right] in Hs.
      - injection Hs as Hs. subst a. reflexivity.
      - destruct (get_chk u (ix + S n - 1)) as [v| |]; cbn [obind] in Hs; try discriminate.
        destruct (set_chk u (ix + S n) v) as [u1| |] eqn:H1; cbn [obind] in Hs; try discriminate.
        apply set_chk_Ok in H1. destruct H1 as [_ Hl1]. rewrite <- Hl1. apply IH. exact Hs. }
    rewrite (store_mk _ st [] a _ [] _ _ (hmatch_len _ st [] _ a Hm1 Hla)).
    destruct (set_chk a (Z.to_nat index) e) as [r| |]; cbn [obind]; [|reflexivity|reflexivity].
    unfold mk_st. cbn [app]. reflexivity.
  Qed.
End WithExtra.

(* ================================================================== *)
(* well-formed headers, contents, and the frame                        *)
Definition contents (st : store) (h : hdr) : list Z :=
  firstn (h_len h) (skipn (h_off h) (arr_of st (h_arr h))).
Definition contents_s (st : store) (s : mslice) : list Z :=
  match s with Some h => contents st h | None => [] end.
Definition wf (st : store) (h : hdr) : Prop :=
  (h_arr h < length st)%nat /\ (h_len h <= h_cap h)%nat /\
  (h_off h + h_cap h <= length (arr_of st (h_arr h)))%nat.
Definition wfs (st : store) (s : mslice) : Prop := match s with Some h => wf st h | None => True end.
(* every array of st0 is still there, unchanged, under the same id *)
Definition keeps (st0 st : store) : Prop := firstn (length st0) st = st0.
(* ret lives in an array that did not exist in st0 *)
Definition fresh (st0 st : store) (ret : hdr) (w : list Z) : Prop :=
  keeps st0 st /\ (length st0 <= h_arr ret)%nat /\ wf st ret /\ contents st ret = w.

Lemma decompose st h : wf st h ->
  exists S1 pre post S2, st = mk_st S1 pre (contents st h) post S2 /\ hmatch h S1 pre (contents st h) /\
                         (h_cap h <= h_len h + length post)%nat.
Proof.
  intros [Ha [Hl Hc]]. unfold contents.
  set (A := arr_of st (h_arr h)) in *.
  exists (firstn (h_arr h) st), (firstn (h_off h) A), (skipn (h_len h) (skipn (h_off h) A)), (skipn (S (h_arr h)) st).
  assert (HA : firstn (h_off h) A ++ firstn (h_len h) (skipn (h_off h) A) ++ skipn (h_len h) (skipn (h_off h) A) = A).
  { rewrite firstn_skipn. apply firstn_skipn. }
  split; [|split].
  - unfold mk_st. rewrite HA. apply (split_nth_gen st [] (h_arr h) Ha).
  - repeat split.
    + rewrite firstn_length_le; [reflexivity|lia].
    + rewrite firstn_length_le; [reflexivity|lia].
    + rewrite firstn_length_le; [reflexivity|]. rewrite skipn_length. lia.
  - rewrite !skipn_length. lia.
Qed.

Lemma contents_mk h S1 pre w post S2 : hmatch h S1 pre w -> contents (mk_st S1 pre w post S2) h = w.
Proof.
  intros [Ha [Ho Hl]]. unfold contents. rewrite Ha, Ho, Hl, arr_of_mk.
  rewrite skipn_app, skipn_all, Nat.sub_diag. cbn [app skipn].
  rewrite firstn_app, firstn_all, Nat.sub_diag. cbn [firstn]. apply app_nil_r.
Qed.

Lemma contents_s_length st s : wfs st s -> length (contents_s st s) = mlen s.
Proof.
  destruct s as [h|]; [|reflexivity]. intros Hw.
  destruct (decompose st h Hw) as [S1 [pre [post [S2 [_ [[_ [_ Hl]] _]]]]]]. unfold mlen. cbn [hdr_of contents_s]. lia.
Qed.

Lemma load_contents st s i : wfs st s -> load st (hdr_of s) i = get_chk (contents_s st s) i.
Proof.
  destruct s as [h|]; intros Hw.
  - cbn [hdr_of contents_s]. destruct (decompose st h Hw) as [S1 [pre [post [S2 [Hst [Hm _]]]]]].
    remember (contents st h) as w eqn:Hw'. rewrite Hst. apply load_mk. exact Hm.
  - cbn [hdr_of contents_s]. unfold load, get_chk. cbn [nil_hdr h_len]. destruct i; reflexivity.
Qed.

Lemma get_step st s i : wfs st s -> (i < mlen s)%nat ->
  exists v, load st (hdr_of s) i = Ok v /\ skipn i (contents_s st s) = v :: skipn (S i) (contents_s st s).
Proof.
  intros Hw Hi. rewrite (load_contents st s i Hw).
  destruct (nth_opt_lt_Some (contents_s st s) i) as [v Hv]; [rewrite contents_s_length by exact Hw; exact Hi|].
  exists v. unfold get_chk. rewrite Hv. split; [reflexivity|apply skipn_nth_cons; exact Hv].
Qed.

Lemma keeps_refl st : keeps st st.
Proof. unfold keeps. apply firstn_all. Qed.
Lemma keeps_len st0 st : keeps st0 st -> (length st0 <= length st)%nat.
Proof. unfold keeps. intros H. rewrite <- H at 1. rewrite firstn_length. lia. Qed.
Lemma keeps_app st0 st X : keeps st0 st -> keeps st0 (st ++ X).
Proof.
  intros H. pose proof (keeps_len _ _ H) as Hl. unfold keeps in *. rewrite firstn_app.
  replace (length st0 - length st)%nat with 0%nat by lia. cbn [firstn]. rewrite app_nil_r. exact H.
Qed.
Lemma keeps_arr st0 st a : keeps st0 st -> (a < length st0)%nat -> arr_of st a = arr_of st0 a.
Proof.
  intros H Ha. unfold arr_of. rewrite <- (firstn_skipn (length st0) st). rewrite H. apply app_nth1. exact Ha.
Qed.
Lemma keeps_mk st0 S1 pre w post S2 : (length st0 <= length S1)%nat ->
  keeps st0 (mk_st S1 pre w post S2) <-> firstn (length st0) S1 = st0.
Proof.
  intros Hl. unfold keeps, mk_st. rewrite firstn_app.
  replace (length st0 - length S1)%nat with 0%nat by lia. cbn [firstn]. rewrite app_nil_r. reflexivity.
Qed.

Lemma load_keeps st0 st s i : keeps st0 st -> wfs st0 s -> load st (hdr_of s) i = load st0 (hdr_of s) i.
Proof.
  intros Hk Hw. destruct s as [h|]; [|reflexivity]. cbn [hdr_of]. unfold load.
  destruct Hw as [Ha _]. rewrite (keeps_arr st0 st _ Hk Ha). reflexivity.
Qed.
Lemma wfs_keeps st0 st s : keeps st0 st -> wfs st0 s -> wfs st s /\ contents_s st s = contents_s st0 s.
Proof.
  intros Hk Hw. destruct s as [h|]; [|split; [exact I|reflexivity]].
  destruct Hw as [Ha [Hl Hc]]. cbn [wfs contents_s]. unfold wf, contents. rewrite (keeps_arr st0 st _ Hk Ha).
  split; [|reflexivity]. split; [|split; assumption]. pose proof (keeps_len _ _ Hk). lia.
Qed.

Section WithExtra2.
  Variable extra : nat -> nat.

  Lemma make_fresh st0 st c : keeps st0 st -> fresh st0 (fst (make st 0 c)) (snd (make st 0 c)) [].
  Proof.
    intros Hk. unfold make. cbn [fst snd]. split; [apply keeps_app; exact Hk|].
    split; [cbn [h_arr]; apply keeps_len; exact Hk|]. split; [|reflexivity].
    unfold wf. cbn [h_arr h_off h_len h_cap]. rewrite app_length. cbn [length]. split; [lia|]. split; [lia|].
    unfold arr_of. rewrite nth_mid_gen, repeat_length. lia.
  Qed.

  Lemma append_fresh st0 st ret w v : fresh st0 st ret w ->
    fresh st0 (fst (append extra st (Some ret) v)) (snd (append extra st (Some ret) v)) (w ++ [v]).
  Proof.
    intros [Hk [Hge [Hw Hc]]].
    destruct (decompose st ret Hw) as [S1 [pre [post [S2 [Hst [Hm Hpost]]]]]]. rewrite Hc in Hst, Hm.
    pose proof Hm as [Ha [Ho Hl]].
    destruct (Nat.ltb_spec (h_len ret) (h_cap ret)) as [Hlt|Hfull].
    - destruct post as [|z post']; [cbn [length] in Hpost; lia|].
      rewrite Hst, (append_in_place extra ret S1 pre w z post' S2 v Hm Hlt). cbn [fst snd].
      set (h' := mkhdr (h_arr ret) (h_off ret) (S (h_len ret)) (h_cap ret)).
      assert (Hm' : hmatch h' S1 pre (w ++ [v])).
      { repeat split; cbn [h' h_arr h_off h_len]; try assumption. rewrite app_length. cbn [length]. lia. }
      split; [|split; [exact Hge|split; [|apply contents_mk; exact Hm']]].
      + rewrite Hst in Hk. apply (keeps_mk st0 S1 pre _ _ S2); [lia|].
        apply (keeps_mk st0 S1 pre w (z :: post') S2); [lia|exact Hk].
      + destruct Hw as [_ [_ Hcap]]. rewrite Hst, Ha, arr_of_mk in Hcap.
        unfold wf. cbn [h' h_arr h_off h_len h_cap]. rewrite Ha, arr_of_mk.
        unfold mk_st. rewrite !app_length in *. cbn [length] in *. split; [lia|]. split; [lia|]. lia.
    - rewrite (append_fresh_array extra st (Some ret) v) by (unfold mlen; cbn [hdr_of]; exact Hfull).
      unfold mlen. cbn [hdr_of fst snd]. fold (contents st ret). rewrite Hc.
      set (h' := mkhdr (length st) 0 (S (h_len ret)) (S (h_len ret) + extra (h_len ret))).
      assert (Hst' : st ++ [w ++ v :: repeat 0 (extra (h_len ret))] =
                     mk_st st [] (w ++ [v]) (repeat 0 (extra (h_len ret))) []).
      { unfold mk_st. cbn [app]. rewrite <- app_assoc. reflexivity. }
      assert (Hm' : hmatch h' st [] (w ++ [v])).
      { repeat split; cbn [h' h_arr h_off h_len length]; try reflexivity. rewrite app_length. cbn [length]. lia. }
      split; [apply keeps_app; exact Hk|]. split; [cbn [h' h_arr]; apply keeps_len; exact Hk|].
      split; [|rewrite Hst'; apply contents_mk; exact Hm'].
      unfold wf. cbn [h' h_arr h_off h_len h_cap]. rewrite app_length. cbn [length]. split; [lia|]. split; [lia|].
      unfold arr_of. rewrite nth_mid_gen, app_length. cbn [length]. rewrite repeat_length. lia.
  Qed.

  Lemma append_all_fresh st0 xs : forall st ret w, fresh st0 st ret w ->
    fresh st0 (fst (append_all extra st ret xs)) (snd (append_all extra st ret xs)) (w ++ xs).
  Proof.
    induction xs as [|x t IH]; intros st ret w Hf; cbn [append_all].
    - rewrite app_nil_r. exact Hf.
    - replace (w ++ x :: t) with ((w ++ [x]) ++ t) by (rewrite <- app_assoc; reflexivity).
      apply IH. apply append_fresh. exact Hf.
  Qed.

  Lemma keys_to_slice_fresh st0 st m : keeps st0 st ->
    exists h, snd (keys_to_slice extra st m) = Some h /\ fresh st0 (fst (keys_to_slice extra st m)) h m.
  Proof.
    intros Hk. unfold keys_to_slice. cbn [fst snd]. eexists. split; [reflexivity|].
    apply (append_all_fresh st0 m _ _ [] (make_fresh st0 st (length m) Hk)).
  Qed.

  (* the generic filter-map-append loop *)
  Fixpoint fm_list (gl : nat -> Z -> option Z) (i : nat) (l : list Z) : list Z :=
    match l with
    | [] => []
    | v :: t => match gl i v with Some w => w :: fm_list gl (S i) t | None => fm_list gl (S i) t end
    end.

  Lemma fm_loop_spec st0 s g gl : wfs st0 s ->
    (forall st i v, keeps st0 st -> (i < mlen s)%nat -> g st i v = Ok (gl i v)) ->
    forall n i st ret w, fresh st0 st ret w -> (i + n = mlen s)%nat ->
    exists st' ret', fm_loop extra g st (hdr_of s) i n ret = Ok (st', ret') /\
                     fresh st0 st' ret' (w ++ fm_list gl i (skipn i (contents_s st0 s))).
  Proof.
    intros Hw Hg. induction n as [|n IH]; intros i st ret w Hf Hin; cbn [fm_loop].
    - exists st, ret. split; [reflexivity|].
      rewrite skipn_all2 by (rewrite contents_s_length by exact Hw; lia). cbn [fm_list]. rewrite app_nil_r. exact Hf.
    - pose proof Hf as [Hk _].
      destruct (get_step st0 s i Hw) as [v [Hload Hskip]]; [lia|].
      rewrite (load_keeps st0 st s i Hk Hw), Hload. cbn [obind].
      rewrite (Hg st i v Hk) by lia. cbn [obind]. rewrite Hskip. cbn [fm_list].
      destruct (gl i v) as [x|].
      + destruct (IH (S i) _ _ _ (append_fresh st0 st ret w x Hf)) as [st' [ret' [Hl Hf']]]; [lia|].
        exists st', ret'. split; [exact Hl|]. rewrite <- app_assoc in Hf'. exact Hf'.
      + apply IH; [exact Hf|lia].
  Qed.

  Lemma reverse_loop_m_spec st0 s : wfs st0 s ->
    forall n st ret w, fresh st0 st ret w -> (n <= mlen s)%nat ->
    exists st' ret', reverse_loop_m extra st (hdr_of s) n ret = Ok (st', ret') /\
                     fresh st0 st' ret' (w ++ rev (firstn n (contents_s st0 s))).
  Proof.
    intros Hw. induction n as [|i IH]; intros st ret w Hf Hn; cbn [reverse_loop_m].
    - exists st, ret. split; [reflexivity|]. cbn [firstn rev]. rewrite app_nil_r. exact Hf.
    - pose proof Hf as [Hk _].
      rewrite (load_keeps st0 st s i Hk Hw), (load_contents st0 s i Hw).
      destruct (nth_opt_lt_Some (contents_s st0 s) i) as [v Hv]; [rewrite contents_s_length by exact Hw; lia|].
      unfold get_chk. rewrite Hv. cbn [obind].
      destruct (IH _ _ _ (append_fresh st0 st ret w v Hf)) as [st' [ret' [Hl Hf']]]; [lia|].
      exists st', ret'. split; [exact Hl|].
      rewrite (firstn_S_nth _ i v Hv), rev_app_distr. cbn [rev app].
      rewrite <- app_assoc in Hf'. exact Hf'.
  Qed.

  (* ---------- read-only loops ---------- *)
  Lemma range_fold_spec {A} (f : A -> Z -> A) st s : wfs st s -> forall n i a, (i + n = mlen s)%nat ->
    range_fold f st (hdr_of s) i n a = Ok (fold_left f (skipn i (contents_s st s)) a).
  Proof.
    intros Hw. induction n as [|n IH]; intros i a Hin; cbn [range_fold].
    - rewrite skipn_all2 by (rewrite contents_s_length by exact Hw; lia). reflexivity.
    - destruct (get_step st s i Hw) as [v [Hload Hskip]]; [lia|].
      rewrite Hload, Hskip. cbn [obind fold_left]. apply IH. lia.
  Qed.
  Lemma contains_loop_spec p st s : wfs st s -> forall n i, (i + n = mlen s)%nat ->
    contains_loop p st (hdr_of s) i n = Ok (existsb p (skipn i (contents_s st s))).
  Proof.
    intros Hw. induction n as [|n IH]; intros i Hin; cbn [contains_loop].
    - rewrite skipn_all2 by (rewrite contents_s_length by exact Hw; lia). reflexivity.
    - destruct (get_step st s i Hw) as [v [Hload Hskip]]; [lia|].
      rewrite Hload, Hskip. cbn [obind existsb]. destruct (p v); [reflexivity|]. apply IH. lia.
  Qed.
  Lemma index_loop_spec mt st s : wfs st s -> forall n i, (i + n = mlen s)%nat ->
    index_loop mt st (hdr_of s) i n = Ok (index_from mt (skipn i (contents_s st s)) (Z.of_nat i)).
  Proof.
    intros Hw. induction n as [|n IH]; intros i Hin; cbn [index_loop].
    - rewrite skipn_all2 by (rewrite contents_s_length by exact Hw; lia). reflexivity.
    - destruct (get_step st s i Hw) as [v [Hload Hskip]]; [lia|].
      rewrite Hload, Hskip. cbn [obind index_from]. destruct (mt v); [reflexivity|].
      rewrite IH by lia. f_equal. f_equal. lia.
  Qed.
  Lemma last_index_loop_m_spec mt st s : wfs st s -> forall n,
    last_index_loop_m mt st (hdr_of s) n = last_index_loop mt (contents_s st s) n.
  Proof.
    intros Hw. induction n as [|i IH]; cbn [last_index_loop_m last_index_loop]; [reflexivity|].
    rewrite (load_contents st s i Hw). destruct (get_chk (contents_s st s) i) as [v| |]; cbn [obind]; try reflexivity.
    destruct (mt v); [reflexivity|exact IH].
  Qed.

  Lemma contains_func_m_lemma st s p : wfs st s -> contains_func_m st s p = Ok (contains_func (contents_s st s) p).
  Proof. intros Hw. unfold contains_func_m. rewrite (contains_loop_spec p st s Hw) by lia. reflexivity. Qed.
  Lemma index_func_m_lemma mt st s : wfs st s -> index_func_m mt st s = Ok (index_func mt (contents_s st s)).
  Proof. intros Hw. unfold index_func_m. rewrite (index_loop_spec mt st s Hw) by lia. reflexivity. Qed.
  Lemma last_index_func_m_lemma mt st s : wfs st s -> last_index_func_m mt st s = last_index_func mt (contents_s st s).
  Proof.
    intros Hw. unfold last_index_func_m, last_index_func. rewrite (last_index_loop_m_spec mt st s Hw).
    rewrite contents_s_length by exact Hw. reflexivity.
  Qed.
  Lemma sum_m_lemma st s : wfs st s -> sum_m st s = Ok (sum_slice (contents_s st s)).
  Proof. intros Hw. unfold sum_m. rewrite (range_fold_spec _ st s Hw) by lia. reflexivity. Qed.
  Lemma to_map_m_lemma st s : wfs st s -> to_map_m st s = Ok (to_set (contents_s st s)).
  Proof. intros Hw. unfold to_map_m. rewrite (range_fold_spec _ st s Hw) by lia. reflexivity. Qed.

  (* ---------- the functions that return a new slice ---------- *)
  (* result of a pure function: a non-nil header into a fresh array, old arrays untouched *)
  Definition pure_result (st0 : store) (o : outcome (store * mslice)) (w : list Z) : Prop :=
    exists st' h, o = Ok (st', Some h) /\ fresh st0 st' h w.

  Lemma fm_list_filter_map (mf : Z -> Z -> Z) (mp : Z -> Z -> bool) (l : list Z) : forall i,
    fm_list (fun i v => if mp (Z.of_nat i) v then Some (mf (Z.of_nat i) v) else None) i l =
    filter_map_from mf mp l (Z.of_nat i).
  Proof.
    induction l as [|v t IH]; intros i; cbn [fm_list filter_map_from]; [reflexivity|].
    replace (Z.of_nat i + 1) with (Z.of_nat (S i)) by lia. destruct (mp (Z.of_nat i) v); rewrite IH; reflexivity.
  Qed.
  Lemma fm_list_find_all (mt : Z -> bool) (l : list Z) : forall i, fm_list (fun _ v => if mt v then Some v else None) i l = find_all mt l.
  Proof.
    induction l as [|v t IH]; intros i; cbn [fm_list find_all]; [reflexivity|]. destruct (mt v); rewrite IH; reflexivity.
  Qed.
  Lemma fm_list_index_all (mt : Z -> bool) (l : list Z) : forall i,
    fm_list (fun i v => if mt v then Some (Z.of_nat i) else None) i l = index_all_from mt l (Z.of_nat i).
  Proof.
    induction l as [|v t IH]; intros i; cbn [fm_list index_all_from]; [reflexivity|].
    replace (Z.of_nat i + 1) with (Z.of_nat (S i)) by lia. destruct (mt v); rewrite IH; reflexivity.
  Qed.
  Lemma fm_list_mem (sm l : list Z) : forall i, fm_list (fun _ v => if set_mem v sm then Some v else None) i l =
                                     filter (fun v => set_mem v sm) l.
  Proof.
    induction l as [|v t IH]; intros i; cbn [fm_list filter]; [reflexivity|]. destruct (set_mem v sm); rewrite IH; reflexivity.
  Qed.

  Lemma fm_pure st s c gl : wfs st s ->
    pure_result st (ret_some (fm_loop extra (fun _ i v => Ok (gl i v)) (fst (make st 0 c)) (hdr_of s) 0 (mlen s) (snd (make st 0 c))))
                (fm_list gl 0 (contents_s st s)).
  Proof.
    intros Hw.
    assert (Hg : forall (st' : store) (i : nat) (v : Z), keeps st st' -> (i < mlen s)%nat ->
                 (fun (_ : store) (i : nat) (v : Z) => Ok (gl i v)) st' i v = Ok (gl i v)) by (intros; reflexivity).
    destruct (fm_loop_spec st s (fun _ i v => Ok (gl i v)) gl Hw Hg (mlen s) 0 _ _ []
                (make_fresh st st c (keeps_refl st)) eq_refl) as [st' [ret' [Hl Hf]]].
    exists st', ret'. unfold ret_some. rewrite Hl. cbn [obind fst snd skipn app] in *. split; [reflexivity|exact Hf].
  Qed.

  Lemma filter_map_m_lemma mf mp st s : wfs st s ->
    pure_result st (filter_map_m extra mf mp st s) (filter_map mf mp (contents_s st s)).
  Proof.
    intros Hw. unfold filter_map_m, filter_map. rewrite <- (fm_list_filter_map mf mp _ 0).
    apply (fm_pure st s (mlen s) _ Hw).
  Qed.
  Lemma find_all_m_lemma mt st s : wfs st s ->
    pure_result st (find_all_m extra mt st s) (find_all mt (contents_s st s)).
  Proof.
    intros Hw. unfold find_all_m. rewrite <- (fm_list_find_all mt _ 0).
    apply (fm_pure st s _ (fun _ v => if mt v then Some v else None) Hw).
  Qed.
  Lemma index_all_func_m_lemma mt st s : wfs st s ->
    pure_result st (index_all_func_m extra mt st s) (index_all_func mt (contents_s st s)).
  Proof.
    intros Hw. unfold index_all_func_m, index_all_func. rewrite <- (fm_list_index_all mt _ 0).
    apply (fm_pure st s (mlen s) _ Hw).
  Qed.

  Lemma reverse_m_lemma st s : wfs st s -> pure_result st (reverse_m extra st s) (rev (contents_s st s)).
  Proof.
    intros Hw.
    destruct (reverse_loop_m_spec st s Hw (mlen s) _ _ [] (make_fresh st st (mlen s) (keeps_refl st)) (le_n _))
      as [st' [ret' [Hl Hf]]].
    exists st', ret'. unfold reverse_m, ret_some. rewrite Hl. cbn [obind fst snd app] in *. split; [reflexivity|].
    rewrite <- (contents_s_length st s Hw), firstn_all in Hf. exact Hf.
  Qed.

  Lemma set_result st m : pure_result st (Ok (keys_to_slice extra st m)) m.
  Proof.
    destruct (keys_to_slice_fresh st st m (keeps_refl st)) as [h [Hs Hf]].
    exists (fst (keys_to_slice extra st m)), h. split; [|exact Hf].
    rewrite <- Hs. destruct (keys_to_slice extra st m); reflexivity.
  Qed.

  Lemma union_set_m_lemma st src dst : wfs st src -> wfs st dst ->
    pure_result st (union_set_m extra st src dst) (union_set (contents_s st src) (contents_s st dst)).
  Proof.
    intros Hs Hd. unfold union_set_m. rewrite (to_map_m_lemma st src Hs), (to_map_m_lemma st dst Hd). cbn [obind].
    apply set_result.
  Qed.
  Lemma diff_set_m_lemma st src dst : wfs st src -> wfs st dst ->
    pure_result st (diff_set_m extra st src dst) (diff_set (contents_s st src) (contents_s st dst)).
  Proof.
    intros Hs Hd. unfold diff_set_m. rewrite (to_map_m_lemma st src Hs). cbn [obind].
    rewrite (range_fold_spec _ st dst Hd) by lia. cbn [obind skipn]. apply set_result.
  Qed.
  Lemma symdiff_set_m_lemma st src dst : wfs st src -> wfs st dst ->
    pure_result st (symdiff_set_m extra st src dst) (symdiff_set (contents_s st src) (contents_s st dst)).
  Proof.
    intros Hs Hd. unfold symdiff_set_m. rewrite (to_map_m_lemma st src Hs), (to_map_m_lemma st dst Hd). cbn [obind].
    apply set_result.
  Qed.
  Lemma intersect_set_m_lemma st src dst : wfs st src -> wfs st dst ->
    pure_result st (intersect_set_m extra st src dst) (intersect_set (contents_s st src) (contents_s st dst)).
  Proof.
    intros Hs Hd. unfold intersect_set_m. rewrite (to_map_m_lemma st src Hs). cbn [obind].
    assert (Hg : forall (st' : store) (i : nat) (v : Z), keeps st st' -> (i < mlen dst)%nat ->
                 (fun (_ : store) (_ : nat) (v : Z) => Ok (if set_mem v (to_set (contents_s st src)) then Some v else None)) st' i v =
                 Ok ((fun (_ : nat) (v : Z) => if set_mem v (to_set (contents_s st src)) then Some v else None) i v))
      by (intros; reflexivity).
    destruct (fm_loop_spec st dst (fun _ _ v => Ok (if set_mem v (to_set (contents_s st src)) then Some v else None))
                (fun _ v => if set_mem v (to_set (contents_s st src)) then Some v else None) Hd
                Hg (mlen dst) 0 _ _ []
                (make_fresh st st (mlen src) (keeps_refl st)) eq_refl) as [st1 [ret1 [Hl Hf]]].
    rewrite Hl. cbn [obind fst snd skipn app] in *. rewrite fm_list_mem in Hf.
    destruct Hf as [Hk [Hge [Hw Hc]]].
    rewrite (to_map_m_lemma st1 (Some ret1) Hw). cbn [obind contents_s]. rewrite Hc.
    destruct (keys_to_slice_fresh st st1 (to_set (filter (fun v => set_mem v (to_set (contents_s st src))) (contents_s st dst))) Hk)
      as [h [Hsome Hfr]].
    eexists. exists h. split; [|exact Hfr].
    rewrite <- Hsome. destruct (keys_to_slice extra st1 _); reflexivity.
  Qed.

  Lemma keys_m_lemma st m : pure_result st (Ok (keys_m extra st m)) (map_keys m).
  Proof. apply set_result. Qed.
  Lemma values_m_lemma st m : pure_result st (Ok (values_m extra st m)) (map_values m).
  Proof. apply set_result. Qed.
End WithExtra2.

(* ---------- Map: dst := make([]Dst, len(src)); dst[i] = m(i, src[i]) ---------- *)
Lemma map_loop_m_spec mf st1 s : wfs st1 s -> forall n i done rest,
  i = length done -> n = length rest -> (i + n = mlen s)%nat ->
  map_loop_m mf (st1 ++ [done ++ rest]) (hdr_of s) (mkhdr (length st1) 0 (mlen s) (mlen s)) i n =
  Ok (st1 ++ [done ++ map_from mf (skipn i (contents_s st1 s)) (Z.of_nat i)]).
Proof.
  intros Hw. induction n as [|n IH]; intros i done rest Hi Hn Hin; cbn [map_loop_m].
  - destruct rest; [|discriminate Hn].
    rewrite skipn_all2 by (rewrite contents_s_length by exact Hw; lia). reflexivity.
  - destruct rest as [|r rest']; [discriminate Hn|]. cbn [length] in Hn.
    assert (Hk : keeps st1 (st1 ++ [done ++ r :: rest'])) by (apply keeps_app, keeps_refl).
    destruct (get_step st1 s i Hw) as [v [Hload Hskip]]; [lia|].
    rewrite (load_keeps st1 _ s i Hk Hw), Hload. cbn [obind].
    assert (Hst : st1 ++ [done ++ r :: rest'] = mk_st st1 [] (done ++ r :: rest') [] []).
    { unfold mk_st. cbn [app]. rewrite app_nil_r. reflexivity. }
    assert (Hm : hmatch (mkhdr (length st1) 0 (mlen s) (mlen s)) st1 [] (done ++ r :: rest')).
    { repeat split; cbn [h_arr h_off h_len length]; try reflexivity. rewrite app_length. cbn [length]. lia. }
    rewrite Hst, (store_mk _ st1 [] _ [] [] i _ Hm), (set_chk_mid done r rest' i _ Hi). cbn [obind].
    assert (Hst' : mk_st st1 [] (done ++ mf (Z.of_nat i) v :: rest') [] [] = st1 ++ [(done ++ [mf (Z.of_nat i) v]) ++ rest']).
    { unfold mk_st. cbn [app]. rewrite app_nil_r, <- app_assoc. reflexivity. }
    rewrite Hst', (IH (S i) (done ++ [mf (Z.of_nat i) v]) rest').
    + rewrite Hskip. cbn [map_from]. replace (Z.of_nat i + 1) with (Z.of_nat (S i)) by lia.
      rewrite <- app_assoc. reflexivity.
    + rewrite app_length. cbn [length]. lia.
    + lia.
    + lia.
Qed.

Lemma map_m_lemma mf st s : wfs st s -> pure_result st (map_m mf st s) (map_slice mf (contents_s st s)).
Proof.
  intros Hw. unfold map_m, make. cbn [fst snd].
  pose proof (map_loop_m_spec mf st s Hw (mlen s) 0 [] (repeat 0 (mlen s)) eq_refl) as H.
  cbn [app skipn] in H. rewrite H by (try rewrite repeat_length; lia). cbn [obind].
  fold (map_slice mf (contents_s st s)).
  set (w := map_slice mf (contents_s st s)).
  assert (Hlw : length w = mlen s) by (unfold w; rewrite map_slice_length; apply contents_s_length; exact Hw).
  exists (st ++ [w]), (mkhdr (length st) 0 (mlen s) (mlen s)). split; [reflexivity|].
  assert (Hst : st ++ [w] = mk_st st [] w [] []) by (unfold mk_st; cbn [app]; rewrite app_nil_r; reflexivity).
  assert (Hm : hmatch (mkhdr (length st) 0 (mlen s) (mlen s)) st [] w).
  { repeat split; cbn [h_arr h_off h_len length]; try reflexivity. lia. }
  split; [apply keeps_app, keeps_refl|]. split; [cbn [h_arr]; lia|].
  split; [|rewrite Hst; apply contents_mk; exact Hm].
  unfold wf. cbn [h_arr h_off h_len h_cap]. rewrite app_length. cbn [length]. split; [lia|]. split; [lia|].
  unfold arr_of. rewrite nth_mid_gen. lia.
Qed.

(* a pure_result is non-nil, in a fresh array, and every old array is where and what it was *)
Lemma pure_result_unfold st0 o w : pure_result st0 o w ->
  exists st' h, o = Ok (st', Some h) /\
    (length st0 <= h_arr h)%nat /\ (h_arr h < length st')%nat /\
    (forall a, (a < length st0)%nat -> arr_of st' a = arr_of st0 a) /\
    (forall s, wfs st0 s -> wfs st' s /\ contents_s st' s = contents_s st0 s) /\
    contents st' h = w /\ length w = h_len h.
Proof.
  intros [st' [h [Ho [Hk [Hge [Hw Hc]]]]]]. exists st', h. split; [exact Ho|]. split; [exact Hge|].
  split; [destruct Hw as [Ha _]; exact Ha|]. split; [intros a Ha; apply keeps_arr; assumption|].
  split; [intros s Hs; apply wfs_keeps; assumption|]. split; [exact Hc|].
  rewrite <- Hc. apply (contents_s_length st' (Some h) Hw).
Qed.
