(* Proofs about CopierModel (C20): basic lemmas, totality of the constructor. *)
From Ekit Require Import Common CopierModel.
From Coq Require Import ZifyBool.

(* ------------------------------------------------------------ induction on types *)
Section TyInd.
  Variable P : ty -> Prop.
  Hypothesis HBasic : forall k, P (Basic k).
  Hypothesis HNamed : forall n k, P (Named n k).
  Hypothesis HStruct : forall n fs, Forall (fun f : fld => P (ftyp f)) fs -> P (Struct n fs).
  Hypothesis HPtr : forall t, P t -> P (Ptr t).
  Hypothesis HSlice : forall t, P t -> P (Slice t).
  Hypothesis HMap : forall k v, P k -> P v -> P (Map k v).
  Hypothesis HAtomic : P Atomic.
  Hypothesis HOther : forall k i, P (Other k i).

  Fixpoint ty_ind' (t : ty) : P t :=
    match t with
    | Basic k => HBasic k
    | Named n k => HNamed n k
    | Struct n fs =>
        HStruct n fs
          ((fix go (l : list (Z * bool * ty)) : Forall (fun f : fld => P (ftyp f)) l :=
              match l with
              | [] => Forall_nil _
              | f :: r => Forall_cons f (ty_ind' (snd f)) (go r)
              end) fs)
    | Ptr e => HPtr e (ty_ind' e)
    | Slice e => HSlice e (ty_ind' e)
    | Map k v => HMap k v (ty_ind' k) (ty_ind' v)
    | Atomic => HAtomic
    | Other k i => HOther k i
    end.
End TyInd.

(* ------------------------------------------------------------ equalities *)
Lemma kind_eqb_eq : forall a b, kind_eqb a b = true -> a = b.
Proof. intros a b H; destruct a, b; try reflexivity; discriminate H. Qed.

Lemma kind_eqb_refl : forall a, kind_eqb a a = true.
Proof. intros a; destruct a; reflexivity. Qed.

Lemma okind_eqb_eq : forall a b, okind_eqb a b = true -> a = b.
Proof. intros a b H; destruct a, b; try reflexivity; discriminate H. Qed.

Lemma optz_eqb_eq : forall a b, optz_eqb a b = true -> a = b.
Proof.
  intros [x|] [y|] H; cbn in H; try discriminate H; try reflexivity.
  apply Z.eqb_eq in H; subst; reflexivity.
Qed.

Lemma ty_eqb_eq : forall a b, ty_eqb a b = true -> a = b.
Proof.
  induction a as [k|n k|n fs IH|t IH|t IH|k v IHk IHv| |k i] using ty_ind';
    intros b H; destruct b; cbn in H; try discriminate H.
  - apply kind_eqb_eq in H; subst; reflexivity.
  - apply andb_prop in H as [H1 H2]. apply Z.eqb_eq in H1. apply kind_eqb_eq in H2.
    subst; reflexivity.
  - apply andb_prop in H as [H1 H2]. apply optz_eqb_eq in H1. subst n0. f_equal.
    revert fs0 H2. induction IH as [|f r Hf Hr IHr]; intros fs0 H2.
    + destruct fs0; [reflexivity|discriminate H2].
    + destruct f as [[fn fe] ft]. destruct fs0 as [|[[fn' fe'] ft'] r']; [discriminate H2|].
      apply andb_prop in H2 as [H2 H5]. apply andb_prop in H2 as [H2 H4].
      apply andb_prop in H2 as [H2 H3].
      apply Z.eqb_eq in H2. apply Bool.eqb_prop in H3. cbn [ftyp snd] in Hf.
      apply Hf in H4. subst. f_equal. apply IHr. exact H5.
  - f_equal; apply IH; exact H.
  - f_equal; apply IH; exact H.
  - apply andb_prop in H as [H1 H2]. f_equal; [apply IHk|apply IHv]; assumption.
  - reflexivity.
  - apply andb_prop in H as [H1 H2]. apply okind_eqb_eq in H1. apply Z.eqb_eq in H2.
    subst; reflexivity.
Qed.

Lemma rkind_eqb_eq : forall a b, rkind_eqb a b = true -> a = b.
Proof.
  intros a b H; destruct a, b; cbn in H; try discriminate H; try reflexivity.
  - apply kind_eqb_eq in H; subst; reflexivity.
  - apply okind_eqb_eq in H; subst; reflexivity.
Qed.

(* ------------------------------------------------------------ list-as-array lemmas *)
Lemma nth_opt_app_r : forall {A} (pre l : list A) i,
  nth_opt (pre ++ l) (length pre + i) = nth_opt l i.
Proof. intros A pre; induction pre as [|a pre IH]; intros l i; cbn; [reflexivity|apply IH]. Qed.

Lemma nth_opt_app_0 : forall {A} (pre : list A) x l,
  nth_opt (pre ++ x :: l) (length pre) = Some x.
Proof.
  intros A pre x l. rewrite <- (Nat.add_0_r (length pre)). rewrite nth_opt_app_r. reflexivity.
Qed.

Lemma set_nth_app_0 : forall {A} (pre : list A) x l y,
  set_nth (pre ++ x :: l) (length pre) y = pre ++ y :: l.
Proof. intros A pre; induction pre as [|a pre IH]; intros x l y; cbn; [reflexivity|f_equal; apply IH]. Qed.

Lemma nth_opt_Some_lt : forall {A} (l : list A) i x, nth_opt l i = Some x -> (i < length l)%nat.
Proof.
  intros A l; induction l as [|a l IH]; intros i x H; destruct i; cbn in *; try discriminate H.
  - lia.
  - apply IH in H. lia.
Qed.

(* ------------------------------------------------------------ the name map *)
Definition fm_ok (whole : list fld) (m : list (Z * nat)) : Prop :=
  forall n i, assoc_find m n = Some i -> exists t, nth_opt whole i = Some (n, true, t).

Lemma field_map_ok_gen : forall (whole pre fs : list fld) acc,
  whole = pre ++ fs -> fm_ok whole acc -> fm_ok whole (field_map fs (length pre) acc).
Proof.
  intros whole pre fs; revert pre. induction fs as [|[[n e] t] r IH]; intros pre acc Hw Hacc.
  - exact Hacc.
  - cbn [field_map].
    replace (S (length pre)) with (length (pre ++ [(n, e, t)])) by (rewrite app_length; cbn; lia).
    apply IH.
    + rewrite <- app_assoc. exact Hw.
    + destruct e; [|exact Hacc].
      intros n' i Hf. cbn [assoc_find] in Hf. destruct (Z.eqb n n') eqn:En.
      * apply Z.eqb_eq in En. inversion Hf; subst. exists t. apply nth_opt_app_0.
      * apply Hacc. exact Hf.
Qed.

Lemma field_map_ok : forall sfs, fm_ok sfs (field_map sfs 0 []).
Proof.
  intros sfs. apply (field_map_ok_gen sfs [] sfs []); [reflexivity|].
  intros n i H; discriminate H.
Qed.

(* ------------------------------------------------------------ unfolding the nested loops *)
(* the dst-field loop of createFieldNodes as a stand-alone function *)
Definition cfn_loop (pin : bool) (sfs : list fld) (fm : list (Z * nat))
  : list (Z * bool * ty) -> nat -> cres (list node) :=
  fix loop (dfs : list (Z * bool * ty)) (di : nat) {struct dfs} : cres (list node) :=
    match dfs with
    | [] => COk []
    | (dn, dexp, dft) :: rest =>
      if negb dexp then loop rest (S di) else
      match assoc_find fm dn with
      | None => loop rest (S di)
      | Some si =>
        match nth_opt sfs si with
        | None => CPanic
        | Some (_, _, sft) =>
          if multi_ptr sft then CErr CMultiPtr else
          if multi_ptr dft then CErr CMultiPtr else
          let fst_ := unptr sft in
          let finish (kids : list node) (leaf : bool) : cres (list node) :=
            match loop rest (S di) with
            | COk ns => COk (Node dn si di leaf kids :: ns)
            | r => r
            end in
          if is_shadow_kind (kind_of fst_) then finish [] true
          else if is_atomic_type fst_ then finish [] true
          else if is_struct_kind fst_ then
            if negb pin && negb (is_struct_kind (unptr dft)) then CErr CKind
            else
              match create_field_nodes pin fst_ (unptr dft) with
              | COk kids => finish kids false
              | CErr e => CErr e
              | CPanic => CPanic
              end
          else loop rest (S di)
        end
      end
    end.

Lemma cfn_struct : forall pin st n dfs,
  create_field_nodes pin st (Struct n dfs) =
  match fields_of st with
  | CPanic => CPanic
  | CErr e => CErr e
  | COk sfs => cfn_loop pin sfs (field_map sfs 0 []) dfs 0%nat
  end.
Proof. intros; reflexivity. Qed.

Lemma cfn_atomic : forall pin st,
  create_field_nodes pin st Atomic =
  match fields_of st with CPanic => CPanic | CErr e => CErr e | COk _ => COk [] end.
Proof. intros; reflexivity. Qed.


(* ============================================================ the specification of a copy
   `post o st sv dt dv dv'`: what a successful ReflectCopier.CopyTo must have done to a
   destination of type dt (dv before, dv' after) given the source sv : st and the
   effective options o.  Field by field of the DESTINATION type:
   - unexported, ignored, or no exported source field of that name: untouched;
   - the source field is (a single pointer to) a func / interface / unsafe pointer: untouched;
   - the source field is a nil pointer: untouched;
   - leaf (basic kind, slice, map, chan, array, time.Time; possibly behind one pointer):
       with a registered converter: the converter's result on the original source field value
       has exactly the destination field's type (never a nil interface) and the slot holds it; otherwise the types agree and the (allocated if nil) destination
       holds the source's value if that value is non-zero or the destination was the zero
       value, and keeps its old value if the source's value is zero (the "zero-skip");
   - struct (possibly behind one pointer on either side): recursively. *)
Definition sfield (sv : value) (i : nat) : option value :=
  match sv with VStruct vs => nth_opt vs i | _ => None end.

(* the value behind an optional single pointer; None = nil pointer *)
Definition deref (t : ty) (v : value) : option value :=
  match t with
  | Ptr _ => match v with VPtr p => p | _ => None end
  | _ => Some v
  end.

(* the destination behind an optional single pointer, allocated (zero) when nil *)
Definition deref_dst (t : ty) (v : value) : value :=
  match t with
  | Ptr e => match v with VPtr (Some x) => x | _ => zero_value e end
  | _ => v
  end.

Definition field_post (o : options) (dn : Z) (sft : ty) (y : value) (dft : ty) (x x' : value)
  (rec : value -> value -> value -> Prop) : Prop :=
  let sb := unptr sft in
  let db := unptr dft in
  if is_shadow_kind (kind_of sb) || is_atomic_type sb then
    match deref sft y with
    | None => x' = x
    | Some y1 =>
      match find_conv o dn with
      | Some c => cv_src c = sft /\ cv_fun c y = Some (CDyn dft x')     (* the result's dynamic type is the field's type *)
      | None =>
        sb = db /\
        exists x1', x' = rewrap (is_ptr_kind dft) x1' /\
          (is_zero y1 = true -> x1' = deref_dst dft x) /\
          (is_zero y1 = false \/ deref_dst dft x = zero_value db -> x1' = y1)
      end
    end
  else if is_struct_kind sb then
    match deref sft y with
    | None => x' = x
    | Some y1 => exists x1', x' = rewrap (is_ptr_kind dft) x1' /\ rec y1 (deref_dst dft x) x1'
    end
  else x' = x.

Fixpoint post (o : options) (st : ty) (sv : value) (dt : ty) (dv dv' : value) {struct dt} : Prop :=
  match fields_of st with
  | COk sfs =>
    match dt with
    | Struct _ dfs0 =>
      match dv, dv' with
      | VStruct dvs0, VStruct dvs0' =>
        (fix each (dfs : list (Z * bool * ty)) (dvs dvs' : list value) {struct dfs} : Prop :=
           match dfs, dvs, dvs' with
           | [], [], [] => True
           | (dn, dexp, dft) :: r, x :: xr, x' :: xr' =>
             match (if dexp && negb (in_ignore o dn)
                    then assoc_find (field_map sfs 0 []) dn else None) with
             | None => x' = x
             | Some si =>
               match nth_opt sfs si, sfield sv si with
               | Some (_, _, sft), Some y =>
                   field_post o dn sft y dft x x'
                     (fun y1 x1 x1' =>
                        post o (unptr sft) y1 (match dft with Ptr e => e | _ => dft end) x1 x1')
               | _, _ => False
               end
             end /\ each r xr xr'
           | _, _, _ => False
           end) dfs0 dvs0 dvs0'
      | _, _ => False
      end
    | _ => dv' = dv
    end
  | _ => False
  end.

Definition post_each (o : options) (sfs : list fld) (sv : value)
  : list (Z * bool * ty) -> list value -> list value -> Prop :=
  fix each (dfs : list (Z * bool * ty)) (dvs dvs' : list value) {struct dfs} : Prop :=
    match dfs, dvs, dvs' with
    | [], [], [] => True
    | (dn, dexp, dft) :: r, x :: xr, x' :: xr' =>
      match (if dexp && negb (in_ignore o dn)
             then assoc_find (field_map sfs 0 []) dn else None) with
      | None => x' = x
      | Some si =>
        match nth_opt sfs si, sfield sv si with
        | Some (_, _, sft), Some y =>
            field_post o dn sft y dft x x'
              (fun y1 x1 x1' => post o (unptr sft) y1 (unptr dft) x1 x1')
        | _, _ => False
        end
      end /\ each r xr xr'
    | _, _, _ => False
    end.

Lemma post_struct : forall o st sv n dfs dvs dvs' sfs,
  fields_of st = COk sfs ->
  post o st sv (Struct n dfs) (VStruct dvs) (VStruct dvs') = post_each o sfs sv dfs dvs dvs'.
Proof. intros o st sv n dfs dvs dvs' sfs H. cbn [post]. rewrite H. reflexivity. Qed.

(* ------------------------------------------------------------ the constructor never panics *)
Definition ctor_safe (dt : ty) : Prop :=
  forall st, is_struct_kind st = true -> is_struct_kind dt = true ->
             create_field_nodes false st dt <> CPanic.

Lemma fields_of_struct_kind : forall t, is_struct_kind t = true -> exists fs, fields_of t = COk fs.
Proof.
  intros t H; destruct t; cbn in H; try discriminate H; cbn; eauto.
Qed.

Lemma cfn_loop_safe : forall sfs fm dfs,
  fm_ok sfs fm ->
  Forall (fun f : fld => ctor_safe (unptr (ftyp f))) dfs ->
  forall di, cfn_loop false sfs fm dfs di <> CPanic.
Proof.
  intros sfs fm dfs Hfm HF. induction HF as [|[[dn dexp] dft] rest Hf Hrest IH]; intros di.
  - cbn. discriminate.
  - cbn [cfn_loop]. cbn [ftyp snd] in Hf.
    destruct dexp; cbn [negb]; [|apply IH].
    destruct (assoc_find fm dn) as [si|] eqn:Efind; [|apply IH].
    destruct (Hfm _ _ Efind) as [sft Hnth]. rewrite Hnth.
    destruct (multi_ptr sft); [discriminate|].
    destruct (multi_ptr dft); [discriminate|].
    cbv zeta.
    destruct (is_shadow_kind (kind_of (unptr sft))).
    { specialize (IH (S di)). destruct (cfn_loop false sfs fm rest (S di)); congruence. }
    destruct (is_atomic_type (unptr sft)).
    { specialize (IH (S di)). destruct (cfn_loop false sfs fm rest (S di)); congruence. }
    destruct (is_struct_kind (unptr sft)) eqn:Es; [|apply IH].
    cbn [negb andb].
    destruct (is_struct_kind (unptr dft)) eqn:Ed; cbn [negb]; [|discriminate].
    specialize (Hf (unptr sft) Es Ed).
    destruct (create_field_nodes false (unptr sft) (unptr dft)); [|discriminate|congruence].
    specialize (IH (S di)). destruct (cfn_loop false sfs fm rest (S di)); congruence.
Qed.

Lemma ctor_safe_all : forall dt, ctor_safe dt /\ ctor_safe (unptr dt).
Proof.
  induction dt as [k|n k|n fs IH|t IH|t IH|k v IHk IHv| |k i] using ty_ind';
    try (split; intros st Hs Hd; cbn in Hd; discriminate Hd).
  - assert (H : ctor_safe (Struct n fs)).
    { intros st Hs _. rewrite cfn_struct.
      destruct (fields_of_struct_kind _ Hs) as [sfs Hsfs]. rewrite Hsfs.
      apply cfn_loop_safe; [apply field_map_ok|].
      eapply Forall_impl; [|exact IH]. intros f [_ Hf]. exact Hf. }
    split; exact H.
  - split; [intros st Hs Hd; cbn in Hd; discriminate Hd|]. cbn [unptr]. apply IH.
  - assert (H : ctor_safe Atomic).
    { intros st Hs _. rewrite cfn_atomic.
      destruct (fields_of_struct_kind _ Hs) as [sfs Hsfs]. rewrite Hsfs. discriminate. }
    split; exact H.
Qed.

Lemma constructor_total_lemma : forall st dt ps, new_reflect_copier st dt ps <> CPanic.
Proof.
  intros st dt ps. unfold new_reflect_copier, new_reflect_copier_gen.
  destruct (is_struct_kind st) eqn:Es; cbn [negb]; [|discriminate].
  destruct (is_struct_kind dt) eqn:Ed; cbn [negb]; [|discriminate].
  pose proof (proj1 (ctor_safe_all dt) st Es Ed) as H.
  destruct (create_field_nodes false st dt); [discriminate|discriminate|congruence].
Qed.

(* the code before commit 79cd082: a struct-typed source field facing a scalar
   destination field of the same name makes the constructor call NumField on int *)
Lemma copier_ctor_panics_refuted_lemma :
  exists st dt, is_struct_kind st = true /\ is_struct_kind dt = true /\
    new_reflect_copier_pinned st dt [] = CPanic /\
    new_reflect_copier st dt [] = CErr CKind.
Proof.
  exists (Struct None [(1, true, Struct None [(1, true, Basic KInt)])]),
         (Struct None [(1, true, Basic KInt)]).
  repeat split; vm_compute; reflexivity.
Qed.
