(* C15BridgeDQ.v — C15 bridge for queue.DelayQueue (interleaving model DQModel.v).

   stmt_of_pc_DQ / path_of_pc_DQ / occ_of_pc_DQ: the Coq-side copy of the pc -> label table of
   ocaml/drv_dq.ml (compared with it on every run by checks/part_c15bridge.py; the comparator closure
   of NewDelayQueue has labels in the driver but no program counter in the Coq model: the heap
   operation is one model step).  The statements of cond.broadcast / cond.signalCh are shared by the
   three call sites; the entry function (= r_func of the footprint rows) is read off the thread's
   return site.
   locks_held_DQ: the model's mutex has an owner (q_mutex); the owner holds "DelayQueue.mutex" exclusively.
   guards_respected_DQ_lemma: whenever a thread is about to execute a statement it holds every lock
   the footprint table declares for the plain accesses of that statement — for every event list
   (including TICK / FIRE / CANCEL events), every capacity and both timer-channel semantics. *)
From Coq Require Import List String Bool Arith Lia ZArith.
From Ekit Require Import Common HB FootprintModel C15Bridge Conc DQModel DQProof.
Import ListNotations.
Open Scope string_scope.

Definition TY_DQ := "DelayQueue".
Definition MU_DQ := "DelayQueue.mutex".

Definition stmt_of_pc_DQ (p : dq_pc) : string :=
  match p with
  | EFor => "for"
  | ESel0 => "select"
  | ECaseCtx0 => "case <-ctx.Done():"
  | ERetCtx0 => "return ctx.Err()"
  | EDefault0 => "default:"
  | ELock => "d.mutex.Lock()"
  | EDo => "err := d.q.Enqueue(t)"
  | ESwitch => "switch err"
  | EBcast => "d.enqueueSignal.broadcast()"
  | ERetNil => "return nil"
  | ESigCh => "signal := d.dequeueSignal.signalCh()"
  | ESel1 => "select"
  | EPark1 => ""
  | ECaseCtx1 => "case <-ctx.Done():"
  | ERetCtx1 => "return ctx.Err()"
  | ECaseSig => "case <-signal:"
  | EDefUnlock => "d.mutex.Unlock()"
  | EDefRet => "return fmt.Errorf(""ekit: 延时队列入队的时候遇到未知错误 %w，请上报"", err)"
  | DDefer => "defer func() { if timer != nil { timer.Stop() } }()"
  | DFor => "for"
  | DSel0 => "select"
  | DCaseCtx0 => "case <-ctx.Done():"
  | DRetCtx0 => "return t, ctx.Err()"
  | DDefault0 => "default:"
  | DLock0 => "d.mutex.Lock()"
  | DPeek0 => "val, err := d.q.Peek()"
  | DSwitch => "switch err"
  | DDelay => "delay := val.Delay()"
  | DIfDelay => "if delay <= 0"
  | DDeq0 => "val, err = d.q.Dequeue()"
  | DBcast0 => "d.dequeueSignal.broadcast()"
  | DRet0 => "return val, err"
  | DSigCh0 => "signal := d.enqueueSignal.signalCh()"
  | DIfTimer => "if timer == nil"
  | DNewTimer => "timer = time.NewTimer(delay)"
  | DReset => "timer.Reset(delay)"
  | DSel1 => "select"
  | DPark1 => ""
  | DCaseCtx1 => "case <-ctx.Done():"
  | DRetCtx1 => "return t, ctx.Err()"
  | DCaseTimer => "case <-timer.C:"
  | DLock1 => "d.mutex.Lock()"
  | DPeek1 => "val, err := d.q.Peek()"
  | DIf2 => "if err != nil || val.Delay() > 0"
  | DUnlock2 => "d.mutex.Unlock()"
  | DContinue => "continue"
  | DDeq1 => "val, err = d.q.Dequeue()"
  | DBcast1 => "d.dequeueSignal.broadcast()"
  | DRet1 => "return val, err"
  | DCaseSig0 => "case <-signal:"
  | DSigCh1 => "signal := d.enqueueSignal.signalCh()"
  | DSel2 => "select"
  | DPark2 => ""
  | DCaseCtx2 => "case <-ctx.Done():"
  | DRetCtx2 => "return t, ctx.Err()"
  | DCaseSig1 => "case <-signal:"
  | DDefUnlock => "d.mutex.Unlock()"
  | DDefRet => "return t, fmt.Errorf(""ekit: 延时队列出队的时候遇到未知错误 %w，请上报"", err)"
  | DDeferIf => "if timer != nil"
  | DDeferStop => "timer.Stop()"
  | Bc1 => "signal := make(chan struct{})"
  | Bc2 => "old := c.signal"
  | Bc3 => "c.signal = signal"
  | Bc4 => "c.l.Unlock()"
  | Bc5 => "close(old)"
  | Sc1 => "res := c.signal"
  | Sc2 => "c.l.Unlock()"
  | Sc3 => "return res"
  end.

Definition occ_of_pc_DQ (p : dq_pc) : nat :=
  match p with
  | ESel1 => 1
  | ECaseCtx1 => 1
  | ERetCtx1 => 1
  | DSel1 => 1
  | DCaseCtx1 => 1
  | DRetCtx1 => 1
  | DLock1 => 1
  | DPeek1 => 1
  | DDeq1 => 1
  | DBcast1 => 1
  | DRet1 => 1
  | DSigCh1 => 1
  | DSel2 => 2
  | DCaseCtx2 => 2
  | DRetCtx2 => 2
  | DCaseSig1 => 1
  | DDefUnlock => 1
  | _ => 0
  end.

Definition pcname_DQ (p : dq_pc) : string :=
  match p with
  | EFor => "EFor"
  | ESel0 => "ESel0"
  | ECaseCtx0 => "ECaseCtx0"
  | ERetCtx0 => "ERetCtx0"
  | EDefault0 => "EDefault0"
  | ELock => "ELock"
  | EDo => "EDo"
  | ESwitch => "ESwitch"
  | EBcast => "EBcast"
  | ERetNil => "ERetNil"
  | ESigCh => "ESigCh"
  | ESel1 => "ESel1"
  | EPark1 => "EPark1"
  | ECaseCtx1 => "ECaseCtx1"
  | ERetCtx1 => "ERetCtx1"
  | ECaseSig => "ECaseSig"
  | EDefUnlock => "EDefUnlock"
  | EDefRet => "EDefRet"
  | DDefer => "DDefer"
  | DFor => "DFor"
  | DSel0 => "DSel0"
  | DCaseCtx0 => "DCaseCtx0"
  | DRetCtx0 => "DRetCtx0"
  | DDefault0 => "DDefault0"
  | DLock0 => "DLock0"
  | DPeek0 => "DPeek0"
  | DSwitch => "DSwitch"
  | DDelay => "DDelay"
  | DIfDelay => "DIfDelay"
  | DDeq0 => "DDeq0"
  | DBcast0 => "DBcast0"
  | DRet0 => "DRet0"
  | DSigCh0 => "DSigCh0"
  | DIfTimer => "DIfTimer"
  | DNewTimer => "DNewTimer"
  | DReset => "DReset"
  | DSel1 => "DSel1"
  | DPark1 => "DPark1"
  | DCaseCtx1 => "DCaseCtx1"
  | DRetCtx1 => "DRetCtx1"
  | DCaseTimer => "DCaseTimer"
  | DLock1 => "DLock1"
  | DPeek1 => "DPeek1"
  | DIf2 => "DIf2"
  | DUnlock2 => "DUnlock2"
  | DContinue => "DContinue"
  | DDeq1 => "DDeq1"
  | DBcast1 => "DBcast1"
  | DRet1 => "DRet1"
  | DCaseSig0 => "DCaseSig0"
  | DSigCh1 => "DSigCh1"
  | DSel2 => "DSel2"
  | DPark2 => "DPark2"
  | DCaseCtx2 => "DCaseCtx2"
  | DRetCtx2 => "DRetCtx2"
  | DCaseSig1 => "DCaseSig1"
  | DDefUnlock => "DDefUnlock"
  | DDefRet => "DDefRet"
  | DDeferIf => "DDeferIf"
  | DDeferStop => "DDeferStop"
  | Bc1 => "Bc1"
  | Bc2 => "Bc2"
  | Bc3 => "Bc3"
  | Bc4 => "Bc4"
  | Bc5 => "Bc5"
  | Sc1 => "Sc1"
  | Sc2 => "Sc2"
  | Sc3 => "Sc3"
  end.

Definition all_pcs_DQ : list dq_pc :=
  [EFor; ESel0; ECaseCtx0; ERetCtx0; EDefault0; ELock; EDo; ESwitch; EBcast; ERetNil; ESigCh; ESel1; EPark1; ECaseCtx1; ERetCtx1; ECaseSig; EDefUnlock; EDefRet; DDefer; DFor; DSel0; DCaseCtx0; DRetCtx0; DDefault0; DLock0; DPeek0; DSwitch; DDelay; DIfDelay; DDeq0; DBcast0; DRet0; DSigCh0; DIfTimer; DNewTimer; DReset; DSel1; DPark1; DCaseCtx1; DRetCtx1; DCaseTimer; DLock1; DPeek1; DIf2; DUnlock2; DContinue; DDeq1; DBcast1; DRet1; DCaseSig0; DSigCh1; DSel2; DPark2; DCaseCtx2; DRetCtx2; DCaseSig1; DDefUnlock; DDefRet; DDeferIf; DDeferStop; Bc1; Bc2; Bc3; Bc4; Bc5; Sc1; Sc2; Sc3].
Definition path_of_pc_DQ (p : dq_pc) : string :=
  match p with
  | Bc1 | Bc2 | Bc3 | Bc4 | Bc5 => "cond.broadcast"
  | Sc1 | Sc2 | Sc3 => "cond.signalCh"
  | _ => ""
  end.

(* the entry function = r_func of the footprint rows *)
Definition func_of_pc_DQ (s : dq_site) (p : dq_pc) : string :=
  match p with
  | EFor | ESel0 | ECaseCtx0 | ERetCtx0 | EDefault0 | ELock | EDo | ESwitch | EBcast | ERetNil
  | ESigCh | ESel1 | EPark1 | ECaseCtx1 | ERetCtx1 | ECaseSig | EDefUnlock | EDefRet => "Enqueue"
  | Bc1 | Bc2 | Bc3 | Bc4 | Bc5 | Sc1 | Sc2 | Sc3 => match s with SEnq => "Enqueue" | _ => "Dequeue" end
  | _ => "Dequeue"
  end.

Definition lfunc_of_pc_DQ (s : dq_site) (p : dq_pc) : string :=
  lfunc_of TY_DQ (func_of_pc_DQ s p) (path_of_pc_DQ p).
Definition rstmt_of_pc_DQ (p : dq_pc) : string := row_stmt (path_of_pc_DQ p) (stmt_of_pc_DQ p).

Definition sitename_DQ (s : dq_site) : string :=
  match s with SEnq => "SEnq" | SDeqA => "SDeqA" | SDeqB => "SDeqB" end.

(* every (site, pc) pair a thread can be at (site_ok is an invariant: DQProof.a_site) *)
Definition all_spcs_DQ : list (dq_site * dq_pc) :=
  filter (fun x => site_ok (snd x) (fst x))
         (flat_map (fun s => map (fun p => (s, p)) all_pcs_DQ) [SEnq; SDeqA; SDeqB]).

Definition bridge_DQ : list bridge_line :=
  map (fun x => (sitename_DQ (fst x) ++ ":" ++ pcname_DQ (snd x), lfunc_of_pc_DQ (fst x) (snd x),
                 stmt_of_pc_DQ (snd x), occ_of_pc_DQ (snd x)))
      (filter (fun x => negb (String.eqb (stmt_of_pc_DQ (snd x)) "")) all_spcs_DQ).

(* ---------- locks ---------- *)
Definition locks_held_DQ (c : dq_cfg) (t : Conc.tid) : lockset :=
  match q_mutex c with
  | Some w => if Nat.eqb w t then [(MU_DQ, Excl)] else []
  | None => []
  end.

Definition pc_locks_DQ (p : dq_pc) : lockset := if holds_lock p then [(MU_DQ, Excl)] else [].

Lemma section_locks_held_DQ_lemma cap old evs c t th :
  exec dq_step (dq_init cap old) evs = Some c -> lookup t (q_thr c) = Some th ->
  incl (pc_locks_DQ (t_pc th)) (locks_held_DQ c t).
Proof.
  intros Hex Hl. pose proof (invA_reachable _ _ _ _ Hex) as I.
  unfold pc_locks_DQ, locks_held_DQ.
  destruct (holds_lock (t_pc th)) eqn:Eh; [|intros x []].
  pose proof (a_mutex c I t) as Hm. unfold holds_at, mutex_is in Hm. rewrite Hl, Eh in Hm.
  destruct (q_mutex c) as [w|]; [|discriminate]. rewrite <- Hm. intros x [<-|[]]. now left.
Qed.

Lemma guards_static_DQ s p :
  guards_held dq_table (func_of_pc_DQ s p) (rstmt_of_pc_DQ p) (pc_locks_DQ p) = true.
Proof. destruct s, p; vm_compute; reflexivity. Qed.

Theorem guards_respected_DQ_lemma cap old evs c t th :
  exec dq_step (dq_init cap old) evs = Some c -> lookup t (q_thr c) = Some th ->
  guards_respected_at dq_table (func_of_pc_DQ (t_site th) (t_pc th)) (rstmt_of_pc_DQ (t_pc th))
                      (locks_held_DQ c t).
Proof.
  intros Hex Hl. eapply guards_respected_at_incl.
  - eapply section_locks_held_DQ_lemma; eassumption.
  - apply guards_held_spec, guards_static_DQ.
Qed.

Definition keys_DQ : list (string * string) :=
  map (fun x => (func_of_pc_DQ (fst x) (snd x), rstmt_of_pc_DQ (snd x))) all_spcs_DQ.

Lemma all_glock_rows_matched_DQ :
  unmatched dq_table keys_DQ = [] /\ List.length (glock_rows dq_table) = 7%nat.
Proof. vm_compute. split; reflexivity. Qed.
