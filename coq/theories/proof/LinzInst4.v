(* Instances of lib/Linz.v, part 4: ConcurrentLinkedQueue (model/CLQModel.v) — the lock-free queue
   already has its own derivation of the textbook form (proof/CLQLinz.v, props/C06_clq.v
   [clq_linearizable_textbook], with its own definition [textbook_linearizable]); here the same
   conclusion is obtained from the generic library, in the vocabulary shared by all objects
   ([hist_wf] / [linearizable_to] of lib/Linz.v), from the same linearisation-point theorem
   [reach_lin_form] ([lin_run] + [phase]). *)
From Ekit Require Import Common Conc Linz CLQModel CLQProof CLQProof2 CLQProof3.
From Coq Require Import Arith PeanoNat.

Definition clq_conv (e : clq_hev) : tev clq_op clq_res :=
  match e with
  | HCall t o => TCall t o
  | HLin t o r => TLin t o r
  | HRet t r => TRet t r
  end.

Definition clq_tagged (h : list clq_hev) : list (tev clq_op clq_res) := map clq_conv h.

(* the visible history: chronological, calls numbered (goroutine, k) *)
Definition clq_history (h : list clq_hev) : list (event opid clq_op clq_res) := vnumber (clq_tagged h).

Definition clq_tphase (p : clq_phase) : tphase clq_op clq_res :=
  match p with PIdle => TIdle | PCalled o => TCalled o | PLin o r => TLinned o r end.

Lemma clq_op_eqb_eq a b : op_eqb a b = true -> a = b.
Proof.
  destruct a as [x|], b as [y|]; cbn; try discriminate; try reflexivity.
  intros H. apply Z.eqb_eq in H. subst. reflexivity.
Qed.

Lemma clq_res_eqb_eq a b : res_eqb a b = true -> a = b.
Proof.
  destruct a as [|[x|]], b as [|[y|]]; cbn; try discriminate; try reflexivity.
  intros H. apply Z.eqb_eq in H. subst. reflexivity.
Qed.

Lemma clq_conv_tid e : tev_tid (clq_conv e) = hev_tid e.
Proof. destruct e; reflexivity. Qed.

Lemma clq_advance p e p' :
  advance p e = Some p' -> tadvance no_late (clq_tphase p) (clq_conv e) (clq_tphase p').
Proof.
  destruct p as [|o|o r], e as [t o'|t o' r'|t r']; cbn [advance clq_conv clq_tphase]; try discriminate.
  - intros H. injection H as <-. constructor.
  - destruct (op_eqb o o') eqn:E; [|discriminate]. apply clq_op_eqb_eq in E. subst o'.
    intros H. injection H as <-. constructor.
  - destruct (res_eqb r r') eqn:E; [|discriminate]. apply clq_res_eqb_eq in E. subst r'.
    intros H. injection H as <-. constructor.
Qed.

Lemma clq_phase_tphase t h p :
  phase t h = Some p -> tphase_of no_late t (clq_tagged h) (clq_tphase p).
Proof.
  revert p. induction h as [|e h IH]; intros p H; cbn [phase] in H.
  - injection H as <-. constructor.
  - destruct (phase t h) as [p1|] eqn:E; [|discriminate]. cbn [clq_tagged map].
    destruct (Nat.eqb (hev_tid e) t) eqn:Et.
    + apply Nat.eqb_eq in Et. eapply tp_own; [rewrite clq_conv_tid; exact Et|apply IH; reflexivity|].
      apply clq_advance, H.
    + apply Nat.eqb_neq in Et. injection H as <-. apply tp_other; [rewrite clq_conv_tid; exact Et|].
      apply IH. reflexivity.
Qed.

Lemma clq_twf h : (forall t, phase t h <> None) -> twf no_late (clq_tagged h).
Proof.
  intros Hp t. destruct (phase t h) as [p|] eqn:E; [|destruct (Hp t E)].
  exists (clq_tphase p). apply clq_phase_tphase, E.
Qed.

Lemma clq_tlins_legal h q :
  lin_run h = Some q -> legal (fun_step (fun s o => fifo_spec o s)) [] (tlins (clq_tagged h)) q.
Proof.
  revert q. induction h as [|e h IH]; intros q Hl; cbn [lin_run] in Hl.
  - injection Hl as <-. constructor.
  - destruct (lin_run h) as [q1|] eqn:El; [|discriminate]. specialize (IH q1 eq_refl).
    destruct e as [t o|t o r|t r]; cbn [clq_tagged map clq_conv tlins]; fold (clq_tagged h).
    + injection Hl as <-. exact IH.
    + destruct (fifo_spec o q1) as [q' r'] eqn:Es.
      destruct (res_eqb r r') eqn:Er; [|discriminate]. apply clq_res_eqb_eq in Er. subst r'. injection Hl as <-.
      eapply legal_snoc; [exact IH|]. exact Es.
    + injection Hl as <-. exact IH.
Qed.

Lemma clq_witness_lemma evs c :
  clq_reach evs c ->
  hist_wf fst (clq_history (q_hist c)) /\
  linearization_of (fun_step (fun s o => fifo_spec o s)) [] (clq_history (q_hist c)) (clq_abs c)
                   (twitness (clq_tagged (q_hist c))).
Proof.
  intros H. destruct (reach_lin_form evs c H) as (Hlin & Hwf & _).
  pose proof (clq_twf _ Hwf) as W.
  assert (L : legal (fun_step (fun s o => fifo_spec o s)) [] (treplay (clq_tagged (q_hist c))) (clq_abs c)).
  { rewrite (treplay_no_late _ _ no_late); [|intros o r []|exact W]. apply clq_tlins_legal, Hlin. }
  split.
  - exact (proj1 (tagged_textbook _ no_late [] _ _ W L)).
  - exact (tagged_textbook_witness _ _ _ _ no_late [] _ _ W L).
Qed.

Lemma clq_textbook_lemma evs c :
  clq_reach evs c ->
  hist_wf fst (clq_history (q_hist c)) /\
  linearizable_to (fun_step (fun s o => fifo_spec o s)) [] (clq_history (q_hist c)) (clq_abs c).
Proof.
  intros H. destruct (clq_witness_lemma evs c H) as [H1 H2].
  split; [exact H1|]. eapply linearization_of_linearizable, H2.
Qed.
