(* PoolModel (pool.OnDemandBlockTaskPool), proofs for C12 / liveness side of C10 - B5d: the invariants the repaired code relies on - K (>= initGo counted non-timer workers while live, with
   its two guards), J (in closing the last decrementer is on its way to the CAS), Q, the cancel bridge:
   definitions, the record, the facts after a step field by field *)
From Ekit Require Import Common Conc PoolModel
  PoolProofB0 PoolProofB1 PoolProofB2d PoolProofB2bd PoolProofB3d PoolProofB4d.
From Coq Require Import ZifyBool Arith PeanoNat.

(* [cnt_ning] (counted workers that are not effective members of the timeout group) is in PB4 *)

Definition g_gadd (p : ppc) : Z := match p with WBkNewTimer | WBkAdd | GaLock | GaDefer | GaIf | GaSet | GaInc => 1 | _ => 0 end.
Definition g_gdec (p : ppc) : Z := match p with WBkDecr => 1 | _ => 0 end.
Definition gadd_bad (b : bool) (x : thr) : Z := if b then 0 else g_gadd (pc x).
Definition gdec_bad (b : bool) (x : thr) : Z := if b then 0 else g_gdec (pc x).
(* workers that received ok = false from the queue *)
Definition g_qb (p : ppc) : Z :=
  match p with WCaseQueue | WIfIsIn | IiRLock | IiDefer | IiLookup | IiRet | WRcDel | RdLock | RdDefer | RdIf | RdDec | RdDelete
  | WStop1 | WDrain1 | WIfNotOk => 1 | _ => 0 end.
Definition g_clp (p : ppc) : Z :=
  match p with WClDec | CdLock | CdSub | CdUnlock | WClIfNum | NgRLock | NgRead | NgRUnlock | NgRet | WClCas | WClCancel | WClRet => 1 | _ => 0 end.
Definition clrecv (x : thr) : Z := g_clp (pc x) + (if l_ok x then 0 else g_qb (pc x)).
Definition clrecv_bad (b : bool) (x : thr) : Z := if b then 0 else clrecv x.
(* on the way to the transition *)
Definition g_will0 (p : ppc) : Z := match p with CdUnlock | WClIfNum | NgRLock | NgRead | WClCas | WTmLeft | WTmCas => 1 | _ => 0 end.
Definition g_willn (p : ppc) : Z :=
  match p with NgRUnlock | NgRet | WTmDel | TdLock | TdDefer | TdIf | TdDec | TdDelete | WTmUnlock | WTmIfLeft => 1 | _ => 0 end.
Definition will (x : thr) : Z := g_will0 (pc x) + (if l_n x =? 0 then g_willn (pc x) else 0).
Definition g_cas (p : ppc) : Z := match p with WClCas | WTmCas => 1 | _ => 0 end.
Definition zreader (x : thr) : Z := g_cas (pc x) + (if l_n x =? 0 then g_willn (pc x) else 0).
Definition zr_bad (b : bool) (x : thr) : Z := if b then 0 else zreader x.
Definition cnt_bad (b : bool) (x : thr) : Z := if b then g_cnt (pc x) else 0.
Arguments gadd_bad b x /. Arguments gdec_bad b x /. Arguments clrecv x /. Arguments clrecv_bad b x /.
Arguments will x /. Arguments zreader x /. Arguments zr_bad b x /. Arguments cnt_bad b x /.

Lemma g_gadd_nn p : 0 <= g_gadd p. Proof. destruct p; cbn; lia. Qed.
Lemma g_gdec_nn p : 0 <= g_gdec p. Proof. destruct p; cbn; lia. Qed.
Lemma g_will0_nn p : 0 <= g_will0 p. Proof. destruct p; cbn; lia. Qed.
Lemma g_willn_nn p : 0 <= g_willn p. Proof. destruct p; cbn; lia. Qed.
Lemma g_cas_nn p : 0 <= g_cas p. Proof. destruct p; cbn; lia. Qed.
Lemma g_clp_nn p : 0 <= g_clp p. Proof. destruct p; cbn; lia. Qed.
Lemma g_qb_nn p : 0 <= g_qb p. Proof. destruct p; cbn; lia. Qed.
Lemma will_nn x : 0 <= will x.
Proof. cbn [will]. pose proof (g_will0_nn (pc x)). pose proof (g_willn_nn (pc x)). destruct (l_n x =? 0); lia. Qed.
Lemma zreader_nn x : 0 <= zreader x.
Proof. cbn [zreader]. pose proof (g_cas_nn (pc x)). pose proof (g_willn_nn (pc x)). destruct (l_n x =? 0); lia. Qed.
Lemma zr_bad_nn b x : 0 <= zr_bad b x. Proof. cbn [zr_bad]. pose proof (zreader_nn x). destruct b; lia. Qed.
Lemma cnt_bad_nn b x : 0 <= cnt_bad b x. Proof. cbn [cnt_bad]. pose proof (g_cnt_nn (pc x)). destruct b; lia. Qed.
Lemma clrecv_nn x : 0 <= clrecv x.
Proof. cbn [clrecv]. pose proof (g_clp_nn (pc x)). pose proof (g_qb_nn (pc x)). destruct (l_ok x); lia. Qed.
Lemma clrecv_bad_nn b x : 0 <= clrecv_bad b x. Proof. cbn [clrecv_bad]. pose proof (clrecv_nn x). destruct b; lia. Qed.
Lemma will_wake : forall w, wake_ok will w. Proof. wake_ok_tac. Qed.
Lemma zr_bad_wake b : forall w, wake_ok (zr_bad b) w. Proof. wake_ok_tac. Qed.
Lemma cnt_bad_wake b : forall w, wake_ok (cnt_bad b) w. Proof. wake_ok_tac. Qed.

(* NT >= totalGo - g.n, thread by thread *)
Lemma nt_pointwise mp x : 0 <= cnt_ning mp x - pcf g_cnt x + ing mp x.
Proof.
  cbn [cnt_ning ing pcf]. destruct (zmem (l_wid x) mp); [|lia].
  destruct (pc x); cbn; lia.
Qed.
Lemma nt_ge_sum mp l : 0 <= tsum (cnt_ning mp) l - tsum (pcf g_cnt) l + tsum (ing mp) l.
Proof. induction l as [|[t x] r IH]; cbn [tsum]; [lia|]. pose proof (nt_pointwise mp x). lia. Qed.
Lemma cnt_ning_le mp x : cnt_ning mp x <= pcf g_cnt x.
Proof. cbn [cnt_ning pcf]. pose proof (g_cnt_nn (pc x)). destruct (zmem (l_wid x) mp); destruct (in_group_pc (pc x)); lia. Qed.
(* creations in progress exist only at the holder of the state word *)
Lemma pend_supp x : pcf g_hsl x = 0 -> pend x = 0.
Proof. cbn [pcf pend]. destruct (pc x); cbn; intros H; try reflexivity; discriminate H. Qed.
Lemma tsum_zero_supp (f g : thr -> Z) l :
  (forall x, 0 <= g x) -> (forall x, g x = 0 -> f x = 0) -> tsum g l = 0 -> tsum f l = 0.
Proof.
  intros Hn Hs. induction l as [|[t x] r IH]; cbn [tsum]; [reflexivity|]. intros H.
  pose proof (Hn x). pose proof (tsum_nonneg g r Hn). rewrite (Hs x), IH by lia. reflexivity.
Qed.
Lemma gadd_le x : pcf g_gadd x <= pcf g_hbw x. Proof. cbn [pcf]. destruct (pc x); cbn; lia. Qed.
Lemma gdec_le x : pcf g_gdec x <= pcf g_hbw x. Proof. cbn [pcf]. destruct (pc x); cbn; lia. Qed.
Lemma canc_le_wk x : pcf g_canc x <= pcf g_wk x. Proof. cbn [pcf]. destruct (pc x); cbn; lia. Qed.
Lemma cnt_le_wk x : pcf g_cnt x <= pcf g_wk x. Proof. cbn [pcf]. destruct (pc x); cbn; lia. Qed.
Lemma zr_le_wk b x : zr_bad b x <= pcf g_wk x.
Proof. cbn [zr_bad zreader pcf]. destruct b; destruct (l_n x =? 0); destruct (pc x); cbn; lia. Qed.
Lemma wk_le_out idc x : idc < 1 -> pcf g_wk x <= own_gt idc x + own_lt 1 x.
Proof.
  intros H. cbn [pcf own_gt own_lt]. pose proof (g_own_nn (pc x)).
  assert (g_wk (pc x) <= g_own (pc x)) by (destruct (pc x); cbn; lia).
  destruct (idc <? l_wid x) eqn:E1; destruct (l_wid x <? 1) eqn:E2; lia.
Qed.

(* flag classifiers with a constant flag *)
Lemma tsum_cnt_bad_true l : tsum (cnt_bad true) l = tsum (pcf g_cnt) l.
Proof. apply tsum_ext_in. intros t x _. reflexivity. Qed.
Lemma tsum_cnt_bad_false l : tsum (cnt_bad false) l = 0.
Proof. induction l as [|[t x] r IH]; cbn [tsum cnt_bad]; [reflexivity|rewrite IH; reflexivity]. Qed.
Lemma tsum_zr_bad_true l : tsum (zr_bad true) l = 0.
Proof. induction l as [|[t x] r IH]; cbn [tsum zr_bad]; [reflexivity|rewrite IH; reflexivity]. Qed.

Definition qe (s : shared) : bool := qempty (s_q s).
Arguments qe s /.

(* The guards are stated as (at most 3-way) disjunctions: each proof obligation needs at most three of
   them, the driver clears the others before calling lia. *)
Record invK (c : pcfg) : Prop := {
  (* K: live and not stopped => closed-and-empty queue, or >= initGo counted non-timer workers *)
  k_main : bz (g_began (c_gh c)) - tsum (pcf g_spa) (c_thr c) - eqst (s_state (c_sh c)) SStopped <= 0 \/
           (s_closed (c_sh c) = true /\ qe (c_sh c) = true) \/
           i_init (c_par c) <= tsum (cnt_ning (s_mp (c_sh c))) (c_thr c) + tsum pend (c_thr c);
  (* a worker past the test `initGo < totalGo - timeoutGroup.size()` (about to join the group / to leave) *)
  k_gadd : s_ictx (c_sh c) = true \/ tsum (pcf g_gadd) (c_thr c) = 0 \/
           i_init (c_par c) + 1 <= tsum (cnt_ning (s_mp (c_sh c))) (c_thr c) + tsum pend (c_thr c);
  k_gdec : s_ictx (c_sh c) = true \/ tsum (pcf g_gdec) (c_thr c) = 0 \/
           i_init (c_par c) + 1 <= tsum (cnt_ning (s_mp (c_sh c))) (c_thr c) + tsum pend (c_thr c);
  (* J: in closing, totalGo = 0 => somebody is on the way to the CAS closing -> stopped *)
  k_J : eqst (s_state (c_sh c)) SClosing + bz (s_total (c_sh c) =? 0) - 1 <= tsum will (c_thr c);
  (* Q: a goroutine that read totalGo = 0 after its decrement => totalGo = 0 *)
  k_Q : tsum (zr_bad (s_total (c_sh c) =? 0)) (c_thr c) = 0;
  (* between the successful CAS and `interruptCtxCancel()`, and for ever after the graceful cancel *)
  k_canc : tsum (pcf g_canc) (c_thr c) = 0 \/ (qe (c_sh c) = true /\ tsum (pcf g_cnt) (c_thr c) = 0);
  k_grace1 : bz (g_grace (c_gh c)) <= bz (qe (c_sh c));
  k_grace2 : tsum (cnt_bad (g_grace (c_gh c))) (c_thr c) = 0
}.

(* receivers of ok = false saw a closed and empty queue (own record: its classifier changes when
   close(queue) wakes the parked workers, so its step lemma is written by hand) *)
Record invK2 (c : pcfg) : Prop := {
  k_cl : tsum (clrecv_bad (s_closed (c_sh c) && qe (c_sh c))) (c_thr c) = 0
}.
Definition invK_G0 (P : params) (g : ghost) (l : list (tid * thr)) (th : thr) (o : pout) : Prop :=
  (bz (g_began (apply_gevs g (o_gev o))) - upd (tsum (pcf g_spa) l) ((pcf g_spa) th) (oz (pcf g_spa) (o_th o)) (oz (pcf g_spa) (o_spawn o)) - eqst (s_state (o_sh o)) SStopped <= 0 \/ (s_closed (o_sh o) = true /\ qe (o_sh o) = true) \/ i_init P <= upd (tsum (cnt_ning (s_mp (o_sh o))) l) ((cnt_ning (s_mp (o_sh o))) th) (oz (cnt_ning (s_mp (o_sh o))) (o_th o)) (oz (cnt_ning (s_mp (o_sh o))) (o_spawn o)) + upd (tsum pend l) (pend th) (oz pend (o_th o)) (oz pend (o_spawn o))).

Definition invK_G1 (P : params) (g : ghost) (l : list (tid * thr)) (th : thr) (o : pout) : Prop :=
  (s_ictx (o_sh o) = true \/ upd (tsum (pcf g_gadd) l) ((pcf g_gadd) th) (oz (pcf g_gadd) (o_th o)) (oz (pcf g_gadd) (o_spawn o)) = 0 \/ i_init P + 1 <= upd (tsum (cnt_ning (s_mp (o_sh o))) l) ((cnt_ning (s_mp (o_sh o))) th) (oz (cnt_ning (s_mp (o_sh o))) (o_th o)) (oz (cnt_ning (s_mp (o_sh o))) (o_spawn o)) + upd (tsum pend l) (pend th) (oz pend (o_th o)) (oz pend (o_spawn o))).

Definition invK_G2 (P : params) (g : ghost) (l : list (tid * thr)) (th : thr) (o : pout) : Prop :=
  (s_ictx (o_sh o) = true \/ upd (tsum (pcf g_gdec) l) ((pcf g_gdec) th) (oz (pcf g_gdec) (o_th o)) (oz (pcf g_gdec) (o_spawn o)) = 0 \/ i_init P + 1 <= upd (tsum (cnt_ning (s_mp (o_sh o))) l) ((cnt_ning (s_mp (o_sh o))) th) (oz (cnt_ning (s_mp (o_sh o))) (o_th o)) (oz (cnt_ning (s_mp (o_sh o))) (o_spawn o)) + upd (tsum pend l) (pend th) (oz pend (o_th o)) (oz pend (o_spawn o))).

Definition invK_G3 (P : params) (g : ghost) (l : list (tid * thr)) (th : thr) (o : pout) : Prop :=
  (eqst (s_state (o_sh o)) SClosing + bz (s_total (o_sh o) =? 0) - 1 <= upd (tsum will l) (will th) (oz will (o_th o)) (oz will (o_spawn o))).

Definition invK_G4 (P : params) (g : ghost) (l : list (tid * thr)) (th : thr) (o : pout) : Prop :=
  (upd (tsum (zr_bad (s_total (o_sh o) =? 0)) l) ((zr_bad (s_total (o_sh o) =? 0)) th) (oz (zr_bad (s_total (o_sh o) =? 0)) (o_th o)) (oz (zr_bad (s_total (o_sh o) =? 0)) (o_spawn o)) = 0).

Definition invK_G5 (P : params) (g : ghost) (l : list (tid * thr)) (th : thr) (o : pout) : Prop :=
  (upd (tsum (pcf g_canc) l) ((pcf g_canc) th) (oz (pcf g_canc) (o_th o)) (oz (pcf g_canc) (o_spawn o)) = 0 \/ (qe (o_sh o) = true /\ upd (tsum (pcf g_cnt) l) ((pcf g_cnt) th) (oz (pcf g_cnt) (o_th o)) (oz (pcf g_cnt) (o_spawn o)) = 0)).

Definition invK_G6 (P : params) (g : ghost) (l : list (tid * thr)) (th : thr) (o : pout) : Prop :=
  (bz (g_grace (apply_gevs g (o_gev o))) <= bz (qe (o_sh o))).

Definition invK_G7 (P : params) (g : ghost) (l : list (tid * thr)) (th : thr) (o : pout) : Prop :=
  (upd (tsum (cnt_bad (g_grace (apply_gevs g (o_gev o)))) l) ((cnt_bad (g_grace (apply_gevs g (o_gev o)))) th) (oz (cnt_bad (g_grace (apply_gevs g (o_gev o)))) (o_th o)) (oz (cnt_bad (g_grace (apply_gevs g (o_gev o)))) (o_spawn o)) = 0).

Definition invK_G (P : params) (g : ghost) (l : list (tid * thr)) (th : thr) (o : pout) : Prop :=
  invK_G0 P g l th o /\
  invK_G1 P g l th o /\
  invK_G2 P g l th o /\
  invK_G3 P g l th o /\
  invK_G4 P g l th o /\
  invK_G5 P g l th o /\
  invK_G6 P g l th o /\
  invK_G7 P g l th o.

Lemma invK_G_intro P g l th o :
  invK_G0 P g l th o -> invK_G1 P g l th o -> invK_G2 P g l th o -> invK_G3 P g l th o -> invK_G4 P g l th o -> invK_G5 P g l th o -> invK_G6 P g l th o -> invK_G7 P g l th o -> invK_G P g l th o.
Proof. unfold invK_G. tauto. Qed.

Lemma invK_of_G c t th o c' obs :
  lookup t (c_thr c) = Some th -> apply_out c t o = Some (c', obs) ->
  invK_G (c_par c) (c_gh c) (c_thr c) th o -> invK c'.
Proof.
  intros Hl Ha G. unfold invK_G, invK_G0, invK_G1, invK_G2, invK_G3, invK_G4, invK_G5, invK_G6, invK_G7 in G. destruct (apply_out_fields _ _ _ _ _ Ha) as (Hp & Hsh & Hgh & Hnt).
  destruct G as (G0 & G1 & G2 & G3 & G4 & G5 & G6 & G7).
  constructor; intros; rewrite ?Hp, ?Hsh, ?Hgh in *;
    try rewrite (tsum_step (pcf g_spa) c t th o c' obs Hl ((pcf_wake_ok g_spa eq_refl eq_refl) (o_wake o)) Ha);
    try rewrite (tsum_step (cnt_ning (s_mp (o_sh o))) c t th o c' obs Hl ((cnt_ning_wake (s_mp (o_sh o))) (o_wake o)) Ha);
    try rewrite (tsum_step pend c t th o c' obs Hl (pend_wake (o_wake o)) Ha);
    try rewrite (tsum_step (pcf g_gadd) c t th o c' obs Hl ((pcf_wake_ok g_gadd eq_refl eq_refl) (o_wake o)) Ha);
    try rewrite (tsum_step (pcf g_gdec) c t th o c' obs Hl ((pcf_wake_ok g_gdec eq_refl eq_refl) (o_wake o)) Ha);
    try rewrite (tsum_step will c t th o c' obs Hl (will_wake (o_wake o)) Ha);
    try rewrite (tsum_step (zr_bad (s_total (o_sh o) =? 0)) c t th o c' obs Hl ((zr_bad_wake (s_total (o_sh o) =? 0)) (o_wake o)) Ha);
    try rewrite (tsum_step (pcf g_canc) c t th o c' obs Hl ((pcf_wake_ok g_canc eq_refl eq_refl) (o_wake o)) Ha);
    try rewrite (tsum_step (pcf g_cnt) c t th o c' obs Hl ((pcf_wake_ok g_cnt eq_refl eq_refl) (o_wake o)) Ha);
    try rewrite (tsum_step (cnt_bad (g_grace (apply_gevs (c_gh c) (o_gev o)))) c t th o c' obs Hl ((cnt_bad_wake (g_grace (apply_gevs (c_gh c) (o_gev o)))) (o_wake o)) Ha);
    first [assumption | solve [auto]].
Qed.


Lemma cnt_ning_z1 mp mp' y : zmem (l_wid y) mp' = zmem (l_wid y) mp -> cnt_ning mp' y = cnt_ning mp y.
Proof. intros H. cbn [cnt_ning]. rewrite H. reflexivity. Qed.
Lemma cnt_ning_z2 mp mp' y : g_own (pc y) = 0 -> cnt_ning mp' y = cnt_ning mp y.
Proof. cbn [cnt_ning]. destruct (pc y); cbn; intros H; try discriminate H; destruct (zmem (l_wid y) mp'), (zmem (l_wid y) mp); reflexivity. Qed.
