(* Proofs about RetryModel (C19).  The property theorems in props/C19.v are `exact` these lemmas. *)
From Ekit Require Import Common RetryModel.
From Coq Require Import ZifyBool.


Lemma i32_id : forall z, - 2 ^ 31 <= z < 2 ^ 31 -> i32 z = z.
Proof.
  intros z Hz. unfold i32, wrap_s.
  change (2 ^ 32) with 4294967296. change (2 ^ (32 - 1)) with 2147483648.
  change (2 ^ 31) with 2147483648 in Hz.
  destruct (z mod 4294967296 <? 2147483648) eqn:E; Z.div_mod_to_equations; lia.
Qed.

Lemma i64_id : forall z, - 2 ^ 63 <= z < 2 ^ 63 -> i64 z = z.
Proof.
  intros z Hz. unfold i64, wrap_s.
  change (2 ^ 64) with 18446744073709551616. change (2 ^ (64 - 1)) with 9223372036854775808.
  change (2 ^ 63) with 9223372036854775808 in Hz.
  destruct (z mod 18446744073709551616 <? 9223372036854775808) eqn:E; Z.div_mod_to_equations; lia.
Qed.

Lemma i64_range : forall z, - 2 ^ 63 <= i64 z < 2 ^ 63.
Proof.
  intros z. unfold i64, wrap_s.
  change (2 ^ 64) with 18446744073709551616. change (2 ^ (64 - 1)) with 9223372036854775808.
  change (2 ^ 63) with 9223372036854775808.
  destruct (z mod 18446744073709551616 <? 9223372036854775808) eqn:E; Z.div_mod_to_equations; lia.
Qed.

Lemma i32_range : forall z, - 2 ^ 31 <= i32 z < 2 ^ 31.
Proof.
  intros z. unfold i32, wrap_s.
  change (2 ^ 32) with 4294967296. change (2 ^ (32 - 1)) with 2147483648.
  change (2 ^ 31) with 2147483648.
  destruct (z mod 4294967296 <? 2147483648) eqn:E; Z.div_mod_to_equations; lia.
Qed.

(* a product that does not fit is never accepted by the division test *)
Lemma quot_detects_overflow : forall a f w,
  0 < a -> 0 < f -> a * f >= 2 ^ 63 -> - 2 ^ 63 <= w < 2 ^ 63 -> Z.quot w f <> a.
Proof.
  intros a f w Ha Hf Hbig Hw Hq.
  change (2 ^ 63) with 9223372036854775808 in *.
  Z.to_euclidean_division_equations. nia.
Qed.
Lemma pow2_pos : forall n, 0 <= n -> 0 < 2 ^ n.
Proof. intros n Hn. apply Z.pow_pos_nonneg; lia. Qed.

Lemma pow2_i64_pos : forall n, 0 < pow2_i64 n -> 0 <= n <= 62 /\ pow2_i64 n = 2 ^ n.
Proof.
  intros n. unfold pow2_i64.
  destruct (n <? 0) eqn:E1; [lia|]. destruct (n <=? 62) eqn:E2; [lia|].
  change (2 ^ 63) with 9223372036854775808. lia.
Qed.

Lemma compute_now_accept : forall p r iv,
  0 < p_init p -> compute VNow p r = (iv, false) ->
  exists n, 0 <= n <= 62 /\ i32 (r - 1) = n /\ iv = p_init p * 2 ^ n /\ 0 < iv <= p_max p.
Proof.
  intros p r iv Hinit Hc. unfold compute in Hc.
  set (f := pow2_i64 (i32 (r - 1))) in *.
  set (w := i64 (p_init p * f)) in *.
  injection Hc as Hiv Hover. subst iv.
  destruct (f <=? 0) eqn:Ef; [discriminate|].
  destruct (negb (Z.quot w f =? p_init p)) eqn:Eq; [discriminate|].
  destruct (w <=? 0) eqn:Ew; [discriminate|].
  assert (Hfpos : 0 < f) by lia.
  destruct (pow2_i64_pos _ Hfpos) as [Hn Hf].
  exists (i32 (r - 1)). split; [exact Hn|]. split; [reflexivity|].
  assert (Hq : Z.quot w f = p_init p) by lia.
  assert (Hfit : p_init p * f < 2 ^ 63).
  { destruct (Z_lt_ge_dec (p_init p * f) (2 ^ 63)) as [Hlt|Hge]; [exact Hlt|].
    exfalso. exact (quot_detects_overflow (p_init p) f w Hinit Hfpos Hge (i64_range _) Hq). }
  assert (Hw : w = p_init p * f).
  { unfold w. apply i64_id. change (2 ^ 63) with 9223372036854775808 in *. nia. }
  fold f in Hf. rewrite <- Hf. split; [exact Hw|]. lia.
Qed.

Lemma compute_now_exact : forall p k,
  0 < p_init p -> p_max p < 2 ^ 63 -> 0 <= k < 2 ^ 31 - 1 ->
  compute VNow p (k + 1) =
    (i64 (p_init p * pow2_i64 k), negb (p_init p * 2 ^ k <=? p_max p)) /\
  (p_init p * 2 ^ k <= p_max p -> i64 (p_init p * pow2_i64 k) = p_init p * 2 ^ k).
Proof.
  intros p k Hinit Hmax Hk.
  assert (Hn : i32 (k + 1 - 1) = k).
  { replace (k + 1 - 1) with k by lia. apply i32_id. change (2 ^ 31) with 2147483648 in *. lia. }
  assert (Hpk : 0 < 2 ^ k) by (apply pow2_pos; lia).
  unfold compute. rewrite Hn.
  set (f := pow2_i64 k). set (w := i64 (p_init p * f)).
  unfold pow2_i64 in f. 
  destruct (k <? 0) eqn:E1; [lia|].
  destruct (k <=? 62) eqn:E2.
  - (* factor = 2^k *)
    subst f. assert (Ef : (2 ^ k <=? 0) = false) by lia. rewrite Ef.
    destruct (Z_lt_ge_dec (p_init p * 2 ^ k) (2 ^ 63)) as [Hlt|Hge].
    + assert (Hw : w = p_init p * 2 ^ k).
      { unfold w. apply i64_id. change (2 ^ 63) with 9223372036854775808 in *. nia. }
      rewrite Hw. rewrite Z.quot_mul by lia. rewrite Z.eqb_refl. cbn [negb].
      assert (Ew : (p_init p * 2 ^ k <=? 0) = false) by nia. rewrite Ew.
      split; [|reflexivity]. f_equal. lia.
    + assert (Hq : Z.quot w (2 ^ k) <> p_init p)
        by (apply quot_detects_overflow; [lia|lia|exact Hge|apply i64_range]).
      assert (Eq : negb (Z.quot w (2 ^ k) =? p_init p) = true) by lia. rewrite Eq.
      split; [f_equal; lia| lia].
  - (* factor = -2^63 *)
    subst f. change (- 2 ^ 63 <=? 0) with true. cbv iota.
    assert (Hbig : 2 ^ 63 <= 2 ^ k) by (apply Z.pow_le_mono_r; lia).
    split; [f_equal; nia | nia].
Qed.
(* ---------- sequential runs ---------- *)
Lemma run_shift : forall p s k, fst (run p s (S k)) = fst (run p (fst (next p s)) k).
Proof.
  intros p s k. cbn [run]. destruct (next p s) as [s1 a]. cbn [fst].
  destruct (run p s1 k) as [s2 l]. reflexivity.
Qed.

Lemma run_snoc : forall p k s, fst (run p s (S k)) = fst (next p (fst (run p s k))).
Proof.
  intros p k. induction k as [|k IH]; intros s.
  - cbn [run fst]. destruct (next p s) as [s1 a]. reflexivity.
  - rewrite run_shift. rewrite IH. rewrite <- run_shift. reflexivity.
Qed.

Lemma run_nth : forall p n k s, (k < n)%nat ->
  nth_error (snd (run p s n)) k = Some (snd (next p (fst (run p s k)))).
Proof.
  intros p n. induction n as [|n IH]; intros k s Hk; [lia|].
  destruct k as [|k].
  - cbn [run fst]. destruct (next p s) as [s1 a]. destruct (run p s1 n) as [s2 l]. reflexivity.
  - rewrite run_shift. cbn [run]. destruct (next p s) as [s1 a] eqn:En.
    specialize (IH k s1 ltac:(lia)). destruct (run p s1 n) as [s2 l]. cbn [snd fst nth_error] in *.
    exact IH.
Qed.

Lemma run_length : forall p n s, length (snd (run p s n)) = n.
Proof.
  intros p n. induction n as [|n IH]; intros s; [reflexivity|].
  cbn [run]. destruct (next p s) as [s1 a]. specialize (IH s1).
  destruct (run p s1 n) as [s2 l]. cbn [snd length] in *. lia.
Qed.

Lemma next_retries : forall p s, retries (fst (next p s)) = i32 (retries s + 1).
Proof.
  intros p s. unfold next. destruct (budget_ok p _); [|reflexivity].
  destruct (p_kind p) as [v|]; [|reflexivity].
  destruct (reached s); [reflexivity|].
  destruct (compute v p _) as [iv over]. destruct over; reflexivity.
Qed.

Lemma next_ok_flag : forall p s, snd (snd (next p s)) = budget_ok p (i32 (retries s + 1)).
Proof.
  intros p s. unfold next. destruct (budget_ok p _); [|reflexivity].
  destruct (p_kind p) as [v|]; [|reflexivity].
  destruct (reached s); [reflexivity|].
  destruct (compute v p _) as [iv over]. destruct over; reflexivity.
Qed.

Lemma run_retries : forall p k, Z.of_nat k < 2 ^ 31 -> retries (fst (run p s0 k)) = Z.of_nat k.
Proof.
  intros p k. induction k as [|k IH]; intros Hk; [reflexivity|].
  rewrite run_snoc, next_retries, IH by lia. rewrite i32_id; change (2 ^ 31) with 2147483648 in *; lia.
Qed.

(* what the budget grants among the first m calls *)
Definition granted (p : params) (m : Z) : Z := if p_maxr p <=? 0 then m else Z.min m (p_maxr p).

Lemma granted_step : forall p m, 0 <= m ->
  granted p (m + 1) = granted p m + (if budget_ok p (m + 1) then 1 else 0).
Proof.
  intros p m Hm. unfold granted, budget_ok.
  destruct (p_maxr p <=? 0) eqn:E; cbn [orb]; [lia|].
  destruct (m + 1 <=? p_maxr p) eqn:E2; lia.
Qed.

Lemma count_run : forall p n s k,
  retries s = Z.of_nat k -> Z.of_nat (k + n) < 2 ^ 31 ->
  Z.of_nat (count_true (snd (run p s n))) = granted p (Z.of_nat (k + n)) - granted p (Z.of_nat k).
Proof.
  intros p n. induction n as [|n IH]; intros s k Hs Hb.
  - cbn [run snd]. replace (k + 0)%nat with k by lia. cbn. lia.
  - cbn [run]. pose proof (next_retries p s) as Hr. pose proof (next_ok_flag p s) as Hf.
    destruct (next p s) as [s1 [iv ok]]. cbn [fst snd] in Hr, Hf.
    assert (Hi : i32 (retries s + 1) = Z.of_nat (S k)).
    { rewrite Hs. rewrite i32_id; change (2 ^ 31) with 2147483648 in *; lia. }
    rewrite Hi in Hr, Hf.
    specialize (IH s1 (S k) Hr ltac:(replace (S k + n)%nat with (k + S n)%nat by lia; exact Hb)).
    destruct (run p s1 n) as [s2 l]. cbn [snd] in *.
    unfold count_true in *. cbn [filter snd].
    replace (S k + n)%nat with (k + S n)%nat in IH by lia.
    pose proof (granted_step p (Z.of_nat k) ltac:(lia)) as Hg.
    replace (Z.of_nat k + 1) with (Z.of_nat (S k)) in Hg by lia.
    rewrite <- Hf in Hg. destruct ok; cbn [length]; lia.
Qed.

(* ---------- the exponential strategy, sequentially ---------- *)

Definition seq_inv (p : params) (k : nat) (s : sstate) : Prop :=
  retries s = Z.of_nat k /\
  (reached s = true -> exists j, 1 <= j <= Z.of_nat k /\ p_init p * 2 ^ (j - 1) > p_max p) /\
  (reached s = false -> forall j, 1 <= j <= Z.of_nat k -> budget_ok p j = true ->
                        p_init p * 2 ^ (j - 1) <= p_max p).

Lemma pow2_mono_mul : forall a i j, 0 < a -> 0 <= i <= j -> a * 2 ^ i <= a * 2 ^ j.
Proof.
  intros a i j Ha Hij. apply Z.mul_le_mono_nonneg_l; [lia|]. apply Z.pow_le_mono_r; lia.
Qed.

Lemma next_exp_spec : forall p k s,
  wf_exp p -> seq_inv p k s -> Z.of_nat k + 1 < 2 ^ 31 ->
  seq_inv p (S k) (fst (next p s)) /\
  snd (next p s) = if budget_ok p (Z.of_nat k + 1)
                   then (Z.min (p_init p * 2 ^ Z.of_nat k) (p_max p), true) else (0, false).
Proof.
  intros p k s [Hkind [Hinit Hmax]] [Hr [Ht Hf]] Hk.
  assert (Hi : i32 (retries s + 1) = Z.of_nat k + 1).
  { rewrite Hr. apply i32_id. change (2 ^ 31) with 2147483648 in *. lia. }
  assert (HS : Z.of_nat (S k) = Z.of_nat k + 1) by lia.
  unfold next. rewrite Hi, Hkind.
  destruct (budget_ok p (Z.of_nat k + 1)) eqn:Eb.
  - destruct (reached s) eqn:Er.
    + (* flag already set *)
      destruct (Ht eq_refl) as [j [Hj Hbig]].
      pose proof (pow2_mono_mul (p_init p) (j - 1) (Z.of_nat k) ltac:(lia) ltac:(lia)) as Hm.
      split.
      * unfold seq_inv, with_retries. cbn [fst retries reached]. rewrite Er. split; [lia|]. split.
        -- intros _. exists j. lia.
        -- discriminate.
      * cbn [snd]. f_equal. lia.
    + destruct (compute_now_exact p (Z.of_nat k) ltac:(lia) Hmax ltac:(lia)) as [Hc Hex].
      rewrite Hc.
      destruct (p_init p * 2 ^ Z.of_nat k <=? p_max p) eqn:El; cbn [negb].
      * (* the product fits under the cap *)
        rewrite Hex by lia. split.
        -- unfold seq_inv, with_retries. cbn [fst retries reached]. rewrite Er. split; [lia|]. split; [discriminate|].
           intros _ j Hj Hbj. destruct (Z.eq_dec j (Z.of_nat k + 1)) as [->|Hne].
           ++ replace (Z.of_nat k + 1 - 1) with (Z.of_nat k) by lia. lia.
           ++ apply (Hf eq_refl); [lia|exact Hbj].
        -- cbn [snd]. f_equal. lia.
      * split.
        -- unfold seq_inv. cbn [fst retries reached]. split; [lia|]. split; [|discriminate].
           intros _. exists (Z.of_nat k + 1). replace (Z.of_nat k + 1 - 1) with (Z.of_nat k) by lia. lia.
        -- cbn [snd]. f_equal. lia.
  - split; [|reflexivity].
    unfold seq_inv, with_retries. cbn [fst retries reached]. split; [lia|]. split.
    + intros Hre. destruct (Ht Hre) as [j [Hj Hbig]]. exists j. lia.
    + intros Hre j Hj Hbj. destruct (Z.eq_dec j (Z.of_nat k + 1)) as [->|Hne]; [congruence|].
      apply (Hf Hre); [lia|exact Hbj].
Qed.

Lemma seq_inv_run : forall p k, wf_exp p -> Z.of_nat k < 2 ^ 31 -> seq_inv p k (fst (run p s0 k)).
Proof.
  intros p k Hwf. induction k as [|k IH]; intros Hk.
  - cbn. unfold seq_inv. cbn. split; [reflexivity|]. split; [discriminate|]. intros _ j Hj. lia.
  - rewrite run_snoc. apply next_exp_spec; [exact Hwf|apply IH; lia|lia].
Qed.

Lemma exp_ith_interval_lemma : forall v init max maxr p (n k : nat),
  v = VNow -> 0 < init <= max -> max < 2 ^ 63 ->
  new_exp v init max maxr = CtorOk p ->
  (k < n)%nat -> Z.of_nat k + 1 < 2 ^ 31 ->
  (maxr <= 0 \/ Z.of_nat k + 1 <= maxr) ->
  nth_error (snd (run p s0 n)) k = Some (Z.min (init * 2 ^ Z.of_nat k) max, true).
Proof.
  intros v init max maxr p n k -> Hinit Hmax Hc Hk Hb Hbud.
  unfold new_exp in Hc.
  destruct (init <=? 0) eqn:E1; [lia|]. destruct (max <? init) eqn:E2; [lia|].
  injection Hc as <-.
  set (p := {| p_kind := KExp VNow; p_init := init; p_max := max; p_maxr := maxr |}).
  assert (Hwf : wf_exp p) by (unfold wf_exp; subst p; cbn [p_kind p_init p_max]; split; [reflexivity|lia]).
  rewrite run_nth by exact Hk.
  destruct (next_exp_spec p k _ Hwf (seq_inv_run p k Hwf ltac:(lia)) Hb) as [_ Hs].
  rewrite Hs. assert (Eb : budget_ok p (Z.of_nat k + 1) = true) by (unfold budget_ok; subst p; cbn [p_maxr]; lia).
  rewrite Eb. reflexivity.
Qed.
Lemma exp_answer : forall p (n k : nat),
  wf_exp p -> (k < n)%nat -> Z.of_nat k + 1 < 2 ^ 31 ->
  nth_error (snd (run p s0 n)) k =
  Some (if budget_ok p (Z.of_nat k + 1)
        then (Z.min (p_init p * 2 ^ Z.of_nat k) (p_max p), true) else (0, false)).
Proof.
  intros p n k Hwf Hk Hb. rewrite run_nth by exact Hk.
  destruct (next_exp_spec p k _ Hwf (seq_inv_run p k Hwf ltac:(lia)) Hb) as [_ Hs].
  rewrite Hs. reflexivity.
Qed.

Lemma budget_ok_down : forall p a b, 1 <= a <= b -> budget_ok p b = true -> budget_ok p a = true.
Proof. intros p a b Hab. unfold budget_ok. lia. Qed.

Lemma exp_monotone_lemma : forall p (n k : nat) a b,
  wf_exp p -> (S k < n)%nat -> Z.of_nat k + 2 < 2 ^ 31 ->
  nth_error (snd (run p s0 n)) k = Some a -> nth_error (snd (run p s0 n)) (S k) = Some b ->
  snd b = true -> snd a = true /\ fst a <= fst b.
Proof.
  intros p n k a b Hwf Hk Hb Ha Hbb Hok.
  rewrite (exp_answer p n k Hwf) in Ha by lia.
  rewrite (exp_answer p n (S k) Hwf) in Hbb by lia.
  replace (Z.of_nat (S k) + 1) with (Z.of_nat k + 2) in Hbb by lia.
  destruct (budget_ok p (Z.of_nat k + 2)) eqn:E2.
  - rewrite (budget_ok_down p (Z.of_nat k + 1) (Z.of_nat k + 2)) in Ha by (lia || exact E2).
    injection Ha as <-. injection Hbb as <-. cbn [fst snd]. split; [reflexivity|].
    destruct Hwf as [_ [Hinit _]].
    pose proof (pow2_mono_mul (p_init p) (Z.of_nat k) (Z.of_nat (S k)) ltac:(lia) ltac:(lia)). lia.
  - injection Hbb as <-. discriminate Hok.
Qed.

Lemma exp_bounds_seq_lemma : forall p (n k : nat) iv,
  wf_exp p -> (k < n)%nat -> Z.of_nat k + 1 < 2 ^ 31 ->
  nth_error (snd (run p s0 n)) k = Some (iv, true) -> p_init p <= iv <= p_max p.
Proof.
  intros p n k iv Hwf Hk Hb Ha. rewrite (exp_answer p n k Hwf Hk Hb) in Ha.
  destruct (budget_ok p _); [|discriminate]. injection Ha as <-.
  destruct Hwf as [_ [Hinit _]].
  pose proof (pow2_mono_mul (p_init p) 0 (Z.of_nat k) ltac:(lia) ltac:(lia)) as Hm.
  rewrite Z.pow_0_r in Hm. lia.
Qed.

(* ---------- the fixed strategy ---------- *)
Lemma fixed_answer : forall p (n k : nat),
  p_kind p = KFixed -> (k < n)%nat -> Z.of_nat k + 1 < 2 ^ 31 ->
  nth_error (snd (run p s0 n)) k =
  Some (if budget_ok p (Z.of_nat k + 1) then (p_init p, true) else (0, false)).
Proof.
  intros p n k Hkind Hk Hb. rewrite run_nth by exact Hk. f_equal.
  unfold next. rewrite run_retries by lia. rewrite Hkind.
  rewrite i32_id by (change (2 ^ 31) with 2147483648 in *; lia).
  destruct (budget_ok p _); reflexivity.
Qed.

(* ---------- constructors ---------- *)
Lemma new_exp_exact : forall v init max maxr,
  match new_exp v init max maxr with
  | CtorErrInterval => init <= 0
  | CtorErrMaxInterval => 0 < init /\ max < init
  | CtorOk p => 0 < init <= max /\
                p = {| p_kind := KExp v; p_init := init; p_max := max; p_maxr := maxr |}
  end.
Proof.
  intros v init max maxr. unfold new_exp.
  destruct (init <=? 0) eqn:E1; [lia|]. destruct (max <? init) eqn:E2; [lia|].
  split; [lia|reflexivity].
Qed.

Lemma new_fixed_exact : forall interval maxr,
  match new_fixed interval maxr with
  | CtorErrInterval => interval <= 0
  | CtorErrMaxInterval => False
  | CtorOk p => 0 < interval /\
                p = {| p_kind := KFixed; p_init := interval; p_max := interval; p_maxr := maxr |}
  end.
Proof.
  intros interval maxr. unfold new_fixed. destruct (interval <=? 0) eqn:E1; [lia|].
  split; [lia|reflexivity].
Qed.

(* ---------- budget, sequentially ---------- *)
Lemma granted_0 : forall p, granted p 0 = 0.
Proof. intros p. unfold granted. destruct (p_maxr p <=? 0) eqn:E; lia. Qed.

Lemma budget_exact_seq_lemma : forall p (n : nat),
  Z.of_nat n < 2 ^ 31 -> Z.of_nat (count_true (snd (run p s0 n))) = granted p (Z.of_nat n).
Proof.
  intros p n Hn. rewrite (count_run p n s0 O eq_refl) by (cbn [Nat.add]; exact Hn).
  cbn [Nat.add]. change (Z.of_nat 0) with 0. rewrite granted_0. lia.
Qed.

(* the int32 counter wraps: call number 2^31 is granted again although the budget is spent *)
Lemma budget_wraps_lemma : forall p,
  0 < p_maxr p < 2 ^ 31 - 1 ->
  let n := Z.to_nat (2 ^ 31 - 1) in
  Z.of_nat (count_true (snd (run p s0 n))) = p_maxr p /\
  exists iv, nth_error (snd (run p s0 (S n))) n = Some (iv, true).
Proof.
  intros p Hm n.
  assert (Hn : Z.of_nat n = 2 ^ 31 - 1) by (unfold n; apply Z2Nat.id; change (2 ^ 31) with 2147483648; lia).
  clearbody n. change (2 ^ 31) with 2147483648 in *. split.
  - rewrite budget_exact_seq_lemma by (change (2 ^ 31) with 2147483648; lia).
    unfold granted. rewrite Hn. destruct (p_maxr p <=? 0) eqn:E; lia.
  - rewrite run_nth by lia.
    destruct (next p (fst (run p s0 n))) as [s1 [iv ok]] eqn:En. exists iv. cbn [snd].
    pose proof (next_ok_flag p (fst (run p s0 n))) as Hf. rewrite En in Hf. cbn [snd] in Hf.
    rewrite run_retries in Hf by (change (2 ^ 31) with 2147483648; lia).
    rewrite Hn in Hf. replace (2147483648 - 1 + 1) with 2147483648 in Hf by lia.
    change (i32 2147483648) with (-2147483648) in Hf.
    subst ok. f_equal. f_equal. unfold budget_ok. lia.
Qed.
(* ---------- concurrent Next ---------- *)
Lemma lookup_none_notin : forall t l, lookup t l = None -> ~ In t (map fst l).
Proof.
  intros t l. induction l as [|[u x] l IH]; intros Hl; [intros []|].
  cbn [lookup] in Hl. destruct (Nat.eqb u t) eqn:E; [discriminate|].
  cbn [map fst In]. intros [Heq|Hin]; [apply Nat.eqb_neq in E; congruence|exact (IH Hl Hin)].
Qed.

Lemma remove_notin : forall t l, ~ In t (map fst l) -> remove t l = l.
Proof.
  intros t l. induction l as [|[u x] l IH]; intros Hn; [reflexivity|].
  cbn [map fst In] in Hn. unfold remove in *. cbn [filter fst].
  destruct (Nat.eqb u t) eqn:E; [apply Nat.eqb_eq in E; tauto|].
  cbn [negb]. f_equal. apply IH. tauto.
Qed.

Lemma notin_remove : forall t l, ~ In t (map fst (remove t l)).
Proof.
  intros t l Hin. apply in_map_iff in Hin. destruct Hin as [[u x] [Hu Hf]].
  unfold remove in Hf. apply filter_In in Hf. destruct Hf as [_ Hf]. cbn [fst] in *.
  subst u. rewrite Nat.eqb_refl in Hf. discriminate.
Qed.

Lemma remove_incl : forall t l x, In x (remove t l) -> In x l.
Proof. intros t l x Hin. unfold remove in Hin. apply filter_In in Hin. tauto. Qed.

Lemma remove_nodup : forall t l, NoDup (map fst l) -> NoDup (map fst (remove t l)).
Proof.
  intros t l. induction l as [|[u x] l IH]; intros Hnd; [constructor|].
  cbn [map fst] in Hnd. inversion Hnd as [|? ? Hnotin Hnd']; subst.
  unfold remove in *. cbn [filter fst]. destruct (Nat.eqb u t); cbn [negb]; [exact (IH Hnd')|].
  cbn [map fst]. constructor; [|exact (IH Hnd')].
  intros Hin. apply Hnotin. apply in_map_iff in Hin. destruct Hin as [y [Hy Hf]].
  apply in_map_iff. exists y. split; [exact Hy|]. apply filter_In in Hf. tauto.
Qed.

Lemma lookup_some_len : forall t l x,
  NoDup (map fst l) -> lookup t l = Some x -> S (length (remove t l)) = length l.
Proof.
  intros t l x. induction l as [|[u y] l IH]; intros Hnd Hl; [discriminate|].
  cbn [map fst] in Hnd. inversion Hnd as [|? ? Hnotin Hnd']; subst.
  cbn [lookup] in Hl. unfold remove in *. cbn [filter fst].
  destruct (Nat.eqb u t) eqn:E; cbn [negb].
  - apply Nat.eqb_eq in E. subst u. fold (remove t l). rewrite remove_notin by exact Hnotin. reflexivity.
  - cbn [length]. f_equal. exact (IH Hnd' Hl).
Qed.

Lemma lookup_in : forall t l x, lookup t l = Some x -> In (t, x) l.
Proof.
  intros t l x. induction l as [|[u y] l IH]; intros Hl; [discriminate|].
  cbn [lookup] in Hl. destruct (Nat.eqb u t) eqn:E.
  - apply Nat.eqb_eq in E. injection Hl as ->. subst u. left. reflexivity.
  - right. exact (IH Hl).
Qed.

Lemma exec_snoc : forall p c sc t, exec p c (sc ++ [t]) = step p (exec p c sc) t.
Proof. intros p c sc t. unfold exec. rewrite fold_left_app. reflexivity. Qed.

Lemma count_ok_cons : forall e h, count_ok (e :: h) = ((if ev_ok e then 1 else 0) + count_ok h)%nat.
Proof. intros e h. unfold count_ok. cbn [filter]. destruct (ev_ok e); reflexivity. Qed.

Lemma step_calls_mono : forall p c t, (c_calls c <= c_calls (step p c t))%nat.
Proof.
  intros p c t. unfold step, finish.
  destruct (lookup t (c_fl c)) as [[r|r]|].
  - destruct (reached (c_st c)); cbn [c_calls]; lia.
  - destruct (p_kind p) as [v|]; [|cbn [c_calls]; lia].
    destruct (compute v p r) as [iv over]. destruct over; cbn [c_calls]; lia.
  - destruct (budget_ok p _); [|cbn [c_calls]; lia].
    destruct (p_kind p); cbn [c_calls]; lia.
Qed.

(* the budget invariant: completed grants + calls in flight (all of which passed the
   budget test and will be granted) = what the budget allows among the calls started *)
Definition budget_inv (p : params) (c : config) : Prop :=
  retries (c_st c) = Z.of_nat (c_calls c) /\
  NoDup (map fst (c_fl c)) /\
  Z.of_nat (count_ok (c_hist c)) + Z.of_nat (length (c_fl c)) = granted p (Z.of_nat (c_calls c)).

Lemma budget_inv_step : forall p c t,
  budget_inv p c -> Z.of_nat (c_calls (step p c t)) < 2 ^ 31 -> budget_inv p (step p c t).
Proof.
  intros p c t [Hr [Hnd Hcnt]] Hb. unfold step in *.
  destruct (lookup t (c_fl c)) as [[r|r]|] eqn:El.
  - (* Load *)
    pose proof (lookup_some_len t _ _ Hnd El) as Hlen.
    destruct (reached (c_st c)); unfold budget_inv, finish; cbn [c_st c_fl c_hist c_calls].
    + rewrite count_ok_cons. cbn [ev_ok]. split; [exact Hr|]. split; [apply remove_nodup; exact Hnd|]. lia.
    + split; [exact Hr|]. split.
      * cbn [map fst]. constructor; [apply notin_remove|apply remove_nodup; exact Hnd].
      * cbn [length]. lia.
  - (* Compute / Store *)
    pose proof (lookup_some_len t _ _ Hnd El) as Hlen.
    destruct (p_kind p) as [v|].
    + destruct (compute v p r) as [iv over].
      destruct over; unfold budget_inv, finish; cbn [c_st c_fl c_hist c_calls retries];
        rewrite count_ok_cons; cbn [ev_ok]; (split; [exact Hr|]); (split; [apply remove_nodup; exact Hnd|]); lia.
    + unfold budget_inv, finish; cbn [c_st c_fl c_hist c_calls].
      rewrite count_ok_cons. cbn [ev_ok]. split; [exact Hr|]. split; [apply remove_nodup; exact Hnd|]. lia.
  - (* atomic add *)
    pose proof (lookup_none_notin t _ El) as Hnotin.
    assert (Hcalls : Z.of_nat (S (c_calls c)) < 2 ^ 31).
    { revert Hb. destruct (budget_ok p _); [destruct (p_kind p)|]; unfold finish; cbn [c_calls]; lia. }
    assert (Hi : i32 (retries (c_st c) + 1) = Z.of_nat (c_calls c) + 1).
    { rewrite Hr. apply i32_id. change (2 ^ 31) with 2147483648 in *. lia. }
    rewrite Hi.
    pose proof (granted_step p (Z.of_nat (c_calls c)) ltac:(lia)) as Hg.
    assert (HS : Z.of_nat (S (c_calls c)) = Z.of_nat (c_calls c) + 1) by lia.
    destruct (budget_ok p (Z.of_nat (c_calls c) + 1)) eqn:Eb.
    + destruct (p_kind p) as [v|]; unfold budget_inv, finish, with_retries; cbn [c_st c_fl c_hist c_calls retries]; rewrite HS.
      * split; [lia|]. split; [cbn [map fst]; constructor; assumption|]. cbn [length]. lia.
      * rewrite count_ok_cons. cbn [ev_ok]. rewrite remove_notin by exact Hnotin.
        split; [lia|]. split; [exact Hnd|]. lia.
    + unfold budget_inv, finish, with_retries; cbn [c_st c_fl c_hist c_calls retries]. rewrite HS.
      rewrite count_ok_cons. cbn [ev_ok]. rewrite remove_notin by exact Hnotin.
      split; [lia|]. split; [exact Hnd|]. lia.
Qed.

Lemma budget_inv_exec : forall p sc,
  Z.of_nat (c_calls (exec p init_config sc)) < 2 ^ 31 -> budget_inv p (exec p init_config sc).
Proof.
  intros p sc. induction sc as [|t sc IH] using rev_ind; intros Hb.
  - unfold budget_inv. cbn. rewrite granted_0. split; [reflexivity|]. split; [constructor|reflexivity].
  - rewrite exec_snoc in *. apply budget_inv_step; [|exact Hb].
    apply IH. pose proof (step_calls_mono p (exec p init_config sc) t). lia.
Qed.

Lemma budget_exact_lemma : forall p sc,
  let c := exec p init_config sc in
  Z.of_nat (c_calls c) < 2 ^ 31 ->
  Z.of_nat (count_ok (c_hist c)) + Z.of_nat (length (c_fl c)) =
  if p_maxr p <=? 0 then Z.of_nat (c_calls c) else Z.min (Z.of_nat (c_calls c)) (p_maxr p).
Proof. intros p sc c Hb. destruct (budget_inv_exec p sc Hb) as [_ [_ H]]. exact H. Qed.

(* ---------- bounds of every returned interval, for every interleaving ---------- *)


Definition reg (x : nat * pc) : Z := match snd x with PLoad r => r | PComp r => r end.

Definition bounds_inv (p : params) (c : config) : Prop :=
  Forall (good_event p) (c_hist c) /\ Forall (fun x => - 2 ^ 31 <= reg x < 2 ^ 31) (c_fl c).

Lemma forall_remove : forall (P : nat * pc -> Prop) t l, Forall P l -> Forall P (remove t l).
Proof.
  intros P t l Hl. apply Forall_forall. intros x Hx. apply remove_incl in Hx.
  rewrite Forall_forall in Hl. exact (Hl x Hx).
Qed.

Lemma bounds_inv_step : forall p c t, wf p -> bounds_inv p c -> bounds_inv p (step p c t).
Proof.
  intros p c t [Hinit Hkind] [Hh Hf]. unfold step.
  destruct (lookup t (c_fl c)) as [[r|r]|] eqn:El.
  - pose proof (lookup_in _ _ _ El) as Hin. rewrite Forall_forall in Hf.
    pose proof (Hf _ Hin) as Hr. cbn [reg snd] in Hr. rewrite <- Forall_forall in Hf.
    destruct (reached (c_st c)); unfold bounds_inv, finish; cbn [c_hist c_fl].
    + split; [|apply forall_remove; exact Hf]. constructor; [|exact Hh].
      unfold good_event. cbn [ev_ticket ev_ok ev_iv]. split; [exact Hr|]. split; [lia|left; reflexivity].
    + split; [exact Hh|]. constructor; [exact Hr|apply forall_remove; exact Hf].
  - pose proof (lookup_in _ _ _ El) as Hin. rewrite Forall_forall in Hf.
    pose proof (Hf _ Hin) as Hr. cbn [reg snd] in Hr. rewrite <- Forall_forall in Hf.
    destruct (p_kind p) as [v|].
    + subst v. destruct (compute VNow p r) as [iv over] eqn:Ec.
      destruct over; unfold bounds_inv, finish; cbn [c_hist c_fl];
        (split; [|apply forall_remove; exact Hf]); (constructor; [|exact Hh]);
        unfold good_event; cbn [ev_ticket ev_ok ev_iv]; (split; [exact Hr|]).
      * split; [lia|left; reflexivity].
      * destruct (compute_now_accept p r iv ltac:(lia) Ec) as [n [Hn [Hi [Hiv Hle]]]].
        pose proof (pow2_mono_mul (p_init p) 0 n ltac:(lia) ltac:(lia)) as Hm.
        rewrite Z.pow_0_r in Hm. split; [lia|]. right. exists n. split; [exact Hn|]. split; [|exact Hiv].
        (* the ticket is n + 1: i32 (r - 1) = n with r an int32 and 0 <= n <= 62 *)
        destruct (Z.eq_dec r (- 2 ^ 31)) as [->|Hne].
        -- exfalso. revert Hi. change (i32 (- 2 ^ 31 - 1)) with 2147483647. lia.
        -- rewrite i32_id in Hi by (change (2 ^ 31) with 2147483648 in *; lia). lia.
    + unfold bounds_inv, finish; cbn [c_hist c_fl].
      split; [|apply forall_remove; exact Hf]. constructor; [|exact Hh].
      unfold good_event; cbn [ev_ticket ev_ok ev_iv]. split; [exact Hr|]. split; [lia|left; lia].
  - pose proof (i32_range (retries (c_st c) + 1)) as Hr.
    destruct (budget_ok p _).
    + destruct (p_kind p) as [v|]; unfold bounds_inv, finish; cbn [c_hist c_fl].
      * split; [exact Hh|]. constructor; [exact Hr|exact Hf].
      * split; [|apply forall_remove; exact Hf]. constructor; [|exact Hh].
        unfold good_event; cbn [ev_ticket ev_ok ev_iv]. split; [exact Hr|]. split; [lia|left; lia].
    + unfold bounds_inv, finish; cbn [c_hist c_fl].
      split; [|apply forall_remove; exact Hf]. constructor; [|exact Hh].
      unfold good_event; cbn [ev_ticket ev_ok ev_iv]. split; [exact Hr|reflexivity].
Qed.

Lemma bounds_inv_exec : forall p sc, wf p -> bounds_inv p (exec p init_config sc).
Proof.
  intros p sc Hwf. induction sc as [|t sc IH] using rev_ind.
  - split; constructor.
  - rewrite exec_snoc. apply bounds_inv_step; assumption.
Qed.

Lemma interval_in_bounds_lemma : forall p sc e,
  wf p -> In e (c_hist (exec p init_config sc)) -> good_event p e.
Proof.
  intros p sc e Hwf Hin. destruct (bounds_inv_exec p sc Hwf) as [Hh _].
  rewrite Forall_forall in Hh. exact (Hh e Hin).
Qed.
(* the sequential `next` is the concurrent semantics run without interference *)
Lemma solo_call_lemma : forall p s t h n,
  exists k r,
    exec p {| c_st := s; c_fl := []; c_hist := h; c_calls := n |} (repeat t k) =
    {| c_st := fst (next p s); c_fl := [];
       c_hist := {| ev_tid := t; ev_ticket := r; ev_iv := fst (snd (next p s));
                    ev_ok := snd (snd (next p s)) |} :: h;
       c_calls := S n |}.
Proof.
  intros p s t h n. unfold next. set (r := i32 (retries s + 1)).
  destruct (budget_ok p r) eqn:Eb.
  - destruct (p_kind p) as [v|] eqn:Ek.
    + destruct (reached s) eqn:Er.
      * exists 2%nat, r. unfold exec. cbn [repeat fold_left].
        unfold step at 2. cbn [c_fl lookup c_st]. fold r. rewrite Eb, Ek.
        unfold step. cbn [c_fl lookup c_st c_hist c_calls]. rewrite Nat.eqb_refl.
        unfold with_retries at 1. cbn [reached]. rewrite Er.
        unfold finish, remove. cbn [c_fl c_hist filter fst]. rewrite Nat.eqb_refl. reflexivity.
      * exists 3%nat, r. unfold exec. cbn [repeat fold_left].
        unfold step at 3. cbn [c_fl lookup c_st]. fold r. rewrite Eb, Ek.
        unfold step at 2. cbn [c_fl lookup c_st c_hist c_calls]. rewrite Nat.eqb_refl.
        unfold with_retries at 1. cbn [reached]. rewrite Er.
        unfold step. cbn [c_fl lookup c_st c_hist c_calls]. rewrite Nat.eqb_refl. rewrite Ek.
        destruct (compute v p r) as [iv over]. 
        destruct over; unfold finish, remove, with_retries; cbn [c_fl c_hist c_st filter fst retries reached negb];
          rewrite Nat.eqb_refl; cbn [negb]; rewrite ?Nat.eqb_refl; cbn [negb]; rewrite ?Er; reflexivity.
    + exists 1%nat, r. unfold exec. cbn [repeat fold_left].
      unfold step. cbn [c_fl lookup c_st]. fold r. rewrite Eb, Ek. reflexivity.
  - exists 1%nat, r. unfold exec. cbn [repeat fold_left].
    unfold step. cbn [c_fl lookup c_st]. fold r. rewrite Eb. reflexivity.
Qed.

(* PINNED exponential strategy (before 672671a): a caller that computes before an earlier
   caller has stored the flag can return a wrapped product below the initial interval *)

Lemma interval_wrap_refuted_lemma :
  exists p e,
    new_exp VPinned (2 ^ 40 + 1) (2 ^ 62) 0 = CtorOk p /\
    In e (c_hist (exec p init_config wrap_witness_sched)) /\
    ev_ok e = true /\ ev_ticket e = 25 /\ ev_iv e = 2 ^ 24 /\ ev_iv e < p_init p.
Proof.
  eexists. eexists. split; [reflexivity|]. split; [vm_compute; left; reflexivity|].
  vm_compute. repeat split; reflexivity.
Qed.

(* the same schedule on the current code: the 25th caller gets the cap *)
Lemma interval_wrap_fixed_lemma :
  exists p,
    new_exp VNow (2 ^ 40 + 1) (2 ^ 62) 0 = CtorOk p /\
    hd_error (c_hist (exec p init_config wrap_witness_sched)) =
    Some {| ev_tid := 25; ev_ticket := 25; ev_iv := 2 ^ 62; ev_ok := true |}.
Proof. eexists. split; [reflexivity|]. vm_compute. reflexivity. Qed.
(* ---------- Retry ---------- *)
Lemma select_some : forall cancel at_ fire tie t,
  select cancel at_ fire tie = Some t ->
  t = Z.max at_ fire /\ (forall c, cancel = Some c -> Z.max at_ fire <= Z.max at_ c).
Proof.
  intros cancel at_ fire tie t. unfold select. destruct cancel as [c|].
  - destruct (Z.max at_ c <? Z.max at_ fire) eqn:E1; [discriminate|].
    destruct (Z.max at_ fire <? Z.max at_ c) eqn:E2.
    + intros H. injection H as <-. split; [reflexivity|]. intros c' Hc. injection Hc as <-. lia.
    + destruct tie; [discriminate|]. intros H. injection H as <-. split; [reflexivity|].
      intros c' Hc. injection Hc as <-. lia.
  - intros H. injection H as <-. split; [reflexivity|]. intros c Hc. discriminate.
Qed.

Lemma select_none : forall cancel at_ fire tie,
  select cancel at_ fire tie = None ->
  exists c, cancel = Some c /\ Z.max at_ c <= Z.max at_ fire.
Proof.
  intros cancel at_ fire tie. unfold select. destruct cancel as [c|]; [|discriminate].
  intros H. exists c. split; [reflexivity|].
  destruct (Z.max at_ c <? Z.max at_ fire) eqn:E1; [lia|].
  destruct (Z.max at_ fire <? Z.max at_ c) eqn:E2; [discriminate|]. lia.
Qed.

Section RetryProofs.
  Variable St : Type.
  Variable nxt : St -> St * (Z * bool).

  Lemma retry_first_start : forall cancel script now s,
    match fst (retry St nxt cancel now s script) with
    | b :: _ => i_start b = now
    | [] => True
    end.
  Proof.
    intros cancel script now s. destruct script as [|a rest]; [exact I|].
    cbn [retry]. destruct (a_res a) as [|err]; [reflexivity|].
    destruct (nxt s) as [s1 [iv ok]]. destruct ok; [|reflexivity].
    destruct (select cancel _ _ _) as [t|]; [|reflexivity].
    destruct (retry St nxt cancel t s1 rest) as [tr r]. reflexivity.
  Qed.

  Lemma gap_ge_interval_lemma : forall cancel script now s,
    gaps_ok (fst (retry St nxt cancel now s script)).
  Proof.
    intros cancel script. induction script as [|a rest IH]; intros now s; [exact I|].
    cbn [retry]. destruct (a_res a) as [|err]; [exact I|].
    destruct (nxt s) as [s1 [iv ok]]. destruct ok; [|exact I].
    destruct (select cancel _ _ _) as [t|] eqn:Es; [|exact I].
    pose proof (IH t s1) as Hrest. pose proof (retry_first_start cancel rest t s1) as Hst.
    destruct (retry St nxt cancel t s1 rest) as [tr r]. cbn [fst] in *.
    destruct tr as [|b tr']; [exact I|].
    cbn [gaps_ok]. split; [|exact Hrest].
    exists iv. cbn [i_wait i_end]. split; [reflexivity|].
    destruct (select_some _ _ _ _ _ Es) as [Ht _]. lia.
  Qed.


  Lemma retry_outcomes_lemma : forall cancel script now s tr res,
    retry St nxt cancel now s script = (tr, res) -> retry_post St nxt cancel s script tr res.
  Proof.
    intros cancel script. induction script as [|a rest IH]; intros now s tr res H.
    - cbn [retry] in H. injection H as <- <-. unfold retry_post.
      split; [cbn; lia|]. split; [tauto|]. split; [discriminate|].
      intros i v Hv. destruct i; discriminate.
    - cbn [retry] in H. destruct (a_res a) as [|err] eqn:Ea.
      + injection H as <- <-. unfold retry_post.
        split; [cbn [length]; lia|]. split; [discriminate|]. split; [discriminate|].
        intros [|i] v Hv; [|destruct i; discriminate]. injection Hv as <-.
        exists a. split; [reflexivity|]. split; [reflexivity|]. rewrite Ea. tauto.
      + destruct (nxt s) as [s1 [iv ok]] eqn:En. destruct ok.
        * destruct (select cancel _ _ _) as [t|] eqn:Es.
          -- destruct (retry St nxt cancel t s1 rest) as [tr' r'] eqn:Er. injection H as <- <-.
             destruct (IH t s1 tr' r' Er) as [Hlen [Hnil [Hnp Hall]]].
             destruct (select_some _ _ _ _ _ Es) as [Ht Hc].
             unfold retry_post. split; [cbn [length]; lia|]. split; [discriminate|]. split; [exact Hnp|].
             intros [|i] v Hv.
             ++ injection Hv as <-. exists a. split; [reflexivity|]. split; [reflexivity|]. rewrite Ea.
                exists iv, true. cbn [length answers]. rewrite En. split; [reflexivity|].
                cbn [i_wait i_end]. split; [reflexivity|]. split; [intros _; exact Hc|].
                intros Hlast. right. assert (Htr : tr' = []) by (destruct tr'; [reflexivity|cbn [length] in Hlast; lia]).
                destruct (Hnil Htr) as [-> ->]. subst tr'. split; reflexivity.
             ++ cbn [nth_error] in Hv. destruct (Hall i v Hv) as [a' [Ha' [Hend Hm]]].
                exists a'. split; [exact Ha'|]. split; [exact Hend|].
                destruct (a_res a') as [|e'].
                ** cbn [length]. split; [tauto|]. split; [lia|tauto].
                ** destruct Hm as [iv' [ok' [Hans Hrest]]]. exists iv', ok'.
                   cbn [length answers]. rewrite En. split; [exact Hans|].
                   destruct ok'.
                   --- destruct Hrest as [Hw [Hmid Hlast]]. split; [exact Hw|]. split.
                       +++ intros Hlt. apply Hmid. lia.
                       +++ intros Heq. destruct (Hlast ltac:(lia)) as [Hctx|[Hout Hl]]; [left; exact Hctx|].
                           right. split; [exact Hout|]. cbn [length]. lia.
                   --- split; [tauto|]. split; [lia|tauto].
          -- injection H as <- <-. destruct (select_none _ _ _ _ Es) as [c [Hc Hle]].
             unfold retry_post. split; [cbn [length]; lia|]. split; [discriminate|]. split; [discriminate|].
             intros [|i] v Hv; [|destruct i; discriminate]. injection Hv as <-.
             exists a. split; [reflexivity|]. split; [reflexivity|]. rewrite Ea.
             exists iv, true. cbn [length answers]. rewrite En. split; [reflexivity|].
             cbn [i_wait i_end]. split; [reflexivity|]. split; [intros Hlt; lia|].
             intros _. left. split; [reflexivity|]. exists c. split; [exact Hc|exact Hle].
        * injection H as <- <-.
          unfold retry_post. split; [cbn [length]; lia|]. split; [discriminate|]. split; [discriminate|].
          intros [|i] v Hv; [|destruct i; discriminate]. injection Hv as <-.
          exists a. split; [reflexivity|]. split; [reflexivity|]. rewrite Ea.
          exists iv, false. cbn [length answers]. rewrite En. split; [reflexivity|].
          cbn [i_wait]. tauto.
  Qed.
End RetryProofs.
Lemma retry_result_lemma : forall St nxt cancel script now s tr res,
  retry St nxt cancel now s script = (tr, res) ->
  (forall i, (S i < length tr)%nat ->
     exists a e iv, nth_error script i = Some a /\ a_res a = AFail e /\
                    nth_error (answers St nxt s (length tr)) i = Some (iv, true)) /\
  match res with
  | RNil => exists k a, length tr = S k /\ nth_error script k = Some a /\ a_res a = AOk
  | RExhausted e =>
      exists k a iv, length tr = S k /\ nth_error script k = Some a /\ a_res a = AFail e /\
                     nth_error (answers St nxt s (S k)) k = Some (iv, false)
  | RCtx =>
      exists k a e iv c, length tr = S k /\ nth_error script k = Some a /\ a_res a = AFail e /\
                         nth_error (answers St nxt s (S k)) k = Some (iv, true) /\ cancel = Some c
  | ROutOfScript =>
      length tr = length script /\
      (forall i a, nth_error script i = Some a -> a_res a <> AOk) /\
      (forall i, (i < length tr)%nat ->
         exists iv, nth_error (answers St nxt s (length tr)) i = Some (iv, true))
  | RPanic => False
  end.
Proof.
  intros St nxt cancel script now s tr res H.
  destruct (retry_outcomes_lemma St nxt cancel script now s tr res H) as [Hlen [Hnil [Hnp Hall]]].
  assert (H1 : forall i, (S i < length tr)%nat ->
     exists a e iv, nth_error script i = Some a /\ a_res a = AFail e /\
                    nth_error (answers St nxt s (length tr)) i = Some (iv, true)).
  { intros i Hi. destruct (nth_error tr i) as [v|] eqn:Ev; [|apply nth_error_None in Ev; lia].
    destruct (Hall i v Ev) as [a [Ha [_ Hm]]]. destruct (a_res a) as [|e] eqn:Ea; [lia|].
    destruct Hm as [iv [ok [Hans Hrest]]]. destruct ok; [|lia].
    exists a, e, iv. tauto. }
  split; [exact H1|].
  - destruct tr as [|v0 tr0] eqn:Etr.
    + destruct (Hnil eq_refl) as [-> ->]. split; [reflexivity|].
      split; [intros i a Hi; destruct i; discriminate|]. intros i Hi. cbn [length] in Hi. lia.
    + rewrite <- Etr in *. assert (Hn : exists k, length tr = S k) by (rewrite Etr; cbn [length]; eauto).
      destruct Hn as [k Hk].
      destruct (nth_error tr k) as [v|] eqn:Ev; [|apply nth_error_None in Ev; lia].
      destruct (Hall k v Ev) as [a [Ha [_ Hm]]]. rewrite Hk in Hm.
      destruct (a_res a) as [|e] eqn:Ea.
      * destruct Hm as [_ [_ ->]]. exists k, a. tauto.
      * destruct Hm as [iv [ok [Hans Hrest]]]. destruct ok.
        -- destruct Hrest as [_ [_ Hlast]]. destruct (Hlast eq_refl) as [[-> [c [Hc _]]]|[-> Hl]].
           ++ exists k, a, e, iv, c. tauto.
           ++ split; [lia|]. split.
              2:{ intros i Hi. destruct (Nat.eq_dec i k) as [->|Hne].
                  - exists iv. rewrite Hk. exact Hans.
                  - destruct (H1 i ltac:(lia)) as [a1 [e1 [iv1 [_ [_ Hans1]]]]]. exists iv1. exact Hans1. }
              intros i a' Hi Hok.
              assert (Hil : (i < length tr)%nat) by (rewrite Hk, Hl in *; apply nth_error_Some; congruence).
              destruct (nth_error tr i) as [v'|] eqn:Ev'; [|apply nth_error_None in Ev'; lia].
              destruct (Hall i v' Ev') as [a'' [Ha'' [_ Hm'']]]. rewrite Hi in Ha''. injection Ha'' as <-.
              rewrite Hok in Hm''. destruct Hm'' as [_ [_ Hr]]. discriminate.
        -- destruct Hrest as [_ [_ ->]]. exists k, a, iv. tauto.
Qed.

(* PINNED Retry (before b47c510), asynctimerchan=1: after an attempt that lasts longer than
   the interval the buffered tick makes the next wait return at once.
   fixed 10 ns interval; attempts: 1 ns, 30 ns, then success. *)

Lemma retry_gap_refuted_lemma :
  exists p a b iv,
    new_fixed 10 0 = CtorOk p /\
    nth_error (fst (retry_pinned false p None gap_witness)) 1 = Some a /\
    nth_error (fst (retry_pinned false p None gap_witness)) 2 = Some b /\
    i_wait a = Some iv /\ iv = 10 /\ i_start b - i_end a = 0 /\
    ~ gaps_ok (fst (retry_pinned false p None gap_witness)).
Proof.
  eexists. eexists. eexists. eexists. split; [reflexivity|].
  split; [vm_compute; reflexivity|]. split; [vm_compute; reflexivity|].
  split; [reflexivity|]. split; [reflexivity|]. split; [reflexivity|].
  vm_compute. intros [_ [[iv [Hiv Hge]] _]]. injection Hiv as <-. apply Hge. reflexivity.
Qed.

(* the same script: current code, and the ticker under asynctimerchan=0, keep the gap *)
Lemma retry_gap_witness_now_lemma :
  exists p, new_fixed 10 0 = CtorOk p /\
    map (fun v => (i_start v, i_end v)) (fst (retry_now p None gap_witness)) = [(0, 1); (11, 41); (51, 52)] /\
    map (fun v => (i_start v, i_end v)) (fst (retry_pinned true p None gap_witness)) = [(0, 1); (11, 41); (51, 52)] /\
    map (fun v => (i_start v, i_end v)) (fst (retry_pinned false p None gap_witness)) = [(0, 1); (11, 41); (41, 42)].
Proof. eexists. split; [reflexivity|]. vm_compute. repeat split; reflexivity. Qed.

(* ---------- Retry composed with a real strategy ---------- *)
Lemma answers_run : forall p n s, answers sstate (next p) s n = snd (run p s n).
Proof.
  intros p n. induction n as [|n IH]; intros s; [reflexivity|].
  cbn [answers run]. destruct (next p s) as [s1 a]. rewrite IH.
  destruct (run p s1 n) as [s2 l]. reflexivity.
Qed.

Lemma run_ok_flag : forall p n k iv ok,
  Z.of_nat k + 1 < 2 ^ 31 -> nth_error (snd (run p s0 n)) k = Some (iv, ok) ->
  ok = budget_ok p (Z.of_nat k + 1).
Proof.
  intros p n k iv ok Hb H.
  assert (Hk : (k < n)%nat).
  { rewrite <- (run_length p n s0). apply nth_error_Some. congruence. }
  rewrite run_nth in H by exact Hk. injection H as H.
  pose proof (next_ok_flag p (fst (run p s0 k))) as Hf. rewrite H in Hf. cbn [snd] in Hf.
  rewrite run_retries in Hf by lia.
  rewrite i32_id in Hf by (change (2 ^ 31) with 2147483648 in *; lia). exact Hf.
Qed.

(* an operation that always fails is invoked exactly maxRetries + 1 times and the result
   wraps the error of the last invocation *)
Lemma retry_exhausts_budget_lemma : forall p script tr res,
  0 < p_maxr p < 2 ^ 31 - 1 ->
  (forall a, In a script -> a_res a <> AOk) ->
  Z.of_nat (length script) > p_maxr p ->
  retry_now p None script = (tr, res) ->
  Z.of_nat (length tr) = p_maxr p + 1 /\
  exists a e, nth_error script (Z.to_nat (p_maxr p)) = Some a /\ a_res a = AFail e /\ res = RExhausted e.
Proof.
  intros p script tr res Hm Hfail Hlen H. unfold retry_now in H.
  destruct (retry_result_lemma _ _ _ _ _ _ _ _ H) as [H1 Hres].
  set (m := Z.to_nat (p_maxr p)). assert (Hmz : Z.of_nat m = p_maxr p) by (unfold m; apply Z2Nat.id; lia).
  assert (Hnb : budget_ok p (Z.of_nat m + 1) = false) by (unfold budget_ok; lia).
  assert (Hle : (length tr <= S m)%nat).
  { destruct (le_lt_dec (length tr) (S m)) as [Hl|Hg]; [exact Hl|]. exfalso.
    destruct (H1 m Hg) as [a [e [iv [_ [_ Hans]]]]]. rewrite answers_run in Hans.
    apply run_ok_flag in Hans; [congruence|lia]. }
  destruct res as [|e| | |].
  - destruct Hres as [k [a [_ [Ha Hok]]]]. exfalso. apply nth_error_In in Ha. exact (Hfail a Ha Hok).
  - destruct Hres as [k [a [iv [Hk [Ha [He Hans]]]]]]. rewrite answers_run in Hans.
    apply run_ok_flag in Hans; [|lia].
    assert (Hkm : k = m).
    { destruct (Nat.eq_dec k m) as [Heq|Hne]; [exact Heq|]. exfalso.
      assert (Hb : budget_ok p (Z.of_nat k + 1) = true) by (unfold budget_ok; lia). congruence. }
    subst k. split; [lia|]. exists a, e. tauto.
  - destruct Hres as [k [a [e [iv [c [_ [_ [_ [_ Hc]]]]]]]]]. discriminate.
  - destruct Hres as [Hl [_ Hans]]. exfalso. destruct (Hans m ltac:(lia)) as [iv Hiv].
    rewrite answers_run in Hiv. apply run_ok_flag in Hiv; [congruence|lia].
  - destruct Hres.
Qed.
