(* PoolModel (pool.OnDemandBlockTaskPool), proofs for C12 / liveness side of C10 - B6: analysis of stuck configurations *)
From Ekit Require Import Common Conc PoolModel PoolProof PoolProof7 PoolProofB PoolProofB0 PoolProofBA PoolProofB1 PoolProofB2d PoolProofB2bd PoolProofB3d PoolProofB4d.
From Coq Require Import ZifyBool Arith PeanoNat.

Definition blocking_pc (p : ppc) : bool :=
  match p with
  | TsSelect | WSelect | WParked | WUser
  | AlRLock | SiLock | TiLock | WIdLock | WTmLock | TdLock | IiRLock | RdLock | CdLock | NgRLock | WBkLock
  | Z1RLock | Z2RLock | GaLock
  | WDrain0 | WDrain1 | WRun | SnRange | SnAppend => true
  | _ => false
  end.

Definition no_recv (w : wake) : Prop := match w with WkRecv _ _ => False | _ => True end.

Lemma apply_out_some c t o : no_recv (o_wake o) -> exists r, apply_out c t o = Some r.
Proof.
  intros H. unfold apply_out.
  destruct (o_wake o) as [|r k| |]; cbn [no_recv apply_wake] in *; [| tauto | |].
  - eexists. reflexivity.
  - destruct (wake_all recv_closed _). eexists. reflexivity.
  - destruct (wake_all recv_int _). eexists. reflexivity.
Qed.

Lemma pstep0_nonblocking P s th : blocking_pc (pc th) = false ->
  exists o, pstep0 P s th = Some o /\ no_recv (o_wake o).
Proof.
  unfold pstep0, stay, stayg, fin, quit. destruct (pc th); cbn [blocking_pc]; intros H; try discriminate H;
    repeat match goal with
           | |- context [if ?b then _ else _] => destruct b
           | |- context [match ?x with TmDead => _ | TmArmed => _ | TmFired => _ end] => destruct x
           | |- context [match ?x with O => _ | S _ => _ end] => destruct x
           | |- context [match ?x with nil => _ | cons _ _ => _ end] => destruct x
           end;
    eexists; (split; [reflexivity|exact I]).
Qed.

(* a thread at a non-blocking statement can always execute it *)
Lemma nonblocking_enabled c t th :
  lookup t (c_thr c) = Some th -> blocking_pc (pc th) = false -> exists r, pexec1 c (PStep t C0) = Some r.
Proof.
  intros Hl Hb. unfold pexec1. rewrite Hl.
  destruct (pstep0_nonblocking (c_par c) (c_sh c) th Hb) as (o & Ho & Hw).
  assert (Hp : pstep (c_par c) (parked_of (c_thr c)) (c_sh c) th C0 = Some o).
  { unfold pstep. destruct (pc th); try exact Ho; discriminate Hb. }
  rewrite Hp. apply apply_out_some, Hw.
Qed.

Lemma stuck_nonblocking c t th :
  stuck c -> lookup t (c_thr c) = Some th -> blocking_pc (pc th) = true.
Proof.
  intros (Hs & _ & _) Hl. destruct (blocking_pc (pc th)) eqn:E; [reflexivity|].
  destruct (nonblocking_enabled c t th Hl E) as (r & Hr). rewrite (Hs t C0) in Hr. discriminate Hr.
Qed.

(* ---------- a positive sum has a witness ---------- *)
Lemma tsum_pos_exists f (l : list (tid * thr)) :
  (forall x, 0 <= f x) -> 1 <= tsum f l -> NoDup (tids l) -> exists t x, lookup t l = Some x /\ 1 <= f x.
Proof.
  intros Hn. induction l as [|[t x] r IH]; cbn [tsum tids map fst]; [lia|]. intros Hs Hd.
  inversion Hd as [|a b Hni Hnd]; subst.
  destruct (Z_lt_le_dec (f x) 1) as [Hlt|Hge].
  - destruct IH as (t' & x' & Hl' & Hf'); [specialize (Hn x); lia|exact Hnd|].
    exists t', x'. split; [|exact Hf']. cbn [lookup].
    destruct (Nat.eqb t' t) eqn:E; [|exact Hl'].
    apply Nat.eqb_eq in E. subst t'. exfalso. apply Hni.
    clear -Hl'. induction r as [|[u y] r IH]; cbn in *; [discriminate|]. destruct (Nat.eqb t u) eqn:E.
    + apply Nat.eqb_eq in E. auto.
    + right. apply IH, Hl'.
  - exists t, x. cbn [lookup]. rewrite Nat.eqb_refl. auto.
Qed.

Lemma step_enabled c t th ch o :
  lookup t (c_thr c) = Some th -> pstep (c_par c) (parked_of (c_thr c)) (c_sh c) th ch = Some o ->
  no_recv (o_wake o) -> exists r, pexec1 c (PStep t ch) = Some r.
Proof. intros Hl Hp Hw. unfold pexec1. rewrite Hl, Hp. apply apply_out_some, Hw. Qed.

Section Stuck.
  Variable c : pcfg.
  Hypothesis HA : invA c.
  Hypothesis HB : invB c.
  Hypothesis HP : invP c.
  Hypothesis HQ : invQ c.
  Hypothesis HG : invG c.
  Hypothesis H4 : Inv4 c.
  Hypothesis Hst : stuck c.

  Let Hstep : forall t ch, pexec1 c (PStep t ch) = None := proj1 Hst.

  Ltac contra_enabled t ch Hl :=
    let r := fresh "r" in let Hr := fresh "Hr" in
    match goal with |- False =>
      assert (exists r, pexec1 c (PStep t ch) = Some r) as (r & Hr);
      [eapply (step_enabled c t _ ch _ Hl); [unfold pstep, pstep0|]|rewrite (Hstep t ch) in Hr; discriminate Hr]
    end.

  (* ---- group.mu ---- *)
  Lemma no_g_holder t th : lookup t (c_thr c) = Some th -> 1 <= g_hgw (pc th) + g_hgr (pc th) -> False.
  Proof.
    intros Hl Hh. pose proof (stuck_nonblocking c t th Hst Hl) as Hb.
    destruct (pc th); cbn in Hh, Hb; try discriminate Hb; lia.
  Qed.

  Lemma g_is_free : s_gw (c_sh c) = false /\ s_gr (c_sh c) = 0.
  Proof.
    pose proof (b_gw c HB) as Bw. pose proof (b_gr c HB) as Br.
    pose proof (tsum_nonneg _ (c_thr c) (pcf_nonneg _ g_hgw_nn)) as Nw.
    pose proof (tsum_nonneg _ (c_thr c) (pcf_nonneg _ g_hgr_nn)) as Nr.
    split.
    - destruct (s_gw (c_sh c)) eqn:E; [exfalso|reflexivity]. cbn in Bw.
      destruct (tsum_pos_exists _ (c_thr c) (pcf_nonneg _ g_hgw_nn)) as (t & x & Hl & Hf); [lia|apply (a_nodup c HA)|].
      cbn [pcf] in Hf. pose proof (g_hgr_nn (pc x)). apply (no_g_holder t x Hl). lia.
    - destruct (Z.eq_dec (s_gr (c_sh c)) 0) as [E|E]; [exact E|exfalso].
      destruct (tsum_pos_exists _ (c_thr c) (pcf_nonneg _ g_hgr_nn)) as (t & x & Hl & Hf); [lia|apply (a_nodup c HA)|].
      cbn [pcf] in Hf. pose proof (g_hgw_nn (pc x)). apply (no_g_holder t x Hl). lia.
  Qed.

  Definition g_waiter (p : ppc) : bool :=
    match p with TdLock | RdLock | GaLock | IiRLock | Z1RLock | Z2RLock => true | _ => false end.

  Lemma no_g_waiter t th : lookup t (c_thr c) = Some th -> g_waiter (pc th) = true -> False.
  Proof.
    intros Hl Hw. destruct g_is_free as [Gw Gr].
    destruct (pc th) eqn:Hpc; cbn in Hw; try discriminate Hw;
      contra_enabled t C0 Hl; rewrite ?Hpc; unfold g_free; rewrite ?Gw, ?Gr; cbn; try reflexivity; exact I.
  Qed.

  (* ---- b.mutex ---- *)
  Lemma no_b_holder t th : lookup t (c_thr c) = Some th -> 1 <= g_hbw (pc th) + g_hbr (pc th) -> False.
  Proof.
    intros Hl Hh. pose proof (stuck_nonblocking c t th Hst Hl) as Hb.
    destruct (pc th) eqn:Hpc; cbn in Hh, Hb; try discriminate Hb; try lia;
      apply (no_g_waiter t th Hl); rewrite Hpc; reflexivity.
  Qed.

  Lemma b_is_free : s_bw (c_sh c) = false /\ s_br (c_sh c) = 0.
  Proof.
    pose proof (b_bw c HB) as Bw. pose proof (b_br c HB) as Br.
    pose proof (tsum_nonneg _ (c_thr c) (pcf_nonneg _ g_hbw_nn)) as Nw.
    pose proof (tsum_nonneg _ (c_thr c) (pcf_nonneg _ g_hbr_nn)) as Nr.
    split.
    - destruct (s_bw (c_sh c)) eqn:E; [exfalso|reflexivity]. cbn in Bw.
      destruct (tsum_pos_exists _ (c_thr c) (pcf_nonneg _ g_hbw_nn)) as (t & x & Hl & Hf); [lia|apply (a_nodup c HA)|].
      cbn [pcf] in Hf. pose proof (g_hbr_nn (pc x)). apply (no_b_holder t x Hl). lia.
    - destruct (Z.eq_dec (s_br (c_sh c)) 0) as [E|E]; [exact E|exfalso].
      destruct (tsum_pos_exists _ (c_thr c) (pcf_nonneg _ g_hbr_nn)) as (t & x & Hl & Hf); [lia|apply (a_nodup c HA)|].
      cbn [pcf] in Hf. pose proof (g_hbw_nn (pc x)). apply (no_b_holder t x Hl). lia.
  Qed.

  Definition b_waiter (p : ppc) : bool :=
    match p with AlRLock | SiLock | TiLock | WIdLock | WTmLock | CdLock | NgRLock | WBkLock => true | _ => false end.

  Lemma no_b_waiter t th : lookup t (c_thr c) = Some th -> b_waiter (pc th) = true -> False.
  Proof.
    intros Hl Hw. destruct b_is_free as [Bw Br].
    destruct (pc th) eqn:Hpc; cbn in Hw; try discriminate Hw;
      contra_enabled t C0 Hl; rewrite ?Hpc; unfold b_free; rewrite ?Bw, ?Br; cbn; try reflexivity; exact I.
  Qed.

  (* ---- timer drains, wrapper depth, ShutdownNow's range, the user function ---- *)
  Lemma no_drain t th : lookup t (c_thr c) = Some th -> g_drain (pc th) = 1 -> False.
  Proof.
    intros Hl Hd.
    pose proof (tsum_zero_lookup _ _ _ _ baddrain_nn (g_drains c HG) Hl) as Z. cbn [baddrain] in Z.
    destruct (pc th) eqn:Hpc; cbn in Hd; try discriminate Hd;
      (destruct (l_tm th) eqn:Htm; cbn [g_drain] in Z; try discriminate Z;
       contra_enabled t C0 Hl; rewrite ?Hpc, ?Htm; cbn; try reflexivity; exact I).
  Qed.

  Lemma no_wrun t th : lookup t (c_thr c) = Some th -> pc th = WRun -> False.
  Proof.
    intros Hl Hpc. pose proof (tall_lookup _ _ _ _ (y_t c H4) Hl) as Hd. unfold Ldep in Hd. rewrite Hpc in Hd. cbn in Hd.
    contra_enabled t C0 Hl; rewrite ?Hpc, ?Hd; cbn; try reflexivity; exact I.
  Qed.

  Lemma no_snrange t th : lookup t (c_thr c) = Some th -> pc th = SnRange \/ pc th = SnAppend -> False.
  Proof.
    intros Hl Hpc.
    assert (Hc : s_closed (c_sh c) = true).
    { pose proof (p_snc c HP) as Ps. pose proof (tsum_ge_lookup (pcf g_snc) _ _ _ (pcf_nonneg _ g_snc_nn) Hl) as N.
      cbn [pcf] in N. destruct Hpc as [E|E]; rewrite E in N; cbn [g_snc] in N; destruct (s_closed (c_sh c)); cbn [bz] in Ps; [reflexivity|lia|reflexivity|lia]. }
    destruct (s_q (c_sh c)) as [|k r] eqn:Eq;
      (destruct Hpc as [Hpc|Hpc]; contra_enabled t C0 Hl; rewrite ?Hpc, ?Eq, ?Hc; cbn; try reflexivity; exact I).
  Qed.

  Lemma no_wuser t th : lookup t (c_thr c) = Some th -> pc th = WUser -> False.
  Proof.
    intros Hl Hpc. pose proof (proj2 (proj2 Hst) t) as Hf. unfold pexec1 in Hf. rewrite Hl, Hpc in Hf.
    match type of Hf with apply_out ?c0 ?t0 ?o0 = None => destruct (apply_out_some c0 t0 o0 I) as (r & Hr) end.
    rewrite Hr in Hf. discriminate Hf.
  Qed.

  (* ---- the two selects ---- *)
  Lemma no_wselect t th : lookup t (c_thr c) = Some th -> pc th = WSelect -> False.
  Proof.
    intros Hl Hpc.
    destruct (s_ictx (c_sh c)) eqn:Ei.
    { contra_enabled t CInt Hl; rewrite ?Hpc; unfold w_select; rewrite ?Ei; cbn; try reflexivity; exact I. }
    destruct (tm_fired th) eqn:Ef.
    { contra_enabled t CTimer Hl; rewrite ?Hpc; unfold w_select; rewrite ?Ef; cbn; try reflexivity; exact I. }
    destruct (s_q (c_sh c)) as [|k r] eqn:Eq.
    2:{ contra_enabled t CQueue Hl; rewrite ?Hpc; unfold w_select; rewrite ?Eq; cbn; try reflexivity; exact I. }
    destruct (s_closed (c_sh c)) eqn:Ec.
    { contra_enabled t CQueue Hl; rewrite ?Hpc; unfold w_select; rewrite ?Eq, ?Ec; cbn; try reflexivity; exact I. }
    contra_enabled t C0 Hl; rewrite ?Hpc; unfold w_select, q_ready; rewrite ?Ei, ?Ef, ?Eq, ?Ec; cbn; try reflexivity; exact I.
  Qed.

  Lemma parked_head_lookup (l : list (tid * thr)) w r :
    NoDup (tids l) -> parked_of l = w :: r -> exists x, lookup w l = Some x /\ is_parked x = true.
  Proof.
    induction l as [|[u y] l IH]; cbn [parked_of tids map fst lookup]; [discriminate|]. intros Hd Hp.
    inversion Hd as [|a b Hni Hnd]; subst.
    destruct (is_parked y) eqn:Ey.
    - injection Hp as -> _. rewrite Nat.eqb_refl. eauto.
    - destruct (IH Hnd Hp) as (x & Hx & Px). exists x. split; [|exact Px].
      destruct (Nat.eqb w u) eqn:E; [|exact Hx]. apply Nat.eqb_eq in E. subst u. exfalso. apply Hni.
      clear -Hx. induction l as [|[v z] l IH]; cbn in *; [discriminate|]. destruct (Nat.eqb w v) eqn:E.
      + apply Nat.eqb_eq in E. auto.
      + right. apply IH, Hx.
  Qed.

  Lemma no_tsselect t th : lookup t (c_thr c) = Some th -> pc th = TsSelect -> False.
  Proof.
    intros Hl Hpc.
    destruct (l_cancel th) eqn:Ec.
    { contra_enabled t CCtx Hl; rewrite ?Hpc; unfold ts_select; rewrite ?Ec; cbn; try reflexivity; exact I. }
    destruct (s_closed (c_sh c)) eqn:Ecl.
    { contra_enabled t (CSend None) Hl; rewrite ?Hpc; unfold ts_select; rewrite ?Ecl; cbn; try reflexivity; exact I. }
    destruct (parked_of (c_thr c)) as [|w r] eqn:Epk.
    - destruct (qlen (c_sh c) <? i_cap (c_par c)) eqn:Eq.
      + contra_enabled t (CSend None) Hl; rewrite ?Hpc; unfold ts_select; rewrite ?Ecl, ?Epk, ?Eq; cbn; try reflexivity; exact I.
      + contra_enabled t CDefault Hl; rewrite ?Hpc; unfold ts_select, send_ready; rewrite ?Ec, ?Ecl, ?Epk, ?Eq; cbn; try reflexivity; exact I.
    - (* hand-off to the first parked worker *)
      destruct (parked_head_lookup (c_thr c) w r (a_nodup c HA) Epk) as (x & Hx & Px).
      assert (Hne : w <> t).
      { intros ->. rewrite Hl in Hx. injection Hx as <-. unfold is_parked in Px. rewrite Hpc in Px. discriminate Px. }
      pose proof (Hstep t (CSend (Some w))) as Hn. unfold pexec1 in Hn. rewrite Hl in Hn.
      unfold pstep in Hn. rewrite Hpc in Hn. unfold ts_select in Hn. rewrite Ecl, Epk in Hn.
      cbn [tmem] in Hn. rewrite Nat.eqb_refl in Hn. cbn [orb] in Hn.
      unfold apply_out in Hn. cbn [o_th o_wake apply_wake o_spawn] in Hn.
      rewrite (lookup_update_other _ t w _ (c_thr c) Hne), Hx, Px in Hn. discriminate Hn.
  Qed.

  (* ---- conclusion ---- *)
  Theorem stuck_all_parked t th :
    lookup t (c_thr c) = Some th -> pc th = WParked /\ l_tm th <> TmArmed.
  Proof.
    intros Hl. pose proof (stuck_nonblocking c t th Hst Hl) as Hb.
    assert (Hp : pc th = WParked).
    { destruct (pc th) eqn:Hpc; cbn in Hb; try discriminate Hb; try reflexivity; exfalso;
        first [ apply (no_tsselect t th Hl Hpc) | apply (no_wselect t th Hl Hpc) | apply (no_wuser t th Hl Hpc)
              | apply (no_wrun t th Hl Hpc)
              | solve [apply (no_snrange t th Hl); rewrite Hpc; auto]
              | apply (no_drain t th Hl); rewrite Hpc; reflexivity
              | apply (no_b_waiter t th Hl); rewrite Hpc; reflexivity
              | apply (no_g_waiter t th Hl); rewrite Hpc; reflexivity ]. }
    split; [exact Hp|]. intros Ha. pose proof (proj1 (proj2 Hst) t) as Hf.
    unfold pexec1 in Hf. rewrite Hl, Ha in Hf. destruct (is_parked th); discriminate Hf.
  Qed.

  (* a stuck configuration whose queue is closed, or whose context is cancelled, or whose queue is not
     empty, has no thread at all *)
  Theorem stuck_no_threads_if :
    s_closed (c_sh c) = true \/ s_ictx (c_sh c) = true \/ s_q (c_sh c) <> [] -> c_thr c = [].
  Proof.
    intros Hf. destruct (c_thr c) as [|[t th] r] eqn:E; [reflexivity|exfalso].
    assert (Hl : lookup t (c_thr c) = Some th) by (rewrite E; cbn; rewrite Nat.eqb_refl; reflexivity).
    destruct (stuck_all_parked t th Hl) as [Hp _].
    pose proof (tsum_zero_lookup _ _ _ _ (parked_bad_nn (pflag (c_sh c))) (q_parked c HQ) Hl) as Z.
    cbn [parked_bad] in Z. rewrite Hp in Z. cbn [g_parked] in Z. unfold pflag in Z.
    destruct (s_q (c_sh c)) as [|k q]; cbn [qempty negb orb] in Z; [|discriminate Z].
    destruct (s_closed (c_sh c)); cbn [orb] in Z; [discriminate Z|].
    destruct (s_ictx (c_sh c)); [discriminate Z|]. destruct Hf as [H|[H|H]]; try discriminate H. apply H. reflexivity.
  Qed.
End Stuck.
