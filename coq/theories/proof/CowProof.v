(* C06 — CopyOnWriteArrayList: the linearisation points annotated in model/CowModel.v are sound,
   no statement panics; the pinned reader does panic. *)
From Ekit Require Import Common Conc LockedModel LockedProof CowModel.
From Coq Require Import Arith PeanoNat ZifyBool.

(* ---------- list-as-array lemmas ---------- *)
Lemma nth_opt_lt {A} (l : list A) n x : nth_opt l n = Some x -> (n < length l)%nat.
Proof.
  revert n; induction l as [|a r IH]; intros n; cbn; [discriminate|].
  destruct n; [lia|]. intros H. specialize (IH _ H). lia.
Qed.

Lemma nth_opt_some {A} (l : list A) n : (n < length l)%nat -> exists x, nth_opt l n = Some x.
Proof.
  revert n; induction l as [|a r IH]; intros n; cbn; [lia|].
  destruct n; [eauto|]. intros H. apply IH. lia.
Qed.

Lemma firstn_S_nth {A} (l : list A) n x : nth_opt l n = Some x -> firstn (S n) l = firstn n l ++ [x].
Proof.
  revert n; induction l as [|a r IH]; intros n; cbn [nth_opt]; [discriminate|].
  destruct n.
  - intros H; injection H as ->. reflexivity.
  - intros H. cbn [firstn app]. cbn [firstn] in IH. rewrite (IH _ H). reflexivity.
Qed.

Lemma set_nth_length {A} (l : list A) n a : length (set_nth l n a) = length l.
Proof.
  revert n; induction l as [|x r IH]; intros n; cbn; [reflexivity|].
  destruct n; cbn; [reflexivity|rewrite IH; reflexivity].
Qed.

Lemma nth_opt_set_nth_same {A} (l : list A) n a : (n < length l)%nat -> nth_opt (set_nth l n a) n = Some a.
Proof.
  revert n; induction l as [|x r IH]; intros n; cbn; [lia|].
  destruct n; cbn; [reflexivity|]. intros H. apply IH. lia.
Qed.

Lemma firstn_set_nth_same {A} (l : list A) n a : firstn n (set_nth l n a) = firstn n l.
Proof.
  revert n; induction l as [|x r IH]; intros n; cbn; [reflexivity|].
  destruct n; cbn; [reflexivity|rewrite IH; reflexivity].
Qed.

Lemma remove_at_length {A} (l : list A) k : (k < length l)%nat -> length (remove_at l k) = pred (length l).
Proof.
  revert k; induction l as [|x r IH]; intros k; cbn; [lia|].
  destruct k; cbn; [reflexivity|]. intros H. rewrite IH by lia. lia.
Qed.

Lemma nth_opt_remove_at {A} (l : list A) k j :
  nth_opt (remove_at l k) j = if (j <? k)%nat then nth_opt l j else nth_opt l (S j).
Proof.
  revert k j; induction l as [|x r IH]; intros k j; cbn [remove_at nth_opt].
  - destruct (j <? k)%nat; reflexivity.
  - destruct k.
    + reflexivity.
    + destruct j; cbn [nth_opt]; [reflexivity|]. rewrite IH.
      change (S j <? S k)%nat with (j <? k)%nat. reflexivity.
Qed.

Lemma copy_into_same_length dst src : length dst = length src -> copy_into dst src = src.
Proof.
  intros H. unfold copy_into. rewrite H, Nat.min_id, firstn_all.
  rewrite <- H, skipn_all. apply app_nil_r.
Qed.

Lemma firstn_all_eq {A} (l1 l2 : list A) n :
  length l1 = n -> length l2 = n -> firstn n l1 = firstn n l2 -> l1 = l2.
Proof. intros H1 H2 H. rewrite <- H1 in H at 1. rewrite <- H2 in H. rewrite !firstn_all in H. exact H. Qed.

(* ---------- the invariant ---------- *)
Definition add_ok (i : Z) (vals : list Z) : bool := (0 <=? i) && (i <=? Z.of_nat (length vals)).

(* Delete's loop: after the first k elements of the range were handled *)
Definition d_core (vals : list Z) (idx : nat) (ni : list Z) (item : nat) (rt : Z) (k : nat) : Prop :=
  length ni = pred (length vals) /\
  item = (if (idx <? k)%nat then pred k else k) /\
  firstn item ni = firstn item (remove_at vals idx) /\
  ((idx < k)%nat -> nth_opt vals idx = Some rt).

Definition cow_ok (vals : list Z) (x : ls_op * cow_pc) : Prop :=
  let (o, p) := x in
  match p with
  | GIf snap l => l = length snap
  | GRetErr snap l => exists i, o = LGet i /\ in_range i (length snap) = false
  | GRetVal snap => exists i, o = LGet i /\ in_range i (length snap) = true
  | AMake n => n = length vals
  | ACopy ni => length ni = length vals
  | AApp ni => ni = vals
  | APub ni => exists ts, o = LAppend ts /\ ni = vals ++ ts
  | BMake n => n = length vals
  | BCopy ni => length ni = length vals
  | BAdd ni => ni = vals
  | BIf ni err => exists i v, o = LAdd i v /\
                    if err then add_ok i vals = false
                    else add_ok i vals = true /\ ni = insert_at vals (Z.to_nat i) v
  | BRetErr => exists i v, o = LAdd i v /\ add_ok i vals = false
  | BPub ni => exists i v, o = LAdd i v /\ add_ok i vals = true /\ ni = insert_at vals (Z.to_nat i) v
  | CIf n => n = length vals
  | CRetErr _ => exists i v, o = LSet i v /\ in_range i (length vals) = false
  | CMake n => exists i v, o = LSet i v /\ in_range i (length vals) = true /\ n = length vals
  | CCopy ni => exists i v, o = LSet i v /\ in_range i (length vals) = true /\ length ni = length vals
  | CSet ni => exists i v, o = LSet i v /\ in_range i (length vals) = true /\ ni = vals
  | CPub ni => exists i v, o = LSet i v /\ in_range i (length vals) = true /\ ni = set_nth vals (Z.to_nat i) v
  | DIf n => n = length vals
  | DRetErr _ => exists i, o = LDelete i /\ in_range i (length vals) = false
  | DMake => exists i, o = LDelete i /\ in_range i (length vals) = true
  | DItem ni => exists i, o = LDelete i /\ in_range i (length vals) = true /\ length ni = pred (length vals)
  | DFor ni item => exists i, o = LDelete i /\ in_range i (length vals) = true /\
                      length ni = pred (length vals) /\ item = 0%nat
  | DIfI ni item rt rng k =>
    exists i, o = LDelete i /\ in_range i (length vals) = true /\ rng = vals /\ (k < length vals)%nat /\
              d_core vals (Z.to_nat i) ni item rt k
  | DRetV ni item rt rng k =>
    exists i, o = LDelete i /\ in_range i (length vals) = true /\ rng = vals /\ (k < length vals)%nat /\
              d_core vals (Z.to_nat i) ni item rt k /\ k = Z.to_nat i
  | DCont ni item rt rng k =>
    exists i, o = LDelete i /\ in_range i (length vals) = true /\ rng = vals /\ (k < length vals)%nat /\
              d_core vals (Z.to_nat i) ni item rt (S k)
  | DPut ni item rt rng k =>
    exists i, o = LDelete i /\ in_range i (length vals) = true /\ rng = vals /\ (k < length vals)%nat /\
              d_core vals (Z.to_nat i) ni item rt k /\ k <> Z.to_nat i
  | DInc ni item rt rng k =>
    exists i, o = LDelete i /\ in_range i (length vals) = true /\ rng = vals /\ (k < length vals)%nat /\
              d_core vals (Z.to_nat i) ni (S item) rt (S k)
  | DPub ni rt => exists i, o = LDelete i /\ in_range i (length vals) = true /\
                            ni = remove_at vals (Z.to_nat i) /\ nth_opt vals (Z.to_nat i) = Some rt
  | ELock | EDefer | EMake => o = LAsSlice
  | ECopy res => o = LAsSlice /\ length res = length vals
  | RFn snap k vis => exists stop, o = LRange stop /\ (k < length snap)%nat /\ vis = firstn k snap /\
                                   (stop < 0 \/ Z.of_nat k <= stop)
  | RIf snap k vis e => exists stop, o = LRange stop /\ (k < length snap)%nat /\ vis = firstn (S k) snap /\
                                     (stop < 0 \/ Z.of_nat k <= stop) /\ e = (Z.of_nat k =? stop)
  | PGLenCall | PGLenRet | PGIf _ | PGRetErr _ | PGRetVal => False
  | _ => True
  end.

Definition b2z (b : bool) : Z := if b then 1 else 0.

Definition cow_I (s : cow_shared) (thr : list (tid * (ls_op * cow_pc))) : Prop :=
  count cow_in_mutex thr = b2z (cw_mu s) /\ all_thr (cow_ok (cw_vals s)) thr.

(* facts about entries outside the mutex do not mention the field *)
Lemma cow_ok_indep v v' x : cow_in_mutex x = false -> cow_ok v x -> cow_ok v' x.
Proof. destruct x as [o p]. destruct p; cbn; intros Hm H; try discriminate; exact H. Qed.

(* what one statement owes, thread-locally *)
Definition cow_local (s : cow_shared) (o : ls_op) (p : cow_pc) (s' : cow_shared) (nx : next ls_ret cow_pc) : Prop :=
  (cw_vals s' = cw_vals s \/ cow_in_mutex (o, p) = true) /\
  match nx with
  | NPc p' => cw_vals s' = cw_vals s /\ cow_phase o p' = cow_phase o p /\ cow_ok (cw_vals s') (o, p') /\
              b2z (cw_mu s') = b2z (cw_mu s) - b2z (cow_in_mutex (o, p)) + b2z (cow_in_mutex (o, p'))
  | NLin p' r => ls_seq_step (cw_vals s) o = (cw_vals s', r) /\ cow_phase o p = PhCalled o /\
                 cow_phase o p' = PhLinned o r /\ cow_ok (cw_vals s') (o, p') /\
                 b2z (cw_mu s') = b2z (cw_mu s) - b2z (cow_in_mutex (o, p)) + b2z (cow_in_mutex (o, p'))
  | NRet r => cw_vals s' = cw_vals s /\ cow_phase o p = PhLinned o r /\
              b2z (cw_mu s') = b2z (cw_mu s) - b2z (cow_in_mutex (o, p))
  | NLinRet r => ls_seq_step (cw_vals s) o = (cw_vals s', r) /\ cow_phase o p = PhCalled o /\
                 b2z (cw_mu s') = b2z (cw_mu s) - b2z (cow_in_mutex (o, p))
  | NPanic => False
  end.

Ltac cow_inj :=
  match goal with Ht : Some _ = Some _ |- _ => injection Ht as <- <- end;
  unfold cow_local; cbn [cw_vals cw_mu cow_in_mutex snd cow_phase b2z].

Ltac cow_simple :=
  cow_inj; cbn [cow_ok]; repeat split; try reflexivity; try lia; auto.

(* an ordinary statement that keeps the field, the phase and the mutex: leaves the fact about the new pc *)
Ltac cow_npc :=
  cow_inj; split; [left; reflexivity|split; [reflexivity|split; [reflexivity|split; [cbn [cow_ok]|lia]]]].

Lemma d_core_finish vals i ni item rt :
  in_range i (length vals) = true -> d_core vals (Z.to_nat i) ni item rt (length vals) ->
  ni = remove_at vals (Z.to_nat i) /\ nth_opt vals (Z.to_nat i) = Some rt.
Proof.
  unfold in_range. intros Hr (Hlen & Hitem & Hfst & Hrt).
  assert (Hidx : (Z.to_nat i < length vals)%nat) by lia.
  assert (E : (Z.to_nat i <? length vals)%nat = true) by (apply Nat.ltb_lt; exact Hidx).
  rewrite E in Hitem. split; [|apply Hrt; exact Hidx].
  subst item. eapply firstn_all_eq; [exact Hlen| |exact Hfst].
  apply remove_at_length. exact Hidx.
Qed.

Lemma d_next_ok vals i ni item rt k :
  in_range i (length vals) = true -> (k < length vals)%nat ->
  d_core vals (Z.to_nat i) ni item rt (S k) ->
  cow_ok vals (LDelete i, d_next ni item rt vals k) /\
  cow_phase (LDelete i) (d_next ni item rt vals k) = PhCalled (LDelete i) /\
  cow_in_mutex (LDelete i, d_next ni item rt vals k) = true.
Proof.
  intros Hr Hk Hc. unfold d_next. destruct (S k <? length vals)%nat eqn:E.
  - apply Nat.ltb_lt in E. cbn. split; [|split; reflexivity].
    exists i. split; [reflexivity|split; [exact Hr|split; [reflexivity|split; [exact E|exact Hc]]]].
  - apply Nat.ltb_ge in E. assert (El : S k = length vals) by lia. rewrite El in Hc.
    cbn. split; [|split; reflexivity].
    destruct (d_core_finish _ _ _ _ _ Hr Hc) as [H1 H2].
    exists i. split; [reflexivity|split; [exact Hr|split; [exact H1|exact H2]]].
Qed.

Lemma cow_local_ok s o p s' nx :
  cow_ok (cw_vals s) (o, p) -> (cow_in_mutex (o, p) = true -> cw_mu s = true) ->
  cow_tstep s o p = Some (s', nx) -> cow_local s o p s' nx.
Proof.
  intros Hok Hmu Ht. destruct s as [vals mu]. cbn [cw_vals cw_mu] in *.
  destruct p; cbn [cow_tstep] in Ht; unfold cw_lock, cw_unlock, cw_publish in Ht; cbn [cw_vals cw_mu] in Ht;
    cbn [cow_ok] in Hok; try contradiction;
    cbn [cow_in_mutex snd] in Hmu; try (specialize (Hmu eq_refl); subst mu);
    try (destruct mu; [discriminate|]);
    try solve [cow_simple].
  - (* SnRet: the readers' linearisation point *)
    destruct o as [i|ts|i v|i v|i| | |stop|]; try discriminate.
    + cow_simple.
    + cow_simple.
    + cow_simple.
    + destruct vals as [|z r].
      * cow_inj. cbn [cow_ok ls_seq_step snd]. unfold ls_range, in_range. cbn [length].
        replace ((0 <=? stop) && (stop <? Z.of_nat 0)) with false by lia.
        repeat split; try reflexivity; try lia.
      * cow_inj. cbn [cow_ok]. split; [left; reflexivity|]. split; [reflexivity|]. split; [reflexivity|].
        split; [reflexivity|]. split; [|lia].
        exists stop. split; [reflexivity|]. cbn [length firstn]. split; [lia|split; [reflexivity|lia]].
  - (* GIf *)
    subst l. destruct o as [i|ts|i v|i v|i| | |stop|]; try discriminate.
    destruct ((i <? 0) || (Z.of_nat (length snap) <=? i)) eqn:Ec; cow_npc.
    + exists i. split; [reflexivity|unfold in_range; lia].
    + exists i. split; [reflexivity|unfold in_range; lia].
  - (* GRetErr *)
    destruct Hok as (i & -> & Hr). cow_inj. split; [left; reflexivity|]. split; [reflexivity|].
    split; [|lia]. cbn [ls_seq_step snd]. rewrite Hr. reflexivity.
  - (* GRetVal *)
    destruct Hok as (i & -> & Hr). unfold go_index in Ht.
    assert (Hi : (i <? 0) = false) by (unfold in_range in Hr; lia). rewrite Hi in Ht.
    destruct (nth_opt_some snap (Z.to_nat i)) as [v Hv]; [unfold in_range in Hr; lia|].
    rewrite Hv in Ht. cow_inj. split; [left; reflexivity|]. split; [reflexivity|].
    split; [|lia]. cbn [ls_seq_step snd]. rewrite Hr, Hv. reflexivity.
  - (* AMake *) cow_npc. rewrite repeat_length. exact Hok.
  - (* ACopy *) cow_npc. apply copy_into_same_length. exact Hok.
  - (* AApp *)
    destruct o as [i|ts|i v|i v|i| | |stop|]; try discriminate. cow_npc.
    exists ts. split; [reflexivity|]. rewrite Hok. reflexivity.
  - (* APub: the writers' linearisation point *)
    destruct Hok as (ts & -> & ->). cow_simple.
  - (* BMake *) cow_npc. rewrite repeat_length. exact Hok.
  - (* BCopy *) cow_npc. apply copy_into_same_length. exact Hok.
  - (* BAdd *)
    subst ni. destruct o as [i|ts|i v|i v|i| | |stop|]; try discriminate.
    destruct ((i <? 0) || (Z.of_nat (length vals) <? i)) eqn:Ec; cow_npc.
    + exists i, v. split; [reflexivity|unfold add_ok; lia].
    + exists i, v. split; [reflexivity|split; [unfold add_ok; lia|reflexivity]].
  - (* BIf *)
    destruct Hok as (i & v & -> & Hb). destruct err; cow_npc.
    + exists i, v. split; [reflexivity|exact Hb].
    + exists i, v. split; [reflexivity|exact Hb].
  - (* BRetErr *)
    destruct Hok as (i & v & -> & Hb). cow_inj. split; [left; reflexivity|].
    split; [|split; [reflexivity|lia]]. cbn [ls_seq_step]. unfold add_ok in Hb. rewrite Hb. reflexivity.
  - (* BPub *)
    destruct Hok as (i & v & -> & Hb & ->). cow_inj. cbn [cow_ok]. split; [right; reflexivity|].
    unfold add_ok in Hb. cbn [ls_seq_step]. rewrite Hb. cbn [snd].
    repeat split; try reflexivity; lia.
  - (* CIf *)
    subst n. destruct o as [i|ts|i v|i v|i| | |stop|]; try discriminate.
    destruct ((Z.of_nat (length vals) <=? i) || (i <? 0)) eqn:Ec; cow_npc.
    + exists i, v. split; [reflexivity|unfold in_range; lia].
    + exists i, v. split; [reflexivity|split; [unfold in_range; lia|reflexivity]].
  - (* CRetErr *)
    destruct Hok as (i & v & -> & Hr). cow_inj. split; [left; reflexivity|].
    split; [|split; [reflexivity|lia]]. cbn [ls_seq_step]. rewrite Hr. reflexivity.
  - (* CMake *)
    destruct Hok as (i & v & -> & Hr & ->). cow_npc.
    exists i, v. split; [reflexivity|split; [exact Hr|apply repeat_length]].
  - (* CCopy *)
    destruct Hok as (i & v & -> & Hr & Hl). cow_npc.
    exists i, v. split; [reflexivity|split; [exact Hr|apply copy_into_same_length; exact Hl]].
  - (* CSet *)
    destruct Hok as (i & v & -> & Hr & ->). rewrite Hr in Ht. cow_npc.
    exists i, v. split; [reflexivity|split; [exact Hr|reflexivity]].
  - (* CPub *)
    destruct Hok as (i & v & -> & Hr & ->). cow_inj. cbn [cow_ok]. split; [right; reflexivity|].
    cbn [ls_seq_step]. rewrite Hr. cbn [snd]. repeat split; try reflexivity; lia.
  - (* DIf *)
    subst n. destruct o as [i|ts|i v|i v|i| | |stop|]; try discriminate.
    destruct ((Z.of_nat (length vals) <=? i) || (i <? 0)) eqn:Ec; cow_npc.
    + exists i. split; [reflexivity|unfold in_range; lia].
    + exists i. split; [reflexivity|unfold in_range; lia].
  - (* DRetErr *)
    destruct Hok as (i & -> & Hr). cow_inj. split; [left; reflexivity|].
    split; [|split; [reflexivity|lia]]. cbn [ls_seq_step]. rewrite Hr. reflexivity.
  - (* DMake *)
    destruct Hok as (i & -> & Hr). destruct (length vals) as [|m] eqn:El.
    + exfalso. unfold in_range in Hr. lia.
    + cow_npc. exists i. rewrite El. split; [reflexivity|split; [exact Hr|apply repeat_length]].
  - (* DItem *)
    destruct Hok as (i & -> & Hr & Hl). cow_npc.
    exists i. split; [reflexivity|split; [exact Hr|split; [exact Hl|reflexivity]]].
  - (* DFor *)
    destruct Hok as (i & -> & Hr & Hl & ->). destruct vals as [|z r] eqn:Ev.
    + exfalso. unfold in_range in Hr. cbn in Hr. lia.
    + rewrite <- Ev in *. cow_npc.
      exists i. split; [reflexivity|split; [exact Hr|split; [reflexivity|split; [rewrite Ev; cbn; lia|]]]].
      unfold d_core. split; [exact Hl|]. split; [reflexivity|]. split; [reflexivity|]. intros H; lia.
  - (* DIfI *)
    destruct Hok as (i & -> & Hr & -> & Hk & Hc).
    destruct (Z.of_nat k =? i) eqn:Ek; cow_npc.
    + exists i. split; [reflexivity|split; [exact Hr|split; [reflexivity|split; [exact Hk|split; [exact Hc|lia]]]]].
    + exists i. split; [reflexivity|split; [exact Hr|split; [reflexivity|split; [exact Hk|split; [exact Hc|]]]]].
      unfold in_range in Hr. lia.
  - (* DRetV: ret = v *)
    destruct Hok as (i & -> & Hr & -> & Hk & (Hlen & Hitem & Hfst & Hrt) & Hki).
    destruct (nth_opt vals k) as [v|] eqn:Ev; [|discriminate]. cow_npc.
    exists i. split; [reflexivity|split; [exact Hr|split; [reflexivity|split; [exact Hk|]]]].
    subst k. rewrite Nat.ltb_irrefl in Hitem.
    unfold d_core. split; [exact Hlen|]. split.
    { replace (Z.to_nat i <? S (Z.to_nat i))%nat with true by (symmetry; apply Nat.ltb_lt; lia). exact Hitem. }
    split; [exact Hfst|]. intros _. exact Ev.
  - (* DCont *)
    destruct Hok as (i & -> & Hr & -> & Hk & Hc).
    destruct (d_next_ok _ _ _ _ _ _ Hr Hk Hc) as (H1 & H2 & H3).
    cow_inj. split; [left; reflexivity|split; [reflexivity|split; [exact H2|split; [exact H1|rewrite H3; cbn; lia]]]].
  - (* DPut: newItems[item] = v *)
    destruct Hok as (i & -> & Hr & -> & Hk & (Hlen & Hitem & Hfst & Hrt) & Hki).
    destruct (nth_opt vals k) as [v|] eqn:Ev; [|discriminate].
    assert (Hidx : (Z.to_nat i < length vals)%nat) by (unfold in_range in Hr; lia).
    assert (Hit : (item < length ni)%nat).
    { rewrite Hlen, Hitem. destruct (Z.to_nat i <? k)%nat eqn:E;
        [apply Nat.ltb_lt in E|apply Nat.ltb_ge in E]; lia. }
    replace (item <? length ni)%nat with true in Ht by (symmetry; apply Nat.ltb_lt; exact Hit).
    cow_npc.
    exists i. split; [reflexivity|split; [exact Hr|split; [reflexivity|split; [exact Hk|]]]].
    unfold d_core. split; [rewrite set_nth_length; exact Hlen|].
    assert (Hnth : nth_opt (remove_at vals (Z.to_nat i)) item = Some v).
    { rewrite nth_opt_remove_at, Hitem.
      destruct (Z.to_nat i <? k)%nat eqn:E; [apply Nat.ltb_lt in E|apply Nat.ltb_ge in E].
      - replace (pred k <? Z.to_nat i)%nat with false by (symmetry; apply Nat.ltb_ge; lia).
        replace (S (pred k)) with k by lia. exact Ev.
      - replace (k <? Z.to_nat i)%nat with true by (symmetry; apply Nat.ltb_lt; lia). exact Ev. }
    split; [|split].
    + rewrite Hitem. destruct (Z.to_nat i <? k)%nat eqn:E; [apply Nat.ltb_lt in E|apply Nat.ltb_ge in E].
      * replace (Z.to_nat i <? S k)%nat with true by (symmetry; apply Nat.ltb_lt; lia). lia.
      * replace (Z.to_nat i <? S k)%nat with false by (symmetry; apply Nat.ltb_ge; lia). reflexivity.
    + rewrite (firstn_S_nth _ _ _ (nth_opt_set_nth_same ni item v Hit)), firstn_set_nth_same.
      rewrite (firstn_S_nth _ _ _ Hnth), Hfst. reflexivity.
    + intros Hlt. apply Hrt. lia.
  - (* DInc *)
    destruct Hok as (i & -> & Hr & -> & Hk & Hc).
    destruct (d_next_ok _ _ _ _ _ _ Hr Hk Hc) as (H1 & H2 & H3).
    cow_inj. split; [left; reflexivity|split; [reflexivity|split; [exact H2|split; [exact H1|rewrite H3; cbn; lia]]]].
  - (* DPub *)
    destruct Hok as (i & -> & Hr & -> & Hrt). cow_inj. cbn [cow_ok]. split; [right; reflexivity|].
    cbn [ls_seq_step]. rewrite Hr, Hrt. cbn [snd]. repeat split; try reflexivity; lia.
  - (* RFn *)
    destruct Hok as (stop & -> & Hk & -> & Hs).
    destruct (nth_opt snap k) as [v|] eqn:Ev; [|discriminate]. cow_npc.
    exists stop. split; [reflexivity|split; [exact Hk|split; [symmetry; apply firstn_S_nth; exact Ev|split; [exact Hs|reflexivity]]]].
  - (* RIf *)
    destruct Hok as (stop & -> & Hk & -> & Hs & ->).
    destruct (Z.of_nat k =? stop) eqn:Ek.
    + cow_inj. split; [left; reflexivity|split; [reflexivity|split; [|split; [exact I|lia]]]].
      cbn [ls_seq_step snd]. unfold ls_range, in_range.
      replace ((0 <=? stop) && (stop <? Z.of_nat (length snap))) with true by lia.
      replace (Z.to_nat stop) with k by lia. reflexivity.
    + destruct (S k <? length snap)%nat eqn:El; [apply Nat.ltb_lt in El|apply Nat.ltb_ge in El].
      * cow_npc. exists stop. split; [reflexivity|split; [exact El|split; [reflexivity|lia]]].
      * cow_inj. split; [left; reflexivity|split; [reflexivity|split; [|split; [exact I|lia]]]].
        cbn [ls_seq_step snd]. unfold ls_range, in_range.
        replace ((0 <=? stop) && (stop <? Z.of_nat (length snap))) with false by lia.
        assert (E : firstn (S k) snap = snap) by (apply firstn_all2; lia).
        f_equal. f_equal. exact E.
  - (* EMake *) cow_npc. split; [exact Hok|apply repeat_length].
  - (* ECopy: AsSlice's linearisation point *)
    destruct Hok as (-> & Hl). rewrite (copy_into_same_length _ _ Hl) in Ht. cow_simple.
Qed.

(* ---------- from the thread-local facts to the framework's contract ---------- *)
Lemma cow_Hentry : forall o, cow_phase o (cow_entry o) = PhCalled o.
Proof. intros o; destruct o; reflexivity. Qed.

Lemma cow_entry_outside o : cow_in_mutex (o, cow_entry o) = false.
Proof. destruct o; reflexivity. Qed.

Lemma cow_Hcall s thr t o :
  cow_I s thr -> NoDup (tids thr) -> lookup t thr = None -> cow_I s (spawn t (o, cow_entry o) thr).
Proof.
  intros [Hc Ha] _ Hl. split.
  - rewrite count_spawn, cow_entry_outside. lia.
  - apply all_thr_spawn; [exact Ha|exact Hl|]. destruct o; cbn; auto.
Qed.

Lemma cow_Hstep s thr t o p s' nx :
  cow_I s thr -> NoDup (tids thr) -> lookup t thr = Some (o, p) -> cow_tstep s o p = Some (s', nx) ->
  step_contract (list Z) ls_op ls_ret cow_shared cow_pc ls_seq_step cw_vals cow_phase cow_I s thr t o p s' nx.
Proof.
  intros [Hc Ha] Hnd Hl Ht.
  assert (Hmu : cow_in_mutex (o, p) = true -> cw_mu s = true).
  { intros Hin. pose proof (count_pos_of_lookup cow_in_mutex t _ _ Hl Hin) as Hge.
    destruct (cw_mu s); [reflexivity|cbn in Hc; lia]. }
  pose proof (cow_local_ok s o p s' nx (Ha _ _ Hl) Hmu Ht) as [Hframe Hloc].
  (* the other threads' facts survive the step *)
  assert (Hothers : forall t2 x2, t2 <> t -> lookup t2 thr = Some x2 -> cow_ok (cw_vals s') x2).
  { intros t2 x2 Hne H2. pose proof (Ha _ _ H2) as Hx2.
    destruct Hframe as [->|Hin]; [exact Hx2|].
    apply (cow_ok_indep (cw_vals s)); [|exact Hx2].
    destruct (cow_in_mutex x2) eqn:E2; [|reflexivity]. exfalso.
    assert (Hne' : t <> t2) by congruence.
    pose proof (count_two cow_in_mutex t t2 _ _ _ Hne' Hl H2 Hin E2) as Hge.
    destruct (cw_mu s); cbn in Hc; lia. }
  assert (Hupd : forall p', cow_ok (cw_vals s') (o, p') ->
            all_thr (cow_ok (cw_vals s')) (update t (o, p') thr)).
  { intros p' Hp' t2 x2 H2. destruct (Nat.eq_dec t2 t) as [->|Hne].
    - rewrite (lookup_update_same _ t _ _ _ Hl) in H2. injection H2 as <-. exact Hp'.
    - rewrite lookup_update_other in H2 by exact Hne. apply (Hothers t2); assumption. }
  assert (Hrem : all_thr (cow_ok (cw_vals s')) (remove t thr)).
  { intros t2 x2 H2. destruct (Nat.eq_dec t2 t) as [->|Hne].
    - rewrite (lookup_remove_same t _ Hnd) in H2. discriminate.
    - rewrite lookup_remove_other in H2 by exact Hne. apply (Hothers t2); assumption. }
  destruct nx as [p'|p' r|r|r|]; cbn [step_contract]; cbn beta iota in Hloc.
  - destruct Hloc as (Hv & Hph & Hok' & Hm). split; [exact Hv|split; [exact Hph|]]. split.
    + rewrite (count_update _ cow_in_mutex t _ _ _ Hl). fold (b2z (cow_in_mutex (o, p))).
      fold (b2z (cow_in_mutex (o, p'))). lia.
    + apply Hupd; exact Hok'.
  - destruct Hloc as (Hq & Hph & Hph' & Hok' & Hm). split; [exact Hq|split; [exact Hph|split; [exact Hph'|]]]. split.
    + rewrite (count_update _ cow_in_mutex t _ _ _ Hl). fold (b2z (cow_in_mutex (o, p))).
      fold (b2z (cow_in_mutex (o, p'))). lia.
    + apply Hupd; exact Hok'.
  - destruct Hloc as (Hv & Hph & Hm). split; [exact Hv|split; [exact Hph|]]. split.
    + rewrite (count_remove _ cow_in_mutex t _ _ Hl). fold (b2z (cow_in_mutex (o, p))). lia.
    + exact Hrem.
  - destruct Hloc as (Hq & Hph & Hm). split; [exact Hq|split; [exact Hph|]]. split.
    + rewrite (count_remove _ cow_in_mutex t _ _ Hl). fold (b2z (cow_in_mutex (o, p))). lia.
    + exact Hrem.
  - exact Hloc.
Qed.

Lemma cow_I_init items : cow_I {| cw_vals := items; cw_mu := false |} [].
Proof. split; [reflexivity|apply all_thr_nil]. Qed.

(* at most one thread between Lock and Unlock, in the readable form *)
Definition cow_exclusion (c : cow_cfg) : Prop :=
  forall t1 t2 x1 x2, t1 <> t2 -> lookup t1 (s_thr c) = Some x1 -> lookup t2 (s_thr c) = Some x2 ->
    cow_in_mutex x1 = true -> cow_in_mutex x2 = false.

Theorem cow_linearizable_lemma items :
  forall evs c, exec cow_step (cow_init items) evs = Some c ->
    seq_legal ls_seq_step items (lin_ops (s_hist c)) (cw_vals (s_sh c)) /\
    (forall t, thread_hist t (s_hist c) (entry_phase cow_phase (lookup t (s_thr c)))) /\
    cow_exclusion c /\
    count cow_in_mutex (s_thr c) = (if cw_mu (s_sh c) then 1 else 0) /\
    NoDup (tids (s_thr c)).
Proof.
  intros evs c He.
  pose proof (sys_inv_reachable (list Z) ls_op ls_ret cow_shared cow_pc ls_seq_step cow_entry cow_tstep
                cw_vals cow_phase cow_I cow_Hentry cow_Hcall cow_Hstep _ (cow_I_init items) evs c He)
    as [[Hc Ha] Hnd Hleg Hhist].
  split; [exact Hleg|split; [exact Hhist|split; [|split; [exact Hc|exact Hnd]]]].
  intros t1 t2 x1 x2 Hne L1 L2 F1. destruct (cow_in_mutex x2) eqn:F2; [|reflexivity].
  pose proof (count_two cow_in_mutex t1 t2 _ _ _ Hne L1 L2 F1 F2) as Hge.
  unfold b2z in Hc. destruct (cw_mu (s_sh c)); lia.
Qed.

Theorem cow_step_lemma items :
  forall evs c e c', exec cow_step (cow_init items) evs = Some c -> cow_step c e = Some c' ->
    (cw_vals (s_sh c') = cw_vals (s_sh c) /\ lin_ops (s_hist c') = lin_ops (s_hist c)) \/
    (exists o r, ls_seq_step (cw_vals (s_sh c)) o = (cw_vals (s_sh c'), r) /\
                 lin_ops (s_hist c') = lin_ops (s_hist c) ++ [(o, r)]).
Proof.
  exact (sys_step_abs (list Z) ls_op ls_ret cow_shared cow_pc ls_seq_step cow_entry cow_tstep
           cw_vals cow_phase cow_I cow_Hentry cow_Hcall cow_Hstep _ (cow_I_init items)).
Qed.

Theorem cow_no_panic_lemma items :
  forall evs c t c' ob, exec cow_step (cow_init items) evs = Some c ->
    cow_exec1 c (EStep t) = Some (c', ob) -> ob <> OPanic.
Proof.
  exact (sys_no_panic (list Z) ls_op ls_ret cow_shared cow_pc ls_seq_step cow_entry cow_tstep
           cw_vals cow_phase cow_I cow_Hentry cow_Hcall cow_Hstep _ (cow_I_init items)).
Qed.

(* ---------- the pinned reader panics ---------- *)
(* T1 = Get(2) reads the length 3 and passes the check; T2 = Delete(0) runs to completion;
   T1 indexes the field again: index 2, length 2. *)
Definition cow_pinned_witness : list (sys_ev ls_op) :=
  [ECall 1%nat (LGet 2); EStep 1%nat; EStep 1%nat; EStep 1%nat;      (* T1 is at  return a.vals[index], e *)
   ECall 2%nat (LDelete 0)] ++ repeat (EStep 2%nat) 18.                (* T2: the whole Delete(0) *)

Theorem cow_get_panics_refuted_lemma :
  exists evs c c', exec cowp_step (cow_init [10; 20; 30]) evs = Some c /\
                   lookup 2%nat (s_thr c) = None /\            (* the Delete has returned *)
                   cw_vals (s_sh c) = [20; 30] /\
                   cowp_exec1 c (EStep 1%nat) = Some (c', OPanic).
Proof.
  exists cow_pinned_witness. eexists. eexists.
  split; [vm_compute; reflexivity|]. split; [reflexivity|]. split; reflexivity.
Qed.
