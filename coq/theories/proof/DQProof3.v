(* Proofs about DQModel, part 3 (C09): the two broadcast conds.  Generations only grow; the
   generation a waiter fetched under the lock is the current one, or is closed, or is about to
   be closed by a broadcaster that has already replaced it (no lost wake-up); a generation is
   closed at most once (close never panics); a parked thread's generation is not closed, its
   context not cancelled, its timer tick not buffered.  No fatal run-time error is reachable. *)
From Ekit Require Import Common Conc DQModel DQProof DQProof2.
From Coq Require Import Arith PeanoNat ZifyBool.

Definition cur (c : dq_cfg) (x : dq_cnd) : nat := c_cur (get_cnd c x).
Definition nxt (c : dq_cfg) (x : dq_cnd) : nat := c_next (get_cnd c x).
Definition closedb (c : dq_cfg) (x : dq_cnd) (g : nat) : bool := mem_nat g (c_closed (get_cnd c x)).
(* broadcasters between `c.signal = signal` and `close(old)` whose old is generation g of cond x *)
Definition ncl (c : dq_cfg) (x : dq_cnd) (g : nat) : Z := count (closing x g) (q_thr c).

Definition thrD (c : dq_cfg) (th : dthr) : Prop :=
  (match t_pc th with
   | Bc2 => (cur c (bcond (t_site th)) < t_bnew th < nxt c (bcond (t_site th)))%nat
   | Bc3 => (cur c (bcond (t_site th)) < t_bnew th < nxt c (bcond (t_site th)))%nat /\
            t_bold th = cur c (bcond (t_site th))
   | _ => True
   end) /\
  (is_waiter (t_pc th) = true ->
     (t_sg th <= cur c (wcond (t_site th)))%nat /\
     ((t_sg th < cur c (wcond (t_site th)))%nat ->
        closedb c (wcond (t_site th)) (t_sg th) = true \/ 1 <= ncl c (wcond (t_site th)) (t_sg th))) /\
  (is_park (t_pc th) = true ->
     closedb c (wcond (t_site th)) (t_sg th) = false /\ t_canc th = false /\
     (t_pc th = DPark1 -> tm_buffered th = false)).

Record invD (c : dq_cfg) : Prop := {
  d_next : forall x, (cur c x < nxt c x)%nat;
  d_fresh : forall x g, (cur c x <= g)%nat -> closedb c x g = false /\ ncl c x g = 0;
  d_once : forall x g, ncl c x g + (if closedb c x g then 1 else 0) <= 1;
  d_bad : q_bad c = false;
  d_thr : forall t th, lookup t (q_thr c) = Some th -> thrD c th
}.

Lemma invD_init cap old : invD (dq_init cap old).
Proof.
  constructor; cbn; try reflexivity.
  - intros []; cbn; lia.
  - intros [] g _; cbn; split; reflexivity.
  - intros [] g; cbn; lia.
  - intros; discriminate.
Qed.

(* ---------- counting broadcasters ---------- *)
Lemma count_map_thr (f : dthr -> bool) (h : dthr -> dthr) (l : list (tid * dthr)) :
  (forall th, f (h th) = f th) -> count f (map (fun e => (fst e, h (snd e))) l) = count f l.
Proof.
  intros Hf. induction l as [|[t p] r IH]; cbn; [reflexivity|]. rewrite Hf, IH. reflexivity.
Qed.

Lemma closing_wake x g x' g' th : closing x g (wake1 x' g' th) = closing x g th.
Proof.
  unfold wake1, parked_on. destruct (t_pc th) eqn:E; cbn [is_park andb]; try reflexivity;
    destruct (cnd_eqb (wcond (t_site th)) x' && Nat.eqb (t_sg th) g'); try reflexivity;
    unfold closing; dq_simpl; rewrite E; reflexivity.
Qed.

Lemma count_closing_wake x g x' g' l : count (closing x g) (wake_thr x' g' l) = count (closing x g) l.
Proof. apply count_map_thr. intros th. apply closing_wake. Qed.

Lemma count_pos (f : dthr -> bool) t th (l : list (tid * dthr)) :
  lookup t l = Some th -> f th = true -> 1 <= count f l.
Proof.
  intros Hl Hf. pose proof (count_remove _ f t th l Hl) as Hc. rewrite Hf in Hc.
  pose proof (count_nonneg _ f (remove t l)). lia.
Qed.

Lemma mem_nat_cons g a l : mem_nat g (a :: l) = Nat.eqb g a || mem_nat g l.
Proof. reflexivity. Qed.

(* normalise ncl of the successor configuration *)
Ltac ncl_norm Hl :=
  unfold ncl in *; dq_simpl; dq_cnd; dq_simpl;
  rewrite ?count_closing_wake;
  rewrite ?(count_update _ _ _ _ _ _ Hl), ?(count_remove _ _ _ _ _ Hl), ?count_spawn.

Lemma holder_mutex c t th :
  invA c -> lookup t (q_thr c) = Some th -> holds_lock (t_pc th) = true -> q_mutex c = Some t.
Proof.
  intros [_ Hmx _ _] Hl Hh. specialize (Hmx t). unfold holds_at, mutex_is in Hmx.
  rewrite Hl, Hh in Hmx. destruct (q_mutex c) as [o|]; [|discriminate].
  symmetry in Hmx. apply Nat.eqb_eq in Hmx. congruence.
Qed.

(* the fatal branches of a step are unreachable under the invariants *)
Ltac dq_nobad HA Hl Hpc :=
  try (solve [exfalso;
              match goal with
              | Hm : q_mutex _ = None |- _ =>
                rewrite (holder_mutex _ _ _ HA Hl ltac:(rewrite Hpc; reflexivity)) in Hm; discriminate Hm
              | Ht : t_tm _ = None |- _ =>
                let X := fresh in pose proof (a_tm _ HA _ _ Hl) as X; unfold tm_ok in X; rewrite Hpc, Ht in X; discriminate X
              end]).

(* more symbolic sites made concrete: the conds touched by broadcast *)
Ltac dq_sym_b :=
  try match goal with
      | Hpc : t_pc ?th0 = Bc1 |- _ => destruct (t_site th0) eqn:Hst
      | Hpc : t_pc ?th0 = Bc2 |- _ => destruct (t_site th0) eqn:Hst
      | Hpc : t_pc ?th0 = Bc3 |- _ => destruct (t_site th0) eqn:Hst
      | Hpc : t_pc ?th0 = Bc4 |- _ => destruct (t_site th0) eqn:Hst
      | Hpc : t_pc ?th0 = Sc1 |- _ => destruct (t_site th0) eqn:Hst
      end.

(* ---------- frame: steps that touch neither the conds nor the set of closing broadcasters ---------- *)
Definition is_clpc (p : dq_pc) : bool := match p with Bc4 | Bc5 => true | _ => false end.

Lemma closing_not x g th : is_clpc (t_pc th) = false -> closing x g th = false.
Proof. unfold closing. destruct (t_pc th); cbn; try reflexivity; discriminate. Qed.

Lemma closing_same x g th th' :
  is_clpc (t_pc th) = true -> is_clpc (t_pc th') = true -> t_site th' = t_site th -> t_bold th' = t_bold th ->
  closing x g th' = closing x g th.
Proof.
  unfold closing. intros H1 H2 -> ->.
  destruct (t_pc th); try discriminate H1; destruct (t_pc th'); try discriminate H2; reflexivity.
Qed.

Definition same_conds (c c' : dq_cfg) : Prop := forall x, get_cnd c' x = get_cnd c x.
Definition same_ncl (c c' : dq_cfg) : Prop := forall x g, ncl c' x g = ncl c x g.

Lemma ncl_update_nc c t th th' x g :
  lookup t (q_thr c) = Some th -> is_clpc (t_pc th) = false -> is_clpc (t_pc th') = false ->
  count (closing x g) (update t th' (q_thr c)) = count (closing x g) (q_thr c).
Proof.
  intros Hl H1 H2. rewrite (count_update _ _ _ _ _ _ Hl), (closing_not _ _ _ H1), (closing_not _ _ _ H2). lia.
Qed.

Lemma ncl_update_same c t th th' x g :
  lookup t (q_thr c) = Some th -> closing x g th' = closing x g th ->
  count (closing x g) (update t th' (q_thr c)) = count (closing x g) (q_thr c).
Proof. intros Hl H1. rewrite (count_update _ _ _ _ _ _ Hl), H1. lia. Qed.

Lemma ncl_remove_nc c t th x g :
  lookup t (q_thr c) = Some th -> is_clpc (t_pc th) = false ->
  count (closing x g) (remove t (q_thr c)) = count (closing x g) (q_thr c).
Proof. intros Hl H1. rewrite (count_remove _ _ _ _ _ Hl), (closing_not _ _ _ H1). lia. Qed.

Lemma ncl_spawn_nc c t th x g :
  is_clpc (t_pc th) = false -> count (closing x g) (spawn t th (q_thr c)) = count (closing x g) (q_thr c).
Proof. intros H1. rewrite count_spawn, (closing_not _ _ _ H1). lia. Qed.

Record globD (c : dq_cfg) : Prop := {
  g_next : forall x, (cur c x < nxt c x)%nat;
  g_fresh : forall x g, (cur c x <= g)%nat -> closedb c x g = false /\ ncl c x g = 0;
  g_once : forall x g, ncl c x g + (if closedb c x g then 1 else 0) <= 1
}.

Lemma globD_frame c c' : same_conds c c' -> same_ncl c c' -> globD c -> globD c'.
Proof.
  intros Hc Hn [H1 H2 H3]. constructor; unfold cur, nxt, closedb in *.
  - intros x. rewrite Hc. apply H1.
  - intros x g. rewrite Hc, Hn. apply H2.
  - intros x g. rewrite Hc, Hn. apply H3.
Qed.

Lemma thrD_frame c c' th : same_conds c c' -> same_ncl c c' -> thrD c th -> thrD c' th.
Proof.
  intros Hc Hn. unfold thrD, cur, nxt, closedb. rewrite !Hc, !Hn. intros H; exact H.
Qed.

(* proves same_ncl for the step at hand *)
Ltac dq_same_ncl Hl Hpc :=
  intros xx gg; unfold ncl; dq_simpl; dq_cnd; dq_simpl; rewrite ?count_closing_wake;
  first [ reflexivity
        | apply (ncl_update_nc _ _ _ _ _ _ Hl); [rewrite Hpc; reflexivity|reflexivity]
        | apply (ncl_update_same _ _ _ _ _ _ Hl); apply closing_same; dq_simpl; first [rewrite Hpc; reflexivity|reflexivity]
        | apply (ncl_remove_nc _ _ _ _ _ Hl); rewrite Hpc; reflexivity
        | apply ncl_spawn_nc; reflexivity ].
Ltac dq_same_conds := intros xx; dq_simpl; dq_cnd; dq_simpl; reflexivity.

Lemma ncl_nonneg c x g : 0 <= ncl c x g.
Proof. apply count_nonneg. Qed.

Lemma cnd_eqb_eq a b : cnd_eqb a b = true <-> a = b.
Proof. destruct a, b; cbn; split; intros H; try reflexivity; try discriminate; congruence. Qed.

(* ---------- the three statements of broadcast that touch the cond, abstractly ---------- *)
(* signal := make(chan struct{}) *)
Lemma globD_bc1 c c' :
  globD c -> (forall x, cur c' x = cur c x) -> (forall x, (nxt c x <= nxt c' x)%nat) ->
  (forall x g, closedb c' x g = closedb c x g) -> same_ncl c c' -> globD c'.
Proof.
  intros [H1 H2 H3] Hc Hn Hcl Hncl. constructor.
  - intros x. rewrite Hc. specialize (H1 x). specialize (Hn x). lia.
  - intros x g. rewrite Hc, Hcl, Hncl. apply H2.
  - intros x g. rewrite Hcl, Hncl. apply H3.
Qed.

(* c.signal = signal *)
Lemma globD_bc3 c c' X bnew bold :
  globD c -> (cur c X < bnew < nxt c X)%nat -> bold = cur c X ->
  (forall x, cur c' x = if cnd_eqb X x then bnew else cur c x) ->
  (forall x, nxt c' x = nxt c x) ->
  (forall x g, closedb c' x g = closedb c x g) ->
  (forall x g, ncl c' x g = ncl c x g + (if cnd_eqb X x && Nat.eqb bold g then 1 else 0)) ->
  globD c'.
Proof.
  intros [H1 H2 H3] Hnew -> Hc Hn Hcl Hncl. constructor.
  - intros x. rewrite Hc, Hn. destruct (cnd_eqb X x) eqn:E; [apply cnd_eqb_eq in E; subst; lia|apply H1].
  - intros x g. rewrite Hc, Hcl, Hncl. intros Hge.
    destruct (cnd_eqb X x) eqn:E; cbn [andb].
    + apply cnd_eqb_eq in E. subst x. destruct (H2 X g ltac:(lia)) as [Ha Hb]. split; [exact Ha|].
      destruct (Nat.eqb_spec (cur c X) g); lia.
    + destruct (H2 x g Hge) as [Ha Hb]. split; [exact Ha|lia].
  - intros x g. rewrite Hcl, Hncl. specialize (H3 x g).
    destruct (cnd_eqb X x) eqn:E; cbn [andb]; [|lia].
    apply cnd_eqb_eq in E. subst x. destruct (Nat.eqb_spec (cur c X) g) as [<-|]; [|lia].
    destruct (H2 X (cur c X) ltac:(lia)) as [Ha Hb]. rewrite Ha, Hb. lia.
Qed.

(* close(old), old not closed yet *)
Lemma globD_bc5 c c' X bold :
  globD c -> 1 <= ncl c X bold ->
  (forall x, cur c' x = cur c x) -> (forall x, nxt c' x = nxt c x) ->
  (forall x g, closedb c' x g = (cnd_eqb X x && Nat.eqb g bold) || closedb c x g) ->
  (forall x g, ncl c' x g = ncl c x g - (if cnd_eqb X x && Nat.eqb bold g then 1 else 0)) ->
  globD c'.
Proof.
  intros [H1 H2 H3] Hself Hc Hn Hcl Hncl. constructor.
  - intros x. rewrite Hc, Hn. apply H1.
  - intros x g. rewrite Hc, Hcl, Hncl. intros Hge. destruct (H2 x g Hge) as [Ha Hb].
    destruct (cnd_eqb X x) eqn:E; cbn [andb orb]; [|split; [exact Ha|lia]].
    apply cnd_eqb_eq in E. subst x.
    destruct (Nat.eqb_spec g bold) as [->|Hne]; [lia|]. cbn [orb]. split; [exact Ha|].
    destruct (Nat.eqb_spec bold g); [congruence|lia].
  - intros x g. rewrite Hcl, Hncl. specialize (H3 x g).
    destruct (cnd_eqb X x) eqn:E; cbn [andb orb]; [|lia].
    apply cnd_eqb_eq in E. subst x.
    destruct (Nat.eqb_spec g bold) as [->|Hne].
    + rewrite Nat.eqb_refl. cbn [orb]. destruct (closedb c X bold); lia.
    + cbn [orb]. destruct (Nat.eqb_spec bold g); [congruence|lia].
Qed.

(* a broadcaster about to close generation bold of X: that generation is not closed *)
Lemma closing_not_closed c X bold : globD c -> 1 <= ncl c X bold -> closedb c X bold = false.
Proof. intros [_ _ H3] H. specialize (H3 X bold). destruct (closedb c X bold); [lia|reflexivity]. Qed.

Lemma closing_self c t th :
  lookup t (q_thr c) = Some th -> is_clpc (t_pc th) = true -> 1 <= ncl c (bcond (t_site th)) (t_bold th).
Proof.
  intros Hl Hpc. apply (count_pos _ t th); [exact Hl|].
  unfold closing. destruct (t_pc th); try discriminate Hpc;
    rewrite Nat.eqb_refl; destruct (bcond (t_site th)); reflexivity.
Qed.

(* the successor's conds / counts, by computation *)
Ltac dq_cond_eq := intros xx; try intros gg; unfold cur, nxt, closedb; dq_simpl; destruct xx; dq_simpl; try reflexivity; try lia.

Lemma invD_glob_step c e c' obs :
  invA c -> invD c -> dq_exec1 c e = Some (c', obs) -> globD c' /\ q_bad c' = false.
Proof.
  intros HA [Hnext Hfresh Honce Hbad Hthr] H.
  assert (HG : globD c) by (constructor; assumption).
  dq_cases H.
  all: dq_sym; dq_sym_b.
  all: cbn [ctx_case after_bcast after_sigch bcond wcond] in *.
  all: dq_nobad HA Hl Hpc.
  all: try (pose proof (Hthr _ _ Hl) as Hd0; unfold thrD in Hd0; rewrite Hpc in Hd0; cbn [is_waiter is_park] in Hd0).
  all: try (solve [split; [apply (globD_frame c); [dq_same_conds|dq_same_ncl Hl Hpc|exact HG]|dq_simpl; dq_cnd; dq_simpl; exact Hbad]]).
  (* Bc1 *)
  all: try (solve [split; [apply (globD_bc1 c); [exact HG|dq_cond_eq|dq_cond_eq|dq_cond_eq|dq_same_ncl Hl Hpc]|exact Hbad]]).
  (* Bc3 *)
  all: try (solve [rewrite Hst in Hd0; cbn [bcond] in Hd0; destruct Hd0 as [[Hnew Hold] _];
                   split; [|exact Hbad];
                   eapply (globD_bc3 c _ _ (t_bnew th) (t_bold th));
                   [exact HG|exact Hnew|exact Hold|dq_cond_eq|dq_cond_eq|dq_cond_eq|];
                   intros xx gg; unfold ncl; dq_simpl; rewrite (count_update _ _ _ _ _ _ Hl);
                   rewrite (closing_not _ _ th) by (rewrite Hpc; reflexivity);
                   unfold closing; dq_simpl; rewrite Hst; cbn [bcond]; lia]).
  (* Bc5, old already closed: impossible *)
  all: try (solve [exfalso; pose proof (closing_self c t th Hl ltac:(rewrite Hpc; reflexivity)) as Hs;
                   rewrite Hst in Hs; cbn [bcond] in Hs;
                   pose proof (closing_not_closed _ _ _ HG Hs) as Hn; unfold closedb in Hn; congruence]).
  (* Bc5 *)
  all: try (solve [pose proof (closing_self c t th Hl ltac:(rewrite Hpc; reflexivity)) as Hs;
                   rewrite Hst in Hs; cbn [bcond] in Hs;
                   split; [|exact Hbad];
                   eapply (globD_bc5 c _ _ (t_bold th));
                   [exact HG|exact Hs|dq_cond_eq|dq_cond_eq|dq_cond_eq; rewrite ?mem_nat_cons; reflexivity|];
                   intros xx gg; unfold ncl; dq_simpl; rewrite count_closing_wake, (count_update _ _ _ _ _ _ Hl);
                   rewrite (closing_not _ _ (dset_pc th _)) by reflexivity;
                   unfold closing; rewrite Hpc, Hst; cbn [bcond]; lia]).
  - exfalso. pose proof (closing_self c t th Hl ltac:(rewrite Hpc; reflexivity)) as Hs.
    pose proof (closing_not_closed _ _ _ HG Hs) as Hn. unfold closedb in Hn. congruence.
  - split; [|exact Hbad]. apply (globD_frame c); [dq_same_conds| |exact HG].
    intros xx gg. unfold ncl. dq_simpl. apply (ncl_update_same _ _ _ _ _ _ Hl). reflexivity.
  - split; [|exact Hbad]. apply (globD_frame c); [dq_same_conds| |exact HG].
    intros xx gg. unfold ncl. dq_simpl. apply (ncl_update_same _ _ _ _ _ _ Hl). reflexivity.
Qed.

(* ---------- the other threads across the three cond-touching statements ---------- *)
Lemma thrD_bc1 c c' th2 :
  thrD c th2 -> holds_lock (t_pc th2) = false ->
  (forall x, cur c' x = cur c x) ->
  (forall x g, closedb c' x g = closedb c x g) -> same_ncl c c' -> thrD c' th2.
Proof.
  intros (P1 & P2 & P3) Hh Hc Hcl Hn. unfold thrD. rewrite !Hc, !Hcl, !Hn.
  split; [|split; assumption].
  destruct (t_pc th2); try exact I; discriminate Hh.
Qed.

Lemma thrD_bc3 c c' X bnew bold th2 :
  thrD c th2 -> holds_lock (t_pc th2) = false ->
  (cur c X < bnew)%nat -> bold = cur c X ->
  (forall x, cur c' x = if cnd_eqb X x then bnew else cur c x) ->
  (forall x g, closedb c' x g = closedb c x g) ->
  (forall x g, ncl c' x g = ncl c x g + (if cnd_eqb X x && Nat.eqb bold g then 1 else 0)) ->
  thrD c' th2.
Proof.
  intros (P1 & P2 & P3) Hh Hnew -> Hc Hcl Hn. unfold thrD. rewrite !Hcl.
  split; [destruct (t_pc th2); try exact I; discriminate Hh|]. split; [|exact P3].
  intros Hw. destruct (P2 Hw) as [Hle Hlost]. rewrite Hc, Hn.
  pose proof (ncl_nonneg c (wcond (t_site th2)) (t_sg th2)) as Hnn.
  destruct (cnd_eqb X (wcond (t_site th2))) eqn:E; cbn [andb].
  - apply cnd_eqb_eq in E. rewrite <- E in *. split; [lia|]. intros _.
    destruct (Nat.eqb_spec (cur c X) (t_sg th2)) as [Heq|Hne]; [right; lia|].
    destruct (Hlost ltac:(lia)) as [H|H]; [left; exact H|right; lia].
  - split; [exact Hle|]. intros Hlt. destruct (Hlost Hlt) as [H|H]; [left; exact H|right; lia].
Qed.

Lemma thrD_bc5 c c' X bold th2 :
  thrD c th2 ->
  (forall x, cur c' x = cur c x) -> (forall x, nxt c' x = nxt c x) ->
  (forall x g, closedb c' x g = (cnd_eqb X x && Nat.eqb g bold) || closedb c x g) ->
  (forall x g, ncl c' x g = ncl c x g - (if cnd_eqb X x && Nat.eqb bold g then 1 else 0)) ->
  thrD c' (wake1 X bold th2).
Proof.
  intros (P1 & P2 & P3) Hc Hnx Hcl Hn. unfold wake1.
  destruct (parked_on X bold th2) eqn:Hp.
  - (* woken: it sits at its `case <-signal:` *)
    unfold parked_on in Hp. apply andb_true_iff in Hp. destruct Hp as [Hp _]. apply andb_true_iff in Hp. destruct Hp as [Hp _].
    unfold thrD. dq_simpl. destruct (t_pc th2); try discriminate Hp; cbn; repeat split; intros; discriminate.
  - unfold thrD. rewrite !Hc, !Hnx, !Hcl, !Hn. split; [exact P1|]. split.
    + intros Hw. destruct (P2 Hw) as [Hle Hlost]. split; [exact Hle|]. intros Hlt.
      destruct (cnd_eqb X (wcond (t_site th2))) eqn:E; cbn [andb orb]; [|destruct (Hlost Hlt) as [H|H]; [left; exact H|right; lia]].
      destruct (Nat.eqb_spec (t_sg th2) bold) as [->|Hne]; [left; reflexivity|].
      cbn [orb]. destruct (Nat.eqb_spec bold (t_sg th2)); [congruence|].
      destruct (Hlost Hlt) as [H|H]; [left; exact H|right; lia].
    + intros Hpk. destruct (P3 Hpk) as (Q1 & Q2 & Q3). split; [|split; assumption].
      unfold parked_on in Hp. rewrite Hpk in Hp. cbn [andb] in Hp.
      rewrite Q1, orb_false_r. destruct (cnd_eqb (wcond (t_site th2)) X) eqn:E.
      * apply cnd_eqb_eq in E. rewrite E in *. cbn [andb] in Hp. rewrite Hp. apply andb_false_r.
      * destruct (cnd_eqb X (wcond (t_site th2))) eqn:E2; [|reflexivity].
        apply cnd_eqb_eq in E2. rewrite E2 in E. destruct (wcond (t_site th2)); discriminate.
Qed.

Lemma if_app_nil {A} (b : bool) (x : A) l : (if b then [x] else []) ++ l = [] -> b = false /\ l = [].
Proof. destruct b; cbn; [discriminate|intros H; split; [reflexivity|exact H]]. Qed.

Lemma invD_thr_step c e c' obs :
  invA c -> invD c -> dq_exec1 c e = Some (c', obs) ->
  forall t2 th2, lookup t2 (q_thr c') = Some th2 -> thrD c' th2.
Proof.
  intros HA [Hnext Hfresh Honce Hbad Hthr] H. pose proof (a_nodup _ HA) as Hnd.
  assert (HG : globD c) by (constructor; assumption).
  dq_cases H.
  all: dq_sym; dq_sym_b.
  all: cbn [ctx_case after_bcast after_sigch bcond wcond] in *.
  all: dq_nobad HA Hl Hpc.
  all: try (pose proof (Hthr _ _ Hl) as Hd0; unfold thrD in Hd0; rewrite Hpc in Hd0; cbn [is_waiter is_park] in Hd0;
            destruct Hd0 as (D1 & D2 & D3); try specialize (D2 eq_refl); try specialize (D3 eq_refl)).
  (* frame cases *)
  all: try (match goal with
            | |- forall t2 th2, lookup t2 (q_thr ?c1) = _ -> _ =>
              assert (Hsc : same_conds c c1) by dq_same_conds;
              assert (Hsn : same_ncl c c1) by (dq_same_ncl Hl Hpc)
            end;
            dq_simpl; dq_cnd; dq_simpl;
            dq_thread t2 th2 Hl2 Hne;
            (apply (thrD_frame c); [exact Hsc|exact Hsn|]);
            try (solve [eapply Hthr; eassumption])).
  all: try (solve [unfold thrD; dq_simpl; try rewrite Hst in *; cbn [new_enq new_deq t_pc is_waiter is_park bcond wcond];
                   repeat split; try (intros; discriminate); try exact I; try (intros _; exact D2); try tauto]).
  (* select parks: nothing was ready *)
  1-3: pose proof (a_site _ HA _ _ Hl) as Hs0; rewrite Hpc in Hs0; cbn [site_ok] in Hs0;
       destruct (t_site th) eqn:Hst; try discriminate Hs0; cbn [wcond] in *;
       repeat (apply if_app_nil in Hready; destruct Hready as [? Hready]);
       unfold thrD; dq_simpl; rewrite Hst; cbn [is_waiter is_park wcond];
       (split; [exact I|split; [intros _; exact D2|intros _]]);
       unfold closedb; cbn [get_cnd];
       repeat match goal with
              | H : (if ?b then _ else _) = [] |- _ => destruct b eqn:?; [discriminate H|clear H]
              | H : (if ?b then _ else _) ++ [] = [] |- _ => destruct b eqn:?; [discriminate H|clear H]
              end;
       repeat split; try assumption; try (intros; discriminate); auto.
  (* Bc1 *)
  1-3: dq_simpl; dq_cnd; dq_simpl; dq_thread t2 th2 Hl2 Hne;
       [ unfold thrD; dq_simpl; rewrite Hst; cbn [is_waiter is_park bcond];
         (split; [|split; intros; discriminate]);
         match goal with |- (cur _ ?X < _ < _)%nat => pose proof (Hnext X) as Hn0 end;
         unfold cur, nxt in *; dq_simpl; lia
       | apply (thrD_bc1 c); [eapply Hthr; eassumption
                             |eapply other_not_holding; [exact HA|exact Hl|rewrite Hpc; reflexivity|exact Hne|eassumption]
                             |dq_cond_eq|dq_cond_eq|dq_same_ncl Hl Hpc] ].
  (* Bc3 *)
  1-3: rewrite Hst in D1; cbn [bcond] in D1; destruct D1 as [Hnew Hold];
       dq_simpl; dq_cnd; dq_simpl; dq_thread t2 th2 Hl2 Hne;
       [ unfold thrD; dq_simpl; cbn [is_waiter is_park]; repeat split; intros; try discriminate
       | eapply (thrD_bc3 c _ _ (t_bnew th) (t_bold th));
         [eapply Hthr; eassumption
         |eapply other_not_holding; [exact HA|exact Hl|rewrite Hpc; reflexivity|exact Hne|eassumption]
         |apply Hnew|exact Hold|dq_cond_eq|dq_cond_eq|];
         intros xx gg; unfold ncl; dq_simpl; rewrite (count_update _ _ _ _ _ _ Hl);
         rewrite (closing_not _ _ th) by (rewrite Hpc; reflexivity);
         unfold closing; dq_simpl; rewrite Hst; cbn [bcond]; lia ].
  (* Bc5, old already closed: impossible *)
  1: exfalso; pose proof (closing_self c t th Hl ltac:(rewrite Hpc; reflexivity)) as Hs;
     pose proof (closing_not_closed _ _ _ HG Hs) as Hn; unfold closedb in Hn; congruence.
  (* Bc5 *)
  1-3: dq_simpl; dq_cnd; dq_simpl; intros t2 th2 Hl2; rewrite lookup_wake in Hl2;
       destruct (lookup t2 (update t (dset_pc th _) (q_thr c))) as [th0|] eqn:Hl0; [|discriminate Hl2];
       cbn [option_map] in Hl2; injection Hl2 as <-;
       (eapply (thrD_bc5 c _ _ (t_bold th));
        [ |dq_cond_eq|dq_cond_eq|dq_cond_eq; rewrite ?mem_nat_cons; reflexivity
          |intros xx gg; unfold ncl; dq_simpl; rewrite count_closing_wake, (count_update _ _ _ _ _ _ Hl);
           rewrite (closing_not _ _ (dset_pc th _)) by reflexivity;
           unfold closing; rewrite Hpc, Hst; cbn [bcond]; lia ]);
       (destruct (Nat.eq_dec t2 t) as [->|Hne];
        [ rewrite (lookup_update_same _ _ _ _ _ Hl) in Hl0; injection Hl0 as <-;
          unfold thrD; dq_simpl; cbn [is_waiter is_park]; repeat split; intros; try discriminate
        | rewrite (lookup_update_other _ _ _ _ _ Hne) in Hl0; eapply Hthr; eassumption ]).
  (* Sc1: the fetched generation is the current one *)
  1-3: unfold thrD; dq_simpl; rewrite Hst; cbn [is_waiter is_park wcond];
       (split; [exact I|split; [intros _|intros; discriminate]]);
       unfold cur; cbn [get_cnd]; split; [lia|intros Hlt; lia].
  (* CANCEL of a thread that is not parked *)
  - assert (Hsc : same_conds c (qset_thr c (update t (dset_canc th) (q_thr c)))) by dq_same_conds.
    assert (Hsn : same_ncl c (qset_thr c (update t (dset_canc th) (q_thr c)))).
    { intros xx gg. unfold ncl. dq_simpl. apply (ncl_update_same _ _ _ _ _ _ Hl). reflexivity. }
    dq_simpl. dq_thread t2 th2 Hl2 Hne; (apply (thrD_frame c); [exact Hsc|exact Hsn|]); [|eapply Hthr; eassumption].
    destruct (Hthr _ _ Hl) as (P1 & P2 & P3). unfold thrD. dq_simpl. split; [exact P1|split; [exact P2|]].
    intros Hp. congruence.
  (* FIRE while the owner is not in its select *)
  - match goal with |- context [update t ?th1 _] =>
      assert (Hsc : same_conds c (qset_thr c (update t th1 (q_thr c)))) by dq_same_conds;
      assert (Hsn : same_ncl c (qset_thr c (update t th1 (q_thr c))))
        by (intros xx gg; unfold ncl; dq_simpl; apply (ncl_update_same _ _ _ _ _ _ Hl); reflexivity)
    end.
    dq_simpl. dq_thread t2 th2 Hl2 Hne; (apply (thrD_frame c); [exact Hsc|exact Hsn|]); [|eapply Hthr; eassumption].
    destruct (Hthr _ _ Hl) as (P1 & P2 & P3). unfold thrD. dq_simpl. split; [exact P1|split; [exact P2|]].
    intros Hp. destruct (P3 Hp) as (Q1 & Q2 & Q3). split; [exact Q1|split; [exact Q2|]].
    intros Hd. rewrite Hd in *. discriminate.
  (* TICK *)
  - intros t2 th2 Hl2. apply (thrD_frame c); [intros xx; reflexivity|intros xx gg; reflexivity|].
    eapply Hthr. exact Hl2.
Qed.

Lemma invD_step c e c' obs : invA c -> invD c -> dq_exec1 c e = Some (c', obs) -> invD c'.
Proof.
  intros HA HD H. destruct (invD_glob_step _ _ _ _ HA HD H) as [[G1 G2 G3] G4].
  constructor; try assumption. eapply invD_thr_step; eassumption.
Qed.

Record invABD (c : dq_cfg) : Prop := { abd_a : invA c; abd_b : invB c; abd_d : invD c }.

Lemma invABD_reachable cap old evs c : exec dq_step (dq_init cap old) evs = Some c -> invABD c.
Proof.
  apply (invariant_reachable _ _ dq_step invABD); [|split; [apply invA_init|apply invB_init|apply invD_init]].
  intros c0 e c1 [HA HB HD] Hs. unfold dq_step in Hs.
  destruct (dq_exec1 c0 e) as [[c2 obs]|] eqn:E; [|discriminate].
  injection Hs as <-. split; [eapply invA_step; eassumption|eapply invB_step; eassumption|eapply invD_step; eassumption].
Qed.

(* no fatal run-time error (unlock of an unlocked mutex, close of a closed channel, nil timer) is reachable *)
Lemma dq_never_fatal_lemma cap old evs c : exec dq_step (dq_init cap old) evs = Some c -> q_bad c = false.
Proof. intros Hex. apply (d_bad _ (abd_d _ (invABD_reachable _ _ _ _ Hex))). Qed.

