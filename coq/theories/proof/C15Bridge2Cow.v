(* C15Bridge2Cow.v — C15 bridge, trace-level COMPOSITION for list.CopyOnWriteArrayList
   (interleaving model CowModel.v, the tree after fix: 60536f5).

   The model keeps slices as VALUES; the trace needs the IDENTITY of every backing array.  A ghost
   state (a function of the event list, never read by the model) numbers them: array 0 is the one the
   constructor installed, every `make` of a writer allocates the next number; [g_cur] = the array the
   field `vals` points to, [g_loc t] = the array thread t's local (`newItems` / the snapshot) points to.
   Locations of the trace:
     ("CopyOnWriteArrayList.mutex", 0)    the field (address taken by Lock/Unlock): never written
     ("CopyOnWriteArrayList.vals", 0)     the field: every access under the mutex        (QLocked)
     ("CopyOnWriteArrayList.vals[]", 0)   elements of the initial array: never written    (QConst)
     ("CopyOnWriteArrayList.vals[]", S k) elements of the k-th array a writer made: written by its
                                          maker under the mutex BEFORE the maker's Unlock, afterwards
                                          only read, by threads that locked the mutex later (QPub)
   [acts_COW]: the accesses and lock operations of every statement, in program order (`make` is a
   write of the new array: zero-initialisation; the deferred Unlock is emitted at the return).
   [cow_trace_drf_lemma]: for EVERY event list the trace is well-formed, every access is an instance
   of a row of cow_table, and there is no data race. *)
From Coq Require Import List String Bool Arith Lia ZArith.
From Ekit Require Import Common HB FootprintModel FootprintProof C15Bridge C15Bridge2 Conc LockedModel LockedProof
     CowModel CowProof C15BridgeCow.
Import ListNotations.
Open Scope string_scope.
Open Scope nat_scope.
Open Scope list_scope.

(* nlia without the boolean hypotheses (ZifyBool case-splits on every one of them) *)
Ltac nlia := repeat match goal with H : @eq bool _ _ |- _ => clear H end; lia.

Definition MUn : name := lname MU_COW.
Definition VALSf : string := "CopyOnWriteArrayList.vals".
Definition VALSn : name := lname VALSf.
Definition ARRf : string := "CopyOnWriteArrayList.vals[]".
Definition ARRn (k : nat) : name := (ARRf, k).

Definition dsc_COW (x : name) : option disc :=
  if String.eqb (fst x) MU_COW then match snd x with O => Some QConst | _ => None end
  else if String.eqb (fst x) VALSf then match snd x with O => Some (QLocked MUn) | _ => None end
  else if String.eqb (fst x) ARRf then match snd x with O => Some QConst | S _ => Some (QPub (VLock MUn)) end
  else None.

Lemma dsc_MU : dsc_COW MUn = Some QConst. Proof. reflexivity. Qed.
Lemma dsc_VALS : dsc_COW VALSn = Some (QLocked MUn). Proof. reflexivity. Qed.
Lemma dsc_ARR0 : dsc_COW (ARRn 0) = Some QConst. Proof. reflexivity. Qed.
Lemma dsc_ARRS k : dsc_COW (ARRn (S k)) = Some (QPub (VLock MUn)). Proof. reflexivity. Qed.
Lemma via_MU : via_of dsc_COW MUn = None. Proof. reflexivity. Qed.
Lemma via_VALS : via_of dsc_COW VALSn = None. Proof. reflexivity. Qed.
Lemma via_ARR0 : via_of dsc_COW (ARRn 0) = None. Proof. reflexivity. Qed.
Lemma via_ARRS k : via_of dsc_COW (ARRn (S k)) = Some (VLock MUn). Proof. reflexivity. Qed.

Lemma via_COW_inv y v : via_of dsc_COW y = Some v -> exists k, y = ARRn (S k) /\ v = VLock MUn.
Proof.
  destruct y as [f n]. unfold via_of, dsc_COW. cbn [fst snd].
  destruct (String.eqb f MU_COW); [destruct n; discriminate|].
  destruct (String.eqb f VALSf); [destruct n; discriminate|].
  destruct (String.eqb f ARRf) eqn:E; [|discriminate]. apply String.eqb_eq in E. subst f.
  destruct n as [|k]; [discriminate|]. intros H. injection H as <-. now exists k.
Qed.

Lemma ARRn_inj k k' : ARRn k = ARRn k' -> k = k'.
Proof. intros H. now injection H. Qed.

(* ---------- ghost: the identity of the backing arrays ---------- *)
Record cgh := mkG { g_cur : nat; g_fresh : nat; g_loc : Conc.tid -> nat }.
Definition g0_COW : cgh := mkG 0 1 (fun _ => 0).
Definition set_loc (g : cgh) (t : Conc.tid) (k : nat) : cgh :=
  mkG (g_cur g) (g_fresh g) (fun t' => if Nat.eqb t' t then k else g_loc g t').

Definition gstep_pc (g : cgh) (t : Conc.tid) (p : cow_pc) : cgh :=
  match p with
  | AMake _ | BMake _ | CMake _ | DMake =>
      mkG (g_cur g) (S (g_fresh g)) (fun t' => if Nat.eqb t' t then g_fresh g else g_loc g t')
  | APub _ | BPub _ | CPub _ | DPub _ _ => mkG (g_loc g t) (g_fresh g) (g_loc g)
  | SnRet => set_loc g t (g_cur g)
  | _ => g
  end.

Definition gstep_COW (c : cow_cfg) (g : cgh) (e : sys_ev ls_op) : cgh :=
  match e with
  | EStep t => match lookup t (s_thr c) with Some (o, p) => gstep_pc g t p | None => g end
  | _ => g
  end.

(* memory accesses and lock operations of the statement at p, in program order *)
Definition acts_COW (g : cgh) (t : Conc.tid) (p : cow_pc) : list action :=
  let cur := ARRn (g_cur g) in
  let mine := ARRn (g_loc g t) in
  match p with
  | SnLock | ALock | BLock | CLock | DLock | ELock => [Read MUn; Acq MUn Excl]
  | SnDefer | ADefer | BDefer | CDefer | DDefer | EDefer => [Read MUn]   (* receiver of the deferred call *)
  | SnRet => [Read VALSn; Rel MUn Excl]                  (* return a.vals; the deferred Unlock *)
  | GRetVal _ => [Read mine]                             (* vals[index] *)
  | AN | BN | CN | DN => [Read VALSn]                    (* len(a.vals) *)
  | AMake _ | BMake _ | CMake _ => [Write (ARRn (g_fresh g))]          (* make: zero-initialisation *)
  | DMake => [Read VALSn; Write (ARRn (g_fresh g))]                    (* make([]T, len(a.vals)-1) *)
  | ACopy _ | BCopy _ | CCopy _ => [Read VALSn; Read cur; Write mine]  (* copy(newItems, a.vals) *)
  | AApp _ | BAdd _ => [Read mine; Write mine]           (* append / slice.Add within the capacity *)
  | APub _ | BPub _ | CPub _ | DPub _ _ => [Write VALSn] (* a.vals = newItems *)
  | ARet | BRet | CRet | DRet _ | BRetErr | CRetErr _ | DRetErr _ | ERet _ => [Rel MUn Excl]
  | CSet _ => [Write mine]                               (* newItems[index] = t *)
  | DFor _ _ => [Read VALSn; Read cur]                   (* range a.vals: the slice, the first element *)
  | DCont _ _ _ _ _ | DInc _ _ _ _ _ => [Read cur]       (* the next iteration's element *)
  | DPut _ _ _ _ _ => [Write mine]                       (* newItems[item] = v *)
  | RFn _ _ _ => [Read mine]                             (* the iteration's element *)
  | EMake => [Read VALSn]
  | ECopy _ => [Read VALSn; Read cur]                    (* copy(res, a.vals); res is not shared *)
  | _ => []
  end.

Definition emit_COW (x : cow_cfg * cgh) (e : sys_ev ls_op) : list event :=
  match e with
  | EStep t => match lookup t (s_thr (fst x)) with
               | Some (o, p) => map (mkEv t) (acts_COW (snd x) t p)
               | None => []
               end
  | _ => []
  end.

Definition cow_pstep := pstep cow_cfg (sys_ev ls_op) cgh cow_step gstep_COW.

Definition cow_trace (items : list Z) (evs : list (sys_ev ls_op)) : execution :=
  trace (cow_cfg * cgh) (sys_ev ls_op) cow_pstep emit_COW (cow_init items, g0_COW) evs.

(* ---------- classification of program counters ---------- *)
(* the writer has made its array and has not returned yet *)
Definition owns (p : cow_pc) : bool :=
  match p with
  | ACopy _ | AApp _ | APub _ | ARet
  | BCopy _ | BAdd _ | BIf _ _ | BRetErr | BPub _ | BRet
  | CCopy _ | CSet _ | CPub _ | CRet
  | DItem _ | DFor _ _ | DIfI _ _ _ _ _ | DRetV _ _ _ _ _ | DCont _ _ _ _ _ | DPut _ _ _ _ _ | DInc _ _ _ _ _
  | DPub _ _ | DRet _ => true
  | _ => false
  end.
(* after `a.vals = newItems`, before the return *)
Definition afterpub (p : cow_pc) : bool :=
  match p with ARet | BRet | CRet | DRet _ => true | _ => false end.
(* a reader that continues on the snapshot it took *)
Definition hassnap (p : cow_pc) : bool :=
  match p with GLen _ | GIf _ _ | GRetErr _ _ | GRetVal _ | RFn _ _ _ | RIf _ _ _ _ => true | _ => false end.

Notation thrT := (list (Conc.tid * (ls_op * cow_pc))).
Definition inmx (thr : thrT) (t : Conc.tid) : bool :=
  match lookup t thr with Some x => cow_in_mutex x | None => false end.

Definition excl_thr (thr : thrT) : Prop :=
  forall t1 t2 x1 x2, t1 <> t2 -> lookup t1 thr = Some x1 -> lookup t2 thr = Some x2 ->
    cow_in_mutex x1 = true -> cow_in_mutex x2 = false.

Record R0 (thr : thrT) (g : cgh) (a : ast) : Prop := {
  r_fr : 1 <= g_fresh g /\ g_cur g < g_fresh g;
  r_lk : forall t m, a_lk a MUn t m = mode_eqb m Excl && inmx thr t;
  r_unborn : forall k, g_fresh g <= k -> a_lst a (ARRn k) = LFresh;
  r_own : forall t o p, lookup t thr = Some (o, p) -> owns p = true ->
      1 <= g_loc g t /\ g_loc g t < g_fresh g /\ a_lst a (ARRn (g_loc g t)) = LLocal t;
  r_cur : g_cur g = 0 \/ (exists t0, a_lst a (ARRn (g_cur g)) = LPub t0) \/
          (exists t0 o p, lookup t0 thr = Some (o, p) /\ afterpub p = true /\ g_loc g t0 = g_cur g);
  r_snap : forall t o p, lookup t thr = Some (o, p) -> hassnap p = true ->
      g_loc g t = 0 \/
      exists t0, a_lst a (ARRn (g_loc g t)) = LPub t0 /\ (t0 = t \/ a_seen a (ARRn (g_loc g t)) t = true);
  r_seen : forall t x, lookup t thr = Some x -> cow_in_mutex x = true ->
      forall k t0, a_lst a (ARRn (S k)) = LPub t0 -> t0 = t \/ a_seen a (ARRn (S k)) t = true
}.

Lemma R0_ext thr g a b : aeqm a b -> R0 thr g a -> R0 thr g b.
Proof.
  intros (H1 & H2 & H3) [Fr Lk Un Ow Cu Sn Se]. constructor.
  - exact Fr.
  - intros t m. rewrite <- H1. apply Lk.
  - intros k Hk. rewrite <- H2. now apply Un.
  - intros t o p Hl Ho. rewrite <- H2. now apply (Ow t o p).
  - rewrite <- H2. exact Cu.
  - intros t o p Hl Hs. rewrite <- H2, <- H3. now apply (Sn t o p).
  - intros t x Hl Hm k t0. rewrite <- H2, <- H3. now apply (Se t x).
Qed.

(* afterpub / owns statements run under the mutex *)
Lemma owns_in_mutex o p : owns p = true -> cow_in_mutex (o, p) = true.
Proof. destruct p; cbn; congruence. Qed.
Lemma afterpub_owns p : afterpub p = true -> owns p = true.
Proof. destruct p; cbn; congruence. Qed.

(* ---------- the thread table changes, the abstract state does not ---------- *)
Lemma inmx_update thr t x x' t' :
  lookup t thr = Some x -> inmx (update t x' thr) t' = if Nat.eqb t' t then cow_in_mutex x' else inmx thr t'.
Proof.
  intros Hl. unfold inmx. destruct (Nat.eqb t' t) eqn:E.
  - apply Nat.eqb_eq in E. subst t'. now rewrite (lookup_update_same _ _ _ _ _ Hl).
  - apply Nat.eqb_neq in E. now rewrite (lookup_update_other _ _ _ _ _ E).
Qed.

Lemma lookup_update_cases thr t (x x' : ls_op * cow_pc) t' y :
  lookup t thr = Some x -> lookup t' (update t x' thr) = Some y ->
  (t' = t /\ y = x') \/ (t' <> t /\ lookup t' thr = Some y).
Proof.
  intros Hl H. destruct (Nat.eq_dec t' t) as [->|Hne].
  - rewrite (lookup_update_same _ _ _ _ _ Hl) in H. injection H as <-. now left.
  - rewrite (lookup_update_other _ _ _ _ _ Hne) in H. now right.
Qed.

Lemma R0_update_same thr g a t o p p' :
  R0 thr g a -> lookup t thr = Some (o, p) ->
  cow_in_mutex (o, p') = cow_in_mutex (o, p) -> (owns p' = true -> owns p = true) -> afterpub p' = afterpub p ->
  (hassnap p' = true -> hassnap p = true) ->
  R0 (update t (o, p') thr) g a.
Proof.
  intros [Fr Lk Un Ow Cu Sn Se] Hl Fm Fo Fa Fs. constructor.
  - exact Fr.
  - intros t' m. rewrite Lk, (inmx_update _ _ _ _ _ Hl). destruct (Nat.eqb t' t) eqn:E; [|reflexivity].
    apply Nat.eqb_eq in E. subst t'. unfold inmx. now rewrite Hl, Fm.
  - exact Un.
  - intros t' o' q Hl' Ho. destruct (lookup_update_cases _ _ _ _ _ _ Hl Hl') as [[-> Hy]|[Hne Hold]].
    + injection Hy as -> ->. exact (Ow t o p Hl (Fo Ho)).
    + exact (Ow t' o' q Hold Ho).
  - destruct Cu as [Cu|[Cu|(t0 & o0 & p0 & Hl0 & Ha0 & Hc0)]]; [now left|now right; left|right; right].
    destruct (Nat.eq_dec t0 t) as [->|Hne].
    + rewrite Hl in Hl0. injection Hl0 as <- <-. exists t, o, p'.
      split; [now rewrite (lookup_update_same _ _ _ _ _ Hl)|]. split; [now rewrite Fa|exact Hc0].
    + exists t0, o0, p0. split; [now rewrite (lookup_update_other _ _ _ _ _ Hne)|]. now split.
  - intros t' o' q Hl' Hs. destruct (lookup_update_cases _ _ _ _ _ _ Hl Hl') as [[-> Hy]|[Hne Hold]].
    + injection Hy as -> ->. exact (Sn t o p Hl (Fs Hs)).
    + exact (Sn t' o' q Hold Hs).
  - intros t' x Hl' Hm. destruct (lookup_update_cases _ _ _ _ _ _ Hl Hl') as [[-> Hy]|[Hne Hold]].
    + subst x. rewrite Fm in Hm. exact (Se t (o, p) Hl Hm).
    + exact (Se t' x Hold Hm).
Qed.

Lemma R0_remove thr g a t o p :
  R0 thr g a -> NoDup (tids thr) -> lookup t thr = Some (o, p) ->
  cow_in_mutex (o, p) = false -> afterpub p = false ->
  R0 (remove t thr) g a.
Proof.
  intros [Fr Lk Un Ow Cu Sn Se] Hnd Hl Fm Fa.
  assert (Hlk : forall t' y, lookup t' (remove t thr) = Some y -> t' <> t /\ lookup t' thr = Some y).
  { intros t' y H. destruct (Nat.eq_dec t' t) as [->|Hne].
    - rewrite (lookup_remove_same t _ Hnd) in H. discriminate.
    - rewrite (lookup_remove_other _ _ _ Hne) in H. now split. }
  constructor.
  - exact Fr.
  - intros t' m. rewrite Lk. f_equal. unfold inmx. destruct (Nat.eq_dec t' t) as [->|Hne].
    + now rewrite (lookup_remove_same t _ Hnd), Hl.
    + now rewrite (lookup_remove_other _ _ _ Hne).
  - exact Un.
  - intros t' o' q Hl' Ho. destruct (Hlk _ _ Hl') as [_ Hold]. exact (Ow t' o' q Hold Ho).
  - destruct Cu as [Cu|[Cu|(t0 & o0 & p0 & Hl0 & Ha0 & Hc0)]]; [now left|now right; left|right; right].
    assert (Hne : t0 <> t) by (intros ->; rewrite Hl in Hl0; injection Hl0 as <- <-; congruence).
    exists t0, o0, p0. split; [now rewrite (lookup_remove_other _ _ _ Hne)|]. now split.
  - intros t' o' q Hl' Hs. destruct (Hlk _ _ Hl') as [_ Hold]. exact (Sn t' o' q Hold Hs).
  - intros t' x Hl' Hm. destruct (Hlk _ _ Hl') as [_ Hold]. exact (Se t' x Hold Hm).
Qed.

Lemma R0_spawn thr g a t o :
  R0 thr g a -> lookup t thr = None -> R0 (spawn t (o, cow_entry o) thr) g a.
Proof.
  intros [Fr Lk Un Ow Cu Sn Se] Hl.
  assert (Hlk : forall t' y, lookup t' (spawn t (o, cow_entry o) thr) = Some y ->
                 (t' = t /\ y = (o, cow_entry o)) \/ (t' <> t /\ lookup t' thr = Some y)).
  { intros t' y H. destruct (Nat.eq_dec t' t) as [->|Hne].
    - rewrite (lookup_spawn_same _ _ _ Hl) in H. injection H as <-. now left.
    - rewrite (lookup_spawn_other _ _ _ _ Hne) in H. now right. }
  constructor.
  - exact Fr.
  - intros t' m. rewrite Lk. f_equal. unfold inmx. destruct (Nat.eq_dec t' t) as [->|Hne].
    + rewrite (lookup_spawn_same _ _ _ Hl), Hl. now rewrite cow_entry_outside.
    + now rewrite (lookup_spawn_other _ _ _ _ Hne).
  - exact Un.
  - intros t' o' q Hl' Ho. destruct (Hlk _ _ Hl') as [[-> Hy]|[_ Hold]].
    + injection Hy as -> ->. destruct o; discriminate Ho.
    + exact (Ow t' o' q Hold Ho).
  - destruct Cu as [Cu|[Cu|(t0 & o0 & p0 & Hl0 & Ha0 & Hc0)]]; [now left|now right; left|right; right].
    assert (Hne : t0 <> t) by (intros ->; congruence).
    exists t0, o0, p0. split; [now rewrite (lookup_spawn_other _ _ _ _ Hne)|]. now split.
  - intros t' o' q Hl' Hs. destruct (Hlk _ _ Hl') as [[-> Hy]|[_ Hold]].
    + injection Hy as -> ->. destruct o; discriminate Hs.
    + exact (Sn t' o' q Hold Hs).
  - intros t' x Hl' Hm. destruct (Hlk _ _ Hl') as [[-> Hy]|[_ Hold]].
    + subst x. rewrite cow_entry_outside in Hm. discriminate.
    + exact (Se t' x Hold Hm).
Qed.

Lemma remove_update (thr : thrT) t x : remove t (update t x thr) = remove t thr.
Proof.
  induction thr as [|[t' y] r IH]; cbn; [reflexivity|].
  destruct (Nat.eqb t t') eqn:E; cbn; rewrite E; [reflexivity|now rewrite IH].
Qed.

(* ---------- Lock ---------- *)
Lemma R0_lock thr g a t o p p' :
  R0 thr g a -> lookup t thr = Some (o, p) ->
  (forall t' x, lookup t' thr = Some x -> cow_in_mutex x = false) ->
  cow_in_mutex (o, p') = true -> owns p' = false -> afterpub p' = false -> hassnap p' = false ->
  owns p = false -> afterpub p = false -> hassnap p = false ->
  lk_free a MUn Excl /\ R0 (update t (o, p') thr) g (st_acq dsc_COW a t MUn Excl).
Proof.
  intros [Fr Lk Un Ow Cu Sn Se] Hl Hfree Fm Fo Fa Fs Go Ga Gs.
  assert (Hno : forall t', inmx thr t' = false).
  { intros t'. unfold inmx. destruct (lookup t' thr) as [x|] eqn:E; [|reflexivity]. exact (Hfree t' x E). }
  split.
  { split; [intros t'|intros _ t']; rewrite Lk, Hno; now rewrite andb_false_r. }
  constructor; cbn [a_lk a_lst a_seen st_acq].
  - exact Fr.
  - intros t' m. rewrite (inmx_update _ _ _ _ _ Hl), name_eqb_refl. cbn [andb].
    destruct (Nat.eqb t' t) eqn:E.
    + rewrite Fm. destruct m; cbn; [reflexivity|]. rewrite Lk. reflexivity.
    + cbn. apply Lk.
  - exact Un.
  - intros t' o' q Hl' Ho. destruct (lookup_update_cases _ _ _ _ _ _ Hl Hl') as [[-> Hy]|[Hne Hold]].
    + injection Hy as -> ->. congruence.
    + exact (Ow t' o' q Hold Ho).
  - destruct Cu as [Cu|[Cu|(t0 & o0 & p0 & Hl0 & Ha0 & Hc0)]]; [now left|now right; left|right; right].
    assert (Hne : t0 <> t) by (intros ->; rewrite Hl in Hl0; injection Hl0 as <- <-; congruence).
    exists t0, o0, p0. split; [now rewrite (lookup_update_other _ _ _ _ _ Hne)|]. now split.
  - intros t' o' q Hl' Hs. destruct (lookup_update_cases _ _ _ _ _ _ Hl Hl') as [[-> Hy]|[Hne Hold]].
    + injection Hy as -> ->. congruence.
    + destruct (Sn t' o' q Hold Hs) as [H|(t0 & H1 & H2)]; [now left|right]. exists t0. split; [exact H1|].
      destruct H2 as [H2|H2]; [now left|right]. now rewrite H2.
  - intros t' x Hl' Hm k t0 Hp. destruct (lookup_update_cases _ _ _ _ _ _ Hl Hl') as [[-> Hy]|[Hne Hold]].
    + right. rewrite Hp, via_ARRS, Nat.eqb_refl, name_eqb_refl. now rewrite orb_true_r.
    + rewrite (Hfree t' x Hold) in Hm. discriminate.
Qed.

(* ---------- Unlock (the holder leaves the mutex; snapshot() also hands out the current array) ---------- *)
Lemma R0_unlock thr g g' a t o p p' :
  R0 thr g a -> lookup t thr = Some (o, p) -> excl_thr thr -> cow_in_mutex (o, p) = true ->
  cow_in_mutex (o, p') = false -> owns p' = false -> afterpub p' = false ->
  g_cur g' = g_cur g -> g_fresh g' = g_fresh g -> (forall t', t' <> t -> g_loc g' t' = g_loc g t') ->
  (hassnap p' = true -> g_loc g' t = g_cur g /\ afterpub p = false) ->
  a_lk a MUn t Excl = true /\ R0 (update t (o, p') thr) g' (st_rel dsc_COW a t MUn Excl).
Proof.
  intros [Fr Lk Un Ow Cu Sn Se] Hl Hex Fm Fm' Fo Fa Gc Gf Gl Gs.
  assert (Hothers : forall t' x, t' <> t -> lookup t' thr = Some x -> cow_in_mutex x = false).
  { intros t' x Hne Hl'. apply (Hex t t' (o, p) x); auto. }
  split.
  { rewrite Lk. unfold inmx. now rewrite Hl, Fm. }
  (* the state of an array after the release *)
  assert (Hpub : forall k t0, a_lst a (ARRn k) = LPub t0 ->
                   a_lst (st_rel dsc_COW a t MUn Excl) (ARRn k) = LPub t0).
  { intros k t0 H. cbn [a_lst st_rel]. now rewrite H. }
  constructor; rewrite ?Gc, ?Gf.
  - exact Fr.
  - intros t' m. cbn [a_lk st_rel]. rewrite (inmx_update _ _ _ _ _ Hl), name_eqb_refl. cbn [andb].
    destruct (Nat.eqb t' t) eqn:E.
    + rewrite Fm'. destruct m; cbn; [reflexivity|]. rewrite Lk. reflexivity.
    + cbn. apply Lk.
  - intros k Hk. cbn [a_lst st_rel]. now rewrite (Un k Hk).
  - intros t' o' q Hl' Ho. destruct (lookup_update_cases _ _ _ _ _ _ Hl Hl') as [[-> Hy]|[Hne Hold]].
    + injection Hy as -> ->. congruence.
    + rewrite (Gl t' Hne). destruct (Ow t' o' q Hold Ho) as (H1 & H2 & H3). split; [exact H1|]. split; [exact H2|].
      cbn [a_lst st_rel]. rewrite H3. destruct (g_loc g t') as [|k]; [nlia|]. rewrite via_ARRS.
      apply Nat.eqb_neq in Hne. now rewrite Hne.
  - destruct Cu as [Cu|[(t0 & Cu)|(t0 & o0 & p0 & Hl0 & Ha0 & Hc0)]]; [now left|right; left; exists t0; now apply Hpub|].
    destruct (Nat.eq_dec t0 t) as [->|Hne].
    + rewrite Hl in Hl0. injection Hl0 as <- <-. right. left. exists t.
      destruct (Ow t o p Hl (afterpub_owns _ Ha0)) as (H1 & H2 & H3). rewrite <- Hc0.
      cbn [a_lst st_rel]. rewrite H3. destruct (g_loc g t) as [|k]; [nlia|].
      now rewrite via_ARRS, Nat.eqb_refl, name_eqb_refl.
    + pose proof (Hothers t0 _ Hne Hl0) as Hout.
      rewrite (owns_in_mutex o0 p0 (afterpub_owns _ Ha0)) in Hout. discriminate.
  - intros t' o' q Hl' Hs. destruct (lookup_update_cases _ _ _ _ _ _ Hl Hl') as [[-> Hy]|[Hne Hold]].
    + injection Hy as -> ->. destruct (Gs Hs) as [Gt Gp]. rewrite Gt.
      destruct (g_cur g) as [|k] eqn:Ek; [now left|]. right.
      destruct Cu as [Cu|[(t0 & Cu)|(t0 & o0 & p0 & Hl0 & Ha0 & Hc0)]]; [discriminate Cu| |].
      * exists t0. split; [now apply Hpub|]. cbn [a_seen st_rel]. exact (Se t (o, p) Hl Fm k t0 Cu).
      * exfalso. destruct (Nat.eq_dec t0 t) as [->|Hne].
        -- rewrite Hl in Hl0. injection Hl0 as <- <-. congruence.
        -- pose proof (Hothers t0 _ Hne Hl0) as Hout.
           rewrite (owns_in_mutex o0 p0 (afterpub_owns _ Ha0)) in Hout. discriminate.
    + rewrite (Gl t' Hne). destruct (Sn t' o' q Hold Hs) as [H|(t0 & H1 & H2)]; [now left|right].
      exists t0. split; [now apply Hpub|exact H2].
  - intros t' x Hl' Hm. destruct (lookup_update_cases _ _ _ _ _ _ Hl Hl') as [[-> Hy]|[Hne Hold]].
    + subst x. congruence.
    + rewrite (Hothers t' x Hne Hold) in Hm. discriminate.
Qed.

(* ---------- make: a new array, local to its maker ---------- *)
Lemma R0_make thr g a a' t o p p' :
  R0 thr g a -> lookup t thr = Some (o, p) ->
  cow_in_mutex (o, p') = cow_in_mutex (o, p) -> owns p = false -> owns p' = true ->
  afterpub p = false -> afterpub p' = false -> hassnap p = false -> hassnap p' = false ->
  (forall l t' m, a_lk a' l t' m = a_lk a l t' m) -> (forall x t', a_seen a' x t' = a_seen a x t') ->
  a_lst a' (ARRn (g_fresh g)) = LLocal t ->
  (forall k, k <> g_fresh g -> a_lst a' (ARRn k) = a_lst a (ARRn k)) ->
  R0 (update t (o, p') thr) (mkG (g_cur g) (S (g_fresh g)) (fun t' => if Nat.eqb t' t then g_fresh g else g_loc g t')) a'.
Proof.
  intros [Fr Lk Un Ow Cu Sn Se] Hl Fm Go Fo Ga Fa Gs Fs Hlk Hseen Hnew Hold.
  assert (Hcur : a_lst a' (ARRn (g_cur g)) = a_lst a (ARRn (g_cur g))) by (apply Hold; nlia).
  constructor; cbn [g_cur g_fresh g_loc].
  - nlia.
  - intros t' m. rewrite Hlk, Lk, (inmx_update _ _ _ _ _ Hl). destruct (Nat.eqb t' t) eqn:E; [|reflexivity].
    apply Nat.eqb_eq in E. subst t'. unfold inmx. now rewrite Hl, Fm.
  - intros k Hk. rewrite Hold by nlia. apply Un. nlia.
  - intros t' o' q Hl' Ho. destruct (lookup_update_cases _ _ _ _ _ _ Hl Hl') as [[-> Hy]|[Hne Hold']].
    + rewrite Nat.eqb_refl. split; [nlia|]. split; [nlia|exact Hnew].
    + apply Nat.eqb_neq in Hne. rewrite Hne. destruct (Ow t' o' q Hold' Ho) as (H1 & H2 & H3).
      split; [exact H1|]. split; [nlia|]. rewrite Hold by nlia. exact H3.
  - rewrite Hcur. destruct Cu as [Cu|[Cu|(t0 & o0 & p0 & Hl0 & Ha0 & Hc0)]]; [now left|now right; left|right; right].
    assert (Hne : t0 <> t) by (intros ->; rewrite Hl in Hl0; injection Hl0 as <- <-; congruence).
    exists t0, o0, p0. split; [now rewrite (lookup_update_other _ _ _ _ _ Hne)|]. split; [exact Ha0|].
    apply Nat.eqb_neq in Hne. now rewrite Hne.
  - intros t' o' q Hl' Hs. destruct (lookup_update_cases _ _ _ _ _ _ Hl Hl') as [[-> Hy]|[Hne Hold']].
    + injection Hy as -> ->. congruence.
    + apply Nat.eqb_neq in Hne. rewrite Hne. destruct (Sn t' o' q Hold' Hs) as [H|(t0 & H1 & H2)]; [now left|right].
      assert (Hk : g_loc g t' <> g_fresh g).
      { intros E. rewrite E, (Un (g_fresh g)) in H1 by nlia. discriminate. }
      exists t0. rewrite Hold by exact Hk. rewrite Hseen. now split.
  - intros t' x Hl' Hm k t0 Hp. rewrite Hseen.
    assert (Hk : S k <> g_fresh g) by (intros E; rewrite E, Hnew in Hp; discriminate).
    rewrite Hold in Hp by exact Hk.
    destruct (lookup_update_cases _ _ _ _ _ _ Hl Hl') as [[-> Hy]|[Hne Hold']].
    + subst x. rewrite Fm in Hm. exact (Se t (o, p) Hl Hm k t0 Hp).
    + exact (Se t' x Hold' Hm k t0 Hp).
Qed.

(* ---------- a.vals = newItems ---------- *)
Lemma R0_pub thr g a t o p p' :
  R0 thr g a -> lookup t thr = Some (o, p) ->
  cow_in_mutex (o, p') = cow_in_mutex (o, p) -> owns p = true -> owns p' = true -> afterpub p' = true ->
  hassnap p = false -> hassnap p' = false ->
  R0 (update t (o, p') thr) (mkG (g_loc g t) (g_fresh g) (g_loc g)) a.
Proof.
  intros [Fr Lk Un Ow Cu Sn Se] Hl Fm Go Fo Fa Gs Fs.
  destruct (Ow t o p Hl Go) as (O1 & O2 & O3).
  constructor; cbn [g_cur g_fresh g_loc].
  - nlia.
  - intros t' m. rewrite Lk, (inmx_update _ _ _ _ _ Hl). destruct (Nat.eqb t' t) eqn:E; [|reflexivity].
    apply Nat.eqb_eq in E. subst t'. unfold inmx. now rewrite Hl, Fm.
  - exact Un.
  - intros t' o' q Hl' Ho. destruct (lookup_update_cases _ _ _ _ _ _ Hl Hl') as [[-> Hy]|[Hne Hold]].
    + exact (Ow t o p Hl Go).
    + exact (Ow t' o' q Hold Ho).
  - right. right. exists t, o, p'. split; [now rewrite (lookup_update_same _ _ _ _ _ Hl)|]. now split.
  - intros t' o' q Hl' Hs. destruct (lookup_update_cases _ _ _ _ _ _ Hl Hl') as [[-> Hy]|[Hne Hold]].
    + injection Hy as -> ->. congruence.
    + exact (Sn t' o' q Hold Hs).
  - intros t' x Hl' Hm. destruct (lookup_update_cases _ _ _ _ _ _ Hl Hl') as [[-> Hy]|[Hne Hold]].
    + subst x. rewrite Fm in Hm. exact (Se t (o, p) Hl Hm).
    + exact (Se t' x Hold Hm).
Qed.

(* ---------- the accesses are admissible ---------- *)
Definition okset (a : ast) (t : Conc.tid) (x : name) (w : bool) : Prop :=
  acc_ok dsc_COW a t x w false /\ (via_of dsc_COW x = None \/ a_lst a x <> LFresh).

Lemma ok_MU a t : okset a t MUn false.
Proof. split; [unfold acc_ok; now rewrite dsc_MU|now left]. Qed.

Lemma ok_VALS thr g a t o p w :
  R0 thr g a -> lookup t thr = Some (o, p) -> cow_in_mutex (o, p) = true -> okset a t VALSn w.
Proof.
  intros HR Hl Hm. split; [|now left]. unfold acc_ok. rewrite dsc_VALS.
  assert (H : a_lk a MUn t Excl = true) by (rewrite (r_lk _ _ _ HR); unfold inmx; now rewrite Hl, Hm).
  destruct w; cbn; [exact H|now right].
Qed.

Lemma ok_cur thr g a t o p :
  R0 thr g a -> excl_thr thr -> lookup t thr = Some (o, p) -> cow_in_mutex (o, p) = true ->
  afterpub p = false -> okset a t (ARRn (g_cur g)) false.
Proof.
  intros HR Hex Hl Hm Ha. destruct (g_cur g) as [|k] eqn:Ek.
  { split; [unfold acc_ok; now rewrite dsc_ARR0|now left]. }
  destruct (r_cur _ _ _ HR) as [Cu|[(t0 & Cu)|(t0 & o0 & p0 & Hl0 & Ha0 & Hc0)]].
  - rewrite Ek in Cu. discriminate.
  - rewrite Ek in Cu. split; [|right; congruence]. unfold acc_ok. rewrite dsc_ARRS, Cu.
    split; [reflexivity|]. exact (r_seen _ _ _ HR t (o, p) Hl Hm k t0 Cu).
  - exfalso. destruct (Nat.eq_dec t0 t) as [->|Hne].
    + rewrite Hl in Hl0. injection Hl0 as <- <-. congruence.
    + pose proof (Hex t t0 _ _ (fun E => Hne (eq_sym E)) Hl Hl0 Hm) as Hout.
      rewrite (owns_in_mutex o0 p0 (afterpub_owns _ Ha0)) in Hout. discriminate.
Qed.

Lemma ok_own thr g a t o p w :
  R0 thr g a -> lookup t thr = Some (o, p) -> owns p = true -> okset a t (ARRn (g_loc g t)) w.
Proof.
  intros HR Hl Ho. destruct (r_own _ _ _ HR t o p Hl Ho) as (H1 & H2 & H3).
  destruct (g_loc g t) as [|k]; [nlia|]. split; [|right; congruence].
  unfold acc_ok. now rewrite dsc_ARRS, H3.
Qed.

Lemma ok_snap thr g a t o p :
  R0 thr g a -> lookup t thr = Some (o, p) -> hassnap p = true -> okset a t (ARRn (g_loc g t)) false.
Proof.
  intros HR Hl Hs. destruct (g_loc g t) as [|k] eqn:Ek.
  { split; [unfold acc_ok; now rewrite dsc_ARR0|now left]. }
  destruct (r_snap _ _ _ HR t o p Hl Hs) as [H|(t0 & H1 & H2)]; [congruence|]. rewrite Ek in H1, H2.
  split; [|right; congruence]. unfold acc_ok. rewrite dsc_ARRS, H1. now split.
Qed.

(* a list of accesses, each of them "okset": admissible and leaves the abstract state alone *)
Definition oksets (a : ast) (t : Conc.tid) (accs : list action) : Prop :=
  Forall (fun b => exists x w, access_of b = Some (x, w, false) /\ okset a t x w) accs.

Lemma oksets_accs a t accs : oksets a t accs -> accs_ok dsc_COW a t accs /\ settled dsc_COW a accs.
Proof.
  intros H. split; eapply Forall_impl; try exact H; cbn beta.
  - intros b (x & w & Hacc & Hok & _). now exists x, w, false.
  - intros b (x & w & Hacc & _ & Hs) x' w' ao' Hacc'. rewrite Hacc in Hacc'. injection Hacc' as <- _ _. exact Hs.
Qed.

Lemma same_state thr' g' a t accs :
  oksets a t accs -> R0 thr' g' a ->
  all_ok dsc_COW a (map (mkEv t) accs) /\ R0 thr' g' (aupds dsc_COW a (map (mkEv t) accs)).
Proof.
  intros H HR. destruct (oksets_accs _ _ _ H) as [H1 H2].
  destruct (step_accs dsc_COW a t accs H1 H2) as [Hok Heq]. split; [exact Hok|].
  eapply R0_ext; [apply aeqm_sym; exact Heq|exact HR].
Qed.

Lemma rel_state thr' g' a t accs :
  oksets a t accs -> a_lk a MUn t Excl = true -> R0 thr' g' (st_rel dsc_COW a t MUn Excl) ->
  all_ok dsc_COW a (map (mkEv t) (accs ++ [Rel MUn Excl])) /\
  R0 thr' g' (aupds dsc_COW a (map (mkEv t) (accs ++ [Rel MUn Excl]))).
Proof.
  intros H Hl HR. destruct (oksets_accs _ _ _ H) as [H1 H2].
  destruct (step_accs_rel dsc_COW a t accs MUn Excl H1 H2 Hl) as [Hok Heq]. split; [exact Hok|].
  eapply R0_ext; [apply aeqm_sym; exact Heq|exact HR].
Qed.

Lemma acq_state thr' g' a t accs :
  oksets a t accs -> lk_free a MUn Excl -> R0 thr' g' (st_acq dsc_COW a t MUn Excl) ->
  all_ok dsc_COW a (map (mkEv t) (accs ++ [Acq MUn Excl])) /\
  R0 thr' g' (aupds dsc_COW a (map (mkEv t) (accs ++ [Acq MUn Excl]))).
Proof.
  intros H Hl HR. destruct (oksets_accs _ _ _ H) as [H1 H2].
  destruct (step_accs_acq dsc_COW a t accs MUn Excl H1 H2 Hl) as [Hok Heq]. split; [exact Hok|].
  eapply R0_ext; [apply aeqm_sym; exact Heq|exact HR].
Qed.

(* make: [pre] are accesses that leave the state alone, then the write of the new array *)
Lemma make_state thr g a t o p p' pre :
  R0 thr g a -> lookup t thr = Some (o, p) ->
  cow_in_mutex (o, p') = cow_in_mutex (o, p) -> owns p = false -> owns p' = true ->
  afterpub p = false -> afterpub p' = false -> hassnap p = false -> hassnap p' = false ->
  oksets a t pre -> (forall b, In b pre -> forall k w ao, access_of b <> Some (ARRn k, w, ao)) ->
  all_ok dsc_COW a (map (mkEv t) (pre ++ [Write (ARRn (g_fresh g))])) /\
  R0 (update t (o, p') thr) (mkG (g_cur g) (S (g_fresh g)) (fun t' => if Nat.eqb t' t then g_fresh g else g_loc g t'))
     (aupds dsc_COW a (map (mkEv t) (pre ++ [Write (ARRn (g_fresh g))]))).
Proof.
  intros HR Hl Fm Go Fo Ga Fa Gs Fs Hpre Hnarr.
  destruct (oksets_accs _ _ _ Hpre) as [H1 H2].
  assert (Hfr : a_lst a (ARRn (g_fresh g)) = LFresh) by (apply (r_unborn _ _ _ HR); nlia).
  destruct (r_fr _ _ _ HR) as [Hf1 Hf2].
  assert (Hex : exists f, g_fresh g = S f) by (exists (pred (g_fresh g)); nlia). destruct Hex as [f Ef].
  assert (Hd : dsc_COW (ARRn (g_fresh g)) = Some (QPub (VLock MUn))) by (rewrite Ef; apply dsc_ARRS).
  assert (Hv : via_of dsc_COW (ARRn (g_fresh g)) = Some (VLock MUn)) by (rewrite Ef; apply via_ARRS).
  assert (Hall : accs_ok dsc_COW a t (pre ++ [Write (ARRn (g_fresh g))])).
  { apply Forall_app. split; [exact H1|]. constructor; [|constructor].
    exists (ARRn (g_fresh g)), true, false. split; [reflexivity|]. unfold acc_ok. now rewrite Hd, Hfr. }
  destruct (step_touch dsc_COW a t _ Hall) as [Hok Heq]. split; [exact Hok|].
  destruct Heq as [(E1 & E2 & E3) _].
  eapply (R0_make thr g a _ t o p p' HR Hl Fm Go Fo Ga Fa Gs Fs).
  - intros l t' m. now rewrite E1.
  - intros x t'. now rewrite E3.
  - rewrite E2. cbn [a_lst st_touch]. rewrite Hfr, Hv.
    assert (Hm : memn (ARRn (g_fresh g)) (acts_locs (pre ++ [Write (ARRn (g_fresh g))])) = true).
    { unfold memn. apply existsb_exists. exists (ARRn (g_fresh g)). split; [|apply name_eqb_refl].
      unfold acts_locs. apply in_flat_map. exists (Write (ARRn (g_fresh g))).
      split; [apply in_or_app; right; now left|now left]. }
    now rewrite Hm.
  - intros k Hk. rewrite E2. cbn [a_lst st_touch]. destruct (a_lst a (ARRn k)) eqn:El; try reflexivity.
    destruct (via_of dsc_COW (ARRn k)); [|reflexivity].
    destruct (memn (ARRn k) (acts_locs (pre ++ [Write (ARRn (g_fresh g))]))) eqn:Em; [|reflexivity].
    exfalso. apply memn_locs in Em as (b & w & ao & Hin & Hacc). apply in_app_or in Hin as [Hin|[<-|[]]].
    + exact (Hnarr b Hin k w ao Hacc).
    + cbn in Hacc. injection Hacc as E. apply Hk. congruence.
Qed.

(* ====================== the step lemma ====================== *)
Lemma d_next_flags o ni item rt rng k :
  cow_in_mutex (o, d_next ni item rt rng k) = true /\ owns (d_next ni item rt rng k) = true /\
  afterpub (d_next ni item rt rng k) = false /\ hassnap (d_next ni item rt rng k) = false.
Proof. unfold d_next. destruct (S k <? List.length rng); repeat split. Qed.

Lemma R0_update_dnext thr g a t o p ni item rt rng k :
  R0 thr g a -> lookup t thr = Some (o, p) -> cow_in_mutex (o, p) = true -> owns p = true -> afterpub p = false ->
  R0 (update t (o, d_next ni item rt rng k) thr) g a.
Proof.
  intros HR Hl Hm Ho Ha. destruct (d_next_flags o ni item rt rng k) as (D1 & D2 & D3 & D4).
  apply (R0_update_same _ _ _ _ _ _ _ HR Hl); congruence.
Qed.

(* a thread that ends its call: first to a pc without any flag, then out of the table *)
Lemma R0_finish thr g a t o p :
  R0 (update t (o, GSnap) thr) g a -> NoDup (tids thr) -> lookup t thr = Some (o, p) -> R0 (remove t thr) g a.
Proof.
  intros HR Hnd Hl. rewrite <- (remove_update thr t (o, GSnap)).
  apply (R0_remove _ g a t o GSnap HR); try reflexivity.
  - now rewrite tids_update.
  - exact (lookup_update_same _ _ _ _ _ Hl).
Qed.

Ltac flag_tac := cbn; first [reflexivity | intros _; reflexivity | discriminate | (let H := fresh in intro H; discriminate H)].
Ltac okset_tac :=
  first [ apply ok_MU
        | eapply ok_VALS; [eassumption|eassumption|reflexivity]
        | eapply ok_cur; [eassumption|eassumption|eassumption|reflexivity|reflexivity]
        | eapply ok_own; [eassumption|eassumption|reflexivity]
        | eapply ok_snap; [eassumption|eassumption|reflexivity] ].
Ltac oksets_tac :=
  repeat (constructor; [eexists _, _; split; [reflexivity|okset_tac]|]); try constructor.

Section Items.
  Variable items : list Z.

  Definition reachC (c : cow_cfg) : Prop := exists evs, exec cow_step (cow_init items) evs = Some c.
  Definition R_COW (x : cow_cfg * cgh) (a : ast) : Prop := reachC (fst x) /\ R0 (s_thr (fst x)) (snd x) a.

  Lemma cow_Hstep2 x a e x' :
    R_COW x a -> cow_pstep x e = Some x' ->
    all_ok dsc_COW a (emit_COW x e) /\ R_COW x' (aupds dsc_COW a (emit_COW x e)).
  Proof.
    destruct x as [c g]. intros [[evs Hex] HR] Hs. unfold cow_pstep, pstep in Hs. cbn [fst snd] in *.
    destruct (cow_step c e) as [c'|] eqn:Hst; [|discriminate]. injection Hs as <-. cbn [fst snd].
    assert (Hreach : reachC c').
    { exists (evs ++ [e]). rewrite exec_app, Hex. cbn. now rewrite Hst. }
    destruct (cow_linearizable_lemma items evs c Hex) as (_ & _ & Hexc & Hcnt & Hnd).
    enough (Hgoal : all_ok dsc_COW a (emit_COW (c, g) e) /\
                    R0 (s_thr c') (gstep_COW c g e) (aupds dsc_COW a (emit_COW (c, g) e))).
    { destruct Hgoal as [H1 H2]. exact (conj H1 (conj Hreach H2)). }
    clear Hreach. unfold cow_step, sys_step in Hst.
    destruct (sys_exec1 cow_entry cow_tstep c e) as [[c1 ob]|] eqn:E1; [|discriminate]. injection Hst as ->.
    destruct e as [t o|t]; cbn [sys_exec1] in E1.
    - (* CALL *)
      destruct (lookup t (s_thr c)) eqn:Hl; [discriminate|]. injection E1 as <- _.
      cbn [emit_COW gstep_COW aupds fold_left s_thr all_ok]. split; [exact I|]. now apply R0_spawn.
    - (* STEP *)
      pose proof (cow_no_panic_lemma items evs c t c' ob Hex E1) as Hnp.
      destruct (lookup t (s_thr c)) as [[o p]|] eqn:Hl; [|discriminate].
      destruct (cow_tstep (s_sh c) o p) as [[s' nx]|] eqn:Ht; [|discriminate].
      cbn [emit_COW gstep_COW fst snd]. rewrite Hl.
      assert (Hfree : cw_mu (s_sh c) = false -> forall t' x, lookup t' (s_thr c) = Some x -> cow_in_mutex x = false).
      { intros Hmu t' x Hl'. apply (count_zero_lookup cow_in_mutex t' x (s_thr c)); [|exact Hl'].
        rewrite Hcnt, Hmu. reflexivity. }
      assert (Hshape : s_thr c' = match nx with
                                  | NPc p' | NLin p' _ => update t (o, p') (s_thr c)
                                  | _ => remove t (s_thr c)
                                  end).
      { destruct nx; injection E1 as <- <-; reflexivity. }
      assert (Hnp' : nx <> NPanic).
      { intros ->. injection E1 as _ <-. now apply Hnp. }
      rewrite Hshape. clear E1 Hshape Hnp c' ob.
      set (thr := s_thr c) in *.
      assert (Hexc' : excl_thr thr) by exact Hexc.
      destruct p; cbn [cow_tstep] in Ht; unfold cw_lock in Ht;
      repeat match type of Ht with
             | context [match ?x with _ => _ end] => destruct x eqn:?
             end;
      try discriminate Ht; injection Ht as <- <-; try (exfalso; apply Hnp'; reflexivity);
      cbn [acts_COW gstep_pc].
      all: match goal with
        | |- _ /\ R0 _ _ (aupds _ _ (map _ [Read MUn; Acq MUn Excl])) =>
            match goal with |- _ /\ R0 (update _ (_, ?p') _) _ _ =>
              destruct (R0_lock thr g a t _ _ p' HR Hl (Hfree eq_refl)) as [Hf HR']; [reflexivity..|];
              apply (acq_state _ _ a t [Read MUn]); [oksets_tac|exact Hf|exact HR'] end
        | |- _ /\ R0 (remove _ _) _ (aupds _ _ (map _ [Rel MUn Excl])) =>
            destruct (R0_unlock thr g g a t _ _ GSnap HR Hl Hexc') as [Hk HR'];
              [reflexivity|reflexivity|reflexivity|reflexivity|reflexivity|reflexivity|intros; reflexivity|discriminate|];
            apply (rel_state _ _ a t []); [constructor|exact Hk|eapply R0_finish; [exact HR'|exact Hnd|exact Hl]]
        | |- _ /\ R0 (update _ (_, ?p') _) (set_loc _ _ _) _ =>
            destruct (R0_unlock thr g (set_loc g t (g_cur g)) a t _ _ p' HR Hl Hexc') as [Hk HR'];
              [reflexivity|reflexivity|reflexivity|reflexivity|reflexivity|reflexivity
              |intros t' Hne; cbn; apply Nat.eqb_neq in Hne; now rewrite Hne
              |intros _; cbn; rewrite Nat.eqb_refl; split; reflexivity|];
            apply (rel_state _ _ a t [Read VALSn]); [oksets_tac|exact Hk|exact HR']
        | |- _ /\ R0 (remove _ _) (set_loc _ _ _) _ =>
            destruct (R0_unlock thr g (set_loc g t (g_cur g)) a t _ _ GSnap HR Hl Hexc') as [Hk HR'];
              [reflexivity|reflexivity|reflexivity|reflexivity|reflexivity|reflexivity
              |intros t' Hne; cbn; apply Nat.eqb_neq in Hne; now rewrite Hne
              |discriminate|];
            apply (rel_state _ _ a t [Read VALSn]); [oksets_tac|exact Hk|eapply R0_finish; [exact HR'|exact Hnd|exact Hl]]
        | |- _ /\ R0 _ (mkG _ (S _) _) (aupds _ _ (map _ [Write _])) =>
            apply (make_state thr g a t _ _ _ [] HR Hl); try reflexivity; [constructor|intros b []]
        | |- _ /\ R0 _ (mkG _ (S _) _) _ =>
            apply (make_state thr g a t _ _ _ [Read VALSn] HR Hl); try reflexivity;
              [oksets_tac|intros b [<-|[]] k0 w ao H; discriminate H]
        | |- _ /\ R0 _ (mkG (g_loc _ _) _ _) _ =>
            apply same_state; [oksets_tac | apply (R0_pub thr g a t _ _ _ HR Hl); reflexivity]
        | |- _ /\ R0 (update _ (_, d_next _ _ _ _ _) _) _ _ =>
            apply same_state; [oksets_tac | apply (R0_update_dnext _ _ _ _ _ _ _ _ _ _ _ HR Hl); reflexivity]
        | |- _ /\ R0 (update _ _ _) _ _ =>
            apply same_state; [oksets_tac | apply (R0_update_same _ _ _ _ _ _ _ HR Hl); flag_tac]
        | |- _ /\ R0 (remove _ _) _ _ =>
            apply same_state; [oksets_tac |
              eapply R0_finish; [apply (R0_update_same _ _ _ _ _ _ GSnap HR Hl); flag_tac|exact Hnd|exact Hl]]
        end.
  Qed.

  Lemma R_COW_init : R_COW (cow_init items, g0_COW) a0.
  Proof.
    split; [exists []; reflexivity|]. cbn [fst snd cow_init sys_init s_thr]. constructor; cbn.
    - nlia.
    - intros t m. now rewrite andb_false_r.
    - reflexivity.
    - intros t o p H. discriminate H.
    - now left.
    - intros t o p H. discriminate H.
    - intros t x H. discriminate H.
  Qed.

  (* every access of the trace is an instance of a row of cow_table *)
  Lemma emit_instances_COW x e : Forall (fun ev => instance_b cow_table (act ev) = true) (emit_COW x e).
  Proof.
    destruct e as [t o|t]; cbn [emit_COW]; [constructor|].
    destruct (lookup t (s_thr (fst x))) as [[o p]|]; [|constructor].
    destruct p; cbn [acts_COW map]; repeat constructor.
  Qed.

  Theorem cow_trace_drf_lemma evs c :
    exec cow_step (cow_init items) evs = Some c ->
    wf (cow_trace items evs) /\ instances_of cow_table (cow_trace items evs) /\ ~ race (cow_trace items evs).
  Proof.
    intros Hex. destruct (pstep_exec _ _ _ cow_step gstep_COW evs _ g0_COW _ Hex) as [g' Hex'].
    destruct (model_trace_drf dsc_COW _ _ cow_pstep emit_COW R_COW cow_Hstep2 _ evs _ R_COW_init Hex') as [Hwf Hno].
    split; [exact Hwf|]. split; [|exact Hno].
    apply instances_of_forall. apply trace_forall. exact emit_instances_COW.
  Qed.
End Items.

(* ====================== coverage of the footprint table ====================== *)
(* the instance number of a location is a ghost of the bridge: the table knows fields only *)
Definition erase_inst (b : action) : action :=
  match b with
  | Read x => Read (lname (fst x)) | Write x => Write (lname (fst x))
  | ARead x => ARead (lname (fst x)) | AWrite x => AWrite (lname (fst x)) | ARmw x => ARmw (lname (fst x))
  | _ => b
  end.
Definition acts0_COW (p : cow_pc) : list action := map erase_inst (acts_COW g0_COW 0 p).

(* the footprint tool normalises `for k, v := range e` to "for range e" *)
Definition alias_stmt_COW (p : cow_pc) : list string :=
  match p with
  | DFor _ _ => ["for range a.vals"]
  | RFor => ["for range a.snapshot()"]
  | _ => []
  end.
Definition rstmts_of_pc_COW (p : cow_pc) : list string := rstmt_of_pc_COW p :: alias_stmt_COW p.

(* what the statement at p contributes: its own step; for `for ... range a.snapshot()` also the step that reads
   the iteration's element (RFn); for a `defer a.mutex.Unlock()` the Unlock that the returns emit *)
Definition cover_acts_COW (p : cow_pc) : list action :=
  (acts0_COW p ++
   match p with
   | RFor => acts0_COW (RFn [] 0 [])
   | SnDefer | ADefer | BDefer | CDefer | DDefer | EDefer => [Rel MUn Excl]
   | _ => []
   end).

Lemma acts_cover_table_COW :
  forallb (fun x => let '(o, p) := x in
     forallb (fun st => forallb (fun b => action_inb b (cover_acts_COW p))
                                (stmt_actions cow_table (func_of_pc_COW o p) st))
             (rstmts_of_pc_COW p)) all_opcs_COW = true.
Proof. vm_compute. reflexivity. Qed.

(* with the two aliases every row of the table is the statement of some (operation, pc) *)
Definition keys2_COW : list (string * string) :=
  flat_map (fun x => map (fun st => (func_of_pc_COW (fst x) (snd x), st)) (rstmts_of_pc_COW (snd x))) all_opcs_COW.
Lemma all_rows_matched_COW :
  filter (fun r => negb (existsb (fun k => C15Bridge.row_is (fst k) (snd k) r) keys2_COW)) cow_table = [].
Proof. vm_compute. reflexivity. Qed.

(* ====================== non-vacuity: a concrete two-thread run ====================== *)
(* thread 1: Append(5) on the list [1], run to completion; then thread 2: Get(1) *)
Definition cow_example_evs : list (sys_ev ls_op) :=
  [ECall 1 (LAppend [5%Z])] ++ repeat (EStep 1) 8 ++ [ECall 2 (LGet 1%Z)] ++ repeat (EStep 2) 7.

Lemma cow_example_trace_eq :
  cow_trace [1%Z] cow_example_evs =
  [ mkEv 1 (Read MUn); mkEv 1 (Acq MUn Excl); mkEv 1 (Read MUn); mkEv 1 (Read VALSn);
    mkEv 1 (Write (ARRn 1)); mkEv 1 (Read VALSn); mkEv 1 (Read (ARRn 0)); mkEv 1 (Write (ARRn 1));
    mkEv 1 (Read (ARRn 1)); mkEv 1 (Write (ARRn 1)); mkEv 1 (Write VALSn); mkEv 1 (Rel MUn Excl);
    mkEv 2 (Read MUn); mkEv 2 (Acq MUn Excl); mkEv 2 (Read MUn); mkEv 2 (Read VALSn);
    mkEv 2 (Rel MUn Excl); mkEv 2 (Read (ARRn 1)) ].
Proof. vm_compute. reflexivity. Qed.

(* the writer's last write of the new array (index 9) and its assignment of the field (10) happen-before
   the reader's read of the field (15) and of the element (17): program order, Unlock (11) -> Lock (13) *)
Lemma cow_example_lemma :
  let tr := cow_trace [1%Z] cow_example_evs in
  (exists c, exec cow_step (cow_init [1%Z]) cow_example_evs = Some c /\ s_thr c = []) /\
  ev_at tr 9 (mkEv 1 (Write (ARRn 1))) /\ ev_at tr 17 (mkEv 2 (Read (ARRn 1))) /\ hb tr 9 17 /\
  ev_at tr 10 (mkEv 1 (Write VALSn)) /\ ev_at tr 15 (mkEv 2 (Read VALSn)) /\ hb tr 10 15 /\
  wf tr /\ ~ race tr.
Proof.
  cbn zeta.
  assert (Hex : exists c, exec cow_step (cow_init [1%Z]) cow_example_evs = Some c /\ s_thr c = []).
  { eexists. split; [vm_compute; reflexivity|reflexivity]. }
  split; [exact Hex|]. destruct Hex as (c & Hex & _).
  destruct (cow_trace_drf_lemma [1%Z] _ _ Hex) as (Hwf & _ & Hno).
  rewrite cow_example_trace_eq in *.
  assert (Hsw : forall e, e = cow_trace [1%Z] cow_example_evs -> hb e 11 13).
  { intros e ->. rewrite cow_example_trace_eq. apply hb_sw. split; [lia|].
    exists (mkEv 1 (Rel MUn Excl)), (mkEv 2 (Acq MUn Excl)). repeat split; try reflexivity. now left. }
  specialize (Hsw _ eq_refl). rewrite cow_example_trace_eq in Hsw.
  assert (Hpo : forall i j a b, i < j -> ev_at (cow_trace [1%Z] cow_example_evs) i a ->
                  ev_at (cow_trace [1%Z] cow_example_evs) j b -> HB.tid a = HB.tid b ->
                  hb (cow_trace [1%Z] cow_example_evs) i j).
  { intros i j a b Hlt Ha Hb Ht. apply hb_po. eapply po_intro; eassumption. }
  rewrite cow_example_trace_eq in Hpo.
  split; [reflexivity|]. split; [reflexivity|]. split.
  { apply hb_trans with 11; [eapply Hpo; [|reflexivity|reflexivity|reflexivity]; lia|].
    apply hb_trans with 13; [exact Hsw|]. eapply Hpo; [|reflexivity|reflexivity|reflexivity]; lia. }
  split; [reflexivity|]. split; [reflexivity|]. split.
  { apply hb_trans with 11; [eapply Hpo; [|reflexivity|reflexivity|reflexivity]; lia|].
    apply hb_trans with 13; [exact Hsw|]. eapply Hpo; [|reflexivity|reflexivity|reflexivity]; lia. }
  split; assumption.
Qed.
