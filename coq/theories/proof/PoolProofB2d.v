(* PoolModel (pool.OnDemandBlockTaskPool), proofs for C12 / liveness side of C10 - B2d: life-cycle facts (state word, closed flag, interrupt context, history flags): definitions,
   the invariant record (linear facts only), and the facts after a step in terms of the stepping thread *)
From Ekit Require Import Common Conc PoolModel PoolProofB0 PoolProofB1.
From Coq Require Import ZifyBool Arith PeanoNat.

Definition downb (st : pstate) : bool := match st with SClosing | SStopped => true | _ => false end.
Definition qempty (q : list task) : bool := match q with [] => true | _ => false end.
Lemma qempty_snoc q k : qempty (q ++ [k]) = false.
Proof. destruct q; reflexivity. Qed.

Definition g_hst (p : ppc) : Z :=
  match p with StN | NcN | NcAllow | NcNeed | NcIf1 | NcIf2 | NcAddNeed | NcAddAllow | NcRet | StInc | TiLock | TiAdd
  | TiUnlock | StLoop | StGo | StCasRun => 1 | _ => 0 end.
Definition g_hss (p : ppc) : Z :=
  match p with
  | TsDefer | TsSelect | TsCaseCtx | TsRetCtx | TsCaseSend | TsIfCreate | TsInc | TsId | TsGo | TsRetT
  | TsCaseDefault | TsRetF0 | AlRLock | AlDefer | AlRate | AlRet | SiLock | SiAdd | SiUnlock => 1
  | _ => 0 end.
Definition g_crea (p : ppc) : Z :=
  match p with AlRLock | AlDefer | AlRate | AlRet | TsInc | SiLock | SiAdd | SiUnlock | TsId | TsGo => 1 | _ => 0 end.
Definition g_shclose (p : ppc) : Z := match p with ShClose => 1 | _ => 0 end.
Definition g_snclose (p : ppc) : Z := match p with SnClose => 1 | _ => 0 end.
Definition g_snpre (p : ppc) : Z := match p with SnClose | SnCancel => 1 | _ => 0 end.
Definition g_sn (p : ppc) : Z := match p with SnClose | SnCancel | SnMake | SnRange | SnAppend | SnRet => 1 | _ => 0 end.
Definition g_snc (p : ppc) : Z := match p with SnCancel | SnMake | SnRange | SnAppend | SnRet => 1 | _ => 0 end.
Definition g_snr (p : ppc) : Z := match p with SnMake | SnRange | SnAppend | SnRet => 1 | _ => 0 end.
Definition g_snd (p : ppc) : Z := match p with SnClose | SnCancel | SnMake | SnRange | SnAppend => 1 | _ => 0 end.
Definition g_int (p : ppc) : Z := match p with WCaseInt | WIntDec | WIdLock | WIdSub | WIdUnlock | WIntRet => 1 | _ => 0 end.
Definition g_canc (p : ppc) : Z := match p with WTmCancel | WClCancel => 1 | _ => 0 end.

Definition hss_bad (pv : pstate) (x : thr) : Z := if pstate_eqb (want x) pv then 0 else g_hss (pc x).
Definition crea_bad (x : thr) : Z := if l_second x then 0 else g_crea (pc x).
Arguments hss_bad pv x /.
Arguments crea_bad x /.

Ltac nn_pc := let p := fresh "p" in intros p; destruct p; cbn; lia.
Lemma g_hst_nn p : 0 <= g_hst p. Proof. revert p; nn_pc. Qed.
Lemma g_hss_nn p : 0 <= g_hss p. Proof. revert p; nn_pc. Qed.
Lemma g_crea_nn p : 0 <= g_crea p. Proof. revert p; nn_pc. Qed.
Lemma g_shclose_nn p : 0 <= g_shclose p. Proof. revert p; nn_pc. Qed.
Lemma g_snclose_nn p : 0 <= g_snclose p. Proof. revert p; nn_pc. Qed.
Lemma g_snpre_nn p : 0 <= g_snpre p. Proof. revert p; nn_pc. Qed.
Lemma g_sn_nn p : 0 <= g_sn p. Proof. revert p; nn_pc. Qed.
Lemma g_snc_nn p : 0 <= g_snc p. Proof. revert p; nn_pc. Qed.
Lemma g_snr_nn p : 0 <= g_snr p. Proof. revert p; nn_pc. Qed.
Lemma g_snd_nn p : 0 <= g_snd p. Proof. revert p; nn_pc. Qed.
Lemma g_int_nn p : 0 <= g_int p. Proof. revert p; nn_pc. Qed.
Lemma g_canc_nn p : 0 <= g_canc p. Proof. revert p; nn_pc. Qed.
Lemma hss_bad_nn pv x : 0 <= hss_bad pv x.
Proof. unfold hss_bad. destruct (pstate_eqb (want x) pv); [lia|apply g_hss_nn]. Qed.
Lemma crea_bad_nn x : 0 <= crea_bad x.
Proof. unfold crea_bad. destruct (l_second x); [lia|apply g_crea_nn]. Qed.
Lemma hss_bad_le pv x : hss_bad pv x <= pcf g_hsl x.
Proof. cbn [hss_bad pcf]. destruct (pstate_eqb (want x) pv); destruct (pc x); cbn; lia. Qed.
Lemma hst_le x : pcf g_hst x <= pcf g_hsl x.
Proof. cbn [pcf]. destruct (pc x); cbn; lia. Qed.

(* wake-ups only move parked workers to the head of a select case *)
Ltac wake_ok_tac :=
  let w := fresh "w" in let x := fresh "x" in let Hp := fresh "Hp" in
  intros w; destruct w as [|? ?| |]; cbn [wake_ok]; try exact I; intros x Hp;
  destruct x as [p ? ? ? ? ? ? ? ? ? ? ? ? ? ? ? ? ? ?]; unfold is_parked in Hp; cbn [pc] in Hp;
  destruct p; try discriminate Hp; reflexivity.
Lemma hss_bad_wake pv : forall w, wake_ok (hss_bad pv) w. Proof. wake_ok_tac. Qed.
Lemma crea_bad_wake : forall w, wake_ok crea_bad w. Proof. wake_ok_tac. Qed.

Definition eqst (a b : pstate) : Z := bz (pstate_eqb a b).
Arguments eqst a b /.

Record invP (c : pcfg) : Prop := {
  p_closed : bz (s_closed (c_sh c)) <= bz (downb (s_state (c_sh c)));
  p_ictx : bz (s_ictx (c_sh c)) <= eqst (s_state (c_sh c)) SStopped;
  p_now : bz (g_now (c_gh c)) <= eqst (s_state (c_sh c)) SStopped;
  p_grace1 : bz (g_grace (c_gh c)) <= eqst (s_state (c_sh c)) SStopped;
  p_grace2 : bz (g_grace (c_gh c)) <= bz (s_ictx (c_sh c));
  p_grace3 : bz (g_grace (c_gh c)) <= bz (g_shut (c_gh c));
  p_shut : bz (g_shut (c_gh c)) <= bz (downb (s_state (c_sh c)));
  p_excl : bz (g_now (c_gh c)) + bz (g_shut (c_gh c)) <= 1;
  p_closing : eqst (s_state (c_sh c)) SClosing <= bz (g_shut (c_gh c));
  p_stopped : eqst (s_state (c_sh c)) SStopped <= bz (g_now (c_gh c)) + bz (g_shut (c_gh c));
  p_shclose1 : tsum (pcf g_shclose) (c_thr c) <= bz (downb (s_state (c_sh c)));
  p_shclose2 : tsum (pcf g_shclose) (c_thr c) <= bz (g_shut (c_gh c));
  p_sn1 : tsum (pcf g_sn) (c_thr c) <= eqst (s_state (c_sh c)) SStopped;
  p_sn2 : tsum (pcf g_sn) (c_thr c) <= bz (g_now (c_gh c));
  p_snc : tsum (pcf g_snc) (c_thr c) <= bz (s_closed (c_sh c));
  p_snr : tsum (pcf g_snr) (c_thr c) <= bz (s_ictx (c_sh c));
  p_canc1 : tsum (pcf g_canc) (c_thr c) <= eqst (s_state (c_sh c)) SStopped;
  p_canc2 : tsum (pcf g_canc) (c_thr c) <= bz (g_shut (c_gh c));
  p_shut_closed : bz (g_shut (c_gh c)) <= bz (s_closed (c_sh c)) + tsum (pcf g_shclose) (c_thr c);
  p_now_closed : bz (g_now (c_gh c)) <= bz (s_closed (c_sh c)) + tsum (pcf g_snclose) (c_thr c);
  p_closed_eq : bz (s_closed (c_sh c)) + tsum (pcf g_shclose) (c_thr c) + tsum (pcf g_snclose) (c_thr c) =
                bz (g_shut (c_gh c)) + bz (g_now (c_gh c));
  p_now_ictx : bz (g_now (c_gh c)) <= bz (s_ictx (c_sh c)) + tsum (pcf g_snpre) (c_thr c);
  p_graceful : eqst (s_state (c_sh c)) SStopped + bz (g_shut (c_gh c)) - 1 <=
               bz (g_grace (c_gh c)) + tsum (pcf g_canc) (c_thr c);
  p_now_q : bz (g_now (c_gh c)) <= bz (qempty (s_q (c_sh c))) + tsum (pcf g_snd) (c_thr c);
  p_hss : tsum (hss_bad (s_prev (c_sh c))) (c_thr c) = 0;
  p_hst : tsum (pcf g_hst) (c_thr c) <= eqst (s_prev (c_sh c)) SCreated;
  p_hst_began : tsum (pcf g_hst) (c_thr c) <= bz (g_began (c_gh c));
  p_began1 : bz (g_began (c_gh c)) + eqst (s_state (c_sh c)) SCreated <= 1;
  p_began2 : bz (g_began (c_gh c)) + eqst (s_state (c_sh c)) SLocked + eqst (s_prev (c_sh c)) SCreated - 2 <=
             tsum (pcf g_hst) (c_thr c);
  p_nbegan1 : 1 - bz (g_began (c_gh c)) <= eqst (s_state (c_sh c)) SCreated + eqst (s_state (c_sh c)) SLocked;
  p_nbegan2 : 1 - bz (g_began (c_gh c)) <= eqst (s_prev (c_sh c)) SCreated;
  p_crea : tsum crea_bad (c_thr c) = 0;
  p_down_began : bz (downb (s_state (c_sh c))) <= bz (g_began (c_gh c))
}.

Lemma invP_init P : invP (pinit P).
Proof. constructor; cbn; lia. Qed.

Definition invP_G (P : params) (g : ghost) (l : list (tid * thr)) (th : thr) (o : pout) : Prop :=
  ((bz (s_closed (o_sh o)) <= bz (downb (s_state (o_sh o)))) /\
   (bz (s_ictx (o_sh o)) <= eqst (s_state (o_sh o)) SStopped) /\
   (bz (g_now (apply_gevs g (o_gev o))) <= eqst (s_state (o_sh o)) SStopped) /\
   (bz (g_grace (apply_gevs g (o_gev o))) <= eqst (s_state (o_sh o)) SStopped) /\
   (bz (g_grace (apply_gevs g (o_gev o))) <= bz (s_ictx (o_sh o))) /\
   (bz (g_grace (apply_gevs g (o_gev o))) <= bz (g_shut (apply_gevs g (o_gev o)))) /\
   (bz (g_shut (apply_gevs g (o_gev o))) <= bz (downb (s_state (o_sh o)))) /\
   (bz (g_now (apply_gevs g (o_gev o))) + bz (g_shut (apply_gevs g (o_gev o))) <= 1) /\
   (eqst (s_state (o_sh o)) SClosing <= bz (g_shut (apply_gevs g (o_gev o)))) /\
   (eqst (s_state (o_sh o)) SStopped <= bz (g_now (apply_gevs g (o_gev o))) + bz (g_shut (apply_gevs g (o_gev o)))) /\
   (upd (tsum (pcf g_shclose) l) ((pcf g_shclose) th) (oz (pcf g_shclose) (o_th o)) (oz (pcf g_shclose) (o_spawn o)) <= bz (downb (s_state (o_sh o)))) /\
   (upd (tsum (pcf g_shclose) l) ((pcf g_shclose) th) (oz (pcf g_shclose) (o_th o)) (oz (pcf g_shclose) (o_spawn o)) <= bz (g_shut (apply_gevs g (o_gev o)))) /\
   (upd (tsum (pcf g_sn) l) ((pcf g_sn) th) (oz (pcf g_sn) (o_th o)) (oz (pcf g_sn) (o_spawn o)) <= eqst (s_state (o_sh o)) SStopped) /\
   (upd (tsum (pcf g_sn) l) ((pcf g_sn) th) (oz (pcf g_sn) (o_th o)) (oz (pcf g_sn) (o_spawn o)) <= bz (g_now (apply_gevs g (o_gev o)))) /\
   (upd (tsum (pcf g_snc) l) ((pcf g_snc) th) (oz (pcf g_snc) (o_th o)) (oz (pcf g_snc) (o_spawn o)) <= bz (s_closed (o_sh o))) /\
   (upd (tsum (pcf g_snr) l) ((pcf g_snr) th) (oz (pcf g_snr) (o_th o)) (oz (pcf g_snr) (o_spawn o)) <= bz (s_ictx (o_sh o))) /\
   (upd (tsum (pcf g_canc) l) ((pcf g_canc) th) (oz (pcf g_canc) (o_th o)) (oz (pcf g_canc) (o_spawn o)) <= eqst (s_state (o_sh o)) SStopped) /\
   (upd (tsum (pcf g_canc) l) ((pcf g_canc) th) (oz (pcf g_canc) (o_th o)) (oz (pcf g_canc) (o_spawn o)) <= bz (g_shut (apply_gevs g (o_gev o)))) /\
   (bz (g_shut (apply_gevs g (o_gev o))) <= bz (s_closed (o_sh o)) + upd (tsum (pcf g_shclose) l) ((pcf g_shclose) th) (oz (pcf g_shclose) (o_th o)) (oz (pcf g_shclose) (o_spawn o))) /\
   (bz (g_now (apply_gevs g (o_gev o))) <= bz (s_closed (o_sh o)) + upd (tsum (pcf g_snclose) l) ((pcf g_snclose) th) (oz (pcf g_snclose) (o_th o)) (oz (pcf g_snclose) (o_spawn o))) /\
   (bz (s_closed (o_sh o)) + upd (tsum (pcf g_shclose) l) ((pcf g_shclose) th) (oz (pcf g_shclose) (o_th o)) (oz (pcf g_shclose) (o_spawn o)) + upd (tsum (pcf g_snclose) l) ((pcf g_snclose) th) (oz (pcf g_snclose) (o_th o)) (oz (pcf g_snclose) (o_spawn o)) = bz (g_shut (apply_gevs g (o_gev o))) + bz (g_now (apply_gevs g (o_gev o)))) /\
   (bz (g_now (apply_gevs g (o_gev o))) <= bz (s_ictx (o_sh o)) + upd (tsum (pcf g_snpre) l) ((pcf g_snpre) th) (oz (pcf g_snpre) (o_th o)) (oz (pcf g_snpre) (o_spawn o))) /\
   (eqst (s_state (o_sh o)) SStopped + bz (g_shut (apply_gevs g (o_gev o))) - 1 <= bz (g_grace (apply_gevs g (o_gev o))) + upd (tsum (pcf g_canc) l) ((pcf g_canc) th) (oz (pcf g_canc) (o_th o)) (oz (pcf g_canc) (o_spawn o))) /\
   (bz (g_now (apply_gevs g (o_gev o))) <= bz (qempty (s_q (o_sh o))) + upd (tsum (pcf g_snd) l) ((pcf g_snd) th) (oz (pcf g_snd) (o_th o)) (oz (pcf g_snd) (o_spawn o))) /\
   (upd (tsum (hss_bad (s_prev (o_sh o))) l) ((hss_bad (s_prev (o_sh o))) th) (oz (hss_bad (s_prev (o_sh o))) (o_th o)) (oz (hss_bad (s_prev (o_sh o))) (o_spawn o)) = 0) /\
   (upd (tsum (pcf g_hst) l) ((pcf g_hst) th) (oz (pcf g_hst) (o_th o)) (oz (pcf g_hst) (o_spawn o)) <= eqst (s_prev (o_sh o)) SCreated) /\
   (upd (tsum (pcf g_hst) l) ((pcf g_hst) th) (oz (pcf g_hst) (o_th o)) (oz (pcf g_hst) (o_spawn o)) <= bz (g_began (apply_gevs g (o_gev o)))) /\
   (bz (g_began (apply_gevs g (o_gev o))) + eqst (s_state (o_sh o)) SCreated <= 1) /\
   (bz (g_began (apply_gevs g (o_gev o))) + eqst (s_state (o_sh o)) SLocked + eqst (s_prev (o_sh o)) SCreated - 2 <= upd (tsum (pcf g_hst) l) ((pcf g_hst) th) (oz (pcf g_hst) (o_th o)) (oz (pcf g_hst) (o_spawn o))) /\
   (1 - bz (g_began (apply_gevs g (o_gev o))) <= eqst (s_state (o_sh o)) SCreated + eqst (s_state (o_sh o)) SLocked) /\
   (1 - bz (g_began (apply_gevs g (o_gev o))) <= eqst (s_prev (o_sh o)) SCreated) /\
   (upd (tsum crea_bad l) (crea_bad th) (oz crea_bad (o_th o)) (oz crea_bad (o_spawn o)) = 0) /\
   (bz (downb (s_state (o_sh o))) <= bz (g_began (apply_gevs g (o_gev o))))).

Lemma invP_of_G c t th o c' obs :
  lookup t (c_thr c) = Some th -> apply_out c t o = Some (c', obs) ->
  invP_G (c_par c) (c_gh c) (c_thr c) th o -> invP c'.
Proof.
  intros Hl Ha G. unfold invP_G in G. destruct (apply_out_fields _ _ _ _ _ Ha) as (Hp & Hsh & Hgh & Hnt).
  destruct G as (G0 & G1 & G2 & G3 & G4 & G5 & G6 & G7 & G8 & G9 & G10 & G11 & G12 & G13 & G14 & G15 & G16 & G17 & G18 & G19 & G20 & G21 & G22 & G23 & G24 & G25 & G26 & G27 & G28 & G29 & G30 & G31 & G32).
  constructor; rewrite ?Hp, ?Hsh, ?Hgh;
    rewrite ?(tsum_step (pcf g_shclose) c t th o c' obs Hl ((pcf_wake_ok g_shclose eq_refl eq_refl) (o_wake o)) Ha);
    rewrite ?(tsum_step (pcf g_sn) c t th o c' obs Hl ((pcf_wake_ok g_sn eq_refl eq_refl) (o_wake o)) Ha);
    rewrite ?(tsum_step (pcf g_snc) c t th o c' obs Hl ((pcf_wake_ok g_snc eq_refl eq_refl) (o_wake o)) Ha);
    rewrite ?(tsum_step (pcf g_snr) c t th o c' obs Hl ((pcf_wake_ok g_snr eq_refl eq_refl) (o_wake o)) Ha);
    rewrite ?(tsum_step (pcf g_canc) c t th o c' obs Hl ((pcf_wake_ok g_canc eq_refl eq_refl) (o_wake o)) Ha);
    rewrite ?(tsum_step (pcf g_snclose) c t th o c' obs Hl ((pcf_wake_ok g_snclose eq_refl eq_refl) (o_wake o)) Ha);
    rewrite ?(tsum_step (pcf g_snpre) c t th o c' obs Hl ((pcf_wake_ok g_snpre eq_refl eq_refl) (o_wake o)) Ha);
    rewrite ?(tsum_step (pcf g_snd) c t th o c' obs Hl ((pcf_wake_ok g_snd eq_refl eq_refl) (o_wake o)) Ha);
    rewrite ?(tsum_step (hss_bad (s_prev (o_sh o))) c t th o c' obs Hl ((hss_bad_wake (s_prev (o_sh o))) (o_wake o)) Ha);
    rewrite ?(tsum_step (pcf g_hst) c t th o c' obs Hl ((pcf_wake_ok g_hst eq_refl eq_refl) (o_wake o)) Ha);
    rewrite ?(tsum_step crea_bad c t th o c' obs Hl (crea_bad_wake (o_wake o)) Ha);
    assumption.
Qed.
