(* C15BridgeABQ2.v — the trace-level COMPOSITION for queue.ConcurrentArrayBlockingQueue (model ABQModel.v).

   Every AStep of a model run is mapped to the HB events of the statement it executes (plain reads /
   writes and Lock / RLock of c.mutex, transcribed from the Go statements of Enqueue, Dequeue, Len,
   AsSlice; the deferred Unlock / RUnlock is emitted at the return statements; semaphore operations are
   not emitted: fewer happens-before edges = conservative).  acts_cover_table_ABQ: the emitted actions
   cover the table's rows of each statement.  The model's RWMutex has no owner: the model-level lock
   state is read off the program counters (in_wcs / in_rcs); the proved invariant abq_inv ties it to the
   lock words; a Release wakes only goroutines parked inside Acquire (waiters_ok), which are outside
   every section; the run-time panics of the model (index out of range inside a section, deferred
   unlock) are unreachable (abq_no_panic_step).  For EVERY event list and capacity >= 1 the resulting
   execution is well-formed (HB.wf), respects the guards of abq_table (HB.holds evaluated on the trace)
   and hence has no data race. *)
From Coq Require Import List String Bool Arith Lia ZArith.
From Ekit Require Import Common HB FootprintModel FootprintProof C15Bridge Conc ABQModel ABQProof ABQProof2 ABQProof3 C15BridgeABQ.
Import ListNotations.
Open Scope string_scope.

Definition nma (f : string) : name := lname (TY_ABQ ++ "." ++ f).
Definition lk_ABQ : name := lname MU_ABQ.

(* memory accesses and lock operations of the statement at p, in program order (semaphore operations
   are not emitted: conservative); the deferred Unlock / RUnlock is emitted at the return statements *)
Definition acts_ABQ (p : abq_pc) : list action :=
  match p with
  | EAcq | ERelE | DRelE => [Read (nma "enqueueCap")]
  | DAcq | DRelD | ERelD => [Read (nma "dequeueCap")]
  | ELock | DLock => [Read (nma "mutex"); Acq lk_ABQ Excl]
  | EDefer | DDefer | LDefer | SDefer => [Read (nma "mutex")]
  | ERetCtx | ERetNil | DRetCtx | DRetOk => [Rel lk_ABQ Excl]
  | EWrite => [Read (nma "data"); Read (nma "tail"); Write (nma "data[]")]
  | ETailInc => [Read (nma "tail"); Write (nma "tail")]
  | ECountInc | DCountDec => [Read (nma "count"); Write (nma "count")]
  | EIfTail => [Read (nma "tail"); Read (nma "data")]
  | ETailZero => [Write (nma "tail")]
  | DRead => [Read (nma "data"); Read (nma "head"); Read (nma "data[]")]
  | DZero => [Read (nma "data"); Read (nma "head"); Read (nma "zero"); Write (nma "data[]")]
  | DHeadInc => [Read (nma "head"); Write (nma "head")]
  | DIfHead => [Read (nma "head"); Read (nma "data")]
  | DHeadZero => [Write (nma "head")]
  | LRLock | SRLock => [Read (nma "mutex"); Acq lk_ABQ Shared]
  | LRet => [Read (nma "count"); Rel lk_ABQ Shared]
  | SMake | SFor | SCntInc => [Read (nma "count")]
  | SCap => [Read (nma "data")]
  | SIndex => [Read (nma "head")]
  | SAppend => [Read (nma "data"); Read (nma "data[]")]
  | ABQModel.SRet => [Rel lk_ABQ Shared]
  | _ => []
  end.

Definition emit_ABQ (c : abq_cfg) (e : abq_ev) : list event :=
  match e with
  | AStep t => match lookup t (q_thr c) with
               | Some th => map (mkEv t) (acts_ABQ (t_pc th))
               | None => []
               end
  | _ => []
  end.

Definition abq_trace (cap : Z) (evs : list abq_ev) : execution :=
  trace abq_cfg abq_ev abq_next emit_ABQ (abq_init cap) evs.

Definition eff_ABQ (th : abq_thr) : bool * bool * option mode :=
  match t_pc th with
  | ELock | DLock => (true, false, Some Excl)
  | LRLock | SRLock => (false, true, Some Shared)
  | ERetCtx | ERetNil | DRetCtx | DRetOk | LRet | ABQModel.SRet => (false, false, None)
  | _ => (in_wcs th, in_rcs th, None)
  end.

Lemma acts_sim_ABQ th :
  sim MU_ABQ (rows_of_func abq_table (func_of_pc_ABQ (t_pc th))) (in_wcs th) (in_rcs th) false None (acts_ABQ (t_pc th))
  = Some (eff_ABQ th).
Proof. unfold eff_ABQ, in_wcs, in_rcs. destruct (t_pc th); vm_compute; reflexivity. Qed.

Lemma acts_cover_table_ABQ :
  forallb (fun p => match p with
     | EDefer | DDefer | LDefer | SDefer => true      (* defer statements: the lock operation is emitted at the return *)
     | _ => forallb (fun a => action_inb a (acts_ABQ p))
                    (stmt_actions abq_table (func_of_pc_ABQ p) (rstmt_of_pc_ABQ p))
     end) all_pcs_ABQ = true.
Proof. vm_compute. reflexivity. Qed.

(* ---------- the model-level lock state: read off the program counters ---------- *)
Definition holdA (thr : list (Conc.tid * abq_thr)) : lstate :=
  fun t m => match lookup t thr with
             | Some th => match m with Excl => in_wcs th | Shared => in_rcs th end
             | None => false
             end.

Lemma lsA_trans (a b c : lstate) : ls_eq a b -> ls_eq b c -> ls_eq a c.
Proof. intros H1 H2 t m. now rewrite H1. Qed.
Lemma lsA_sym (a b : lstate) : ls_eq a b -> ls_eq b a.
Proof. intros H t m. now rewrite H. Qed.
Lemma set_ls_ext (h h' : lstate) t x s : ls_eq h h' -> ls_eq (set_ls h t x s) (set_ls h' t x s).
Proof. intros H t' m. unfold set_ls. destruct (Nat.eqb t' t); [reflexivity|apply H]. Qed.

Lemma holdA_update t th th' thr :
  lookup t thr = Some th ->
  ls_eq (holdA (update t th' thr)) (set_ls (holdA thr) t (in_wcs th') (in_rcs th')).
Proof.
  intros Hl t' m. unfold holdA, set_ls. destruct (Nat.eqb t' t) eqn:E.
  - apply Nat.eqb_eq in E. subst t'. rewrite (lookup_update_same _ _ _ _ _ Hl). reflexivity.
  - apply Nat.eqb_neq in E. rewrite (lookup_update_other _ _ _ _ _ E). reflexivity.
Qed.

Lemma holdA_remove t thr :
  NoDup (tids thr) -> ls_eq (holdA (remove t thr)) (set_ls (holdA thr) t false false).
Proof.
  intros Hnd t' m. unfold holdA, set_ls. destruct (Nat.eqb t' t) eqn:E.
  - apply Nat.eqb_eq in E. subst t'. rewrite (abq_lookup_remove_same _ _ Hnd). destruct m; reflexivity.
  - apply Nat.eqb_neq in E. rewrite (abq_lookup_remove_other _ _ _ E). reflexivity.
Qed.

(* waking semaphore waiters: they were parked inside Acquire (outside every section) and arrive at
   the statement after it (outside every section) *)
Definition outside (th : abq_thr) : Prop := in_wcs th = false /\ in_rcs th = false.

Lemma holdA_wake p ws : forall thr,
  (p = EIfErr \/ p = DIfErr) ->
  (forall w thw, In w ws -> lookup w thr = Some thw -> outside thw) ->
  ls_eq (holdA (wake p ws thr)) (holdA thr).
Proof.
  induction ws as [|w r IH]; intros thr Hp Hpk; cbn [wake]; [intros t m; reflexivity|].
  destruct (lookup w thr) as [thw|] eqn:Hw.
  - eapply lsA_trans; [apply IH; [exact Hp|]|].
    + intros w2 th2 Hin Hl2. destruct (Nat.eq_dec w2 w) as [->|Hne].
      * rewrite (lookup_update_same _ _ _ _ _ Hw) in Hl2. injection Hl2 as <-.
        destruct Hp as [-> | ->]; split; reflexivity.
      * rewrite (lookup_update_other _ _ _ _ _ Hne) in Hl2. apply (Hpk w2 th2); [now right|exact Hl2].
    + eapply lsA_trans; [apply (holdA_update w thw _ thr Hw)|].
      destruct (Hpk w thw (or_introl eq_refl) Hw) as [H1 H2].
      intros t' m. unfold set_ls, holdA. destruct (Nat.eqb t' w) eqn:E; [|reflexivity].
      apply Nat.eqb_eq in E. subst t'. rewrite Hw.
      destruct Hp as [-> | ->]; destruct m; cbn; congruence.
  - apply IH; [exact Hp|]. intros w2 th2 Hin. apply Hpk. now right.
Qed.

Lemma lookup_wake_notin p ws : forall (thr : list (Conc.tid * abq_thr)) t,
  ~ In t ws -> lookup t (wake p ws thr) = lookup t thr.
Proof.
  induction ws as [|w r IH]; intros thr t Hn; cbn [wake]; [reflexivity|].
  assert (Hne : t <> w) by (intros ->; apply Hn; now left).
  assert (Hn' : ~ In t r) by (intros H; apply Hn; now right).
  destruct (lookup w thr) as [thw|]; rewrite (IH _ _ Hn'); [apply lookup_update_other; exact Hne|reflexivity].
Qed.

Lemma sem_notify_incl size : forall ws cur c' rem wk,
  sem_notify size cur ws = (c', rem, wk) -> incl wk ws.
Proof.
  induction ws as [|w r IH]; intros cur c' rem wk H; cbn [sem_notify] in H.
  - injection H as _ _ <-. intros x [].
  - destruct (size - cur <? 1)%Z; [injection H as _ _ <-; intros x []|].
    destruct (sem_notify size (cur + 1) r) as [[c2 rem2] wk2] eqn:E. injection H as _ _ <-.
    intros x [<-|Hx]; [now left|right; eapply IH; eassumption].
Qed.

Lemma sem_release_incl s s' wk : sem_release s = Some (s', wk) -> incl wk (s_wait s).
Proof.
  unfold sem_release. destruct (s_cur s - 1 <? 0)%Z; [discriminate|].
  destruct (sem_notify (s_size s) (s_cur s - 1) (s_wait s)) as [[c2 rem2] wk2] eqn:E.
  intros H. injection H as _ <-. eapply sem_notify_incl; eassumption.
Qed.

(* waiters of a semaphore are parked inside its Acquire: outside every section, and not the stepping thread *)
Lemma waiters_outside p ws (thr : list (Conc.tid * abq_thr)) :
  (p = EPark \/ p = DPark) -> waiters_ok p ws thr ->
  forall w thw, In w ws -> lookup w thr = Some thw -> outside thw.
Proof.
  intros Hp Hw w thw Hin Hl. destruct (proj1 (Hw w) Hin) as (th2 & Hl2 & Hpc).
  rewrite Hl in Hl2. injection Hl2 as <-. unfold outside, in_wcs, in_rcs. rewrite Hpc.
  destruct Hp as [-> | ->]; split; reflexivity.
Qed.

Lemma waiters_not_self p ws (thr : list (Conc.tid * abq_thr)) t th :
  waiters_ok p ws thr -> lookup t thr = Some th -> t_pc th <> p -> ~ In t ws.
Proof.
  intros Hw Hl Hne Hin. destruct (proj1 (Hw t) Hin) as (th2 & Hl2 & Hpc). congruence.
Qed.

Lemma free_excl_ABQ cap c :
  abq_inv cap c -> q_w c = false -> q_r c = 0%Z -> free (holdA (q_thr c)) Excl.
Proof.
  intros I Hw Hr. pose proof (i_w cap c I) as Iw. pose proof (i_r cap c I) as Ir. rewrite Hw in Iw. rewrite Hr in Ir.
  split.
  - intros t'. unfold holdA. destruct (lookup t' (q_thr c)) as [th|] eqn:E; [|reflexivity].
    destruct (in_wcs th) eqn:Ew; [|reflexivity]. pose proof (count_pos_lookup in_wcs _ _ _ E Ew). lia.
  - intros _ t'. unfold holdA. destruct (lookup t' (q_thr c)) as [th|] eqn:E; [|reflexivity].
    destruct (in_rcs th) eqn:Ew; [|reflexivity]. pose proof (count_pos_lookup in_rcs _ _ _ E Ew). lia.
Qed.

Lemma free_shared_ABQ cap c : abq_inv cap c -> q_w c = false -> free (holdA (q_thr c)) Shared.
Proof.
  intros I Hw. pose proof (i_w cap c I) as Iw. rewrite Hw in Iw. split; [|discriminate].
  intros t'. unfold holdA. destruct (lookup t' (q_thr c)) as [th|] eqn:E; [|reflexivity].
  destruct (in_wcs th) eqn:Ew; [|reflexivity]. pose proof (count_pos_lookup in_wcs _ _ _ E Ew). lia.
Qed.

Lemma step_t_ABQ cap c t th thr' p :
  abq_inv cap c -> lookup t (q_thr c) = Some th -> t_pc th = p ->
  (forall m, snd (eff_ABQ th) = Some m -> free (holdA (q_thr c)) m) ->
  ls_eq (holdA thr') (set_ls (holdA (q_thr c)) t (fst (fst (eff_ABQ th))) (snd (fst (eff_ABQ th)))) ->
  all_ok MU_ABQ abq_table (holdA (q_thr c)) (map (mkEv t) (acts_ABQ p)) /\
  ls_eq (upds MU_ABQ (holdA (q_thr c)) (map (mkEv t) (acts_ABQ p))) (holdA thr').
Proof.
  intros I Hl <- Hfree Heq. pose proof (acts_sim_ABQ th) as Hsim.
  assert (Hx : holdA (q_thr c) t Excl = in_wcs th) by (unfold holdA; now rewrite Hl).
  assert (Hs : holdA (q_thr c) t Shared = in_rcs th) by (unfold holdA; now rewrite Hl).
  rewrite <- Hx, <- Hs in Hsim.
  destruct (sim_sound MU_ABQ abq_table _ t _ (rows_of_func_incl _ _) _ _ _ _ Hsim) as [Hok Hu].
  - intros _ m Hm. now apply Hfree.
  - split; [exact Hok|]. eapply lsA_trans; [exact Hu|]. now apply lsA_sym.
Qed.

Lemma holdA_update_same t th th' thr :
  lookup t thr = Some th -> in_wcs th' = in_wcs th -> in_rcs th' = in_rcs th ->
  ls_eq (holdA thr) (holdA (update t th' thr)).
Proof.
  intros Hl E1 E2. apply lsA_sym. eapply lsA_trans; [apply (holdA_update t th th' thr Hl)|].
  intros t' m. unfold set_ls, holdA. destruct (Nat.eqb t' t) eqn:E; [|reflexivity].
  apply Nat.eqb_eq in E. subst t'. rewrite Hl, E1, E2. reflexivity.
Qed.

Lemma step_ok_ABQ cap c e c' :
  (1 <= cap)%Z -> abq_inv cap c -> abq_next c e = Some c' ->
  abq_inv cap c' /\ all_ok MU_ABQ abq_table (holdA (q_thr c)) (emit_ABQ c e) /\
  ls_eq (upds MU_ABQ (holdA (q_thr c)) (emit_ABQ c e)) (holdA (q_thr c')).
Proof.
  intros Hcap I Hn. split; [eapply abq_inv_next; eassumption|].
  unfold abq_next in Hn. destruct (abq_exec1 c e) as [[c2 obs]|] eqn:H; [|discriminate]. injection Hn as <-.
  pose proof (i_nodup cap c I) as Hnd.
  destruct e as [t op|t|t]; cbn [abq_exec1] in H; unfold emit_ABQ.
  - (* ACall *)
    destruct (lookup t (q_thr c)) eqn:Hl; [discriminate|]. injection H as <- _.
    split; [exact Logic.I|]. cbn [upds fold_left q_thr set_thr]. intros t' m. unfold holdA.
    rewrite abq_lookup_spawn. destruct (lookup t' (q_thr c)) eqn:E; [reflexivity|].
    destruct (Nat.eqb t' t); [|reflexivity]. destruct op, m; reflexivity.
  - (* AStep *)
    destruct (lookup t (q_thr c)) as [th|] eqn:Hl; [|discriminate].
    pose proof (abq_no_panic_step cap Hcap c t th c2 obs t I Hl H) as Hnp.
    pose proof (i_enq_w cap c I) as Wen. pose proof (i_deq_w cap c I) as Wde.
    assert (Hne : ~ In t (s_wait (q_enq c)) /\ ~ In t (s_wait (q_deq c)) \/ t_pc th = EPark \/ t_pc th = DPark).
    { destruct (abq_pc_eq_dec (t_pc th) EPark) as [E|E]; [right; left; exact E|].
      destruct (abq_pc_eq_dec (t_pc th) DPark) as [E2|E2]; [right; right; exact E2|].
      left. split; eapply waiters_not_self; eassumption. }
    unfold abq_step in H. destruct (t_pc th) eqn:P; try discriminate H.
    all: destruct Hne as [[Hne1 Hne2]|[Hne|Hne]]; try discriminate Hne.
    (* Acquire: no waiter is woken *)
    all: try match type of H with context [sem_acquire _ _ (q_enq _)] =>
           destruct (sem_acquire_cases cap (q_enq c) t (t_can th) Hcap (i_enq cap c I) Hne1) as [(_ & _ & R)|(_ & _ & R)];
           rewrite R in H; clear R; destruct (t_can th) end.
    all: try match type of H with context [sem_acquire _ _ (q_deq _)] =>
           destruct (sem_acquire_cases cap (q_deq c) t (t_can th) Hcap (i_deq cap c I) Hne2) as [(_ & _ & R)|(_ & _ & R)];
           rewrite R in H; clear R; destruct (t_can th) end.
    (* Release: the woken threads were parked inside Acquire *)
    all: try match type of H with context [sem_release (q_enq _)] =>
           destruct (sem_release (q_enq c)) as [[s' wk]|] eqn:R;
           [pose proof (sem_release_incl _ _ _ R) as Hinc;
            pose proof (fun w thw Hin => waiters_outside EPark _ _ (or_introl eq_refl) Wen w thw (Hinc w Hin)) as Hout;
            assert (Hnw : ~ In t wk) by (intros X; apply Hne1, Hinc, X)|] end.
    all: try match type of H with context [sem_release (q_deq _)] =>
           destruct (sem_release (q_deq c)) as [[s' wk]|] eqn:R;
           [pose proof (sem_release_incl _ _ _ R) as Hinc;
            pose proof (fun w thw Hin => waiters_outside DPark _ _ (or_intror eq_refl) Wde w thw (Hinc w Hin)) as Hout;
            assert (Hnw : ~ In t wk) by (intros X; apply Hne2, Hinc, X)|] end.
    all: unfold goto, finish, panic_w, panic_r, add_obs in H.
    all: repeat match type of H with context [if ?b then _ else _] => destruct b eqn:? end.
    all: try discriminate H.
    all: injection H as <- <-.
    all: try (exfalso; apply Hnp; apply in_or_app; left; now left).
    all: try (exfalso; apply Hnp; now left).
    all: cbn [q_thr set_thr set_enq set_deq set_mu set_ring set_log wake].
    all: apply (step_t_ABQ cap c t th _ _ I Hl P); unfold eff_ABQ; rewrite P; cbn [fst snd].
    all: try (intros m0 Hm0; discriminate Hm0).
    all: try (intros m0 Hm0; injection Hm0 as <-;
              match goal with
              | Hb : (q_w _ || negb (q_r _ =? 0)%Z) = false |- _ =>
                apply orb_false_iff in Hb; destruct Hb as [Hb1 Hb2]; apply negb_false_iff, Z.eqb_eq in Hb2;
                eapply free_excl_ABQ; eassumption
              | Hb : q_w _ = false |- _ => eapply free_shared_ABQ; eassumption
              end).
    all: try (eapply lsA_trans; [apply (holdA_remove t _ Hnd)|];
              unfold in_wcs, in_rcs; rewrite ?P; intros ? ?; reflexivity).
    all: (eapply lsA_trans;
          [apply (holdA_update t th); rewrite ?lookup_wake_notin by assumption; exact Hl|]).
    all: (eapply lsA_trans;
          [apply set_ls_ext; first [apply holdA_wake; [auto|exact Hout] | intros ? ?; reflexivity]|]).
    all: unfold in_wcs, in_rcs;
         cbn [t_pc at_pc set_err set_can set_val set_lin set_res set_cnt set_capv set_idx]; rewrite ?P;
         repeat match goal with |- context [if ?b then _ else _] => destruct b end;
         intros ? ?; reflexivity.
  - (* ACancel *)
    destruct (lookup t (q_thr c)) as [th|] eqn:Hl; [|discriminate].
    destruct (t_can th); [discriminate|].
    split; [exact Logic.I|]. cbn [upds fold_left].
    destruct (t_pc th) eqn:P;
      try (injection H as <- _; cbn [q_thr set_thr];
           apply (holdA_update_same t th _ _ Hl); unfold in_wcs, in_rcs; cbn [t_pc set_can]; reflexivity).
    + unfold cancel_parked in H. rewrite (sem_cancel_ok cap _ t (i_enq cap c I)) in H.
      injection H as <- _. cbn [q_thr set_thr set_enq wake].
      apply (holdA_update_same t th _ _ Hl); unfold in_wcs, in_rcs; cbn [t_pc at_pc set_err set_can]; rewrite P; reflexivity.
    + unfold cancel_parked in H. rewrite (sem_cancel_ok cap _ t (i_deq cap c I)) in H.
      injection H as <- _. cbn [q_thr set_thr set_deq wake].
      apply (holdA_update_same t th _ _ Hl); unfold in_wcs, in_rcs; cbn [t_pc at_pc set_err set_can]; rewrite P; reflexivity.
Qed.

Lemma holdA_init cap : ls_eq (holdA (q_thr (abq_init cap))) ls0.
Proof. intros t m. reflexivity. Qed.

(* the composed corollary *)
Theorem abq_trace_drf_lemma cap evs c :
  (1 <= cap)%Z -> exec abq_next (abq_init cap) evs = Some c ->
  wf (abq_trace cap evs) /\ guards_respected abq_table (abq_trace cap evs) /\ ~ race (abq_trace cap evs).
Proof.
  intros Hcap Hex.
  destruct (model_trace_wf_guards MU_ABQ abq_table abq_cfg abq_ev abq_next emit_ABQ (abq_inv cap)
              (fun c => holdA (q_thr c)) (fun c e c' => step_ok_ABQ cap c e c' Hcap) (abq_init cap) evs c
              (abq_inv_init cap Hcap) (holdA_init cap) Hex) as [Hwf Hg].
  split; [exact Hwf|]. split; [exact Hg|]. exact (drf_abq_lemma _ Hwf Hg).
Qed.
