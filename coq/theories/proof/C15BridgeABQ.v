(* C15BridgeABQ.v — C15 bridge for queue.ConcurrentArrayBlockingQueue (interleaving model ABQModel.v).

   stmt_of_pc_ABQ / func_of_pc_ABQ: the Coq-side copy of the pc -> label table of ocaml/drv_abq.ml
   (compared with it on every run by checks/part_c15bridge.py).
   locks_held_ABQ: the model's RWMutex is a flag q_w and a reader counter q_r WITHOUT owners; thread t
   holds the mutex exclusively iff the flag is set and t is inside a write section (the proved
   invariant [i_w] says that exactly one thread is, iff the flag is set), shared iff the counter is
   positive and t is inside a reader section ([i_r]: the counter is the number of such threads).
   guards_respected_ABQ_lemma: whenever a thread is about to execute a statement it holds every lock
   the footprint table declares for the plain accesses of that statement — for every event list and
   every capacity >= 1.  The trace-level composition (as for LBQ) is not done for this object. *)
From Coq Require Import List String Bool Arith Lia ZArith.
From Ekit Require Import Common HB FootprintModel C15Bridge Conc ABQModel ABQProof ABQProof2.
Import ListNotations.
Open Scope string_scope.

Definition TY_ABQ := "ConcurrentArrayBlockingQueue".
Definition MU_ABQ := "ConcurrentArrayBlockingQueue.mutex".

Definition func_of_pc_ABQ (p : abq_pc) : string :=
  match p with
  | EAcq => "Enqueue"
  | EPark => "Enqueue"
  | EIfErr => "Enqueue"
  | ERetErr => "Enqueue"
  | ELock => "Enqueue"
  | EDefer => "Enqueue"
  | EIfCtx => "Enqueue"
  | ERelE => "Enqueue"
  | ERetCtx => "Enqueue"
  | EWrite => "Enqueue"
  | ETailInc => "Enqueue"
  | ECountInc => "Enqueue"
  | EIfTail => "Enqueue"
  | ETailZero => "Enqueue"
  | ERelD => "Enqueue"
  | ERetNil => "Enqueue"
  | DAcq => "Dequeue"
  | DPark => "Dequeue"
  | DIfErr => "Dequeue"
  | DRetErr => "Dequeue"
  | DLock => "Dequeue"
  | DDefer => "Dequeue"
  | DIfCtx => "Dequeue"
  | DRelD => "Dequeue"
  | DRetCtx => "Dequeue"
  | DRead => "Dequeue"
  | DZero => "Dequeue"
  | DHeadInc => "Dequeue"
  | DCountDec => "Dequeue"
  | DIfHead => "Dequeue"
  | DHeadZero => "Dequeue"
  | DRelE => "Dequeue"
  | DRetOk => "Dequeue"
  | LRLock => "Len"
  | LDefer => "Len"
  | LRet => "Len"
  | SRLock => "AsSlice"
  | SDefer => "AsSlice"
  | SMake => "AsSlice"
  | SCnt => "AsSlice"
  | SCap => "AsSlice"
  | SFor => "AsSlice"
  | SIndex => "AsSlice"
  | SAppend => "AsSlice"
  | SCntInc => "AsSlice"
  | SRet => "AsSlice"
  end.

(* normalised statement text; "" = not a yield point (parked inside Acquire) *)
Definition stmt_of_pc_ABQ (p : abq_pc) : string :=
  match p with
  | EAcq => "err := c.enqueueCap.Acquire(ctx, 1)"
  | EPark => ""
  | EIfErr => "if err != nil"
  | ERetErr => "return err"
  | ELock => "c.mutex.Lock()"
  | EDefer => "defer c.mutex.Unlock()"
  | EIfCtx => "if ctx.Err() != nil"
  | ERelE => "c.enqueueCap.Release(1)"
  | ERetCtx => "return ctx.Err()"
  | EWrite => "c.data[c.tail] = t"
  | ETailInc => "c.tail++"
  | ECountInc => "c.count++"
  | EIfTail => "if c.tail == cap(c.data)"
  | ETailZero => "c.tail = 0"
  | ERelD => "c.dequeueCap.Release(1)"
  | ERetNil => "return nil"
  | DAcq => "err := c.dequeueCap.Acquire(ctx, 1)"
  | DPark => ""
  | DIfErr => "if err != nil"
  | DRetErr => "return res, err"
  | DLock => "c.mutex.Lock()"
  | DDefer => "defer c.mutex.Unlock()"
  | DIfCtx => "if ctx.Err() != nil"
  | DRelD => "c.dequeueCap.Release(1)"
  | DRetCtx => "return res, ctx.Err()"
  | DRead => "res = c.data[c.head]"
  | DZero => "c.data[c.head] = c.zero"
  | DHeadInc => "c.head++"
  | DCountDec => "c.count--"
  | DIfHead => "if c.head == cap(c.data)"
  | DHeadZero => "c.head = 0"
  | DRelE => "c.enqueueCap.Release(1)"
  | DRetOk => "return res, nil"
  | LRLock => "c.mutex.RLock()"
  | LDefer => "defer c.mutex.RUnlock()"
  | LRet => "return c.count"
  | SRLock => "c.mutex.RLock()"
  | SDefer => "defer c.mutex.RUnlock()"
  | SMake => "res := make([]T, 0, c.count)"
  | SCnt => "cnt := 0"
  | SCap => "capacity := cap(c.data)"
  | SFor => "for cnt < c.count"
  | SIndex => "index := (c.head + cnt) % capacity"
  | SAppend => "res = append(res, c.data[index])"
  | SCntInc => "cnt++"
  | SRet => "return res"
  end.

Definition occ_of_pc_ABQ (p : abq_pc) : nat := 0.

Definition pcname_ABQ (p : abq_pc) : string :=
  match p with
  | EAcq => "EAcq"
  | EPark => "EPark"
  | EIfErr => "EIfErr"
  | ERetErr => "ERetErr"
  | ELock => "ELock"
  | EDefer => "EDefer"
  | EIfCtx => "EIfCtx"
  | ERelE => "ERelE"
  | ERetCtx => "ERetCtx"
  | EWrite => "EWrite"
  | ETailInc => "ETailInc"
  | ECountInc => "ECountInc"
  | EIfTail => "EIfTail"
  | ETailZero => "ETailZero"
  | ERelD => "ERelD"
  | ERetNil => "ERetNil"
  | DAcq => "DAcq"
  | DPark => "DPark"
  | DIfErr => "DIfErr"
  | DRetErr => "DRetErr"
  | DLock => "DLock"
  | DDefer => "DDefer"
  | DIfCtx => "DIfCtx"
  | DRelD => "DRelD"
  | DRetCtx => "DRetCtx"
  | DRead => "DRead"
  | DZero => "DZero"
  | DHeadInc => "DHeadInc"
  | DCountDec => "DCountDec"
  | DIfHead => "DIfHead"
  | DHeadZero => "DHeadZero"
  | DRelE => "DRelE"
  | DRetOk => "DRetOk"
  | LRLock => "LRLock"
  | LDefer => "LDefer"
  | LRet => "LRet"
  | SRLock => "SRLock"
  | SDefer => "SDefer"
  | SMake => "SMake"
  | SCnt => "SCnt"
  | SCap => "SCap"
  | SFor => "SFor"
  | SIndex => "SIndex"
  | SAppend => "SAppend"
  | SCntInc => "SCntInc"
  | SRet => "SRet"
  end.

Definition all_pcs_ABQ : list abq_pc :=
  [EAcq; EPark; EIfErr; ERetErr; ELock; EDefer; EIfCtx; ERelE; ERetCtx; EWrite; ETailInc; ECountInc; EIfTail; ETailZero; ERelD; ERetNil; DAcq; DPark; DIfErr; DRetErr; DLock; DDefer; DIfCtx; DRelD; DRetCtx; DRead; DZero; DHeadInc; DCountDec; DIfHead; DHeadZero; DRelE; DRetOk; LRLock; LDefer; LRet; SRLock; SDefer; SMake; SCnt; SCap; SFor; SIndex; SAppend; SCntInc; SRet].
Definition lfunc_of_pc_ABQ (p : abq_pc) : string := lfunc_of TY_ABQ (func_of_pc_ABQ p) "".
Definition rstmt_of_pc_ABQ (p : abq_pc) : string := row_stmt "" (stmt_of_pc_ABQ p).

Definition bridge_ABQ : list bridge_line :=
  map (fun p => (pcname_ABQ p, lfunc_of_pc_ABQ p, stmt_of_pc_ABQ p, occ_of_pc_ABQ p))
      (filter (fun p => negb (String.eqb (stmt_of_pc_ABQ p) "")) all_pcs_ABQ).

(* ---------- locks ---------- *)
Definition locks_held_ABQ (c : abq_cfg) (t : Conc.tid) : lockset :=
  match lookup t (q_thr c) with
  | Some th =>
      ((if q_w c && in_wcs th then [(MU_ABQ, Excl)] else []) ++
       (if (0 <? q_r c)%Z && in_rcs th then [(MU_ABQ, Shared)] else []))%list
  | None => []
  end.

Definition pc_locks_ABQ (th : abq_thr) : lockset :=
  if in_wcs th then [(MU_ABQ, Excl)] else if in_rcs th then [(MU_ABQ, Shared)] else [].

Lemma section_locks_held_ABQ_lemma cap evs c t th :
  (1 <= cap)%Z -> exec abq_next (abq_init cap) evs = Some c -> lookup t (q_thr c) = Some th ->
  incl (pc_locks_ABQ th) (locks_held_ABQ c t).
Proof.
  intros Hcap Hex Hl. pose proof (abq_inv_reachable_lemma cap Hcap evs c Hex) as I.
  unfold pc_locks_ABQ, locks_held_ABQ. rewrite Hl.
  destruct (in_wcs th) eqn:Ew.
  - pose proof (count_pos_lookup in_wcs t th _ Hl Ew) as Hpos. pose proof (i_w cap c I) as Hw.
    destruct (q_w c); [|lia]. intros x [<-|[]]. now left.
  - destruct (in_rcs th) eqn:Er; [|intros x []].
    pose proof (count_pos_lookup in_rcs t th _ Hl Er) as Hpos. pose proof (i_r cap c I) as Hr.
    assert (Hlt : (0 <? q_r c)%Z = true) by (apply Z.ltb_lt; lia).
    rewrite Hlt. intros x [<-|[]]. apply in_or_app. right. now left.
Qed.

(* static part: pc_locks only looks at the pc *)
Lemma guards_static_ABQ th :
  guards_held abq_table (func_of_pc_ABQ (t_pc th)) (rstmt_of_pc_ABQ (t_pc th)) (pc_locks_ABQ th) = true.
Proof. unfold pc_locks_ABQ, in_wcs, in_rcs. destruct (t_pc th); vm_compute; reflexivity. Qed.

Theorem guards_respected_ABQ_lemma cap evs c t th :
  (1 <= cap)%Z -> exec abq_next (abq_init cap) evs = Some c -> lookup t (q_thr c) = Some th ->
  guards_respected_at abq_table (func_of_pc_ABQ (t_pc th)) (rstmt_of_pc_ABQ (t_pc th)) (locks_held_ABQ c t).
Proof.
  intros Hcap Hex Hl. eapply guards_respected_at_incl.
  - eapply section_locks_held_ABQ_lemma; eassumption.
  - apply guards_held_spec, guards_static_ABQ.
Qed.

Definition keys_ABQ : list (string * string) :=
  map (fun p => (func_of_pc_ABQ p, rstmt_of_pc_ABQ p)) all_pcs_ABQ.

Lemma all_glock_rows_matched_ABQ :
  unmatched abq_table keys_ABQ = [] /\ List.length (glock_rows abq_table) = 15%nat.
Proof. vm_compute. split; reflexivity. Qed.
