(* agent-poolproof, gap closing for C11 (constructor defaulting rule as an equation; a late call that actually
   REACHES its return statement) - pool.OnDemandBlockTaskPool, model/PoolModel.v. *)
From Coq Require Import List ZArith Lia Bool.
Import ListNotations.
From Ekit Require Import Common Conc PoolModel PoolExamples PoolProof PoolProof4 PoolProof5 PoolProof6 PoolProof7 PoolProofB.
Local Open Scope Z_scope.

(* ---------- NewOnDemandBlockTaskPool(initGo, queueSize) without options ---------- *)
Lemma pool_new_default_lemma i q : 1 <= i -> 0 <= q -> pool_new i q [] = CtOk i i i q 0 1.
Proof.
  intros Hi Hq. unfold pool_new.
  destruct (Z.ltb_spec i 1); [lia|]. destruct (Z.ltb_spec q 0); [lia|].
  cbn [fold_left ct_core ct_max ct_rn ct_rd]. rewrite Z.eqb_refl. cbn [negb andb].
  rewrite Z.leb_refl. cbn. reflexivity.
Qed.

(* more generally: as long as no growth option (WithCoreGo / WithMaxGo) is given, the constructor either fails
   (bad rate) or core = max = init *)
Definition is_rate (o : popt) : bool := match o with ORate _ _ => true | _ => false end.

Lemma fold_rate_only opts : forall a, forallb is_rate opts = true ->
  ct_core (fold_left apply_opt opts a) = ct_core a /\ ct_max (fold_left apply_opt opts a) = ct_max a.
Proof.
  induction opts as [|o r IH]; intros a H; [split; reflexivity|].
  cbn [forallb] in H. apply andb_true_iff in H. destruct H as [Ho Hr].
  cbn [fold_left]. destruct (IH (apply_opt a o) Hr) as [E1 E2]. rewrite E1, E2.
  destruct o; try discriminate Ho. split; reflexivity.
Qed.

Lemma pool_new_no_growth_lemma i q opts : forallb is_rate opts = true ->
  pool_new i q opts = CtErr \/ exists rn rd, pool_new i q opts = CtOk i i i q rn rd.
Proof.
  intros H. unfold pool_new.
  destruct (i <? 1); [left; reflexivity|]. destruct (q <? 0); [left; reflexivity|].
  destruct (fold_rate_only opts (mkCt i i 0 1) H) as [E1 E2]. cbn [ct_core ct_max] in E1, E2.
  rewrite E1, E2, Z.eqb_refl. cbn [negb andb]. rewrite Z.leb_refl. cbn [negb andb].
  destruct (_ || _); [left; reflexivity|]. right. eexists. eexists. reflexivity.
Qed.

(* the pool built from the default record starts exactly initGo workers and never more (core = max = init):
   the record is valid, so every theorem over `pvalid` applies to it *)
Lemma pool_new_default_valid_lemma i q : 1 <= i -> 0 <= q ->
  pvalid (mkPar i i i q 0 1 true true 100%nat true).
Proof. intros. unfold pvalid. cbn. lia. Qed.

(* ---------- late calls reach their return statement, with the closing / stopped error ---------- *)
Definition late_P : params := par 1 2 2 2 1 2.

(* the last event of a script, with the configuration before it, after it, and what it showed *)
Definition last_step (P : params) (ds : list directive) : option (list pev * pcfg * pev * pcfg * list (tid * pobs)) :=
  let evs := schedule P ds in
  match exec pstep_cfg (pinit P) (removelast evs) with
  | Some c => match pexec1 c (last evs (PFire 0%nat)) with
              | Some (c', obs) => Some (removelast evs, c, last evs (PFire 0%nat), c', obs)
              | None => None
              end
  | None => None
  end.

Local Open Scope nat_scope.
(* Start, then a successful Shutdown (returns; state closing, the worker still parked on the queue) *)
Definition late_pre : list directive := [DCall 2 OpStart; DRun 2 200; DCall 5 OpShutdown; DRun 5 50].
(* three calls invoked afterwards, each run to its return statement *)
Definition late_start : list directive := late_pre ++ [DCall 6 OpStart; DRun 6 50].
Definition late_submit : list directive := late_pre ++ [DCall 7 (OpSubmit 0 false); DRun 7 50].
Definition late_now : list directive := late_pre ++ [DCall 8 OpShutdownNow; DRun 8 50].
(* the worker sees the closed queue, leaves and performs closing -> stopped; then a Submit *)
Definition late_stopped : list directive := late_pre ++ [DRun 100 100; DCall 7 (OpSubmit 0 false); DRun 7 50].
Local Close Scope nat_scope.

Definition late_shape (ds : list directive) (t : tid) (r : pret) (st : pstate) : Prop :=
  exists evs c e c' th,
    last_step late_P ds = Some (evs, c, e, c', [(t, ORet r)]) /\
    exec pstep_cfg (pinit late_P) evs = Some c /\
    lookup t (c_thr c) = Some th /\ l_late th = true /\
    pexec1 c e = Some (c', [(t, ORet r)]) /\
    s_state (c_sh c) = st /\ ret_err r = true /\ lookup t (c_thr c') = None.

Ltac late_tac := unfold late_shape; do 5 eexists; repeat (split; [vm_compute; reflexivity|]); vm_compute; reflexivity.

Lemma late_start_returns_lemma : late_shape late_start 6%nat (RStart PEClosing) SClosing.
Proof. late_tac. Qed.
Lemma late_submit_returns_lemma : late_shape late_submit 7%nat (RSubmit PEClosing) SClosing.
Proof. late_tac. Qed.
Lemma late_now_returns_lemma : late_shape late_now 8%nat (RShutdownNow PEClosing []) SClosing.
Proof. late_tac. Qed.
Lemma late_stopped_returns_lemma : late_shape late_stopped 7%nat (RSubmit PEStopped) SStopped.
Proof. late_tac. Qed.

(* ====================================================================================================== *)
(* C10: the panicking end of a user function as an event of its own.
   In PoolModel the event PFinish t ends the user function of worker t; whether it ended by a panic is an
   attribute of the task (tk_panics), copied into the worker's local l_pan.  Here the event type is refined:
   EvReturn t / EvPanic t are two events, enabled on disjoint sets of configurations, both mapping to the
   PoolModel step PFinish t.  Every PoolModel execution is the erasure of exactly such a refined execution. *)
Inductive pev2 :=
| EvCall (t : tid) (op : pop)
| EvStep (t : tid) (ch : choice)
| EvCancel (t : tid)
| EvFire (t : tid)
| EvReturn (t : tid)     (* the user function run by worker t returns *)
| EvPanic (t : tid).     (* the user function run by worker t panics *)

Definition erase (e : pev2) : pev :=
  match e with
  | EvCall t op => PCall t op | EvStep t ch => PStep t ch | EvCancel t => PCancel t | EvFire t => PFire t
  | EvReturn t | EvPanic t => PFinish t
  end.

Definition ends_with (c : pcfg) (t : tid) (panics : bool) : bool :=
  match lookup t (c_thr c) with
  | Some th => Bool.eqb (tk_panics (l_task th)) panics
  | None => false
  end.

Definition pexec2 (c : pcfg) (e : pev2) : option (pcfg * list (tid * pobs)) :=
  match e with
  | EvReturn t => if ends_with c t false then pexec1 c (PFinish t) else None
  | EvPanic t => if ends_with c t true then pexec1 c (PFinish t) else None
  | _ => pexec1 c (erase e)
  end.

Definition pstep2 (c : pcfg) (e : pev2) : option pcfg :=
  match pexec2 c e with Some (c', _) => Some c' | None => None end.

Lemma pexec2_sound c e r : pexec2 c e = Some r -> pexec1 c (erase e) = Some r.
Proof.
  destruct e; cbn [pexec2 erase]; try (intros H; exact H);
    destruct (ends_with c t _); intros H; try discriminate H; exact H.
Qed.

Lemma pexec2_complete c e r : pexec1 c e = Some r -> exists e2, erase e2 = e /\ pexec2 c e2 = Some r.
Proof.
  intros H. destruct e as [t op|t ch|t|t|t].
  - exists (EvCall t op). split; [reflexivity|exact H].
  - exists (EvStep t ch). split; [reflexivity|exact H].
  - exists (EvCancel t). split; [reflexivity|exact H].
  - exists (EvFire t). split; [reflexivity|exact H].
  - destruct (lookup t (c_thr c)) as [th|] eqn:Hl.
    + destruct (tk_panics (l_task th)) eqn:Ep.
      * exists (EvPanic t). split; [reflexivity|]. cbn [pexec2]. unfold ends_with. rewrite Hl, Ep. exact H.
      * exists (EvReturn t). split; [reflexivity|]. cbn [pexec2]. unfold ends_with. rewrite Hl, Ep. exact H.
    + unfold pexec1 in H. rewrite Hl in H. discriminate H.
Qed.

(* the two events exclude each other *)
Lemma panic_return_exclusive_lemma c t : pexec2 c (EvPanic t) = None \/ pexec2 c (EvReturn t) = None.
Proof.
  cbn [pexec2]. unfold ends_with. destruct (lookup t (c_thr c)) as [th|]; [|left; reflexivity].
  destruct (tk_panics (l_task th)); [right|left]; reflexivity.
Qed.

Lemma pstep2_sound c e c' : pstep2 c e = Some c' -> pstep_cfg c (erase e) = Some c'.
Proof.
  unfold pstep2, pstep_cfg. destruct (pexec2 c e) as [[c1 o]|] eqn:E; [|discriminate].
  rewrite (pexec2_sound _ _ _ E). exact (fun H => H).
Qed.

Lemma exec2_erase es : forall c c', exec pstep2 c es = Some c' -> exec pstep_cfg c (map erase es) = Some c'.
Proof.
  induction es as [|e r IH]; intros c c' H; [exact H|]. cbn [exec map] in *.
  destruct (pstep2 c e) as [c1|] eqn:E; [|discriminate H]. rewrite (pstep2_sound _ _ _ E). apply IH, H.
Qed.

Lemma exec2_complete evs : forall c c', exec pstep_cfg c evs = Some c' ->
  exists es, map erase es = evs /\ exec pstep2 c es = Some c'.
Proof.
  induction evs as [|e r IH]; intros c c' H; [exists []; split; [reflexivity|exact H]|].
  cbn [exec] in H. destruct (pstep_cfg c e) as [c1|] eqn:E; [|discriminate H].
  unfold pstep_cfg in E. destruct (pexec1 c e) as [[c1' o]|] eqn:E1; [|discriminate E]. injection E as ->.
  destruct (pexec2_complete _ _ _ E1) as (e2 & He & H2). destruct (IH c1 c' H) as (es & Hes & Hx).
  exists (e2 :: es). split; [cbn [map]; rewrite He, Hes; reflexivity|].
  cbn [exec]. unfold pstep2. rewrite H2. exact Hx.
Qed.

(* where worker t is after each event of a list *)
Fixpoint pc_trace (c : pcfg) (t : tid) (es : list pev2) : list (option ppc) :=
  match es with
  | [] => []
  | e :: r => match pstep2 c e with
              | Some c' => option_map pc (lookup t (c_thr c')) :: pc_trace c' t r
              | None => [None]
              end
  end.

Lemma step2_local c t th th' :
  lookup t (c_thr c) = Some th ->
  pstep (c_par c) (parked_of (c_thr c)) (c_sh c) th C0 = Some (mkOut (c_sh c) (Some th') None None WkNone []) ->
  pstep2 c (EvStep t C0) = Some (with_thr c (update t th' (c_thr c))).
Proof.
  intros Hl Hp. pose proof (step_local c t th th' Hl Hp) as H. unfold pstep2, pexec2, erase. unfold pstep_cfg in H.
  destruct (pexec1 c (PStep t C0)) as [[c1 o]|]; [|discriminate H]. exact H.
Qed.

(* THE PANIC CASE.  Worker t is inside the user function of a task that panics, wrapped once (the code as it
   is, see panic_contained_reachable_lemma).  Then the normal-return event is not enabled, the panic event is;
   it records the task as done and touches no shared state; afterwards five statements of that worker alone
   are enabled one after the other: `if r := recover(); r != nil` (taken), `buf := make([]byte, panicBuffLen)`,
   `buf = buf[:runtime.Stack(buf, false)]`, `err = fmt.Errorf(...)` - the recover branch, which a normal return
   never enters - then `atomic.AddInt32(&b.numGoRunningTasks, -1)`, which decrements the running counter and
   leaves the worker at the head of the bookkeeping block of its loop (WBkLock), its panic flag cleared. *)
Lemma panic_contained_lemma c t th :
  lookup t (c_thr c) = Some th -> pc th = WUser ->
  tk_panics (l_task th) = true -> tk_depth (l_task th) = 1%nat ->
  pexec2 c (EvReturn t) = None /\
  exists c1 th1,
    pstep2 c (EvPanic t) = Some c1 /\
    lookup t (c_thr c1) = Some th1 /\ pc th1 = RwRecIf /\ l_pan th1 = true /\
    g_done (c_gh c1) = g_done (c_gh c) ++ [tk_id (l_task th)] /\ c_sh c1 = c_sh c /\
    exists c6 th6,
      exec pstep2 c1 (repeat (EvStep t C0) 5) = Some c6 /\
      pc_trace c1 t (repeat (EvStep t C0) 5) = [Some RwBuf; Some RwStack; Some RwErr; Some WRunDec; Some WBkLock] /\
      lookup t (c_thr c6) = Some th6 /\ pc th6 = WBkLock /\ l_pan th6 = false /\
      c_sh c6 = st_running (s_running (c_sh c) - 1) (c_sh c) /\
      g_done (c_gh c6) = g_done (c_gh c1).
Proof.
  intros Hl Epc Ep Ed.
  split; [cbn [pexec2]; unfold ends_with; rewrite Hl, Ep; reflexivity|].
  set (th1 := goto RwRecIf (set_lvl 1%nat (set_pan true (set_has false th)))).
  set (c1 := mkCfg (c_par c) (c_sh c) (update t th1 (c_thr c)) (c_next c) (c_ntask c)
                   (apply_gevs (c_gh c) [GDone (tid_of th)])).
  assert (Hs : pstep2 c (EvPanic t) = Some c1).
  { unfold pstep2, pexec2, ends_with. rewrite Hl, Ep. cbn [Bool.eqb]. unfold pexec1. rewrite Hl, Epc, Ep. reflexivity. }
  assert (Hl1 : lookup t (c_thr c1) = Some th1) by (apply (lookup_update_eq t th th1 _ Hl)).
  exists c1, th1. split; [exact Hs|]. split; [exact Hl1|]. split; [reflexivity|]. split; [reflexivity|].
  split; [reflexivity|]. split; [reflexivity|].
  (* the five statements *)
  set (th2 := goto RwBuf (set_pan false th1)).
  set (c2 := with_thr c1 (update t th2 (c_thr c1))).
  assert (S2 : pstep2 c1 (EvStep t C0) = Some c2) by (apply (step2_local c1 t th1 th2 Hl1); reflexivity).
  assert (Hl2 : lookup t (c_thr c2) = Some th2) by (apply (lookup_update_eq t th1 th2 _ Hl1)).
  set (th3 := goto RwStack th2).
  set (c3 := with_thr c2 (update t th3 (c_thr c2))).
  assert (S3 : pstep2 c2 (EvStep t C0) = Some c3) by (apply (step2_local c2 t th2 th3 Hl2); reflexivity).
  assert (Hl3 : lookup t (c_thr c3) = Some th3) by (apply (lookup_update_eq t th2 th3 _ Hl2)).
  set (th4 := goto RwErr th3).
  set (c4 := with_thr c3 (update t th4 (c_thr c3))).
  assert (S4 : pstep2 c3 (EvStep t C0) = Some c4) by (apply (step2_local c3 t th3 th4 Hl3); reflexivity).
  assert (Hl4 : lookup t (c_thr c4) = Some th4) by (apply (lookup_update_eq t th3 th4 _ Hl3)).
  set (th5 := goto WRunDec th4).
  set (c5 := with_thr c4 (update t th5 (c_thr c4))).
  assert (S5 : pstep2 c4 (EvStep t C0) = Some c5).
  { apply (step2_local c4 t th4 th5 Hl4). unfold pstep, pstep0, th4. cbn [pc goto].
    unfold unwind. cbn [l_lvl l_task goto set_lvl set_pan set_has th3 th2 th1]. unfold th3, th2, th1. cbn [l_lvl l_task goto set_lvl set_pan set_has].
    rewrite Ed. cbn [Nat.ltb Nat.leb]. reflexivity. }
  assert (Hl5 : lookup t (c_thr c5) = Some th5) by (apply (lookup_update_eq t th4 th5 _ Hl4)).
  set (th6 := goto WBkLock th5).
  set (c6 := mkCfg (c_par c5) (st_running (s_running (c_sh c5) - 1) (c_sh c5)) (update t th6 (c_thr c5))
                   (c_next c5) (c_ntask c5) (c_gh c5)).
  assert (S6 : pstep2 c5 (EvStep t C0) = Some c6).
  { unfold pstep2, pexec2, erase, pexec1. rewrite Hl5. unfold pstep, pstep0, th5. cbn [pc goto].
    reflexivity. }
  assert (Hl6 : lookup t (c_thr c6) = Some th6) by (apply (lookup_update_eq t th5 th6 _ Hl5)).
  exists c6, th6.
  split; [cbn [repeat exec]; rewrite S2, S3, S4, S5, S6; reflexivity|].
  split; [cbn [repeat pc_trace]; rewrite S2, S3, S4, S5, S6, Hl2, Hl3, Hl4, Hl5, Hl6; reflexivity|].
  split; [exact Hl6|]. split; [reflexivity|]. split; [reflexivity|]. split; reflexivity.
Qed.

(* the contrast: a task that returns normally cannot raise the panic event, and goes from the deferred function's
   `if r := recover(); r != nil` (not taken) straight to the decrement: two statements, never in the recover branch *)
Lemma return_is_direct_lemma c t th :
  lookup t (c_thr c) = Some th -> pc th = WUser ->
  tk_panics (l_task th) = false -> tk_depth (l_task th) = 1%nat ->
  pexec2 c (EvPanic t) = None /\
  exists c1 th1,
    pstep2 c (EvReturn t) = Some c1 /\
    lookup t (c_thr c1) = Some th1 /\ pc th1 = RwRecIf /\ l_pan th1 = false /\
    g_done (c_gh c1) = g_done (c_gh c) ++ [tk_id (l_task th)] /\ c_sh c1 = c_sh c /\
    exists c3,
      exec pstep2 c1 (repeat (EvStep t C0) 2) = Some c3 /\
      pc_trace c1 t (repeat (EvStep t C0) 2) = [Some WRunDec; Some WBkLock] /\
      c_sh c3 = st_running (s_running (c_sh c) - 1) (c_sh c).
Proof.
  intros Hl Epc Ep Ed.
  split; [cbn [pexec2]; unfold ends_with; rewrite Hl, Ep; reflexivity|].
  set (th1 := goto RwRecIf (set_lvl 1%nat (set_pan false (set_has false th)))).
  set (c1 := mkCfg (c_par c) (c_sh c) (update t th1 (c_thr c)) (c_next c) (c_ntask c)
                   (apply_gevs (c_gh c) [GDone (tid_of th)])).
  assert (Hs : pstep2 c (EvReturn t) = Some c1).
  { unfold pstep2, pexec2, ends_with. rewrite Hl, Ep. cbn [Bool.eqb]. unfold pexec1. rewrite Hl, Epc, Ep. reflexivity. }
  assert (Hl1 : lookup t (c_thr c1) = Some th1) by (apply (lookup_update_eq t th th1 _ Hl)).
  exists c1, th1. split; [exact Hs|]. split; [exact Hl1|]. split; [reflexivity|]. split; [reflexivity|].
  split; [reflexivity|]. split; [reflexivity|].
  set (th5 := goto WRunDec th1).
  set (c5 := with_thr c1 (update t th5 (c_thr c1))).
  assert (S5 : pstep2 c1 (EvStep t C0) = Some c5).
  { apply (step2_local c1 t th1 th5 Hl1). unfold pstep, pstep0, th1. cbn [pc goto l_pan set_lvl set_pan set_has].
    unfold unwind. cbn [l_lvl l_task goto set_lvl set_pan set_has]. rewrite Ed. cbn [Nat.ltb Nat.leb]. reflexivity. }
  assert (Hl5 : lookup t (c_thr c5) = Some th5) by (apply (lookup_update_eq t th1 th5 _ Hl1)).
  set (th6 := goto WBkLock th5).
  set (c6 := mkCfg (c_par c5) (st_running (s_running (c_sh c5) - 1) (c_sh c5)) (update t th6 (c_thr c5))
                   (c_next c5) (c_ntask c5) (c_gh c5)).
  assert (S6 : pstep2 c5 (EvStep t C0) = Some c6).
  { unfold pstep2, pexec2, erase, pexec1. rewrite Hl5. unfold pstep, pstep0, th5. cbn [pc goto]. reflexivity. }
  assert (Hl6 : lookup t (c_thr c6) = Some th6) by (apply (lookup_update_eq t th5 th6 _ Hl5)).
  exists c6.
  split; [cbn [repeat exec]; rewrite S5, S6; reflexivity|].
  split; [cbn [repeat pc_trace]; rewrite S5, S6, Hl5, Hl6; reflexivity|]. reflexivity.
Qed.

(* the statements of the recover branch and the decrement can be executed in EVERY configuration in which the
   worker stands at one of them: no lock, no channel, no condition - whatever the other goroutines have done *)
Definition recovering (p : ppc) : bool :=
  match p with RwRecIf | RwBuf | RwStack | RwErr | WRunDec => true | _ => false end.

Lemma recover_never_blocks_lemma c t th :
  lookup t (c_thr c) = Some th -> recovering (pc th) = true ->
  exists c', pstep2 c (EvStep t C0) = Some c' /\ pstep_cfg c (PStep t C0) = Some c'.
Proof.
  intros Hl Hr.
  assert (H : exists c', pstep2 c (EvStep t C0) = Some c').
  { unfold pstep2, pexec2, erase, pexec1. rewrite Hl. unfold pstep.
    destruct (pc th) eqn:Epc; try discriminate Hr; unfold pstep0; rewrite Epc.
    - destruct (l_pan th); eexists; reflexivity.
    - eexists; reflexivity.
    - eexists; reflexivity.
    - eexists; reflexivity.
    - eexists; reflexivity. }
  destruct H as [c' H]. exists c'. split; [exact H|]. apply (pstep2_sound c (EvStep t C0) c' H).
Qed.

(* on the code as it is every task inside its user function is wrapped exactly once, in every schedule *)
Lemma panic_contained_reachable_lemma P evs c t th :
  i_fixc P = true -> exec pstep_cfg (pinit P) evs = Some c ->
  lookup t (c_thr c) = Some th -> pc th = WUser -> tk_panics (l_task th) = true ->
  pexec2 c (EvReturn t) = None /\
  exists c1 th1,
    pstep2 c (EvPanic t) = Some c1 /\
    lookup t (c_thr c1) = Some th1 /\ pc th1 = RwRecIf /\ l_pan th1 = true /\
    g_done (c_gh c1) = g_done (c_gh c) ++ [tk_id (l_task th)] /\ c_sh c1 = c_sh c /\
    exists c6 th6,
      exec pstep2 c1 (repeat (EvStep t C0) 5) = Some c6 /\
      pc_trace c1 t (repeat (EvStep t C0) 5) = [Some RwBuf; Some RwStack; Some RwErr; Some WRunDec; Some WBkLock] /\
      lookup t (c_thr c6) = Some th6 /\ pc th6 = WBkLock /\ l_pan th6 = false /\
      c_sh c6 = st_running (s_running (c_sh c) - 1) (c_sh c) /\
      g_done (c_gh c6) = g_done (c_gh c1).
Proof.
  intros Hf He Hl Epc Ep. apply (panic_contained_lemma c t th Hl Epc Ep).
  destruct (wrapper_depth_one_lemma P Hf evs c He) as [_ H]. apply (H t th Hl Epc).
Qed.

(* ---------- non-vacuity: a panicking task, and the worker that ran it runs the next one ---------- *)
Definition panic_P : params := par 1 1 1 1 0 1.
Local Open Scope nat_scope.
Definition panic_pre : list directive :=
  [DCall 2 OpStart; DRun 2 200; DRunTo 100 WParked; DCall 1 (OpSubmit 0 true); DRun 1 100; DRunTo 100 WUser].
Definition panic_post : list directive :=
  [DFinish 100; DRunTo 100 WParked; DCall 1 (OpSubmit 1 false); DRun 1 100; DRunTo 100 WUser; DFinish 100; DRunTo 100 WParked].
Local Close Scope nat_scope.

Lemma panic_example_lemma :
  i_fixc panic_P = true /\
  exists c th,
    exec pstep_cfg (pinit panic_P) (schedule panic_P panic_pre) = Some c /\
    lookup 100%nat (c_thr c) = Some th /\ pc th = WUser /\ tk_panics (l_task th) = true /\ tk_id (l_task th) = 0%nat /\
    s_running (c_sh c) = 1 /\
    exists c',
      exec pstep_cfg c (snd (play panic_post c)) = Some c' /\
      In (PFinish 100%nat) (snd (play panic_post c)) /\
      g_done (c_gh c') = [0; 1]%nat /\ s_total (c_sh c') = 1 /\ s_running (c_sh c') = 0 /\
      map (fun x => pc (snd x)) (c_thr c') = [WParked].
Proof.
  split; [reflexivity|]. do 2 eexists. repeat (split; [vm_compute; reflexivity|]).
  eexists. split; [vm_compute; reflexivity|]. split; [vm_compute; tauto|].
  repeat (split; [vm_compute; reflexivity|]). vm_compute; reflexivity.
Qed.
