(* ABQProof (part 6): the per-call history t_lin is empty at the CALL and changes only at the call's
   own marked steps (so its length is the number of linearisation steps the call has performed). *)
From Ekit Require Import Common Conc ABQModel ABQProof ABQProof2 ABQProof3 ABQProof4 ABQProof5.
From Coq Require Import ZifyBool Arith PeanoNat.

(* ---------- the per-call history t_lin changes only at the call's own marked steps ---------- *)
Lemma wake_lin p ws : forall (l : list (tid * abq_thr)) x th',
  lookup x (wake p ws l) = Some th' -> exists th0, lookup x l = Some th0 /\ t_lin th' = t_lin th0.
Proof.
  induction ws as [|w r IH]; intros l x th' H; cbn [wake] in H.
  - exists th'. auto.
  - destruct (lookup w l) as [thw|] eqn:Hw.
    + destruct (IH _ _ _ H) as [th1 [L1 E1]].
      destruct (Nat.eq_dec x w) as [->|Hne].
      * rewrite (lookup_update_same _ _ _ _ _ Hw) in L1. injection L1 as <-. exists thw. split; [exact Hw|exact E1].
      * rewrite (lookup_update_other _ _ _ _ _ Hne) in L1. exists th1. auto.
    + exact (IH _ _ _ H).
Qed.

Lemma tids_wake p ws : forall (l : list (tid * abq_thr)), tids (wake p ws l) = tids l.
Proof.
  induction ws as [|w r IH]; intros l; cbn [wake]; [reflexivity|].
  destruct (lookup w l); [rewrite IH, tids_update; reflexivity|apply IH].
Qed.

Lemma lookup_update_same_inv (l : list (tid * abq_thr)) t p th' :
  lookup t (update t p l) = Some th' -> th' = p.
Proof.
  induction l as [|[t' p'] r IH]; cbn; [discriminate|].
  destruct (Nat.eqb t t') eqn:E; cbn; rewrite E; [intros H; injection H as <-; reflexivity|exact IH].
Qed.

(* the values the marked step of event e appends to the history of thread x *)
Definition marked (c : abq_cfg) (e : abq_ev) (x : tid) : list Z :=
  match e with
  | AStep t =>
    if Nat.eqb t x then
      match lin_of c e with
      | Some (LinEnq v) => [v]
      | Some LinDeq => [dget (q_data c) (q_head c)]
      | None => []
      end
    else []
  | _ => []
  end.

Lemma abq_step_lin c t th c' o x th0 th' :
  NoDup (tids (q_thr c)) ->
  lookup t (q_thr c) = Some th ->
  abq_step c t th = Some (c', o) ->
  lookup x (q_thr c) = Some th0 -> lookup x (q_thr c') = Some th' ->
  t_lin th' = t_lin th0 ++ marked c (AStep t) x.
Proof.
  intros Hnd Hl Hs H0 H'.
  unfold marked, lin_of. rewrite Hl.
  destruct th as [pc v err can res cnt capv idx lin].
  unfold abq_step in Hs; cbn [t_pc t_val t_err t_can t_lin t_res t_cnt t_capv t_idx] in *.
  destruct pc;
    repeat match type of Hs with
           | context [sem_acquire ?a ?b ?d] => destruct (sem_acquire a b d) as [[s' r0] wk]; destruct r0
           | context [sem_release ?a] => destruct (sem_release a) as [[s' wk]|]
           | context [if ?b then _ else _] => destruct b eqn:?
           end;
    unfold goto, finish, panic_w, panic_r, add_obs in Hs; try discriminate;
    injection Hs as <- <-; revert H'; proj_simpl; intros H'.
  all: destruct (Nat.eqb t x) eqn:Etx;
    [ apply Nat.eqb_eq in Etx; subst x; rewrite Hl in H0; injection H0 as <-
    | apply Nat.eqb_neq in Etx; assert (Hne : x <> t) by congruence ].
  all: try (apply lookup_update_same_inv in H'; subst th'; cbn [t_lin at_pc set_err set_can set_val set_lin set_res set_cnt set_capv set_idx];
            rewrite ?app_nil_r; reflexivity).
  all: try (exfalso; rewrite abq_lookup_remove_same in H'; [discriminate|rewrite ?tids_wake; exact Hnd]).
  all: rewrite ?app_nil_r.
  all: try rewrite (lookup_update_other _ _ _ _ _ Hne) in H'.
  all: try rewrite (abq_lookup_remove_other _ _ _ Hne) in H'.
  all: try (apply wake_lin in H'; destruct H' as [th1 [L1 E1]]; rewrite H0 in L1; injection L1 as <-; exact E1).
  all: try (rewrite H0 in H'; injection H' as <-; reflexivity).
Qed.

Lemma abq_lin_log c e c' o x th0 th' :
  NoDup (tids (q_thr c)) ->
  abq_exec1 c e = Some (c', o) ->
  lookup x (q_thr c) = Some th0 -> lookup x (q_thr c') = Some th' ->
  t_lin th' = t_lin th0 ++ marked c e x.
Proof.
  intros Hnd Hs H0 H'. destruct e as [t op|t|t]; cbn [abq_exec1] in Hs.
  - destruct (lookup t (q_thr c)) eqn:Hl; [discriminate|]. injection Hs as <- <-.
    revert H'. proj_simpl. rewrite abq_lookup_spawn, H0. intros H'. injection H' as <-.
    cbn. rewrite app_nil_r. reflexivity.
  - destruct (lookup t (q_thr c)) as [th|] eqn:Hl; [|discriminate].
    eapply abq_step_lin; eassumption.
  - destruct (lookup t (q_thr c)) as [th|] eqn:Hl; [|discriminate].
    destruct (t_can th); [discriminate|]. cbn [marked]. rewrite app_nil_r.
    assert (G : forall L p, (L = q_thr c \/ exists p2 wk, L = wake p2 wk (update t p (q_thr c))) ->
                t_lin p = t_lin th -> lookup x L = Some th' -> t_lin th' = t_lin th0).
    { intros L p [->|[p2 [wk ->]]] Ep HL.
      - rewrite H0 in HL. injection HL as <-. reflexivity.
      - apply wake_lin in HL. destruct HL as [th1 [L1 E1]]. rewrite E1.
        destruct (Nat.eq_dec x t) as [->|Hne].
        + apply lookup_update_same_inv in L1. subst th1. rewrite Hl in H0. injection H0 as <-. exact Ep.
        + rewrite (lookup_update_other _ _ _ _ _ Hne) in L1. rewrite H0 in L1. injection L1 as <-. reflexivity. }
    destruct (t_pc th); unfold cancel_parked in Hs;
      repeat match type of Hs with context [sem_cancel ?a ?b] => destruct (sem_cancel a b) as [s' wk] end;
      injection Hs as <- <-; revert H'; proj_simpl; intros H'.
    all: try (eapply (G _ _ (or_intror (ex_intro _ _ (ex_intro _ _ eq_refl)))); [|exact H']; reflexivity).
    all: eapply (G _ (set_can th) (or_intror (ex_intro _ EAcq (ex_intro _ [] eq_refl)))); [reflexivity|exact H'].
Qed.

Lemma abq_call_starts_empty c t op c' o th' :
  abq_exec1 c (ACall t op) = Some (c', o) -> lookup t (q_thr c') = Some th' -> t_lin th' = [].
Proof.
  cbn [abq_exec1]. destruct (lookup t (q_thr c)) eqn:Hl; [discriminate|].
  intros H; injection H as <- <-. proj_simpl. rewrite abq_lookup_spawn, Hl, Nat.eqb_refl.
  intros H; injection H as <-. destruct op; reflexivity.
Qed.

Lemma abq_lin_log_lemma cap c e c' o x th0 th' :
  1 <= cap -> abq_reach cap c -> abq_exec1 c e = Some (c', o) ->
  lookup x (q_thr c) = Some th0 -> lookup x (q_thr c') = Some th' ->
  t_lin th' = t_lin th0 ++ marked c e x.
Proof.
  intros Hcap R. apply abq_lin_log. exact (i_nodup _ _ (abq_reach_inv cap c Hcap R)).
Qed.
