(* Lemmas about ListModel (C04), part 1: Go slices, internal/slice Add / Delete / Shrink,
   ArrayList.  Part 2 (LinkedList, CopyOnWriteArrayList, ConcurrentList, histories) is
   ListProof2.v. *)
From Coq Require Import ZifyBool.
From Ekit Require Import Common ListModel.

(* ---------- the local list functions are the library ones ---------- *)
Lemma take_firstn : forall n l, take n l = firstn n l.
Proof.
  induction n as [|n IH]; intros [|x t]; cbn [take firstn]; try reflexivity;
    try (rewrite IH; reflexivity).
Qed.

Lemma drop_skipn : forall n l, drop n l = skipn n l.
Proof.
  induction n as [|n IH]; intros [|x t]; cbn [drop skipn]; try reflexivity; try apply IH.
Qed.

Lemma take2_firstn : forall n l, take2 n l = firstn n l.
Proof.
  induction n as [|n IH]; intros [|x t]; cbn [take2 firstn]; try reflexivity;
    try (rewrite IH; reflexivity).
Qed.

Lemma zeros_repeat : forall n, zeros n = repeat 0 n.
Proof. induction n as [|n IH]; cbn [zeros repeat]; [reflexivity | now rewrite IH]. Qed.

Lemma nth_d_nth : forall n l d, nth_d n l d = nth n l d.
Proof.
  induction n as [|n IH]; intros [|x t] d; cbn [nth_d nth]; try reflexivity; try apply IH.
Qed.

(* ---------- lengths ---------- *)
Lemma zlen_app : forall (A : Type) (a b : list A), zlen (a ++ b) = zlen a + zlen b.
Proof. intros A a b. unfold zlen. rewrite app_length. lia. Qed.

Lemma zlen_cons : forall (A : Type) (x : A) (a : list A), zlen (x :: a) = zlen a + 1.
Proof. intros A x a. unfold zlen. cbn [length]. lia. Qed.

Lemma zlen_nil : forall (A : Type), zlen (@nil A) = 0.
Proof. reflexivity. Qed.

Lemma zlen_nonneg : forall (A : Type) (a : list A), 0 <= zlen a.
Proof. intros A a. unfold zlen. lia. Qed.

Lemma to_nat_zlen : forall (A : Type) (a : list A), Z.to_nat (zlen a) = length a.
Proof. intros A a. unfold zlen. apply Nat2Z.id. Qed.

Ltac zl :=
  unfold zlen in *; repeat rewrite app_length in *; cbn [length] in *; lia.

Lemma length_zeros : forall n, length (zeros n) = n.
Proof. induction n as [|n IH]; cbn [zeros length]; [reflexivity | now rewrite IH]. Qed.

Lemma in_idx_true : forall i n, 0 <= i < n -> in_idx i n = true.
Proof. intros i n H. unfold in_idx. lia. Qed.

Lemma in_idx_false : forall i n, ~ (0 <= i < n) -> in_idx i n = false.
Proof. intros i n H. unfold in_idx. lia. Qed.

(* ---------- splitting a list at a position ---------- *)
Lemma split_at : forall (l : list Z) (n : nat),
  (n <= length l)%nat -> exists a b, l = a ++ b /\ length a = n.
Proof.
  intros l n Hn. exists (firstn n l), (skipn n l). split.
  - symmetry. apply firstn_skipn.
  - apply firstn_length_le. exact Hn.
Qed.

Lemma split_mid : forall (l : list Z) (n : nat),
  (n < length l)%nat -> exists a x b, l = a ++ x :: b /\ length a = n.
Proof.
  intros l n Hn. destruct (split_at l n) as [a [b [Hl Ha]]]; [lia|].
  destruct b as [|x b].
  - subst l. rewrite app_nil_r in Hn. lia.
  - exists a, x, b. split; assumption.
Qed.

Lemma split_at_z : forall (l : list Z) (i : Z),
  0 <= i <= zlen l -> exists a b, l = a ++ b /\ zlen a = i /\ length a = Z.to_nat i.
Proof.
  intros l i Hi. destruct (split_at l (Z.to_nat i)) as [a [b [Hl Ha]]].
  - unfold zlen in Hi. lia.
  - exists a, b. split; [exact Hl|]. split; [unfold zlen; lia | exact Ha].
Qed.

Lemma split_mid_z : forall (l : list Z) (i : Z),
  0 <= i < zlen l -> exists a x b, l = a ++ x :: b /\ zlen a = i /\ length a = Z.to_nat i.
Proof.
  intros l i Hi. destruct (split_mid l (Z.to_nat i)) as [a [x [b [Hl Ha]]]].
  - unfold zlen in Hi. lia.
  - exists a, x, b. split; [exact Hl|]. split; [unfold zlen; lia | exact Ha].
Qed.

(* ---------- list-as-array functions at a split position ---------- *)
Lemma nth_opt_mid : forall (a : list Z) x b, nth_opt (a ++ x :: b) (length a) = Some x.
Proof. induction a as [|y a IH]; intros x b; cbn [app length nth_opt]; [reflexivity | apply IH]. Qed.

Lemma nth_d_mid : forall (a : list Z) x b d, nth_d (length a) (a ++ x :: b) d = x.
Proof. induction a as [|y a IH]; intros x b d; cbn [app length nth_d]; [reflexivity | apply IH]. Qed.

Lemma set_nth_mid : forall (a : list Z) x b v, set_nth (a ++ x :: b) (length a) v = a ++ v :: b.
Proof.
  induction a as [|y a IH]; intros x b v; cbn [app length set_nth]; [reflexivity | now rewrite IH].
Qed.

Lemma insert_at_mid : forall (a b : list Z) x, insert_at (a ++ b) (length a) x = a ++ x :: b.
Proof.
  induction a as [|y a IH]; intros b x; cbn [app length insert_at];
    [destruct b; reflexivity | now rewrite IH].
Qed.

Lemma remove_at_mid : forall (a : list Z) x b, remove_at (a ++ x :: b) (length a) = a ++ b.
Proof.
  induction a as [|y a IH]; intros x b; cbn [app length remove_at]; [reflexivity | now rewrite IH].
Qed.

Lemma take_app_exact : forall (a b : list Z), take (length a) (a ++ b) = a.
Proof.
  induction a as [|y a IH]; intros b; cbn [app length take]; [reflexivity | now rewrite IH].
Qed.

Lemma take_all : forall (a : list Z), take (length a) a = a.
Proof. intros a. rewrite <- (app_nil_r a) at 2. apply take_app_exact. Qed.

Lemma drop_all : forall (a : list Z) n, length a = n -> drop n a = [].
Proof.
  induction a as [|y a IH]; intros n Hn; subst n; cbn [length drop]; [reflexivity | now apply IH].
Qed.

Lemma arr_get_mid : forall a x b i, i = zlen a -> arr_get (a ++ x :: b) i = Ok x.
Proof.
  intros a x b i Hi. subst i. unfold arr_get.
  rewrite in_idx_true by zl. rewrite to_nat_zlen, nth_opt_mid. reflexivity.
Qed.

Lemma arr_set_mid : forall a x b i v, i = zlen a -> arr_set (a ++ x :: b) i v = Ok (a ++ v :: b).
Proof.
  intros a x b i v Hi. subst i. unfold arr_set.
  rewrite in_idx_true by zl. rewrite to_nat_zlen, set_nth_mid. reflexivity.
Qed.

(* ---------- make / copy / append ---------- *)
Lemma go_make_ok : forall len cap, 0 <= len <= cap ->
  go_make len cap = Ok {| sv := zeros (Z.to_nat len); sc := cap |}.
Proof.
  intros len cap H. unfold go_make.
  replace ((0 <=? len) && (len <=? cap)) with true by lia. reflexivity.
Qed.

Lemma go_copy_fresh : forall l, go_copy (zeros (length l)) l = l.
Proof.
  intros l. unfold go_copy. rewrite length_zeros, take_all.
  rewrite (drop_all (zeros (length l)) (length l)) by apply length_zeros.
  apply app_nil_r.
Qed.

Lemma go_append_sv : forall s xs o, sv (go_append s xs o) = sv s ++ xs.
Proof. reflexivity. Qed.

Lemma go_append_inv : forall s xs o,
  zlen (sv (go_append s xs o)) <= sc (go_append s xs o).
Proof.
  intros s xs o. unfold go_append. cbn [sv sc]. rewrite zlen_app.
  destruct (zlen (sv s) + zlen xs <=? sc s) eqn:E; lia.
Qed.

Lemma as_slice_of_spec : forall l, as_slice_of l = Ok (OSlice false l).
Proof.
  intros l. unfold as_slice_of. rewrite go_make_ok by zl. cbn [obind sv].
  rewrite to_nat_zlen, go_copy_fresh. reflexivity.
Qed.

(* ---------- slice.Add ---------- *)
Lemma add_loop_spec : forall r1 p d r2,
  exists d', add_loop (length r1) (zlen p) (p ++ r1 ++ d :: r2) = Ok (p ++ d' :: r1 ++ r2).
Proof.
  induction r1 as [|v r1 IH] using rev_ind; intros p d r2.
  - exists d. reflexivity.
  - rewrite app_length, Nat.add_1_r. cbn [length add_loop].
    replace (0 <=? zlen p + Z.of_nat (S (length r1)) - 1) with true by zl.
    replace (p ++ (r1 ++ [v]) ++ d :: r2) with ((p ++ r1) ++ v :: d :: r2)
      by (repeat rewrite <- app_assoc; reflexivity).
    rewrite arr_get_mid by zl. cbn [obind].
    replace ((p ++ r1) ++ v :: d :: r2) with ((p ++ r1 ++ [v]) ++ d :: r2)
      by (repeat rewrite <- app_assoc; reflexivity).
    rewrite arr_set_mid by (unfold zlen; repeat rewrite app_length; cbn [length]; lia).
    cbn [obind].
    destruct (IH p v (v :: r2)) as [d' Hd'].
    exists d'.
    replace ((p ++ r1 ++ [v]) ++ v :: r2) with (p ++ r1 ++ v :: v :: r2)
      by (repeat rewrite <- app_assoc; reflexivity).
    rewrite Hd'. repeat rewrite <- app_assoc. reflexivity.
Qed.

Lemma slice_add_err : forall s x i o, ~ (0 <= i <= zlen (sv s)) -> slice_add s x i o = Err EIndex.
Proof.
  intros s x i o H. unfold slice_add.
  replace ((i <? 0) || (i >? zlen (sv s))) with true by lia. reflexivity.
Qed.

Lemma slice_add_ok : forall s x i o, 0 <= i <= zlen (sv s) ->
  slice_add s x i o =
  Ok {| sv := insert_at (sv s) (Z.to_nat i) x; sc := sc (go_append s [0] o) |}.
Proof.
  intros s x i o H. unfold slice_add.
  replace ((i <? 0) || (i >? zlen (sv s))) with false by lia.
  destruct (split_at_z (sv s) i H) as [p [r [Hs [Hp Hp']]]].
  rewrite go_append_sv, Hs.
  replace (Z.to_nat (zlen ((p ++ r) ++ [0]) - 1 - i)) with (length r)
    by (unfold zlen in *; repeat rewrite app_length; cbn [length]; lia).
  rewrite <- Hp.
  destruct (add_loop_spec r p 0 []) as [d' Hd'].
  replace ((p ++ r) ++ [0]) with (p ++ r ++ [0]) by (rewrite <- app_assoc; reflexivity).
  rewrite Hd'. cbn [obind]. rewrite app_nil_r.
  rewrite arr_set_mid by reflexivity. cbn [obind].
  rewrite to_nat_zlen, insert_at_mid. reflexivity.
Qed.

(* ---------- slice.Delete ---------- *)
Lemma del_loop_spec : forall q p d,
  exists e, del_loop (length q) (zlen p) (p ++ d :: q) = Ok (p ++ q ++ [e]).
Proof.
  induction q as [|v q IH]; intros p d.
  - exists d. reflexivity.
  - cbn [length del_loop].
    replace (p ++ d :: v :: q) with ((p ++ [d]) ++ v :: q) by (rewrite <- app_assoc; reflexivity).
    rewrite arr_get_mid by zl. cbn [obind].
    replace ((p ++ [d]) ++ v :: q) with (p ++ d :: v :: q) by (rewrite <- app_assoc; reflexivity).
    rewrite arr_set_mid by reflexivity. cbn [obind].
    destruct (IH (p ++ [v]) v) as [e He]. exists e.
    replace (zlen p + 1) with (zlen (p ++ [v])) by zl.
    replace (p ++ v :: v :: q) with ((p ++ [v]) ++ v :: q) by (rewrite <- app_assoc; reflexivity).
    rewrite He. repeat rewrite <- app_assoc. reflexivity.
Qed.

Lemma slice_delete_err : forall s i, ~ (0 <= i < zlen (sv s)) -> slice_delete s i = Err EIndex.
Proof.
  intros s i H. unfold slice_delete.
  replace ((i <? 0) || (i >=? zlen (sv s))) with true by lia. reflexivity.
Qed.

Lemma slice_delete_ok : forall s i, 0 <= i < zlen (sv s) ->
  slice_delete s i =
  Ok ({| sv := remove_at (sv s) (Z.to_nat i); sc := sc s |}, nth_d (Z.to_nat i) (sv s) 0).
Proof.
  intros s i H. unfold slice_delete.
  replace ((i <? 0) || (i >=? zlen (sv s))) with false by lia.
  destruct (split_mid_z (sv s) i H) as [p [x [q [Hs [Hp Hp']]]]].
  rewrite Hs, <- Hp', <- Hp.
  rewrite arr_get_mid by reflexivity. cbn [obind].
  replace (Z.to_nat (zlen (p ++ x :: q) - 1 - zlen p)) with (length q)
    by (unfold zlen; rewrite app_length; cbn [length]; lia).
  destruct (del_loop_spec q p x) as [e He]. rewrite He. cbn [obind].
  unfold reslice_to.
  replace ((0 <=? zlen (p ++ x :: q) - 1) && (zlen (p ++ x :: q) - 1 <=? zlen (p ++ q ++ [e])))
    with true by zl.
  cbn [obind].
  replace (Z.to_nat (zlen (p ++ x :: q) - 1)) with (length (p ++ q))
    by (unfold zlen; repeat rewrite app_length; cbn [length]; lia).
  replace (p ++ q ++ [e]) with ((p ++ q) ++ [e]) by (rewrite <- app_assoc; reflexivity).
  rewrite take_app_exact, remove_at_mid, nth_d_mid. reflexivity.
Qed.

(* ---------- Shrink ---------- *)
Lemma cal_capacity_nonneg : forall c l n, cal_capacity c l = (n, true) -> 0 <= n.
Proof.
  intros c l n H. unfold cal_capacity in H.
  destruct (c <=? 64) eqn:E1; [discriminate|].
  destruct ((c >? 2048) && (c >=? 2 * l)) eqn:E2.
  - injection H as H. subst n. apply Z.quot_pos; lia.
  - destruct ((c <=? 2048) && (c >=? 4 * l)) eqn:E3; [|discriminate].
    injection H as H. subst n. apply Z.quot_pos; lia.
Qed.

Lemma shrink_ok : forall s o,
  exists s', shrink s o = Ok s' /\ sv s' = sv s /\ (zlen (sv s) <= sc s -> zlen (sv s') <= sc s').
Proof.
  intros s o. unfold shrink.
  destruct (cal_capacity (sc s) (zlen (sv s))) as [n changed] eqn:E.
  destruct changed; cbn [negb].
  - pose proof (cal_capacity_nonneg _ _ _ E) as Hn.
    rewrite go_make_ok by lia. cbn [obind].
    eexists. split; [reflexivity|]. split; [reflexivity|].
    intros _. apply go_append_inv.
  - exists s. split; [reflexivity|]. split; [reflexivity|]. intros H; exact H.
Qed.

(* ---------- Range ---------- *)
Lemma range_loop_spec : forall vs i stop,
  range_loop vs i stop =
  if in_idx (stop - i) (zlen vs)
  then (take2 (S (Z.to_nat (stop - i))) (indexed_from i vs), true)
  else (indexed_from i vs, false).
Proof.
  induction vs as [|v t IH]; intros i stop.
  - cbn [range_loop indexed_from]. rewrite in_idx_false by (rewrite zlen_nil; lia). reflexivity.
  - cbn [range_loop indexed_from].
    destruct (Z.eqb_spec i stop) as [He|Hne].
    + subst stop. rewrite in_idx_true by zl.
      replace (i - i) with 0 by lia. reflexivity.
    + rewrite IH.
      destruct (in_idx (stop - (i + 1)) (zlen t)) eqn:E.
      * rewrite in_idx_true by (unfold in_idx in E; zl).
        cbn [fst snd].
        replace (Z.to_nat (stop - i)) with (S (Z.to_nat (stop - (i + 1))))
          by (unfold in_idx in E; lia).
        reflexivity.
      * rewrite in_idx_false by (unfold in_idx in E; zl). reflexivity.
Qed.

Lemma range_loop_seq : forall l stop,
  (let r := range_loop l 0 stop in ORange (fst r) (snd r)) = seq_range l stop.
Proof.
  intros l stop. cbv zeta. rewrite range_loop_spec. unfold seq_range.
  replace (stop - 0) with stop by lia.
  destruct (in_idx stop (zlen l)); reflexivity.
Qed.

(* ====================================================================== *)
(* ArrayList: one step refines the abstract sequence                       *)
(* ====================================================================== *)
Lemma al_step_refines : forall a o c,
  sv (fst (al_step a o c)) = fst (seq_step (sv a) o) /\
  canon (snd (al_step a o c)) = snd (seq_step (sv a) o).
Proof.
  intros a o c. destruct o as [i|xs|i x|i x|i| | |stop| ]; cbn [al_step seq_step].
  - (* Get *)
    unfold al_get. destruct (in_idx i (zlen (sv a))) eqn:E; cbn [fst snd].
    + split; [reflexivity|].
      replace ((i <? 0) || (i >=? zlen (sv a))) with false by (unfold in_idx in E; lia).
      destruct (split_mid_z (sv a) i) as [p [y [q [Hs [Hp Hp']]]]]; [unfold in_idx in E; lia|].
      rewrite Hs, <- Hp', <- Hp. rewrite arr_get_mid by reflexivity.
      rewrite nth_d_mid. reflexivity.
    + split; [reflexivity|].
      replace ((i <? 0) || (i >=? zlen (sv a))) with true by (unfold in_idx in E; lia).
      reflexivity.
  - (* Append *) split; reflexivity.
  - (* Add *)
    unfold al_add. destruct ((0 <=? i) && (i <=? zlen (sv a))) eqn:E.
    + rewrite slice_add_ok by lia. split; reflexivity.
    + rewrite slice_add_err by lia. split; reflexivity.
  - (* Set *)
    unfold al_set. destruct (in_idx i (zlen (sv a))) eqn:E.
    + replace ((i >=? zlen (sv a)) || (i <? 0)) with false by (unfold in_idx in E; lia).
      destruct (split_mid_z (sv a) i) as [p [y [q [Hs [Hp Hp']]]]]; [unfold in_idx in E; lia|].
      rewrite Hs, <- Hp', <- Hp. rewrite arr_set_mid by reflexivity.
      rewrite set_nth_mid. cbn [fst snd sv canon]. split; reflexivity.
    + replace ((i >=? zlen (sv a)) || (i <? 0)) with true by (unfold in_idx in E; lia).
      split; reflexivity.
  - (* Delete *)
    unfold al_delete. destruct (in_idx i (zlen (sv a))) eqn:E.
    + rewrite slice_delete_ok by (unfold in_idx in E; lia).
      destruct (shrink_ok {| sv := remove_at (sv a) (Z.to_nat i); sc := sc a |} c)
        as [s' [Hs' [Hv _]]].
      rewrite Hs'. cbn [fst snd canon]. rewrite Hv. split; reflexivity.
    + rewrite slice_delete_err by (unfold in_idx in E; lia). split; reflexivity.
  - split; reflexivity.
  - split; reflexivity.
  - cbn [fst snd canon]. split; [reflexivity|].
    pose proof (range_loop_seq (sv a) stop) as H. cbv zeta in H. rewrite H. reflexivity.
  - cbn [fst snd]. rewrite as_slice_of_spec. split; reflexivity.
Qed.

(* len <= cap is preserved by every ArrayList operation, whatever the oracle says *)
Lemma set_nth_length : forall (l : list Z) n v, length (set_nth l n v) = length l.
Proof.
  induction l as [|y l IH]; intros [|n] v; cbn [set_nth length]; try reflexivity.
  now rewrite IH.
Qed.

Lemma al_step_inv : forall a o c,
  zlen (sv a) <= sc a -> zlen (sv (fst (al_step a o c))) <= sc (fst (al_step a o c)).
Proof.
  intros a o c Hinv. destruct o as [i|xs|i x|i x|i| | |stop| ]; cbn [al_step fst]; try exact Hinv.
  - apply go_append_inv.
  - unfold al_add. destruct ((0 <=? i) && (i <=? zlen (sv a))) eqn:E.
    + rewrite slice_add_ok by lia. cbn [fst sv sc].
      destruct (split_at_z (sv a) i) as [p [r [Hs [Hp Hp']]]]; [lia|].
      rewrite Hs at 1. rewrite <- Hp', insert_at_mid.
      pose proof (go_append_inv a [0] c) as H. rewrite go_append_sv, Hs in H.
      revert H. zl.
    + rewrite slice_add_err by lia. exact Hinv.
  - unfold al_set. destruct ((i >=? zlen (sv a)) || (i <? 0)); [exact Hinv|].
    unfold arr_set. destruct (in_idx i (zlen (sv a))); [|exact Hinv].
    cbn [fst sv sc]. unfold zlen in *. rewrite set_nth_length. exact Hinv.
  - unfold al_delete. destruct (in_idx i (zlen (sv a))) eqn:E.
    + rewrite slice_delete_ok by (unfold in_idx in E; lia).
      destruct (shrink_ok {| sv := remove_at (sv a) (Z.to_nat i); sc := sc a |} c)
        as [s' [Hs' [_ Hi]]].
      rewrite Hs'. cbn [fst]. apply Hi. cbn [sv sc].
      destruct (split_mid_z (sv a) i) as [p [y [q [Hs [Hp Hp']]]]]; [unfold in_idx in E; lia|].
      rewrite Hs, <- Hp', remove_at_mid. rewrite Hs in Hinv. revert Hinv. zl.
    + rewrite slice_delete_err by (unfold in_idx in E; lia). exact Hinv.
Qed.

(* an ArrayList call that returns an error returns the very same state *)
Lemma al_step_err_id : forall a o c e, snd (al_step a o c) = Err e -> fst (al_step a o c) = a.
Proof.
  intros a o c e H. destruct o as [i|xs|i x|i x|i| | |stop| ]; cbn [al_step fst snd] in *;
    try reflexivity; try discriminate.
  - unfold al_add in *. destruct (slice_add a x i c); cbn [fst snd] in *;
      try reflexivity; discriminate.
  - unfold al_set in *. destruct ((i >=? zlen (sv a)) || (i <? 0)); [reflexivity|].
    destruct (arr_set (sv a) i x); cbn [fst snd] in *; try reflexivity; discriminate.
  - unfold al_delete in *. destruct (slice_delete a i) as [[res t]| |]; cbn [fst snd] in *;
      try reflexivity.
    destruct (shrink res c); cbn [fst snd] in *; try reflexivity; discriminate.
Qed.

(* ====================================================================== *)
(* The pinned behaviour (documentation of the two defects that were fixed) *)
(* ====================================================================== *)
(* [Append 1 2 3; Add 7 9]: the failed Add returned an error AND emptied the list *)
Lemma failed_add_wipes_pinned_refuted :
  exists a i x c a' e,
    al_add_pinned a i x c = (a', Err e) /\ sv a = [1; 2; 3] /\ sv a' = [] /\
    (* whereas the abstract sequence is unchanged by the failed call *)
    fst (seq_step (sv a) (OpAdd i x)) = [1; 2; 3].
Proof.
  exists {| sv := [1; 2; 3]; sc := 5 |}, 7, 9, 5, {| sv := []; sc := 0 |}, EIndex.
  repeat split.
Qed.

(* NewArrayList(65); Append 1; Delete 0: Shrink computed 65/0 *)
Lemma delete_last_panics_pinned_refuted :
  exists a i c, sv a = [1] /\ sc a = 65 /\ snd (al_delete_pinned a i c) = Panic /\
    snd (seq_step (sv a) (OpDelete i)) = Ok (OVal 1).
Proof.
  exists {| sv := [1]; sc := 65 |}, 0, 65. repeat split.
Qed.

(* the same two inputs on the model of the code as it is now *)
Lemma failed_add_now : forall c,
  al_step {| sv := [1; 2; 3]; sc := 5 |} (OpAdd 7 9) c = ({| sv := [1; 2; 3]; sc := 5 |}, Err EIndex).
Proof. reflexivity. Qed.

Lemma delete_last_now : forall c,
  al_step {| sv := [1]; sc := 65 |} (OpDelete 0) c = ({| sv := []; sc := 32 |}, Ok (OVal 1)).
Proof. reflexivity. Qed.
