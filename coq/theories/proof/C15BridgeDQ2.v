(* C15BridgeDQ2.v — the trace-level COMPOSITION for queue.DelayQueue (model DQModel.v).

   Every DStep of a model run is mapped to the HB events of the statement it executes (plain reads /
   writes and Lock / Unlock of d.mutex, transcribed from the Go statements of Enqueue, Dequeue,
   cond.broadcast and cond.signalCh; channel, timer and context operations are not emitted: fewer
   happens-before edges = conservative; the local timer is goroutine-private).  The model-level lock
   state is read off the model's LOCK WORD (the owner q_mutex), not off program counters; the proved
   invariant invA ties it to the sections.  For EVERY event list (TICK / FIRE / CANCEL included) the
   resulting execution is well-formed (HB.wf), respects the guards of dq_table (HB.holds evaluated on
   the trace) and hence has no data race. *)
From Coq Require Import List String Bool Arith Lia ZArith.
From Ekit Require Import Common HB FootprintModel FootprintProof C15Bridge Conc DQModel DQProof C15BridgeDQ.
Import ListNotations.
Open Scope string_scope.

Definition nmd (f : string) : name := lname (TY_DQ ++ "." ++ f).
Definition lk_DQ : name := lname MU_DQ.

Inductive lock_kind := LkAcq | LkRel | LkNone.
Definition lock_kind_DQ (p : dq_pc) : lock_kind :=
  match p with
  | ELock | DLock0 | DLock1 => LkAcq
  | EDefUnlock | DUnlock2 | DDefUnlock | Bc4 | Sc2 => LkRel
  | _ => LkNone
  end.

Definition acts_DQ (s : dq_site) (p : dq_pc) : list action :=
  match p with
  | ELock | DLock0 | DLock1 => [Read (nmd "mutex"); Acq lk_DQ Excl]
  | EDo => [Write (nmd "q.*")]
  | EBcast => [Read (nmd "enqueueSignal")]
  | ESigCh => [Read (nmd "dequeueSignal")]
  | EDefUnlock | DUnlock2 | DDefUnlock => [Read (nmd "mutex"); Rel lk_DQ Excl]
  | DPeek0 | DPeek1 => [Read (nmd "q.*")]
  | DDeq0 | DDeq1 => [Write (nmd "q.*")]
  | DBcast0 | DBcast1 => [Read (nmd "dequeueSignal")]
  | DSigCh0 | DSigCh1 => [Read (nmd "enqueueSignal")]
  | Bc2 => [Read (lname "cond.signal")]
  | Bc3 => [Write (lname "cond.signal")]
  | Bc4 => [Read (lname "cond.l"); Rel lk_DQ Excl]
  | Sc1 => [Read (lname "cond.signal")]
  | Sc2 => [Read (lname "cond.l"); Rel lk_DQ Excl]
  | _ => []
  end.

Definition emit_DQ (c : dq_cfg) (e : dq_ev) : list event :=
  match e with
  | DStep t _ => match lookup t (q_thr c) with
                 | Some th => map (mkEv t) (acts_DQ (t_site th) (t_pc th))
                 | None => []
                 end
  | _ => []
  end.

Definition dq_trace (cap : Z) (old : bool) (evs : list dq_ev) : execution :=
  trace dq_cfg dq_ev dq_step emit_DQ (dq_init cap old) evs.

Definition eff_DQ (p : dq_pc) : bool * bool * option mode :=
  match lock_kind_DQ p with
  | LkAcq => (true, false, Some Excl)
  | LkRel => (false, false, None)
  | LkNone => (holds_lock p, false, None)
  end.

Lemma acts_sim_DQ s p : site_ok p s = true ->
  sim MU_DQ (rows_of_func dq_table (func_of_pc_DQ s p)) (holds_lock p) false false None (acts_DQ s p)
  = Some (eff_DQ p).
Proof. destruct s, p; intros H; try discriminate H; vm_compute; reflexivity. Qed.

Lemma acts_cover_table_DQ :
  forallb (fun x => let '(s, p) := x in
     forallb (fun a => action_inb a (acts_DQ s p))
             (stmt_actions dq_table (func_of_pc_DQ s p) (rstmt_of_pc_DQ p))) all_spcs_DQ = true.
Proof. vm_compute. reflexivity. Qed.

(* the model-level lock state: the owner word *)
Definition hold_DQ (c : dq_cfg) : lstate :=
  fun t m => match m with Excl => mutex_is c t | Shared => false end.

(* what a step of thread t does to the owner word *)
Lemma dq_mutex_step c t th k c' obs :
  dq_step_thr c t th k = Some (c', obs) ->
  match lock_kind_DQ (t_pc th) with
  | LkAcq => q_mutex c = None /\ q_mutex c' = Some t
  | LkRel => q_mutex c' = None
  | LkNone => q_mutex c' = q_mutex c
  end.
Proof.
  intros H. unfold dq_step_thr in H.
  destruct (t_pc th) eqn:Hpc; cbn [lock_kind_DQ];
    unfold goto, park, fin, sel, do_peek, do_deq, fin_log, q_unlock in H;
    repeat match type of H with
           | context [match ?x with _ => _ end] =>
             match x with
             | context [match _ with _ => _ end] => fail 1
             | _ => destruct x eqn:?; try discriminate H
             end
           end;
    try discriminate H; try (injection H as <- _); try (split; [reflexivity|]);
    try (destruct (bcond (t_site th))); try (destruct (wcond (t_site th))); try reflexivity;
    cbn [q_mutex qset_thr qset_bad qset_mutex qset_heap qset_ins qset_out qset_okd qset_now qset_cnd] in *; congruence.
Qed.

(* the events that are not statements leave the owner word alone *)
Lemma dq_mutex_other c e c' obs :
  dq_exec1 c e = Some (c', obs) -> (forall t k, e <> DStep t k) -> q_mutex c' = q_mutex c.
Proof.
  intros H Hne. destruct e as [t x|t|t k|t|t|d]; cbn [dq_exec1] in H.
  - destruct (lookup t (q_thr c)); [discriminate|]. injection H as <- _. reflexivity.
  - destruct (lookup t (q_thr c)); [discriminate|]. injection H as <- _. reflexivity.
  - exfalso. eapply Hne. reflexivity.
  - destruct (lookup t (q_thr c)) as [th|]; [|discriminate]. unfold goto in H.
    destruct (t_canc th); [discriminate|]. destruct (is_park (t_pc th)); injection H as <- _; reflexivity.
  - destruct (lookup t (q_thr c)) as [th|]; [|discriminate]. unfold goto in H.
    destruct (t_tm th) as [[[f|] b]|]; try discriminate.
    destruct (f <=? q_now c)%Z; [|discriminate].
    destruct (is_tpark (t_pc th)); injection H as <- _; reflexivity.
  - destruct (0 <=? d)%Z; [|discriminate]. injection H as <- _. reflexivity.
Qed.

Lemma hold_DQ_same c c' : q_mutex c' = q_mutex c -> ls_eq (hold_DQ c) (hold_DQ c').
Proof. intros E t m. unfold hold_DQ, mutex_is. rewrite E. reflexivity. Qed.

Lemma step_ok_DQ c e c' :
  invA c -> dq_step c e = Some c' ->
  invA c' /\ all_ok MU_DQ dq_table (hold_DQ c) (emit_DQ c e) /\
  ls_eq (upds MU_DQ (hold_DQ c) (emit_DQ c e)) (hold_DQ c').
Proof.
  intros I Hs. unfold dq_step in Hs.
  destruct (dq_exec1 c e) as [[c2 obs]|] eqn:H; [|discriminate]. injection Hs as <-.
  split; [eapply invA_step; eassumption|].
  destruct e as [t x|t|t k|t|t|d];
    try (split; [exact Logic.I|]; cbn [emit_DQ upds fold_left];
         apply hold_DQ_same; eapply dq_mutex_other; [exact H|intros; discriminate]).
  cbn [dq_exec1] in H. unfold emit_DQ.
  destruct (lookup t (q_thr c)) as [th|] eqn:Hl; [|discriminate].
  pose proof (dq_mutex_step c t th k c2 obs H) as Hm.
  pose proof (a_mutex c I t) as Hmx. unfold holds_at in Hmx. rewrite Hl in Hmx.
  pose proof (acts_sim_DQ (t_site th) (t_pc th) (a_site c I t th Hl)) as Hsim.
  assert (Hx : hold_DQ c t Excl = holds_lock (t_pc th)) by (unfold hold_DQ; now rewrite Hmx).
  assert (Hsh : hold_DQ c t Shared = false) by reflexivity.
  rewrite <- Hx, <- Hsh in Hsim.
  destruct (sim_sound MU_DQ dq_table _ t _ (rows_of_func_incl _ _) _ _ _ _ Hsim) as [Hok Hu].
  { intros _ m Hm0. unfold eff_DQ in Hm0.
    destruct (lock_kind_DQ (t_pc th)); try discriminate Hm0. injection Hm0 as <-.
    destruct Hm as [Hn _]. split; [|intros _ t'; reflexivity].
    intros t'. unfold hold_DQ, mutex_is. rewrite Hn. reflexivity. }
  split; [exact Hok|]. intros t' m. rewrite Hu. unfold set_ls, hold_DQ, mutex_is, eff_DQ.
  destruct m; [|destruct (Nat.eqb t' t); destruct (lock_kind_DQ (t_pc th)); reflexivity].
  unfold mutex_is in Hmx.
  destruct (lock_kind_DQ (t_pc th)) eqn:Ek; cbn [fst snd].
  - destruct Hm as [Hn Hs]. rewrite Hs, Hn.
    destruct (Nat.eqb t' t) eqn:Et.
    + apply Nat.eqb_eq in Et. subst. now rewrite Nat.eqb_refl.
    + rewrite Nat.eqb_sym. now rewrite Et.
  - rewrite Hm. destruct (Nat.eqb t' t) eqn:Et; [reflexivity|].
    (* the releasing thread owned the mutex: holds_lock at its pc *)
    assert (Hh : holds_lock (t_pc th) = true) by (destruct (t_pc th); cbn in Ek; try discriminate Ek; reflexivity).
    rewrite Hh in Hmx. destruct (q_mutex c) as [w|]; [|discriminate Hmx].
    symmetry in Hmx. apply Nat.eqb_eq in Hmx. subst w. rewrite Nat.eqb_sym. now rewrite Et.
  - rewrite Hm. destruct (Nat.eqb t' t) eqn:Et; [|reflexivity].
    apply Nat.eqb_eq in Et. subst t'. first [exact Hmx | symmetry; exact Hmx].
Qed.

Lemma hold_DQ_init cap old : ls_eq (hold_DQ (dq_init cap old)) ls0.
Proof. intros t m. destruct m; reflexivity. Qed.

Theorem dq_trace_drf_lemma cap old evs c :
  exec dq_step (dq_init cap old) evs = Some c ->
  wf (dq_trace cap old evs) /\ guards_respected dq_table (dq_trace cap old evs) /\ ~ race (dq_trace cap old evs).
Proof.
  intros Hex.
  destruct (model_trace_wf_guards MU_DQ dq_table dq_cfg dq_ev dq_step emit_DQ invA hold_DQ step_ok_DQ
              (dq_init cap old) evs c (invA_init cap old) (hold_DQ_init cap old) Hex) as [Hwf Hg].
  split; [exact Hwf|]. split; [exact Hg|]. exact (drf_dq_lemma _ Hwf Hg).
Qed.
