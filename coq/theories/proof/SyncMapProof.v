(* C06 — syncx.Map: the linearisation points annotated in model/SyncMapModel.v are sound. *)
From Ekit Require Import Common Conc LockedModel LockedProof SyncMapModel.

(* what each program counter knows about its locals (thread-local facts only: the map itself is
   an atomic object, there is no lock whose protocol would have to be tracked) *)
Definition sm_val_ok (o : sm_op) (val : Z) : Prop :=
  match o with
  | MLoadOrStore _ v => val = v
  | MLoadOrStoreFunc _ v fails => fails = false /\ val = v
  | _ => False
  end.

Definition sm_is_f (o : sm_op) : Prop :=
  match o with MLoadOrStoreFunc _ _ _ => True | _ => False end.

Definition sm_ok (x : sm_op * sm_pc) : Prop :=
  let (o, p) := x in
  match p with
  | LdAssert found | LdlAssert found => found <> None
  | LsAtomic v | FLs v => sm_val_ok o v
  | FIfOk _ _ => sm_is_f o
  | FIfErr val err =>
    match o with
    | MLoadOrStoreFunc _ v fails => err = fails /\ (fails = false -> val = v)
    | _ => False
    end
  | _ => True
  end.

Definition sm_I (m : smap) (thr : list (tid * (sm_op * sm_pc))) : Prop := all_thr sm_ok thr.

Lemma sm_Hentry : forall o, sm_phase o (sm_entry o) = PhCalled o.
Proof. intros o; destruct o; reflexivity. Qed.

Lemma sm_Hcall m thr t o :
  sm_I m thr -> NoDup (tids thr) -> lookup t thr = None -> sm_I m (spawn t (o, sm_entry o) thr).
Proof.
  intros HI _ Hl. apply all_thr_spawn; [exact HI|exact Hl|].
  destruct o; cbn; auto.
Qed.

Lemma opt_ok_false x : opt_ok x = false -> x = None.
Proof. destruct x; [discriminate|reflexivity]. Qed.

Lemma sm_Hstep m thr t o p m' nx :
  sm_I m thr -> NoDup (tids thr) -> lookup t thr = Some (o, p) -> sm_tstep m o p = Some (m', nx) ->
  step_contract smap sm_op sm_ret smap sm_pc sm_seq_step (fun m => m) sm_phase sm_I m thr t o p m' nx.
Proof.
  intros HI Hnd Hl Ht. pose proof (HI _ _ Hl) as Hok.
  assert (Hupd : forall p', sm_ok (o, p') -> sm_I m' (update t (o, p') thr)).
  { intros p' Hp'. eapply all_thr_update; [exact HI|exact Hl|exact Hp']. }
  assert (Hrem : sm_I m' (remove t thr)) by (apply all_thr_remove; assumption).
  destruct p; cbn [sm_tstep] in Ht; cbn [sm_ok] in Hok.
  - (* LdAtomic *)
    destruct o as [k|k v|k v|k v fails|k|k]; try discriminate.
    + injection Ht as <- <-. cbn [step_contract]. split; [reflexivity|].
      split; [reflexivity|]. split; [reflexivity|]. apply Hupd. exact I.
    + cbn [sm_key] in Ht. destruct (opt_ok (m_get k m) || fails) eqn:Eb; injection Ht as <- <-; cbn [step_contract].
      * split; [cbn; destruct (m_get k m); [reflexivity|destruct fails; [reflexivity|discriminate]]|].
        split; [reflexivity|]. split; [|apply Hupd; exact I].
        cbn. destruct (m_get k m) as [x|]; cbn; [reflexivity|].
        cbn in Eb. rewrite Eb. reflexivity.
      * apply orb_false_iff in Eb. destruct Eb as [Eo ->]. apply opt_ok_false in Eo.
        split; [reflexivity|]. split; [cbn; rewrite Eo; reflexivity|apply Hupd; exact I].
  - (* LdIf *)
    destruct (opt_ok found) eqn:Eo; injection Ht as <- <-; cbn [step_contract].
    + split; [reflexivity|]. split; [reflexivity|]. apply Hupd. cbn. intros ->. discriminate.
    + apply opt_ok_false in Eo. subst found. split; [reflexivity|]. split; [reflexivity|apply Hupd; exact I].
  - (* LdAssert *)
    destruct found as [v|]; [|congruence]. injection Ht as <- <-. cbn [step_contract].
    split; [reflexivity|]. split; [reflexivity|apply Hupd; exact I].
  - (* LdRet *)
    destruct o as [k|k v|k v|k v fails|k|k]; try discriminate; injection Ht as <- <-; cbn [step_contract].
    + split; [reflexivity|]. split; [reflexivity|exact Hrem].
    + split; [reflexivity|]. split; [reflexivity|apply Hupd; exact I].
  - (* StAtomic *)
    destruct o as [k|k v|k v|k v fails|k|k]; try discriminate. injection Ht as <- <-. cbn [step_contract].
    split; [reflexivity|]. split; [reflexivity|exact Hrem].
  - (* LsAtomic *)
    destruct o as [k|k v0|k v0|k v0 fails|k|k]; cbn [sm_val_ok] in Hok; try contradiction; cbn [sm_key] in Ht.
    + subst v. destruct (m_get k m) as [x|] eqn:Eg; injection Ht as <- <-; cbn [step_contract sm_seq_step];
        rewrite Eg; (split; [reflexivity|]); (split; [reflexivity|]); (split; [reflexivity|apply Hupd; exact I]).
    + destruct Hok as [-> ->]. destruct (m_get k m) as [x|] eqn:Eg; injection Ht as <- <-; cbn [step_contract sm_seq_step];
        rewrite Eg; (split; [reflexivity|]); (split; [reflexivity|]); (split; [reflexivity|apply Hupd; exact I]).
  - (* LsIf *)
    injection Ht as <- <-. cbn [step_contract]. split; [reflexivity|]. split; [reflexivity|apply Hupd; exact I].
  - (* LsAssert *)
    injection Ht as <- <-. cbn [step_contract]. split; [reflexivity|]. split; [reflexivity|apply Hupd; exact I].
  - (* LsRet *)
    destruct o as [k|k v|k v|k v fails|k|k]; try discriminate; injection Ht as <- <-; cbn [step_contract].
    + split; [reflexivity|]. split; [reflexivity|exact Hrem].
    + split; [reflexivity|]. split; [reflexivity|apply Hupd; exact I].
  - (* FLoad *)
    injection Ht as <- <-. cbn [step_contract]. split; [reflexivity|]. split; [reflexivity|apply Hupd; exact I].
  - (* FIfOk *)
    destruct o as [k|k v|k v|k v fails|k|k]; cbn [sm_is_f] in Hok; try contradiction.
    destruct ok; injection Ht as <- <-; cbn [step_contract].
    + split; [reflexivity|]. split; [reflexivity|apply Hupd; exact I].
    + split; [reflexivity|]. split; [reflexivity|apply Hupd; exact I].
  - (* FRetLoaded *)
    injection Ht as <- <-. cbn [step_contract]. split; [reflexivity|]. split; [reflexivity|exact Hrem].
  - (* FFn *)
    destruct o as [k|k v|k v|k v fails|k|k]; try discriminate. injection Ht as <- <-. cbn [step_contract].
    split; [reflexivity|]. split; [reflexivity|]. apply Hupd. cbn. split; [reflexivity|].
    intros ->. reflexivity.
  - (* FIfErr *)
    destruct o as [k|k v|k v|k v fails|k|k]; try contradiction. destruct Hok as [-> Hv].
    destruct fails; injection Ht as <- <-; cbn [step_contract].
    + split; [reflexivity|]. split; [reflexivity|apply Hupd; exact I].
    + split; [reflexivity|]. split; [reflexivity|]. apply Hupd. cbn. split; [reflexivity|apply Hv; reflexivity].
  - (* FRetErr *)
    injection Ht as <- <-. cbn [step_contract]. split; [reflexivity|]. split; [reflexivity|exact Hrem].
  - (* FLs *)
    injection Ht as <- <-. cbn [step_contract]. split; [reflexivity|]. split; [reflexivity|apply Hupd; exact Hok].
  - (* FRet *)
    injection Ht as <- <-. cbn [step_contract]. split; [reflexivity|]. split; [reflexivity|exact Hrem].
  - (* LdlAtomic *)
    destruct o as [k|k v|k v|k v fails|k|k]; try discriminate. injection Ht as <- <-. cbn [step_contract].
    split; [reflexivity|]. split; [reflexivity|]. split; [reflexivity|apply Hupd; exact I].
  - (* LdlIf *)
    destruct (opt_ok found) eqn:Eo; injection Ht as <- <-; cbn [step_contract].
    + split; [reflexivity|]. split; [reflexivity|]. apply Hupd. cbn. intros ->. discriminate.
    + apply opt_ok_false in Eo. subst found. split; [reflexivity|]. split; [reflexivity|apply Hupd; exact I].
  - (* LdlAssert *)
    destruct found as [v|]; [|congruence]. injection Ht as <- <-. cbn [step_contract].
    split; [reflexivity|]. split; [reflexivity|apply Hupd; exact I].
  - (* LdlRet *)
    injection Ht as <- <-. cbn [step_contract]. split; [reflexivity|]. split; [reflexivity|exact Hrem].
  - (* DlAtomic *)
    destruct o as [k|k v|k v|k v fails|k|k]; try discriminate. injection Ht as <- <-. cbn [step_contract].
    split; [reflexivity|]. split; [reflexivity|exact Hrem].
Qed.

Lemma sm_I_init m : sm_I m [].
Proof. apply all_thr_nil. Qed.

Theorem syncmap_linearizable_lemma m0 :
  forall evs c, exec sm_step (sm_init m0) evs = Some c ->
    seq_legal sm_seq_step m0 (lin_ops (s_hist c)) (s_sh c) /\
    (forall t, thread_hist t (s_hist c) (entry_phase sm_phase (lookup t (s_thr c)))) /\
    NoDup (tids (s_thr c)).
Proof.
  intros evs c He.
  pose proof (sys_inv_reachable smap sm_op sm_ret smap sm_pc sm_seq_step sm_entry sm_tstep
                (fun m => m) sm_phase sm_I sm_Hentry sm_Hcall sm_Hstep m0 (sm_I_init m0) evs c He)
    as [_ Hnd Hleg Hhist].
  split; [exact Hleg|split; [exact Hhist|exact Hnd]].
Qed.

Theorem syncmap_step_lemma m0 :
  forall evs c e c', exec sm_step (sm_init m0) evs = Some c -> sm_step c e = Some c' ->
    (s_sh c' = s_sh c /\ lin_ops (s_hist c') = lin_ops (s_hist c)) \/
    (exists o r, sm_seq_step (s_sh c) o = (s_sh c', r) /\
                 lin_ops (s_hist c') = lin_ops (s_hist c) ++ [(o, r)]).
Proof.
  exact (sys_step_abs smap sm_op sm_ret smap sm_pc sm_seq_step sm_entry sm_tstep
           (fun m => m) sm_phase sm_I sm_Hentry sm_Hcall sm_Hstep m0 (sm_I_init m0)).
Qed.

Theorem syncmap_no_panic_lemma m0 :
  forall evs c t c' ob, exec sm_step (sm_init m0) evs = Some c ->
    sm_exec1 c (EStep t) = Some (c', ob) -> ob <> OPanic.
Proof.
  exact (sys_no_panic smap sm_op sm_ret smap sm_pc sm_seq_step sm_entry sm_tstep
           (fun m => m) sm_phase sm_I sm_Hentry sm_Hcall sm_Hstep m0 (sm_I_init m0)).
Qed.
