(* Proofs about SliceModel (C16), extra: the predicate-taking set functions for a GENERAL
   equivalence `equal`, mapx.Keys alone, and KeysValues (ToMap ks vs). *)
From Ekit Require Import Common SliceModel SliceProof SliceProof2 SliceProof3.
From Coq Require Import ZifyBool Permutation.

(* ================================================================== *)
(* deduplicateFunc: a law that holds for EVERY equal (no hypothesis)   *)
Section AnyEqual.
  Variable equal : Z -> Z -> bool.

  Lemma contains_func_snoc_any l v a :
    contains_func (l ++ [v]) (fun s => equal s a) = contains_func l (fun s => equal s a) || equal v a.
  Proof. unfold contains_func. rewrite existsb_app. cbn [existsb]. rewrite orb_false_r. reflexivity. Qed.

  (* the LAST element always survives and removes every earlier element it is equal to *)
  Lemma deduplicate_func_snoc_any l v :
    deduplicate_func equal (l ++ [v]) =
    filter (fun y => negb (equal v y)) (deduplicate_func equal l) ++ [v].
  Proof.
    induction l as [|a t IH]; [reflexivity|].
    cbn [app deduplicate_func]. rewrite contains_func_snoc_any.
    destruct (equal v a) eqn:Hva.
    - rewrite orb_true_r, IH.
      destruct (contains_func t (fun s => equal s a)); [reflexivity|].
      cbn [filter]. rewrite Hva. reflexivity.
    - rewrite orb_false_r.
      destruct (contains_func t (fun s => equal s a)); [exact IH|].
      cbn [filter]. rewrite Hva. cbn [negb app]. rewrite IH. reflexivity.
  Qed.

  (* an occurrence is kept exactly when no LATER element is equal to it *)
  Lemma deduplicate_func_app_any l1 : forall l2,
    deduplicate_func equal (l1 ++ l2) =
    filter (fun y => negb (contains_func l2 (fun s => equal s y))) (deduplicate_func equal l1) ++
    deduplicate_func equal l2.
  Proof.
    induction l1 as [|a t IH]; intros l2; [reflexivity|].
    cbn [app deduplicate_func].
    assert (Hc : contains_func (t ++ l2) (fun s => equal s a) =
                 contains_func t (fun s => equal s a) || contains_func l2 (fun s => equal s a)).
    { unfold contains_func. apply existsb_app. }
    rewrite Hc. destruct (contains_func t (fun s => equal s a)); cbn [orb]; [apply IH|].
    cbn [filter]. destruct (contains_func l2 (fun s => equal s a)); cbn [negb app]; rewrite IH; reflexivity.
  Qed.

  Lemma contains_any_func_any src dst :
    contains_any_func equal src dst = true <-> exists vd vs, In vd dst /\ In vs src /\ equal vs vd = true.
  Proof.
    unfold contains_any_func. rewrite existsb_exists. split.
    - intros [vd [Hd He]]. apply existsb_exists in He. destruct He as [vs [Hs He]].
      exists vd, vs. repeat split; assumption.
    - intros [vd [vs [Hd [Hs He]]]]. exists vd. split; [exact Hd|]. apply existsb_exists. exists vs. split; assumption.
  Qed.
  Lemma contains_all_func_any src dst :
    contains_all_func equal src dst = true <-> forall vd, In vd dst -> exists vs, In vs src /\ equal vs vd = true.
  Proof.
    unfold contains_all_func, contains_func. rewrite forallb_forall. split.
    - intros H vd Hd. apply existsb_exists. apply H. exact Hd.
    - intros H vd Hd. apply existsb_exists. apply H. exact Hd.
  Qed.
End AnyEqual.

(* ================================================================== *)
(* equal is an equivalence relation                                    *)
Section Equivalence.
  Variable equal : Z -> Z -> bool.
  Hypothesis equal_refl : forall a, equal a a = true.
  Hypothesis equal_sym : forall a b, equal a b = equal b a.
  Hypothesis equal_trans : forall a b c, equal a b = true -> equal b c = true -> equal a c = true.

  (* x has an equal element in l *)
  Definition has_eq (l : list Z) (x : Z) : Prop := exists y, In y l /\ equal y x = true.
  (* no two elements (at different positions) are equal *)
  Definition pairwise_distinct (l : list Z) : Prop := ForallOrdPairs (fun a b => equal a b = false) l.

  Lemma contains_func_has_eq l x : contains_func l (fun s => equal s x) = true <-> has_eq l x.
  Proof. unfold contains_func, has_eq. apply existsb_exists. Qed.
  Lemma contains_func_not_has_eq l x : contains_func l (fun s => equal s x) = false <-> ~ has_eq l x.
  Proof. apply bool_false_iff. apply contains_func_has_eq. Qed.

  Lemma has_eq_equal l x x' : equal x x' = true -> has_eq l x -> has_eq l x'.
  Proof. intros He [y [Hy Hyx]]. exists y. split; [exact Hy|]. exact (equal_trans _ _ _ Hyx He). Qed.

  (* every element of the input is represented in the result *)
  Lemma deduplicate_func_complete l : forall x, In x l -> has_eq (deduplicate_func equal l) x.
  Proof.
    induction l as [|v t IH]; [intros x []|].
    cbn [deduplicate_func]. intros x Hx.
    destruct (contains_func t (fun s => equal s v)) eqn:Hc.
    - destruct Hx as [Hx|Hx]; [|apply IH; exact Hx]. subst x.
      apply contains_func_has_eq in Hc. destruct Hc as [s [Hs Hsv]].
      apply (has_eq_equal _ s v Hsv). apply IH. exact Hs.
    - destruct Hx as [Hx|Hx].
      + subst x. exists v. split; [left; reflexivity|apply equal_refl].
      + destruct (IH x Hx) as [y [Hy Hyx]]. exists y. split; [right; exact Hy|exact Hyx].
  Qed.

  (* every class is represented once *)
  Lemma deduplicate_func_distinct l : pairwise_distinct (deduplicate_func equal l).
  Proof.
    induction l as [|v t IH]; [constructor|].
    cbn [deduplicate_func]. destruct (contains_func t (fun s => equal s v)) eqn:Hc; [exact IH|].
    constructor; [|exact IH].
    apply Forall_forall. intros b Hb. apply deduplicate_func_incl in Hb.
    rewrite equal_sym. destruct (equal b v) eqn:Hbv; [|reflexivity].
    exfalso. apply (proj1 (contains_func_not_has_eq t v) Hc). exists b. split; assumption.
  Qed.

  Lemma pairwise_distinct_In l : pairwise_distinct l ->
    forall pre a mid b post, l = pre ++ a :: mid ++ b :: post -> equal a b = false.
  Proof.
    intros Hd. induction Hd as [|x t Hx Hd IH]; intros pre a mid b post He.
    - destruct pre; discriminate He.
    - destruct pre as [|p pre'].
      + cbn [app] in He. injection He as He1 He2. subst x t.
        apply (proj1 (Forall_forall _ _) Hx). apply in_or_app. right. left. reflexivity.
      + cbn [app] in He. injection He as He1 He2. apply (IH pre' a mid b post He2).
  Qed.

  (* --- the four set functions, exact up to the equivalence --- *)
  Lemma union_set_func_equiv src dst :
    (forall y, In y (union_set_func equal src dst) -> In y src \/ In y dst) /\
    (forall x, In x src \/ In x dst -> has_eq (union_set_func equal src dst) x) /\
    pairwise_distinct (union_set_func equal src dst).
  Proof.
    unfold union_set_func. split; [|split].
    - intros y Hy. apply deduplicate_func_incl in Hy. apply in_app_or in Hy. destruct Hy; [right|left]; assumption.
    - intros x Hx. apply deduplicate_func_complete. apply in_or_app. destruct Hx; [right|left]; assumption.
    - apply deduplicate_func_distinct.
  Qed.

  Lemma intersect_set_func_equiv src dst :
    (forall y, In y (intersect_set_func equal src dst) -> In y dst /\ has_eq src y) /\
    (forall x, In x dst -> has_eq src x -> has_eq (intersect_set_func equal src dst) x) /\
    pairwise_distinct (intersect_set_func equal src dst).
  Proof.
    unfold intersect_set_func. split; [|split].
    - intros y Hy. apply deduplicate_func_incl in Hy. apply filter_In in Hy. destruct Hy as [Hd Hc].
      split; [exact Hd|]. apply contains_func_has_eq. exact Hc.
    - intros x Hd Hs. apply deduplicate_func_complete. apply filter_In. split; [exact Hd|].
      apply contains_func_has_eq. exact Hs.
    - apply deduplicate_func_distinct.
  Qed.

  Lemma diff_set_func_equiv src dst :
    (forall y, In y (diff_set_func equal src dst) -> In y src /\ ~ has_eq dst y) /\
    (forall x, In x src -> ~ has_eq dst x -> has_eq (diff_set_func equal src dst) x) /\
    pairwise_distinct (diff_set_func equal src dst).
  Proof.
    unfold diff_set_func. split; [|split].
    - intros y Hy. apply deduplicate_func_incl in Hy. apply filter_In in Hy. destruct Hy as [Hs Hc].
      split; [exact Hs|]. apply contains_func_not_has_eq. apply negb_true_iff. exact Hc.
    - intros x Hs Hd. apply deduplicate_func_complete. apply filter_In. split; [exact Hs|].
      apply negb_true_iff. apply contains_func_not_has_eq. exact Hd.
    - apply deduplicate_func_distinct.
  Qed.

  Lemma symdiff_set_func_equiv src dst :
    (forall y, In y (symdiff_set_func equal src dst) ->
               (In y src /\ ~ has_eq dst y) \/ (In y dst /\ ~ has_eq src y)) /\
    (forall x, (In x src /\ ~ has_eq dst x) \/ (In x dst /\ ~ has_eq src x) ->
               has_eq (symdiff_set_func equal src dst) x) /\
    pairwise_distinct (symdiff_set_func equal src dst).
  Proof.
    unfold symdiff_set_func. split; [|split].
    - intros y Hy. apply deduplicate_func_incl in Hy. apply in_app_or in Hy.
      destruct Hy as [Hy|Hy]; apply filter_In in Hy; destruct Hy as [Hin Hc]; [left|right];
        (split; [exact Hin|]; apply contains_func_not_has_eq; apply negb_true_iff; exact Hc).
    - intros x Hx. apply deduplicate_func_complete. apply in_or_app.
      destruct Hx as [[Hin Hn]|[Hin Hn]]; [left|right]; apply filter_In;
        (split; [exact Hin|]; apply negb_true_iff; apply contains_func_not_has_eq; exact Hn).
    - apply deduplicate_func_distinct.
  Qed.
End Equivalence.

(* mod 3 is such an equivalence (and not the identity) *)
Lemma emod3_equivalence :
  (forall a, eeval EMod3 a a = true) /\ (forall a b, eeval EMod3 a b = eeval EMod3 b a) /\
  (forall a b c, eeval EMod3 a b = true -> eeval EMod3 b c = true -> eeval EMod3 a c = true).
Proof.
  unfold eeval. split; [|split].
  - intros a. apply Z.eqb_refl.
  - intros a b. apply Z.eqb_sym.
  - intros a b c H1 H2. apply Z.eqb_eq in H1. apply Z.eqb_eq in H2. apply Z.eqb_eq. congruence.
Qed.

(* ================================================================== *)
(* mapx.Keys                                                           *)
Lemma map_build_keys_In kvs k : In k (map_keys (map_build kvs)) <-> In k (map fst kvs).
Proof.
  unfold map_keys. induction kvs as [|[k' v] t IH] using rev_ind; [reflexivity|].
  rewrite map_build_snoc, map_put_keys, IH, map_app, in_app_iff. cbn [map fst In].
  split.
  - intros [H|H]; [right; left; symmetry; exact H|left; exact H].
  - intros [H|[H|[]]]; [right; exact H|left; symmetry; exact H].
Qed.

Lemma map_keys_lemma kvs :
  NoDup (map_keys (map_build kvs)) /\
  (forall k, In k (map_keys (map_build kvs)) <-> In k (map fst kvs)) /\
  Permutation (map_keys (map_build kvs)) (nodup Z.eq_dec (map fst kvs)).
Proof.
  assert (Hn : NoDup (map_keys (map_build kvs))) by apply map_build_wf.
  split; [exact Hn|]. split; [apply map_build_keys_In|].
  apply NoDup_Permutation; [exact Hn|apply NoDup_nodup|].
  intros k. rewrite nodup_In. apply map_build_keys_In.
Qed.

(* for an arbitrary Go map (distinct keys), in every enumeration order *)
Lemma map_keys_any_order_lemma m kvs : wf_map m -> Permutation kvs m ->
  NoDup (map fst kvs) /\ Permutation (map fst kvs) (map_keys m).
Proof.
  intros Hn Hp. assert (Hpk : Permutation (map fst kvs) (map fst m)) by (apply Permutation_map; exact Hp).
  split; [|exact Hpk]. apply (Permutation_NoDup (Permutation_sym Hpk)). exact Hn.
Qed.

(* ================================================================== *)
(* KeysValues (ToMap ks vs) = the last-wins deduplication of zip ks vs *)
Fixpoint lastwins (kvs : list (Z * Z)) : list (Z * Z) :=
  match kvs with
  | [] => []
  | (k, v) :: t => if existsb (fun kv => Z.eqb (fst kv) k) t then lastwins t else (k, v) :: lastwins t
  end.

Lemma lastwins_snoc kvs k v :
  lastwins (kvs ++ [(k, v)]) = filter (fun kv => negb (Z.eqb k (fst kv))) (lastwins kvs) ++ [(k, v)].
Proof.
  induction kvs as [|[k0 v0] t IH]; [reflexivity|].
  cbn [app lastwins]. rewrite existsb_app. cbn [existsb fst]. rewrite orb_false_r.
  destruct (Z.eqb_spec k k0) as [He|Hne].
  - subst k0. rewrite orb_true_r, IH.
    destruct (existsb (fun kv => Z.eqb (fst kv) k) t); [reflexivity|].
    cbn [filter fst]. rewrite Z.eqb_refl. reflexivity.
  - rewrite orb_false_r.
    destruct (existsb (fun kv => Z.eqb (fst kv) k0) t); [exact IH|].
    cbn [filter fst]. destruct (Z.eqb_spec k k0) as [Hc|_]; [exfalso; exact (Hne Hc)|].
    cbn [negb app]. rewrite IH. reflexivity.
Qed.

Lemma Permutation_filter_pairs (f : Z * Z -> bool) l l' :
  Permutation l l' -> Permutation (filter f l) (filter f l').
Proof.
  intros Hp. induction Hp as [|x l l' Hp IH|x y l|l l' l'' Hp1 IH1 Hp2 IH2]; cbn [filter].
  - constructor.
  - destruct (f x); [constructor; exact IH|exact IH].
  - destruct (f x), (f y); try apply Permutation_refl. apply perm_swap.
  - exact (Permutation_trans IH1 IH2).
Qed.

Lemma filter_fresh_key k (m : gmap) :
  ~ In k (map fst m) -> filter (fun kv => negb (Z.eqb k (fst kv))) m = m.
Proof.
  induction m as [|[k0 v0] t IH]; intros Hn; [reflexivity|].
  cbn [filter fst]. cbn [map fst In] in Hn.
  destruct (Z.eqb_spec k k0) as [He|Hne]; [exfalso; apply Hn; left; symmetry; exact He|].
  cbn [negb]. rewrite IH; [reflexivity|]. intros Hc. apply Hn. right. exact Hc.
Qed.

Lemma map_put_perm k v m : wf_map m ->
  Permutation (map_put k v m) (filter (fun kv => negb (Z.eqb k (fst kv))) m ++ [(k, v)]).
Proof.
  unfold wf_map. induction m as [|[k0 v0] t IH]; intros Hn; [apply Permutation_refl|].
  cbn [map fst] in Hn. inversion Hn as [|x l Hnin Hn']. subst x l.
  cbn [map_put filter fst]. destruct (Z.eqb_spec k k0) as [He|Hne]; cbn [negb].
  - subst k0. rewrite (filter_fresh_key k t Hnin). apply Permutation_cons_append.
  - cbn [app]. constructor. apply IH. exact Hn'.
Qed.

Lemma map_build_lastwins kvs : Permutation (map_build kvs) (lastwins kvs).
Proof.
  induction kvs as [|[k v] t IH] using rev_ind; [constructor|].
  rewrite map_build_snoc, lastwins_snoc.
  eapply Permutation_trans; [apply map_put_perm; apply map_build_wf|].
  apply Permutation_app_tail. apply Permutation_filter_pairs. exact IH.
Qed.

Lemma keys_values_of_to_map_lemma ks vs : length ks = length vs ->
  exists m, mapx_to_map (Some ks) (Some vs) = Ok m /\
            combine (fst (map_keys_values m)) (snd (map_keys_values m)) = m /\
            Permutation m (lastwins (combine ks vs)).
Proof.
  intros Hl. exists (map_build (combine ks vs)). cbn [mapx_to_map]. rewrite Hl, Nat.eqb_refl. cbn [negb].
  split; [reflexivity|]. split; [|apply map_build_lastwins].
  unfold map_keys_values. cbn [fst snd]. rewrite (map_values_lemma _ (map_build_wf _)).
  apply combine_fst_snd.
Qed.

(* ... and for every enumeration order of the resulting map *)
Lemma keys_values_of_to_map_any_order_lemma ks vs kvs : length ks = length vs ->
  Permutation kvs (map_build (combine ks vs)) ->
  Permutation (combine (map fst kvs) (map snd kvs)) (lastwins (combine ks vs)).
Proof.
  intros Hl Hp. rewrite combine_fst_snd. exact (Permutation_trans Hp (map_build_lastwins _)).
Qed.

(* lastwins is what its name says *)
Lemma lastwins_spec kvs : forall k v,
  In (k, v) (lastwins kvs) <-> exists pre post, kvs = pre ++ (k, v) :: post /\ ~ In k (map fst post).
Proof.
  induction kvs as [|[k0 v0] t IH]; intros k v.
  - cbn [lastwins In]. split; [intros []|]. intros [pre [post [He _]]]. destruct pre; discriminate He.
  - cbn [lastwins].
    assert (Hex : existsb (fun kv => Z.eqb (fst kv) k0) t = true <-> In k0 (map fst t)).
    { rewrite existsb_exists. split.
      - intros [[a b] [Hin He]]. cbn [fst] in He. apply Z.eqb_eq in He. subst a.
        apply (in_map fst) in Hin. exact Hin.
      - intros Hin. apply in_map_iff in Hin. destruct Hin as [[a b] [He Hin]]. cbn [fst] in He. subst a.
        exists (k0, b). split; [exact Hin|apply Z.eqb_refl]. }
    destruct (existsb (fun kv => Z.eqb (fst kv) k0) t) eqn:Hb.
    + rewrite IH. split.
      * intros [pre [post [He Hn]]]. exists ((k0, v0) :: pre), post. split; [rewrite He; reflexivity|exact Hn].
      * intros [pre [post [He Hn]]]. destruct pre as [|p pre'].
        -- cbn [app] in He. injection He as H1 H2 H3. subst k0 v0 post. exfalso. apply Hn. apply Hex. reflexivity.
        -- cbn [app] in He. injection He as H1 H2. exists pre', post. split; [exact H2|exact Hn].
    + cbn [In]. rewrite IH. split.
      * intros [He|[pre [post [He Hn]]]].
        -- injection He as H1 H2. subst k0 v0. exists [], t. split; [reflexivity|].
           intros Hc. apply Hex in Hc. discriminate Hc.
        -- exists ((k0, v0) :: pre), post. split; [rewrite He; reflexivity|exact Hn].
      * intros [pre [post [He Hn]]]. destruct pre as [|p pre'].
        -- cbn [app] in He. injection He as H1 H2 H3. left. subst k0 v0. reflexivity.
        -- cbn [app] in He. injection He as H1 H2. right. exists pre', post. split; [exact H2|exact Hn].
Qed.
