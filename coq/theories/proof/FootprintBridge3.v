(* FootprintBridge3.v — C15 bridge, part 3: the trace-level COMPOSITION for the thread-safe types
   WITHOUT a guarding lock whose interleaving models exist:
     syncx.LimitPool                         (model/LimitPoolModel.v)
     retry.ExponentialBackoffRetryStrategy,
     retry.FixedIntervalRetryStrategy        (model/RetryLSModel.v)
     syncx.SegmentKeysLock                   (model/SegKeyLSModel.v)
   (queue.ConcurrentLinkedQueue is in FootprintBridge4.v.)

   As in C15BridgeLocked2 / C15Bridge2Cow, <o>_trace maps every step of a model run to the HB events
   (lib/HB.v) of the Go statement it executes: sync/atomic operations as atomic accesses, field reads as
   plain reads, Lock/RLock/Unlock/RUnlock of the selected segment mutex as Acq/Rel.  NOT emitted (they
   would only ADD happens-before edges, so leaving them out is conservative): sync.Pool Put/Get.

   For EVERY event list the model accepts: the trace is well-formed (HB.wf), every access is an instance
   of a row of the type's footprint table, [guards_respected] holds (PROVED: every matching row has a
   guard that needs no happens-before fact, GNone / GConst) and there is no data race.
   SegmentKeysLock: instances / guards / no race hold for every execution; HB.wf (whose [holds] is a
   per-thread boolean) is proved for every execution (size >= 1) in which no goroutine read-locks a
   segment it already read-holds (recursive read locking, which sync.RWMutex's documentation prohibits):
   [sk_norec_b], [sk_step_nr], [segkey_trace_wf_lemma]; the lock state of the trace is the model's ghost
   table of acquisitions ([lk_rel]).  Witness that the restriction is needed for wf (not for race freedom):
   [segkey_recursive_rlock_not_wf_lemma]. *)
From Coq Require Import List String Bool Arith Lia ZArith.
From Ekit Require Import Common FootprintModel FootprintProof C15Bridge C15Bridge2 Conc.
From Ekit Require Import LimitPoolModel RetryModel RetryLSModel SegKeyModel SegKeyProof SegKeyLSModel SegKeyLSProof.
From Ekit Require Import HB.
Import ListNotations.
Open Scope string_scope.
Open Scope nat_scope.
Open Scope list_scope.

(* ====================== generic: traces whose rows need no happens-before fact ====================== *)
Definition triv_guard (g : guard) : bool := match g with GNone | GConst => true | _ => false end.

(* the access (if the action is one) is an instance of a row with a trivial guard *)
Definition simple_acc_b (tbl : table) (a : action) : bool :=
  match access_of a with
  | Some (x, w, ao) =>
      existsb (fun r => String.eqb (r_loc r) (fst x) && kind_matches (r_kind r) w ao && triv_guard (r_guard r)) tbl
  | None => true
  end.

Definition nolock_b (a : action) : bool :=
  match a with Acq _ _ | Rel _ _ | Fork _ => false | _ => true end.

Definition notwrite_b (a : action) : bool :=
  match access_of a with Some (_, w, _) => negb w | None => true end.

Lemma forall_ev_at (P : HB.event -> Prop) (es : list HB.event) i ev :
  Forall P es -> ev_at es i ev -> P ev.
Proof.
  intros H Hev. rewrite Forall_forall in H. apply H. eapply nth_error_In. exact Hev.
Qed.

Lemma simple_guards tbl (es : list HB.event) :
  Forall (fun ev => simple_acc_b tbl (act ev) = true) es -> guards_respected tbl es.
Proof.
  intros H. exists (fun _ => None). intros i ev x w a Hev Hacc.
  pose proof (forall_ev_at _ es i ev H Hev) as Hb. cbn beta in Hb.
  unfold simple_acc_b in Hb. rewrite Hacc in Hb.
  apply existsb_exists in Hb as (r & Hin & Hb).
  apply andb_true_iff in Hb as [Hb Hg]. apply andb_true_iff in Hb as [Hl Hk].
  apply String.eqb_eq in Hl. exists r. repeat split; try assumption.
  destruct (r_guard r); cbn in Hg; try discriminate Hg; exact I.
Qed.

Lemma nolock_wf (es : list HB.event) :
  Forall (fun ev => nolock_b (act ev) = true) es -> wf es.
Proof.
  intros H. constructor.
  - intros i ev l m Hev Ha. pose proof (forall_ev_at _ es i ev H Hev) as Hb. cbn beta in Hb.
    rewrite Ha in Hb. discriminate Hb.
  - intros i ev l m Hev Ha. pose proof (forall_ev_at _ es i ev H Hev) as Hb. cbn beta in Hb.
    rewrite Ha in Hb. discriminate Hb.
  - intros i j a b c Hev Ha. pose proof (forall_ev_at _ es i a H Hev) as Hb. cbn beta in Hb.
    rewrite Ha in Hb. discriminate Hb.
Qed.

Lemma notwrite_no_race (es : list HB.event) :
  Forall (fun ev => notwrite_b (act ev) = true) es -> ~ race es.
Proof.
  intros H [x Hx]. revert Hx. apply read_only. intros i ev w a Hev Hacc.
  pose proof (forall_ev_at _ es i ev H Hev) as Hb. cbn beta in Hb.
  unfold notwrite_b in Hb. rewrite Hacc in Hb. now apply negb_true_iff in Hb.
Qed.

Lemma Forall_and_b (P Q : action -> bool) (es : list HB.event) :
  Forall (fun ev => P (act ev) && Q (act ev) = true) es ->
  Forall (fun ev => P (act ev) = true) es /\ Forall (fun ev => Q (act ev) = true) es.
Proof.
  intros H. split; eapply Forall_impl; try exact H; cbn beta; intros ev Hb;
    apply andb_true_iff in Hb; tauto.
Qed.

Lemma Forall_map_mkEv (P : action -> bool) t (acts : list action) :
  forallb P acts = true -> Forall (fun ev => P (act ev) = true) (map (mkEv t) acts).
Proof.
  intros H. rewrite forallb_forall in H. apply Forall_forall. intros ev Hin.
  apply in_map_iff in Hin as (a & <- & Ha). cbn. now apply H.
Qed.

(* the composed statement for a lock-free object *)
Lemma simple_trace_drf tbl (es : list HB.event) :
  (forall e, wf e -> guards_respected tbl e -> ~ race e) ->
  Forall (fun ev => simple_acc_b tbl (act ev) && nolock_b (act ev) = true) es ->
  wf es /\ instances_of tbl es /\ guards_respected tbl es /\ ~ race es.
Proof.
  intros Hdrf H. apply Forall_and_b in H as [H1 H2].
  pose proof (nolock_wf es H2) as Hwf. pose proof (simple_guards tbl es H1) as Hg.
  split; [exact Hwf|]. split; [now apply guards_respected_instances|]. split; [exact Hg|].
  now apply Hdrf.
Qed.

(* ====================== syncx.LimitPool ====================== *)
Definition LP_TOKENS : name := lname "LimitPool.tokens".      (* the field (a pointer): never written *)
Definition LP_TOKENSP : name := lname "LimitPool.tokens^".    (* the atomic.Int64 behind it *)
Definition LP_POOL : name := lname "LimitPool.pool".

(*   if l.tokens.Add(-1) < 0 / l.tokens.Add(1)   read of the field, atomic add on the counter
     return zero, false                          nothing shared
     return l.pool.Get(), true / l.pool.Put(t)   read of the field (the sync.Pool operation is not emitted) *)
Definition acts_LimitPool (p : lp_pc) : list action :=
  match p with
  | GetDec | GetComp | PutAdd => [Read LP_TOKENS; ARmw LP_TOKENSP]
  | GetRetF => []
  | GetRetT | PutPool => [Read LP_POOL]
  end.

Definition lp_emit (c : lp_cfg) (e : lp_ev) : list HB.event :=
  match e with
  | LStep t => match Conc.lookup t (lp_thr c) with
               | Some p => map (mkEv t) (acts_LimitPool p)
               | None => []
               end
  | _ => []
  end.

Definition limitpool_trace (maxTokens : Z) (evs : list lp_ev) : execution :=
  trace lp_cfg lp_ev lp_step lp_emit (lp_init maxTokens) evs.

Lemma acts_LimitPool_ok p :
  forallb (fun a => simple_acc_b limitpool_table a && nolock_b a) (acts_LimitPool p) = true.
Proof. destruct p; vm_compute; reflexivity. Qed.

Lemma limitpool_trace_drf_lemma maxTokens evs c :
  Conc.exec lp_step (lp_init maxTokens) evs = Some c ->
  wf (limitpool_trace maxTokens evs) /\ instances_of limitpool_table (limitpool_trace maxTokens evs) /\
  guards_respected limitpool_table (limitpool_trace maxTokens evs) /\ ~ race (limitpool_trace maxTokens evs).
Proof.
  intros _. apply simple_trace_drf; [exact drf_limitpool_lemma|].
  apply (trace_forall lp_cfg lp_ev lp_step lp_emit
           (fun ev => simple_acc_b limitpool_table (act ev) && nolock_b (act ev) = true)).
  intros c0 e. destruct e as [t|t|t]; cbn [lp_emit]; try constructor.
  destruct (Conc.lookup t (lp_thr c0)) as [p|]; [|constructor].
  apply (Forall_map_mkEv (fun a => simple_acc_b limitpool_table a && nolock_b a)). apply acts_LimitPool_ok.
Qed.

(* the emitted actions cover the memory rows of the table (every row's action is emitted by some pc) *)
Definition all_pcs_LimitPool : list lp_pc := [GetDec; GetComp; GetRetF; GetRetT; PutPool; PutAdd].
Lemma acts_cover_table_LimitPool :
  forallb (fun r => forallb (fun a => existsb (fun p => action_inb a (acts_LimitPool p)) all_pcs_LimitPool)
                            (actions_of_row r)) limitpool_table = true.
Proof. vm_compute. reflexivity. Qed.

(* non-vacuity: maxTokens = 1; Get by thread 1 (succeeds), Get by thread 2 (fails, compensates), Put by thread 1:
   four atomic adds by two threads on the one counter, each ordered after the previous one *)
Definition limitpool_example_evs : list lp_ev :=
  [LCallGet 1%nat; LCallGet 2%nat; LStep 1%nat; LStep 2%nat; LStep 2%nat; LStep 2%nat; LStep 1%nat;
   LCallPut 1%nat; LStep 1%nat; LStep 1%nat].

Lemma limitpool_example_lemma :
  let tr := limitpool_trace 1%Z limitpool_example_evs in
  (exists c, Conc.exec lp_step (lp_init 1%Z) limitpool_example_evs = Some c /\ lp_thr c = [] /\ lp_tokens c = 1%Z) /\
  ev_at tr 1 (mkEv 1 (ARmw LP_TOKENSP)) /\ ev_at tr 3 (mkEv 2 (ARmw LP_TOKENSP)) /\ hb tr 1 3 /\
  ev_at tr 5 (mkEv 2 (ARmw LP_TOKENSP)) /\ ev_at tr 9 (mkEv 1 (ARmw LP_TOKENSP)) /\ hb tr 5 9 /\
  wf tr /\ guards_respected limitpool_table tr /\ ~ race tr.
Proof.
  cbv zeta.
  assert (Hex : exists c, Conc.exec lp_step (lp_init 1%Z) limitpool_example_evs = Some c /\ lp_thr c = [] /\ lp_tokens c = 1%Z).
  { eexists. split; [vm_compute; reflexivity|]. split; reflexivity. }
  split; [exact Hex|]. destruct Hex as (c & Hc & _).
  destruct (limitpool_trace_drf_lemma _ _ _ Hc) as (Hwf & _ & Hg & Hnr).
  split; [vm_compute; reflexivity|]. split; [vm_compute; reflexivity|].
  split.
  { apply hb_sw. split; [lia|]. exists (mkEv 1 (ARmw LP_TOKENSP)), (mkEv 2 (ARmw LP_TOKENSP)).
    repeat split; vm_compute; reflexivity. }
  split; [vm_compute; reflexivity|]. split; [vm_compute; reflexivity|].
  split.
  { apply hb_sw. split; [lia|]. exists (mkEv 2 (ARmw LP_TOKENSP)), (mkEv 1 (ARmw LP_TOKENSP)).
    repeat split; vm_compute; reflexivity. }
  split; [exact Hwf|]. split; [exact Hg|exact Hnr].
Qed.

(* ====================== the retry strategies ====================== *)
Definition EX (f : string) : name := lname ("ExponentialBackoffRetryStrategy." ++ f).
Definition FX (f : string) : name := lname ("FixedIntervalRetryStrategy." ++ f).

(* `s.maxRetries <= 0 || retries <= s.maxRetries` reads the field once, and a second time when the
   first operand is false.  The test of LChk `factor <= 0 || interval/factor != s.initialInterval ||
   interval <= 0 || interval > s.maxInterval` short-circuits; both field reads are emitted (a superset:
   more accesses can only create more races). *)
Definition acts_Retry (k : kind) (maxr_nonpos : bool) (pc : ls_pc) : list action :=
  match k with
  | KExp _ =>
    match pc with
    | LAdd => [ARmw (EX "retries")]
    | LBudget _ => Read (EX "maxRetries") :: (if maxr_nonpos then [] else [Read (EX "maxRetries")])
    | LLoad _ => [ARead (EX "maxIntervalReached")]
    | LRetMax0 _ | LRetMax1 _ => [Read (EX "maxInterval")]
    | LInterval _ => [Read (EX "initialInterval")]
    | LChk _ => [Read (EX "initialInterval"); Read (EX "maxInterval")]
    | LStore _ => [AWrite (EX "maxIntervalReached")]
    | LFactor _ | LRetIv _ | LRetFixed _ | LRetNo _ => []
    end
  | KFixed =>
    match pc with
    | LAdd => [ARmw (FX "retries")]
    | LBudget _ => Read (FX "maxRetries") :: (if maxr_nonpos then [] else [Read (FX "maxRetries")])
    | LRetFixed _ => [Read (FX "interval")]
    | _ => []
    end
  end.

Definition retry_table (k : kind) : table :=
  match k with KExp _ => expo_table | KFixed => fixed_table end.

Definition rt_emit (p : params) (c : ls_cfg) (e : ls_ev) : list HB.event :=
  match e with
  | LSStep t => match Conc.lookup t (ls_thr c) with
                | Some pc => map (mkEv t) (acts_Retry (p_kind p) (p_maxr p <=? 0)%Z pc)
                | None => []
                end
  | _ => []
  end.

Definition retry_trace (p : params) (evs : list ls_ev) : execution :=
  trace ls_cfg ls_ev (ls_step p) (rt_emit p) ls_init evs.

Lemma acts_Retry_ok k b pc :
  forallb (fun a => simple_acc_b (retry_table k) a && nolock_b a) (acts_Retry k b pc) = true.
Proof. destruct k as [v|], b, pc; vm_compute; reflexivity. Qed.

Lemma drf_retry_table k : forall e, wf e -> guards_respected (retry_table k) e -> ~ race e.
Proof. destruct k; [exact drf_expo_lemma|exact drf_fixed_lemma]. Qed.

Lemma retry_trace_drf_lemma p evs c :
  Conc.exec (ls_step p) ls_init evs = Some c ->
  wf (retry_trace p evs) /\ instances_of (retry_table (p_kind p)) (retry_trace p evs) /\
  guards_respected (retry_table (p_kind p)) (retry_trace p evs) /\ ~ race (retry_trace p evs).
Proof.
  intros _. apply simple_trace_drf; [apply drf_retry_table|].
  apply (trace_forall ls_cfg ls_ev (ls_step p) (rt_emit p)
           (fun ev => simple_acc_b (retry_table (p_kind p)) (act ev) && nolock_b (act ev) = true)).
  intros c0 e. destruct e as [t|t]; cbn [rt_emit]; try constructor.
  destruct (Conc.lookup t (ls_thr c0)) as [pc|]; [|constructor].
  apply (Forall_map_mkEv (fun a => simple_acc_b (retry_table (p_kind p)) a && nolock_b a)). apply acts_Retry_ok.
Qed.

Definition all_pcs_Retry : list ls_pc :=
  [LAdd; LBudget 0; LLoad 0; LRetMax0 0; LFactor 0; LInterval 0; LChk 0; LStore 0; LRetMax1 0; LRetIv 0;
   LRetFixed 0; LRetNo 0]%Z.
Lemma acts_cover_table_Retry :
  forallb (fun r => forallb (fun a => existsb (fun p => action_inb a (acts_Retry (KExp VNow) false p)) all_pcs_Retry)
                            (actions_of_row r)) expo_table = true /\
  forallb (fun r => forallb (fun a => existsb (fun p => action_inb a (acts_Retry KFixed false p)) all_pcs_Retry)
                            (actions_of_row r)) fixed_table = true.
Proof. split; vm_compute; reflexivity. Qed.

(* non-vacuity: exponential strategy, initial = max = 1ns, 3 retries.  Thread 1 draws ticket 1 (interval 1),
   thread 2 draws ticket 2 (interval 2 > max: stores the flag), thread 1 calls again and loads the flag:
   the atomic adds are ordered, and the Store happens-before the Load that sees it *)
Definition retry_example_params : params := {| p_kind := KExp VNow; p_init := 1; p_max := 1; p_maxr := 3 |}%Z.
Definition retry_example_evs : list ls_ev :=
  [LSCall 1; LSCall 2; LSStep 1; LSStep 2] ++ repeat (LSStep 1) 6 ++ repeat (LSStep 2) 7 ++
  [LSCall 1] ++ repeat (LSStep 1) 4.

Lemma retry_example_lemma :
  let tr := retry_trace retry_example_params retry_example_evs in
  (exists c, Conc.exec (ls_step retry_example_params) ls_init retry_example_evs = Some c /\ ls_thr c = [] /\
             reached (ls_st c) = true) /\
  ev_at tr 0 (mkEv 1 (ARmw (EX "retries"))) /\ ev_at tr 1 (mkEv 2 (ARmw (EX "retries"))) /\ hb tr 0 1 /\
  ev_at tr 14 (mkEv 2 (AWrite (EX "maxIntervalReached"))) /\ ev_at tr 19 (mkEv 1 (ARead (EX "maxIntervalReached"))) /\
  hb tr 14 19 /\
  wf tr /\ guards_respected expo_table tr /\ ~ race tr.
Proof.
  cbv zeta.
  assert (Hex : exists c, Conc.exec (ls_step retry_example_params) ls_init retry_example_evs = Some c /\ ls_thr c = [] /\
                          reached (ls_st c) = true).
  { eexists. split; [vm_compute; reflexivity|]. split; reflexivity. }
  split; [exact Hex|]. destruct Hex as (c & Hc & _).
  destruct (retry_trace_drf_lemma _ _ _ Hc) as (Hwf & _ & Hg & Hnr).
  split; [vm_compute; reflexivity|]. split; [vm_compute; reflexivity|].
  split.
  { apply hb_sw. split; [lia|]. exists (mkEv 1 (ARmw (EX "retries"))), (mkEv 2 (ARmw (EX "retries"))).
    repeat split; vm_compute; reflexivity. }
  split; [vm_compute; reflexivity|]. split; [vm_compute; reflexivity|].
  split.
  { apply hb_sw. split; [lia|].
    exists (mkEv 2 (AWrite (EX "maxIntervalReached"))), (mkEv 1 (ARead (EX "maxIntervalReached"))).
    repeat split; vm_compute; reflexivity. }
  split; [exact Hwf|]. split; [exact Hg|exact Hnr].
Qed.

(* fixed-interval strategy, one retry allowed: both threads add before either tests the budget *)
Definition fixed_example_params : params := {| p_kind := KFixed; p_init := 5; p_max := 5; p_maxr := 1 |}%Z.
Lemma fixed_example_lemma :
  let tr := retry_trace fixed_example_params ls_last_retry_race in
  (exists c, Conc.exec (ls_step fixed_example_params) ls_init ls_last_retry_race = Some c /\ ls_thr c = []) /\
  ev_at tr 0 (mkEv 1 (ARmw (FX "retries"))) /\ ev_at tr 1 (mkEv 2 (ARmw (FX "retries"))) /\ hb tr 0 1 /\
  List.length tr = 7 /\
  wf tr /\ guards_respected fixed_table tr /\ ~ race tr.
Proof.
  cbv zeta.
  assert (Hex : exists c, Conc.exec (ls_step fixed_example_params) ls_init ls_last_retry_race = Some c /\ ls_thr c = []).
  { eexists. split; [vm_compute; reflexivity|reflexivity]. }
  split; [exact Hex|]. destruct Hex as (c & Hc & _).
  destruct (retry_trace_drf_lemma _ _ _ Hc) as (Hwf & _ & Hg & Hnr).
  split; [vm_compute; reflexivity|]. split; [vm_compute; reflexivity|].
  split.
  { apply hb_sw. split; [lia|]. exists (mkEv 1 (ARmw (FX "retries"))), (mkEv 2 (ARmw (FX "retries"))).
    repeat split; vm_compute; reflexivity. }
  split; [vm_compute; reflexivity|].
  split; [exact Hwf|]. split; [exact Hg|exact Hnr].
Qed.

(* ====================== syncx.SegmentKeysLock ====================== *)
Definition SK_LOCKS : name := lname "SegmentKeysLock.locks".
Definition SK_SIZE : name := lname "SegmentKeysLock.size".
(* slice element i (the *sync.RWMutex stored there: read-only) and, as a lock name, that RWMutex *)
Definition SK_EL (i : Z) : name := ("SegmentKeysLock.locks[]", Z.to_nat i).

(* `return s.locks[hash%s.size]` followed by the rest of the method statement (one model step, sk_last):
   read of the slice header, of s.size (then the division: run-time panic when 0), the indexed element
   (run-time panic when out of range), then the operation on the selected RWMutex — Acq when the
   (Try)Lock/(Try)RLock succeeds, Rel for Unlock/RUnlock, nothing for a failed Try or a misuse *)
Definition acts_SegKey_last (c : sk_cfg) (t : Conc.tid) (f : sk_frame) : list action :=
  if (sk_size c =? 0)%Z then [Read SK_LOCKS; Read SK_SIZE]
  else
    let i := (f_h f mod sk_size c)%Z in
    if negb ((0 <=? i)%Z && (i <? sk_size c)%Z) then [Read SK_LOCKS; Read SK_SIZE]
    else
      let r := get_lock i (sk_locks c) in
      [Read SK_LOCKS; Read SK_SIZE; Read (SK_EL i)] ++
      match f_op f with
      | OLock => [Acq (SK_EL i) Excl]
      | ORLock => [Acq (SK_EL i) Shared]
      | OTryLock => if can_write r then [Acq (SK_EL i) Excl] else []
      | OTryRLock => if can_read r then [Acq (SK_EL i) Shared] else []
      | OUnlock => match hfind (hold_mine t i true) (sk_holds c) with
                   | Some _ => if rw_writer r then [Rel (SK_EL i) Excl] else []
                   | None => []
                   end
      | ORUnlock => match hfind (hold_mine t i false) (sk_holds c) with
                    | Some _ => if (0 <? rw_readers r)%Z then [Rel (SK_EL i) Shared] else []
                    | None => []
                    end
      end.

Definition sk_emit (c : sk_cfg) (e : sk_ev) : list HB.event :=
  match e with
  | SStep t => match Conc.lookup t (sk_thr c) with
               | Some f => match f_pc f with
                           | PGet2 => map (mkEv t) (acts_SegKey_last c t f)
                           | _ => []            (* entering getLock / hash, the FNV computation: locals only *)
                           end
               | None => []
               end
  | _ => []
  end.

Definition segkey_trace (size : Z) (evs : list sk_ev) : execution :=
  trace sk_cfg sk_ev sk_step sk_emit (sk_init size) evs.

Definition sk_ok_b (a : action) : bool := simple_acc_b segkey_table a && notwrite_b a.

Lemma acts_SegKey_last_ok c t f : forallb sk_ok_b (acts_SegKey_last c t f) = true.
Proof.
  unfold acts_SegKey_last.
  destruct (sk_size c =? 0)%Z; [reflexivity|].
  destruct (negb _); [reflexivity|].
  cbn [app forallb]. change (sk_ok_b (Read SK_LOCKS)) with true. change (sk_ok_b (Read SK_SIZE)) with true.
  change (sk_ok_b (Read (SK_EL (f_h f mod sk_size c)))) with true. cbn [andb].
  destruct (f_op f); try reflexivity.
  - destruct (hfind _ _); [destruct (rw_writer _)|]; reflexivity.
  - destruct (hfind _ _); [destruct (0 <? _)%Z|]; reflexivity.
  - destruct (can_write _); reflexivity.
  - destruct (can_read _); reflexivity.
Qed.

Lemma segkey_trace_forall size evs :
  Forall (fun ev => simple_acc_b segkey_table (act ev) && notwrite_b (act ev) = true) (segkey_trace size evs).
Proof.
  apply (trace_forall sk_cfg sk_ev sk_step sk_emit
           (fun ev => simple_acc_b segkey_table (act ev) && notwrite_b (act ev) = true)).
  intros c0 e. destruct e as [t o k|t]; cbn [sk_emit]; try constructor.
  destruct (Conc.lookup t (sk_thr c0)) as [f|]; [|constructor].
  destruct (f_pc f); try constructor.
  apply (Forall_map_mkEv sk_ok_b). apply acts_SegKey_last_ok.
Qed.

(* every execution: instances of the table, guards respected, no race (all accesses are reads of fields
   that are never written after construction) *)
Lemma segkey_trace_norace_lemma size evs c :
  Conc.exec sk_step (sk_init size) evs = Some c ->
  instances_of segkey_table (segkey_trace size evs) /\
  guards_respected segkey_table (segkey_trace size evs) /\ ~ race (segkey_trace size evs).
Proof.
  intros _. destruct (Forall_and_b _ _ _ (segkey_trace_forall size evs)) as [H1 H2].
  pose proof (simple_guards _ _ H1) as Hg.
  split; [now apply guards_respected_instances|]. split; [exact Hg|]. now apply notwrite_no_race.
Qed.

(* ---------- HB.wf for SegmentKeysLock under the no-recursive-read-lock discipline ---------- *)
(* HB.holds is a per-thread boolean: a goroutine that read-locks a segment it already read-holds (which
   sync.RWMutex's documentation prohibits) and then RUnlocks twice is not a well-formed HB execution
   although the model's reader COUNT handles it.  [sk_norec_b c e]: the step e is not such a recursive
   read acquisition; [sk_step_nr] is sk_step restricted to those steps. *)
Definition sk_norec_b (c : sk_cfg) (e : sk_ev) : bool :=
  match e with
  | SStep t =>
    match Conc.lookup t (sk_thr c) with
    | Some f =>
      match f_pc f, f_op f with
      | PGet2, (ORLock | OTryRLock) =>
          match hfind (hold_mine t (f_h f mod sk_size c)%Z false) (sk_holds c) with Some _ => false | None => true end
      | _, _ => true
      end
    | None => true
    end
  | _ => true
  end.

Definition sk_step_nr (c : sk_cfg) (e : sk_ev) : option sk_cfg :=
  if sk_norec_b c e then sk_step c e else None.

Lemma sk_exec_nr evs : forall c c', Conc.exec sk_step_nr c evs = Some c' -> Conc.exec sk_step c evs = Some c'.
Proof.
  induction evs as [|e r IH]; intros c c' H; cbn in *; [exact H|].
  unfold sk_step_nr in H at 1. destruct (sk_norec_b c e); [|discriminate].
  destruct (sk_step c e) as [c1|]; [|discriminate]. now apply IH.
Qed.

Lemma sk_trace_nr evs : forall c c', Conc.exec sk_step_nr c evs = Some c' ->
  trace sk_cfg sk_ev sk_step_nr sk_emit c evs = trace sk_cfg sk_ev sk_step sk_emit c evs.
Proof.
  induction evs as [|e r IH]; intros c c' H; cbn in *; [reflexivity|].
  unfold sk_step_nr in *. destruct (sk_norec_b c e); [|discriminate].
  destruct (sk_step c e) as [c1|]; [|discriminate]. f_equal. eapply IH; eassumption.
Qed.

Definition dsc_SK (x : name) : option disc :=
  if String.eqb (fst x) "SegmentKeysLock.locks" || String.eqb (fst x) "SegmentKeysLock.size" ||
     String.eqb (fst x) "SegmentKeysLock.locks[]" then Some QConst else None.

Definition mexcl (m : mode) : bool := match m with Excl => true | Shared => false end.
Definition wmode (w : bool) : mode := if w then Excl else Shared.

Lemma hcount_all_false f l : (forall h, In h l -> f h = false) -> hcount f l = 0%Z.
Proof.
  induction l as [|x r IH]; cbn [hcount]; [reflexivity|]. intros H.
  rewrite (H x (or_introl eq_refl)), IH; [reflexivity|]. intros h Hin. apply H. now right.
Qed.

Lemma hcount_mono f g l : (forall h, f h = true -> g h = true) -> (hcount f l <= hcount g l)%Z.
Proof.
  intros H. induction l as [|x r IH]; cbn [hcount]; [lia|].
  destruct (f x) eqn:E; [rewrite (H x E); lia|]. destruct (g x); lia.
Qed.

Lemma in_hremove_keep f l h : In h l -> f h = false -> In h (hremove f l).
Proof.
  induction l as [|x r IH]; cbn [hremove]; [intros []|].
  intros [<-|Hin] Hf.
  - rewrite Hf. now left.
  - destruct (f x); [exact Hin|]. right. now apply IH.
Qed.

Lemma SK_EL_inj i j : (0 <= i)%Z -> (0 <= j)%Z -> SK_EL i = SK_EL j -> i = j.
Proof. intros Hi Hj H. injection H as H. now apply Z2Nat.inj. Qed.

Section SegKeyWf.
  Variable size : Z.
  Hypothesis Hsize : (1 <= size)%Z.

  Definition lk_rel (c : sk_cfg) (a : ast) : Prop :=
    forall l t m, a_lk a l t m = true <->
      exists h, In h (sk_holds c) /\ l = SK_EL (h_idx h) /\ h_tid h = t /\ h_write h = mexcl m.
  Definition uniq_r (c : sk_cfg) : Prop :=
    forall t i, (hcount (hold_mine t i false) (sk_holds c) <= 1)%Z.
  Definition R_SK (c : sk_cfg) (a : ast) : Prop := sk_inv size c /\ uniq_r c /\ lk_rel c a.

  Lemma lk_rel_ext c a1 a2 : aeqm a1 a2 -> lk_rel c a2 -> lk_rel c a1.
  Proof. intros (H1 & _) Hr l t m. rewrite H1. apply Hr. Qed.

  Definition sk_accs (i : Z) : list action := [Read SK_LOCKS; Read SK_SIZE; Read (SK_EL i)].

  Lemma sk_accs_ok a t i : accs_ok dsc_SK a t (sk_accs i) /\ settled dsc_SK a (sk_accs i).
  Proof.
    split.
    - unfold accs_ok, sk_accs.
      repeat (apply Forall_cons; [eexists _, _, _; split; [reflexivity|reflexivity]|]). apply Forall_nil.
    - unfold settled, sk_accs.
      repeat (apply Forall_cons; [intros x w ao H; injection H as <- _ _; left; reflexivity|]). apply Forall_nil.
  Qed.

  Lemma hold_idx_range c h : sk_inv size c -> In h (sk_holds c) -> (0 <= h_idx h < size)%Z.
  Proof.
    intros Hinv Hin. pose proof (ki_holds _ _ Hinv) as F. rewrite Forall_forall in F. exact (proj2 (F h Hin)).
  Qed.

  (* an acquisition of segment i in mode w by t *)
  Lemma R_acquire c a t k i w r' :
    R_SK c a -> (0 <= i < size)%Z ->
    rw_writer (get_lock i (sk_locks c)) = false ->
    (w = true -> rw_readers (get_lock i (sk_locks c)) = 0%Z) ->
    (w = false -> hfind (hold_mine t i false) (sk_holds c) = None) ->
    let c' := finish c t i r' (sk_holds c ++ [{| h_tid := t; h_key := k; h_idx := i; h_write := w |}]) in
    sk_inv size c' ->
    all_ok dsc_SK a (map (mkEv t) (sk_accs i ++ [Acq (SK_EL i) (wmode w)])) /\
    R_SK c' (aupds dsc_SK a (map (mkEv t) (sk_accs i ++ [Acq (SK_EL i) (wmode w)]))).
  Proof.
    intros (Hinv & Hu & Hlk) Hi Hw Hr Hnr c' Hinv'. unfold lk_rel in Hlk.
    destruct (ki_words _ _ Hinv i) as (Ww & Wr & _).
    assert (Hnow : forall h, In h (sk_holds c) -> h_idx h = i -> h_write h = true -> False).
    { intros h Hin Hix Hwr.
      assert (P : (1 <= writers_at c i)%Z).
      { unfold writers_at. eapply hcount_in_pos; [exact Hin|]. unfold hold_sel. rewrite Hix, Hwr, Z.eqb_refl. reflexivity. }
      rewrite Hw in Ww. lia. }
    destruct (sk_accs_ok a t i) as [Hacc Hset].
    destruct (step_accs_acq dsc_SK a t (sk_accs i) (SK_EL i) (wmode w) Hacc Hset) as [Hok Heq].
    { split.
      - intros t'. destruct (a_lk a (SK_EL i) t' Excl) eqn:E; [|reflexivity]. exfalso.
        apply Hlk in E as (h & Hin & Hl & _ & Hwr).
        apply SK_EL_inj in Hl; [|lia|apply (hold_idx_range c h Hinv Hin)]. eapply Hnow; eauto.
      - intros Hm t'. destruct w; [|discriminate Hm].
        destruct (a_lk a (SK_EL i) t' Shared) eqn:E; [|reflexivity]. exfalso.
        apply Hlk in E as (h & Hin & Hl & _ & Hwr).
        apply SK_EL_inj in Hl; [|lia|apply (hold_idx_range c h Hinv Hin)].
        assert (P : (1 <= readers_at c i)%Z).
        { unfold readers_at. eapply hcount_in_pos; [exact Hin|]. unfold hold_sel. rewrite <- Hl, Hwr, Z.eqb_refl. reflexivity. }
        rewrite (Hr eq_refl) in Wr. lia. }
    split; [exact Hok|]. split; [exact Hinv'|]. split.
    - intros t' i'. unfold c', finish. cbn [sk_holds]. rewrite hcount_snoc.
      destruct (hold_mine t' i' false _) eqn:Em; [|pose proof (Hu t' i'); lia].
      apply hold_mine_sel in Em as (Et & Ei & Ew). cbn in Et, Ei, Ew. subst t' i' w.
      rewrite (hcount_all_false _ _ (hfind_none _ _ (Hnr eq_refl))). lia.
    - eapply lk_rel_ext; [exact Heq|]. intros l' t' m'. unfold c', finish. cbn [sk_holds a_lk st_acq].
      destruct (name_eqb l' (SK_EL i) && Nat.eqb t' t && mode_eqb m' (wmode w)) eqn:Ek.
      + apply key_eqb_true in Ek as (-> & -> & ->). split; [intros _|reflexivity].
        eexists. split; [apply in_or_app; right; left; reflexivity|]. cbn. repeat split. now destruct w.
      + rewrite Hlk. split.
        * intros (h & Hin & Hh). exists h. split; [apply in_or_app; now left|exact Hh].
        * intros (h & Hin & Hl & Ht & Hwr). apply in_app_or in Hin as [Hin|[<-|[]]]; [now exists h|].
          cbn in Hl, Ht, Hwr. subst l' t'.
          assert (Hm : m' = wmode w) by (destruct m', w; cbn in Hwr |- *; congruence). subst m'.
          assert (Hx : name_eqb (SK_EL i) (SK_EL i) && Nat.eqb t t && mode_eqb (wmode w) (wmode w) = true)
            by (apply key_eqb_true; repeat split).
          congruence.
  Qed.

  (* a release of segment i in mode w by t *)
  Lemma R_release c a t i w h r' :
    R_SK c a -> (0 <= i < size)%Z ->
    hfind (hold_mine t i w) (sk_holds c) = Some h ->
    let c' := finish c t i r' (hremove (hold_mine t i w) (sk_holds c)) in
    sk_inv size c' ->
    all_ok dsc_SK a (map (mkEv t) (sk_accs i ++ [Rel (SK_EL i) (wmode w)])) /\
    R_SK c' (aupds dsc_SK a (map (mkEv t) (sk_accs i ++ [Rel (SK_EL i) (wmode w)]))).
  Proof.
    intros (Hinv & Hu & Hlk) Hi Hf c' Hinv'. unfold lk_rel in Hlk.
    destruct (hfind_some _ _ _ Hf) as [Hm Hin]. pose proof Hm as Hm'. apply hold_mine_sel in Hm' as (Ht & Hix & Hwr).
    assert (Hcnt : (hcount (hold_mine t i w) (sk_holds c) <= 1)%Z).
    { destruct w; [|apply Hu].
      destruct (ki_words _ _ Hinv i) as (_ & _ & Hle & _). unfold writers_at in Hle.
      eapply Z.le_trans; [|exact Hle]. apply hcount_mono. intros h0 H0. unfold hold_mine in H0.
      apply andb_true_iff in H0. tauto. }
    assert (Hgone : forall h', In h' (hremove (hold_mine t i w) (sk_holds c)) -> hold_mine t i w h' = false).
    { apply hcount_zero_none. rewrite (hcount_remove _ _ _ _ Hf), Hm.
      pose proof (hcount_in_pos _ _ _ Hin Hm). lia. }
    destruct (sk_accs_ok a t i) as [Hacc Hset].
    destruct (step_accs_rel dsc_SK a t (sk_accs i) (SK_EL i) (wmode w) Hacc Hset) as [Hok Heq].
    { apply Hlk. exists h. split; [exact Hin|]. rewrite Hix. repeat split; auto. now destruct w. }
    split; [exact Hok|]. split; [exact Hinv'|]. split.
    - intros t' i'. unfold c', finish. cbn [sk_holds]. rewrite (hcount_remove _ _ _ _ Hf).
      pose proof (Hu t' i'). destruct (hold_mine t' i' false h); lia.
    - eapply lk_rel_ext; [exact Heq|]. intros l' t' m'. unfold c', finish. cbn [sk_holds a_lk st_rel].
      destruct (name_eqb l' (SK_EL i) && Nat.eqb t' t && mode_eqb m' (wmode w)) eqn:Ek.
      + apply key_eqb_true in Ek as (-> & -> & ->). split; [discriminate|].
        intros (h' & Hin' & Hl & Ht' & Hwr'). exfalso.
        pose proof (in_hremove _ _ _ Hin') as Hin0.
        apply SK_EL_inj in Hl; [|lia|apply (hold_idx_range c h' Hinv Hin0)].
        assert (Hx : hold_mine t i w h' = true).
        { unfold hold_mine, hold_sel. rewrite Ht', <- Hl, Hwr', Nat.eqb_refl, Z.eqb_refl. now destruct w. }
        rewrite (Hgone h' Hin') in Hx. discriminate Hx.
      + rewrite Hlk. split.
        * intros (h' & Hin' & Hl & Ht' & Hwr'). exists h'. split; [|now repeat split].
          apply in_hremove_keep; [exact Hin'|].
          destruct (hold_mine t i w h') eqn:Ex; [|reflexivity]. exfalso.
          apply hold_mine_sel in Ex as (E1 & E2 & E3). subst l' t'.
          assert (Hmm : m' = wmode w) by (destruct m', w; cbn in Hwr' |- *; congruence). subst m'. rewrite E2 in Ek.
          assert (Hx : name_eqb (SK_EL i) (SK_EL i) && Nat.eqb (h_tid h') (h_tid h') && mode_eqb (wmode w) (wmode w) = true)
            by (apply key_eqb_true; repeat split).
          rewrite E1 in Hx. congruence.
        * intros (h' & Hin' & Hh). exists h'. split; [eapply in_hremove; exact Hin'|exact Hh].
  Qed.

  Lemma R_same_holds c a c' :
    R_SK c a -> sk_inv size c' -> sk_holds c' = sk_holds c -> R_SK c' a.
  Proof.
    intros (_ & Hu & Hlk) Hinv' E. split; [exact Hinv'|]. split.
    - intros t i. rewrite E. apply Hu.
    - intros l t m. rewrite E. apply Hlk.
  Qed.

  Lemma sk_step_R c a e c' :
    R_SK c a -> sk_step_nr c e = Some c' ->
    all_ok dsc_SK a (sk_emit c e) /\ R_SK c' (aupds dsc_SK a (sk_emit c e)).
  Proof.
    intros HR Hs. pose proof HR as (Hinv & Hu & Hlk).
    unfold sk_step_nr in Hs. destruct (sk_norec_b c e) eqn:Enr; [|discriminate].
    assert (Hinv' : sk_inv size c') by (eapply sk_inv_step; [lia|exact Hinv|exact Hs]).
    unfold sk_step in Hs. destruct (sk_exec1 c e) as [[c1 o]|] eqn:E; [|discriminate]. injection Hs as ->.
    destruct e as [t op k|t]; cbn [sk_exec1 sk_emit sk_norec_b] in *.
    - destruct (Conc.lookup t (sk_thr c)); [discriminate|]. destruct (call_ok c t op k); [|discriminate].
      injection E as <- _. split; [exact I|]. eapply R_same_holds; eauto.
    - destruct (Conc.lookup t (sk_thr c)) as [f|] eqn:L; [|discriminate].
      destruct (f_pc f) eqn:Epc;
        try (injection E as <- _; split; [exact I|]; eapply R_same_holds; eauto; fail).
      destruct (sk_last_index size c t f ltac:(lia) Hinv L Epc) as [H0 [Hi Hr]].
      pose proof (seg_index_range_lemma size (f_key f) ltac:(lia)) as Hrg.
      unfold acts_SegKey_last. unfold sk_last in E. cbv zeta in *. rewrite H0, Hi, Hr in *.
      set (i := seg_index size (f_key f)) in *. set (r := get_lock i (sk_locks c)) in *.
      fold (sk_accs i).
      assert (Hnone : forall c2, sk_holds c2 = sk_holds c -> sk_inv size c2 ->
                all_ok dsc_SK a (map (mkEv t) (sk_accs i ++ [])) /\
                R_SK c2 (aupds dsc_SK a (map (mkEv t) (sk_accs i ++ [])))).
      { intros c2 E2 Hi2. rewrite app_nil_r. destruct (sk_accs_ok a t i) as [Hacc Hset].
        destruct (step_accs dsc_SK a t (sk_accs i) Hacc Hset) as [Hok Heq]. split; [exact Hok|].
        destruct (R_same_holds c a c2 HR Hi2 E2) as (X1 & X2 & X3). split; [exact X1|]. split; [exact X2|].
        eapply lk_rel_ext; eassumption. }
      destruct (f_op f) eqn:Eop.
      + (* Lock *)
        destruct (can_write r) eqn:Ec; [|discriminate]. injection E as <- _.
        unfold can_write in Ec. apply andb_true_iff in Ec as [E1 E2]. apply negb_true_iff in E1. apply Z.eqb_eq in E2.
        apply (R_acquire c a t (f_key f) i true); auto; discriminate.
      + (* Unlock *)
        destruct (ki_rel _ _ Hinv _ _ L) as [h Hh]; [rewrite Eop; reflexivity|].
        rewrite Eop in Hh. cbn [wants_write] in Hh. fold i in Hh. rewrite Hh in *.
        destruct (rw_writer r); injection E as <- _.
        * apply (R_release c a t i true h); auto.
        * apply Hnone; [reflexivity|exact Hinv'].
      + (* RLock *)
        destruct (can_read r) eqn:Ec; [|discriminate]. injection E as <- _.
        unfold can_read in Ec. apply negb_true_iff in Ec.
        apply (R_acquire c a t (f_key f) i false); auto; [discriminate|].
        intros _. destruct (hfind _ _); [discriminate Enr|reflexivity].
      + (* RUnlock *)
        destruct (ki_rel _ _ Hinv _ _ L) as [h Hh]; [rewrite Eop; reflexivity|].
        rewrite Eop in Hh. cbn [wants_write] in Hh. fold i in Hh. rewrite Hh in *.
        destruct (0 <? rw_readers r)%Z; injection E as <- _.
        * apply (R_release c a t i false h); auto.
        * apply Hnone; [reflexivity|exact Hinv'].
      + (* TryLock *)
        destruct (can_write r) eqn:Ec; injection E as <- _.
        * unfold can_write in Ec. apply andb_true_iff in Ec as [E1 E2]. apply negb_true_iff in E1. apply Z.eqb_eq in E2.
          apply (R_acquire c a t (f_key f) i true); auto; discriminate.
        * apply Hnone; [reflexivity|exact Hinv'].
      + (* TryRLock *)
        destruct (can_read r) eqn:Ec; injection E as <- _.
        * unfold can_read in Ec. apply negb_true_iff in Ec.
          apply (R_acquire c a t (f_key f) i false); auto; [discriminate|].
          intros _. destruct (hfind _ _); [discriminate Enr|reflexivity].
        * apply Hnone; [reflexivity|exact Hinv'].
  Qed.

  Lemma R_SK_init : R_SK (sk_init size) a0.
  Proof.
    split; [apply sk_inv_init|]. split.
    - intros t i. cbn. lia.
    - intros l t m. cbn. split; [discriminate|]. intros (h & [] & _).
  Qed.

  Lemma segkey_trace_wf_lemma evs c :
    Conc.exec sk_step_nr (sk_init size) evs = Some c -> wf (segkey_trace size evs).
  Proof.
    intros Hex. unfold segkey_trace. rewrite <- (sk_trace_nr evs _ _ Hex).
    exact (proj1 (model_trace_drf dsc_SK sk_cfg sk_ev sk_step_nr sk_emit R_SK sk_step_R (sk_init size) evs c R_SK_init Hex)).
  Qed.
End SegKeyWf.

(* non-vacuity: size 4; Lock(k) by 1, TryLock(k) by 2 fails, Unlock(k) by 1, Lock(k) by 2:
   thread 1's Unlock (index 10) happens-before thread 2's Lock (index 14) *)
Definition sk_call (t : nat) (o : sk_op) (k : list Z) : list sk_ev := SCall t o k :: repeat (SStep t) 6.
Definition segkey_example_evs : list sk_ev :=
  sk_call 1 OLock [1%Z] ++ sk_call 2 OTryLock [1%Z] ++ sk_call 1 OUnlock [1%Z] ++ sk_call 2 OLock [1%Z].

Lemma segkey_example_lemma :
  let tr := segkey_trace 4%Z segkey_example_evs in
  let l := SK_EL (seg_index 4%Z [1%Z]) in
  (exists c, Conc.exec sk_step_nr (sk_init 4%Z) segkey_example_evs = Some c /\ sk_thr c = [] /\
             List.length (sk_holds c) = 1) /\
  List.length tr = 15 /\
  ev_at tr 3 (mkEv 1 (Acq l Excl)) /\ ev_at tr 10 (mkEv 1 (Rel l Excl)) /\ ev_at tr 14 (mkEv 2 (Acq l Excl)) /\
  hb tr 3 14 /\ wf tr /\ guards_respected segkey_table tr /\ ~ race tr.
Proof.
  cbv zeta.
  assert (Hex : exists c, Conc.exec sk_step_nr (sk_init 4%Z) segkey_example_evs = Some c /\ sk_thr c = [] /\
                          List.length (sk_holds c) = 1).
  { eexists. split; [vm_compute; reflexivity|]. split; reflexivity. }
  split; [exact Hex|]. destruct Hex as (c & Hc & _).
  pose proof (segkey_trace_wf_lemma 4%Z ltac:(lia) _ _ Hc) as Hwf.
  destruct (segkey_trace_norace_lemma 4%Z _ _ (sk_exec_nr _ _ _ Hc)) as (_ & Hg & Hnr).
  split; [vm_compute; reflexivity|].
  assert (E3 : ev_at (segkey_trace 4%Z segkey_example_evs) 3 (mkEv 1 (Acq (SK_EL (seg_index 4%Z [1%Z])) Excl)))
    by (vm_compute; reflexivity).
  assert (E10 : ev_at (segkey_trace 4%Z segkey_example_evs) 10 (mkEv 1 (Rel (SK_EL (seg_index 4%Z [1%Z])) Excl)))
    by (vm_compute; reflexivity).
  assert (E14 : ev_at (segkey_trace 4%Z segkey_example_evs) 14 (mkEv 2 (Acq (SK_EL (seg_index 4%Z [1%Z])) Excl)))
    by (vm_compute; reflexivity).
  split; [exact E3|]. split; [exact E10|]. split; [exact E14|].
  split.
  { apply hb_trans with 10.
    - apply hb_po. eapply po_intro; eauto. lia.
    - apply hb_sw. split; [lia|]. eexists _, _. split; [exact E10|]. split; [exact E14|].
      cbn. split; [reflexivity|now left]. }
  split; [exact Hwf|]. split; [exact Hg|exact Hnr].
Qed.

(* the discipline is needed for HB.wf (not for race freedom): RLock, RLock, RUnlock, RUnlock of one key by ONE
   goroutine is accepted by the model (reader count 2) but its trace is not a well-formed HB execution *)
Definition segkey_recursive_evs : list sk_ev :=
  sk_call 1 ORLock [1%Z] ++ sk_call 1 ORLock [1%Z] ++ sk_call 1 ORUnlock [1%Z] ++ sk_call 1 ORUnlock [1%Z].

Lemma segkey_recursive_rlock_not_wf_lemma :
  (exists c, Conc.exec sk_step (sk_init 4%Z) segkey_recursive_evs = Some c /\ sk_thr c = [] /\ sk_holds c = []) /\
  Conc.exec sk_step_nr (sk_init 4%Z) segkey_recursive_evs = None /\
  ~ wf (segkey_trace 4%Z segkey_recursive_evs) /\ ~ race (segkey_trace 4%Z segkey_recursive_evs).
Proof.
  assert (Hex : exists c, Conc.exec sk_step (sk_init 4%Z) segkey_recursive_evs = Some c /\ sk_thr c = [] /\ sk_holds c = []).
  { eexists. split; [vm_compute; reflexivity|]. split; reflexivity. }
  split; [exact Hex|]. destruct Hex as (c & Hc & _).
  split; [vm_compute; reflexivity|]. split.
  - intros Hwf.
    assert (E15 : ev_at (segkey_trace 4%Z segkey_recursive_evs) 15
                    (mkEv 1 (Rel (SK_EL (seg_index 4%Z [1%Z])) Shared))) by (vm_compute; reflexivity).
    pose proof (wf_rel _ Hwf 15 _ _ _ E15 eq_refl) as Hh. apply holdsb_true in Hh. vm_compute in Hh. discriminate Hh.
  - exact (proj2 (proj2 (segkey_trace_norace_lemma 4%Z _ _ Hc))).
Qed.
