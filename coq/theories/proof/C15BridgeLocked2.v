(* C15BridgeLocked2.v — the trace-level COMPOSITION for the lock-bracketed wrappers
   queue.ConcurrentPriorityQueue and list.ConcurrentList (model LockedModel.LockedObj).

   Every step of a model run is mapped to the HB events of the statement it executes:
     m.Lock() / m.RLock()            Acq lock Excl / Shared
     defer m.Unlock() / RUnlock()    nothing (the deferred call runs at the return)
     return c.inner.Op(args)         model step PBody (the inner state is read): the plain accesses of the
                                     statement — a Write of the inner container for the methods that take the
                                     exclusive lock, a Read for the others (+ the constant read of the field);
                                     model step PMid (successor written, return): Rel lock Excl / Shared
   For EVERY event list the resulting execution is well-formed (HB.wf), respects the guards of the
   type's footprint table (HB.holds evaluated on the trace) and hence has no data race. *)
From Coq Require Import List String Bool Arith Lia ZArith.
From Ekit Require Import Common HB FootprintModel FootprintProof C15Bridge Conc LockedModel LockedProof C15BridgeLocked.
Import ListNotations.
Open Scope string_scope.

Lemma ls_eq_trans' (a b c : lstate) : ls_eq a b -> ls_eq b c -> ls_eq a c.
Proof. intros H1 H2 t m. now rewrite H1. Qed.

Section LockedTrace.
  Variables (state op ret : Type).
  Variable seq_step : state -> op -> state * ret.
  Variable excl : op -> bool.
  Variable mutating : op -> bool.
  Hypothesis Hexcl : forall o, mutating o = true -> excl o = true.
  Hypothesis Hro : forall s o, mutating o = false -> fst (seq_step s o) = s.
  Variable MU : string.
  Variable tbl : table.
  Variable func : op -> string.
  Variable body_acts : op -> list action.     (* the plain accesses of `return c.inner.Op(args)` *)
  Variable s0 : state.

  Notation cfg := (sys_cfg op ret (lk_shared state) (lk_pc state)).
  Notation step := (lk_step seq_step excl).
  Notation init := (sys_init (lk_init s0)).

  Definition lk_acts (o : op) (p : lk_pc state) : list action :=
    match p with
    | PLock => [Acq (lname MU) (if excl o then Excl else Shared)]
    | PDefer => []
    | PBody => body_acts o
    | PMid _ => [Rel (lname MU) (if excl o then Excl else Shared)]
    end.

  Definition lk_emit (c : cfg) (e : sys_ev op) : list event :=
    match e with
    | EStep t => match lookup t (s_thr c) with
                 | Some (o, p) => map (mkEv t) (lk_acts o p)
                 | None => []
                 end
    | _ => []
    end.

  Definition lk_trace (evs : list (sys_ev op)) : execution := trace cfg (sys_ev op) step lk_emit init evs.

  Definition lk_hold (c : cfg) : lstate :=
    fun t m => match lookup t (s_thr c) with
               | Some x => match m with Excl => lk_in_w excl x | Shared => lk_in_r excl x end
               | None => false
               end.

  (* the effect of the step at (o, p) on the stepping thread's holdings; the mode it acquires *)
  Definition lk_eff (o : op) (p : lk_pc state) : bool * bool * option mode :=
    match p with
    | PLock => (excl o, negb (excl o), Some (if excl o then Excl else Shared))
    | PMid _ => (false, false, None)
    | _ => (excl o, negb (excl o), None)
    end.

  (* static premise, discharged per instance by computation *)
  Hypothesis Hsim : forall o p,
    sim MU (rows_of_func tbl (func o)) (lk_in_w excl (o, p)) (lk_in_r excl (o, p)) false None (lk_acts o p)
    = Some (lk_eff o p).

  Definition lk_reach (c : cfg) : Prop := exists evs, exec step init evs = Some c.

  Lemma lk_hold_update (c : cfg) t x x' :
    lookup t (s_thr c) = Some x ->
    forall thr', thr' = update t x' (s_thr c) ->
    forall c', s_thr c' = thr' ->
    ls_eq (lk_hold c') (set_ls (lk_hold c) t (lk_in_w excl x') (lk_in_r excl x')).
  Proof.
    intros Hl thr' -> c' Ht t' m. unfold lk_hold, set_ls. rewrite Ht.
    destruct (Nat.eqb t' t) eqn:E.
    - apply Nat.eqb_eq in E. subst t'. rewrite (lookup_update_same _ _ _ _ _ Hl). reflexivity.
    - apply Nat.eqb_neq in E. rewrite (lookup_update_other _ _ _ _ _ E). reflexivity.
  Qed.

  Lemma lk_hold_remove (c : cfg) t :
    NoDup (tids (s_thr c)) ->
    forall c', s_thr c' = remove t (s_thr c) ->
    ls_eq (lk_hold c') (set_ls (lk_hold c) t false false).
  Proof.
    intros Hnd c' Ht t' m. unfold lk_hold, set_ls. rewrite Ht.
    destruct (Nat.eqb t' t) eqn:E.
    - apply Nat.eqb_eq in E. subst t'. rewrite (lookup_remove_same _ _ Hnd). destruct m; reflexivity.
    - apply Nat.eqb_neq in E. rewrite (lookup_remove_other _ _ _ E). reflexivity.
  Qed.

  Lemma lk_step_ok (c : cfg) e c' :
    lk_reach c -> step c e = Some c' ->
    lk_reach c' /\ all_ok MU tbl (lk_hold c) (lk_emit c e) /\
    ls_eq (upds MU (lk_hold c) (lk_emit c e)) (lk_hold c').
  Proof.
    intros [evs Hex] Hs. split.
    { exists (evs ++ [e])%list. rewrite exec_app, Hex. cbn. rewrite Hs. reflexivity. }
    destruct (locked_object_linearizable_lemma state op ret seq_step excl mutating Hexcl Hro s0 evs c Hex)
      as (_ & _ & _ & Hw & Hr & _ & _ & Hnd).
    unfold lk_step, sys_step in Hs. destruct (sys_exec1 lk_entry (lk_tstep seq_step excl) c e) as [[c1 ob]|] eqn:E;
      [|discriminate]. injection Hs as <-.
    destruct e as [t o|t]; cbn [sys_exec1] in E.
    - (* ECall *)
      destruct (lookup t (s_thr c)) eqn:Hl; [discriminate|]. injection E as <- _.
      cbn [lk_emit all_ok upds fold_left]. split; [exact Logic.I|].
      intros t' m. unfold lk_hold. cbn [s_thr].
      destruct (Nat.eq_dec t' t) as [->|Hne].
      + rewrite Hl, (lookup_spawn_same _ _ _ Hl). destruct m; reflexivity.
      + rewrite (lookup_spawn_other _ _ _ _ Hne). reflexivity.
    - (* EStep *)
      destruct (lookup t (s_thr c)) as [[o p]|] eqn:Hl; [|discriminate].
      unfold lk_emit. rewrite Hl.
      assert (Hx : lk_hold c t Excl = lk_in_w excl (o, p)) by (unfold lk_hold; now rewrite Hl).
      assert (Hsh : lk_hold c t Shared = lk_in_r excl (o, p)) by (unfold lk_hold; now rewrite Hl).
      pose proof (Hsim o p) as Hs. rewrite <- Hx, <- Hsh in Hs.
      assert (Hfree : forall md, snd (lk_eff o p) = Some md -> free (lk_hold c) md ->
                (forall m0, snd (lk_eff o p) = Some m0 -> free (lk_hold c) m0)).
      { intros md E1 F m0 E2. rewrite E1 in E2. injection E2 as <-. exact F. }
      assert (Hgo : forall (F : forall m0, snd (lk_eff o p) = Some m0 -> free (lk_hold c) m0),
                ls_eq (lk_hold c1) (set_ls (lk_hold c) t (fst (fst (lk_eff o p))) (snd (fst (lk_eff o p)))) ->
                all_ok MU tbl (lk_hold c) (map (mkEv t) (lk_acts o p)) /\
                ls_eq (upds MU (lk_hold c) (map (mkEv t) (lk_acts o p))) (lk_hold c1)).
      { intros F Heq.
        destruct (sim_sound MU tbl _ t _ (rows_of_func_incl _ _) _ _ _ _ Hs) as [Hok Hu].
        - intros _ m0 Hm0. now apply F.
        - split; [exact Hok|]. intros t' m. rewrite Hu. symmetry. apply Heq. }
      destruct p as [| | |sm]; cbn [lk_tstep] in E.
      + (* PLock *)
        destruct (excl o) eqn:Ex.
        * destruct (lk_w (s_sh c) || negb (Nat.eqb (lk_r (s_sh c)) 0)) eqn:Eb; [discriminate|].
          injection E as <- _. apply orb_false_iff in Eb as [Ew Er]. apply negb_false_iff, Nat.eqb_eq in Er.
          apply Hgo.
          -- cbn [lk_eff snd]. rewrite Ex. intros m0 Hm0. injection Hm0 as <-. split.
             ++ intros t'. unfold lk_hold. destruct (lookup t' (s_thr c)) as [x|] eqn:Hl'; [|reflexivity].
                apply (count_zero_lookup (lk_in_w excl) t' x (s_thr c)); [|exact Hl']. rewrite Hw, Ew. reflexivity.
             ++ intros _ t'. unfold lk_hold. destruct (lookup t' (s_thr c)) as [x|] eqn:Hl'; [|reflexivity].
                apply (count_zero_lookup (lk_in_r excl) t' x (s_thr c)); [|exact Hl']. rewrite Hr, Er. reflexivity.
          -- eapply ls_eq_trans'; [apply (lk_hold_update c t _ (o, PDefer) Hl _ eq_refl); reflexivity|].
             cbn [lk_eff fst snd lk_in_w lk_in_r]. rewrite Ex. intros ? ?; reflexivity.
        * destruct (lk_w (s_sh c)) eqn:Ew; [discriminate|]. injection E as <- _.
          apply Hgo.
          -- cbn [lk_eff snd]. rewrite Ex. intros m0 Hm0. injection Hm0 as <-. split; [|discriminate].
             intros t'. unfold lk_hold. destruct (lookup t' (s_thr c)) as [x|] eqn:Hl'; [|reflexivity].
             apply (count_zero_lookup (lk_in_w excl) t' x (s_thr c)); [|exact Hl']. rewrite Hw. reflexivity.
          -- eapply ls_eq_trans'; [apply (lk_hold_update c t _ (o, PDefer) Hl _ eq_refl); reflexivity|].
             cbn [lk_eff fst snd lk_in_w lk_in_r]. rewrite Ex. intros ? ?; reflexivity.
      + (* PDefer *)
        injection E as <- _. apply Hgo; [intros m0 Hm0; discriminate Hm0|].
        eapply ls_eq_trans'; [apply (lk_hold_update c t _ (o, PBody) Hl _ eq_refl); reflexivity|].
        cbn [lk_eff fst snd lk_in_w lk_in_r]. intros ? ?; reflexivity.
      + (* PBody *)
        injection E as <- _. apply Hgo; [intros m0 Hm0; discriminate Hm0|].
        eapply ls_eq_trans'; [apply (lk_hold_update c t _ (o, PMid (lk_st (s_sh c))) Hl _ eq_refl); reflexivity|].
        cbn [lk_eff fst snd lk_in_w lk_in_r]. intros ? ?; reflexivity.
      + (* PMid *)
        injection E as <- _. apply Hgo; [intros m0 Hm0; discriminate Hm0|].
        eapply ls_eq_trans'; [apply (lk_hold_remove c t Hnd); reflexivity|].
        cbn [lk_eff fst snd]. intros ? ?; reflexivity.
  Qed.

  Theorem lk_trace_wf_guards evs c :
    exec step init evs = Some c -> wf (lk_trace evs) /\ guards_respected tbl (lk_trace evs).
  Proof.
    intros Hex.
    apply (model_trace_wf_guards MU tbl cfg (sys_ev op) step lk_emit lk_reach lk_hold lk_step_ok init evs c).
    - exists []. reflexivity.
    - intros t m. reflexivity.
    - exact Hex.
  Qed.
End LockedTrace.

Arguments lk_trace {state op ret}.
Arguments lk_acts {state op}.

(* ====================== ConcurrentPriorityQueue ====================== *)
Definition body_acts_CPQ (o : pq_op) : list action :=
  if cpq_excl o then [Write (lname "ConcurrentPriorityQueue.pq.*")] else [Read (lname "ConcurrentPriorityQueue.pq.*")].

Lemma sim_CPQ o p :
  sim MU_CPQ (rows_of_func cpq_table (func_of_op_CPQ o)) (lk_in_w cpq_excl (o, p)) (lk_in_r cpq_excl (o, p))
      false None (lk_acts cpq_excl MU_CPQ body_acts_CPQ o p)
  = Some (lk_eff pq_state pq_op cpq_excl o p).
Proof. destruct o, p; vm_compute; reflexivity. Qed.

Definition cpq_trace (capacity : Z) (items : list Z) (evs : list (sys_ev pq_op)) : execution :=
  lk_trace pq_seq_step cpq_excl MU_CPQ body_acts_CPQ
           {| pq_cap := pq_cap (pq_new capacity); pq_items := fold_left (fun l v => insert_sorted v l) items [] |} evs.

Theorem cpq_trace_drf_lemma capacity items evs c :
  exec cpq_step (cpq_init capacity items) evs = Some c ->
  wf (cpq_trace capacity items evs) /\ guards_respected cpq_table (cpq_trace capacity items evs) /\
  ~ race (cpq_trace capacity items evs).
Proof.
  intros Hex.
  destruct (lk_trace_wf_guards pq_state pq_op pq_ret pq_seq_step cpq_excl pq_mutating cpq_side_condition pq_readonly
              MU_CPQ cpq_table func_of_op_CPQ body_acts_CPQ _ sim_CPQ evs c Hex) as [Hwf Hg].
  split; [exact Hwf|]. split; [exact Hg|]. exact (drf_cpq_lemma _ Hwf Hg).
Qed.

(* ====================== ConcurrentList ====================== *)
Definition body_acts_CList (o : ls_op) : list action :=
  Read (lname "ConcurrentList.List") ::
  (if clist_excl o then [Write (lname "ConcurrentList.List.*")] else [Read (lname "ConcurrentList.List.*")]).

Lemma sim_CList o p :
  sim MU_CList (rows_of_func clist_table (func_of_op_CList o)) (lk_in_w clist_excl (o, p)) (lk_in_r clist_excl (o, p))
      false None (lk_acts clist_excl MU_CList body_acts_CList o p)
  = Some (lk_eff (list Z) ls_op clist_excl o p).
Proof. destruct o, p; vm_compute; reflexivity. Qed.

Definition clist_trace (items : list Z) (evs : list (sys_ev ls_op)) : execution :=
  lk_trace ls_seq_step clist_excl MU_CList body_acts_CList items evs.

Theorem clist_trace_drf_lemma items evs c :
  exec clist_step (clist_init items) evs = Some c ->
  wf (clist_trace items evs) /\ guards_respected clist_table (clist_trace items evs) /\
  ~ race (clist_trace items evs).
Proof.
  intros Hex.
  destruct (lk_trace_wf_guards (list Z) ls_op ls_ret ls_seq_step clist_excl ls_mutating clist_side_condition ls_readonly
              MU_CList clist_table func_of_op_CList body_acts_CList items sim_CList evs c Hex) as [Hwf Hg].
  split; [exact Hwf|]. split; [exact Hg|]. exact (drf_clist_lemma _ Hwf Hg).
Qed.

(* the emitted accesses cover the table's rows of the body statement (the lock rows are the Acq / Rel of
   the PLock / PMid steps) *)
Lemma acts_cover_table_CPQ :
  forallb (fun o => forallb (fun a => match a with Acq _ _ | Rel _ _ => true | _ => action_inb a (body_acts_CPQ o) end)
                            (stmt_actions cpq_table (func_of_op_CPQ o) (body_of_op_CPQ o))) all_ops_CPQ = true.
Proof. vm_compute. reflexivity. Qed.
Lemma acts_cover_table_CList :
  forallb (fun o => forallb (fun a => match a with Acq _ _ | Rel _ _ => true | _ => action_inb a (body_acts_CList o) end)
                            (stmt_actions clist_table (func_of_op_CList o) (body_of_op_CList o))) all_ops_CList = true.
Proof. vm_compute. reflexivity. Qed.
