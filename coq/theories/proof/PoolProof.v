(* Proofs about PoolModel (pool.OnDemandBlockTaskPool), part 1: infrastructure.
   - sums over the thread table (tsum) and how one model step changes them;
   - inversion of apply_out / pexec1;
   - a tactic that splits a PStep into its statement cases. *)
From Ekit Require Import Common Conc PoolModel.
From Coq Require Import ZifyBool Arith PeanoNat.

Definition ptab := list (tid * thr).

(* ---------------------------------------------------------------- sums over the thread table *)
Fixpoint tsum (g : thr -> Z) (l : ptab) : Z :=
  match l with [] => 0 | (_, th) :: r => g th + tsum g r end.

Lemma tsum_update g t th' l th0 :
  lookup t l = Some th0 -> tsum g (update t th' l) = tsum g l - g th0 + g th'.
Proof.
  induction l as [|[t2 p2] r IH]; cbn; [discriminate|].
  destruct (Nat.eqb t t2) eqn:E.
  - intros H; injection H as ->. cbn. lia.
  - intros H. cbn. rewrite (IH H). lia.
Qed.

Lemma tsum_remove g t l th0 :
  lookup t l = Some th0 -> tsum g (remove t l) = tsum g l - g th0.
Proof.
  induction l as [|[t2 p2] r IH]; cbn; [discriminate|].
  destruct (Nat.eqb t t2) eqn:E.
  - intros H; injection H as ->. lia.
  - intros H. cbn. rewrite (IH H). lia.
Qed.

Lemma tsum_spawn g t th l : tsum g (spawn t th l) = tsum g l + g th.
Proof. unfold spawn. induction l as [|[t2 p2] r IH]; cbn; [lia|rewrite IH; lia]. Qed.

Lemma tsum_nonneg g l : (forall th, 0 <= g th) -> 0 <= tsum g l.
Proof. intros H. induction l as [|[t2 p2] r IH]; cbn; [lia|specialize (H p2); lia]. Qed.

Lemma tsum_ge_lookup g t l th0 :
  (forall th, 0 <= g th) -> lookup t l = Some th0 -> g th0 <= tsum g l.
Proof.
  intros Hg Hl. pose proof (tsum_remove g t l th0 Hl) as Hr.
  pose proof (tsum_nonneg g (remove t l) Hg). lia.
Qed.

Lemma tsum_zero_lookup g t l th0 :
  (forall th, 0 <= g th) -> tsum g l = 0 -> lookup t l = Some th0 -> g th0 = 0.
Proof.
  intros Hg Hs Hl. pose proof (tsum_ge_lookup g t l th0 Hg Hl). specialize (Hg th0). lia.
Qed.

Lemma tsum_le g h l : (forall th, g th <= h th) -> tsum g l <= tsum h l.
Proof. intros H. induction l as [|[t2 p2] r IH]; cbn; [lia|specialize (H p2); lia]. Qed.

Lemma tsum_ext g h l : (forall th, g th = h th) -> tsum g l = tsum h l.
Proof. intros H. induction l as [|[t2 p2] r IH]; cbn; [reflexivity|rewrite H, IH; reflexivity]. Qed.

Lemma tsum_plus g h l : tsum (fun th => g th + h th) l = tsum g l + tsum h l.
Proof. induction l as [|[t2 p2] r IH]; cbn; [reflexivity|rewrite IH; lia]. Qed.

(* a function of a thread that does not change when a parked worker is woken *)
Definition wake_inv (g : thr -> Z) : Prop :=
  forall th, is_parked th = true ->
    (forall k, g (recv_ok k th) = g th) /\ g (recv_closed th) = g th /\ g (recv_int th) = g th.

Lemma tsum_wake_all g f l :
  (forall th, is_parked th = true -> g (f th) = g th) -> tsum g (fst (wake_all f l)) = tsum g l.
Proof.
  intros H. induction l as [|[t2 p2] r IH]; cbn; [reflexivity|].
  destruct (wake_all f r) as [r' w] eqn:E. cbn in IH.
  destruct (is_parked p2) eqn:Ep; cbn; [rewrite (H _ Ep)|]; lia.
Qed.

Lemma tsum_apply_wake g w l l' wk :
  wake_inv g -> apply_wake w l = Some (l', wk) -> tsum g l' = tsum g l.
Proof.
  intros Hg. destruct w as [|r k| |]; cbn.
  - intros H; injection H as <- _; reflexivity.
  - destruct (lookup r l) as [th|] eqn:El; [|discriminate].
    destruct (is_parked th) eqn:Ep; [|discriminate].
    intros H; injection H as <- _. rewrite (tsum_update g r _ l th El).
    destruct (Hg th Ep) as [H1 _]. rewrite H1. lia.
  - intros H. pose proof (tsum_wake_all g recv_closed l) as Hw.
    destruct (wake_all recv_closed l) as [a b]. injection H as <- _. apply Hw.
    intros th Ep. apply (Hg th Ep).
  - intros H. pose proof (tsum_wake_all g recv_int l) as Hw.
    destruct (wake_all recv_int l) as [a b]. injection H as <- _. apply Hw.
    intros th Ep. apply (Hg th Ep).
Qed.

Definition oget (g : thr -> Z) (o : option thr) : Z := match o with Some th => g th | None => 0 end.

(* how a step changes any wake-invariant sum *)
Lemma apply_out_tsum g c t th o c' obs :
  wake_inv g -> lookup t (c_thr c) = Some th -> apply_out c t o = Some (c', obs) ->
  tsum g (c_thr c') = tsum g (c_thr c) - g th + oget g (o_th o) + oget g (o_spawn o).
Proof.
  intros Hg Hl. unfold apply_out.
  set (l1 := match o_th o with Some th' => update t th' (c_thr c) | None => remove t (c_thr c) end).
  destruct (apply_wake (o_wake o) l1) as [[l2 wk]|] eqn:Ew; [|discriminate].
  intros H; injection H as <- _. cbn [c_thr].
  assert (H1 : tsum g l1 = tsum g (c_thr c) - g th + oget g (o_th o)).
  { unfold l1. destruct (o_th o) as [th'|]; cbn [oget].
    - apply tsum_update, Hl.
    - rewrite (tsum_remove g t _ th Hl). lia. }
  rewrite <- H1, <- (tsum_apply_wake g _ _ _ _ Hg Ew).
  destruct (o_spawn o) as [w|]; cbn [oget]; [rewrite tsum_spawn|]; lia.
Qed.

Lemma apply_out_fields c t o c' obs :
  apply_out c t o = Some (c', obs) ->
  c_par c' = c_par c /\ c_sh c' = o_sh o /\ c_ntask c' = c_ntask c /\
  c_gh c' = apply_gevs (c_gh c) (o_gev o) /\
  c_next c' = match o_spawn o with Some _ => S (c_next c) | None => c_next c end.
Proof.
  unfold apply_out. destruct (apply_wake _ _) as [[l2 wk]|]; [|discriminate].
  intros H; injection H as <- _. cbn. repeat split; reflexivity.
Qed.

(* ---------------------------------------------------------------- predicates on every thread *)
Definition tall (P : thr -> Prop) (l : ptab) : Prop := Forall (fun x => P (snd x)) l.

Lemma tall_lookup (P : thr -> Prop) l t th : tall P l -> lookup t l = Some th -> P th.
Proof.
  unfold tall. induction l as [|[t2 p2] r IH]; cbn; [discriminate|].
  intros H. inversion H as [|x xs Hx Hxs]; subst. cbn in Hx.
  destruct (Nat.eqb t t2); [intros E; injection E as <-; exact Hx|apply IH, Hxs].
Qed.

Lemma tall_update (P : thr -> Prop) l t th' : tall P l -> P th' -> tall P (update t th' l).
Proof.
  unfold tall. induction l as [|[t2 p2] r IH]; cbn; [constructor|].
  intros H Hp. inversion H as [|x xs Hx Hxs]; subst.
  destruct (Nat.eqb t t2); constructor; cbn; auto.
Qed.

Lemma tall_remove (P : thr -> Prop) l t : tall P l -> tall P (remove t l).
Proof.
  unfold tall. induction l as [|[t2 p2] r IH]; cbn; [constructor|].
  intros H. inversion H as [|x xs Hx Hxs]; subst.
  destruct (Nat.eqb t t2); [exact Hxs|constructor; auto].
Qed.

Lemma tall_spawn (P : thr -> Prop) l t th : tall P l -> P th -> tall P (spawn t th l).
Proof. unfold tall, spawn. intros H Hp. apply Forall_app. split; [exact H|constructor; [exact Hp|constructor]]. Qed.

Lemma tall_impl (P Q : thr -> Prop) l : (forall th, P th -> Q th) -> tall P l -> tall Q l.
Proof. unfold tall. intros H. apply Forall_impl. intros [a b]; cbn; apply H. Qed.

Lemma tall_wake_all (P : thr -> Prop) f l :
  (forall th, is_parked th = true -> P th -> P (f th)) -> tall P l -> tall P (fst (wake_all f l)).
Proof.
  unfold tall. intros Hf. induction l as [|[t2 p2] r IH]; cbn; [constructor|].
  intros H. inversion H as [|x xs Hx Hxs]; subst. cbn in Hx. specialize (IH Hxs).
  destruct (wake_all f r) as [r' w]. cbn in IH.
  destruct (is_parked p2) eqn:Ep; cbn; constructor; cbn; auto.
Qed.

(* a thread predicate that survives being woken *)
Definition wake_ok (P : thr -> Prop) : Prop :=
  forall th, is_parked th = true -> P th ->
    (forall k, P (recv_ok k th)) /\ P (recv_closed th) /\ P (recv_int th).

Lemma tall_apply_wake (P : thr -> Prop) w l l' wk :
  wake_ok P -> apply_wake w l = Some (l', wk) -> tall P l -> tall P l'.
Proof.
  intros Hp. destruct w as [|r k| |]; cbn.
  - intros H; injection H as <- _; auto.
  - destruct (lookup r l) as [th|] eqn:El; [|discriminate].
    destruct (is_parked th) eqn:Ep; [|discriminate].
    intros H Ha; injection H as <- _. apply tall_update; [exact Ha|].
    apply (Hp th Ep). eapply tall_lookup; eassumption.
  - intros H Ha. pose proof (tall_wake_all P recv_closed l) as Hw.
    destruct (wake_all recv_closed l) as [a b]. injection H as <- _. apply Hw; [|exact Ha].
    intros th Ep Hth. apply (Hp th Ep Hth).
  - intros H Ha. pose proof (tall_wake_all P recv_int l) as Hw.
    destruct (wake_all recv_int l) as [a b]. injection H as <- _. apply Hw; [|exact Ha].
    intros th Ep Hth. apply (Hp th Ep Hth).
Qed.

(* a step keeps a per-thread predicate when the stepping thread's successor and the spawned
   goroutine satisfy it *)
Lemma apply_out_tall (P : thr -> Prop) c t o c' obs :
  wake_ok P -> tall P (c_thr c) -> apply_out c t o = Some (c', obs) ->
  (forall th', o_th o = Some th' -> P th') ->
  (forall w, o_spawn o = Some w -> P w) ->
  tall P (c_thr c').
Proof.
  intros Hp Ha. unfold apply_out.
  set (l1 := match o_th o with Some th' => update t th' (c_thr c) | None => remove t (c_thr c) end).
  destruct (apply_wake (o_wake o) l1) as [[l2 wk]|] eqn:Ew; [|discriminate].
  intros H Hth Hsp; injection H as <- _. cbn [c_thr].
  assert (H1 : tall P l1).
  { unfold l1. destruct (o_th o) as [th'|]; [apply tall_update; auto|apply tall_remove; auto]. }
  pose proof (tall_apply_wake P _ _ _ _ Hp Ew H1) as H2.
  destruct (o_spawn o) as [w|]; [apply tall_spawn; auto|exact H2].
Qed.

(* ---------------------------------------------------------------- reachability *)
Definition preach (P : params) (c : pcfg) : Prop :=
  exists evs, exec pstep_cfg (pinit P) evs = Some c.

Lemma preach_ind (P : params) (Inv : pcfg -> Prop) :
  Inv (pinit P) ->
  (forall c e c', Inv c -> pstep_cfg c e = Some c' -> Inv c') ->
  forall c, preach P c -> Inv c.
Proof.
  intros H0 Hs c [evs He]. eapply invariant_reachable; eauto.
Qed.

Lemma preach_step P c e c' : preach P c -> pstep_cfg c e = Some c' -> preach P c'.
Proof.
  intros [evs He] Hs. exists (evs ++ [e]). rewrite exec_app, He. cbn. rewrite Hs. reflexivity.
Qed.

Lemma preach_init P : preach P (pinit P).
Proof. exists []. reflexivity. Qed.

(* ---------------------------------------------------------------- inversion of one event *)
(* the five event kinds, with the stepping thread exposed *)
Lemma pstep_cfg_inv c e c' :
  pstep_cfg c e = Some c' ->
  match e with
  | PCall t op =>
    lookup t (c_thr c) = None /\ (t < i_base (c_par c))%nat /\
    c' = mkCfg (c_par c) (c_sh c) (spawn t (enter (c_sh c) op) (c_thr c)) (c_next c)
               (match op with OpSubmit _ _ => S (c_ntask c) | _ => c_ntask c end) (c_gh c) /\
    (match op with OpSubmit id _ => id = c_ntask c | _ => True end)
  | PStep t ch =>
    exists th o obs, lookup t (c_thr c) = Some th /\
      pstep (c_par c) (parked_of (c_thr c)) (c_sh c) th ch = Some o /\
      apply_out c t o = Some (c', obs)
  | PCancel t =>
    exists th, lookup t (c_thr c) = Some th /\ l_cancel th = false /\
      c' = with_thr c (update t (set_cancel true th) (c_thr c))
  | PFire t =>
    exists th, lookup t (c_thr c) = Some th /\ l_tm th = TmArmed /\
      c' = with_thr c (update t (if is_parked th then goto WCaseTimer (set_tm TmDead th)
                                 else set_tm TmFired th) (c_thr c))
  | PFinish t =>
    exists th obs, lookup t (c_thr c) = Some th /\ pc th = WUser /\
      apply_out c t (mkOut (c_sh c)
        (Some (goto RwRecIf (set_lvl 1%nat (set_pan (tk_panics (l_task th)) (set_has false th)))))
        None None WkNone [GDone (tid_of th)]) = Some (c', obs)
  end.
Proof.
  unfold pstep_cfg. destruct (pexec1 c e) as [[c1 obs]|] eqn:E; [|discriminate].
  intros H; injection H as <-. destruct e as [t op|t ch|t|t|t]; unfold pexec1 in E.
  - destruct (lookup t (c_thr c)) eqn:El; [discriminate|].
    destruct (Nat.ltb t (i_base (c_par c))) eqn:Eb; [|discriminate].
    apply Nat.ltb_lt in Eb. split; [reflexivity|]. split; [exact Eb|].
    destruct op as [id p| | | |]; cbv beta iota in E.
    + destruct (Nat.eqb id (c_ntask c)) eqn:Ei; [|discriminate]. apply Nat.eqb_eq in Ei.
      injection E as <- _. auto.
    + injection E as <- _. auto.
    + injection E as <- _. auto.
    + injection E as <- _. auto.
    + injection E as <- _. auto.
  - destruct (lookup t (c_thr c)) as [th|] eqn:El; [|discriminate].
    destruct (pstep _ _ _ th ch) as [o|] eqn:Ep; [|discriminate].
    exists th, o, obs. auto.
  - destruct (lookup t (c_thr c)) as [th|] eqn:El; [|discriminate].
    destruct (l_cancel th) eqn:Ec; [discriminate|]. injection E as <- _. exists th. auto.
  - destruct (lookup t (c_thr c)) as [th|] eqn:El; [|discriminate].
    destruct (l_tm th) eqn:Et; try discriminate.
    exists th. split; [reflexivity|]. split; [exact Et|].
    destruct (is_parked th); injection E as <- _; reflexivity.
  - destruct (lookup t (c_thr c)) as [th|] eqn:El; [|discriminate].
    destruct (pc th) eqn:Epc; try discriminate.
    exists th, obs. auto.
Qed.
