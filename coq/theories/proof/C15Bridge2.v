(* C15Bridge2.v — C15: the trace theory of C15Bridge.v generalised to SEVERAL locks, publication
   edges (mutex release -> acquire, generic release -> acquire: channel, sync.Once, sync.Pool),
   forks, and the five disciplines of lib/HB.v, stated per LOCATION INSTANCE.

   [dsc : name -> option disc] classifies every location instance (field name, instance number):
     QAtomic             only sync/atomic accesses                     -> HB.atomic_only
     QConst              never written in the trace                    -> HB.read_only
     QLocked l           every access under lock l (writers Excl)      -> HB.guarded_by
     QPub v              written by its creator while thread-local, published by the creator's
                         next release on v, afterwards only read, by the creator or by threads
                         that acquired v after the publication         -> HB.publish_once_hb
     QInit l v       initialised by its creator while thread-local, published by the
                         creator's next release on v, afterwards accessed under lock l by the
                         creator or by threads that acquired v after   -> HB.init_then_guarded_by
   An ABSTRACT TRACE STATE [ast] (who holds which lock, which thread has events, the life-cycle
   state of every published location, which thread has acquired after the publication) is moved
   by every event ([aupd]); [ev_ok a ev] = the event is admissible in state a.  No index of the
   trace appears in the abstract state: the indices the HB lemmas need (the publishing release,
   the acquiring events) are reconstructed in the proof ([InvI]).
   [all_ok_drf]: a trace all of whose events are admissible is well-formed and has no data race.
   [model_trace_drf]: an interleaving model (possibly extended by ghost state) whose every step
   emits admissible events generates only such traces. *)
From Coq Require Import List String Bool Arith Lia.
From Ekit Require Import HB FootprintModel FootprintProof C15Bridge.
From Ekit Require Conc.
Import ListNotations.
Open Scope list_scope.

Inductive locst := LFresh | LLocal (t : thread) | LPub (t : thread).
Inductive via := VLock (l : name) | VSync (o : name).
Inductive disc :=
| QAtomic | QConst | QLocked (l : name) | QPub (v : via) | QInit (l : name) (v : via).

Record ast := mkA {
  a_lk : name -> thread -> mode -> bool;
  a_used : thread -> bool;
  a_lst : name -> locst;
  a_seen : name -> thread -> bool }.

Definition a0 : ast := mkA (fun _ _ _ => false) (fun _ => false) (fun _ => LFresh) (fun _ _ => false).

(* ---------- executions extended at the end ---------- *)
Lemma ev_at_snoc_inv (e : execution) ev i ev' :
  ev_at (e ++ [ev]) i ev' -> (i < List.length e /\ ev_at e i ev') \/ (i = List.length e /\ ev' = ev).
Proof.
  intros H. pose proof (ev_at_lt _ _ _ H) as Hl. rewrite app_length in Hl. cbn in Hl.
  destruct (Nat.eq_dec i (List.length e)) as [->|Hne].
  - right. split; [reflexivity|]. exact (ev_at_fun _ _ _ _ H (ev_at_last e ev)).
  - left. assert (Hi : i < List.length e) by lia. split; [exact Hi|]. now apply (ev_at_app_l e [ev]).
Qed.

Lemma ev_at_app_intro (e1 e2 : execution) i ev : ev_at e1 i ev -> ev_at (e1 ++ e2) i ev.
Proof. intros H. apply ev_at_app_l; [eapply ev_at_lt; eassumption|exact H]. Qed.

Lemma sw_app (e1 e2 : execution) i j : sw e1 i j -> sw (e1 ++ e2) i j.
Proof.
  intros [Hlt (a & b & Ha & Hb & Hs)]. split; [exact Hlt|]. exists a, b.
  repeat split; auto using ev_at_app_intro.
Qed.

Lemma hal_prefix (e1 e2 : execution) t l m i :
  i <= List.length e1 -> (holds_at_least (e1 ++ e2) t l m i <-> holds_at_least e1 t l m i).
Proof.
  intros Hi. destruct m; cbn.
  - now apply holds_prefix.
  - pose proof (holds_prefix e1 e2 t l Shared i Hi). pose proof (holds_prefix e1 e2 t l Excl i Hi). tauto.
Qed.

Lemma wf_snoc (e : execution) ev :
  wf e ->
  (forall l m, act ev = Acq l m -> forall t',
      ~ holds e t' l Excl (List.length e) /\ (m = Excl -> ~ holds e t' l Shared (List.length e))) ->
  (forall l m, act ev = Rel l m -> holds e (tid ev) l m (List.length e)) ->
  (forall c, act ev = Fork c -> c <> tid ev /\ forall i b, ev_at e i b -> tid b <> c) ->
  wf (e ++ [ev]).
Proof.
  intros Hwf HA HR HF. constructor.
  - intros i ev' l m Hev Ha t'. destruct (ev_at_snoc_inv _ _ _ _ Hev) as [[Hi Hev']|[-> ->]].
    + destruct (wf_acq e Hwf i ev' l m Hev' Ha t') as [H1 H2]. split.
      * intros H. apply H1. apply (holds_prefix e [ev]) in H; [exact H|lia].
      * intros Hm H. apply (H2 Hm). apply (holds_prefix e [ev]) in H; [exact H|lia].
    + destruct (HA l m Ha t') as [H1 H2]. split.
      * intros H. apply H1. apply (holds_prefix e [ev]) in H; [exact H|lia].
      * intros Hm H. apply (H2 Hm). apply (holds_prefix e [ev]) in H; [exact H|lia].
  - intros i ev' l m Hev Ha. destruct (ev_at_snoc_inv _ _ _ _ Hev) as [[Hi Hev']|[-> ->]].
    + apply holds_prefix; [lia|]. exact (wf_rel e Hwf i ev' l m Hev' Ha).
    + apply holds_prefix; [lia|]. exact (HR l m Ha).
  - intros i j a b c Ha Hact Hb Htb.
    destruct (ev_at_snoc_inv _ _ _ _ Ha) as [[Hi Ha']|[-> ->]];
      destruct (ev_at_snoc_inv _ _ _ _ Hb) as [[Hj Hb']|[-> ->]].
    + exact (wf_fork e Hwf i j a b c Ha' Hact Hb' Htb).
    + exact Hi.
    + exfalso. destruct (HF c Hact) as [_ H]. exact (H j b Hb' Htb).
    + exfalso. destruct (HF c Hact) as [H _]. apply H. symmetry. exact Htb.
Qed.

Lemma one_thread_no_race (e : execution) x t :
  (forall i ev w ao, ev_at e i ev -> access_of (act ev) = Some (x, w, ao) -> tid ev = t) -> ~ race_on e x.
Proof.
  intros H (i & j & a & b & Ha & Hb & Hne & (wa & aa & wb & ab & Haa & Hab & _) & _).
  apply Hne. rewrite (H i a wa aa Ha Haa), (H j b wb ab Hb Hab). reflexivity.
Qed.

Lemma key_eqb_true l l0 (t t0 : thread) m m0 :
  name_eqb l l0 && Nat.eqb t t0 && mode_eqb m m0 = true <-> l = l0 /\ t = t0 /\ m = m0.
Proof.
  rewrite !andb_true_iff, name_eqb_eq, Nat.eqb_eq, mode_eqb_eq. tauto.
Qed.

Lemma name_eqb_refl x : name_eqb x x = true.
Proof. now apply name_eqb_eq. Qed.

Section Multi.
  Variable dsc : name -> option disc.

  Definition via_of (x : name) : option via :=
    match dsc x with Some (QPub v) | Some (QInit _ v) => Some v | _ => None end.

  Definition pub_actb (v : via) (a : action) : bool :=
    match v, a with
    | VLock l, Rel l' Excl => name_eqb l l'
    | VSync o, SRel o' => name_eqb o o'
    | _, _ => false
    end.
  Definition acq_actb (v : via) (a : action) : bool :=
    match v, a with
    | VLock l, Acq l' _ => name_eqb l l'
    | VSync o, SAcq o' => name_eqb o o'
    | _, _ => false
    end.

  Lemma pub_acq_syncs v a b : pub_actb v (act a) = true -> acq_actb v (act b) = true -> syncs a b.
  Proof.
    unfold pub_actb, acq_actb, syncs. destruct v as [l|o], (act a) as [| l1 m1 | | | | o1 | | | |]; try discriminate;
      destruct (act b) as [l2 m2| | | | | | o2 | | |]; try discriminate.
    - destruct m1; try discriminate. intros H1 H2. apply name_eqb_eq in H1, H2. subst. split; [reflexivity|now left].
    - intros H1 H2. apply name_eqb_eq in H1, H2. congruence.
  Qed.

  Lemma pub_actb_no_access v a : pub_actb v a = true -> access_of a = None.
  Proof. destruct v, a; cbn; try discriminate; reflexivity. Qed.

  (* ---------- the abstract state moved by one event ---------- *)
  Definition lk_upd (h : name -> thread -> mode -> bool) (e : event) : name -> thread -> mode -> bool :=
    match act e with
    | Acq l m => fun l' t m' => if name_eqb l' l && Nat.eqb t (tid e) && mode_eqb m' m then true else h l' t m'
    | Rel l m => fun l' t m' => if name_eqb l' l && Nat.eqb t (tid e) && mode_eqb m' m then false else h l' t m'
    | _ => h
    end.

  Definition lst_upd (a : ast) (e : event) : name -> locst :=
    fun x =>
      match via_of x with
      | None => a_lst a x
      | Some v =>
        match a_lst a x with
        | LFresh => match access_of (act e) with
                    | Some (x', _, _) => if name_eqb x x' then LLocal (tid e) else LFresh
                    | None => LFresh
                    end
        | LLocal t0 => if Nat.eqb t0 (tid e) && pub_actb v (act e) then LPub t0 else LLocal t0
        | LPub t0 => LPub t0
        end
      end.

  Definition seen_upd (a : ast) (e : event) : name -> thread -> bool :=
    fun x t' => a_seen a x t' ||
                (Nat.eqb t' (tid e) &&
                 match a_lst a x, via_of x with LPub _, Some v => acq_actb v (act e) | _, _ => false end).

  Definition aupd (a : ast) (e : event) : ast :=
    mkA (lk_upd (a_lk a) e) (fun t => Nat.eqb t (tid e) || a_used a t) (lst_upd a e) (seen_upd a e).

  Definition aupds (a : ast) (es : list event) : ast := fold_left aupd es a.

  Lemma aupds_app a es1 es2 : aupds a (es1 ++ es2) = aupds (aupds a es1) es2.
  Proof. unfold aupds. apply fold_left_app. Qed.

  (* ---------- admissible events ---------- *)
  Definition h_at_least (a : ast) (l : name) (t : thread) (m : mode) : Prop :=
    match m with
    | Excl => a_lk a l t Excl = true
    | Shared => a_lk a l t Shared = true \/ a_lk a l t Excl = true
    end.

  Definition acc_ok (a : ast) (t : thread) (x : name) (w ao : bool) : Prop :=
    match dsc x with
    | None => False
    | Some QAtomic => ao = true
    | Some QConst => w = false
    | Some (QLocked l) => h_at_least a l t (if w then Excl else Shared)
    | Some (QPub _) =>
        match a_lst a x with
        | LFresh => True
        | LLocal t0 => t0 = t
        | LPub t0 => w = false /\ (t0 = t \/ a_seen a x t = true)
        end
    | Some (QInit l _) =>
        match a_lst a x with
        | LFresh => True
        | LLocal t0 => t0 = t
        | LPub t0 => h_at_least a l t (if w then Excl else Shared) /\ (t0 = t \/ a_seen a x t = true)
        end
    end.

  Definition ev_ok (a : ast) (e : event) : Prop :=
    match act e with
    | Acq l m => (forall t', a_lk a l t' Excl = false) /\ (m = Excl -> forall t', a_lk a l t' Shared = false)
    | Rel l m => a_lk a l (tid e) m = true
    | Fork c => a_used a c = false /\ c <> tid e
    | SRel _ | SAcq _ => True
    | b => match access_of b with Some (x, w, ao) => acc_ok a (tid e) x w ao | None => True end
    end.

  Fixpoint all_ok (a : ast) (es : list event) : Prop :=
    match es with
    | [] => True
    | e :: r => ev_ok a e /\ all_ok (aupd a e) r
    end.

  Lemma all_ok_app es1 : forall a es2,
    all_ok a (es1 ++ es2) <-> all_ok a es1 /\ all_ok (aupds a es1) es2.
  Proof. induction es1 as [|e r IH]; intros a es2; cbn; [tauto|]. rewrite IH. tauto. Qed.

  Lemma ev_ok_access a e x w ao :
    ev_ok a e -> access_of (act e) = Some (x, w, ao) -> acc_ok a (tid e) x w ao.
  Proof.
    unfold ev_ok. intros H Hacc. destruct (act e); cbn in Hacc; try discriminate Hacc;
      cbn [access_of] in H; injection Hacc as <- <- <-; exact H.
  Qed.

  (* ---------- the concrete invariant behind the abstract state ---------- *)
  Definition post_ok (e : execution) (x : name) (w : bool) (i : nat) (ev : event) : Prop :=
    match dsc x with
    | Some (QPub _) => w = false
    | Some (QInit l _) => holds_at_least e (tid ev) l (if w then Excl else Shared) i
    | _ => True
    end.

  Record InvI (e : execution) (a : ast) (pidx : name -> nat) : Prop := {
    iv_wf : wf e;
    iv_lk : forall l t m, a_lk a l t m = true <-> holds e t l m (List.length e);
    iv_used : forall t, a_used a t = false -> forall i ev, ev_at e i ev -> tid ev <> t;
    iv_gen : forall i ev x w ao, ev_at e i ev -> access_of (act ev) = Some (x, w, ao) ->
      match dsc x with
      | None => False
      | Some QAtomic => ao = true
      | Some QConst => w = false
      | Some (QLocked l) => holds_at_least e (tid ev) l (if w then Excl else Shared) i
      | _ => True
      end;
    iv_fresh : forall x, via_of x <> None -> a_lst a x = LFresh ->
      forall i ev w ao, ev_at e i ev -> access_of (act ev) <> Some (x, w, ao);
    iv_local : forall x t, via_of x <> None -> a_lst a x = LLocal t ->
      forall i ev w ao, ev_at e i ev -> access_of (act ev) = Some (x, w, ao) -> tid ev = t;
    iv_pub : forall x t, a_lst a x = LPub t ->
      exists v evr, via_of x = Some v /\ ev_at e (pidx x) evr /\ tid evr = t /\ pub_actb v (act evr) = true /\
        forall i ev w ao, ev_at e i ev -> access_of (act ev) = Some (x, w, ao) ->
          (tid ev = t /\ i < pidx x) \/
          (pidx x < i /\
           (tid ev = t \/ exists q evq, q < i /\ ev_at e q evq /\ tid evq = tid ev /\ sw e (pidx x) q) /\
           post_ok e x w i ev);
    iv_seen : forall x t', a_seen a x t' = true ->
      exists t, a_lst a x = LPub t /\ exists q evq, ev_at e q evq /\ tid evq = t' /\ sw e (pidx x) q
  }.

  Lemma InvI_init : InvI [] a0 (fun _ => 0).
  Proof.
    constructor; cbn.
    - constructor.
      + intros i ev l m H. destruct i; discriminate H.
      + intros i ev l m H. destruct i; discriminate H.
      + intros i j a b c H. destruct i; discriminate H.
    - intros l t m. split; [discriminate|]. intros (p & Hp & _). lia.
    - intros t _ i ev H. destruct i; discriminate H.
    - intros i ev x w ao H. destruct i; discriminate H.
    - intros x _ _ i ev w ao H. destruct i; discriminate H.
    - intros x t _ H. discriminate H.
    - intros x t H. discriminate H.
    - intros x t H. discriminate H.
  Qed.

  Lemma h_at_least_holds e a l t m :
    (forall l t m, a_lk a l t m = true <-> holds e t l m (List.length e)) ->
    h_at_least a l t m -> holds_at_least e t l m (List.length e).
  Proof.
    intros Hlk. destruct m; cbn.
    - apply Hlk.
    - intros [H|H]; [left|right]; now apply Hlk.
  Qed.

  Lemma lk_upd_holds e a ev :
    (forall l t m, a_lk a l t m = true <-> holds e t l m (List.length e)) ->
    forall l t m, lk_upd (a_lk a) ev l t m = true <-> holds (e ++ [ev]) t l m (List.length (e ++ [ev])).
  Proof.
    intros Hlk l t m. rewrite app_length. cbn [List.length]. rewrite Nat.add_1_r, holds_snoc.
    unfold lk_upd. destruct (act ev) as [l0 m0|l0 m0| | | | | | | | ] eqn:Ea;
      try (rewrite Hlk; split; [intros H; right; split; [exact H|intros [_ X]; discriminate X]
                               |intros [[_ X]|[H _]]; [discriminate X|exact H]]).
    - destruct (name_eqb l l0 && Nat.eqb t (tid ev) && mode_eqb m m0) eqn:Ek.
      + apply key_eqb_true in Ek as (-> & -> & ->). split; [intros _; left; now split|reflexivity].
      + rewrite Hlk. split.
        * intros H. right. split; [exact H|intros [_ X]; discriminate X].
        * intros [[Ht X]|[H _]]; [|exact H]. injection X as -> ->. subst t.
          assert (Hk : name_eqb l l && Nat.eqb (tid ev) (tid ev) && mode_eqb m m = true)
            by (apply key_eqb_true; repeat split).
          congruence.
    - destruct (name_eqb l l0 && Nat.eqb t (tid ev) && mode_eqb m m0) eqn:Ek.
      + apply key_eqb_true in Ek as (-> & -> & ->). split; [discriminate|].
        intros [[_ X]|[_ H]]; [discriminate X|]. exfalso. apply H. now split.
      + rewrite Hlk. split.
        * intros H. right. split; [exact H|]. intros [Ht X]. injection X as -> ->. subst t.
          assert (Hk : name_eqb l l && Nat.eqb (tid ev) (tid ev) && mode_eqb m m = true)
            by (apply key_eqb_true; repeat split).
          congruence.
        * intros [[_ X]|[H _]]; [discriminate X|exact H].
  Qed.

  Definition pidx_upd (a : ast) (ev : event) (n : nat) (pidx : name -> nat) : name -> nat :=
    fun x => match a_lst a x, lst_upd a ev x with LLocal _, LPub _ => n | _, _ => pidx x end.

  Lemma via_of_dsc x v : via_of x = Some v ->
    dsc x = Some (QPub v) \/ exists l, dsc x = Some (QInit l v).
  Proof.
    unfold via_of. destruct (dsc x) as [[| | |v'|l v']|]; try discriminate; intros H; injection H as ->;
      [now left|right; now exists l].
  Qed.

  Lemma InvI_step e a pidx ev :
    InvI e a pidx -> ev_ok a ev -> InvI (e ++ [ev]) (aupd a ev) (pidx_upd a ev (List.length e) pidx).
  Proof.
    intros IV Hok. set (n := List.length e).
    assert (Hlift : forall i ev', ev_at e i ev' -> ev_at (e ++ [ev]) i ev') by (intros; now apply ev_at_app_intro).
    constructor.
    - (* wf *)
      apply wf_snoc; [exact (iv_wf _ _ _ IV)| | |].
      + intros l m Ha t'. unfold ev_ok in Hok. rewrite Ha in Hok. destruct Hok as [H1 H2]. split.
        * intros Hh. apply (iv_lk _ _ _ IV) in Hh. rewrite H1 in Hh. discriminate.
        * intros Hm Hh. apply (iv_lk _ _ _ IV) in Hh. rewrite (H2 Hm) in Hh. discriminate.
      + intros l m Ha. unfold ev_ok in Hok. rewrite Ha in Hok. now apply (iv_lk _ _ _ IV).
      + intros c Ha. unfold ev_ok in Hok. rewrite Ha in Hok. destruct Hok as [Hu Hne]. split; [exact Hne|].
        intros i b Hb. exact (iv_used _ _ _ IV c Hu i b Hb).
    - (* locks *)
      cbn [a_lk aupd]. apply lk_upd_holds. exact (iv_lk _ _ _ IV).
    - (* used *)
      cbn [a_used aupd]. intros t Hu i ev' Hev. apply orb_false_iff in Hu as [Hne Hu].
      apply Nat.eqb_neq in Hne.
      destruct (ev_at_snoc_inv _ _ _ _ Hev) as [[Hi Hev']|[-> ->]].
      + exact (iv_used _ _ _ IV t Hu i ev' Hev').
      + intros E. apply Hne. now symmetry.
    - (* generic disciplines *)
      intros i ev' x w ao Hev Hacc.
      destruct (ev_at_snoc_inv _ _ _ _ Hev) as [[Hi Hev']|[-> ->]].
      + pose proof (iv_gen _ _ _ IV i ev' x w ao Hev' Hacc) as H.
        destruct (dsc x) as [[| |l| |]|]; try exact H. apply hal_prefix; [lia|exact H].
      + pose proof (ev_ok_access _ _ _ _ _ Hok Hacc) as H. unfold acc_ok in H.
        destruct (dsc x) as [[| |l| |]|]; try exact H; try exact I.
        apply hal_prefix; [fold n; lia|]. apply (h_at_least_holds e a); [exact (iv_lk _ _ _ IV)|exact H].
    - (* fresh *)
      cbn [a_lst aupd]. intros x Hv Hf i ev' w ao Hev Hacc. unfold lst_upd in Hf.
      destruct (via_of x) as [v|] eqn:Ev; [|now apply Hv].
      assert (Hv0 : via_of x <> None) by (rewrite Ev; discriminate).
      destruct (a_lst a x) as [|t0|t0] eqn:El; [| |discriminate Hf].
      2:{ destruct (Nat.eqb t0 (tid ev) && pub_actb v (act ev)); discriminate Hf. }
      destruct (ev_at_snoc_inv _ _ _ _ Hev) as [[Hi Hev']|[-> ->]].
      + apply (iv_fresh _ _ _ IV x Hv0 El i ev' w ao Hev'). exact Hacc.
      + rewrite Hacc in Hf. rewrite name_eqb_refl in Hf. discriminate Hf.
    - (* local *)
      cbn [a_lst aupd]. intros x t Hv Hl i ev' w ao Hev Hacc. unfold lst_upd in Hl.
      destruct (via_of x) as [v|] eqn:Ev; [|now contradiction Hv].
      assert (Hv0 : via_of x <> None) by (rewrite Ev; discriminate).
      destruct (a_lst a x) as [|t0|t0] eqn:El; [| |discriminate Hl].
      + (* was fresh: ev is the first access *)
        destruct (ev_at_snoc_inv _ _ _ _ Hev) as [[Hi Hev']|[-> ->]].
        * exfalso. exact (iv_fresh _ _ _ IV x Hv0 El i ev' w ao Hev' Hacc).
        * rewrite Hacc, name_eqb_refl in Hl. now injection Hl.
      + destruct (Nat.eqb t0 (tid ev) && pub_actb v (act ev)); [discriminate Hl|]. injection Hl as <-.
        destruct (ev_at_snoc_inv _ _ _ _ Hev) as [[Hi Hev']|[-> ->]].
        * exact (iv_local _ _ _ IV x t0 Hv0 El i ev' w ao Hev' Hacc).
        * pose proof (ev_ok_access _ _ _ _ _ Hok Hacc) as H. unfold acc_ok in H.
          destruct (via_of_dsc x v Ev) as [Hd|[l Hd]]; rewrite Hd, El in H; now symmetry.
    - (* published *)
      cbn [a_lst aupd]. intros x t Hp. unfold lst_upd in Hp.
      destruct (via_of x) as [v|] eqn:Ev.
      2:{ destruct (iv_pub _ _ _ IV x t Hp) as (v & _ & Hv & _). congruence. }
      assert (Hvne : via_of x <> None) by (rewrite Ev; discriminate).
      destruct (a_lst a x) as [|t0|t0] eqn:El.
      + destruct (access_of (act ev)) as [[[x' ?] ?]|]; [destruct (name_eqb x x')|]; discriminate Hp.
      + (* newly published by ev *)
        destruct (Nat.eqb t0 (tid ev) && pub_actb v (act ev)) eqn:Ep; [|discriminate Hp].
        injection Hp as <-. apply andb_true_iff in Ep as [Et Ep]. apply Nat.eqb_eq in Et.
        assert (Hpi : pidx_upd a ev n pidx x = n).
        { unfold pidx_upd, lst_upd. rewrite El, Ev. rewrite <- Et, Nat.eqb_refl, Ep. reflexivity. }
        exists v, ev. rewrite Hpi. split; [reflexivity|]. split; [apply ev_at_last|].
        split; [now symmetry|]. split; [exact Ep|].
        intros i ev' w ao Hev Hacc. left.
        destruct (ev_at_snoc_inv _ _ _ _ Hev) as [[Hi Hev']|[-> ->]].
        * split; [|exact Hi]. exact (iv_local _ _ _ IV x t0 Hvne El i ev' w ao Hev' Hacc).
        * rewrite (pub_actb_no_access _ _ Ep) in Hacc. discriminate Hacc.
      + injection Hp as <-.
        destruct (iv_pub _ _ _ IV x t0 El) as (v' & evr & Hv' & Hevr & Htr & Hpa & Hall).
        rewrite Ev in Hv'. injection Hv' as <-.
        assert (Hpi : pidx_upd a ev n pidx x = pidx x).
        { unfold pidx_upd. rewrite El. reflexivity. }
        rewrite Hpi. exists v, evr. split; [reflexivity|]. split; [now apply Hlift|].
        split; [exact Htr|]. split; [exact Hpa|].
        assert (Hrn : pidx x < n) by (eapply ev_at_lt; exact Hevr).
        intros i ev' w ao Hev Hacc.
        destruct (ev_at_snoc_inv _ _ _ _ Hev) as [[Hi Hev']|[-> ->]].
        * destruct (Hall i ev' w ao Hev' Hacc) as [H|(Hlt & Hwho & Hpost)]; [now left|right].
          split; [exact Hlt|]. split.
          -- destruct Hwho as [H|(q & evq & Hq & Hevq & Htq & Hsw)]; [now left|right].
             exists q, evq. split; [exact Hq|]. split; [now apply Hlift|]. split; [exact Htq|now apply sw_app].
          -- unfold post_ok in *. destruct (dsc x) as [[| | | |l v0]|]; try exact Hpost.
             apply hal_prefix; [lia|exact Hpost].
        * right. split; [exact Hrn|].
          pose proof (ev_ok_access _ _ _ _ _ Hok Hacc) as H. unfold acc_ok in H. unfold post_ok.
          destruct (via_of_dsc x v Ev) as [Hd|[l Hd]]; rewrite Hd in *; rewrite El in H.
          -- destruct H as [Hw Hwho]. split; [|exact Hw].
             destruct Hwho as [Hwho|Hs]; [left; now symmetry|right].
             destruct (iv_seen _ _ _ IV x (tid ev) Hs) as (t1 & _ & q & evq & Hevq & Htq & Hsw).
             exists q, evq. split; [eapply ev_at_lt; exact Hevq|]. split; [now apply Hlift|].
             split; [exact Htq|now apply sw_app].
          -- destruct H as [Hh Hwho]. split.
             ++ destruct Hwho as [Hwho|Hs]; [left; now symmetry|right].
                destruct (iv_seen _ _ _ IV x (tid ev) Hs) as (t1 & _ & q & evq & Hevq & Htq & Hsw).
                exists q, evq. split; [eapply ev_at_lt; exact Hevq|]. split; [now apply Hlift|].
                split; [exact Htq|now apply sw_app].
             ++ apply hal_prefix; [fold n; lia|]. apply (h_at_least_holds e a); [exact (iv_lk _ _ _ IV)|exact Hh].
    - (* seen *)
      cbn [a_seen a_lst aupd]. intros x t' Hs. unfold seen_upd in Hs. apply orb_true_iff in Hs as [Hs|Hs].
      + destruct (iv_seen _ _ _ IV x t' Hs) as (t & El & q & evq & Hevq & Htq & Hsw).
        destruct (iv_pub _ _ _ IV x t El) as (v & _ & Ev & _).
        exists t. split; [unfold lst_upd; now rewrite Ev, El|].
        assert (Hpi : pidx_upd a ev n pidx x = pidx x) by (unfold pidx_upd; now rewrite El).
        rewrite Hpi. exists q, evq. split; [now apply Hlift|]. split; [exact Htq|now apply sw_app].
      + apply andb_true_iff in Hs as [Et Hs]. apply Nat.eqb_eq in Et. subst t'.
        destruct (a_lst a x) as [|t0|t0] eqn:El; try discriminate Hs.
        destruct (via_of x) as [v|] eqn:Ev; [|discriminate Hs].
        destruct (iv_pub _ _ _ IV x t0 El) as (v' & evr & Hv' & Hevr & Htr & Hpa & _).
        rewrite Ev in Hv'. injection Hv' as <-.
        exists t0. split; [unfold lst_upd; now rewrite Ev, El|].
        assert (Hpi : pidx_upd a ev n pidx x = pidx x) by (unfold pidx_upd; now rewrite El).
        rewrite Hpi. exists n, ev. split; [apply ev_at_last|]. split; [reflexivity|].
        split; [eapply ev_at_lt; exact Hevr|]. exists evr, ev.
        split; [now apply Hlift|]. split; [apply ev_at_last|]. eapply pub_acq_syncs; eassumption.
  Qed.

  Lemma InvI_steps es : forall e a pidx,
    InvI e a pidx -> all_ok a es -> exists pidx', InvI (e ++ es) (aupds a es) pidx'.
  Proof.
    induction es as [|ev es IH]; intros e a pidx IV Hok.
    - exists pidx. now rewrite app_nil_r.
    - destruct Hok as [Hev Hrest].
      destruct (IH (e ++ [ev]) (aupd a ev) _ (InvI_step e a pidx ev IV Hev) Hrest) as [pidx' I'].
      exists pidx'. rewrite <- app_assoc in I'. exact I'.
  Qed.

  (* ---------- the invariant excludes every race ---------- *)
  Lemma InvI_no_race e a pidx : InvI e a pidx -> forall x, ~ race_on e x.
  Proof.
    intros IV x Hrace.
    destruct (race_on_access e x Hrace) as (i0 & ev0 & w0 & ao0 & Hev0 & Hacc0).
    pose proof (iv_gen _ _ _ IV i0 ev0 x w0 ao0 Hev0 Hacc0) as Hg0.
    destruct (dsc x) as [d|] eqn:Ed; [|exact Hg0].
    assert (Hgen := iv_gen _ _ _ IV).
    destruct d as [| |l|v|l v].
    - (* atomic *)
      revert Hrace. apply atomic_only. intros i ev w ao Hev Hacc.
      specialize (Hgen i ev x w ao Hev Hacc). now rewrite Ed in Hgen.
    - revert Hrace. apply read_only. intros i ev w ao Hev Hacc.
      specialize (Hgen i ev x w ao Hev Hacc). now rewrite Ed in Hgen.
    - revert Hrace. apply guarded_by with l; [exact (iv_wf _ _ _ IV)|].
      intros i ev w ao Hev Hacc. specialize (Hgen i ev x w ao Hev Hacc). now rewrite Ed in Hgen.
    - (* publish once *)
      assert (Hv : via_of x <> None) by (unfold via_of; rewrite Ed; discriminate).
      destruct (a_lst a x) as [|t|t] eqn:El.
      + exact (iv_fresh _ _ _ IV x Hv El i0 ev0 w0 ao0 Hev0 Hacc0).
      + revert Hrace. apply one_thread_no_race with t. exact (iv_local _ _ _ IV x t Hv El).
      + destruct (iv_pub _ _ _ IV x t El) as (v' & evr & _ & Hevr & Htr & _ & Hall).
        revert Hrace. apply publish_once_hb with t (pidx x). split.
        * intros i ev ao Hev Hacc. destruct (Hall i ev true ao Hev Hacc) as [[Ht Hi]|(_ & _ & Hpost)].
          -- split; [exact Ht|]. split; [exact Hi|]. now exists evr.
          -- unfold post_ok in Hpost. rewrite Ed in Hpost. discriminate Hpost.
        * intros i ev w ao Hev Hacc Hne. destruct (Hall i ev w ao Hev Hacc) as [[Ht _]|(Hlt & Hwho & Hpost)];
            [contradiction|].
          unfold post_ok in Hpost. rewrite Ed in Hpost. split; [exact Hpost|].
          destruct Hwho as [Ht|(q & evq & Hq & Hevq & Htq & Hsw)]; [contradiction|].
          exists q, evq. repeat split; auto. now apply hb_sw.
    - (* initialised, then guarded *)
      assert (Hv : via_of x <> None) by (unfold via_of; rewrite Ed; discriminate).
      destruct (a_lst a x) as [|t|t] eqn:El.
      + exact (iv_fresh _ _ _ IV x Hv El i0 ev0 w0 ao0 Hev0 Hacc0).
      + revert Hrace. apply one_thread_no_race with t. exact (iv_local _ _ _ IV x t Hv El).
      + destruct (iv_pub _ _ _ IV x t El) as (v' & evr & _ & Hevr & Htr & _ & Hall).
        revert Hrace. apply init_then_guarded_by with l t (pidx x); [exact (iv_wf _ _ _ IV)|].
        intros i ev w ao Hev Hacc. destruct (Hall i ev w ao Hev Hacc) as [[Ht Hi]|(Hlt & Hwho & Hpost)].
        * left. split; [exact Ht|]. split; [exact Hi|]. now exists evr.
        * right. unfold post_ok in Hpost. rewrite Ed in Hpost. split; [|exact Hpost].
          destruct Hwho as [Ht|(q & evq & Hq & Hevq & Htq & Hsw)].
          -- apply hb_po. eapply po_intro; eauto. congruence.
          -- apply hb_trans with q; [now apply hb_sw|].
             apply hb_po. eapply po_intro; eauto.
  Qed.

  Theorem all_ok_drf es : all_ok a0 es -> wf es /\ forall x, ~ race_on es x.
  Proof.
    intros Hok. destruct (InvI_steps es [] a0 _ InvI_init Hok) as [pidx IV]. cbn [app] in IV.
    split; [exact (iv_wf _ _ _ IV)|exact (InvI_no_race _ _ _ IV)].
  Qed.

  (* ---------- extensional equality of abstract states; normal forms of the state after the
     events of one thread step ---------- *)
  Definition aeqm (a b : ast) : Prop :=
    (forall l t m, a_lk a l t m = a_lk b l t m) /\
    (forall x, a_lst a x = a_lst b x) /\ (forall x t, a_seen a x t = a_seen b x t).
  Definition aeq (a b : ast) : Prop := aeqm a b /\ forall t, a_used a t = a_used b t.

  Lemma aeq_refl a : aeq a a.
  Proof. repeat split. Qed.
  Lemma aeq_sym a b : aeq a b -> aeq b a.
  Proof. intros [(H1 & H2 & H3) H4]. repeat split; intros; symmetry; auto. Qed.
  Lemma aeq_trans a b c : aeq a b -> aeq b c -> aeq a c.
  Proof.
    intros [(H1 & H2 & H3) H4] [(G1 & G2 & G3) G4]. repeat split; intros.
    - now rewrite H1. - now rewrite H2. - now rewrite H3. - now rewrite H4.
  Qed.
  Lemma aeq_aeqm a b : aeq a b -> aeqm a b.
  Proof. now intros [H _]. Qed.
  Lemma aeqm_sym a b : aeqm a b -> aeqm b a.
  Proof. intros (H1 & H2 & H3). repeat split; intros; symmetry; auto. Qed.
  Lemma aeqm_trans a b c : aeqm a b -> aeqm b c -> aeqm a c.
  Proof.
    intros (H1 & H2 & H3) (G1 & G2 & G3). repeat split; intros.
    - now rewrite H1. - now rewrite H2. - now rewrite H3.
  Qed.

  Lemma aupd_ext a b e : aeq a b -> aeq (aupd a e) (aupd b e).
  Proof.
    intros [(H1 & H2 & H3) H4]. split; [split; [|split]|]; cbn [a_lk a_used a_lst a_seen aupd].
    - intros l t m. unfold lk_upd. destruct (act e); try apply H1;
        destruct (name_eqb l l0 && Nat.eqb t (tid e) && mode_eqb m m0); try reflexivity; apply H1.
    - intros x. unfold lst_upd. now rewrite H2.
    - intros x t. unfold seen_upd. now rewrite H2, H3.
    - intros t. now rewrite H4.
  Qed.

  Lemma aupds_ext es : forall a b, aeq a b -> aeq (aupds a es) (aupds b es).
  Proof. induction es as [|e r IH]; intros a b H; cbn; [exact H|]. apply IH. now apply aupd_ext. Qed.

  Lemma h_at_least_ext a b l t m : aeq a b -> h_at_least a l t m -> h_at_least b l t m.
  Proof. intros [(H1 & _) _]. destruct m; cbn; rewrite <- !H1; tauto. Qed.

  Lemma acc_ok_ext a b t x w ao : aeq a b -> acc_ok a t x w ao -> acc_ok b t x w ao.
  Proof.
    intros H. pose proof H as [(H1 & H2 & H3) H4]. unfold acc_ok.
    destruct (dsc x) as [[| |l|v|l v]|]; try tauto.
    - now apply h_at_least_ext.
    - rewrite <- H2. destruct (a_lst a x); try tauto. now rewrite <- H3.
    - rewrite <- H2. destruct (a_lst a x); try tauto. rewrite <- H3. intros [Hh Hw]. split; [|exact Hw].
      eapply h_at_least_ext; eassumption.
  Qed.

  Lemma ev_ok_ext a b e : aeq a b -> ev_ok a e -> ev_ok b e.
  Proof.
    intros H. pose proof H as [(H1 & H2 & H3) H4]. unfold ev_ok.
    destruct (act e) eqn:Ea; cbn [access_of]; try tauto; try (now apply acc_ok_ext).
    - intros (F1 & F2). split; [intros t'; rewrite <- H1; apply F1|].
      intros Hm t'. rewrite <- H1. now apply F2.
    - now rewrite <- H1.
    - now rewrite <- H4.
  Qed.

  Lemma all_ok_ext es : forall a b, aeq a b -> all_ok a es -> all_ok b es.
  Proof.
    induction es as [|e r IH]; intros a b H; cbn; [tauto|]. intros [He Hr].
    split; [eapply ev_ok_ext; eassumption|]. eapply IH; [|exact Hr]. now apply aupd_ext.
  Qed.

  Lemma acq_actb_access v b : access_of b <> None -> acq_actb v b = false.
  Proof. destruct v, b; cbn; try reflexivity; intros H; now contradiction H. Qed.
  Lemma pub_actb_access v b : access_of b <> None -> pub_actb v b = false.
  Proof. destruct v, b; cbn; try reflexivity; intros H; now contradiction H. Qed.

  (* one access event *)
  Definition st_touch1 (a : ast) (t : thread) (x : name) : ast :=
    mkA (a_lk a) (fun t' => Nat.eqb t' t || a_used a t')
        (fun y => match a_lst a y with
                  | LFresh => match via_of y with Some _ => if name_eqb y x then LLocal t else LFresh | None => LFresh end
                  | s => s
                  end)
        (a_seen a).

  Lemma access_st a t b x w ao :
    access_of b = Some (x, w, ao) -> aeq (aupd a (mkEv t b)) (st_touch1 a t x).
  Proof.
    intros Hacc. assert (Hne : access_of b <> None) by (rewrite Hacc; discriminate).
    split; [split; [|split]|]; cbn [a_lk a_used a_lst a_seen aupd st_touch1 tid act].
    - intros l t' m. unfold lk_upd. cbn [act]. destruct b; cbn in Hne; try reflexivity; now contradiction Hne.
    - intros y. unfold lst_upd. cbn [act tid]. rewrite Hacc.
      destruct (via_of y) as [v|]; [|now destruct (a_lst a y)].
      destruct (a_lst a y); try reflexivity. rewrite (pub_actb_access v b Hne), andb_false_r. reflexivity.
    - intros y t'. unfold seen_upd. cbn [act tid].
      destruct (a_lst a y), (via_of y) as [v|]; rewrite ?(acq_actb_access v b Hne), ?andb_false_r, ?orb_false_r; reflexivity.
    - reflexivity.
  Qed.

  Lemma acc_ok_after_access a t y x w ao :
    acc_ok a t x w ao -> acc_ok (st_touch1 a t y) t x w ao.
  Proof.
    unfold acc_ok. destruct (dsc x) as [[| |l|v|l v]|] eqn:Ed; try tauto; cbn [a_lst a_seen st_touch1].
    - assert (Hv : via_of x = Some v) by (unfold via_of; now rewrite Ed). rewrite Hv.
      destruct (a_lst a x); try tauto. now destruct (name_eqb x y).
    - assert (Hv : via_of x = Some v) by (unfold via_of; now rewrite Ed). rewrite Hv.
      destruct (a_lst a x); try tauto. now destruct (name_eqb x y).
  Qed.

  Definition acts_locs (acts : list action) : list name :=
    flat_map (fun b => match access_of b with Some (x, _, _) => [x] | None => [] end) acts.
  Definition memn (y : name) (xs : list name) : bool := existsb (name_eqb y) xs.

  Definition st_touch (a : ast) (t : thread) (xs : list name) : ast :=
    mkA (a_lk a) (fun t' => (match xs with [] => false | _ => Nat.eqb t' t end) || a_used a t')
        (fun y => match a_lst a y with
                  | LFresh => match via_of y with Some _ => if memn y xs then LLocal t else LFresh | None => LFresh end
                  | s => s
                  end)
        (a_seen a).

  (* a list of accesses of one thread: each is checked in the INITIAL state *)
  Lemma touch_ok acts : forall a t,
    (forall b, In b acts -> exists x w ao, access_of b = Some (x, w, ao) /\ acc_ok a t x w ao) ->
    all_ok a (map (mkEv t) acts) /\ aeq (aupds a (map (mkEv t) acts)) (st_touch a t (acts_locs acts)).
  Proof.
    induction acts as [|b r IH]; intros a t H.
    - cbn. split; [exact I|]. repeat split. cbn. intros y. now destruct (a_lst a y), (via_of y).
    - destruct (H b (or_introl eq_refl)) as (x & w & ao & Hacc & Hok).
      pose proof (access_st a t b x w ao Hacc) as Heq1.
      assert (Hr : forall b', In b' r -> exists x' w' ao', access_of b' = Some (x', w', ao') /\
                                          acc_ok (aupd a (mkEv t b)) t x' w' ao').
      { intros b' Hin. destruct (H b' (or_intror Hin)) as (x' & w' & ao' & Hacc' & Hok').
        exists x', w', ao'. split; [exact Hacc'|].
        eapply acc_ok_ext; [apply aeq_sym; exact Heq1|]. now apply acc_ok_after_access. }
      destruct (IH (aupd a (mkEv t b)) t Hr) as [Hall Heq].
      cbn [map all_ok aupds fold_left]. split.
      + split; [|exact Hall]. unfold ev_ok. cbn [act tid].
        destruct b; cbn in Hacc; try discriminate Hacc; cbn [access_of]; injection Hacc as <- <- <-; exact Hok.
      + eapply aeq_trans; [exact Heq|]. cbn [acts_locs flat_map]. rewrite Hacc. cbn [app].
        fold (acts_locs r).
        destruct Heq1 as [(E1 & E2 & E3) E4].
        split; [split; [|split]|]; cbn [a_lk a_used a_lst a_seen st_touch].
        * intros l t' m. now rewrite E1.
        * intros y. rewrite E2. cbn [a_lst st_touch1 memn existsb].
          destruct (a_lst a y); try reflexivity. destruct (via_of y) as [v|]; [|reflexivity].
          destruct (name_eqb y x); [reflexivity|]. reflexivity.
        * intros y t'. now rewrite E3.
        * intros t'. rewrite E4. cbn [a_used st_touch1]. destruct (acts_locs r); [now rewrite orb_false_l|].
          now destruct (Nat.eqb t' t).
  Qed.

  (* lock and generic synchronisation events *)
  Definition st_acq (a : ast) (t : thread) (l : name) (m : mode) : ast :=
    mkA (fun l' t' m' => if name_eqb l' l && Nat.eqb t' t && mode_eqb m' m then true else a_lk a l' t' m')
        (fun t' => Nat.eqb t' t || a_used a t')
        (a_lst a)
        (fun y t' => a_seen a y t' ||
                     (Nat.eqb t' t && match a_lst a y, via_of y with
                                      | LPub _, Some (VLock l') => name_eqb l' l
                                      | _, _ => false
                                      end)).
  Lemma acq_st a t l m : aeq (aupd a (mkEv t (Acq l m))) (st_acq a t l m).
  Proof.
    split; [split; [|split]|]; cbn [a_lk a_used a_lst a_seen aupd st_acq tid act].
    - intros l0 t0 m0. reflexivity.
    - intros y. unfold lst_upd. cbn [act tid access_of].
      destruct (via_of y) as [[l'|o]|]; destruct (a_lst a y); try reflexivity; cbn; now rewrite andb_false_r.
    - intros y t'. unfold seen_upd. cbn [act tid].
      destruct (a_lst a y), (via_of y) as [[l'|o]|]; reflexivity.
    - intros t0. reflexivity.
  Qed.

  Definition st_rel (a : ast) (t : thread) (l : name) (m : mode) : ast :=
    mkA (fun l' t' m' => if name_eqb l' l && Nat.eqb t' t && mode_eqb m' m then false else a_lk a l' t' m')
        (fun t' => Nat.eqb t' t || a_used a t')
        (fun y => match a_lst a y, via_of y with
                  | LLocal t0, Some (VLock l') =>
                      if Nat.eqb t0 t && (name_eqb l' l && mode_eqb m Excl) then LPub t0 else LLocal t0
                  | s, _ => s
                  end)
        (a_seen a).
  Lemma rel_st a t l m : aeq (aupd a (mkEv t (Rel l m))) (st_rel a t l m).
  Proof.
    split; [split; [|split]|]; cbn [a_lk a_used a_lst a_seen aupd st_rel tid act].
    - intros l0 t0 m0. reflexivity.
    - intros y. unfold lst_upd. cbn [act tid access_of].
      destruct (via_of y) as [[l'|o]|]; destruct (a_lst a y); try reflexivity; cbn.
      + destruct m; cbn; [now rewrite andb_true_r|now rewrite !andb_false_r].
      + now rewrite andb_false_r.
    - intros y t'. unfold seen_upd. cbn [act tid].
      destruct (a_lst a y), (via_of y) as [[l'|o]|]; cbn; now rewrite ?andb_false_r, ?orb_false_r.
    - intros t0. reflexivity.
  Qed.

  Definition st_sacq (a : ast) (t : thread) (o : name) : ast :=
    mkA (a_lk a) (fun t' => Nat.eqb t' t || a_used a t') (a_lst a)
        (fun y t' => a_seen a y t' ||
                     (Nat.eqb t' t && match a_lst a y, via_of y with
                                      | LPub _, Some (VSync o') => name_eqb o' o
                                      | _, _ => false
                                      end)).
  Lemma sacq_st a t o : aeq (aupd a (mkEv t (SAcq o))) (st_sacq a t o).
  Proof.
    split; [split; [|split]|]; cbn [a_lk a_used a_lst a_seen aupd st_sacq tid act].
    - intros l0 t0 m0. reflexivity.
    - intros y. unfold lst_upd. cbn [act tid access_of].
      destruct (via_of y) as [[l'|o']|]; destruct (a_lst a y); try reflexivity; cbn; now rewrite andb_false_r.
    - intros y t'. unfold seen_upd. cbn [act tid].
      destruct (a_lst a y), (via_of y) as [[l'|o']|]; reflexivity.
    - intros t0. reflexivity.
  Qed.

  Definition st_srel (a : ast) (t : thread) (o : name) : ast :=
    mkA (a_lk a) (fun t' => Nat.eqb t' t || a_used a t')
        (fun y => match a_lst a y, via_of y with
                  | LLocal t0, Some (VSync o') => if Nat.eqb t0 t && name_eqb o' o then LPub t0 else LLocal t0
                  | s, _ => s
                  end)
        (a_seen a).
  Lemma srel_st a t o : aeq (aupd a (mkEv t (SRel o))) (st_srel a t o).
  Proof.
    split; [split; [|split]|]; cbn [a_lk a_used a_lst a_seen aupd st_srel tid act].
    - intros l0 t0 m0. reflexivity.
    - intros y. unfold lst_upd. cbn [act tid access_of].
      destruct (via_of y) as [[l'|o']|]; destruct (a_lst a y); try reflexivity; cbn. now rewrite andb_false_r.
    - intros y t'. unfold seen_upd. cbn [act tid].
      destruct (a_lst a y), (via_of y) as [[l'|o']|]; cbn; now rewrite ?andb_false_r, ?orb_false_r.
    - intros t0. reflexivity.
  Qed.

  Definition st_fork (a : ast) (t : thread) : ast :=
    mkA (a_lk a) (fun t' => Nat.eqb t' t || a_used a t') (a_lst a) (a_seen a).
  Lemma fork_st a t c : aeq (aupd a (mkEv t (Fork c))) (st_fork a t).
  Proof.
    split; [split; [|split]|]; cbn [a_lk a_used a_lst a_seen aupd st_fork tid act].
    - intros l0 t0 m0. reflexivity.
    - intros y. unfold lst_upd. cbn [act tid access_of].
      destruct (via_of y) as [[l'|o']|]; destruct (a_lst a y); try reflexivity; cbn; now rewrite andb_false_r.
    - intros y t'. unfold seen_upd. cbn [act tid].
      destruct (a_lst a y), (via_of y) as [[l'|o']|]; cbn; now rewrite ?andb_false_r, ?orb_false_r.
    - intros t0. reflexivity.
  Qed.

  (* ---------- the shapes of one thread step ---------- *)
  Definition accs_ok (a : ast) (t : thread) (accs : list action) : Prop :=
    Forall (fun b => exists x w ao, access_of b = Some (x, w, ao) /\ acc_ok a t x w ao) accs.
  (* no location touched is taken out of the state LFresh *)
  Definition settled (a : ast) (accs : list action) : Prop :=
    Forall (fun b => forall x w ao, access_of b = Some (x, w, ao) -> via_of x = None \/ a_lst a x <> LFresh) accs.

  Lemma memn_locs y accs : memn y (acts_locs accs) = true ->
    exists b w ao, In b accs /\ access_of b = Some (y, w, ao).
  Proof.
    unfold memn. rewrite existsb_exists. intros (x & Hin & Heq). apply name_eqb_eq in Heq. subst x.
    unfold acts_locs in Hin. apply in_flat_map in Hin as (b & Hb & Hy).
    destruct (access_of b) as [[[x w] ao]|] eqn:E; [|destruct Hy].
    destruct Hy as [->|[]]. now exists b, w, ao.
  Qed.

  Lemma st_touch_settled a t accs : settled a accs -> aeqm (st_touch a t (acts_locs accs)) a.
  Proof.
    intros Hs. repeat split; cbn [a_lk a_lst a_seen st_touch].
    intros y. destruct (a_lst a y) eqn:El; try reflexivity.
    destruct (via_of y) as [v|] eqn:Ev; [|reflexivity].
    destruct (memn y (acts_locs accs)) eqn:Em; [|reflexivity].
    apply memn_locs in Em as (b & w & ao & Hin & Hacc). unfold settled in Hs. rewrite Forall_forall in Hs.
    destruct (Hs b Hin y w ao Hacc) as [H|H]; congruence.
  Qed.

  Lemma step_touch a t accs : accs_ok a t accs ->
    all_ok a (map (mkEv t) accs) /\ aeq (aupds a (map (mkEv t) accs)) (st_touch a t (acts_locs accs)).
  Proof. intros H. apply touch_ok. unfold accs_ok in H. rewrite Forall_forall in H. exact H. Qed.

  Lemma step_accs a t accs : accs_ok a t accs -> settled a accs ->
    all_ok a (map (mkEv t) accs) /\ aeqm (aupds a (map (mkEv t) accs)) a.
  Proof.
    intros H Hs. destruct (step_touch a t accs H) as [Hok Heq]. split; [exact Hok|].
    eapply aeqm_trans; [apply aeq_aeqm; exact Heq|]. now apply st_touch_settled.
  Qed.

  (* accesses, then one more event *)
  Lemma step_accs_then a t accs b : accs_ok a t accs ->
    ev_ok (st_touch a t (acts_locs accs)) (mkEv t b) ->
    all_ok a (map (mkEv t) (accs ++ [b])) /\
    aeq (aupds a (map (mkEv t) (accs ++ [b]))) (aupd (st_touch a t (acts_locs accs)) (mkEv t b)).
  Proof.
    intros H Hb. destruct (step_touch a t accs H) as [Hok Heq].
    rewrite map_app. cbn [map]. split.
    - apply all_ok_app. split; [exact Hok|]. cbn [all_ok]. split; [|exact I].
      eapply ev_ok_ext; [apply aeq_sym; exact Heq|exact Hb].
    - rewrite aupds_app. cbn [aupds fold_left]. now apply aupd_ext.
  Qed.

  Lemma st_rel_extm a b t l m : aeqm a b -> aeqm (st_rel a t l m) (st_rel b t l m).
  Proof.
    intros (H1 & H2 & H3). repeat split; cbn [a_lk a_lst a_seen st_rel]; intros.
    - now rewrite H1. - now rewrite H2. - now rewrite H3.
  Qed.
  Lemma st_acq_extm a b t l m : aeqm a b -> aeqm (st_acq a t l m) (st_acq b t l m).
  Proof.
    intros (H1 & H2 & H3). repeat split; cbn [a_lk a_lst a_seen st_acq]; intros.
    - now rewrite H1. - now rewrite H2. - now rewrite H2, H3.
  Qed.
  Lemma st_srel_extm a b t o : aeqm a b -> aeqm (st_srel a t o) (st_srel b t o).
  Proof.
    intros (H1 & H2 & H3). repeat split; cbn [a_lk a_lst a_seen st_srel]; intros.
    - now rewrite H1. - now rewrite H2. - now rewrite H3.
  Qed.
  Lemma st_sacq_extm a b t o : aeqm a b -> aeqm (st_sacq a t o) (st_sacq b t o).
  Proof.
    intros (H1 & H2 & H3). repeat split; cbn [a_lk a_lst a_seen st_sacq]; intros.
    - now rewrite H1. - now rewrite H2. - now rewrite H2, H3.
  Qed.

  Definition lk_free (a : ast) (l : name) (m : mode) : Prop :=
    (forall t', a_lk a l t' Excl = false) /\ (m = Excl -> forall t', a_lk a l t' Shared = false).

  Lemma step_accs_rel a t accs l m : accs_ok a t accs -> settled a accs -> a_lk a l t m = true ->
    all_ok a (map (mkEv t) (accs ++ [Rel l m])) /\
    aeqm (aupds a (map (mkEv t) (accs ++ [Rel l m]))) (st_rel a t l m).
  Proof.
    intros H Hs Hl. destruct (step_accs_then a t accs (Rel l m) H) as [Hok Heq]; [exact Hl|].
    split; [exact Hok|]. eapply aeqm_trans; [apply aeq_aeqm; exact Heq|].
    eapply aeqm_trans; [apply aeq_aeqm, rel_st|]. apply st_rel_extm. now apply st_touch_settled.
  Qed.

  Lemma step_accs_acq a t accs l m : accs_ok a t accs -> settled a accs -> lk_free a l m ->
    all_ok a (map (mkEv t) (accs ++ [Acq l m])) /\
    aeqm (aupds a (map (mkEv t) (accs ++ [Acq l m]))) (st_acq a t l m).
  Proof.
    intros H Hs Hl. destruct (step_accs_then a t accs (Acq l m) H) as [Hok Heq]; [exact Hl|].
    split; [exact Hok|]. eapply aeqm_trans; [apply aeq_aeqm; exact Heq|].
    eapply aeqm_trans; [apply aeq_aeqm, acq_st|]. apply st_acq_extm. now apply st_touch_settled.
  Qed.

  Lemma step_accs_srel a t accs o : accs_ok a t accs -> settled a accs ->
    all_ok a (map (mkEv t) (accs ++ [SRel o])) /\
    aeqm (aupds a (map (mkEv t) (accs ++ [SRel o]))) (st_srel a t o).
  Proof.
    intros H Hs. destruct (step_accs_then a t accs (SRel o) H) as [Hok Heq]; [exact I|].
    split; [exact Hok|]. eapply aeqm_trans; [apply aeq_aeqm; exact Heq|].
    eapply aeqm_trans; [apply aeq_aeqm, srel_st|]. apply st_srel_extm. now apply st_touch_settled.
  Qed.

  Lemma step_accs_sacq a t accs o : accs_ok a t accs -> settled a accs ->
    all_ok a (map (mkEv t) (accs ++ [SAcq o])) /\
    aeqm (aupds a (map (mkEv t) (accs ++ [SAcq o]))) (st_sacq a t o).
  Proof.
    intros H Hs. destruct (step_accs_then a t accs (SAcq o) H) as [Hok Heq]; [exact I|].
    split; [exact Hok|]. eapply aeqm_trans; [apply aeq_aeqm; exact Heq|].
    eapply aeqm_trans; [apply aeq_aeqm, sacq_st|]. apply st_sacq_extm. now apply st_touch_settled.
  Qed.

  (* ---------- what the events of ONE thread can do to the abstract state ---------- *)
  Definition trans_ok (t : thread) (s s' : locst) : Prop :=
    s' = s \/ (s = LFresh /\ s' = LLocal t) \/ (s = LLocal t /\ s' = LPub t) \/ (s = LFresh /\ s' = LPub t).

  Definition evolves (t : thread) (a a' : ast) : Prop :=
    (forall x, trans_ok t (a_lst a x) (a_lst a' x)) /\
    (forall x t', a_seen a x t' = true -> a_seen a' x t' = true) /\
    (forall x t', t' <> t -> a_seen a' x t' = a_seen a x t').

  Lemma evolves_refl t a : evolves t a a.
  Proof. repeat split; auto. intros x. now left. Qed.

  Lemma trans_ok_trans t s1 s2 s3 : trans_ok t s1 s2 -> trans_ok t s2 s3 -> trans_ok t s1 s3.
  Proof.
    unfold trans_ok. intros [->|[[-> ->]|[[-> ->]|[-> ->]]]] [->|[[E1 ->]|[[E1 ->]|[E1 ->]]]];
      try discriminate E1; try (injection E1 as <-); auto 6.
  Qed.

  Lemma evolves_trans t a b c : evolves t a b -> evolves t b c -> evolves t a c.
  Proof.
    intros (H1 & H2 & H3) (G1 & G2 & G3). repeat split.
    - intros x. eapply trans_ok_trans; [apply H1|apply G1].
    - intros x t' H. apply G2, H2, H.
    - intros x t' Hne. now rewrite G3, H3.
  Qed.

  Lemma evolves_aupd t a b : evolves t a (aupd a (mkEv t b)).
  Proof.
    repeat split; cbn [a_lst a_seen aupd].
    - intros x. unfold lst_upd, trans_ok. cbn [tid act]. destruct (via_of x) as [v|]; [|now left].
      destruct (a_lst a x) as [|t0|t0]; [| |now left].
      + destruct (access_of b) as [[[x' w] ao]|]; [|now left]. destruct (name_eqb x x'); auto.
      + destruct (Nat.eqb t0 t && pub_actb v b) eqn:E; [|now left].
        apply andb_true_iff in E as [E _]. apply Nat.eqb_eq in E. subst t0. auto.
    - intros x t' H. unfold seen_upd. now rewrite H.
    - intros x t' Hne. unfold seen_upd. cbn [tid]. apply Nat.eqb_neq in Hne. rewrite Hne. now rewrite orb_false_r.
  Qed.

  Lemma evolves_aupds t acts : forall a, evolves t a (aupds a (map (mkEv t) acts)).
  Proof.
    induction acts as [|b r IH]; intros a; cbn [map aupds fold_left]; [apply evolves_refl|].
    eapply evolves_trans; [apply evolves_aupd|apply IH].
  Qed.

  Lemma evolves_ext t a b b' : evolves t a b -> aeqm b b' -> evolves t a b'.
  Proof.
    intros (H1 & H2 & H3) (_ & E2 & E3). repeat split.
    - intros x. rewrite <- E2. apply H1.
    - intros x t' H. rewrite <- E3. now apply H2.
    - intros x t' Hne. rewrite <- E3. now apply H3.
  Qed.

  (* consequences *)
  Lemma evolves_pub t a a' x r : evolves t a a' -> a_lst a x = LPub r -> a_lst a' x = LPub r.
  Proof.
    intros (H & _) E. destruct (H x) as [E'|[[E' _]|[[E' _]|[E' _]]]]; rewrite E in E'; try discriminate; exact E'.
  Qed.
  Lemma evolves_local_other t a a' x t' : evolves t a a' -> t' <> t -> a_lst a x = LLocal t' -> a_lst a' x = LLocal t'.
  Proof.
    intros (H & _) Hne E. destruct (H x) as [E'|[[E' _]|[[E' _]|[E' _]]]]; rewrite E in E'; try discriminate; try exact E'.
    injection E' as ->. now contradiction Hne.
  Qed.
  Lemma evolves_pub_inv t a a' x r : evolves t a a' -> a_lst a' x = LPub r ->
    a_lst a x = LPub r \/ (r = t /\ a_lst a x <> LPub r).
  Proof.
    intros (H & _) E. destruct (H x) as [E'|[[E1 E']|[[E1 E']|[E1 E']]]]; rewrite E in E'.
    - left. now symmetry.
    - discriminate.
    - injection E' as ->. right. split; [reflexivity|]. rewrite E1. discriminate.
    - injection E' as ->. right. split; [reflexivity|]. rewrite E1. discriminate.
  Qed.
  Lemma evolves_local_inv t a a' x t' : evolves t a a' -> t' <> t -> a_lst a' x = LLocal t' -> a_lst a x = LLocal t'.
  Proof.
    intros (H & _) Hne E. destruct (H x) as [E'|[[E1 E']|[[E1 E']|[E1 E']]]]; rewrite E in E'; try discriminate.
    - now symmetry.
    - injection E' as ->. now contradiction Hne.
  Qed.
  Lemma evolves_fresh_inv t a a' x : evolves t a a' -> a_lst a' x = LFresh -> a_lst a x = LFresh.
  Proof.
    intros (H & _) E. destruct (H x) as [E'|[[E1 E']|[[E1 E']|[E1 E']]]]; rewrite E in E'; try discriminate.
    now symmetry.
  Qed.

  Lemma step_accs_fork a t accs c0 : accs_ok a t accs -> settled a accs -> a_used a c0 = false -> c0 <> t ->
    all_ok a (map (mkEv t) (accs ++ [Fork c0])) /\ aeqm (aupds a (map (mkEv t) (accs ++ [Fork c0]))) a.
  Proof.
    intros H Hs Hu Hne. destruct (step_accs_then a t accs (Fork c0) H) as [Hok Heq].
    { unfold ev_ok. cbn [act tid a_used st_touch]. split; [|exact Hne].
      rewrite Hu. apply Nat.eqb_neq in Hne. rewrite Hne. now destruct (acts_locs accs). }
    split; [exact Hok|]. eapply aeqm_trans; [apply aeq_aeqm; exact Heq|].
    eapply aeqm_trans; [apply aeq_aeqm, fork_st|].
    eapply aeqm_trans; [|apply st_touch_settled; exact Hs].
    repeat split; intros; reflexivity.
  Qed.

  (* the events of thread t leave the lock holdings and the "has events" flag of the OTHER threads alone *)
  Definition lk_frame (t : thread) (a a' : ast) : Prop :=
    (forall l t' m, t' <> t -> a_lk a' l t' m = a_lk a l t' m) /\
    (forall t', t' <> t -> a_used a' t' = a_used a t').

  Lemma lk_frame_refl t a : lk_frame t a a.
  Proof. split; reflexivity. Qed.
  Lemma lk_frame_trans t a b c : lk_frame t a b -> lk_frame t b c -> lk_frame t a c.
  Proof.
    intros [H1 H2] [G1 G2]. split; intros.
    - now rewrite G1, H1.
    - now rewrite G2, H2.
  Qed.
  Lemma lk_frame_aupd t a b : lk_frame t a (aupd a (mkEv t b)).
  Proof.
    split; cbn [a_lk a_used aupd tid].
    - intros l t' m Hne. apply Nat.eqb_neq in Hne. unfold lk_upd. cbn [act tid].
      destruct b; try reflexivity; now rewrite Hne, andb_false_r.
    - intros t' Hne. apply Nat.eqb_neq in Hne. now rewrite Hne.
  Qed.
  Lemma lk_frame_aupds t acts : forall a, lk_frame t a (aupds a (map (mkEv t) acts)).
  Proof.
    induction acts as [|b r IH]; intros a; cbn [map aupds fold_left]; [apply lk_frame_refl|].
    eapply lk_frame_trans; [apply lk_frame_aupd|apply IH].
  Qed.

  (* ---------- an interleaving model that emits admissible steps ---------- *)
  Section Model.
    Variables (cfg mev : Type) (step : cfg -> mev -> option cfg) (emit : cfg -> mev -> list event).
    Variable R : cfg -> ast -> Prop.
    Hypothesis Hstep : forall c a e c', R c a -> step c e = Some c' ->
      all_ok a (emit c e) /\ R c' (aupds a (emit c e)).

    Lemma model_trace_ok evs : forall c a c', R c a -> Conc.exec step c evs = Some c' ->
      all_ok a (trace cfg mev step emit c evs).
    Proof.
      induction evs as [|e r IH]; intros c a c' Hr Hex; cbn; [exact I|].
      cbn in Hex. destruct (step c e) as [c1|] eqn:E; [|discriminate].
      destruct (Hstep c a e c1 Hr E) as (Hok & Hr1).
      apply all_ok_app. split; [exact Hok|]. eapply IH; eassumption.
    Qed.

    Theorem model_trace_drf c0 evs c :
      R c0 a0 -> Conc.exec step c0 evs = Some c ->
      wf (trace cfg mev step emit c0 evs) /\ ~ race (trace cfg mev step emit c0 evs).
    Proof.
      intros Hr Hex. destruct (all_ok_drf _ (model_trace_ok evs c0 a0 c Hr Hex)) as [Hwf Hno].
      split; [exact Hwf|]. intros [x Hx]. exact (Hno x Hx).
    Qed.
  End Model.
End Multi.

(* ---------- a property of every emitted event holds of every event of the trace ---------- *)
Lemma trace_forall (cfg mev : Type) (step : cfg -> mev -> option cfg) (emit : cfg -> mev -> list event)
      (P : event -> Prop) :
  (forall c e, Forall P (emit c e)) -> forall evs c, Forall P (trace cfg mev step emit c evs).
Proof.
  intros H evs. induction evs as [|e r IH]; intros c; cbn; [constructor|].
  destruct (step c e) as [c1|]; [|constructor]. apply Forall_app. split; [apply H|apply IH].
Qed.

(* every access of the trace is an instance of a row of the table (same field, same kind) *)
Definition instance_b (tbl : table) (a : action) : bool :=
  match access_of a with
  | Some (x, w, ao) => existsb (fun r => String.eqb (r_loc r) (fst x) && kind_matches (r_kind r) w ao) tbl
  | None => true
  end.

Lemma instances_of_forall tbl (es : list event) :
  Forall (fun ev => instance_b tbl (act ev) = true) es -> instances_of tbl es.
Proof.
  intros H i ev x w ao Hev Hacc. rewrite Forall_forall in H.
  assert (Hin : In ev es) by (eapply nth_error_In; exact Hev).
  specialize (H ev Hin). unfold instance_b in H. rewrite Hacc in H.
  apply existsb_exists in H as (r & Hr & Hb). apply andb_true_iff in Hb as [Hl Hk].
  apply String.eqb_eq in Hl. now exists r.
Qed.

(* ---------- a model extended by ghost state steps exactly when the model does ---------- *)
Section Ghost.
  Variables (cfg mev gh : Type) (step : cfg -> mev -> option cfg) (gstep : cfg -> gh -> mev -> gh).
  Definition pstep (x : cfg * gh) (e : mev) : option (cfg * gh) :=
    match step (fst x) e with Some c' => Some (c', gstep (fst x) (snd x) e) | None => None end.

  Lemma pstep_exec evs : forall c g c', Conc.exec step c evs = Some c' ->
    exists g', Conc.exec pstep (c, g) evs = Some (c', g').
  Proof.
    induction evs as [|e r IH]; intros c g c' H; cbn in *.
    - injection H as <-. now exists g.
    - unfold pstep at 1. cbn [fst snd]. destruct (step c e) as [c1|]; [|discriminate]. now apply IH.
  Qed.

  Lemma pstep_exec_fst evs : forall x y, Conc.exec pstep x evs = Some y ->
    Conc.exec step (fst x) evs = Some (fst y).
  Proof.
    induction evs as [|e r IH]; intros x y H; cbn in *.
    - now injection H as <-.
    - unfold pstep in H at 1. destruct (step (fst x) e) as [c1|]; [|discriminate].
      now apply IH in H.
  Qed.
End Ghost.
