(* C01 — the tree-backed LINKED and MULTI maps (mapx.NewLinkedTreeMap, mapx.NewMultiTreeMap):
   mapx.TreeMap discharges the assumption `backing_refines` of the generic decorator theorems
   of proof/DecorProof.v (LinkedMap / MultiMap over ANY backing that refines the abstract
   association list keyed up to `eqb`).

   Key equality of the decorator specification:  cmp_eqb cmp a b := (cmp a b =? 0).

   Part 1 (Section TreeZ): the TreeMap model itself (tm_step of model/TreeMapModel.v, keys and
     values Z) as a `backing rbtree Z`, and `backing_refines 0 (cmp_eqb cmp) (tmz_backing cmp)
     (RZ cmp)` — for cmp_eqb cmp and for any other eqb that agrees with it pointwise — with
         RZ s a := exists m, sim cmp s m /\ Permutation m a
     where `sim` is C01's own simulation (RBRefineSim: inorder (root s) = m, m strictly
     ascending, size s = length m).  Nothing about the tree algorithms is re-proved: every case
     is tm_step_sim + the fact that on a strictly ascending list the sorted-map operations
     a_find / a_set / a_insert / a_remove of AbsMapModel ARE (up to permutation for a_insert)
     the operations aget / aput / adel of DecorSpec, + the permutation lemmas of DecorSpecProof.
   Part 2 (Section Boxed): the decorators instantiate the value type of the tree with
     *linkedKV (a node id, nat) resp. []V (a list), but RBModel's values are Z (frozen).  The
     Go tree never inspects a value — it only stores it (newNode), overwrites it (setNode) and
     moves it (successor copy in deleteNode) — so a TreeMap[K, U] for an arbitrary U is modelled
     as the Z-valued tree holding HANDLES into an append-only store of U values (boxing):
         Put k u   : store := store ++ [u];  tree.Put k (index of u)
         Get/Delete: the handle the tree returns is looked up in the store.
     `boxed` does this for any `backing M Z`, and `boxed_refines` transports backing_refines.
   Part 3: tree_backing := boxed (tmz_backing), tree_backing_refines, and the two instances
     linked_treemap_gen / multi_treemap_gen behind props/C01_decor.v. *)
From Ekit Require Import Common RBModel TreeMapModel AbsMapModel RBRefine RBRefineSim.
From Ekit Require Import DecorSpec DecorModel DecorSpecProof DecorProof.
From Coq Require Import Sorted.

(* key equality induced by a comparator *)
Definition cmp_eqb (cmp : Z -> Z -> Z) (a b : Z) : bool := cmp a b =? 0.

(* ------------------------------------------------------------------ *)
(* Part 1: mapx.TreeMap (values Z) refines the association list        *)
(* ------------------------------------------------------------------ *)
Section TreeZ.
  Variable cmp : Z -> Z -> Z.
  Hypothesis cmp_antisym : forall a b, cmp a b < 0 <-> cmp b a > 0.
  Hypothesis cmp_trans : forall a b c, cmp a b < 0 -> cmp b c < 0 -> cmp a c < 0.
  Hypothesis cmp_eq_lt : forall a b c, cmp a b = 0 -> cmp a c < 0 -> cmp b c < 0.
  (* the key equality of the decorator specification: ANY boolean function that says "the
     comparator returns 0" (cmp_eqb cmp itself; eqb_exact for cmp_asc, eqb_half for cmp_half) *)
  Variable eqb : Z -> Z -> bool.
  Hypothesis eqb_cmp : forall a b, eqb a b = (cmp a b =? 0).
  Local Set Default Proof Using "All".

  Local Notation "'LW' x" := (x cmp cmp_antisym cmp_trans cmp_eq_lt) (at level 10, only parsing).
  Local Notation ceq := eqb.
  Local Notation zmap := (list (Z * Z)).

  (* "compares equal" is transitive (reflexivity and symmetry are RBRefine.cmp_refl / cmp_eq_sym) *)
  Lemma cmp_eq_trans : forall a b c, cmp a b = 0 -> cmp b c = 0 -> cmp a c = 0.
  Proof.
    intros a b c Hab Hbc.
    destruct (Z.lt_trichotomy (cmp a c) 0) as [Hlt | [Heq | Hgt]]; [exfalso | exact Heq | exfalso].
    - pose proof (cmp_eq_lt a b c Hab Hlt) as Hbc'. lia.
    - assert (Hca : cmp c a < 0) by (apply cmp_antisym; lia).
      pose proof (LW cmp_lt_eq c a b Hca Hab) as Hcb.
      pose proof (cmp_antisym c b) as Ha. lia.
  Qed.

  Lemma cmp_eqb_equivalence : eqb_equivalence ceq.
  Proof.
    unfold eqb_equivalence. split; [|split].
    - intros a. rewrite eqb_cmp. apply Z.eqb_eq. exact (LW cmp_refl a).
    - intros a b Hab. rewrite eqb_cmp in *. apply Z.eqb_eq in Hab. apply Z.eqb_eq.
      exact (LW cmp_eq_sym a b Hab).
    - intros a b c Hab Hbc. rewrite eqb_cmp in *. apply Z.eqb_eq in Hab. apply Z.eqb_eq in Hbc.
      apply Z.eqb_eq. exact (cmp_eq_trans a b c Hab Hbc).
  Qed.

  (* AbsMapModel probes with (cmp probe stored), DecorSpec with (eqb stored probe) *)
  Lemma probe_flip : forall k k', (cmp k k' =? 0) = ceq k' k.
  Proof.
    intros k k'. rewrite eqb_cmp.
    destruct (Z.eqb_spec (cmp k k') 0) as [H1 | H1]; destruct (Z.eqb_spec (cmp k' k) 0) as [H2 | H2];
      try reflexivity; exfalso.
    - apply H2. exact (LW cmp_eq_sym k k' H1).
    - apply H1. exact (LW cmp_eq_sym k' k H2).
  Qed.

  (* ---- the sorted-map operations are the association-list operations ---- *)
  Lemma a_find_aget : forall k (m : zmap), a_find cmp k m = aget ceq k m.
  Proof.
    intros k m. induction m as [|[k' v'] m IH]; [reflexivity|].
    cbn [a_find aget]. rewrite probe_flip. destruct (ceq k' k); [reflexivity | exact IH].
  Qed.

  Lemma a_remove_adel : forall k (m : zmap), a_remove cmp k m = adel ceq k m.
  Proof.
    intros k m. induction m as [|[k' v'] m IH]; [reflexivity|].
    cbn [a_remove adel]. rewrite probe_flip. destruct (ceq k' k); [reflexivity|]. rewrite IH. reflexivity.
  Qed.

  Lemma a_set_aput : forall k v (m : zmap), a_find cmp k m <> None -> a_set cmp k v m = aput ceq k v m.
  Proof.
    intros k v m. induction m as [|[k' v'] m IH]; cbn [a_find a_set aput]; intros Hf.
    - contradiction.
    - rewrite probe_flip in *. destruct (ceq k' k); [reflexivity|]. rewrite (IH Hf). reflexivity.
  Qed.

  Lemma a_insert_perm : forall k v (m : zmap), Permutation (a_insert cmp k v m) ((k, v) :: m).
  Proof.
    intros k v m. induction m as [|[k' v'] m IH]; cbn [a_insert]; [apply Permutation_refl|].
    destruct (cmp k k' <? 0); [apply Permutation_refl|].
    eapply perm_trans; [apply perm_skip; exact IH | apply perm_swap].
  Qed.

  Lemma a_insert_aput : forall k v (m : zmap),
    a_find cmp k m = None -> Permutation (a_insert cmp k v m) (aput ceq k v m).
  Proof.
    intros k v m Hf. rewrite a_find_aget in Hf.
    rewrite (aput_foreign _ _ _ _ _ (aget_none_foreign _ _ _ _ Hf)).
    eapply perm_trans; [apply a_insert_perm | apply Permutation_cons_append].
  Qed.

  (* strictly ascending keys are pairwise different up to ceq *)
  Lemma ordered_distinct : forall m : zmap, ordered cmp m -> distinct ceq m.
  Proof.
    intros m Hord. induction Hord as [|[k v] m Hm IH Hall]; cbn [distinct]; [exact I|].
    split; [|exact IH].
    eapply Forall_impl; [|exact Hall]. intros e He. unfold klt in He. cbn [fst] in He.
    rewrite eqb_cmp. apply Z.eqb_neq. lia.
  Qed.

  (* ---- mapx.TreeMap as an implementation of mapi[K, Z] ---- *)
  (* every field goes through tm_step, the model of the public method the decorators call:
     Put (its error result is dropped here; tmz_put_ok: it is always nil), Get, Delete, Keys,
     Values, Len.  The pool oracle of Put is ignored (no node pool in the tree). *)
  Definition tmz_backing : backing rbtree Z := {|
    mput := fun k u _ s => fst (tm_step cmp s (TPut k u));
    mget := fun k s => match snd (tm_step cmp s (TGet k)) with TVal v => (v, true) | _ => (0, false) end;
    mdel := fun k s => (fst (tm_step cmp s (TDelete k)),
                        match snd (tm_step cmp s (TDelete k)) with TVal v => (v, true) | _ => (0, false) end);
    mkeys := fun s => match snd (tm_step cmp s TKeys) with TKeysOut ks => ks | _ => [] end;
    mvals := fun s => match snd (tm_step cmp s TValues) with TValsOut vs => vs | _ => [] end;
    mlen := fun s => match snd (tm_step cmp s TLen) with TLenOut n => n | _ => 0 end;
  |}.

  Definition RZ (s : rbtree) (a : zmap) : Prop := exists m : zmap, sim cmp s m /\ Permutation m a.

  Lemma RZ_init : RZ rb_empty [].
  Proof. exists []. split; [exact (LW sim_empty) | apply Permutation_refl]. Qed.

  Lemma sim_distinct : forall s m, sim cmp s m -> distinct ceq m.
  Proof. intros s m (_ & Ho & _). exact (ordered_distinct m Ho). Qed.

  Lemma RZ_put : forall s a k u, RZ s a -> RZ (fst (tm_step cmp s (TPut k u))) (aput ceq k u a).
  Proof.
    intros s a k u (m & Hsim & HP).
    pose proof (sim_distinct s m Hsim) as HD.
    destruct (LW tm_step_sim s m (TPut k u) Hsim) as (_ & Hs'). cbn [abs_tm_step] in Hs'.
    destruct (a_find cmp k m) as [v0|] eqn:Hf; cbn [fst] in Hs'.
    - exists (a_set cmp k u m). split; [exact Hs'|].
      rewrite (a_set_aput k u m) by (rewrite Hf; discriminate).
      exact (aput_perm _ _ cmp_eqb_equivalence k u m a HP HD).
    - exists (a_insert cmp k u m). split; [exact Hs'|].
      eapply perm_trans; [exact (a_insert_aput k u m Hf)|].
      exact (aput_perm _ _ cmp_eqb_equivalence k u m a HP HD).
  Qed.

  (* TreeMap.Put never returns an error (Set after a duplicate Add always finds the node) *)
  Lemma tmz_put_ok : forall s a k u, RZ s a -> snd (tm_step cmp s (TPut k u)) = TUnit.
  Proof.
    intros s a k u (m & Hsim & _).
    destruct (LW tm_step_sim s m (TPut k u) Hsim) as (Ho & _). rewrite Ho. cbn [abs_tm_step].
    destruct (a_find cmp k m); reflexivity.
  Qed.

  Lemma RZ_found : forall m a k, distinct ceq m -> Permutation m a ->
    match a_find cmp k m with Some v => (v, true) | None => (0, false) end = afound 0 ceq k a.
  Proof.
    intros m a k HD HP. unfold afound.
    rewrite <- (aget_perm _ _ cmp_eqb_equivalence k m a HP HD), <- a_find_aget. reflexivity.
  Qed.

  Lemma tmz_backing_refines : backing_refines 0 ceq tmz_backing RZ.
  Proof.
    constructor; cbn [tmz_backing mput mget mdel mkeys mvals mlen].
    - intros s a k u ch HR. exact (RZ_put s a k u HR).
    - intros s a k (m & Hsim & HP).
      destruct (LW tm_step_sim s m (TGet k) Hsim) as (Ho & _). rewrite Ho. cbn [abs_tm_step snd].
      rewrite <- (RZ_found m a k (sim_distinct s m Hsim) HP).
      destruct (a_find cmp k m); reflexivity.
    - intros s a k (m & Hsim & HP).
      pose proof (sim_distinct s m Hsim) as HD.
      destruct (LW tm_step_sim s m (TDelete k) Hsim) as (Ho & Hs'). cbn [fst snd]. rewrite Ho.
      cbn [abs_tm_step] in *.
      rewrite <- (RZ_found m a k HD HP).
      destruct (a_find cmp k m) as [v0|] eqn:Hf; cbn [fst snd] in *.
      + split; [|reflexivity]. exists (a_remove cmp k m). split; [exact Hs'|].
        rewrite a_remove_adel. exact (adel_perm _ _ cmp_eqb_equivalence k m a HP HD).
      + split; [|reflexivity]. exists m. split; [exact Hs'|].
        eapply perm_trans; [|exact (adel_perm _ _ cmp_eqb_equivalence k m a HP HD)].
        rewrite a_find_aget in Hf.
        rewrite (adel_foreign _ _ _ _ (aget_none_foreign _ _ _ _ Hf)). apply Permutation_refl.
    - intros s a (m & (Hi & _ & _) & HP). cbn [tm_step snd]. rewrite Hi. apply Permutation_map. exact HP.
    - intros s a (m & (Hi & _ & _) & HP). cbn [tm_step snd]. rewrite Hi. apply Permutation_map. exact HP.
    - intros s a (m & (_ & _ & Hsz) & HP). cbn [tm_step snd]. rewrite Hsz, (Permutation_length HP). reflexivity.
    - intros s a (m & Hsim & HP).
      exact (distinct_perm _ _ cmp_eqb_equivalence m a HP (sim_distinct s m Hsim)).
  Qed.
End TreeZ.

(* ------------------------------------------------------------------ *)
(* Part 2: boxing — a Z-valued backing used at an arbitrary value type *)
(* ------------------------------------------------------------------ *)
Section Boxed.
  Variable M U : Type.
  Variable uzero : U.
  Variable eqb : Z -> Z -> bool.
  Variable B : backing M Z.
  Variable Rel : M -> list (Z * Z) -> Prop.
  Hypothesis HB : backing_refines 0 eqb B Rel.

  Definition unbox (st : list U) (z : Z) : U := nth (Z.to_nat z) st uzero.
  Definition unbox_found (st : list U) (r : Z * bool) : U * bool :=
    if snd r then (unbox st (fst r), true) else (uzero, false).

  Definition boxed : backing (M * list U) U := {|
    mput := fun k u ch s => (mput B k (Z.of_nat (length (snd s))) ch (fst s), snd s ++ [u]);
    mget := fun k s => unbox_found (snd s) (mget B k (fst s));
    mdel := fun k s => ((fst (mdel B k (fst s)), snd s), unbox_found (snd s) (snd (mdel B k (fst s))));
    mkeys := fun s => mkeys B (fst s);
    mvals := fun s => map (unbox (snd s)) (mvals B (fst s));
    mlen := fun s => mlen B (fst s);
  |}.

  Definition valid (st : list U) (e : Z * Z) : Prop := 0 <= snd e < Z.of_nat (length st).
  Definition boxedR (s : M * list U) (a : list (Z * U)) : Prop :=
    exists az : list (Z * Z),
      Rel (fst s) az /\ Forall (valid (snd s)) az /\ a = map (vmap Z U (unbox (snd s))) az.

  Lemma aput_vmap : forall (f : Z -> U) k x (u : list (Z * Z)),
    aput eqb k (f x) (map (vmap Z U f) u) = map (vmap Z U f) (aput eqb k x u).
  Proof.
    intros f k x u. induction u as [|[k0 x0] t IH]; [reflexivity|].
    cbn [map vmap fst snd aput]. destruct (eqb k0 k); [reflexivity|].
    cbn [map vmap fst snd]. rewrite IH. reflexivity.
  Qed.

  Lemma distinct_vmap : forall (f : Z -> U) (u : list (Z * Z)),
    distinct eqb u -> distinct eqb (map (vmap Z U f) u).
  Proof.
    intros f u. induction u as [|[k0 x0] t IH]; intro HD; [exact I|].
    cbn [map vmap fst snd distinct] in *. destruct HD as [Hx Ht]. split; [|exact (IH Ht)].
    apply Forall_forall. intros e He. apply in_map_iff in He. destruct He as (e0 & <- & Hin).
    rewrite Forall_forall in Hx. exact (Hx e0 Hin).
  Qed.

  Lemma valid_aput : forall (P : Z -> Prop) k x (u : list (Z * Z)),
    P x -> Forall (fun e => P (snd e)) u -> Forall (fun e => P (snd e)) (aput eqb k x u).
  Proof.
    intros P k x u Hx Hall. induction Hall as [|[k0 x0] t He Ht IH]; cbn [aput].
    - constructor; [exact Hx | constructor].
    - destruct (eqb k0 k); constructor; try assumption.
  Qed.

  Lemma valid_adel : forall (P : Z * Z -> Prop) k (u : list (Z * Z)),
    Forall P u -> Forall P (adel eqb k u).
  Proof.
    intros P k u Hall. induction Hall as [|[k0 x0] t He Ht IH]; cbn [adel]; [constructor|].
    destruct (eqb k0 k); [exact Ht | constructor; assumption].
  Qed.

  Lemma unbox_app : forall st u z, 0 <= z < Z.of_nat (length st) -> unbox (st ++ [u]) z = unbox st z.
  Proof. intros st u z Hz. unfold unbox. apply app_nth1. lia. Qed.

  Lemma unbox_new : forall st u, unbox (st ++ [u]) (Z.of_nat (length st)) = u.
  Proof.
    intros st u. unfold unbox. rewrite Nat2Z.id, app_nth2 by lia.
    rewrite Nat.sub_diag. reflexivity.
  Qed.

  Lemma found_vmap : forall st k (az : list (Z * Z)), Forall (valid st) az ->
    unbox_found st (afound 0 eqb k az) = afound uzero eqb k (map (vmap Z U (unbox st)) az).
  Proof.
    intros st k az _. unfold afound. rewrite aget_vmap.
    destruct (aget eqb k az); reflexivity.
  Qed.

  Lemma boxed_refines : backing_refines uzero eqb boxed boxedR.
  Proof.
    constructor; cbn [boxed mput mget mdel mkeys mvals mlen].
    - intros [m st] a k u ch (az & HR & Hv & ->). cbn [fst snd] in *.
      exists (aput eqb k (Z.of_nat (length st)) az). cbn [fst snd].
      split; [exact (br_put _ _ _ _ HB m az k _ ch HR)|]. split.
      + unfold valid in *. rewrite app_length. cbn [length].
        apply (valid_aput (fun z => 0 <= z < Z.of_nat (length st + 1))); [lia|].
        eapply Forall_impl; [|exact Hv]. intros e He. cbn beta in *. lia.
      + rewrite <- aput_vmap, unbox_new. f_equal.
        apply map_ext_in. intros [k0 x0] Hin. unfold vmap. cbn [fst snd]. f_equal.
        rewrite Forall_forall in Hv. symmetry. apply unbox_app. exact (Hv _ Hin).
    - intros [m st] a k (az & HR & Hv & ->). cbn [fst snd] in *.
      rewrite (br_get _ _ _ _ HB m az k HR). exact (found_vmap st k az Hv).
    - intros [m st] a k (az & HR & Hv & ->). cbn [fst snd] in *.
      destruct (br_del _ _ _ _ HB m az k HR) as (HR' & Hout). split.
      + exists (adel eqb k az). cbn [fst snd]. split; [exact HR'|]. split.
        * apply valid_adel. exact Hv.
        * apply adel_vmap.
      + rewrite Hout. exact (found_vmap st k az Hv).
    - intros [m st] a (az & HR & Hv & ->). cbn [fst snd] in *.
      rewrite map_map. cbn [vmap fst]. rewrite <- (map_ext fst _ (fun e => eq_refl)).
      exact (br_keys _ _ _ _ HB m az HR).
    - intros [m st] a (az & HR & Hv & ->). cbn [fst snd] in *.
      rewrite map_map. cbn [vmap snd]. rewrite <- (map_map snd (unbox st)).
      apply Permutation_map. exact (br_vals _ _ _ _ HB m az HR).
    - intros [m st] a (az & HR & Hv & ->). cbn [fst snd] in *.
      rewrite map_length. exact (br_len _ _ _ _ HB m az HR).
    - intros [m st] a (az & HR & Hv & ->). cbn [fst snd] in *.
      apply distinct_vmap. exact (br_distinct _ _ _ _ HB m az HR).
  Qed.

  Lemma boxedR_init : forall m0, Rel m0 [] -> boxedR (m0, []) [].
  Proof. intros m0 H0. exists []. cbn [fst snd map]. split; [exact H0|]. split; [constructor | reflexivity]. Qed.
End Boxed.

(* ------------------------------------------------------------------ *)
(* Part 3: mapx.TreeMap[K, U] and the two decorators over it           *)
(* ------------------------------------------------------------------ *)
Definition tree_backing (U : Type) (uzero : U) (cmp : Z -> Z -> Z) : backing (rbtree * list U) U :=
  boxed rbtree U uzero (tmz_backing cmp).
Definition tree_init (U : Type) : rbtree * list U := (rb_empty, []).
Definition tree_R (U : Type) (uzero : U) (cmp : Z -> Z -> Z) : rbtree * list U -> list (Z * U) -> Prop :=
  boxedR rbtree U uzero (RZ cmp).
Arguments tree_backing {U} uzero cmp.
Arguments tree_init {U}.
Arguments tree_R {U} uzero cmp.

Section TreeDecor.
  Variable cmp : Z -> Z -> Z.
  Hypothesis cmp_antisym : forall a b, cmp a b < 0 <-> cmp b a > 0.
  Hypothesis cmp_trans : forall a b c, cmp a b < 0 -> cmp b c < 0 -> cmp a c < 0.
  Hypothesis cmp_eq_lt : forall a b c, cmp a b = 0 -> cmp a c < 0 -> cmp b c < 0.
  Variable eqb : Z -> Z -> bool.
  Hypothesis eqb_cmp : forall a b, eqb a b = (cmp a b =? 0).
  Local Set Default Proof Using "All".

  Lemma tree_backing_refines_gen : forall (U : Type) (uzero : U),
    backing_refines uzero eqb (tree_backing uzero cmp) (tree_R uzero cmp).
  Proof.
    intros U uzero. unfold tree_backing, tree_R.
    apply boxed_refines. exact (tmz_backing_refines cmp cmp_antisym cmp_trans cmp_eq_lt eqb eqb_cmp).
  Qed.

  Lemma tree_R_init : forall (U : Type) (uzero : U), tree_R uzero cmp tree_init [].
  Proof. intros U uzero. apply boxedR_init. exact (RZ_init cmp cmp_antisym cmp_trans cmp_eq_lt eqb eqb_cmp). Qed.

  Lemma linked_treemap_gen : forall (V : Type) (vzero : V) (ops : list (mop V)),
    snd (run (lstep vzero (tree_backing 0%nat cmp)) (linit vzero tree_init) ops)
    = snd (run (astep vzero eqb) [] ops).
  Proof.
    intros V vzero ops.
    exact (linkedmap_refines_lemma V vzero _ (tree_backing 0%nat cmp) eqb (tree_R 0%nat cmp)
             (tree_backing_refines_gen nat 0%nat) tree_init (tree_R_init nat 0%nat) ops).
  Qed.

  Lemma multi_treemap_gen : forall (V : Type) (ops : list (mmop V)),
    Forall2 (@mmout_equiv V) (snd (run (mmstep (tree_backing [] cmp)) tree_init ops))
                             (snd (run (mm_spec_step eqb) [] ops)).
  Proof.
    intros V ops.
    exact (multimap_refines_lemma V _ (tree_backing [] cmp) eqb (tree_R [] cmp)
             (tree_backing_refines_gen (list V) []) tree_init (tree_R_init (list V) []) ops).
  Qed.

  (* MultiMap.Keys() over the tree is TreeMap.Keys(): the generic theorem only fixes it as a
     multiset (out_equiv); over the tree it is moreover strictly ascending by the comparator *)
  Lemma ordered_keys : forall m : list (Z * Z),
    ordered cmp m -> StronglySorted (fun a b => cmp a b < 0) (map fst m).
  Proof.
    intros m Hord. induction Hord as [|[k v] m Hm IH Hall]; cbn [map fst]; constructor; [exact IH|].
    apply Forall_forall. intros k' Hin. apply in_map_iff in Hin. destruct Hin as (e & <- & Hin).
    rewrite Forall_forall in Hall. exact (Hall e Hin).
  Qed.

  Lemma tree_R_keys_sorted : forall (U : Type) (uzero : U) s a, tree_R uzero cmp s a ->
    StronglySorted (fun a b => cmp a b < 0) (mkeys (tree_backing uzero cmp) s) /\
    Permutation (mkeys (tree_backing uzero cmp) s) (map fst a).
  Proof.
    intros U uzero s a HR.
    split; [|exact (br_keys _ _ _ _ (tree_backing_refines_gen U uzero) s a HR)].
    destruct HR as (az & (m & (Hi & Ho & _) & _) & _).
    cbn [tree_backing boxed tmz_backing mkeys tm_step snd]. rewrite Hi. exact (ordered_keys m Ho).
  Qed.

  Lemma multi_treemap_keys_sorted_gen : forall (V : Type) (ops : list (mmop V)),
    let s := fst (run (mmstep (tree_backing [] cmp)) tree_init ops) in
    let a := fst (run (mm_spec_step eqb) [] ops) in
    StronglySorted (fun a b => cmp a b < 0) (mkeys (tree_backing [] cmp) s) /\
    Permutation (mkeys (tree_backing [] cmp) s) (map fst a).
  Proof.
    intros V ops s a. apply (tree_R_keys_sorted (list V) []).
    exact (proj1 (DecorSpecProof.run_sim _ _ (tree_R [] cmp) (@mmout_equiv V)
                    (multi_sim V _ (tree_backing [] cmp) eqb (tree_R [] cmp)
                               (tree_backing_refines_gen (list V) []))
                    tree_init [] (tree_R_init (list V) []) ops)).
  Qed.

  (* the error result of TreeMap.Put, which the `backing` interface has no slot for, is nil in
     every state the decorators can reach (every state related to SOME abstract map) *)
  Lemma tree_put_never_fails_lemma : forall (U : Type) (uzero : U) s a k h,
    tree_R uzero cmp s a -> snd (tm_step cmp (fst s) (TPut k h)) = TUnit.
  Proof.
    intros U uzero s a k h (az & HR & _).
    exact (tmz_put_ok cmp cmp_antisym cmp_trans cmp_eq_lt eqb eqb_cmp (fst s) az k h HR).
  Qed.
End TreeDecor.

(* ---- the statements of props/C01_decor.v: key equality = "the comparator returns 0" ---- *)
Section TreeDecorCmp.
  Variable cmp : Z -> Z -> Z.
  Hypothesis cmp_antisym : forall a b, cmp a b < 0 <-> cmp b a > 0.
  Hypothesis cmp_trans : forall a b c, cmp a b < 0 -> cmp b c < 0 -> cmp a c < 0.
  Hypothesis cmp_eq_lt : forall a b c, cmp a b = 0 -> cmp a c < 0 -> cmp b c < 0.
  Local Set Default Proof Using "All".
  Local Notation "'LG' x" :=
    (x cmp cmp_antisym cmp_trans cmp_eq_lt (cmp_eqb cmp) (fun a b => eq_refl)) (at level 10, only parsing).

  Lemma cmp_eqb_equivalence_lemma : eqb_equivalence (cmp_eqb cmp).
  Proof. exact (LG cmp_eqb_equivalence). Qed.

  Lemma tree_backing_refines_lemma : forall (U : Type) (uzero : U),
    backing_refines uzero (cmp_eqb cmp) (tree_backing uzero cmp) (tree_R uzero cmp).
  Proof. exact (LG tree_backing_refines_gen). Qed.

  Lemma linked_treemap_lemma : forall (V : Type) (vzero : V) (ops : list (mop V)),
    snd (run (lstep vzero (tree_backing 0%nat cmp)) (linit vzero tree_init) ops)
    = snd (run (astep vzero (cmp_eqb cmp)) [] ops).
  Proof. exact (LG linked_treemap_gen). Qed.

  Lemma multi_treemap_lemma : forall (V : Type) (ops : list (mmop V)),
    Forall2 (@mmout_equiv V) (snd (run (mmstep (tree_backing [] cmp)) tree_init ops))
                             (snd (run (mm_spec_step (cmp_eqb cmp)) [] ops)).
  Proof. exact (LG multi_treemap_gen). Qed.

  Lemma multi_treemap_keys_sorted_lemma : forall (V : Type) (ops : list (mmop V)),
    let s := fst (run (mmstep (tree_backing [] cmp)) tree_init ops) in
    let a := fst (run (mm_spec_step (cmp_eqb cmp)) [] ops) in
    StronglySorted (fun a b => cmp a b < 0) (mkeys (tree_backing [] cmp) s) /\
    Permutation (mkeys (tree_backing [] cmp) s) (map fst a).
  Proof. exact (LG multi_treemap_keys_sorted_gen). Qed.

  (* every state of the tree inside a decorator run is related to the abstract map after the
     same history, so TreeMap.Put returns nil there *)
  Lemma linked_treemap_put_never_fails_lemma : forall (V : Type) (vzero : V) (ops : list (mop V)) k h,
    snd (tm_step cmp (fst (lm (fst (run (lstep vzero (tree_backing 0%nat cmp)) (linit vzero tree_init) ops))))
                 (TPut k h)) = TUnit.
  Proof.
    intros V vzero ops k h.
    pose proof (proj1 (DecorSpecProof.run_sim _ _ (LR V _ (tree_R 0%nat cmp)) eq
                  (linked_sim V vzero _ (tree_backing 0%nat cmp) (cmp_eqb cmp) (tree_R 0%nat cmp)
                              (LG tree_backing_refines_gen nat 0%nat))
                  _ _ (LR_init V vzero _ (tree_R 0%nat cmp) tree_init (LG tree_R_init nat 0%nat))
                  ops)) as HLR.
    destruct HLR as (u & HI).
    apply (LG tree_put_never_fails_lemma nat 0%nat _ u).
    destruct HI as [HRm _]. exact HRm.
  Qed.
End TreeDecorCmp.

(* for the comparator families of the correspondence check this key equality is the Equals
   family the check's specification side uses (DecorSpec.eqb_exact / eqb_half) *)
Lemma eqb_exact_is_cmp_asc : forall a b, eqb_exact a b = (cmp_asc a b =? 0).
Proof.
  intros a b. unfold cmp_asc, eqb_exact.
  destruct (Z.eqb_spec (Z.sgn (a - b)) 0) as [H | H]; destruct (Z.eqb_spec a b) as [H' | H'];
    try reflexivity; exfalso.
  - apply sgn_zero in H. lia.
  - apply H. apply sgn_zero. lia.
Qed.

Lemma eqb_half_is_cmp_half : forall a b, eqb_half a b = (cmp_half a b =? 0).
Proof.
  intros a b. unfold cmp_half, eqb_half.
  destruct (Z.eqb_spec (Z.sgn (a / 2 - b / 2)) 0) as [H | H]; destruct (Z.eqb_spec (a / 2) (b / 2)) as [H' | H'];
    try reflexivity; exfalso.
  - apply sgn_zero in H. lia.
  - apply H. apply sgn_zero. lia.
Qed.

Lemma linked_treemap_half_lemma : forall (V : Type) (vzero : V) (ops : list (mop V)),
  snd (run (lstep vzero (tree_backing 0%nat cmp_half)) (linit vzero tree_init) ops)
  = snd (run (astep vzero eqb_half) [] ops).
Proof.
  exact (linked_treemap_gen cmp_half (proj1 cmp_half_laws) (proj1 (proj2 cmp_half_laws))
           (proj2 (proj2 cmp_half_laws)) eqb_half eqb_half_is_cmp_half).
Qed.

Lemma multi_treemap_half_lemma : forall (V : Type) (ops : list (mmop V)),
  Forall2 (@mmout_equiv V) (snd (run (mmstep (tree_backing [] cmp_half)) tree_init ops))
                           (snd (run (mm_spec_step eqb_half) [] ops)).
Proof.
  exact (multi_treemap_gen cmp_half (proj1 cmp_half_laws) (proj1 (proj2 cmp_half_laws))
           (proj2 (proj2 cmp_half_laws)) eqb_half eqb_half_is_cmp_half).
Qed.

Lemma linked_treemap_asc_lemma : forall (V : Type) (vzero : V) (ops : list (mop V)),
  snd (run (lstep vzero (tree_backing 0%nat cmp_asc)) (linit vzero tree_init) ops)
  = snd (run (astep vzero eqb_exact) [] ops).
Proof.
  exact (linked_treemap_gen cmp_asc (proj1 cmp_asc_laws) (proj1 (proj2 cmp_asc_laws))
           (proj2 (proj2 cmp_asc_laws)) eqb_exact eqb_exact_is_cmp_asc).
Qed.
