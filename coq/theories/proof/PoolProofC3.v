(* agent-poolproof, gap closing for C12 (audit item 3): a ranking function.  Once no client call is in flight
   (every goroutine of the table is a worker) every statement, timer tick and end of a user function strictly
   decreases the measure mu, so at most mu(c) such events can follow; with shutdown_completes (a stuck
   configuration after a successful Shutdown has its done channel closed) the channel closes within mu(c) events. *)
From Ekit Require Import Common Conc PoolModel PoolProof PoolProof4 PoolProof5 PoolProof6 PoolProofB
  PoolProofB0 PoolProofB1 PoolProofB2d PoolProofB4d PoolProofB5d PoolProofBz PoolProofB8 PoolProofC1.
From Coq Require Import ZifyBool Arith PeanoNat.

Definition wk (p : ppc) : bool :=
  match p with
  | WNewTimer | WStop0 | WDrain0 | WFor | WSelect | WParked | WCaseInt | WIntDec | WIdLock | WIdSub | WIdUnlock | WIntRet | WCaseTimer | WTmLock | WTmDecr | WTmLeft | WTmDel | TdLock | TdDefer | TdIf | TdDec | TdDelete | WTmUnlock | WTmIfLeft | WTmCas | WTmCancel | WTmRet | WCaseQueue | WIfIsIn | IiRLock | IiDefer | IiLookup | IiRet | WRcDel | RdLock | RdDefer | RdIf | RdDec | RdDelete | WStop1 | WDrain1 | WIfNotOk | WClDec | CdLock | CdSub | CdUnlock | WClIfNum | NgRLock | NgRead | NgRUnlock | NgRet | WClCas | WClCancel | WClRet | WRunInc | WRun | RwDefer | RwRet | TfRet | WUser | RwRecIf | RwBuf | RwStack | RwErr | WRunDec | WBkLock | WBkNoTasks | WBkIf1 | Z1RLock | Z1Defer | Z1Ret | WBkDecr | WBkUnlock1 | WBkRet | WBkIf2 | Z2RLock | Z2Defer | Z2Ret | WBkNewTimer | WBkAdd | GaLock | GaDefer | GaIf | GaSet | GaInc | WBkUnlock2 => true
  | _ => false
  end.

Definition pos (p : ppc) : Z :=
  match p with
  | WNewTimer => 340
  | WStop0 => 336
  | WDrain0 => 332
  | WFor => 328
  | WSelect => 324
  | WParked => 320
  | WCaseInt => 320
  | WIntDec => 316
  | WIdLock => 312
  | WIdSub => 308
  | WIdUnlock => 304
  | WIntRet => 300
  | WCaseTimer => 296
  | WTmLock => 292
  | WTmDecr => 288
  | WTmLeft => 284
  | WTmDel => 280
  | TdLock => 276
  | TdDefer => 272
  | TdIf => 268
  | TdDec => 264
  | TdDelete => 260
  | WTmUnlock => 256
  | WTmIfLeft => 252
  | WTmCas => 248
  | WTmCancel => 244
  | WTmRet => 240
  | WCaseQueue => 236
  | WIfIsIn => 232
  | IiRLock => 228
  | IiDefer => 224
  | IiLookup => 220
  | IiRet => 216
  | WRcDel => 212
  | RdLock => 208
  | RdDefer => 204
  | RdIf => 200
  | RdDec => 196
  | RdDelete => 192
  | WStop1 => 188
  | WDrain1 => 184
  | WIfNotOk => 180
  | WClDec => 176
  | CdLock => 172
  | CdSub => 168
  | CdUnlock => 164
  | WClIfNum => 160
  | NgRLock => 156
  | NgRead => 152
  | NgRUnlock => 148
  | NgRet => 144
  | WClCas => 140
  | WClCancel => 136
  | WClRet => 132
  | WRunInc => 128
  | WRun => 124
  | RwDefer => 120
  | RwRet => 116
  | TfRet => 112
  | WUser => 108
  | RwRecIf => 104
  | RwBuf => 100
  | RwStack => 96
  | RwErr => 92
  | WRunDec => 88
  | WBkLock => 84
  | WBkNoTasks => 80
  | WBkIf1 => 76
  | Z1RLock => 72
  | Z1Defer => 68
  | Z1Ret => 64
  | WBkDecr => 60
  | WBkUnlock1 => 56
  | WBkRet => 52
  | WBkIf2 => 48
  | Z2RLock => 44
  | Z2Defer => 40
  | Z2Ret => 36
  | WBkNewTimer => 32
  | WBkAdd => 28
  | GaLock => 24
  | GaDefer => 20
  | GaIf => 16
  | GaSet => 12
  | GaInc => 8
  | WBkUnlock2 => 4
  | _ => 0
  end.

Definition L0 : Z := 325.

Definition bonus (th : thr) : Z :=
  match pc th with
  | WCaseQueue | WIfIsIn | IiRLock | IiDefer | IiLookup | IiRet | WRcDel | RdLock | RdDefer | RdIf | RdDec | RdDelete | WStop1 | WDrain1 | WIfNotOk => if l_ok th then L0 + 26 * Z.of_nat (tk_depth (l_task th)) else 0
  | WRunInc | WRun => L0 + 26 * Z.of_nat (tk_depth (l_task th))
  | RwDefer | RwRet => L0 + 5 * Z.of_nat (l_lvl th) + 20 * Z.of_nat (tk_depth (l_task th))
  | TfRet | WUser => L0 + 20 * Z.of_nat (tk_depth (l_task th))
  | RwRecIf | RwBuf | RwStack | RwErr => L0 + 20 * Z.of_nat (tk_depth (l_task th) - l_lvl th)
  | WRunDec | WBkLock | WBkNoTasks | WBkIf1 | Z1RLock | Z1Defer | Z1Ret | WBkDecr | WBkUnlock1 | WBkRet | WBkIf2 | Z2RLock | Z2Defer | Z2Ret | WBkNewTimer | WBkAdd | GaLock | GaDefer | GaIf | GaSet | GaInc | WBkUnlock2 => L0
  | _ => 0
  end.

Definition tmw (m : tmr) : Z := match m with TmDead => 0 | TmFired => 1 | TmArmed => 2 end.
(* rank of one goroutine: position inside the loop body + timer state + (while it carries a task) the price of
   the rest of that iteration and of the jump back to the select *)
Definition rk (th : thr) : Z := pos (pc th) + tmw (l_tm th) + bonus th.
(* each queued task pays for one loop iteration of the worker that will take it *)
Fixpoint qw (q : list task) : Z :=
  match q with [] => 0 | k :: r => L0 + 26 * Z.of_nat (tk_depth k) + qw r end.
Definition mu (c : pcfg) : Z := tsum rk (c_thr c) + qw (s_q (c_sh c)).

Definition nonw (p : ppc) : Z := if wk p then 0 else 1.
Lemma nonw_nn p : 0 <= nonw p. Proof. unfold nonw. destruct (wk p); lia. Qed.
Lemma pos_nn p : 0 <= pos p. Proof. destruct p; cbn; lia. Qed.
Lemma tmw_nn m : 0 <= tmw m. Proof. destruct m; cbn; lia. Qed.
Lemma bonus_nn th : 0 <= bonus th.
Proof. unfold bonus, L0. destruct (pc th); try destruct (l_ok th); lia. Qed.
Lemma rk_nn th : 0 <= rk th.
Proof. unfold rk. pose proof (pos_nn (pc th)). pose proof (tmw_nn (l_tm th)). pose proof (bonus_nn th). lia. Qed.
Lemma qw_nn q : 0 <= qw q.
Proof. induction q as [|k r IH]; cbn [qw]; unfold L0 in *; lia. Qed.
Lemma mu_nn c : 0 <= mu c.
Proof. unfold mu. pose proof (PoolProofB0.tsum_nonneg rk (c_thr c) rk_nn). pose proof (qw_nn (s_q (c_sh c))). lia. Qed.

Definition internal (e : pev) : bool :=
  match e with PStep _ _ | PFire _ | PFinish _ => true | _ => false end.

Ltac nat_facts :=
  repeat match goal with
         | H : Nat.ltb _ _ = true |- _ => apply Nat.ltb_lt in H
         | H : Nat.ltb _ _ = false |- _ => apply Nat.ltb_ge in H
         end.

(* the case analysis: one event of a worker *)
Lemma rank_local c e th o :
  internal e = true -> wk (pc th) = true -> ev_out c e th = Some o ->
  o_spawn o = None /\ (o_wake o = WkNone \/ o_wake o = WkCancel) /\ oz (pcf nonw) (o_th o) = 0 /\
  oz rk (o_th o) + qw (s_q (o_sh o)) + 1 <= rk th + qw (s_q (c_sh c)).
Proof.
  intros Hi Hw Ho.
  destruct e as [t op|t ch|t|t|t]; cbn [internal] in Hi; try discriminate Hi; clear Hi; cbn [ev_out] in Ho;
    generalize dependent (parked_of (c_thr c)); intros pk; intros;
    generalize dependent (c_par c); intros P; intros;
    destruct (c_sh c) as [st pv q cl tot run mp gn bw br gw gr idc ictx];
    [ pstep_split Ho th ch
    | destruct (l_tm th) eqn:Htm; try discriminate Ho; injection Ho as <-; unfold is_parked; destruct (pc th) eqn:Hpc
    | destruct (pc th) eqn:Hpc; try discriminate Ho; injection Ho as <- ];
    cbn [wk] in Hw; try discriminate Hw; clear Hw;
    unfold_helpers; msimp; break_if; msimp;
    (split; [reflexivity|]); (split; [first [left; reflexivity|right; reflexivity]|]);
    (split; [repeat match goal with |- context [nonw (if ?b then _ else _)] => destruct b eqn:? end; unfold nonw; rewrite ?Hpc; cbn [wk]; reflexivity|]);
    unfold rk, bonus; msimp; rewrite ?Hpc; cbn [pos qw s_q]; break_if; msimp; cbn [pos tmw qw];
    repeat match goal with H : l_tm ?x = _ |- context [l_tm ?x] => rewrite H end; cbn [tmw];
    pose proof (tmw_nn (l_tm th));
    nat_facts; unfold L0; lia.
Qed.

(* no client call is in flight: every goroutine of the table is a worker *)
Definition only_workers (c : pcfg) : Prop := forallb (fun x => wk (pc (snd x))) (c_thr c) = true.

Lemma ow_tsum l : forallb (fun x : tid * thr => wk (pc (snd x))) l = true <-> tsum (pcf nonw) l = 0.
Proof.
  induction l as [|[t x] r IH]; cbn [forallb tsum snd]; [split; reflexivity|].
  pose proof (PoolProofB0.tsum_nonneg (pcf nonw) r (pcf_nonneg _ nonw_nn)) as N.
  unfold pcf at 1. unfold nonw at 1. destruct (wk (pc x)); cbn [andb].
  - rewrite IH. split; lia.
  - split; [discriminate|lia].
Qed.

Lemma rk_wake_cancel x : is_parked x = true -> rk (recv_int x) = rk x.
Proof.
  unfold is_parked, rk, bonus, recv_int. cbn [pc goto l_tm l_ok l_task l_lvl].
  destruct (pc x); try discriminate. intros _. reflexivity.
Qed.

Lemma rank_step c e c' :
  only_workers c -> internal e = true -> pstep_cfg c e = Some c' -> only_workers c' /\ mu c' + 1 <= mu c.
Proof.
  unfold only_workers. rewrite !ow_tsum. intros Hw Hi Hstep.
  destruct (step_cases _ _ _ Hstep) as [(t & op & -> & _)|(th & o & obs & Hl & Ho & Ha)]; [discriminate Hi|].
  pose proof (tsum_zero_lookup (pcf nonw) _ _ _ (pcf_nonneg _ nonw_nn) Hw Hl) as Hth.
  assert (Hwk : wk (pc th) = true).
  { unfold pcf, nonw in Hth. destruct (wk (pc th)); [reflexivity|discriminate Hth]. }
  destruct (rank_local c e th o Hi Hwk Ho) as (Hsp & Hwake & Hn & Hr).
  destruct (apply_out_fields _ _ _ _ _ Ha) as (_ & Hsh & _ & _).
  assert (Hok : wake_ok rk (o_wake o)).
  { destruct Hwake as [-> | ->]; cbn [wake_ok]; [exact I|exact rk_wake_cancel]. }
  pose proof (tsum_step rk c (ev_tid e) th o c' obs Hl Hok Ha) as C.
  pose proof (tsum_step (pcf nonw) c (ev_tid e) th o c' obs Hl (pcf_wake_ok nonw eq_refl eq_refl (o_wake o)) Ha) as N.
  rewrite Hsp in C, N. cbn [oz] in C, N. unfold upd in C, N.
  split; [rewrite N, Hw, Hth, Hn; lia|].
  unfold mu. rewrite Hsh, C. lia.
Qed.

Lemma rank_exec evs : forall c c',
  only_workers c -> forallb internal evs = true -> exec pstep_cfg c evs = Some c' ->
  only_workers c' /\ mu c' + Z.of_nat (length evs) <= mu c.
Proof.
  induction evs as [|e r IH]; intros c c' Hw Hi H; cbn [exec forallb length] in *.
  - injection H as <-. split; [exact Hw|lia].
  - apply andb_prop in Hi. destruct Hi as [Hi Hr].
    destruct (pstep_cfg c e) as [c1|] eqn:E; [|discriminate H].
    destruct (rank_step c e c1 Hw Hi E) as [Hw1 Hm]. destruct (IH c1 c' Hw1 Hr H) as [Hw' Hm'].
    split; [exact Hw'|lia].
Qed.

(* every run of internal events from a configuration without client calls has at most mu(c) events *)
Lemma internal_runs_bounded_lemma c evs c' :
  only_workers c -> forallb internal evs = true -> exec pstep_cfg c evs = Some c' ->
  Z.of_nat (length evs) <= mu c /\ Z.of_nat (length evs) <= mu c - mu c' /\ only_workers c'.
Proof.
  intros Hw Hi H. destruct (rank_exec evs c c' Hw Hi H) as [Hw' Hm]. pose proof (mu_nn c'). repeat split; try lia. exact Hw'.
Qed.

(* C12 with a bound: after a successful Shutdown, once no client call is in flight, every continuation by
   statements / timer ticks / ends of user functions has at most mu(c) events, and wherever it cannot be
   continued (stuck) the pool is stopped, the done channel closed and every accepted task done *)
Lemma shutdown_completes_within_lemma P evs0 c :
  pvalid P -> pfixed P -> i_fixc P = true ->
  exec pstep_cfg (pinit P) evs0 = Some c -> g_shut (c_gh c) = true -> only_workers c ->
  forall evs c', forallb internal evs = true -> exec pstep_cfg c evs = Some c' ->
    Z.of_nat (length evs) <= mu c /\
    (forall e c'', internal e = true -> pstep_cfg c' e = Some c'' -> Z.of_nat (length evs) + 1 <= mu c) /\
    (stuck c' ->
       s_state (c_sh c') = SStopped /\ s_ictx (c_sh c') = true /\
       (forall i, In i (g_acc (c_gh c')) -> In i (g_done (c_gh c')))).
Proof.
  intros V F Fc H0 Hs Hw evs c' Hi H.
  destruct (rank_exec evs c c' Hw Hi H) as [Hw' Hm]. pose proof (mu_nn c') as Hn.
  split; [lia|]. split.
  - intros e c'' He Hst. destruct (rank_step c' e c'' Hw' He Hst) as [_ Hm2]. pose proof (mu_nn c''). lia.
  - intros Hst. apply (shutdown_completes_full P (evs0 ++ evs) c' V F Fc).
    + rewrite exec_app, H0. exact H.
    + apply (gshut_exec evs c c' H Hs).
    + exact Hst.
Qed.

(* non-vacuity on PoolExamples.wit_hang: the configuration in which Shutdown has just returned (C1: obs_ex_c2) *)
Lemma shutdown_completes_within_example_lemma :
  only_workers obs_ex_c2 /\ g_shut (c_gh obs_ex_c2) = true /\ mu obs_ex_c2 = 532 /\
  forallb internal obs_ex_evs2 = true /\ exec pstep_cfg obs_ex_c2 obs_ex_evs2 = Some obs_ex_c /\
  length obs_ex_evs2 = 32%nat /\ c_thr obs_ex_c = [] /\ mu obs_ex_c = 0 /\ s_ictx (c_sh obs_ex_c) = true.
Proof. repeat (split; [vm_compute; reflexivity|]). vm_compute; reflexivity. Qed.
