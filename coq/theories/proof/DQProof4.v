(* Proofs about DQModel, part 4 (C08): the ghost logs.  Every element ever inserted is, as a
   multiset, exactly: in the heap, or removed by a Dequeue still in flight (which is bound to
   return it), or returned by a completed Dequeue; and exactly: the argument of an Enqueue that
   returned nil or is past its insertion.  A call that returns the context's error has not
   touched the heap.  No call ever returns by panic. *)
From Ekit Require Import Common Conc DQModel DQProof DQProof2 DQProof3.
From Coq Require Import Arith PeanoNat ZifyBool Permutation.

Definition removed_of (th : dthr) : list elem := match t_eff th with Removed v => [v] | _ => [] end.
Definition inserted_of (th : dthr) : list elem := match t_eff th with Inserted => [t_el th] | _ => [] end.
Definition inflight (f : dthr -> list elem) (l : list (tid * dthr)) : list elem :=
  flat_map (fun e => f (snd e)) l.

(* the effect ghost against the program counter *)
Definition removed_el (th : dthr) : Prop := t_herr th = HNil /\ t_eff th = Removed (t_el th).
Definition eff_ok (th : dthr) : Prop :=
  match t_pc th with
  | ESwitch => match t_herr th with HNil => t_eff th = Inserted | _ => t_eff th = NoEff end
  | EBcast | ERetNil => t_eff th = Inserted
  | DBcast0 | DBcast1 | DRet0 | DRet1 => removed_el th
  | Bc1 | Bc2 | Bc3 | Bc4 | Bc5 => match t_site th with SEnq => t_eff th = Inserted | _ => removed_el th end
  | DDeferIf | DDeferStop =>
    match t_rv th with RVal v => t_eff th = Removed v | RCtx => t_eff th = NoEff | _ => False end
  | _ => t_eff th = NoEff
  end.

Record invC (c : dq_cfg) : Prop := {
  c_rem : Permutation (q_ins c) (q_heap c ++ inflight removed_of (q_thr c) ++ q_out c);
  c_ins : Permutation (q_ins c) (q_okd c ++ inflight inserted_of (q_thr c));
  c_eff : forall t th, lookup t (q_thr c) = Some th -> eff_ok th
}.

Lemma invC_init cap old : invC (dq_init cap old).
Proof. constructor; cbn; try apply perm_nil; intros; discriminate. Qed.

(* ---------- inflight over the thread table ---------- *)
Lemma lookup_split (t : tid) (l : list (tid * dthr)) th :
  lookup t l = Some th ->
  exists l1 l2, l = l1 ++ (t, th) :: l2 /\ (forall th', update t th' l = l1 ++ (t, th') :: l2) /\ remove t l = l1 ++ l2.
Proof.
  induction l as [|[t' p] r IH]; cbn; [discriminate|].
  destruct (Nat.eqb t t') eqn:E.
  - apply Nat.eqb_eq in E. subst t'. intros H; injection H as ->.
    exists [], r. repeat split; reflexivity.
  - intros H. destruct (IH H) as (l1 & l2 & -> & Hu & Hr).
    exists ((t', p) :: l1), l2. split; [reflexivity|]. split; [intros th'; cbn; rewrite Hu; reflexivity|cbn; rewrite Hr; reflexivity].
Qed.

Lemma inflight_app f l1 l2 : inflight f (l1 ++ l2) = inflight f l1 ++ inflight f l2.
Proof. unfold inflight. apply flat_map_app. Qed.

Lemma inflight_update_same f t th th' l :
  lookup t l = Some th -> f th' = f th -> inflight f (update t th' l) = inflight f l.
Proof.
  intros Hl Hf. destruct (lookup_split _ _ _ Hl) as (l1 & l2 & -> & Hu & _).
  rewrite Hu, !inflight_app. cbn. rewrite Hf. reflexivity.
Qed.

Lemma inflight_remove f t th l :
  lookup t l = Some th -> Permutation (inflight f l) (f th ++ inflight f (remove t l)).
Proof.
  intros Hl. destruct (lookup_split _ _ _ Hl) as (l1 & l2 & -> & _ & Hr).
  rewrite Hr, !inflight_app. cbn. rewrite ?app_nil_r. apply Permutation_app_swap_app.
Qed.

Lemma inflight_update f t th th' l :
  lookup t l = Some th -> Permutation (inflight f (update t th' l)) (f th' ++ inflight f (remove t l)).
Proof.
  intros Hl. destruct (lookup_split _ _ _ Hl) as (l1 & l2 & -> & Hu & Hr).
  rewrite Hu, Hr, !inflight_app. cbn. rewrite ?app_nil_r. apply Permutation_app_swap_app.
Qed.

Lemma inflight_remove_nil f t th l :
  lookup t l = Some th -> f th = [] -> inflight f (remove t l) = inflight f l.
Proof.
  intros Hl Hf. destruct (lookup_split _ _ _ Hl) as (l1 & l2 & -> & _ & Hr).
  rewrite Hr, !inflight_app. cbn. rewrite Hf. reflexivity.
Qed.

Lemma inflight_spawn f t th l : inflight f (spawn t th l) = inflight f l ++ f th.
Proof. unfold spawn. rewrite inflight_app. cbn. rewrite app_nil_r. reflexivity. Qed.

Lemma inflight_wake f x g l : (forall th, f (wake1 x g th) = f th) -> inflight f (wake_thr x g l) = inflight f l.
Proof.
  intros Hf. unfold inflight, wake_thr. induction l as [|[t p] r IH]; cbn; [reflexivity|].
  rewrite Hf, IH. reflexivity.
Qed.

Lemma removed_of_wake x g th : removed_of (wake1 x g th) = removed_of th.
Proof. unfold wake1. destruct (parked_on x g th); reflexivity. Qed.
Lemma inserted_of_wake x g th : inserted_of (wake1 x g th) = inserted_of th.
Proof. unfold wake1. destruct (parked_on x g th); reflexivity. Qed.

Lemma eff_ok_wake x g th : eff_ok th -> eff_ok (wake1 x g th).
Proof.
  unfold wake1, parked_on. destruct (t_pc th) eqn:E; cbn [is_park andb]; try (intros H; exact H);
    destruct (cnd_eqb (wcond (t_site th)) x && Nat.eqb (t_sg th) g); try (intros H; exact H);
    unfold eff_ok; dq_simpl; rewrite E; cbn; intros H; exact H.
Qed.

(* impossible branches: fatal errors, the unreachable `default:` arms, Dequeue on an empty heap after a successful Peek *)
Ltac dq_noB Hb0 :=
  try (solve [exfalso; exact Hb0]);
  try (solve [exfalso; unfold peeked, is_min in Hb0;
              match goal with Hh : q_heap _ = [] |- _ => rewrite Hh in Hb0 end;
              cbn [In] in Hb0; tauto]).

Lemma invC_step c e c' obs :
  invA c -> invB c -> invD c -> invC c -> dq_exec1 c e = Some (c', obs) -> invC c'.
Proof.
  intros HA [_ HthrB] HD [Hrem Hins Heff] H. pose proof (a_nodup _ HA) as Hnd.
  dq_cases H.
  all: dq_sym.
  all: cbn [ctx_case after_bcast after_sigch] in *.
  all: dq_nobad HA Hl Hpc.
  all: try (pose proof (HthrB _ _ Hl) as Hb0; unfold thrB in Hb0; rewrite Hpc in Hb0).
  all: try (rewrite ?Heqd in Hb0).
  all: dq_noB Hb0.
  all: try (pose proof (Heff _ _ Hl) as He0; unfold eff_ok in He0; rewrite Hpc in He0).
  (* Bc5, old already closed: impossible *)
  all: try (solve [exfalso; pose proof (closing_self c t th Hl ltac:(rewrite Hpc; reflexivity)) as Hs;
                   assert (HG : globD c) by (destruct HD; constructor; assumption);
                   pose proof (closing_not_closed _ _ _ HG Hs) as Hn; unfold closedb in Hn; congruence]).
  all: constructor; dq_simpl; dq_cnd; dq_simpl.
  (* the effect ghost *)
  all: try (solve [dq_thread t2 th2 Hl2 Hne; dq_unwake; first [apply eff_ok_wake|idtac];
                   first [ solve [eapply Heff; eassumption]
                         | solve [unfold eff_ok, removed_el, ret_of, tm_take in *; dq_simpl; cbn [new_enq new_deq t_pc t_eff];
                                  dq_eqs; try rewrite Hst in *; cbv iota beta; try reflexivity; try assumption; try tauto;
                                  try (destruct (t_tm th); dq_simpl; assumption);
                                  try (destruct He0 as [-> ->]; reflexivity)] ]]).
  (* the logs, when the step neither logs nor changes what this thread holds *)
  all: try (solve [rewrite ?(inflight_wake _ _ _ _ (removed_of_wake _ _)), ?(inflight_wake _ _ _ _ (inserted_of_wake _ _));
                   first [ rewrite (inflight_update_same _ _ _ _ _ Hl) by
                             (unfold removed_of, inserted_of, tm_take; dq_simpl; try rewrite He0; try reflexivity;
                              destruct (t_tm th); reflexivity)
                         | rewrite (inflight_remove_nil _ _ _ _ Hl) by
                             (unfold removed_of, inserted_of; try rewrite He0; reflexivity)
                         | rewrite inflight_spawn, app_nil_r
                         | idtac ];
                   assumption]).
  (* broadcast entered: the site tells which call this is *)
  all: try (solve [pose proof (a_site _ HA _ _ Hl) as Hs0; rewrite Hpc in Hs0; cbn [site_ok] in Hs0;
                   dq_thread t2 th2 Hl2 Hne; [|eapply Heff; eassumption];
                   unfold eff_ok in *; dq_simpl; destruct (t_site th); try discriminate Hs0; exact He0]).
  (* CANCEL / FIRE of a thread that is not parked *)
  all: try (solve [dq_thread t2 th2 Hl2 Hne; [exact (Heff _ _ Hl)|eapply Heff; eassumption]]).
  (* tm_take *)
  all: try (solve [rewrite (inflight_update_same _ _ _ _ _ Hl) by (unfold removed_of, inserted_of, tm_take; destruct (t_tm th); reflexivity);
                   assumption]).
  (* the deferred epilogue returns *)
  all: try (match goal with |- context [fin_log _ _ (t_rv _)] => idtac end;
            destruct (t_rv th) as [| |v| |] eqn:Hrv; try (exfalso; exact He0); cbn [fin_log]; dq_simpl;
            first [ solve [rewrite (inflight_remove_nil _ _ _ _ Hl) by (unfold removed_of, inserted_of; rewrite He0; reflexivity); assumption]
                  | solve [pose proof (inflight_remove removed_of t th _ Hl) as P2; unfold removed_of at 2 in P2; rewrite He0 in P2; cbn [app] in P2;
                           rewrite Hrem, P2; cbn [app]; apply Permutation_app_head, Permutation_middle] ]).
  - (* Enqueue inserts: removed-in-flight unchanged *)
    rewrite (inflight_update_same _ _ _ _ _ Hl) by (unfold removed_of; dq_simpl; rewrite He0; reflexivity).
    rewrite <- app_assoc. cbn [app]. apply Permutation_cons_app. exact Hrem.
  - pose proof (inflight_update inserted_of t th (dset_pc (dset_eff (dset_herr th HNil) Inserted) ESwitch) _ Hl) as P1.
    pose proof (inflight_remove inserted_of t th _ Hl) as P2.
    unfold inserted_of at 1 in P1. unfold inserted_of at 2 in P2. dq_simpl. rewrite He0 in P2. cbn [app] in P1, P2.
    rewrite P1, Hins, P2. apply Permutation_middle.
  - (* Enqueue returns nil *)
    pose proof (inflight_remove inserted_of t th _ Hl) as P2. unfold inserted_of at 2 in P2. rewrite He0 in P2. cbn [app] in P2.
    rewrite Hins, P2. cbn [app]. symmetry. apply Permutation_middle.
  - (* Dequeue removes (first occurrence) *)
    pose proof (inflight_update removed_of t th (dset_pc (dset_site (dset_eff (dset_val th v HNil) (Removed v)) SDeqA) DBcast0) _ Hl) as P1.
    pose proof (inflight_remove removed_of t th _ Hl) as P2.
    unfold removed_of at 1 in P1. unfold removed_of at 2 in P2. dq_simpl. rewrite He0 in P2. cbn [app] in P1, P2.
    destruct (mins_is_min _ _ Hmin) as [Hin _].
    rewrite P1, Hrem, P2, (remove_first_perm v _ Hin) at 1. cbn [app]. apply Permutation_middle.
  - pose proof (inflight_update removed_of t th (dset_pc (dset_site (dset_eff (dset_val th v HNil) (Removed v)) SDeqB) DBcast1) _ Hl) as P1.
    pose proof (inflight_remove removed_of t th _ Hl) as P2.
    unfold removed_of at 1 in P1. unfold removed_of at 2 in P2. dq_simpl. rewrite He0 in P2. cbn [app] in P1, P2.
    destruct (mins_is_min _ _ Hmin) as [Hin _].
    rewrite P1, Hrem, P2, (remove_first_perm v _ Hin) at 1. cbn [app]. apply Permutation_middle.
Qed.

Record invAll (c : dq_cfg) : Prop := { all_a : invA c; all_b : invB c; all_d : invD c; all_c : invC c }.

Lemma invAll_reachable cap old evs c : exec dq_step (dq_init cap old) evs = Some c -> invAll c.
Proof.
  apply (invariant_reachable _ _ dq_step invAll); [|split; [apply invA_init|apply invB_init|apply invD_init|apply invC_init]].
  intros c0 e c1 [HA HB HD HC] Hs. unfold dq_step in Hs.
  destruct (dq_exec1 c0 e) as [[c2 obs]|] eqn:E; [|discriminate].
  injection Hs as <-.
  split; [eapply invA_step; eassumption|eapply invB_step; eassumption|eapply invD_step; eassumption|eapply invC_step; eassumption].
Qed.


(* ---------- C08: exactly-once, return values, context errors ---------- *)
Lemma dq_exactly_once_lemma cap old evs c :
  exec dq_step (dq_init cap old) evs = Some c ->
  Permutation (q_ins c) (q_heap c ++ inflight removed_of (q_thr c) ++ q_out c) /\
  Permutation (q_ins c) (q_okd c ++ inflight inserted_of (q_thr c)).
Proof. intros Hex. destruct (all_c _ (invAll_reachable _ _ _ _ Hex)) as [H1 H2 _]. split; assumption. Qed.

(* at quiescence: inserted = still in the heap + returned, and inserted = arguments of the Enqueues that returned nil *)
Lemma dq_exactly_once_quiescent_lemma cap old evs c :
  exec dq_step (dq_init cap old) evs = Some c -> q_thr c = [] ->
  Permutation (q_ins c) (q_heap c ++ q_out c) /\ Permutation (q_ins c) (q_okd c).
Proof.
  intros Hex Hq. destruct (dq_exactly_once_lemma _ _ _ _ Hex) as [H1 H2]. rewrite Hq in H1, H2. cbn in H1, H2.
  rewrite app_nil_r in H2. split; assumption.
Qed.

(* what a return observation means; which results are possible at all *)
Lemma dq_return_lemma cap old evs c e c' obs tr r :
  exec dq_step (dq_init cap old) evs = Some c ->
  dq_exec1 c e = Some (c', obs) -> In (tr, ORet r) obs ->
  exists th, lookup tr (q_thr c) = Some th /\ lookup tr (q_thr c') = None /\
    match r with
    | RVal v => t_eff th = Removed v /\ q_out c' = v :: q_out c /\ q_okd c' = q_okd c
    | RNil => t_eff th = Inserted /\ q_okd c' = t_el th :: q_okd c /\ q_out c' = q_out c
    | RCtx => t_eff th = NoEff /\ q_out c' = q_out c /\ q_okd c' = q_okd c
    | _ => False
    end /\ q_heap c' = q_heap c /\ q_ins c' = q_ins c.
Proof.
  intros Hex H Hin. destruct (invAll_reachable _ _ _ _ Hex) as [HA [_ HthrB] HD [_ _ Heff]].
  pose proof (a_nodup _ HA) as Hnd.
  dq_cases H.
  all: dq_sym.
  all: cbn [ctx_case after_bcast after_sigch] in *.
  all: dq_nobad HA Hl Hpc.
  all: try (pose proof (HthrB _ _ Hl) as Hb0; unfold thrB in Hb0; rewrite Hpc in Hb0).
  all: dq_noB Hb0.
  all: try (pose proof (Heff _ _ Hl) as He0; unfold eff_ok in He0; rewrite Hpc in He0).
  all: try (solve [exfalso; pose proof (closing_self c t th Hl ltac:(rewrite Hpc; reflexivity)) as Hs;
                   assert (HG : globD c) by (destruct HD; constructor; assumption);
                   pose proof (closing_not_closed _ _ _ HG Hs) as Hn; unfold closedb in Hn; congruence]).
  (* steps without a return observation *)
  all: try (solve [exfalso; cbn [In] in Hin; repeat (destruct Hin as [Hin|Hin]; [discriminate Hin|]); try exact Hin;
                   unfold wake_obs in Hin; apply in_flat_map in Hin; destruct Hin as ([t3 th3] & _ & Hin); cbn [fst snd] in Hin;
                   match type of Hin with context [parked_on ?a ?b ?d] => destruct (parked_on a b d) end; cbn [In] in Hin; first [exact Hin|destruct Hin as [Hin|[]]; discriminate Hin]]).
  all: cbn [In] in Hin; destruct Hin as [Hin|[]]; injection Hin as <- <-.
  all: exists th; split; [exact Hl|]; dq_simpl; dq_cnd; dq_simpl.
  all: (split; [apply lookup_remove_same; exact Hnd|]).
  all: try (destruct (t_rv th) eqn:Hrv; try (exfalso; exact He0)); cbn [fin_log]; dq_simpl.
  all: repeat split; try assumption; try reflexivity.
Qed.

Lemma wake1_eff x g th : t_eff (wake1 x g th) = t_eff th.
Proof. unfold wake1. destruct (parked_on x g th); reflexivity. Qed.

(* the meaning of the effect ghost: it is NoEff when the call starts and changes exactly at the
   statement that changes the heap on behalf of this call *)
Lemma dq_eff_step_lemma c e c' obs tq thq thq' :
  NoDup (tids (q_thr c)) ->
  dq_exec1 c e = Some (c', obs) -> lookup tq (q_thr c) = Some thq -> lookup tq (q_thr c') = Some thq' ->
  (t_eff thq' = t_eff thq /\ (forall k, e = DStep tq k -> q_heap c' = q_heap c)) \/
  (exists k, e = DStep tq k /\ t_eff thq = NoEff /\
     ((t_pc thq = EDo /\ t_eff thq' = Inserted /\ q_heap c' = q_heap c ++ [t_el thq]) \/
      ((t_pc thq = DDeq0 \/ t_pc thq = DDeq1) /\ exists v, t_eff thq' = Removed v /\ In v (mins (q_heap c)) /\
                                                    q_heap c' = remove_first v (q_heap c)))) \/
  (* (cannot happen in a reachable configuration: the statement is reached with NoEff) *)
  (exists k, e = DStep tq k /\ t_eff thq <> NoEff /\ (t_pc thq = EDo \/ t_pc thq = DDeq0 \/ t_pc thq = DDeq1)).
Proof.
  intros Hnd H Hq Hq'.
  dq_cases H.
  all: dq_sym.
  all: dq_simpl; dq_cnd; dq_simpl.
  all: rewrite ?cnd_thr, ?fl_thr in Hq'.
  all: rewrite ?lookup_wake in Hq'.
  all: try (destruct (Nat.eq_dec tq t) as [->|Hne];
            [ rewrite Hl in Hq; first [discriminate Hq|injection Hq as <-];
              first [ rewrite (lookup_update_same _ _ _ _ _ Hl) in Hq' | rewrite lookup_remove_same in Hq' by assumption ];
              cbn [option_map] in Hq'; first [discriminate Hq'|injection Hq' as <-]
            | first [ rewrite (lookup_update_other _ _ _ _ _ Hne) in Hq' | rewrite (lookup_spawn_other _ _ _ _ Hne) in Hq'
                    | rewrite (lookup_remove_other _ _ _ Hne) in Hq' ];
              rewrite Hq in Hq'; cbn [option_map] in Hq'; injection Hq' as <-;
              left; rewrite ?wake1_eff; split; [reflexivity|intros k0 He; first [discriminate He|injection He as -> _; congruence]] ]).
  all: try (solve [left; rewrite ?wake1_eff; unfold tm_take; dq_simpl; split;
                   [try reflexivity; destruct (t_tm th); reflexivity|intros; first [reflexivity|discriminate]]]).
  all: try (solve [rewrite Hq in Hq'; injection Hq' as <-; left; split; [reflexivity|intros k0 He; discriminate He]]).
  1-3: destruct (t_eff th) eqn:Ee;
       [ right; left; exists k; split; [reflexivity|split; [reflexivity|]]
       | right; right; exists k; split; [reflexivity|split; [discriminate|tauto]]
       | right; right; exists k; split; [reflexivity|split; [discriminate|tauto]] ].
  1: left; repeat split; auto.
  1-2: right; split; [tauto|]; exists v; repeat split; auto.
Qed.
