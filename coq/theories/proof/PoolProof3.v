(* Proofs about PoolModel, part 3: the lifecycle history invariant (C11: start_once,
   shutdown_once_between_them, calls_fail_after_shutdown, lifecycle_monotone, no_task_before_start;
   C10: no send on a closed channel, no double close) and the C11 theorems. *)
From Ekit Require Import Common Conc PoolModel PoolProof PoolProof2.
From Coq Require Import ZifyBool Arith PeanoNat.

(* Start between its successful CAS and its return *)
Definition spath_pc (p : ppc) : bool := thold_pc p || match p with StRetNil => true | _ => false end.
(* Shutdown / ShutdownNow between their successful CAS and their return *)
Definition shpath_pc (p : ppc) : bool :=
  match p with
  | ShClose | ShRet | SnClose | SnCancel | SnMake | SnRange | SnAppend | SnRet => true
  | _ => false
  end.
Definition atclose_pc (p : ppc) : bool := match p with ShClose | SnClose => true | _ => false end.

Definition spath (th : thr) : Z := b2z (spath_pc (pc th)).
Definition shpath (th : thr) : Z := b2z (shpath_pc (pc th)).
Definition atclose (th : thr) : Z := b2z (atclose_pc (pc th)).

Lemma wi_spath : wake_inv spath. Proof. unfold spath; wake_tac. Qed.
Lemma wi_shpath : wake_inv shpath. Proof. unfold shpath; wake_tac. Qed.
Lemma wi_atclose : wake_inv atclose. Proof. unfold atclose; wake_tac. Qed.

(* where a call invoked after shutdown can be, and what it then knows about the state word *)
Definition Llate (fc : bool) (s : shared) (th : thr) : Prop :=
  l_late th = true ->
  match pc th with
  | SbWrap => if fc then 3 <= sz (s_state s) <= 4 else False     (* since 4ac6152 every Submit passes the wrap once *)
  | SbChkStopped | StChkStopped | SnChkStopped => sz (s_state s) = 4
  | SbNil | SbRetInvalid | SbFor | SbChkClosing | SbRetClosing | SbRetStopped
  | StFor | StChkClosing | StRetClosing | StRetStopped
  | ShFor | ShChkCreated | ShChkStopped | ShRetStopped | ShChkClosing | ShRetClosing | ShCas
  | SnFor | SnChkCreated | SnChkClosing | SnRetClosing | SnRetStopped => 3 <= sz (s_state s) <= 4
  | _ => False
  end.

Definition zb (b : bool) : Z := if b then 1 else 0.

Record Inv2 (c : pcfg) : Prop := {
  w_began : zb (g_began (c_gh c)) = 0 <->
            (sz (s_state (c_sh c)) = 1 \/
             (sz (s_state (c_sh c)) = 5 /\ sz (s_prev (c_sh c)) = 1 /\ tsum thold (c_thr c) = 0));
  w_starts : g_starts (c_gh c) + tsum spath (c_thr c) = zb (g_began (c_gh c));
  w_down : zb (g_shut (c_gh c)) + zb (g_now (c_gh c)) <= 1 /\
           (zb (g_shut (c_gh c)) + zb (g_now (c_gh c)) = 1 <-> 3 <= sz (s_state (c_sh c)) <= 4);
  w_shuts : g_shuts (c_gh c) + tsum shpath (c_thr c) = zb (g_shut (c_gh c)) + zb (g_now (c_gh c));
  w_closed : zb (s_closed (c_sh c)) + tsum atclose (c_thr c) = zb (g_shut (c_gh c)) + zb (g_now (c_gh c));
  w_late : tall (Llate (i_fixc (c_par c)) (c_sh c)) (c_thr c);
  w_nostart : g_began (c_gh c) = false -> g_started (c_gh c) = [];
  w_counts : 0 <= g_starts (c_gh c) /\ 0 <= g_shuts (c_gh c)
}.

Lemma wo_Llate fc s : wake_ok (Llate fc s).
Proof.
  intros th Hp H. apply is_parked_pc in Hp. unfold Llate in *. rewrite Hp in H.
  unfold recv_ok, recv_closed, recv_int. cbn. repeat split; intros; auto.
Qed.

Lemma Llate_transfer fc s s' l :
  (sz (s_state s) = 4 -> sz (s_state s') = 4) ->
  (3 <= sz (s_state s) <= 4 -> 3 <= sz (s_state s') <= 4) ->
  tall (Llate fc s) l -> tall (Llate fc s') l.
Proof.
  intros H4 H34. apply tall_impl. intros th H Hl. specialize (H Hl). unfold Llate.
  destruct (pc th); auto. destruct fc; auto.
Qed.

Lemma spath_nonneg th : 0 <= spath th. Proof. apply b2z_nonneg. Qed.
Lemma shpath_nonneg th : 0 <= shpath th. Proof. apply b2z_nonneg. Qed.
Lemma atclose_nonneg th : 0 <= atclose th. Proof. apply b2z_nonneg. Qed.
Lemma spath_eq th : spath th = b2z (spath_pc (pc th)). Proof. reflexivity. Qed.
Lemma shpath_eq th : shpath th = b2z (shpath_pc (pc th)). Proof. reflexivity. Qed.
Lemma atclose_eq th : atclose th = b2z (atclose_pc (pc th)). Proof. reflexivity. Qed.

Definition cls2 (p : ppc) := (thold_pc p, spath_pc p, shpath_pc p, atclose_pc p).

(* history events Inv2 does not look at *)
Definition inert_gev (e : gev) : bool :=
  match e with GSent _ | GDone _ | GReturned _ | GAcc _ | GRej _ | GGrace => true | _ => false end.
Definition gh_same (g g' : ghost) : Prop :=
  g_began g' = g_began g /\ g_starts g' = g_starts g /\ g_shuts g' = g_shuts g /\
  g_shut g' = g_shut g /\ g_now g' = g_now g /\ g_started g' = g_started g.
Lemma inert_same l g : forallb inert_gev l = true -> gh_same g (apply_gevs g l).
Proof.
  revert g. induction l as [|e r IH]; intros g; cbn.
  - intros _. repeat split.
  - intros H. apply andb_prop in H. destruct H as [He Hr]. specialize (IH (apply_gev g e) Hr).
    unfold gh_same in *. unfold apply_gevs in IH.
    destruct e; cbn in He; try discriminate; cbn in IH; exact IH.
Qed.

Lemma inv2_frame c t th th' s' c' obs w g :
  Inv2 c -> lookup t (c_thr c) = Some th ->
  apply_out c t (mkOut s' (Some th') None None w g) = Some (c', obs) ->
  forallb inert_gev g = true ->
  s_state s' = s_state (c_sh c) -> s_prev s' = s_prev (c_sh c) -> s_closed s' = s_closed (c_sh c) ->
  cls2 (pc th') = cls2 (pc th) -> Llate (i_fixc (c_par c)) s' th' -> Inv2 c'.
Proof.
  intros [Wb Ws Wd Wsh Wc Wl Wn Wk] Hl Ha Hg Es Ep Ec El HL.
  unfold cls2 in El. injection El as E1 E2 E3 E4.
  pose proof (apply_out_tsum thold c t th _ c' obs wi_thold Hl Ha) as Ethold.
  pose proof (apply_out_tsum spath c t th _ c' obs wi_spath Hl Ha) as Espath.
  pose proof (apply_out_tsum shpath c t th _ c' obs wi_shpath Hl Ha) as Eshpath.
  pose proof (apply_out_tsum atclose c t th _ c' obs wi_atclose Hl Ha) as Eatclose.
  destruct (apply_out_fields c t _ c' obs Ha) as (Fpar & Fsh & _ & Fgh & _).
  cbn [o_th o_spawn o_sh o_gev oget] in *.
  destruct (inert_same g (c_gh c) Hg) as (G1 & G2 & G3 & G4 & G5 & G6). rewrite <- Fgh in *.
  unfold thold, spath, shpath, atclose in Ethold, Espath, Eshpath, Eatclose.
  rewrite E1 in Ethold. rewrite E2 in Espath. rewrite E3 in Eshpath. rewrite E4 in Eatclose.
  fold thold in Ethold. fold spath in Espath. fold shpath in Eshpath. fold atclose in Eatclose.
  assert (A1 : tsum thold (c_thr c') = tsum thold (c_thr c)) by (clear - Ethold; lia).
  assert (A2 : tsum spath (c_thr c') = tsum spath (c_thr c)) by (clear - Espath; lia).
  assert (A3 : tsum shpath (c_thr c') = tsum shpath (c_thr c)) by (clear - Eshpath; lia).
  assert (A4 : tsum atclose (c_thr c') = tsum atclose (c_thr c)) by (clear - Eatclose; lia).
  constructor; rewrite ?Fpar, ?Fsh, ?G1, ?G2, ?G3, ?G4, ?G5, ?G6, ?Es, ?Ep, ?Ec, ?A1, ?A2, ?A3, ?A4; auto.
  eapply apply_out_tall; [ | | exact Ha | | ].
  - apply wo_Llate.
  - apply (Llate_transfer _ (c_sh c)); [rewrite Es; auto|rewrite Es; auto|exact Wl].
  - cbn [o_th]. intros x E; injection E as <-. exact HL.
  - cbn [o_spawn]. intros x E; discriminate E.
Qed.

Lemma inv2_frame_exit c t th s' r c' obs w g :
  Inv2 c -> lookup t (c_thr c) = Some th ->
  apply_out c t (mkOut s' None r None w g) = Some (c', obs) ->
  forallb inert_gev g = true ->
  s_state s' = s_state (c_sh c) -> s_prev s' = s_prev (c_sh c) -> s_closed s' = s_closed (c_sh c) ->
  cls2 (pc th) = (false, false, false, false) -> Inv2 c'.
Proof.
  intros [Wb Ws Wd Wsh Wc Wl Wn Wk] Hl Ha Hg Es Ep Ec El.
  unfold cls2 in El. injection El as E1 E2 E3 E4.
  pose proof (apply_out_tsum thold c t th _ c' obs wi_thold Hl Ha) as Ethold.
  pose proof (apply_out_tsum spath c t th _ c' obs wi_spath Hl Ha) as Espath.
  pose proof (apply_out_tsum shpath c t th _ c' obs wi_shpath Hl Ha) as Eshpath.
  pose proof (apply_out_tsum atclose c t th _ c' obs wi_atclose Hl Ha) as Eatclose.
  destruct (apply_out_fields c t _ c' obs Ha) as (Fpar & Fsh & _ & Fgh & _).
  cbn [o_th o_spawn o_sh o_gev oget] in *.
  destruct (inert_same g (c_gh c) Hg) as (G1 & G2 & G3 & G4 & G5 & G6). rewrite <- Fgh in *.
  unfold thold, spath, shpath, atclose in Ethold, Espath, Eshpath, Eatclose.
  rewrite E1 in Ethold. rewrite E2 in Espath. rewrite E3 in Eshpath. rewrite E4 in Eatclose.
  fold thold in Ethold. fold spath in Espath. fold shpath in Eshpath. fold atclose in Eatclose. cbn [b2z] in *.
  assert (A1 : tsum thold (c_thr c') = tsum thold (c_thr c)) by (clear - Ethold; lia).
  assert (A2 : tsum spath (c_thr c') = tsum spath (c_thr c)) by (clear - Espath; lia).
  assert (A3 : tsum shpath (c_thr c') = tsum shpath (c_thr c)) by (clear - Eshpath; lia).
  assert (A4 : tsum atclose (c_thr c') = tsum atclose (c_thr c)) by (clear - Eatclose; lia).
  constructor; rewrite ?Fpar, ?Fsh, ?G1, ?G2, ?G3, ?G4, ?G5, ?G6, ?Es, ?Ep, ?Ec, ?A1, ?A2, ?A3, ?A4; auto.
  eapply apply_out_tall; [ | | exact Ha | | ].
  - apply wo_Llate.
  - apply (Llate_transfer _ (c_sh c)); [rewrite Es; auto|rewrite Es; auto|exact Wl].
  - cbn [o_th]. intros x E; discriminate E.
  - cbn [o_spawn]. intros x E; discriminate E.
Qed.

Ltac llate_tac HJ Hl Epc :=
  let Lth := fresh "Lth" in let Hlate := fresh "Hlate" in
  pose proof (tall_lookup _ _ _ _ (w_late _ HJ) Hl) as Lth;
  unfold Llate in Lth |- *; rewrite Epc in Lth; cbn in Lth |- *;
  intros Hlate; specialize (Lth Hlate); eqb_facts;
  first [ exact Lth | contradiction | (clear HJ; lia) ].

Ltac frame2_tac HJ Hl Ha Epc :=
  first
  [ eapply (inv2_frame _ _ _ _ _ _ _ _ _ HJ Hl Ha);
    [ reflexivity | reflexivity | reflexivity | reflexivity
    | cbn [pc goto]; rewrite Epc; reflexivity
    | llate_tac HJ Hl Epc ]
  | eapply (inv2_frame_exit _ _ _ _ _ _ _ _ _ HJ Hl Ha);
    [ reflexivity | reflexivity | reflexivity | reflexivity | rewrite Epc; reflexivity ] ].

Lemma inv2_step_pstep P c t th ch o c' obs :
  pvalid P -> Inv P c -> Inv2 c -> lookup t (c_thr c) = Some th ->
  pstep (c_par c) (parked_of (c_thr c)) (c_sh c) th ch = Some o ->
  apply_out c t o = Some (c', obs) -> Inv2 c'.
Proof.
  intros HV HI HJ Hl Hp Ha.
  pose proof (v_par _ _ HI) as Vpar. rewrite Vpar in Hp.
  pstep_split Hp Epc.
  all: unfold unwind, back in Ha.
  all: ifs_in Ha.
  all: try solve [frame2_tac HJ Hl Ha Epc].
  (*SELECT*)
  all: destruct HI as [_ Vhold Vlock Vprev Vloc _ _ _ Vpre Vcr Vlcr].
  all: destruct HJ as [Wb Ws Wd Wsh Wc Wl Wn Wk].
  all: rewrite Vpar in Wl.
  all: pose proof (apply_out_tsum thold c t th _ c' obs wi_thold Hl Ha) as Ethold.
  all: pose proof (apply_out_tsum spath c t th _ c' obs wi_spath Hl Ha) as Espath.
  all: pose proof (apply_out_tsum shpath c t th _ c' obs wi_shpath Hl Ha) as Eshpath.
  all: pose proof (apply_out_tsum atclose c t th _ c' obs wi_atclose Hl Ha) as Eatclose.
  all: destruct (apply_out_fields c t _ c' obs Ha) as (Fpar & Fsh & _ & Fgh & _).
  all: pose proof (tall_lookup _ _ _ _ Vprev Hl) as Pth.
  all: pose proof (tall_lookup _ _ _ _ Vloc Hl) as Lth.
  all: pose proof (tall_lookup _ _ _ _ Wl Hl) as Tth.
  all: pose proof (tsum_ge_lookup hold t _ th hold_nonneg Hl) as Gh.
  all: pose proof (tsum_ge_lookup wany t _ th wany_nonneg Hl) as Gwany.
  all: pose proof (tsum_ge_lookup thold t _ th thold_nonneg Hl) as Gthold.
  all: pose proof (tsum_ge_lookup atclose t _ th atclose_nonneg Hl) as Gatclose.
  all: pose proof (tsum_others_le thold hold t _ th le_thold_hold Hl) as Othold.
  all: pose proof (tsum_nonneg hold (c_thr c) hold_nonneg) as Nh.
  all: pose proof (tsum_nonneg thold (c_thr c) thold_nonneg) as Nth.
  all: pose proof (tsum_nonneg wany (c_thr c) wany_nonneg) as Nwany.
  all: pose proof (tsum_nonneg atclose (c_thr c) atclose_nonneg) as Natc.
  all: pose proof (sz_range (s_state (c_sh c))) as Rst.
  all: pose proof (sz_range (s_prev (c_sh c))) as Rpv.
  all: cbn [o_th o_spawn o_sh o_gev oget apply_gevs fold_left apply_gev] in *.
  all: rewrite ?hold_eq, ?thold_eq, ?wany_eq, ?spath_eq, ?shpath_eq, ?atclose_eq in *.
  all: unfold Lprev, Lloc, Llate, want', unlock_state in *.
  all: rewrite ?Epc in *.
  all: cbn in Ethold, Espath, Eshpath, Eatclose, Pth, Lth, Tth, Gh, Gwany, Gthold, Gatclose, Othold.
  all: try (specialize (Pth eq_refl)).
  all: try match type of Pth with false = true -> _ => clear Pth end.
  all: ifs_in Fsh.
  all: eqb_facts.
  all: rewrite ?sz_want in *.
  all: try match goal with H : context [if l_second ?x then _ else _] |- _ => destruct (l_second x) eqn:Esec end.
  all: repeat match goal with H : s_closed _ = _ |- _ => rewrite H in * end; cbn [zb] in *.
  all: try (exfalso; clear - Wc Wd Gatclose Natc; lia).
  all: try (exfalso; clear - Wc Wd Natc Vlock Gh Vhold Nh; lia).
  all: assert (Zb1 : 0 <= zb (g_began (c_gh c)) <= 1) by (destruct (g_began (c_gh c)); cbn; lia).
  all: assert (Zb2 : 0 <= zb (g_shut (c_gh c)) <= 1) by (destruct (g_shut (c_gh c)); cbn; lia).
  all: assert (Zb3 : 0 <= zb (g_now (c_gh c)) <= 1) by (destruct (g_now (c_gh c)); cbn; lia).
  all: assert (Zb4 : 0 <= zb (s_closed (c_sh c)) <= 1) by (destruct (s_closed (c_sh c)); cbn; lia).
  all: assert (Zb5 : g_began (c_gh c) = false -> zb (g_began (c_gh c)) = 0) by (intros X; rewrite X; reflexivity).
  all: clear Vprev Vloc Hl Lth.
  all: assert (Hlate_tr : (sz (s_state (c_sh c)) = 4 -> sz (s_state (c_sh c')) = 4) /\
                          (3 <= sz (s_state (c_sh c)) <= 4 -> 3 <= sz (s_state (c_sh c')) <= 4))
       by (rewrite Fsh; shcbn; rewrite ?sz_want; repeat match goal with H : l_second _ = _ |- _ => rewrite H end;
           clear Ha Wl Wn Wb Wd Vpre Vcr Vlcr Zb5 Ws Wsh Wc; lia).
  all: constructor; rewrite ?Fpar, ?Vpar, ?Fsh, ?Fgh;
       cbn [g_sent g_started g_done g_returned g_acc g_rej g_starts g_shuts g_now g_grace g_began g_shut
            gs_sent gs_started gs_done gs_returned gs_acc gs_rej gs_starts gs_shuts gs_now gs_grace gs_began gs_shut];
       shcbn; cbn [zb]; rewrite ?sz_want;
       repeat match goal with H : l_second _ = _ |- _ => rewrite H end;
  [ clear Ha Wl Wn Wd Vpre Vcr Vlcr Zb5 Ws Wsh Wc Hlate_tr Tth; lia
  | clear Ha Wl Wn Wd Vpre Vcr Vlcr Zb5 Wsh Wc Hlate_tr Tth Vlock; lia
  | clear Ha Wl Wn Wb Vpre Vcr Vlcr Zb5 Ws Wsh Wc Hlate_tr Tth Vlock; lia
  | clear Ha Wl Wn Wb Vpre Vcr Vlcr Zb5 Ws Wc Hlate_tr Tth Vlock; lia
  | clear Ha Wl Wn Wb Vpre Vcr Vlcr Zb5 Ws Wsh Hlate_tr Tth Vlock; lia
  | eapply apply_out_tall; [ | | exact Ha | | ];
    [ apply wo_Llate
    | apply (Llate_transfer _ (c_sh c)); [first [(intros X; exact X) | (rewrite <- Fsh; apply Hlate_tr)] | first [(intros X; exact X) | (rewrite <- Fsh; apply Hlate_tr)] | exact Wl]
    | cbn [o_th]; intros x E; first [discriminate E | injection E as <-; unfold Llate; cbn; intros Hlate; specialize (Tth Hlate);
         first [exact Tth | contradiction | (shcbn; clear Ha Wl Wn Wb Wd Vpre Vcr Vlcr Zb5 Ws Wsh Wc Hlate_tr; lia)]]
    | cbn [o_spawn]; intros x E; first [discriminate E | injection E as <-; unfold Llate; cbn; intros X; discriminate X] ]
  | first [ exact Wn | (intros X; discriminate X)
          | (intros X; exfalso; specialize (Zb5 X); clear Ha Wl Wn Wd Ws Wsh Wc Hlate_tr Tth Vpre; lia) ]
  | clear Ha Wl Wn Wb Wd Vpre Vcr Vlcr Zb5 Ws Wsh Wc Hlate_tr Tth Vlock; lia ].
Qed.

(* ---------------------------------------------------------------- the other events *)
Lemma inv2_update c t th th' :
  Inv2 c -> lookup t (c_thr c) = Some th ->
  cls2 (pc th') = cls2 (pc th) -> Llate (i_fixc (c_par c)) (c_sh c) th' ->
  Inv2 (with_thr c (update t th' (c_thr c))).
Proof.
  intros HJ Hl E1 E2.
  eapply (inv2_frame c t th th' (c_sh c) _ _ WkNone [] HJ Hl (apply_out_update c t th')); auto.
Qed.

Lemma Llate_same_pc fc s th th' :
  pc th' = pc th -> l_late th' = l_late th -> Llate fc s th -> Llate fc s th'.
Proof. unfold Llate. intros -> ->. auto. Qed.

Lemma is_down_sz s : is_down s = true -> 3 <= sz (s_state s) <= 4.
Proof. unfold is_down. destruct (s_state s); cbn; intros; try discriminate; lia. Qed.

Lemma inv2_init P : Inv2 (pinit P).
Proof.
  constructor; cbn; try reflexivity; try lia; try constructor; try tauto; try lia.
Qed.

Lemma inv2_step P c e c' : pvalid P -> Inv P c -> Inv2 c -> pstep_cfg c e = Some c' -> Inv2 c'.
Proof.
  intros HV HI HJ Hs. apply pstep_cfg_inv in Hs. destruct e as [t op|t ch|t|t|t].
  - (* PCall *)
    destruct Hs as (Hl & Hb & -> & Hid).
    destruct HJ as [Wb Ws Wd Wsh Wc Wl Wn Wk].
    assert (Hz : forall g, (forall op, g (enter (c_sh c) op) = 0) ->
                 tsum g (spawn t (enter (c_sh c) op) (c_thr c)) = tsum g (c_thr c)).
    { intros g Hg. rewrite tsum_spawn, Hg. lia. }
    constructor; cbn [c_par c_sh c_thr c_gh];
      rewrite ?(Hz thold), ?(Hz spath), ?(Hz shpath), ?(Hz atclose);
      auto; try (intros o; destruct o; reflexivity).
    apply tall_spawn; [exact Wl|]. unfold Llate, enter. cbn [l_late set_late].
    intros Hd. apply is_down_sz in Hd. destruct op; cbn; exact Hd.
  - (* PStep *)
    destruct Hs as (th & o & obs & Hl & Hp & Ha). eapply inv2_step_pstep; eauto.
  - (* PCancel *)
    destruct Hs as (th & Hl & _ & ->).
    apply (inv2_update c t th); auto.
    eapply Llate_same_pc; [| |exact (tall_lookup _ _ _ _ (w_late _ HJ) Hl)]; reflexivity.
  - (* PFire *)
    destruct Hs as (th & Hl & _ & ->).
    destruct (is_parked th) eqn:Ep.
    + apply is_parked_pc in Ep. apply (inv2_update c t th); auto.
      * cbn. rewrite Ep. reflexivity.
      * pose proof (tall_lookup _ _ _ _ (w_late _ HJ) Hl) as Lth. unfold Llate in *. rewrite Ep in Lth. cbn. exact Lth.
    + apply (inv2_update c t th); auto.
      eapply Llate_same_pc; [| |exact (tall_lookup _ _ _ _ (w_late _ HJ) Hl)]; reflexivity.
  - (* PFinish *)
    destruct Hs as (th & obs & Hl & Epc & Ha).
    eapply (inv2_frame c t th _ _ _ _ _ _ HJ Hl Ha); try reflexivity.
    + cbn. rewrite Epc. reflexivity.
    + pose proof (tall_lookup _ _ _ _ (w_late _ HJ) Hl) as Lth. unfold Llate in *. rewrite Epc in Lth. cbn. exact Lth.
Qed.

Theorem inv12_reach P c : pvalid P -> preach P c -> Inv P c /\ Inv2 c.
Proof.
  intros HV. revert c. apply (preach_ind P (fun c => Inv P c /\ Inv2 c)).
  - split; [apply inv_init, HV|apply inv2_init].
  - intros c0 e c1 [H1 H2] Hs. split; [eapply inv_step; eauto|eapply inv2_step; eauto].
Qed.
