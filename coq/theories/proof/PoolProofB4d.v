(* PoolModel (pool.OnDemandBlockTaskPool), proofs for C12 / liveness side of C10 - B4d: totalGo counts the workers that have not executed their decrement (plus creations in
   progress); timeoutGroup.n counts the effective members; an armed / fired idle timer belongs to a member.  Definitions *)
From Ekit Require Import Common Conc PoolModel PoolProofB0 PoolProofB1 PoolProofB2d PoolProofB2bd PoolProofB3d.
From Coq Require Import ZifyBool Arith PeanoNat.

(* workers that have not executed their decrement of totalGo *)
Definition g_cnt (p : ppc) : Z :=
  match p with
  | WIdUnlock | WIntRet
  | WTmLeft | WTmDel | TdLock | TdDefer | TdIf | TdDec | TdDelete | WTmUnlock | WTmIfLeft | WTmCas | WTmCancel | WTmRet
  | CdUnlock | WClIfNum | NgRLock | NgRead | NgRUnlock | NgRet | WClCas | WClCancel | WClRet
  | WBkUnlock1 | WBkRet => 0
  | _ => g_wk p end.
(* creations already added to totalGo whose `go` statement has not run yet *)
Definition pend (x : thr) : Z :=
  match pc x with
  | SiUnlock | TsId | TsGo => 1
  | TiUnlock | StLoop => l_n x
  | StGo => l_n x - l_a x
  | _ => 0 end.
Definition start_bad (P : params) (x : thr) : Z :=
  let i := i_init P in let m := i_max P in
  let ok := match pc x with
    | NcAllow => l_n x =? i
    | NcNeed | NcIf1 | NcAddAllow => (l_n x =? i) && (l_a x =? m - i)
    | NcIf2 => (l_n x =? i) && (l_a x =? m - i) && (0 <? l_b x)
    | NcAddNeed => (l_n x =? i) && (0 <? l_b x)
    | NcRet | StInc | TiLock | TiAdd | TiUnlock | StLoop => i <=? l_n x
    | StGo => (i <=? l_n x) && (0 <=? l_a x) && (l_a x <? l_n x)
    | _ => true end in
  if ok then 0 else 1.
Arguments pend x /.
Arguments start_bad P x /.

Definition in_group_pc (p : ppc) : bool := match p with GaInc | RdDelete | TdDelete => false | _ => true end.
Definition ing (mp : list Z) (x : thr) : Z :=
  if zmem (l_wid x) mp then (if in_group_pc (pc x) then g_wk (pc x) else 0) else 0.
Definition cnt_ning (mp : list Z) (x : thr) : Z :=
  if zmem (l_wid x) mp then (if in_group_pc (pc x) then 0 else g_cnt (pc x)) else g_cnt (pc x).
Definition g_nz (p : ppc) : Z :=
  match p with
  | WNewTimer | WStop0 | WDrain0 | WFor | WStop1 | WDrain1 | WIfNotOk
  | WClDec | CdLock | CdSub | CdUnlock | WClIfNum | NgRLock | NgRead | NgRUnlock | NgRet | WClCas | WClCancel | WClRet
  | WRunInc | WRun | RwDefer | RwRet | TfRet | WUser | RwRecIf | RwBuf | RwStack | RwErr | WRunDec
  | WBkLock | WBkNoTasks | WBkIf1 | Z1RLock | Z1Defer | Z1Ret | WBkDecr | WBkUnlock1 | WBkRet
  | WBkIf2 | Z2RLock | Z2Defer | Z2Ret | WBkNewTimer | WBkAdd | GaLock | GaDefer | GaIf | GaSet
  | WTmUnlock | WTmIfLeft | WTmCas | WTmCancel | WTmRet => 1
  | _ => 0 end.
Definition badnz (mp : list Z) (x : thr) : Z :=
  if zmem (l_wid x) mp then (match pc x with IiRet => if l_flag x then 0 else 1 | p => g_nz p end) else 0.
Definition tm_dead (x : thr) : bool := match l_tm x with TmDead => true | _ => false end.
Arguments tm_dead x /.
Definition g_tmset (p : ppc) : Z :=
  match p with WSelect | WParked | WCaseQueue | WCaseInt | WIfIsIn | IiRLock | IiDefer | IiLookup | IiRet | WBkUnlock2 => 1 | _ => 0 end.
Definition g_mustz (p : ppc) : Z :=
  match p with GaInc | RdDec | WCaseTimer | WTmLock | WTmDecr | WTmLeft | WTmDel | TdLock | TdDefer | TdIf | TdDec => 1 | _ => 0 end.
Definition badz (mp : list Z) (x : thr) : Z :=
  if zmem (l_wid x) mp then 0 else (if tm_dead x then g_mustz (pc x) else g_mustz (pc x) + g_tmset (pc x)).
Definition g_deadset (p : ppc) : Z :=
  match p with
  | WFor | WIfNotOk
  | WClDec | CdLock | CdSub | CdUnlock | WClIfNum | NgRLock | NgRead | NgRUnlock | NgRet | WClCas | WClCancel | WClRet
  | WRunInc | WRun | RwDefer | RwRet | TfRet | WUser | RwRecIf | RwBuf | RwStack | RwErr | WRunDec
  | WBkLock | WBkNoTasks | WBkIf1 | Z1RLock | Z1Defer | Z1Ret | WBkDecr | WBkUnlock1 | WBkRet
  | WBkIf2 | Z2RLock | Z2Defer | Z2Ret | WBkNewTimer => 1 | _ => 0 end.
Definition baddead (x : thr) : Z := if tm_dead x then 0 else g_deadset (pc x).
Definition g_drain (p : ppc) : Z := match p with WDrain0 | WDrain1 => 1 | _ => 0 end.
Definition baddrain (x : thr) : Z := match l_tm x with TmFired => 0 | _ => g_drain (pc x) end.
Arguments ing mp x /.
Arguments cnt_ning mp x /.
Arguments badnz mp x /.
Arguments badz mp x /.
Arguments baddead x /.
Arguments baddrain x /.

Lemma g_cnt_nn p : 0 <= g_cnt p. Proof. destruct p; cbn; lia. Qed.
Lemma g_nz_nn p : 0 <= g_nz p. Proof. destruct p; cbn; lia. Qed.
Lemma g_tmset_nn p : 0 <= g_tmset p. Proof. destruct p; cbn; lia. Qed.
Lemma g_mustz_nn p : 0 <= g_mustz p. Proof. destruct p; cbn; lia. Qed.
Lemma g_deadset_nn p : 0 <= g_deadset p. Proof. destruct p; cbn; lia. Qed.
Lemma g_drain_nn p : 0 <= g_drain p. Proof. destruct p; cbn; lia. Qed.
Lemma start_bad_nn P x : 0 <= start_bad P x.
Proof. cbn [start_bad]. match goal with |- 0 <= (if ?b then _ else _) => destruct b end; lia. Qed.
Lemma ing_nn mp x : 0 <= ing mp x.
Proof. cbn [ing]. pose proof (g_wk_nn (pc x)). destruct (zmem (l_wid x) mp); destruct (in_group_pc (pc x)); lia. Qed.
Lemma cnt_ning_nn mp x : 0 <= cnt_ning mp x.
Proof. cbn [cnt_ning]. pose proof (g_cnt_nn (pc x)). destruct (zmem (l_wid x) mp); destruct (in_group_pc (pc x)); lia. Qed.
Lemma badnz_nn mp x : 0 <= badnz mp x.
Proof. cbn [badnz]. pose proof (g_nz_nn (pc x)). destruct (zmem (l_wid x) mp); [|lia]. destruct (pc x); try lia. destruct (l_flag x); lia. Qed.
Lemma badz_nn mp x : 0 <= badz mp x.
Proof. cbn [badz]. pose proof (g_mustz_nn (pc x)). pose proof (g_tmset_nn (pc x)). destruct (zmem (l_wid x) mp); destruct (tm_dead x); lia. Qed.
Lemma baddead_nn x : 0 <= baddead x.
Proof. cbn [baddead]. pose proof (g_deadset_nn (pc x)). destruct (tm_dead x); lia. Qed.
Lemma baddrain_nn x : 0 <= baddrain x.
Proof. cbn [baddrain]. pose proof (g_drain_nn (pc x)). destruct (l_tm x); lia. Qed.

Lemma pend_wake : forall w, wake_ok pend w. Proof. wake_ok_tac. Qed.
Lemma start_bad_wake P : forall w, wake_ok (start_bad P) w. Proof. wake_ok_tac. Qed.
Lemma ing_wake mp : forall w, wake_ok (ing mp) w. Proof. wake_ok_tac. Qed.
Lemma cnt_ning_wake mp : forall w, wake_ok (cnt_ning mp) w. Proof. wake_ok_tac. Qed.
Lemma badnz_wake mp : forall w, wake_ok (badnz mp) w. Proof. wake_ok_tac. Qed.
Lemma badz_wake mp : forall w, wake_ok (badz mp) w. Proof. wake_ok_tac. Qed.
Lemma baddead_wake : forall w, wake_ok baddead w. Proof. wake_ok_tac. Qed.
Lemma baddrain_wake : forall w, wake_ok baddrain w. Proof. wake_ok_tac. Qed.

Record invG (c : pcfg) : Prop := {
  d_total : s_total (c_sh c) = tsum (pcf g_cnt) (c_thr c) + tsum pend (c_thr c);
  d_start : tsum (start_bad (c_par c)) (c_thr c) = 0;
  g_gn : s_ictx (c_sh c) = true \/ s_gn (c_sh c) = tsum (ing (s_mp (c_sh c))) (c_thr c);
  g_nzero : tsum (badnz (s_mp (c_sh c))) (c_thr c) = 0;
  g_zin : tsum (badz (s_mp (c_sh c))) (c_thr c) = 0;
  g_dead : tsum baddead (c_thr c) = 0;
  g_drains : tsum baddrain (c_thr c) = 0
}.

Lemma invG_init P : invG (pinit P).
Proof. constructor; cbn; try reflexivity. right; reflexivity. Qed.
Definition invG_G (P : params) (g : ghost) (l : list (tid * thr)) (th : thr) (o : pout) : Prop :=
  ((s_total (o_sh o) = upd (tsum (pcf g_cnt) l) ((pcf g_cnt) th) (oz (pcf g_cnt) (o_th o)) (oz (pcf g_cnt) (o_spawn o)) + upd (tsum pend l) (pend th) (oz pend (o_th o)) (oz pend (o_spawn o))) /\
   (upd (tsum (start_bad P) l) ((start_bad P) th) (oz (start_bad P) (o_th o)) (oz (start_bad P) (o_spawn o)) = 0) /\
   (s_ictx (o_sh o) = true \/ s_gn (o_sh o) = upd (tsum (ing (s_mp (o_sh o))) l) ((ing (s_mp (o_sh o))) th) (oz (ing (s_mp (o_sh o))) (o_th o)) (oz (ing (s_mp (o_sh o))) (o_spawn o))) /\
   (upd (tsum (badnz (s_mp (o_sh o))) l) ((badnz (s_mp (o_sh o))) th) (oz (badnz (s_mp (o_sh o))) (o_th o)) (oz (badnz (s_mp (o_sh o))) (o_spawn o)) = 0) /\
   (upd (tsum (badz (s_mp (o_sh o))) l) ((badz (s_mp (o_sh o))) th) (oz (badz (s_mp (o_sh o))) (o_th o)) (oz (badz (s_mp (o_sh o))) (o_spawn o)) = 0) /\
   (upd (tsum baddead l) (baddead th) (oz baddead (o_th o)) (oz baddead (o_spawn o)) = 0) /\
   (upd (tsum baddrain l) (baddrain th) (oz baddrain (o_th o)) (oz baddrain (o_spawn o)) = 0)).

Lemma invG_of_G c t th o c' obs :
  lookup t (c_thr c) = Some th -> apply_out c t o = Some (c', obs) ->
  invG_G (c_par c) (c_gh c) (c_thr c) th o -> invG c'.
Proof.
  intros Hl Ha G. unfold invG_G in G. destruct (apply_out_fields _ _ _ _ _ Ha) as (Hp & Hsh & Hgh & Hnt).
  destruct G as (G0 & G1 & G2 & G3 & G4 & G5 & G6).
  constructor; intros; rewrite ?Hp, ?Hsh, ?Hgh in *;
    try rewrite (tsum_step (pcf g_cnt) c t th o c' obs Hl ((pcf_wake_ok g_cnt eq_refl eq_refl) (o_wake o)) Ha);
    try rewrite (tsum_step pend c t th o c' obs Hl (pend_wake (o_wake o)) Ha);
    try rewrite (tsum_step (start_bad (c_par c)) c t th o c' obs Hl ((start_bad_wake (c_par c)) (o_wake o)) Ha);
    try rewrite (tsum_step (ing (s_mp (o_sh o))) c t th o c' obs Hl ((ing_wake (s_mp (o_sh o))) (o_wake o)) Ha);
    try rewrite (tsum_step (badnz (s_mp (o_sh o))) c t th o c' obs Hl ((badnz_wake (s_mp (o_sh o))) (o_wake o)) Ha);
    try rewrite (tsum_step (badz (s_mp (o_sh o))) c t th o c' obs Hl ((badz_wake (s_mp (o_sh o))) (o_wake o)) Ha);
    try rewrite (tsum_step baddead c t th o c' obs Hl (baddead_wake (o_wake o)) Ha);
    try rewrite (tsum_step baddrain c t th o c' obs Hl (baddrain_wake (o_wake o)) Ha);
    first [assumption | solve [auto]].
Qed.
