(* Pointer-level red-black tree: findNode, findSuccessor, deleteNode and the public Delete / Find / Set
   against RBModel.delete / find / set. *)
From Ekit Require Import Common RBModel RBPtrModel RBPtrProof RBPtrProof2 RBPtrProof3 RBPtrProof4 RBPtrProof5 RBPtrProof6.
From Coq Require Import Arith.

Lemma cfg_unplug h rt ctx m t : cfg h rt ctx (iplug m t) -> cfg h rt (m ++ ctx) t.
Proof.
  revert t. induction m as [|f m IH]; intros t H; [exact H|].
  rewrite iplug_cons in H. cbn [app]. apply cfg_down. apply IH. exact H.
Qed.
Lemma cfg_replug h rt ctx m t : cfg h rt (m ++ ctx) t -> cfg h rt ctx (iplug m t).
Proof.
  revert t. induction m as [|f m IH]; intros t H; [exact H|].
  rewrite iplug_cons. apply IH. apply cfg_up. exact H.
Qed.
Lemma same_app_nil a b : same (a ++ b) [] -> a = [] /\ b = [].
Proof.
  intro H. split; apply same_nil_r; intro j; split; try (intros []); intro Hj; apply (H j); apply in_or_app; [left|right]; exact Hj.
Qed.
Lemma phs_iplug_nil ctx t : phs (iplug ctx t) = [] -> phs t = [] /\ cphs ctx = [].
Proof. intro H. apply same_app_nil. rewrite <- H. apply same_sym. apply phs_iplug. Qed.
Lemma phs_iplug_nil_intro ctx t : phs t = [] -> cphs ctx = [] -> phs (iplug ctx t) = [].
Proof. intros H1 H2. apply same_nil_r. eapply same_trans; [apply phs_iplug|]. rewrite H1, H2. apply same_refl. Qed.

Lemma phs_sub_ids t : incl (phs t) (ids t).
Proof.
  induction t as [|i k v|i c l IHl k v r IHr]; cbn [phs ids]; intros j Hj; [exact Hj|exact Hj|].
  right. apply in_or_app. apply in_app_or in Hj. destruct Hj as [Hj|Hj]; [left; apply IHl|right; apply IHr]; exact Hj.
Qed.
Lemma cphs_sub_cids ctx : incl (cphs ctx) (cids ctx).
Proof.
  induction ctx as [|f rest IH]; cbn [cphs cids]; intros j Hj; [exact Hj|].
  right. apply in_or_app. apply in_app_or in Hj. destruct Hj as [Hj|Hj]; [left; apply phs_sub_ids|right; apply IH]; exact Hj.
Qed.
(* the path to a phantom *)
Lemma phs_focus n t : In n (phs t) -> exists m k v, t = iplug m (IP n k v).
Proof.
  induction t as [|i k v|i c l IHl k v r IHr]; cbn [phs]; intro Hn.
  - destruct Hn.
  - destruct Hn as [<-|[]]. exists [], k, v. reflexivity.
  - apply in_app_or in Hn. destruct Hn as [Hn|Hn].
    + destruct (IHl Hn) as (m & k0 & v0 & ->). exists (m ++ [IFL i c k v r]), k0, v0. rewrite iplug_app. reflexivity.
    + destruct (IHr Hn) as (m & k0 & v0 & ->). exists (m ++ [IFR i c l k v]), k0, v0. rewrite iplug_app. reflexivity.
Qed.

Lemma col_iplug_indep ctx t t' : icol t = icol t' -> col (erase (iplug ctx t)) = col (erase (iplug ctx t')).
Proof.
  revert t t'. induction ctx as [|f rest IH]; intros t t' H; [cbn [iplug]; rewrite !col_erase; exact H|].
  rewrite !iplug_cons. apply IH. destruct f; reflexivity.
Qed.
Lemma height_iplug_indep ctx t t' : height (erase t) = height (erase t') ->
  height (erase (iplug ctx t)) = height (erase (iplug ctx t')).
Proof.
  revert t t'. induction ctx as [|f rest IH]; intros t t' H; [exact H|].
  rewrite !iplug_cons. apply IH. destruct f; cbn [iplug1 erase height]; rewrite H; reflexivity.
Qed.

Section Del.
  Variable cmp : Z -> Z -> Z.

  (* ---------- findNode ---------- *)
  Lemma findNode_loop_spec k : forall t ctx fuel h rt sz nx cl,
    cfg h rt ctx t -> phs t = [] -> (height (erase t) < fuel)%nat ->
    exists r, findNode_loop cmp fuel k (rid t) (mkst h rt sz nx cl)
              = ROk r (mkst h rt sz nx (cmp_calls cmp k (erase t) + cl)%nat) /\
      match r with
      | None => find cmp k (erase t) = None /\ del cmp k (erase t) = None /\ (forall v, set cmp k v (erase t) = None)
      | Some i => exists ctx' c l k' v' r', r = Some i /\
                    t = iplug ctx' (IT i c l k' v' r') /\ path_ok cmp k (ectx ctx') /\ here cmp k k' /\
                    cfg h rt (ctx' ++ ctx) (IT i c l k' v' r')
      end.
  Proof.
    induction t as [|i k0 v0|i c0 l IHl k' v' r IHr]; intros ctx fuel h rt sz nx cl H Hph Hfuel.
    - destruct fuel as [|fuel]; [cbn in Hfuel; lia|]. exists None. split; [reflexivity|]. cbn. auto.
    - cbn in Hph. discriminate.
    - cbn [phs] in Hph. apply app_eq_nil in Hph. destruct Hph as [Hpl Hpr].
      destruct fuel as [|fuel]; [cbn in Hfuel; lia|]. cbn [erase height] in Hfuel.
      pose proof H as H0. destruct H0 as (_ & Hr & _). cbn [irep] in Hr. destruct Hr as (Hi & _ & _).
      cbn [findNode_loop rid isnil]. unfold compare. munfold. mrun. cbn [cmp_calls erase].
      destruct (cmp k k' <? 0) eqn:Hlt.
      + mrun. destruct (IHl (IFL i c0 k' v' r :: ctx) fuel h rt sz nx (S cl)) as (res & Hrun & Hres);
          [apply cfg_down; exact H|exact Hpl|lia|].
        exists res. split; [rewrite Hrun; f_equal; f_equal; lia|].
        destruct res as [j|].
        * destruct Hres as (ctx' & c & l1 & k1 & v1 & r1 & _ & Ht & Hpath & Hhere & Hcfg').
          exists (ctx' ++ [IFL i c0 k' v' r]), c, l1, k1, v1, r1. rewrite <- app_assoc. cbn [app].
          split; [reflexivity|]. split; [rewrite iplug_app, <- Ht; reflexivity|].
          split; [|split; [exact Hhere|exact Hcfg']]. rewrite ectx_app. apply Forall_app. split; [exact Hpath|].
          constructor; [exact Hlt|constructor].
        * destruct Hres as (Hf & Hd & Hs). cbn [find del set]. rewrite Hlt, Hf, Hd. split; [reflexivity|]. split; [reflexivity|].
          intro v. rewrite Hs. reflexivity.
      + destruct (0 <? cmp k k') eqn:Hgt.
        * mrun. destruct (IHr (IFR i c0 l k' v' :: ctx) fuel h rt sz nx (S cl)) as (res & Hrun & Hres);
            [apply cfg_down; exact H|exact Hpr|lia|].
          exists res. split; [rewrite Hrun; f_equal; f_equal; lia|].
          destruct res as [j|].
          -- destruct Hres as (ctx' & c & l1 & k1 & v1 & r1 & _ & Ht & Hpath & Hhere & Hcfg').
             exists (ctx' ++ [IFR i c0 l k' v']), c, l1, k1, v1, r1. rewrite <- app_assoc. cbn [app].
             split; [reflexivity|]. split; [rewrite iplug_app, <- Ht; reflexivity|].
             split; [|split; [exact Hhere|exact Hcfg']]. rewrite ectx_app. apply Forall_app. split; [exact Hpath|].
             constructor; [split; [exact Hlt|exact Hgt]|constructor].
          -- destruct Hres as (Hf & Hd & Hs). cbn [find del set]. rewrite Hlt, Hgt, Hf, Hd. split; [reflexivity|]. split; [reflexivity|].
             intro v. rewrite Hs. reflexivity.
        * mrun. exists (Some i). split; [f_equal; f_equal; lia|].
          exists [], c0, l, k', v', r. split; [reflexivity|]. split; [reflexivity|]. split; [constructor|].
          split; [split; assumption|exact H].
  Qed.

  (* ---------- findSuccessor: the leftmost node of the right subtree ---------- *)
  Lemma leftmost_loop_spec : forall t p fuel h rt sz nx cl,
    irep h t p -> phs t = [] -> t <> IE -> (height (erase t) <= fuel)%nat ->
    exists m s cs sk sv sr,
      leftmost_loop fuel (rid t) (mkst h rt sz nx cl) = ROk (Some s) (mkst h rt sz nx cl) /\
      t = iplug m (IT s cs IE sk sv sr) /\ Forall isFL (ectx m).
  Proof.
    induction t as [|i k0 v0|i c0 l IHl k' v' r _]; intros p fuel h rt sz nx cl H Hph Hne Hfuel.
    - congruence.
    - cbn in Hph. discriminate.
    - cbn [phs] in Hph. apply app_eq_nil in Hph. destruct Hph as [Hpl Hpr].
      destruct fuel as [|fuel]; [cbn in Hfuel; lia|]. cbn [erase height] in Hfuel.
      cbn [irep] in H. destruct H as (Hi & Hl & Hr).
      destruct l as [|?|li lc ll lk lv lr].
      + exists [], i, c0, k', v', r. split; [cbn [leftmost_loop rid]; munfold; mrun; reflexivity|]. split; [reflexivity|constructor].
      + cbn in Hpl. discriminate.
      + destruct (IHl (Some i) fuel h rt sz nx cl Hl Hpl ltac:(discriminate) ltac:(lia)) as (m & s & cs & sk & sv & sr & Hrun & Ht & Hm).
        exists (m ++ [IFL i c0 k' v' r]), s, cs, sk, sv, sr. split.
        { cbn [leftmost_loop rid]. munfold. mrun. cbn [rid isnil]. mrun. cbn [rid] in Hrun. exact Hrun. }
        split; [rewrite iplug_app, <- Ht; reflexivity|]. rewrite ectx_app. apply Forall_app. split; [exact Hm|].
        constructor; [exact I|constructor].
  Qed.

  (* ---------- deleteNode, second half: the node has at most one child ---------- *)
  Definition unlink (nd : ptr) : M unit :=
         np1 <- fld npar nd ;;
         if isnil np1 then ret tt
         else
           np2 <- fld npar nd ;; npl <- fld nleft np2 ;;
           (if ptr_eqb nd npl
            then np3 <- fld npar nd ;; set_left np3 None
            else
              np4 <- fld npar nd ;; npr <- fld nright np4 ;;
              if ptr_eqb nd npr
              then np5 <- fld npar nd ;; set_right np5 None
              else ret tt) ;;;
           set_par nd None.
  Definition deleteNode_tail (fuel : nat) (nd : ptr) : M unit :=
    nl1 <- fld nleft nd ;;
    replacement <- (if isnil nl1 then fld nright nd else fld nleft nd) ;;
    (if negb (isnil replacement) then
       np <- fld npar nd ;; set_par replacement np ;;;
       np1 <- fld npar nd ;;
       (if isnil np1 then set_root replacement
        else
          np2 <- fld npar nd ;; npl <- fld nleft np2 ;;
          if ptr_eqb nd npl
          then np3 <- fld npar nd ;; set_left np3 replacement
          else np4 <- fld npar nd ;; set_right np4 replacement) ;;;
       set_left nd None ;;; set_right nd None ;;; set_par nd None ;;;
       c <- getColor nd ;;
       match c with Black => fixAfterDelete fuel replacement | Red => ret tt end
     else
       np <- fld npar nd ;;
       if isnil np then set_root None
       else
         c <- getColor nd ;;
         (match c with Black => fixAfterDelete fuel nd | Red => ret tt end) ;;;
         unlink nd) ;;;
    sz <- get_size ;; set_size (sz - 1).
  Lemma deleteNode_split fuel tgt :
    deleteNode fuel tgt =
      (nl <- fld nleft tgt ;;
       both <- (if isnil nl then ret false else nr <- fld nright tgt ;; ret (negb (isnil nr))) ;;
       nd <- (if both then
                s <- findSuccessor fuel tgt ;;
                sk <- fld nkey s ;; set_key tgt sk ;;;
                sv <- fld nval s ;; set_val tgt sv ;;;
                ret s
              else ret tgt) ;;
       deleteNode_tail fuel nd).
  Proof. reflexivity. Qed.

  (* unlinking a childless node (a red leaf, or the phantom after the fix-up) from its parent *)
  Lemma unlink_spec h rt sz nx cl f rest n c k v :
    cfg h rt (f :: rest) (IT n c IE k v IE) ->
    wp (unlink (Some n)) (mkst h rt sz nx cl) (fun _ s' =>
      exists h', s' = mkst h' rt sz nx cl /\ cfg h' rt (f :: rest) IE).
  Proof.
    intro H. destruct f as [p pc pk pv ps|p pc ps pk pv]; cfg_open H; unfold wp, unlink; munfold; mrun;
      eexists; (split; [reflexivity|]); cfg_tac.
  Qed.
  Lemma cfg_phantom_leaf h rt ctx n k v : cfg h rt ctx (IP n k v) <-> cfg h rt ctx (IT n Black IE k v IE).
  Proof.
    unfold cfg. cbn [rid irep ids app]. split; intros (Hc & Hr & Hnd); (split; [exact Hc|]); (split; [|exact Hnd]).
    - split; [exact Hr|split; exact I].
    - destruct Hr as (Hr & _). exact Hr.
  Qed.

  Lemma deleteNode_tail_spec fuel ctx n c l k v r h rt sz nx cl :
    cfg h rt ctx (IT n c l k v r) -> (l = IE \/ r = IE) -> phs l = [] -> phs r = [] -> cphs ctx = [] ->
    root_black ctx -> (length ctx < fuel)%nat ->
    wp (deleteNode_tail fuel (Some n)) (mkst h rt sz nx cl) (fun _ s' =>
      exists h' rt' t', s' = mkst h' rt' (sz - 1) nx cl /\ cfg h' rt' [] t' /\
        erase t' = fst (resolve (unwind_del (ectx ctx) (remove_here c (erase l) (erase r)))) /\
        phs t' = [] /\ incl (ids t') (ids l ++ ids r ++ cids ctx)).
  Proof.
    intros H Hlr Hpl Hpr Hcph Hrb Hfuel.
    (* finishing a case in which no fix-up runs: the tree is ctx[X] *)
    assert (Hnofix : forall h' rt' X, cfg h' rt' ctx X -> phs X = [] -> incl (ids X) (ids l ++ ids r) ->
              c = Red \/ (ctx = [] /\ X = IE) ->
              fst (remove_here c (erase l) (erase r)) = erase X ->
              exists h'' rt'' t', mkst h' rt' (sz - 1) nx cl = mkst h'' rt'' (sz - 1) nx cl /\ cfg h'' rt'' [] t' /\
                erase t' = fst (resolve (unwind_del (ectx ctx) (remove_here c (erase l) (erase r)))) /\
                phs t' = [] /\ incl (ids t') (ids l ++ ids r ++ cids ctx)).
    { intros h' rt' X HX HpX HiX Hc HeX. exists h', rt', (iplug ctx X). split; [reflexivity|].
      split; [apply cfg_plug; exact HX|]. split.
      - destruct (remove_here c (erase l) (erase r)) as [t0 nf0] eqn:Hrh. cbn [fst] in HeX. subst t0.
        destruct Hc as [->|[-> ->]].
        + assert (nf0 = false) by (unfold remove_here in Hrh; destruct (erase l); injection Hrh as _ <-; reflexivity). subst nf0.
          rewrite unwind_del_false, erase_iplug. reflexivity.
        + cbn. destruct nf0; reflexivity.
      - split; [apply phs_iplug_nil_intro; assumption|].
        intros j Hj. apply ids_iplug in Hj. apply in_app_or in Hj. rewrite app_assoc. apply in_or_app.
        destruct Hj as [Hj|Hj]; [left; apply HiX; exact Hj|right; exact Hj]. }
    (* finishing a case in which fixAfterDelete ran on X *)
    assert (Hfix : forall h5 rt5 t5 X, cfg h5 rt5 [] t5 ->
              erase t5 = fst (resolve (unwind_del (ectx ctx) (erase X, true))) ->
              same (ids t5) (ids X ++ cids ctx) -> same (phs t5) (phs X ++ cphs ctx) ->
              phs X = [] -> incl (ids X) (ids l ++ ids r) -> c = Black ->
              fst (remove_here c (erase l) (erase r)) = erase X ->
              exists h'' rt'' t', mkst h5 rt5 (sz - 1) nx cl = mkst h'' rt'' (sz - 1) nx cl /\ cfg h'' rt'' [] t' /\
                erase t' = fst (resolve (unwind_del (ectx ctx) (remove_here c (erase l) (erase r)))) /\
                phs t' = [] /\ incl (ids t') (ids l ++ ids r ++ cids ctx)).
    { intros h5 rt5 t5 X H5 He5 Hi5 Hp5 HpX HiX -> HeX. exists h5, rt5, t5. split; [reflexivity|]. split; [exact H5|].
      split.
      - rewrite He5. f_equal. f_equal. unfold remove_here in *. destruct (erase l); cbn [fst] in HeX; rewrite HeX; reflexivity.
      - split; [apply same_nil_r; rewrite HpX, Hcph in Hp5; exact Hp5|].
        intros j Hj. apply Hi5 in Hj. apply in_app_or in Hj. rewrite app_assoc. apply in_or_app.
        destruct Hj as [Hj|Hj]; [left; apply HiX; exact Hj|right; exact Hj]. }
    destruct l as [|?|li lc ll lk lv lr]; [|cbn in Hpl; discriminate|];
    (destruct r as [|?|ri rc rl rk rv rr]; [|cbn in Hpr; discriminate|]).
    4: { destruct Hlr; discriminate. }
    - (* no child *)
      destruct ctx as [|f rest].
      + cfg_open H. unfold wp, deleteNode_tail. munfold. mrun.
        apply (Hnofix _ _ IE); [cfg_tac|reflexivity|intros j []|right; split; reflexivity|destruct c; reflexivity].
      + destruct c.
        * (* red leaf *)
          destruct (wp_ok _ _ _ (unlink_spec h rt sz nx cl f rest n Red k v H)) as ([] & s' & Hrun & h' & -> & Hcfg').
          cfg_open H. unfold wp, deleteNode_tail. munfold. mrun.
          destruct f; cbn [fid] in *; mrun; rewrite Hrun; mrun;
            (apply (Hnofix _ _ IE); [exact Hcfg'|reflexivity|intros j []|left; reflexivity|reflexivity]).
        * (* black leaf: the phantom *)
          assert (HP : cfg h rt (f :: rest) (IP n k v)) by (apply cfg_phantom_leaf; exact H).
          assert (Hnf : n <> fid f).
          { destruct H as (_ & _ & Hnd). cbn [ids app cids] in Hnd. nd_sat. assumption. }
          destruct (fixAfterDelete_spec fuel (f :: rest) (IP n k v) n h rt sz nx cl HP eq_refl Hcph Hrb Hfuel)
            as (h5 & rt5 & t5 & Hrun5 & Hcfg5 & He5 & Hids5 & Hphs5).
          rewrite Hcph in Hphs5. cbn [phs app] in Hphs5.
          destruct (phs_focus n t5 (proj2 (Hphs5 n) (or_introl eq_refl))) as (m & k0 & v0 & Ht5).
          subst t5. pose proof (cfg_unplug _ _ _ _ _ Hcfg5) as Hcfg6. rewrite app_nil_r in Hcfg6.
          destruct m as [|f' m'].
          { exfalso. cbn [iplug ids] in Hids5. destruct (proj2 (Hids5 (fid f))) as [Hx|[]]; [cbn; right; left; reflexivity|]. congruence. }
          apply cfg_phantom_leaf in Hcfg6.
          destruct (wp_ok _ _ _ (unlink_spec h5 rt5 sz nx cl f' m' n Black k0 v0 Hcfg6)) as ([] & s' & Hrun & h6 & -> & Hcfg7).
          assert (Hn_m : ~ In n (cids (f' :: m'))).
          { destruct Hcfg6 as (_ & _ & Hnd). cbn [ids app] in Hnd. apply NoDup_cons_inv in Hnd. tauto. }
          assert (Hfin1 : phs (iplug (f' :: m') IE) = []).
          { apply same_nil_r; eapply same_trans; [apply phs_iplug|]; cbn [phs app]; intro j; split; [|intros []].
            intro Hj; assert (Hj2 : In j (phs (iplug (f' :: m') (IP n k0 v0)))) by (apply phs_iplug; apply in_or_app; right; exact Hj).
            apply Hphs5 in Hj2; destruct Hj2 as [<-|[]]; apply Hn_m; apply cphs_sub_cids; exact Hj. }
          assert (Hfin2 : incl (ids (iplug (f' :: m') IE)) (ids IE ++ ids IE ++ cids (f :: rest))).
          { intros j Hj; apply ids_iplug in Hj; cbn [ids app] in Hj.
            assert (Hj2 : In j (ids (iplug (f' :: m') (IP n k0 v0)))) by (apply ids_iplug; apply in_or_app; right; exact Hj).
            apply Hids5 in Hj2; cbn [ids app] in Hj2 |- *; destruct Hj2 as [<-|Hj2]; [contradiction|exact Hj2]. }
          assert (Hfin3 : erase (iplug (f' :: m') IE) = fst (resolve (unwind_del (ectx (f :: rest)) (remove_here Black (erase IE) (erase IE))))).
          { rewrite erase_iplug in He5 |- *; cbn [erase remove_here] in He5 |- *; exact He5. }
          clear Hnofix Hfix Hn_m Hids5 Hphs5 He5 HP.
          cfg_open H. unfold wp, deleteNode_tail. munfold. mrun.
          destruct f; cbn [fid] in *; mrun; rewrite Hrun5; mrun; rewrite Hrun; mrun.
          all: exists h6, rt5, (iplug (f' :: m') IE); (split; [reflexivity|]); (split; [apply cfg_replug; rewrite app_nil_r; exact Hcfg7|]).
          all: split; [exact Hfin3|split; [exact Hfin1|exact Hfin2]].
    - (* only a right child *)
      destruct ctx as [|[p pc pk pv ps|p pc ps pk pv] rest]; destruct c.
      all: pose proof H as H0; cfg_open H0; unfold wp, deleteNode_tail; munfold; mrun.
      all: try (apply (Hnofix _ _ (IT ri rc rl rk rv rr)); [cfg_tac|exact Hpr|intros j Hj; exact Hj|left; reflexivity|reflexivity]).
      all: match type of Hfuel with (length ?CTX < _)%nat =>
           match goal with |- context[fixAfterDelete ?fl (Some ?xi) (mkst ?hh ?rtx ?sz ?nx ?cl)] =>
             destruct (fixAfterDelete_spec fl CTX (IT ri rc rl rk rv rr) xi hh rtx sz nx cl)
               as (h5 & rt5 & t5 & Hrun5 & Hcfg5 & He5 & Hids5 & Hphs5);
             [cfg_tac|reflexivity|exact Hcph|exact Hrb|exact Hfuel|]
           end end.
      all: rewrite Hrun5; mrun; apply (Hfix _ _ _ (IT ri rc rl rk rv rr) Hcfg5 He5 Hids5 Hphs5); [exact Hpr|intros j Hj; exact Hj|reflexivity|reflexivity].
    - (* only a left child *)
      destruct ctx as [|[p pc pk pv ps|p pc ps pk pv] rest]; destruct c.
      all: pose proof H as H0; cfg_open H0; unfold wp, deleteNode_tail; munfold; mrun.
      all: try (apply (Hnofix _ _ (IT li lc ll lk lv lr)); [cfg_tac|exact Hpl|intros j Hj; rewrite app_nil_r; exact Hj|left; reflexivity|reflexivity]).
      all: match type of Hfuel with (length ?CTX < _)%nat =>
           match goal with |- context[fixAfterDelete ?fl (Some ?xi) (mkst ?hh ?rtx ?sz ?nx ?cl)] =>
             destruct (fixAfterDelete_spec fl CTX (IT li lc ll lk lv lr) xi hh rtx sz nx cl)
               as (h5 & rt5 & t5 & Hrun5 & Hcfg5 & He5 & Hids5 & Hphs5);
             [cfg_tac|reflexivity|exact Hcph|exact Hrb|exact Hfuel|]
           end end.
      all: rewrite Hrun5; mrun; apply (Hfix _ _ _ (IT li lc ll lk lv lr) Hcfg5 He5 Hids5 Hphs5); [exact Hpl|intros j Hj; rewrite app_nil_r; exact Hj|reflexivity|reflexivity].
  Qed.

  (* ---------- deleteNode ---------- *)
  Lemma deleteNode_spec fuel ctx n c l k' v' r h rt sz nx cl :
    let whole := iplug ctx (IT n c l k' v' r) in
    cfg h rt ctx (IT n c l k' v' r) -> phs l = [] -> phs r = [] -> cphs ctx = [] ->
    col (erase whole) = Black -> (height (erase whole) < fuel)%nat ->
    wp (deleteNode fuel (Some n)) (mkst h rt sz nx cl) (fun _ s' =>
      exists h' rt' t', s' = mkst h' rt' (sz - 1) nx cl /\ cfg h' rt' [] t' /\ phs t' = [] /\
        incl (ids t') (ids whole) /\
        forall k, path_ok cmp k (ectx ctx) -> here cmp k k' -> delete cmp k (erase whole) = Some (erase t', v')).
  Proof.
    intros whole H Hpl Hpr Hcph Hcol Hfuel.
    assert (Hone : (l = IE \/ r = IE) ->
      wp (deleteNode_tail fuel (Some n)) (mkst h rt sz nx cl) (fun _ s' =>
        exists h' rt' t', s' = mkst h' rt' (sz - 1) nx cl /\ cfg h' rt' [] t' /\ phs t' = [] /\
          incl (ids t') (ids whole) /\
          forall k, path_ok cmp k (ectx ctx) -> here cmp k k' -> delete cmp k (erase whole) = Some (erase t', v'))).
    { intro Hlr.
      assert (Hrb : root_black ctx) by (destruct ctx as [|f rest]; [exact I|apply (root_black_iplug _ _ Hcol); discriminate]).
      assert (Hlen : (length ctx < fuel)%nat) by (pose proof (height_iplug ctx (IT n c l k' v' r)); fold whole in H0; lia).
      eapply wp_mono; [apply (deleteNode_tail_spec fuel ctx n c l k' v' r h rt sz nx cl H Hlr Hpl Hpr Hcph Hrb Hlen)|].
      intros [] s' (h' & rt' & t' & -> & Hcfg' & He & Hph' & Hincl). exists h', rt', t'.
      split; [reflexivity|]. split; [exact Hcfg'|]. split; [exact Hph'|]. split.
      - intros j Hj. apply Hincl in Hj. apply ids_iplug. cbn [ids]. rewrite !in_app_iff in *. cbn [In]. rewrite in_app_iff. tauto.
      - intros k Hpath Hhere. unfold whole, delete. rewrite erase_iplug. cbn [erase].
        rewrite (del_plug cmp k _ Hpath), (del_here_leaf cmp k c _ k' v' _ Hhere);
          [|destruct Hlr as [->| ->]; [left|right]; reflexivity].
        rewrite He. destruct (remove_here c (erase l) (erase r)) as [t0 nf0].
        destruct (unwind_del (ectx ctx) (t0, nf0)) as [t1 nf1]. reflexivity. }
    destruct l as [|?|li lc ll lk lv lr]; [|cbn in Hpl; discriminate|].
    { assert (Hd : deleteNode fuel (Some n) (mkst h rt sz nx cl) = deleteNode_tail fuel (Some n) (mkst h rt sz nx cl)).
      { rewrite deleteNode_split. pose proof H as H0. cfg_open H0. munfold. mrun. reflexivity. }
      unfold wp in *. rewrite Hd. apply Hone. left; reflexivity. }
    destruct r as [|?|ri rc rl rk rv rr]; [|cbn in Hpr; discriminate|].
    { assert (Hd : deleteNode fuel (Some n) (mkst h rt sz nx cl) = deleteNode_tail fuel (Some n) (mkst h rt sz nx cl)).
      { rewrite deleteNode_split. pose proof H as H0. cfg_open H0. munfold. mrun. reflexivity. }
      unfold wp in *. rewrite Hd. apply Hone. right; reflexivity. }
    clear Hone.
    (* two children: the successor s is the leftmost node of the right subtree *)
    set (l0 := IT li lc ll lk lv lr) in *. set (r0 := IT ri rc rl rk rv rr) in *.
    assert (Hr0 : irep h r0 (Some n)) by (destruct H as (_ & Hr & _); cbn [irep] in Hr; tauto).
    assert (Hhr : (height (erase r0) <= fuel)%nat).
    { pose proof (height_iplug ctx (IT n c l0 k' v' r0)) as Hh. fold whole in Hh. cbn [erase height] in Hh. lia. }
    destruct (leftmost_loop_spec r0 (Some n) fuel h rt sz nx cl Hr0 Hpr ltac:(discriminate) Hhr)
      as (m & s & cs & sk & sv & sr & Hrun & Hr0eq & Hm).
    set (S0 := IT s cs IE sk sv sr) in *.
    assert (Hcfg_s : cfg h rt (m ++ IFR n c l0 k' v' :: ctx) S0).
    { apply cfg_unplug. rewrite <- Hr0eq. apply cfg_down. exact H. }
    destruct (phs_iplug_nil m S0 ltac:(rewrite <- Hr0eq; exact Hpr)) as [HpS Hpm].
    assert (Hs : exists sp, hget h s = Some (mkn cs sk sv None (rid sr) sp) /\ s <> n).
    { destruct Hcfg_s as (_ & Hr & Hnd). cbn [irep S0] in Hr. destruct Hr as (Hs & _). eexists. split; [exact Hs|].
      rewrite cids_app in Hnd. cbn [ids S0 cids fid fsib] in Hnd. nd_sat. assumption. }
    destruct Hs as (sp & Hs & Hsn).
    set (h2 := hset (hset h n (mkn c sk v' (Some li) (Some ri) (cpar ctx))) n (mkn c sk sv (Some li) (Some ri) (cpar ctx))).
    assert (Hcfg2 : cfg h2 rt ctx (IT n c l0 sk sv r0)).
    { pose proof H as H0. unfold l0, r0 in H0 |- *. cfg_open H0. unfold h2. cfg_tac. }
    assert (Hcfg3 : cfg h2 rt (m ++ IFR n c l0 sk sv :: ctx) S0).
    { apply cfg_unplug. rewrite <- Hr0eq. apply cfg_down. exact Hcfg2. }
    assert (Hcph3 : cphs (m ++ IFR n c l0 sk sv :: ctx) = []).
    { rewrite cphs_app. cbn [cphs fsib]. rewrite Hpm, Hpl, Hcph. reflexivity. }
    assert (Hwhole2 : iplug (m ++ IFR n c l0 sk sv :: ctx) S0 = iplug ctx (IT n c l0 sk sv r0)).
    { rewrite iplug_app, <- Hr0eq. reflexivity. }
    assert (Hrb3 : root_black (m ++ IFR n c l0 sk sv :: ctx)).
    { apply (root_black_iplug _ S0); [|destruct m; discriminate]. rewrite Hwhole2.
      rewrite (col_iplug_indep ctx _ (IT n c l0 k' v' r0)); [exact Hcol|reflexivity]. }
    assert (Hlen3 : (length (m ++ IFR n c l0 sk sv :: ctx) < fuel)%nat).
    { pose proof (height_iplug (m ++ IFR n c l0 sk sv :: ctx) S0) as Hh. rewrite Hwhole2 in Hh.
      rewrite (height_iplug_indep ctx _ (IT n c l0 k' v' r0)) in Hh; [|reflexivity]. fold whole in Hh. lia. }
    pose proof (deleteNode_tail_spec fuel _ s cs IE sk sv sr h2 rt sz nx cl Hcfg3 (or_introl eq_refl) eq_refl
                  ltac:(cbn [phs S0] in HpS; exact HpS) Hcph3 Hrb3 Hlen3) as Htail.
    assert (Hd : deleteNode fuel (Some n) (mkst h rt sz nx cl) = deleteNode_tail fuel (Some s) (mkst h2 rt sz nx cl)).
    { rewrite deleteNode_split. pose proof H as H0. unfold l0, r0 in H0. cfg_open H0. unfold findSuccessor. munfold. mrun.
      cbn [rid r0] in Hrun. rewrite Hrun. mrun. fold h2. reflexivity. }
    assert (Htail' : wp (deleteNode fuel (Some n)) (mkst h rt sz nx cl) (fun _ s' =>
      exists h' rt' t', s' = mkst h' rt' (sz - 1) nx cl /\ cfg h' rt' [] t' /\
        erase t' = fst (resolve (unwind_del (ectx (m ++ IFR n c l0 sk sv :: ctx)) (remove_here cs (erase IE) (erase sr)))) /\
        phs t' = [] /\ incl (ids t') (ids IE ++ ids sr ++ cids (m ++ IFR n c l0 sk sv :: ctx)))).
    { unfold wp in *. rewrite Hd. exact Htail. }
    clear Htail Hd.
    eapply wp_mono; [exact Htail'|]. clear Htail'.
    intros [] s' (h' & rt' & t' & -> & Hcfg' & He & Hph' & Hincl). exists h', rt', t'.
    split; [reflexivity|]. split; [exact Hcfg'|]. split; [exact Hph'|]. split.
    - intros j Hj. apply Hincl in Hj. unfold whole. apply ids_iplug. cbn [ids app] in Hj |- *.
      assert (Hr0ids : forall j, In j (ids S0 ++ cids m) -> In j (ids r0)) by (intros j0 Hj0; rewrite Hr0eq; apply ids_iplug; exact Hj0).
      rewrite cids_app in Hj. cbn [cids fid fsib] in Hj. rewrite !in_app_iff in Hj. cbn [In] in Hj. rewrite !in_app_iff in Hj.
      cbn [In]. rewrite !in_app_iff.
      destruct Hj as [Hj|[Hj|[Hj|[Hj|Hj]]]].
      + right. left. right. apply Hr0ids. apply in_or_app. left. cbn [ids S0 app]. right. exact Hj.
      + right. left. right. apply Hr0ids. apply in_or_app. right. exact Hj.
      + left. exact Hj.
      + right. left. left. exact Hj.
      + right. right. exact Hj.
    - intros k Hpath Hhere. unfold whole, delete. rewrite erase_iplug. cbn [erase l0].
      assert (Her : erase r0 = plug (ectx m) (T cs E sk sv (erase sr))) by (rewrite Hr0eq, erase_iplug; reflexivity).
      rewrite (del_plug cmp k _ Hpath), Her, (del_here_two cmp k c _ _ _ _ _ k' v' _ cs sk sv _ Hhere Hm).
      rewrite He. unfold ectx. rewrite map_app. cbn [map eframe erase l0].
      rewrite (unwind_del_app (map eframe m) (FR c _ sk sv :: map eframe ctx)). cbn [unwind_del].
      rewrite (unwind_del_app (map eframe m) [FR c _ sk sv]). cbn [unwind_del].
      destruct (remove_here cs E (erase sr)) as [t0 nf0].
      destruct (up_del _ (unwind_del (map eframe m) (t0, nf0))) as [t1 nf1].
      destruct (unwind_del (map eframe ctx) (t1, nf1)) as [t2 nf2]. reflexivity.
  Qed.
End Del.
