(* Proofs about CLQModel (C06): structural invariants of the lock-free queue for EVERY
   interleaving of the statements of any number of concurrent Enqueue / Dequeue calls.

   Part 1 (this file): list / heap lemmas, the invariant ([shape] of the heap, [thr_ok] of every
   call in flight, pairwise [compat]ibility), the abstraction lemma ([clq_abs] = the values of the
   chain segment (head, tail]) and the frame lemmas.  Part 2 (CLQProof2.v): preservation by every
   step, no panic, linearisation. *)
From Ekit Require Import Common Conc CLQModel.
From Coq Require Import Arith PeanoNat Lia.

Local Open Scope nat_scope.

(* ---------- pointers ---------- *)
Lemma ptr_eqb_eq a b : ptr_eqb a b = true <-> a = b.
Proof.
  destruct a as [x|], b as [y|]; cbn; try (split; [discriminate|discriminate]); try tauto.
  rewrite Nat.eqb_eq. split; [intros ->; reflexivity|intros H; injection H as ->; reflexivity].
Qed.

Lemma ptr_eqb_refl a : ptr_eqb a a = true.
Proof. apply ptr_eqb_eq; reflexivity. Qed.

Lemma ptr_eqb_neq a b : ptr_eqb a b = false <-> a <> b.
Proof.
  split.
  - intros H E. apply ptr_eqb_eq in E. congruence.
  - intros H. destruct (ptr_eqb a b) eqn:E; [apply ptr_eqb_eq in E; contradiction|reflexivity].
Qed.

(* ---------- lists as arrays ---------- *)
Lemma qset_nth_length {A} (l : list A) i a : length (set_nth l i a) = length l.
Proof. revert i; induction l as [|x r IH]; intros [|i]; cbn; auto. Qed.

Lemma qset_nth_same {A} (l : list A) i a : i < length l -> nth_error (set_nth l i a) i = Some a.
Proof.
  revert i; induction l as [|x r IH]; intros [|i] H; cbn in *; try lia; [reflexivity|].
  apply IH. lia.
Qed.

Lemma qset_nth_other {A} (l : list A) i j a : i <> j -> nth_error (set_nth l i a) j = nth_error l j.
Proof.
  revert i j; induction l as [|x r IH]; intros [|i] [|j] H; cbn; try reflexivity; try congruence.
  apply IH. congruence.
Qed.

Lemma nth_error_snoc_lt {A} (l : list A) a k : k < length l -> nth_error (l ++ [a]) k = nth_error l k.
Proof. intros H. apply nth_error_app1, H. Qed.

Lemma nth_error_snoc_eq {A} (l : list A) a : nth_error (l ++ [a]) (length l) = Some a.
Proof. rewrite nth_error_app2 by lia. rewrite Nat.sub_diag. reflexivity. Qed.

Lemma nth_error_snoc_gt {A} (l : list A) a k : length l < k -> nth_error (l ++ [a]) k = None.
Proof. intros H. apply nth_error_None. rewrite app_length. cbn. lia. Qed.

Lemma nth_error_lt_some {A} (l : list A) k : k < length l -> exists x, nth_error l k = Some x.
Proof.
  intros H. destruct (nth_error l k) as [x|] eqn:E; [eauto|].
  apply nth_error_None in E. lia.
Qed.

Lemma nodup_bounded_len (n : nat) (l : list nat) :
  NoDup l -> (forall x, In x l -> x < n) -> length l <= n.
Proof.
  intros Hnd Hall. rewrite <- (seq_length n 0).
  apply NoDup_incl_length; [exact Hnd|].
  intros x Hx. apply in_seq. specialize (Hall x Hx). lia.
Qed.

Lemma nodup_nth_inj (l : list nat) i j x :
  NoDup l -> nth_error l i = Some x -> nth_error l j = Some x -> i = j.
Proof.
  intros Hnd Hi Hj. rewrite NoDup_nth_error in Hnd. apply Hnd.
  - apply nth_error_Some. congruence.
  - congruence.
Qed.

(* ---------- chain segments ---------- *)
(* the node ids strictly after position hi up to and including position ti *)
Definition seg (chain : list nat) (hi ti : nat) : list nat := firstn (ti - hi) (skipn (S hi) chain).

Lemma seg_empty chain hi : seg chain hi hi = [].
Proof. unfold seg. rewrite Nat.sub_diag. reflexivity. Qed.

Lemma skipn_nth_cons {A} (l : list A) k x : nth_error l k = Some x -> skipn k l = x :: skipn (S k) l.
Proof.
  revert k; induction l as [|y r IH]; intros [|k] H; cbn in *; try discriminate.
  - injection H as ->. reflexivity.
  - apply IH, H.
Qed.

Lemma seg_cons chain hi ti x :
  hi < ti -> nth_error chain (S hi) = Some x -> seg chain hi ti = x :: seg chain (S hi) ti.
Proof.
  intros Hlt Hx. unfold seg. rewrite (skipn_nth_cons _ _ _ Hx).
  replace (ti - hi) with (S (ti - S hi)) by lia. reflexivity.
Qed.

Lemma firstn_snoc_nth {A} (l : list A) k x : nth_error l k = Some x -> firstn (S k) l = firstn k l ++ [x].
Proof.
  revert k; induction l as [|y r IH]; intros [|k] H; cbn in *; try discriminate.
  - injection H as ->. reflexivity.
  - f_equal. apply IH, H.
Qed.

Lemma nth_error_skipn {A} (l : list A) a b : nth_error (skipn a l) b = nth_error l (a + b).
Proof.
  revert a; induction l as [|y r IH]; intros [|a]; cbn; try reflexivity.
  - destruct b; reflexivity.
  - apply IH.
Qed.

Lemma seg_snoc chain hi ti x :
  hi <= ti -> nth_error chain (S ti) = Some x -> seg chain hi (S ti) = seg chain hi ti ++ [x].
Proof.
  intros Hle Hx. unfold seg. replace (S ti - hi) with (S (ti - hi)) by lia.
  apply firstn_snoc_nth. rewrite nth_error_skipn. replace (S hi + (ti - hi)) with (S ti) by lia. exact Hx.
Qed.

Lemma seg_app chain ext hi ti : ti < length chain -> seg (chain ++ ext) hi ti = seg chain hi ti.
Proof.
  intros Hlt. unfold seg.
  destruct (Nat.le_gt_cases ti hi) as [Hle|Hgt].
  - replace (ti - hi) with 0 by lia. reflexivity.
  - rewrite skipn_app. rewrite firstn_app.
    replace (ti - hi - length (skipn (S hi) chain)) with 0 by (rewrite skipn_length; lia).
    cbn. rewrite app_nil_r. reflexivity.
Qed.

Lemma seg_in chain hi ti x : In x (seg chain hi ti) -> In x chain.
Proof.
  unfold seg. intros H.
  assert (H' : In x (skipn (S hi) chain)).
  { rewrite <- (firstn_skipn (ti - hi) (skipn (S hi) chain)). apply in_or_app. left; exact H. }
  rewrite <- (firstn_skipn (S hi) chain). apply in_or_app. right; exact H'.
Qed.

Definition valof (vals : list Z) (x : nat) : Z := nth x vals 0%Z.

(* ---------- the invariant ---------- *)
(* [chain] = the node ids in link order (a ghost of the proof, existentially quantified in the
   invariant); hi / ti = positions of head / tail in it *)
Record shape (c : clq_cfg) (chain : list nat) (hi ti : nat) : Prop := {
  sh_len : length (q_vals c) = length (q_nexts c);
  sh_nodup : NoDup chain;
  sh_valid : forall x, In x chain -> x < length (q_nexts c);
  (* node chain[k] points to chain[k+1]; the last one to nil *)
  sh_next : forall k x, nth_error chain k = Some x -> nth_error (q_nexts c) x = Some (nth_error chain (S k));
  (* unpublished nodes have a nil next *)
  sh_free : forall x, x < length (q_nexts c) -> ~ In x chain -> nth_error (q_nexts c) x = Some None;
  sh_head : q_head c = nth_error chain hi;
  sh_tail : q_tail c = nth_error chain ti;
  (* head <= tail <= last <= tail + 1 *)
  sh_idx : hi <= ti /\ ti < length chain /\ length chain <= ti + 2
}.

(* a node allocated by an Enqueue that has not linked it yet *)
Definition fresh (vals : list Z) (chain : list nat) (v : Z) (p : ptr) : Prop :=
  exists x, p = Some x /\ nth_error vals x = Some v /\ ~ In x chain.

Definition thr_ok (vals : list Z) (chain : list nat) (hi ti : nat) (l : clq_loc) : Prop :=
  match q_pc l with
  | EnqNewNode => True
  | EnqNewPtr => fresh vals chain (q_val l) (q_newNode l)
  | EnqFor | EnqLoadTail | EnqContinue => fresh vals chain (q_val l) (q_newPtr l)
  | EnqTail =>
    fresh vals chain (q_val l) (q_newPtr l) /\
    exists k, k <= ti /\ q_tailPtr l = nth_error chain k
  | EnqLoadNext | EnqIfNext =>
    fresh vals chain (q_val l) (q_newPtr l) /\
    exists k, k <= ti /\ q_tailPtr l = nth_error chain k /\ q_tailL l = q_tailPtr l
  | EnqLinkCAS =>
    fresh vals chain (q_val l) (q_newPtr l) /\
    (exists k, k <= ti /\ q_tailPtr l = nth_error chain k /\ q_tailL l = q_tailPtr l) /\
    q_tailNext l = None
  | EnqTailCAS =>
    (* between the successful link CAS and the tail CAS: the node is the last of the chain,
       tail still is the node it was linked behind *)
    length chain = ti + 2 /\ q_tailPtr l = nth_error chain ti /\ q_newPtr l = nth_error chain (S ti) /\
    node_val vals (q_newPtr l) = Some (q_val l)
  | EnqRet => True
  | DeqFor | DeqLoadHead => True
  | DeqHead => exists kh, kh <= hi /\ q_headPtr l = nth_error chain kh
  | DeqLoadTail => exists kh, kh <= hi /\ q_headPtr l = nth_error chain kh /\ q_headL l = q_headPtr l
  | DeqTail =>
    exists kh kt, kh <= hi /\ kh <= kt /\ kt <= ti /\ q_headPtr l = nth_error chain kh /\ q_headL l = q_headPtr l /\
                  q_tailPtr l = nth_error chain kt
  | DeqIfEq =>
    exists kh kt, kh <= hi /\ kh <= kt /\ kt <= ti /\ q_headPtr l = nth_error chain kh /\ q_headL l = q_headPtr l /\
                  q_tailPtr l = nth_error chain kt /\ q_tailL l = q_tailPtr l
  | DeqRetEmpty => True
  | DeqLoadNext =>
    (* the snapshot (h, tl) of a dequeuer that saw h <> tl *)
    exists kh, kh <= hi /\ S kh <= ti /\ q_headPtr l = nth_error chain kh /\ q_headL l = q_headPtr l
  | DeqCASHead =>
    exists kh, kh <= hi /\ S kh <= ti /\ q_headPtr l = nth_error chain kh /\
               q_headNextPtr l = nth_error chain (S kh)
  (* the node whose value is about to be read was published (linked into the chain) *)
  | DeqHeadNext => exists x v, q_headNextPtr l = Some x /\ In x chain /\ nth_error vals x = Some v
  | DeqRetVal => exists x v, q_headNext l = Some x /\ In x chain /\ nth_error vals x = Some v
  end.

(* the node an Enqueue owns exclusively (allocated, not yet linked) *)
Definition owned (l : clq_loc) : ptr :=
  match q_pc l with
  | EnqNewPtr => q_newNode l
  | EnqFor | EnqLoadTail | EnqTail | EnqLoadNext | EnqIfNext | EnqContinue | EnqLinkCAS => q_newPtr l
  | _ => None
  end.

Definition is_swinger (l : clq_loc) : bool :=
  match q_pc l with EnqTailCAS => true | _ => false end.

(* two different calls in flight never own the same node, and at most one of them is between
   its link CAS and its tail CAS *)
Definition compat (l1 l2 : clq_loc) : Prop :=
  (owned l1 <> None -> owned l1 <> owned l2) /\
  (is_swinger l1 = true -> is_swinger l2 = true -> False).

Lemma compat_sym l1 l2 : compat l1 l2 -> compat l2 l1.
Proof.
  intros [Ho Hs]. split.
  - intros Hn E. destruct (owned l1) as [x|] eqn:E1.
    + apply Ho; [discriminate|]. rewrite E. reflexivity.
    + apply Hn. rewrite E. reflexivity.
  - intros H2 H1. exact (Hs H1 H2).
Qed.

Definition threads_ok (thr : list (tid * clq_loc)) (vals : list Z) (chain : list nat) (hi ti : nat) : Prop :=
  NoDup (tids thr) /\
  (forall t l, lookup t thr = Some l -> thr_ok vals chain hi ti l) /\
  (forall t1 t2 l1 l2, t1 <> t2 -> lookup t1 thr = Some l1 -> lookup t2 thr = Some l2 -> compat l1 l2).

(* the phase of its (Call Lin Ret) cycle a call in flight must be in, read off its program
   counter and locals *)
Definition exp_phase (vals : list Z) (l : clq_loc) : clq_phase :=
  match q_pc l with
  | EnqNewNode | EnqNewPtr | EnqFor | EnqLoadTail | EnqTail | EnqLoadNext | EnqIfNext | EnqContinue
  | EnqLinkCAS | EnqTailCAS => PCalled (OpEnq (q_val l))
  | EnqRet => PLin (OpEnq (q_val l)) REnq
  | DeqFor | DeqLoadHead | DeqHead | DeqLoadTail | DeqLoadNext | DeqCASHead => PCalled OpDeq
  | DeqTail => if ptr_eqb (q_headL l) (q_tailPtr l) then PLin OpDeq (RDeq None) else PCalled OpDeq
  | DeqIfEq => if ptr_eqb (q_headL l) (q_tailL l) then PLin OpDeq (RDeq None) else PCalled OpDeq
  | DeqRetEmpty => PLin OpDeq (RDeq None)
  | DeqHeadNext => PLin OpDeq (RDeq (node_val vals (q_headNextPtr l)))
  | DeqRetVal => PLin OpDeq (RDeq (node_val vals (q_headNext l)))
  end.

Definition exp_of (c : clq_cfg) (t : tid) : clq_phase :=
  match lookup t (q_thr c) with
  | None => PIdle
  | Some l => exp_phase (q_vals c) l
  end.

Definition hist_ok (c : clq_cfg) : Prop :=
  lin_run (q_hist c) = Some (clq_abs c) /\
  forall t, phase t (q_hist c) = Some (exp_of c t).

Definition clq_inv (c : clq_cfg) : Prop :=
  exists chain hi ti,
    shape c chain hi ti /\ threads_ok (q_thr c) (q_vals c) chain hi ti /\ hist_ok c.

(* ---------- the abstraction function on a well-shaped heap ---------- *)
Lemma shape_chain_len c chain hi ti : shape c chain hi ti -> length chain <= length (q_nexts c).
Proof. intros Sh. apply nodup_bounded_len; [apply Sh|apply Sh]. Qed.

Lemma walk_seg c chain hi0 ti0 :
  shape c chain hi0 ti0 ->
  forall d hi ti fuel, hi + d = ti -> ti < length chain -> d <= fuel ->
    walk fuel (q_vals c) (q_nexts c) (nth_error chain hi) (nth_error chain ti)
    = map (valof (q_vals c)) (seg chain hi ti).
Proof.
  intros Sh. induction d as [|d IH]; intros hi ti fuel Hd Hti Hf.
  - replace ti with hi by lia. rewrite seg_empty. destruct fuel; cbn; [reflexivity|].
    rewrite ptr_eqb_refl. reflexivity.
  - destruct fuel as [|f]; [lia|]. cbn [walk].
    destruct (nth_error_lt_some chain hi ltac:(lia)) as [x Hx].
    destruct (nth_error_lt_some chain (S hi) ltac:(lia)) as [y Hy].
    destruct (nth_error_lt_some chain ti Hti) as [z Hz].
    assert (Hne : ptr_eqb (nth_error chain hi) (nth_error chain ti) = false).
    { apply ptr_eqb_neq. rewrite Hx, Hz. intros E. injection E as <-.
      pose proof (nodup_nth_inj chain hi ti x (sh_nodup _ _ _ _ Sh) Hx Hz). lia. }
    rewrite Hne. rewrite Hx. cbn [node_next]. rewrite (sh_next _ _ _ _ Sh hi x Hx). rewrite Hy.
    assert (Hyv : y < length (q_vals c)).
    { rewrite (sh_len _ _ _ _ Sh). apply (sh_valid _ _ _ _ Sh). eapply nth_error_In; exact Hy. }
    destruct (nth_error_lt_some (q_vals c) y Hyv) as [v Hv]. rewrite Hv.
    rewrite (seg_cons chain hi ti y ltac:(lia) Hy). cbn [map]. f_equal.
    + unfold valof. symmetry. apply nth_error_nth. exact Hv.
    + rewrite <- Hy. apply IH; lia.
Qed.

Lemma abs_shape c chain hi ti :
  shape c chain hi ti -> clq_abs c = map (valof (q_vals c)) (seg chain hi ti).
Proof.
  intros Sh. unfold clq_abs. rewrite (sh_head _ _ _ _ Sh), (sh_tail _ _ _ _ Sh).
  pose proof (sh_idx _ _ _ _ Sh) as (H1 & H2 & H3).
  pose proof (shape_chain_len _ _ _ _ Sh) as Hl.
  apply (walk_seg c chain hi ti Sh (ti - hi)); lia.
Qed.

(* ---------- frame lemmas for the calls that do not move ---------- *)
Lemma fresh_mono vals chain vals' chain' v p :
  fresh vals chain v p ->
  (forall x w, nth_error vals x = Some w -> nth_error vals' x = Some w) ->
  (forall x, p = Some x -> ~ In x chain') ->
  fresh vals' chain' v p.
Proof.
  intros (x & Hp & Hv & Hn) Hvals Hfree. exists x. repeat split; auto.
Qed.

Lemma node_val_mono vals vals' p w :
  (forall x w, nth_error vals x = Some w -> nth_error vals' x = Some w) ->
  node_val vals p = Some w -> node_val vals' p = Some w.
Proof. intros Hvals. destruct p as [x|]; cbn; [apply Hvals|discriminate]. Qed.

(* a call that does not move keeps its invariant when the heap grows, the chain is extended at
   its end by nodes it does not own, and head / tail advance *)
Lemma thr_ok_mono vals chain hi ti vals' chain' hi' ti' l :
  thr_ok vals chain hi ti l ->
  (forall x w, nth_error vals x = Some w -> nth_error vals' x = Some w) ->
  (forall k, k < length chain -> nth_error chain' k = nth_error chain k) ->
  hi <= hi' -> ti <= ti' -> hi <= ti -> ti < length chain ->
  (forall x, owned l = Some x -> ~ In x chain') ->
  (is_swinger l = true -> length chain' = length chain /\ ti' = ti) ->
  thr_ok vals' chain' hi' ti' l.
Proof.
  intros Hok Hvals Hpre Hhi Hti Hhiti Htl Hown Hsw.
  unfold thr_ok, owned, is_swinger in *.
  destruct (q_pc l); try exact I.
  - eapply fresh_mono; eauto.
  - eapply fresh_mono; eauto.
  - eapply fresh_mono; eauto.
  - destruct Hok as (Hf & k & Hk & Hp). split; [eapply fresh_mono; eauto|].
    exists k. split; [lia|]. rewrite Hpre by lia. exact Hp.
  - destruct Hok as (Hf & k & Hk & Hp & Hq). split; [eapply fresh_mono; eauto|].
    exists k. split; [lia|]. rewrite Hpre by lia. auto.
  - destruct Hok as (Hf & k & Hk & Hp & Hq). split; [eapply fresh_mono; eauto|].
    exists k. split; [lia|]. rewrite Hpre by lia. auto.
  - eapply fresh_mono; eauto.
  - destruct Hok as (Hf & (k & Hk & Hp & Hq) & Hn). split; [eapply fresh_mono; eauto|]. split; [|exact Hn].
    exists k. split; [lia|]. rewrite Hpre by lia. auto.
  - destruct Hok as (Hlen & Hp & Hq & Hv). destruct (Hsw eq_refl) as (Hl' & ->).
    rewrite !Hpre by lia. repeat split; auto; try lia. eapply node_val_mono; eauto.
  - destruct Hok as (kh & Hk & Hp). exists kh. split; [lia|]. rewrite Hpre by lia. exact Hp.
  - destruct Hok as (kh & Hk & Hp & Hq). exists kh. split; [lia|]. rewrite Hpre by lia. auto.
  - destruct Hok as (kh & kt & H1 & H2 & H3 & H4 & H5 & H6). exists kh, kt.
    rewrite !Hpre by lia. repeat split; auto; lia.
  - destruct Hok as (kh & kt & H1 & H2 & H3 & H4 & H5 & H6 & H7). exists kh, kt.
    rewrite !Hpre by lia. repeat split; auto; lia.
  - destruct Hok as (kh & H1 & H2 & H3 & H4). exists kh.
    rewrite !Hpre by lia. repeat split; auto; lia.
  - destruct Hok as (kh & H1 & H2 & H3 & H4). exists kh.
    rewrite !Hpre by lia. repeat split; auto; lia.
  - destruct Hok as (x & v & Hp & Hin & Hv). exists x, v. repeat split; auto.
    apply In_nth_error in Hin. destruct Hin as [k Hk].
    assert (Hkl : k < length chain) by (apply nth_error_Some; congruence).
    apply (nth_error_In chain' k). rewrite (Hpre k Hkl). exact Hk.
  - destruct Hok as (x & v & Hp & Hin & Hv). exists x, v. repeat split; auto.
    apply In_nth_error in Hin. destruct Hin as [k Hk].
    assert (Hkl : k < length chain) by (apply nth_error_Some; congruence).
    apply (nth_error_In chain' k). rewrite (Hpre k Hkl). exact Hk.
Qed.

(* the phase a call must be in does not change when the heap grows *)
Lemma exp_phase_mono vals vals' chain hi ti l :
  thr_ok vals chain hi ti l ->
  (forall x w, nth_error vals x = Some w -> nth_error vals' x = Some w) ->
  exp_phase vals' l = exp_phase vals l.
Proof.
  intros Hok Hvals. unfold exp_phase, thr_ok in *.
  destruct (q_pc l); try reflexivity.
  - destruct Hok as (x & v & Hp & _ & Hv). rewrite Hp. cbn [node_val]. rewrite Hv, (Hvals _ _ Hv). reflexivity.
  - destruct Hok as (x & v & Hp & _ & Hv). rewrite Hp. cbn [node_val]. rewrite Hv, (Hvals _ _ Hv). reflexivity.
Qed.

(* ---------- updating the thread table ---------- *)
Lemma lookup_remove_same (t : tid) (thr : list (tid * clq_loc)) :
  NoDup (tids thr) -> lookup t (remove t thr) = None.
Proof.
  induction thr as [|[t' p'] r IH]; cbn; [reflexivity|].
  intros Hnd. inversion Hnd as [|x xs Hx Hxs]; subst.
  destruct (Nat.eqb t t') eqn:E.
  - apply Nat.eqb_eq in E. subst. apply lookup_none_not_in. exact Hx.
  - cbn. rewrite E. apply IH, Hxs.
Qed.

Lemma lookup_remove_other (t t2 : tid) (thr : list (tid * clq_loc)) :
  t2 <> t -> lookup t2 (remove t thr) = lookup t2 thr.
Proof.
  intros Hne. induction thr as [|[t' p'] r IH]; cbn; [reflexivity|].
  destruct (Nat.eqb t t') eqn:E.
  - apply Nat.eqb_eq in E. subst.
    destruct (Nat.eqb t2 t') eqn:E2; [apply Nat.eqb_eq in E2; congruence|reflexivity].
  - cbn. rewrite IH. reflexivity.
Qed.

Lemma lookup_spawn_same (t : tid) (p : clq_loc) (thr : list (tid * clq_loc)) :
  lookup t thr = None -> lookup t (spawn t p thr) = Some p.
Proof.
  unfold spawn. induction thr as [|[t' p'] r IH]; cbn.
  - rewrite Nat.eqb_refl. reflexivity.
  - destruct (Nat.eqb t t'); [discriminate|]. exact IH.
Qed.

Lemma lookup_spawn_other (t t2 : tid) (p : clq_loc) (thr : list (tid * clq_loc)) :
  t2 <> t -> lookup t2 (spawn t p thr) = lookup t2 thr.
Proof.
  intros Hne. unfold spawn. induction thr as [|[t' p'] r IH]; cbn.
  - destruct (Nat.eqb t2 t) eqn:E; [apply Nat.eqb_eq in E; congruence|reflexivity].
  - destruct (Nat.eqb t2 t'); [reflexivity|exact IH].
Qed.

(* thread t moves from l to l' while the shared state changes from (vals, chain, hi, ti) to the
   primed one: it is enough to re-establish the invariant of every OTHER call from its old
   invariant and its compatibility with the mover, and the mover's own *)
Lemma threads_ok_update thr vals chain hi ti vals' chain' hi' ti' t l l' :
  threads_ok thr vals chain hi ti ->
  lookup t thr = Some l ->
  thr_ok vals' chain' hi' ti' l' ->
  (forall t2 l2, t2 <> t -> lookup t2 thr = Some l2 ->
                 thr_ok vals chain hi ti l2 -> compat l l2 ->
                 thr_ok vals' chain' hi' ti' l2 /\ compat l' l2) ->
  threads_ok (update t l' thr) vals' chain' hi' ti'.
Proof.
  intros (Hnd & Hall & Hpair) Hl Hok' Hoth. split; [|split].
  - rewrite tids_update. exact Hnd.
  - intros t2 l2 H2. destruct (Nat.eq_dec t2 t) as [->|Hne].
    + rewrite (lookup_update_same _ _ _ _ _ Hl) in H2. injection H2 as <-. exact Hok'.
    + rewrite lookup_update_other in H2 by exact Hne.
      apply (Hoth t2 l2 Hne H2 (Hall _ _ H2)). apply Hpair with (t1 := t) (t2 := t2); auto.
  - intros t1 t2 l1 l2 Hne H1 H2.
    destruct (Nat.eq_dec t1 t) as [->|Hn1]; destruct (Nat.eq_dec t2 t) as [->|Hn2]; try congruence.
    + rewrite (lookup_update_same _ _ _ _ _ Hl) in H1. injection H1 as <-.
      rewrite lookup_update_other in H2 by exact Hn2.
      apply (Hoth t2 l2 Hn2 H2 (Hall _ _ H2)). apply Hpair with (t1 := t) (t2 := t2); auto.
    + rewrite (lookup_update_same _ _ _ _ _ Hl) in H2. injection H2 as <-.
      rewrite lookup_update_other in H1 by exact Hn1.
      apply compat_sym.
      apply (Hoth t1 l1 Hn1 H1 (Hall _ _ H1)). apply Hpair with (t1 := t) (t2 := t1); auto.
    + rewrite lookup_update_other in H1 by exact Hn1. rewrite lookup_update_other in H2 by exact Hn2.
      apply Hpair with (t1 := t1) (t2 := t2); auto.
Qed.

(* a purely local step (shared state unchanged): the mover keeps what it owns *)
Lemma threads_ok_local thr vals chain hi ti t l l' :
  threads_ok thr vals chain hi ti ->
  lookup t thr = Some l ->
  thr_ok vals chain hi ti l' ->
  owned l' = owned l ->
  (is_swinger l' = true -> is_swinger l = true) ->
  threads_ok (update t l' thr) vals chain hi ti.
Proof.
  intros Hth Hl Hok' Hown Hsw.
  eapply threads_ok_update; eauto.
  intros t2 l2 Hne H2 Hok2 [Ho Hs]. split; [exact Hok2|]. split.
  - rewrite Hown. exact Ho.
  - intros H1 H3. apply Hs; auto.
Qed.

Lemma threads_ok_remove thr vals chain hi ti t :
  threads_ok thr vals chain hi ti -> threads_ok (remove t thr) vals chain hi ti.
Proof.
  intros (Hnd & Hall & Hpair). split; [|split].
  - apply nodup_remove, Hnd.
  - intros t2 l2 H2. destruct (Nat.eq_dec t2 t) as [->|Hne].
    + rewrite lookup_remove_same in H2 by exact Hnd. discriminate.
    + rewrite lookup_remove_other in H2 by exact Hne. eapply Hall; eauto.
  - intros t1 t2 l1 l2 Hne H1 H2.
    destruct (Nat.eq_dec t1 t) as [->|Hn1]; [rewrite lookup_remove_same in H1 by exact Hnd; discriminate|].
    destruct (Nat.eq_dec t2 t) as [->|Hn2]; [rewrite lookup_remove_same in H2 by exact Hnd; discriminate|].
    rewrite lookup_remove_other in H1 by exact Hn1. rewrite lookup_remove_other in H2 by exact Hn2.
    apply Hpair with (t1 := t1) (t2 := t2); auto.
Qed.

Lemma threads_ok_spawn thr vals chain hi ti t l :
  threads_ok thr vals chain hi ti -> lookup t thr = None ->
  thr_ok vals chain hi ti l -> owned l = None -> is_swinger l = false ->
  threads_ok (spawn t l thr) vals chain hi ti.
Proof.
  intros (Hnd & Hall & Hpair) Hl Hok Hown Hsw. split; [|split].
  - apply nodup_spawn; assumption.
  - intros t2 l2 H2. destruct (Nat.eq_dec t2 t) as [->|Hne].
    + rewrite lookup_spawn_same in H2 by exact Hl. injection H2 as <-. exact Hok.
    + rewrite lookup_spawn_other in H2 by exact Hne. eapply Hall; eauto.
  - assert (Hnew : forall l2, compat l l2).
    { intros l2. split; [rewrite Hown; congruence|rewrite Hsw; discriminate]. }
    intros t1 t2 l1 l2 Hne H1 H2.
    destruct (Nat.eq_dec t1 t) as [->|Hn1]; destruct (Nat.eq_dec t2 t) as [->|Hn2]; try congruence.
    + rewrite lookup_spawn_same in H1 by exact Hl. injection H1 as <-. apply Hnew.
    + rewrite lookup_spawn_same in H2 by exact Hl. injection H2 as <-. apply compat_sym, Hnew.
    + rewrite lookup_spawn_other in H1 by exact Hn1. rewrite lookup_spawn_other in H2 by exact Hn2.
      apply Hpair with (t1 := t1) (t2 := t2); auto.
Qed.
