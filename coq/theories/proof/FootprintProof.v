(* FootprintProof.v — C15: a disciplined footprint table implies data-race freedom of every
   well-formed execution whose accesses are instances of the table's rows with the declared
   guards held ([guards_respected]); per-type instances by vm_compute of [disciplined];
   the refutations on the pinned code (CopyOnWriteArrayList.vals, syncx.Cond.checker). *)
From Coq Require Import List String Bool Arith Lia.
From Ekit Require Import HB FootprintModel.
Import ListNotations.
Open Scope string_scope.

(* ---------- rows matched by an access ---------- *)

Lemma kind_matches_mem k w a : kind_matches k w a = true -> mem_kind k = true.
Proof. destruct k; cbn; try reflexivity; discriminate. Qed.

Lemma row_in_mem_rows t r f w a :
  In r t -> r_loc r = f -> kind_matches (r_kind r) w a = true -> In r (mem_rows t f).
Proof.
  intros Hin Hloc Hk. unfold mem_rows. apply filter_In. split; [exact Hin|].
  rewrite (kind_matches_mem _ _ _ Hk). cbn. subst f. apply String.eqb_refl.
Qed.

Lemma row_in_mem_locs t r w a :
  In r t -> kind_matches (r_kind r) w a = true -> In (r_loc r) (mem_locs t).
Proof.
  intros Hin Hk. unfold mem_locs. apply in_map. apply filter_In. split; [exact Hin|].
  exact (kind_matches_mem _ _ _ Hk).
Qed.

(* what each row predicate says about an access it matches *)
Lemma row_atomic_access r w a :
  row_atomic r = true -> kind_matches (r_kind r) w a = true -> a = true.
Proof.
  unfold row_atomic. destruct (r_kind r), (r_guard r); cbn; try discriminate;
  intros _ H; apply andb_true_iff in H as [_ H]; exact H.
Qed.

Lemma row_const_access r w a :
  row_const r = true -> kind_matches (r_kind r) w a = true -> w = false.
Proof.
  unfold row_const. destruct (r_kind r), (r_guard r); cbn; try discriminate.
  intros _ H. apply andb_true_iff in H as [H _]. now apply negb_true_iff in H.
Qed.

Lemma row_locked_access e pub i ev x l r w a :
  row_locked l r = true -> kind_matches (r_kind r) w a = true ->
  guard_ok e pub i ev x (r_guard r) ->
  holds_at_least e (tid ev) (lname l) (if w then Excl else Shared) i /\
  match pub x with Some (_, r0) => hb e r0 i | None => True end.
Proof.
  unfold row_locked. destruct (r_kind r) eqn:Ek, (r_guard r) as [| |l' m| |] eqn:Eg; cbn;
    try discriminate.
  - (* KRead *)
    intros Hl Hk [Hh Hp]. apply String.eqb_eq in Hl. subst l'.
    apply andb_true_iff in Hk as [Hw _]. apply negb_true_iff in Hw. subst w.
    split; [|exact Hp]. eapply holds_at_least_weaken. exact Hh.
  - (* KWrite *)
    destruct m; try discriminate.
    intros Hl Hk [Hh Hp]. apply String.eqb_eq in Hl. subst l'.
    apply andb_true_iff in Hk as [Hw _]. subst w. split; [exact Hh|exact Hp].
Qed.

Lemma row_init_access e pub i ev x r w a :
  row_init r = true -> kind_matches (r_kind r) w a = true ->
  guard_ok e pub i ev x (r_guard r) ->
  exists t r0 evr, pub x = Some (t, r0) /\ tid ev = t /\ i < r0 /\ ev_at e r0 evr /\ tid evr = t.
Proof.
  unfold row_init. destruct (r_kind r), (r_guard r); cbn; try discriminate; intros _ _ H; exact H.
Qed.

Lemma row_published_access e pub i ev x r w a :
  row_published r = true -> kind_matches (r_kind r) w a = true ->
  guard_ok e pub i ev x (r_guard r) ->
  (exists t r0 evr, pub x = Some (t, r0) /\ tid ev = t /\ i < r0 /\ ev_at e r0 evr /\ tid evr = t) \/
  (w = false /\ exists t r0, pub x = Some (t, r0) /\
     (tid ev = t \/ exists q evq, q < i /\ ev_at e q evq /\ tid evq = tid ev /\ hb e r0 q)).
Proof.
  unfold row_published. intros Hr Hk Hg. apply orb_true_iff in Hr as [Hr|Hr].
  - left. eapply row_init_access; eauto.
  - right. destruct (r_kind r), (r_guard r); cbn in *; try discriminate.
    apply andb_true_iff in Hk as [Hw _]. apply negb_true_iff in Hw. split; [exact Hw|exact Hg].
Qed.

(* an event of a race on x is an access to x *)
Lemma race_on_access e x :
  race_on e x -> exists i ev w a, ev_at e i ev /\ access_of (act ev) = Some (x, w, a).
Proof.
  intros (i & j & a & b & Ha & _ & _ & (wa & aa & _ & _ & Haa & _) & _).
  now exists i, a, wa, aa.
Qed.

(* ---------- one location ---------- *)

Theorem disciplined_loc_no_race : forall t e f,
  wf e -> guards_respected t e -> disciplined_loc t f = true ->
  forall k, ~ race_on e (f, k).
Proof.
  intros t e f Hwf [pub Hgr] Hd k.
  set (x := (f, k)).
  assert (Hrow : forall i ev w a, ev_at e i ev -> access_of (act ev) = Some (x, w, a) ->
            exists r, In r (mem_rows t f) /\ kind_matches (r_kind r) w a = true /\
                      guard_ok e pub i ev x (r_guard r)).
  { intros i ev w a Hev Hacc. destruct (Hgr i ev x w a Hev Hacc) as (r & Hin & Hloc & Hk & Hg).
    exists r. split; [|split; assumption]. eapply row_in_mem_rows; eauto. }
  unfold disciplined_loc, classify in Hd. fold (mem_rows t f) in Hd.
  destruct (forallb row_atomic (mem_rows t f)) eqn:Eat.
  { (* atomic only *)
    rewrite forallb_forall in Eat. apply atomic_only.
    intros i ev w a Hev Hacc. destruct (Hrow i ev w a Hev Hacc) as (r & Hin & Hk & _).
    eapply row_atomic_access; eauto. }
  destruct (forallb row_const (mem_rows t f)) eqn:Eco.
  { (* read-only after construction *)
    rewrite forallb_forall in Eco. apply read_only.
    intros i ev w a Hev Hacc. destruct (Hrow i ev w a Hev Hacc) as (r & Hin & Hk & _).
    eapply row_const_access; eauto. }
  destruct (forallb row_published (mem_rows t f)) eqn:Epu.
  { (* publish once *)
    rewrite forallb_forall in Epu.
    destruct (pub x) as [[t0 r0]|] eqn:Epub.
    - apply publish_once_hb with t0 r0. split.
      + intros i ev a Hev Hacc. destruct (Hrow i ev true a Hev Hacc) as (r & Hin & Hk & Hg).
        destruct (row_published_access e pub i ev x r true a (Epu r Hin) Hk Hg)
          as [(t1 & r1 & evr & Hp & Ht & Hlt & Hevr & Htr)|[Hw _]]; [|discriminate Hw].
        rewrite Epub in Hp. injection Hp as <- <-. repeat split; try assumption. now exists evr.
      + intros i ev w a Hev Hacc Hne. destruct (Hrow i ev w a Hev Hacc) as (r & Hin & Hk & Hg).
        destruct (row_published_access e pub i ev x r w a (Epu r Hin) Hk Hg)
          as [(t1 & r1 & evr & Hp & Ht & _)|(Hw & t1 & r1 & Hp & Hor)];
          rewrite Epub in Hp; injection Hp as <- <-.
        * contradiction.
        * split; [exact Hw|]. destruct Hor as [Ht|Hq]; [contradiction|exact Hq].
    - (* nothing was ever published: there is no access to x at all *)
      intros Hrace. destruct (race_on_access e x Hrace) as (i & ev & w & a & Hev & Hacc).
      destruct (Hrow i ev w a Hev Hacc) as (r & Hin & Hk & Hg).
      destruct (row_published_access e pub i ev x r w a (Epu r Hin) Hk Hg)
        as [(t1 & r1 & evr & Hp & _)|(_ & t1 & r1 & Hp & _)]; rewrite Epub in Hp; discriminate Hp. }
  destruct (first_lock (mem_rows t f)) as [l|] eqn:Elk; [|discriminate Hd].
  destruct (forallb (row_locked l) (mem_rows t f)) eqn:Elo.
  { (* guarded by l *)
    rewrite forallb_forall in Elo. apply guarded_by with (lname l); [exact Hwf|].
    intros i ev w a Hev Hacc. destruct (Hrow i ev w a Hev Hacc) as (r & Hin & Hk & Hg).
    exact (proj1 (row_locked_access e pub i ev x l r w a (Elo r Hin) Hk Hg)). }
  destruct (forallb (row_init_locked l) (mem_rows t f)) eqn:Eil; [|discriminate Hd].
  (* initialised before publication, then guarded by l *)
  rewrite forallb_forall in Eil.
  destruct (pub x) as [[t0 r0]|] eqn:Epub.
  - apply init_then_guarded_by with (lname l) t0 r0; [exact Hwf|].
    intros i ev w a Hev Hacc. destruct (Hrow i ev w a Hev Hacc) as (r & Hin & Hk & Hg).
    specialize (Eil r Hin). unfold row_init_locked in Eil. apply orb_true_iff in Eil as [Hl|Hi].
    + right. destruct (row_locked_access e pub i ev x l r w a Hl Hk Hg) as [Hh Hp].
      rewrite Epub in Hp. split; assumption.
    + left. destruct (row_init_access e pub i ev x r w a Hi Hk Hg)
        as (t1 & r1 & evr & Hp & Ht & Hlt & Hevr & Htr).
      rewrite Epub in Hp. injection Hp as <- <-. repeat split; try assumption. now exists evr.
  - apply guarded_by with (lname l); [exact Hwf|].
    intros i ev w a Hev Hacc. destruct (Hrow i ev w a Hev Hacc) as (r & Hin & Hk & Hg).
    specialize (Eil r Hin). unfold row_init_locked in Eil. apply orb_true_iff in Eil as [Hl|Hi].
    + exact (proj1 (row_locked_access e pub i ev x l r w a Hl Hk Hg)).
    + destruct (row_init_access e pub i ev x r w a Hi Hk Hg) as (t1 & r1 & evr & Hp & _).
      rewrite Epub in Hp. discriminate Hp.
Qed.

(* ---------- a whole table, possibly with excepted locations ---------- *)

Definition disciplined_except (t : table) (bad : list string) : bool :=
  forallb (fun f => existsb (String.eqb f) bad || disciplined_loc t f) (mem_locs t).

Theorem disciplined_except_no_race : forall t bad e,
  disciplined_except t bad = true -> wf e -> guards_respected t e ->
  forall x, ~ In (fst x) bad -> ~ race_on e x.
Proof.
  intros t bad e Hd Hwf Hgr [f k] Hnb Hrace. cbn in Hnb.
  destruct (race_on_access e (f, k) Hrace) as (i & ev & w & a & Hev & Hacc).
  destruct Hgr as [pub Hgr'].
  destruct (Hgr' i ev (f, k) w a Hev Hacc) as (r & Hin & Hloc & Hk & _). cbn in Hloc.
  unfold disciplined_except in Hd. rewrite forallb_forall in Hd.
  assert (Hf : In f (mem_locs t)) by (rewrite <- Hloc; eapply row_in_mem_locs; eauto).
  specialize (Hd f Hf). apply orb_true_iff in Hd as [Hb|Hd].
  - apply existsb_exists in Hb as (b & Hb & Heq). apply String.eqb_eq in Heq. subst b. contradiction.
  - exact (disciplined_loc_no_race t e f Hwf (ex_intro _ pub Hgr') Hd k Hrace).
Qed.

Lemma disciplined_is_except_nil t : disciplined t = disciplined_except t [].
Proof. reflexivity. Qed.

Theorem disciplined_no_race : forall t e,
  disciplined t = true -> wf e -> guards_respected t e -> ~ race e.
Proof.
  intros t e Hd Hwf Hgr [x Hrace]. rewrite disciplined_is_except_nil in Hd.
  exact (disciplined_except_no_race t [] e Hd Hwf Hgr x (fun H => H) Hrace).
Qed.

Lemma guards_respected_instances t e : guards_respected t e -> instances_of t e.
Proof.
  intros [pub H] i ev x w a Hev Hacc. destruct (H i ev x w a Hev Hacc) as (r & Hin & Hl & Hk & _).
  now exists r.
Qed.

(* ---------- the per-type theorems: the discipline check is a computation ---------- *)

Ltac by_table :=
  intros e Hwf Hgr;
  match type of Hgr with guards_respected ?t _ =>
    apply (disciplined_no_race t e); [vm_compute; reflexivity|exact Hwf|exact Hgr] end.

Lemma drf_cow_lemma : forall e, wf e -> guards_respected cow_table e -> ~ race e.
Proof. by_table. Qed.
Lemma drf_clist_lemma : forall e, wf e -> guards_respected clist_table e -> ~ race e.
Proof. by_table. Qed.
Lemma drf_clq_lemma : forall e, wf e -> guards_respected clq_table e -> ~ race e.
Proof. by_table. Qed.
Lemma drf_abq_lemma : forall e, wf e -> guards_respected abq_table e -> ~ race e.
Proof. by_table. Qed.
Lemma drf_lbq_lemma : forall e, wf e -> guards_respected lbq_table e -> ~ race e.
Proof. by_table. Qed.
Lemma drf_dq_lemma : forall e, wf e -> guards_respected dq_table e -> ~ race e.
Proof. by_table. Qed.
Lemma drf_cpq_lemma : forall e, wf e -> guards_respected cpq_table e -> ~ race e.
Proof. by_table. Qed.
Lemma drf_map_lemma : forall e, wf e -> guards_respected map_table e -> ~ race e.
Proof. by_table. Qed.
Lemma drf_pool_lemma : forall e, wf e -> guards_respected pool_table e -> ~ race e.
Proof. by_table. Qed.
Lemma drf_limitpool_lemma : forall e, wf e -> guards_respected limitpool_table e -> ~ race e.
Proof. by_table. Qed.
Lemma drf_segkey_lemma : forall e, wf e -> guards_respected segkey_table e -> ~ race e.
Proof. by_table. Qed.
Lemma drf_value_lemma : forall e, wf e -> guards_respected value_table e -> ~ race e.
Proof. by_table. Qed.
Lemma drf_taskpool_lemma : forall e, wf e -> guards_respected taskpool_table e -> ~ race e.
Proof. by_table. Qed.
Lemma drf_expo_lemma : forall e, wf e -> guards_respected expo_table e -> ~ race e.
Proof. by_table. Qed.
Lemma drf_fixed_lemma : forall e, wf e -> guards_respected fixed_table e -> ~ race e.
Proof. by_table. Qed.
Lemma drf_copier_lemma : forall e, wf e -> guards_respected copier_table e -> ~ race e.
Proof. by_table. Qed.

Lemma drf_cond_lemma : forall e, wf e -> guards_respected cond_table e -> ~ race e.
Proof. by_table. Qed.

(* the pinned variants are NOT disciplined *)
Lemma pinned_not_disciplined :
  disciplined cow_pinned_table = false /\ disciplined cond_pinned_table = false /\
  undisciplined cond_pinned_table = ["Cond.checker"].
Proof. repeat split; vm_compute; reflexivity. Qed.

(* ---------- refutations ---------- *)

(* two adjacent events are happens-before ordered only by a direct edge *)
Lemma hb_adjacent e i : hb e i (S i) -> hb1 e i (S i).
Proof.
  intros H. remember (S i) as j eqn:Ej. induction H as [a b H|a c b H1 _ H2 _].
  - exact H.
  - exfalso. apply hb_lt in H1, H2. lia.
Qed.

Lemma no_hb_plain_adjacent e i a b :
  ev_at e i a -> ev_at e (S i) b -> tid a <> tid b ->
  (forall b', ~ syncs a b') -> ~ hb e i (S i).
Proof.
  intros Ha Hb Hne Hns H. apply hb_adjacent in H. destruct H as [[_ H]|[_ H]].
  - destruct H as (a' & b' & Ha' & Hb' & Ht).
    rewrite (ev_at_fun _ _ _ _ Ha Ha'), (ev_at_fun _ _ _ _ Hb Hb') in Hne. contradiction.
  - destruct H as (a' & b' & Ha' & Hb' & Hs).
    rewrite <- (ev_at_fun _ _ _ _ Ha Ha') in Hs. exact (Hns b' Hs).
Qed.

Definition mu_cow : name := lname "CopyOnWriteArrayList.mutex".
Definition vals_cow : name := ("CopyOnWriteArrayList.vals", 0).

(* the two-event witness inside its lock context: the writer (thread 1, Append) holds the mutex,
   the reader (thread 2, Get on the pinned code) does not take it *)
Definition cow_pinned_exec : execution :=
  [ mkEv 1 (Acq mu_cow Excl); mkEv 2 (Read vals_cow); mkEv 1 (Write vals_cow); mkEv 1 (Rel mu_cow Excl) ].

Lemma cow_race_refuted_lemma :
  exists e, wf e /\ guards_respected cow_pinned_table e /\ race e.
Proof.
  exists cow_pinned_exec. split; [apply wfb_sound; vm_compute; reflexivity|]. split.
  - exists (fun _ => None). intros i ev x w a Hev Hacc.
    unfold ev_at in Hev.
    destruct i as [|[|[|[|i]]]]; cbn in Hev; [| | | |destruct i; discriminate Hev];
      injection Hev as <-; cbn in Hacc; try discriminate Hacc; injection Hacc as <- <- <-.
    + exists (mkRow "CopyOnWriteArrayList" "Get" "return a.vals[index], e" "CopyOnWriteArrayList.vals" KRead GNone).
      repeat split. cbn. tauto.
    + exists (mkRow "CopyOnWriteArrayList" "Append" "a.vals = newItems" "CopyOnWriteArrayList.vals" KWrite
                (GLock "CopyOnWriteArrayList.mutex" Excl)).
      repeat split; [cbn; tauto|]. cbn. apply holdsb_true. vm_compute. reflexivity.
  - exists vals_cow, 1, 2, (mkEv 2 (Read vals_cow)), (mkEv 1 (Write vals_cow)).
    repeat split; try reflexivity.
    + cbn. discriminate.
    + exists false, false, true, false. cbn. repeat split; auto.
    + eapply no_hb_plain_adjacent; try reflexivity; cbn; try discriminate. intros b' H; exact H.
    + intros H. apply hb_lt in H. lia.
Qed.

Definition checker_cond : name := ("Cond.checker", 0).

(* concurrent FIRST use of a syncx.Cond: thread 1 evaluates `c.checker != unsafe.Pointer(c)`
   (plain read) while thread 2 executes the CompareAndSwapPointer of its own first use *)
Definition cond_first_use_exec : execution :=
  [ mkEv 1 (Read checker_cond); mkEv 2 (ARmw checker_cond) ].

Lemma cond_checker_race_refuted_lemma :
  exists e, wf e /\ guards_respected cond_pinned_table e /\ race e.
Proof.
  exists cond_first_use_exec. split; [apply wfb_sound; vm_compute; reflexivity|]. split.
  - exists (fun _ => None). intros i ev x w a Hev Hacc.
    unfold ev_at in Hev.
    destruct i as [|[|i]]; cbn in Hev; [| |destruct i; discriminate Hev];
      injection Hev as <-; cbn in Hacc; injection Hacc as <- <- <-.
    + eexists. split; [left; reflexivity|]. repeat split.
    + eexists. split; [right; left; reflexivity|]. repeat split.
  - exists checker_cond, 0, 1, (mkEv 1 (Read checker_cond)), (mkEv 2 (ARmw checker_cond)).
    repeat split; try reflexivity.
    + cbn. discriminate.
    + exists false, false, true, true. cbn. repeat split; auto.
    + eapply no_hb_plain_adjacent; try reflexivity; cbn; try discriminate. intros b' H; exact H.
    + intros H. apply hb_lt in H. lia.
Qed.

(* ---------- non-vacuity: concrete well-formed executions that satisfy the hypotheses ---------- *)

Definition mu_abq : name := lname "ConcurrentArrayBlockingQueue.mutex".
Definition count_abq : name := ("ConcurrentArrayBlockingQueue.count", 0).

(* Enqueue's `c.count++` under Lock by thread 1, then Len's `return c.count` under RLock by thread 2 *)
Definition abq_exec : execution :=
  [ mkEv 1 (Acq mu_abq Excl); mkEv 1 (Read count_abq); mkEv 1 (Write count_abq); mkEv 1 (Rel mu_abq Excl);
    mkEv 2 (Acq mu_abq Shared); mkEv 2 (Read count_abq); mkEv 2 (Rel mu_abq Shared) ].

Lemma find_row (t : table) (p : row -> bool) :
  existsb p t = true -> exists r, In r t /\ p r = true.
Proof. intros H. apply existsb_exists in H. exact H. Qed.

Definition row_is (f x : string) (k : akind) (g : guard) (r : row) : bool :=
  String.eqb (r_func r) f && String.eqb (r_loc r) x &&
  match k, r_kind r with
  | KRead, KRead | KWrite, KWrite | KARead, KARead | KAWrite, KAWrite | KARmw, KARmw => true
  | _, _ => false end &&
  match g, r_guard r with
  | GNone, GNone | GConst, GConst => true
  | GLock l m, GLock l' m' => String.eqb l l' && (if mode_eq_dec m m' then true else false)
  | GPubBefore _, GPubBefore _ | GPubAfter _, GPubAfter _ => true
  | _, _ => false end.

Lemma row_is_spec f x k g r : row_is f x k g r = true ->
  r_loc r = x /\ (forall w a, kind_matches k w a = true -> kind_matches (r_kind r) w a = true) /\
  match g with
  | GLock l m => r_guard r = GLock l m
  | GNone => r_guard r = GNone
  | GConst => r_guard r = GConst
  | GPubBefore _ => exists o, r_guard r = GPubBefore o
  | GPubAfter _ => exists o, r_guard r = GPubAfter o
  end.
Proof.
  unfold row_is. intros H.
  apply andb_true_iff in H as [H Hg]. apply andb_true_iff in H as [H Hk].
  apply andb_true_iff in H as [_ Hl]. apply String.eqb_eq in Hl.
  split; [exact Hl|]. split.
  - destruct k, (r_kind r); try discriminate; auto.
  - destruct g as [| |l m|o|o], (r_guard r) as [| |l' m'|o'|o']; try discriminate; auto.
    + apply andb_true_iff in Hg as [Hl' Hm]. apply String.eqb_eq in Hl'.
      destruct (mode_eq_dec m m'); [subst; reflexivity|discriminate].
    + now exists o'.
    + now exists o'.
Qed.

Lemma abq_exec_ok : wf abq_exec /\ guards_respected abq_table abq_exec.
Proof.
  split; [apply wfb_sound; vm_compute; reflexivity|].
  exists (fun _ => None). intros i ev x w a Hev Hacc.
  unfold ev_at in Hev.
  destruct i as [|[|[|[|[|[|[|i]]]]]]]; cbn in Hev; [| | | | | | |destruct i; discriminate Hev];
    injection Hev as <-; cbn in Hacc; try discriminate Hacc; injection Hacc as <- <- <-.
  - destruct (find_row abq_table (row_is "Enqueue" "ConcurrentArrayBlockingQueue.count" KRead
               (GLock "ConcurrentArrayBlockingQueue.mutex" Excl))) as (r & Hin & Hr); [vm_compute; reflexivity|].
    apply row_is_spec in Hr as (Hl & Hk & Hg). exists r. repeat split; auto. rewrite Hg. cbn.
    split; [|exact I]. apply holdsb_true. vm_compute. reflexivity.
  - destruct (find_row abq_table (row_is "Enqueue" "ConcurrentArrayBlockingQueue.count" KWrite
               (GLock "ConcurrentArrayBlockingQueue.mutex" Excl))) as (r & Hin & Hr); [vm_compute; reflexivity|].
    apply row_is_spec in Hr as (Hl & Hk & Hg). exists r. repeat split; auto. rewrite Hg. cbn.
    split; [|exact I]. apply holdsb_true. vm_compute. reflexivity.
  - destruct (find_row abq_table (row_is "Len" "ConcurrentArrayBlockingQueue.count" KRead
               (GLock "ConcurrentArrayBlockingQueue.mutex" Shared))) as (r & Hin & Hr); [vm_compute; reflexivity|].
    apply row_is_spec in Hr as (Hl & Hk & Hg). exists r. repeat split; auto. rewrite Hg. cbn.
    split; [|exact I]. left. apply holdsb_true. vm_compute. reflexivity.
Qed.

Definition val_clq : name := ("node.val", 1).     (* the value slot of the node being enqueued *)
Definition next_clq : name := ("node.next", 0).   (* tail.next of the node it is linked behind *)

(* Enqueue by thread 1: initialise the fresh node, publish it with the CAS on tail.next;
   Dequeue by thread 2: acquiring load of head.next, then the plain read of the value *)
Definition clq_exec : execution :=
  [ mkEv 1 (Write val_clq); mkEv 1 (ARmw next_clq); mkEv 2 (ARead next_clq); mkEv 2 (Read val_clq) ].

Lemma clq_exec_ok : wf clq_exec /\ guards_respected clq_table clq_exec.
Proof.
  split; [apply wfb_sound; vm_compute; reflexivity|].
  exists (fun x => if name_eq_dec x val_clq then Some (1, 1) else None).
  intros i ev x w a Hev Hacc.
  unfold ev_at in Hev.
  destruct i as [|[|[|[|i]]]]; cbn in Hev; [| | | |destruct i; discriminate Hev];
    injection Hev as <-; cbn in Hacc; try discriminate Hacc; injection Hacc as <- <- <-.
  - destruct (find_row clq_table (row_is "Enqueue" "node.val" KWrite (GPubBefore ""))) as (r & Hin & Hr);
      [vm_compute; reflexivity|].
    apply row_is_spec in Hr as (Hl & Hk & (o & Hg)). exists r. repeat split; auto. rewrite Hg. cbn.
    exists 1, 1, (mkEv 1 (ARmw next_clq)). repeat split; auto.
  - destruct (find_row clq_table (row_is "Enqueue" "node.next" KARmw GNone)) as (r & Hin & Hr);
      [vm_compute; reflexivity|].
    apply row_is_spec in Hr as (Hl & Hk & Hg). exists r. repeat split; auto. rewrite Hg. exact I.
  - destruct (find_row clq_table (row_is "Dequeue" "node.next" KARead GNone)) as (r & Hin & Hr);
      [vm_compute; reflexivity|].
    apply row_is_spec in Hr as (Hl & Hk & Hg). exists r. repeat split; auto. rewrite Hg. exact I.
  - destruct (find_row clq_table (row_is "Dequeue" "node.val" KRead (GPubAfter ""))) as (r & Hin & Hr);
      [vm_compute; reflexivity|].
    apply row_is_spec in Hr as (Hl & Hk & (o & Hg)). exists r. repeat split; auto. rewrite Hg. cbn.
    exists 1, 1. split; [reflexivity|]. right.
    exists 2, (mkEv 2 (ARead next_clq)). repeat split; auto.
    apply hb_sw. split; [lia|]. exists (mkEv 1 (ARmw next_clq)), (mkEv 2 (ARead next_clq)).
    repeat split; reflexivity.
Qed.

(* a racy execution that the definition flags: two unsynchronised plain writes *)
Definition racy_exec : execution := [ mkEv 1 (Write count_abq); mkEv 2 (Write count_abq) ].

Lemma racy_exec_races : wf racy_exec /\ race racy_exec.
Proof.
  split; [apply wfb_sound; vm_compute; reflexivity|].
  exists count_abq, 0, 1, (mkEv 1 (Write count_abq)), (mkEv 2 (Write count_abq)).
  repeat split; try reflexivity.
  - cbn. discriminate.
  - exists true, false, true, false. cbn. repeat split; auto.
  - eapply no_hb_plain_adjacent; try reflexivity; cbn; try discriminate. intros b' H; exact H.
  - intros H. apply hb_lt in H. lia.
Qed.
