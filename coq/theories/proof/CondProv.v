(* C13, provenance of wake-ups: a history observer follows every TOKEN of an execution of CondModel from the step
   of a Signal / Broadcast call that produces it (the `return l.size` that decides `if l.list.len() == 0` resp.
   the loop test of notifyAll), through the notifier's send, the channel buffer, the receive of a waiter, the
   forwarding by a timing-out waiter, to the nil return that consumes it.  A token is named by the index of the
   event that produced it.  Theorem: every nil return of Wait consumes one token; distinct nil returns consume
   distinct tokens; the token was produced by a step of a Signal or Broadcast call whose invocation precedes that
   step, which precedes the return, in the schedule. *)
From Ekit Require Import Common Conc CondModel CondProof CondProofNodes CondProof2 CondProof3.
From Coq Require Import ZifyBool Arith PeanoNat.

(* a token: (index of the producing step, index of the ECall event of the producing call, its operation) *)
Notation tokn := (nat * nat * cop)%type.
Definition tm (k : tokn) : nat := fst (fst k).

Record prov := {
  p_idx : nat;                          (* number of events executed so far *)
  p_call : list (tid * (nat * cop));    (* thread -> index and operation of its latest ECall event *)
  p_hold : list (tid * tokn);           (* token a thread holds (produced and not sent / received and not returned) *)
  p_chan : list (node * tokn);          (* token in the buffer of a node's channel *)
  p_cons : list (nat * tokn)            (* (index of the nil-return event, token it consumed) *)
}.

Definition p0 : prov := {| p_idx := 0; p_call := []; p_hold := []; p_chan := []; p_cons := [] |}.

Definition aset {A} (k : nat) (v : A) (l : list (nat * A)) : list (nat * A) := (k, v) :: remove k l.

Definition set_hold v (p : prov) := {| p_idx := p_idx p; p_call := p_call p; p_hold := v; p_chan := p_chan p; p_cons := p_cons p |}.
Definition set_chan v (p : prov) := {| p_idx := p_idx p; p_call := p_call p; p_hold := p_hold p; p_chan := v; p_cons := p_cons p |}.
Definition set_cons v (p : prov) := {| p_idx := p_idx p; p_call := p_call p; p_hold := p_hold p; p_chan := p_chan p; p_cons := v |}.
Definition set_pcall v (p : prov) := {| p_idx := p_idx p; p_call := v; p_hold := p_hold p; p_chan := p_chan p; p_cons := p_cons p |}.
Definition bump (p : prov) := {| p_idx := S (p_idx p); p_call := p_call p; p_hold := p_hold p; p_chan := p_chan p; p_cons := p_cons p |}.

Definition is_notify (op : cop) : bool := match op with OpSignal | OpBroadcast => true | _ => false end.

(* the primitive moves *)
Definition mint (t : tid) (p : prov) : prov :=
  match lookup t (p_call p) with
  | Some (k, op) => if is_notify op then set_hold (aset t (p_idx p, k, op) (p_hold p)) p else p
  | None => p
  end.
Definition hold_to_chan (t : tid) (f : node) (p : prov) : prov :=
  match lookup t (p_hold p) with
  | Some tk => set_chan (aset f tk (p_chan p)) (set_hold (remove t (p_hold p)) p)
  | None => p
  end.
Definition hold_to_hold (t u : tid) (p : prov) : prov :=
  match lookup t (p_hold p) with
  | Some tk => set_hold (aset u tk (remove t (p_hold p))) p
  | None => p
  end.
Definition chan_to_hold (n : node) (t : tid) (p : prov) : prov :=
  match lookup n (p_chan p) with
  | Some tk => set_hold (aset t tk (p_hold p)) (set_chan (remove n (p_chan p)) p)
  | None => p
  end.
Definition drop_hold (t : tid) (p : prov) : prov := set_hold (remove t (p_hold p)) p.
Definition consume (t : tid) (p : prov) : prov :=
  match lookup t (p_hold p) with
  | Some tk => set_cons ((p_idx p, tk) :: p_cons p) (set_hold (remove t (p_hold p)) p)
  | None => p
  end.

(* what the observer does for event e executed in configuration c *)
Definition observe_p (pr : prov) (c : ccfg) (e : cev) : prov :=
  bump
    match e with
    | ECall t op => set_pcall (aset t (p_idx pr, op) (p_call pr)) pr
    | EStep t o =>
      match lookup t (c_thr c) with
      | Some (LEN LenOne) => if c_size c =? 0 then pr else mint t pr
      | Some (LEN LenAll) => if c_size c =? 0 then pr else mint t pr
      | Some (LEN (LenWait _)) => if c_size c =? 0 then drop_hold t pr else pr
      | Some (NN_Send _ f) =>
        match find_parked f (c_thr c) with Some u => hold_to_hold t u pr | None => hold_to_chan t f pr end
      | Some (WT_Select n) =>
        if mem_nat n (c_tok c) && (negb (mem_nat t (c_canc c)) || negb (Nat.eqb o 0)) then chan_to_hold n t pr else pr
      | Some (WT_Select1 n) => if mem_nat n (c_tok c) then chan_to_hold n t pr else pr
      | Some (FR_Put _ true) => consume t pr
      | _ => pr
      end
    | ECancel _ => pr
    end.

Fixpoint runp (c : ccfg) (pr : prov) (evs : list cev) : option (ccfg * prov) :=
  match evs with
  | [] => Some (c, pr)
  | e :: r => match cond_exec1 c e with
              | Some (c', _) => runp c' (observe_p pr c e) r
              | None => None
              end
  end.

Open Scope nat_scope.
(* ---------- structural facts: tokens are moved, never copied ---------- *)
Definition ind (a b : nat) : nat := if Nat.eq_dec a b then 1 else 0.
Lemma ind_le a b : ind a b <= 1. Proof. unfold ind. destruct (Nat.eq_dec a b); lia. Qed.
Lemma ind_neq a b : a <> b -> ind a b = 0. Proof. unfold ind. destruct (Nat.eq_dec a b); [congruence|reflexivity]. Qed.
Lemma ind_eq a : ind a a = 1. Proof. unfold ind. destruct (Nat.eq_dec a a); [reflexivity|congruence]. Qed.

Definition cntv (m : nat) (l : list (nat * tokn)) : nat := count_occ Nat.eq_dec (map (fun x => tm (snd x)) l) m.
Definition total (m : nat) (p : prov) : nat := cntv m (p_hold p) + cntv m (p_chan p) + cntv m (p_cons p).

Lemma cntv_cons m (k : nat) v l : cntv m ((k, v) :: l) = ind (tm v) m + cntv m l.
Proof. unfold cntv, ind. cbn [map snd count_occ]. destruct (Nat.eq_dec (tm v) m); lia. Qed.

Lemma cntv_remove_le m k (l : list (nat * tokn)) : cntv m (remove k l) <= cntv m l.
Proof.
  induction l as [|[k' v] r IH]; [cbn; lia|]. cbn [remove].
  destruct (Nat.eqb k k'); rewrite ?cntv_cons; lia.
Qed.

Lemma cntv_remove_found m k v (l : list (nat * tokn)) :
  lookup k l = Some v -> cntv m (remove k l) + ind (tm v) m = cntv m l.
Proof.
  induction l as [|[k' v'] r IH]; cbn [lookup remove]; [discriminate|].
  destruct (Nat.eqb k k').
  - intros H; injection H as ->. rewrite cntv_cons. lia.
  - intros H. rewrite !cntv_cons. specialize (IH H). lia.
Qed.

Lemma cntv_aset_le m k v (l : list (nat * tokn)) : cntv m (aset k v l) <= ind (tm v) m + cntv m l.
Proof. unfold aset. rewrite cntv_cons. pose proof (cntv_remove_le m k l). lia. Qed.

(* each primitive keeps the total number of copies of every token, except mint (one new copy of the new name) *)
Lemma total_hold_to_chan m t f p : total m (hold_to_chan t f p) <= total m p.
Proof.
  unfold hold_to_chan, total. destruct (lookup t (p_hold p)) as [tk|] eqn:E; [|lia]. cbn [p_hold p_chan p_cons set_hold set_chan set_cons].
  pose proof (cntv_remove_found m _ _ _ E). pose proof (cntv_aset_le m f tk (p_chan p)). lia.
Qed.
Lemma total_hold_to_hold m t u p : total m (hold_to_hold t u p) <= total m p.
Proof.
  unfold hold_to_hold, total. destruct (lookup t (p_hold p)) as [tk|] eqn:E; [|lia]. cbn [p_hold p_chan p_cons set_hold set_chan set_cons].
  pose proof (cntv_remove_found m _ _ _ E). pose proof (cntv_aset_le m u tk (remove t (p_hold p))). lia.
Qed.
Lemma total_chan_to_hold m n t p : total m (chan_to_hold n t p) <= total m p.
Proof.
  unfold chan_to_hold, total. destruct (lookup n (p_chan p)) as [tk|] eqn:E; [|lia]. cbn [p_hold p_chan p_cons set_hold set_chan set_cons].
  pose proof (cntv_remove_found m _ _ _ E). pose proof (cntv_aset_le m t tk (p_hold p)). lia.
Qed.
Lemma total_drop m t p : total m (drop_hold t p) <= total m p.
Proof. unfold drop_hold, total. cbn [p_hold p_chan p_cons set_hold set_chan set_cons]. pose proof (cntv_remove_le m t (p_hold p)). lia. Qed.
Lemma total_consume m t p : total m (consume t p) <= total m p.
Proof.
  unfold consume, total. destruct (lookup t (p_hold p)) as [tk|] eqn:E; [|lia]. cbn [p_hold p_chan p_cons set_hold set_chan set_cons].
  pose proof (cntv_remove_found m _ _ _ E). rewrite cntv_cons. lia.
Qed.
Lemma total_mint m t p : total m (mint t p) <= ind (p_idx p) m + total m p.
Proof.
  unfold mint, total. destruct (lookup t (p_call p)) as [[k op]|]; [|lia]. destruct (is_notify op); [|lia]. cbn [p_hold p_chan p_cons set_hold set_chan set_cons].
  pose proof (cntv_aset_le m t (p_idx p, k, op) (p_hold p)). cbn [tm fst] in *. lia.
Qed.

(* ---------- where the tokens are ---------- *)
Definition toks (p : prov) (tk : tokn) : Prop :=
  (exists t, In (t, tk) (p_hold p)) \/ (exists n, In (n, tk) (p_chan p)).

Lemma in_remove_assoc {A} (l : list (nat * A)) k x : In x (remove k l) -> In x l.
Proof.
  induction l as [|[k' v] r IH]; cbn [remove]; [tauto|].
  destruct (Nat.eqb k k'); cbn; tauto.
Qed.

Lemma in_aset {A} (l : list (nat * A)) k v x : In x (aset k v l) -> x = (k, v) \/ In x l.
Proof. unfold aset. intros [H|H]; [left; symmetry; exact H|right; eapply in_remove_assoc, H]. Qed.

Lemma toks_hold_to_chan t f p tk : toks (hold_to_chan t f p) tk -> toks p tk.
Proof.
  unfold hold_to_chan, toks. destruct (lookup t (p_hold p)) as [tk0|] eqn:E; [|tauto]. cbn.
  intros [(u & H)|(n & H)].
  - left. exists u. eapply in_remove_assoc, H.
  - apply in_aset in H. destruct H as [H|H]; [injection H as -> ->; left; exists t; apply lookup_in, E|right; eauto].
Qed.
Lemma toks_hold_to_hold t u p tk : toks (hold_to_hold t u p) tk -> toks p tk.
Proof.
  unfold hold_to_hold, toks. destruct (lookup t (p_hold p)) as [tk0|] eqn:E; [|tauto]. cbn.
  intros [(w & H)|(n & H)]; [|right; eauto].
  apply in_aset in H. destruct H as [H|H]; [injection H as -> ->; left; exists t; apply lookup_in, E|].
  left. exists w. eapply in_remove_assoc, H.
Qed.
Lemma toks_chan_to_hold n t p tk : toks (chan_to_hold n t p) tk -> toks p tk.
Proof.
  unfold chan_to_hold, toks. destruct (lookup n (p_chan p)) as [tk0|] eqn:E; [|tauto]. cbn.
  intros [(w & H)|(n' & H)].
  - apply in_aset in H. destruct H as [H|H]; [injection H as -> ->; right; exists n; apply lookup_in, E|left; eauto].
  - right. exists n'. eapply in_remove_assoc, H.
Qed.
Lemma toks_drop t p tk : toks (drop_hold t p) tk -> toks p tk.
Proof. unfold drop_hold, toks. cbn. intros [(w & H)|H]; [left; exists w; eapply in_remove_assoc, H|right; exact H]. Qed.
Lemma toks_consume t p tk : toks (consume t p) tk -> toks p tk.
Proof.
  unfold consume, toks. destruct (lookup t (p_hold p)) as [tk0|] eqn:E; [|tauto]. cbn.
  intros [(w & H)|H]; [left; exists w; eapply in_remove_assoc, H|right; exact H].
Qed.
Lemma toks_mint t p tk :
  toks (mint t p) tk -> toks p tk \/ exists k op, lookup t (p_call p) = Some (k, op) /\ is_notify op = true /\ tk = (p_idx p, k, op).
Proof.
  unfold mint, toks. destruct (lookup t (p_call p)) as [[k op]|] eqn:E; [|tauto].
  destruct (is_notify op) eqn:En; [|tauto]. cbn.
  intros [(w & H)|H]; [|left; right; exact H].
  apply in_aset in H. destruct H as [H|H]; [injection H as -> ->; right; eauto|left; left; eauto].
Qed.

(* ---------- the structural invariant ---------- *)
Definition good (D : list cev) (tk : tokn) : Prop :=
  let '(m, k, op) := tk in
  k < m /\ m < length D /\ is_notify op = true /\
  exists t' o, nth_error D k = Some (ECall t' op) /\ nth_error D m = Some (EStep t' o).

Record SA (D : list cev) (p : prov) : Prop := {
  sa_idx : p_idx p = length D;
  sa_total : forall m, total m p <= 1;
  sa_toks : forall tk, toks p tk -> good D tk;
  sa_cons : forall r tk, In (r, tk) (p_cons p) ->
            good D tk /\ tm tk < r /\ r < length D /\ exists t o, nth_error D r = Some (EStep t o);
  sa_call : forall t k op, lookup t (p_call p) = Some (k, op) -> k < length D /\ nth_error D k = Some (ECall t op)
}.

Lemma good_mono D e tk : good D tk -> good (D ++ [e]) tk.
Proof.
  destruct tk as [[m k] op]. cbn. intros (A & B & C & (t' & o & E1 & E2)). rewrite app_length. cbn.
  split; [exact A|]. split; [lia|]. split; [exact C|]. exists t', o.
  split; rewrite nth_error_app1; try assumption; lia.
Qed.

Lemma cntv_zero m (l : list (nat * tokn)) : (forall x, In x l -> tm (snd x) <> m) -> cntv m l = 0.
Proof.
  induction l as [|[k v] r IH]; [reflexivity|]. intros H. rewrite cntv_cons.
  rewrite ind_neq by (apply (H (k, v)); left; reflexivity). rewrite IH; [reflexivity|].
  intros x Hx. apply H. right; exact Hx.
Qed.

Lemma total_zero_beyond D p m : SA D p -> length D <= m -> total m p = 0.
Proof.
  intros S Hm. unfold total.
  assert (Hg : forall tk, good D tk -> tm tk <> m) by (intros [[a b] op]; cbn; intros (_ & X & _); lia).
  rewrite !cntv_zero; [reflexivity| | |].
  - intros [r tk] Hx. cbn. apply Hg. apply (sa_cons _ _ S r tk Hx).
  - intros [n tk] Hx. cbn. apply Hg, (sa_toks _ _ S). right; eauto.
  - intros [t tk] Hx. cbn. apply Hg, (sa_toks _ _ S). left; eauto.
Qed.

(* a primitive that only moves tokens around *)
Lemma SA_move D e p f :
  SA D p ->
  (forall m, total m (f p) <= total m p) -> (forall tk, toks (f p) tk -> toks p tk) ->
  p_idx (f p) = p_idx p -> p_cons (f p) = p_cons p -> p_call (f p) = p_call p ->
  SA (D ++ [e]) (bump (f p)).
Proof.
  intros S Ht Hk Hi Hc Hl. constructor.
  - cbn. rewrite Hi, (sa_idx _ _ S), app_length. cbn. lia.
  - intros m. pose proof (Ht m). pose proof (sa_total _ _ S m).
    assert (X : total m (bump (f p)) = total m (f p)) by reflexivity. lia.
  - intros tk H. apply good_mono, (sa_toks _ _ S), Hk. exact H.
  - intros r tk H. cbn in H. rewrite Hc in H. destruct (sa_cons _ _ S r tk H) as (A & B & C & (t & o & E)).
    split; [apply good_mono, A|]. split; [exact B|]. rewrite app_length. cbn. split; [lia|].
    exists t, o. rewrite nth_error_app1; assumption.
  - intros t k op H. cbn in H. rewrite Hl in H. destruct (sa_call _ _ S t k op H) as [A B].
    rewrite app_length. cbn. split; [lia|]. rewrite nth_error_app1; assumption.
Qed.

Lemma SA_id D e p : SA D p -> SA (D ++ [e]) (bump p).
Proof. intros S. apply (SA_move D e p (fun x => x)); auto. Qed.

Lemma SA_mint D t o p : SA D p -> SA (D ++ [EStep t o]) (bump (mint t p)).
Proof.
  intros S. pose proof (sa_idx _ _ S) as Hi.
  assert (Hmint_idx : p_idx (mint t p) = p_idx p /\ p_cons (mint t p) = p_cons p /\ p_call (mint t p) = p_call p).
  { unfold mint. destruct (lookup t (p_call p)) as [[k op]|]; [destruct (is_notify op)|]; cbn; auto. }
  destruct Hmint_idx as (M1 & M2 & M3). constructor.
  - cbn. rewrite M1, Hi, app_length. cbn. lia.
  - intros m. pose proof (total_mint m t p). pose proof (sa_total _ _ S m).
    assert (total m (bump (mint t p)) = total m (mint t p)) by reflexivity.
    destruct (Nat.eq_dec (p_idx p) m) as [E|E].
    + rewrite (total_zero_beyond D p m S) in * by lia. pose proof (ind_le (p_idx p) m). lia.
    + rewrite (ind_neq _ _ E) in *. lia.
  - intros tk H. change (toks (mint t p) tk) in H. apply toks_mint in H. destruct H as [H|(k & op & Hl & Hn & ->)].
    + apply good_mono, (sa_toks _ _ S), H.
    + destruct (sa_call _ _ S t k op Hl) as [A B]. cbn. rewrite app_length. cbn.
      split; [lia|]. split; [lia|]. split; [exact Hn|]. exists t, o. split.
      * rewrite nth_error_app1; assumption.
      * rewrite Hi, nth_error_app2, Nat.sub_diag by lia. reflexivity.
  - intros r tk H. cbn in H. rewrite M2 in H. destruct (sa_cons _ _ S r tk H) as (A & B & C & (t' & o' & E)).
    split; [apply good_mono, A|]. split; [exact B|]. rewrite app_length. cbn. split; [lia|].
    exists t', o'. rewrite nth_error_app1; assumption.
  - intros t' k op H. cbn in H. rewrite M3 in H. destruct (sa_call _ _ S t' k op H) as [A B].
    rewrite app_length. cbn. split; [lia|]. rewrite nth_error_app1; assumption.
Qed.

Lemma SA_consume D t o p : SA D p -> SA (D ++ [EStep t o]) (bump (consume t p)).
Proof.
  intros S. pose proof (sa_idx _ _ S) as Hi. unfold consume.
  destruct (lookup t (p_hold p)) as [tk0|] eqn:E; [|apply SA_id, S].
  assert (Hg0 : good D tk0) by (apply (sa_toks _ _ S); left; exists t; apply lookup_in, E).
  constructor.
  - cbn. rewrite Hi, app_length. cbn. lia.
  - intros m. pose proof (total_consume m t p) as X. unfold consume in X. rewrite E in X.
    pose proof (sa_total _ _ S m). unfold total in *. cbn in *. lia.
  - intros tk H. apply good_mono, (sa_toks _ _ S).
    assert (X : toks (consume t p) tk) by (unfold consume; rewrite E; exact H). eapply toks_consume, X.
  - intros r tk H. cbn in H. destruct H as [H|H].
    + injection H as <- <-. split; [apply good_mono, Hg0|]. rewrite app_length. cbn.
      destruct tk0 as [[m k] op]. cbn in Hg0. destruct Hg0 as (_ & X & _). cbn. split; [lia|]. split; [lia|].
      exists t, o. rewrite Hi, nth_error_app2, Nat.sub_diag by lia. reflexivity.
    + destruct (sa_cons _ _ S r tk H) as (A & B & C & (t' & o' & E')).
      split; [apply good_mono, A|]. split; [exact B|]. rewrite app_length. cbn. split; [lia|].
      exists t', o'. rewrite nth_error_app1; assumption.
  - intros t' k op H. cbn in H. destruct (sa_call _ _ S t' k op H) as [A B].
    rewrite app_length. cbn. split; [lia|]. rewrite nth_error_app1; assumption.
Qed.

Lemma lookup_aset_same {A} (l : list (nat * A)) k v : lookup k (aset k v l) = Some v.
Proof. unfold aset. cbn. rewrite Nat.eqb_refl. reflexivity. Qed.
Lemma lookup_aset_other {A} (l : list (nat * A)) k k' v : k' <> k -> lookup k' (aset k v l) = lookup k' l.
Proof.
  intros H. unfold aset. cbn. destruct (Nat.eqb k' k) eqn:E; [apply Nat.eqb_eq in E; congruence|].
  apply lookup_remove_other. exact H.
Qed.

Lemma SA_call D t op p : SA D p -> SA (D ++ [ECall t op]) (bump (set_pcall (aset t (p_idx p, op) (p_call p)) p)).
Proof.
  intros S. pose proof (sa_idx _ _ S) as Hi. constructor.
  - cbn. rewrite Hi, app_length. cbn. lia.
  - intros m. exact (sa_total _ _ S m).
  - intros tk H. apply good_mono, (sa_toks _ _ S), H.
  - intros r tk H. cbn in H. destruct (sa_cons _ _ S r tk H) as (A & B & C & (t' & o' & E')).
    split; [apply good_mono, A|]. split; [exact B|]. rewrite app_length. cbn. split; [lia|].
    exists t', o'. rewrite nth_error_app1; assumption.
  - intros t' k op' H. cbn [p_call set_pcall bump] in H. rewrite app_length. cbn [length].
    destruct (Nat.eq_dec t' t) as [->|Hne].
    + rewrite lookup_aset_same in H. injection H as <- <-. split; [lia|].
      rewrite Hi, nth_error_app2, Nat.sub_diag by lia. reflexivity.
    + rewrite lookup_aset_other in H by exact Hne. destruct (sa_call _ _ S t' k op' H) as [A B].
      split; [lia|]. rewrite nth_error_app1; assumption.
Qed.

Lemma SA_step D p c e : SA D p -> SA (D ++ [e]) (observe_p p c e).
Proof.
  intros S. unfold observe_p. destruct e as [t op|t o|t]; [apply SA_call, S| |apply SA_id, S].
  destruct (lookup t (c_thr c)) as [pc|]; [|apply SA_id, S].
  destruct pc; try (apply SA_id, S).
  - (* WT_Select *) destruct (_ && _); [|apply SA_id, S].
    apply (SA_move D _ p (chan_to_hold n t)); [exact S|intros; apply total_chan_to_hold|intros tk0; apply toks_chan_to_hold| | |];
      unfold chan_to_hold; destruct (lookup n (p_chan p)); reflexivity.
  - (* WT_Select1 *) destruct (mem_nat n (c_tok c)); [|apply SA_id, S].
    apply (SA_move D _ p (chan_to_hold n t)); [exact S|intros; apply total_chan_to_hold|intros tk0; apply toks_chan_to_hold| | |];
      unfold chan_to_hold; destruct (lookup n (p_chan p)); reflexivity.
  - (* FR_Put *) destruct ok; [apply SA_consume, S|apply SA_id, S].
  - (* LEN *) destruct x; destruct (c_size c =? 0)%Z; try (apply SA_id, S); try (apply SA_mint, S).
    apply (SA_move D _ p (drop_hold t)); [exact S|intros; apply total_drop|intros tk0; apply toks_drop| | |]; reflexivity.
  - (* NN_Send *) destruct (find_parked f (c_thr c)) as [u|].
    + apply (SA_move D _ p (hold_to_hold t u)); [exact S|intros; apply total_hold_to_hold|intros tk0; apply toks_hold_to_hold| | |];
        unfold hold_to_hold; destruct (lookup t (p_hold p)); reflexivity.
    + apply (SA_move D _ p (hold_to_chan t f)); [exact S|intros; apply total_hold_to_chan|intros tk0; apply toks_hold_to_chan| | |];
        unfold hold_to_chan; destruct (lookup t (p_hold p)); reflexivity.
Qed.

Lemma SA_init : SA [] p0.
Proof.
  constructor; try reflexivity.
  - intros m. cbn. lia.
  - intros tk [(t & [])|(n & [])].
  - intros r tk [].
  - intros t k op H. discriminate H.
Qed.

(* ---------- along every execution ---------- *)
Lemma runp_SA evs : forall D c pr c' pr', SA D pr -> runp c pr evs = Some (c', pr') -> SA (D ++ evs) pr'.
Proof.
  induction evs as [|e r IH]; intros D c pr c' pr' S H; cbn in H.
  - injection H as _ <-. rewrite app_nil_r. exact S.
  - destruct (cond_exec1 c e) as [[c1 obs]|]; [|discriminate].
    pose proof (IH _ _ _ _ _ (SA_step D pr c e S) H) as X. rewrite <- app_assoc in X. exact X.
Qed.

Lemma runp_cfg c pr evs c' pr' : runp c pr evs = Some (c', pr') -> exec cond_step c evs = Some c'.
Proof.
  revert c pr. induction evs as [|e r IH]; intros c pr; cbn.
  - intros H; injection H as <- _. reflexivity.
  - unfold cond_step at 1. destruct (cond_exec1 c e) as [[c1 obs]|]; [|discriminate]. apply IH.
Qed.

Lemma runp_total c pr evs c' : exec cond_step c evs = Some c' -> exists pr', runp c pr evs = Some (c', pr').
Proof.
  revert c pr. induction evs as [|e r IH]; intros c pr; cbn.
  - intros H; injection H as <-. eauto.
  - unfold cond_step at 1. destruct (cond_exec1 c e) as [[c1 obs]|]; [|discriminate]. apply IH.
Qed.

(* the tokens recorded as consumed by nil returns are pairwise distinct, and each was produced by a step of a
   Signal / Broadcast call: invocation < producing step < the nil return, in the schedule *)
Lemma provenance_lemma copied evs c pr :
  runp (cond_init copied) p0 evs = Some (c, pr) ->
  NoDup (map (fun x => tm (snd x)) (p_cons pr)) /\
  forall r m k op, In (r, (m, k, op)) (p_cons pr) ->
    k < m /\ m < r /\ is_notify op = true /\
    exists t' o t o', nth_error evs k = Some (ECall t' op) /\ nth_error evs m = Some (EStep t' o) /\
                      nth_error evs r = Some (EStep t o').
Proof.
  intros H. pose proof (runp_SA evs [] _ _ _ _ SA_init H) as S. cbn in S. split.
  - apply (NoDup_count_occ Nat.eq_dec). intros m. pose proof (sa_total _ _ S m) as X. unfold total, cntv in X. lia.
  - intros r m k op Hi. destruct (sa_cons _ _ S _ _ Hi) as (G & B & C & (t & o' & E)).
    cbn in G, B. destruct G as (G1 & G2 & G3 & (t' & o & E1 & E2)).
    split; [exact G1|]. split; [exact B|]. split; [exact G3|]. exists t', o, t, o'. auto.
Qed.
